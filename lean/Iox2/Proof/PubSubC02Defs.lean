/-
C02 — the global inductive invariant of the L1 publish-subscribe model (definitions only).

`Inv G w` is parameterised by a ghost context `G` that describes the deviations that exist
*inside* an API call (between two helper functions); the states between API calls satisfy
`Inv {} w`.
-/
import Iox2.Model.PubSub
import Iox2.Props.C16SlotMap

namespace Iox2.PubSub.C02P
open Iox2.PubSub
open Iox2.C16.SlotMapP (abs WInv)

/-- ghost context (topology part) of an API call in progress -/
structure GT where
  /-- `(s, slot)`: `S.conns[slot]` of subscriber `s` is being replaced and may dangle -/
  hole : Option (Nat × Nat) := none
  /-- the publisher under construction (alive, not yet in the registry) -/
  np : Option Nat := none
  /-- the subscriber under construction -/
  ns : Option Nat := none

/-- ghost context (accounting part) of an API call in progress -/
structure GA where
  /-- `(p, c)`: a `SampleMut` of publisher `p` for chunk `c` is being sent; it is no longer in
  `loans` but still owns one reference -/
  xp : Option (Nat × Nat) := none
  /-- the in-flight chunk is referenced by nothing else yet (its counter is one) -/
  xFresh : Bool := false

def extra (A : GA) (p c : Nat) : Nat := if A.xp = some (p, c) then 1 else 0

/-- chunks of publisher `p` held by subscriber `S` -/
def heldOf (S : Sub) (p : Nat) : List Nat := (S.held.filter fun h => h.pid = p).map (·.chunk)

def usedBit (w : World) (p s c : Nat) : Bool :=
  match getC w p s with | some cn => cn.used.getD c false | none => false

def connCnt (w : World) (p : Nat) (conns : List (Option Nat)) (c : Nat) : Nat :=
  (conns.filter fun sl => match sl with
    | some s => usedBit w p s c
    | none => false).length

def refCnt (w : World) (p : Nat) (P : Pub) (c : Nat) : Nat :=
  (P.loans.filter (·.2 = c)).length + (P.hist.filter (· = c)).length + connCnt w p P.conns c

/-- the publisher is (or was) registered: it is dead or sits in its registry slot -/
def PReg (w : World) (p : Nat) (P : Pub) : Prop :=
  P.alive = false ∨ w.pubReg.slots[P.slot]? = some (some p)

def SReg (w : World) (s : Nat) (S : Sub) : Prop :=
  S.alive = false ∨ ∃ e, w.subReg.slots[S.slot]? = some (some e) ∧ e.sid = s

/-! ### topology: registries, snapshots, connection arrays, attachment flags -/

structure RegOK (G : GT) (w : World) : Prop where
  lenP : w.pubReg.slots.length = w.cfg.maxPubs
  lenS : w.subReg.slots.length = w.cfg.maxSubs
  r1 : ∀ (i p : Nat), w.pubReg.slots[i]? = some (some p) →
    ∃ P, getP w p = some P ∧ P.alive = true ∧ P.slot = i
  r2 : ∀ (i : Nat) (e : SubEntry), w.subReg.slots[i]? = some (some e) →
    ∃ S, getS w e.sid = some S ∧ S.alive = true ∧ S.slot = i
  r3p : ∀ p P, getP w p = some P → G.np ≠ some p → PReg w p P
  r3s : ∀ s S, getS w s = some S → G.ns ≠ some s → SReg w s S
  npFresh : ∀ p, G.np = some p → ∀ i : Nat, w.pubReg.slots[i]? ≠ some (some p)
  nsFresh : ∀ s, G.ns = some s → ∀ (i : Nat) (e : SubEntry),
    w.subReg.slots[i]? = some (some e) → e.sid ≠ s
  npAlive : ∀ p, G.np = some p → ∃ P, getP w p = some P ∧ P.alive = true
  nsAlive : ∀ s, G.ns = some s → ∃ S, getS w s = some S ∧ S.alive = true
  nodup : w.conns.Pairwise fun a b => ¬ (a.pid = b.pid ∧ a.sid = b.sid)

structure PubTop (G : GT) (w : World) (p : Nat) (P : Pub) : Prop where
  lenC : P.conns.length = w.cfg.maxSubs
  lenSnap : P.snap.length = w.cfg.maxSubs
  aliveEx : P.alive = true → P.ex = true
  dead : P.ex = false → ∀ x ∈ P.conns, x = none
  conn : ∀ (i s : Nat), P.conns[i]? = some (some s) →
    ∃ S, getS w s = some S ∧ S.slot = i ∧ SReg w s S ∧ G.ns ≠ some s ∧
      (S.alive = true → ∃ e, P.snap[i]? = some (some e) ∧ e.sid = s) ∧
      ∃ cn, getC w p s = some cn ∧ cn.sAtt = true
  snap : ∀ (i : Nat) (e : SubEntry), P.snap[i]? = some (some e) →
    ∃ S, getS w e.sid = some S ∧ S.slot = i ∧ SReg w e.sid S ∧ G.ns ≠ some e.sid

structure SubTop (G : GT) (w : World) (s : Nat) (S : Sub) : Prop where
  lenC : S.conns.length = w.cfg.maxPubs
  lenSnap : S.snap.length = w.cfg.maxPubs
  aliveEx : S.alive = true → S.ex = true
  dead : S.ex = false → ∀ k, abs S.storage k = none
  winv : WInv S.storage
  stor : ∀ (k p : Nat), abs S.storage k = some p →
    (∃ cn, getC w p s = some cn ∧ cn.rAtt = true) ∧
    ∃ P, getP w p = some P ∧ PReg w p P ∧ G.np ≠ some p ∧
      ((∃ j : Nat, G.hole ≠ some (s, j) ∧ S.conns[j]? = some (some k)) ∨
       (P.alive = false ∧ ∀ j : Nat, S.snap[j]? ≠ some (some p)))
  inj : ∀ (k1 k2 p : Nat), abs S.storage k1 = some p → abs S.storage k2 = some p → k1 = k2
  conn : ∀ (j k : Nat), S.conns[j]? = some (some k) → G.hole ≠ some (s, j) →
    ∃ p P, abs S.storage k = some p ∧ getP w p = some P ∧ P.slot = j ∧
      (P.alive = true → S.snap[j]? = some (some p))
  snap : ∀ (j p : Nat), S.snap[j]? = some (some p) →
    ∃ P, getP w p = some P ∧ P.slot = j ∧ PReg w p P ∧ G.np ≠ some p
  tbrNodup : S.tbr.Nodup
  tbr : ∀ k ∈ S.tbr, (∃ p, abs S.storage k = some p) ∧
    ∀ j : Nat, S.conns[j]? = some (some k) → G.hole = some (s, j)

structure ConnTop (cn : Conn) (P : Pub) (S : Sub) : Prop where
  att : cn.sAtt = true ∨ cn.rAtt = true
  sAtt : cn.sAtt = true ↔ some cn.sid ∈ P.conns
  rAtt : cn.rAtt = true ↔ ∃ k, abs S.storage k = some cn.pid

structure TopInv (G : GT) (w : World) : Prop where
  reg : RegOK G w
  pubs : ∀ p P, getP w p = some P → PubTop G w p P
  subs : ∀ s S, getS w s = some S → SubTop G w s S
  conns : ∀ p s cn, getC w p s = some cn →
    ∃ P S, getP w p = some P ∧ getS w s = some S ∧ ConnTop cn P S

/-! ### accounting: reference counters, used bits, queues, held samples -/

/-- the free list holds exactly the chunks whose counter is zero -/
structure FreeOK (P : Pub) : Prop where
  rcLen : P.rc.length = P.n
  freeNodup : P.free.Nodup
  freeIff : ∀ c, c ∈ P.free ↔ (c < P.n ∧ P.rc.getD c 0 = 0)

/-- reference accounting of a publisher whose shared state exists -/
structure PubAcc (A : GA) (w : World) (p : Nat) (P : Pub) : Prop where
  free : FreeOK P
  rcEq : ∀ c, c < P.n → P.rc.getD c 0 = refCnt w p P c + extra A p c
  loans : ∀ l c, (l, c) ∈ P.loans → c < P.n ∧ P.rc.getD c 0 = 1
  loanLbl : (P.loans.map (·.1)).Nodup
  histNodup : P.hist.Nodup
  histLt : ∀ c ∈ P.hist, c < P.n
  xLt : ∀ c, A.xp = some (p, c) → c < P.n
  xFresh : ∀ c, A.xp = some (p, c) → A.xFresh = true → P.rc.getD c 0 = 1

/-- what is in flight on a connection: submission queue, completion queue, borrowed samples -/
def flight (cn : Conn) (S : Sub) : List Nat := cn.sub.map (·.1) ++ cn.comp ++ heldOf S cn.pid

structure ConnAcc (cfg : Cfg) (cn : Conn) (P : Pub) (S : Sub) : Prop where
  usedLen : cn.used.length = P.n
  subCap : cn.sub.length ≤ max cn.cap 1
  borrowMax : cn.borrow ≤ cfg.borrowMax
  total : cn.sub.length + cn.borrow + cn.comp.length ≤ max cn.cap 1 + cfg.borrowMax
  borrow : cn.borrow = (heldOf S cn.pid).length
  nodup : cn.sAtt = true → (flight cn S).Nodup
  used : cn.sAtt = true → ∀ c, cn.used.getD c false = true ↔ c ∈ flight cn S
  idle : cn.sAtt = false → P.ex = true →
    (∀ c, cn.used.getD c false = false) ∧
    (S.alive = true → cn.sub = [] ∧ cn.comp = [] ∧ cn.borrow = 0)

structure AccInv (A : GA) (w : World) : Prop where
  pubs : ∀ p P, getP w p = some P →
    (P.ex = true → PubAcc A w p P) ∧ (P.ex = false → P.loans = [])
  subs : ∀ s S, getS w s = some S →
    (S.ex = false → S.held = []) ∧ (∀ h ∈ S.held, abs S.storage h.key = some h.pid) ∧
    (S.alive = true → ∀ h ∈ S.held, ∃ P, getP w h.pid = some P ∧ P.payload.getD h.chunk 0 = h.tag)
  conns : ∀ p s cn, getC w p s = some cn → ∀ P S, getP w p = some P → getS w s = some S →
    ConnAcc w.cfg cn P S

structure Inv (G : GT) (A : GA) (w : World) : Prop where
  top : TopInv G w
  acc : AccInv A w

/-! ### observations the topology invariant depends on -/

def ptop (P : Pub) : Bool × Bool × Nat × List (Option Nat) × List (Option SubEntry) :=
  (P.alive, P.ex, P.slot, P.conns, P.snap)
def stop (S : Sub) :
    Bool × Bool × Nat × List (Option Nat) × List (Option Nat) × SlotMap.St Nat × List Nat :=
  (S.alive, S.ex, S.slot, S.conns, S.snap, S.storage, S.tbr)
def ctop (c : Conn) : Nat × Nat × Bool × Bool := (c.pid, c.sid, c.sAtt, c.rAtt)

/-- `w'` has the same topology as `w` -/
structure TopEq (w w' : World) : Prop where
  cfg : w'.cfg = w.cfg
  pubReg : w'.pubReg = w.pubReg
  subReg : w'.subReg = w.subReg
  pubs : ∀ p, (getP w' p).map ptop = (getP w p).map ptop
  subs : ∀ s, (getS w' s).map stop = (getS w s).map stop
  conns : ∀ p s, (getC w' p s).map ctop = (getC w p s).map ctop
  nodup : w'.conns.Pairwise fun a b => ¬ (a.pid = b.pid ∧ a.sid = b.sid)

end Iox2.PubSub.C02P
