/-
C06 — building blocks for the invariant proof of the service-lifetime model: list lemmas, the
list-level views `refCountL`, `stateCountL`, `findL` and the three parts `SvcOK`, `RefOK`, `StOK`
of the invariant.
-/
import Iox2.Model.ServiceLife

namespace Iox2.ServiceLife

/-! ## generic list lemmas -/

theorem nodup_map_inj {α β : Type} {f : α → β} : ∀ {l : List α}, (l.map f).Nodup →
    ∀ {a b : α}, a ∈ l → b ∈ l → f a = f b → a = b
  | [], _, _, _, ha, _, _ => by cases ha
  | x :: xs, hn, a, b, ha, hb, hab => by
    rw [List.map_cons, List.nodup_cons] at hn
    rcases List.mem_cons.1 ha with rfl | ha' <;> rcases List.mem_cons.1 hb with rfl | hb'
    · rfl
    · exact absurd (hab ▸ List.mem_map.2 ⟨b, hb', rfl⟩) hn.1
    · exact absurd (hab ▸ List.mem_map.2 ⟨a, ha', rfl⟩) hn.1
    · exact nodup_map_inj hn.2 ha' hb' hab

theorem nodup_insert_middle {α : Type} {a : α} {l1 l2 : List α} (h : (l1 ++ l2).Nodup) (ha : a ∉ l1 ++ l2) :
    (l1 ++ a :: l2).Nodup :=
  (List.perm_middle.nodup_iff).2 (List.nodup_cons.2 ⟨ha, h⟩)

theorem sublist_remove_middle {α : Type} (a : α) (l1 l2 : List α) : (l1 ++ l2).Sublist (l1 ++ a :: l2) :=
  (List.sublist_cons_self a l2).append_left l1

theorem mem_remove_middle {α : Type} {a x : α} {l1 l2 : List α} (h : x ∈ l1 ++ l2) : x ∈ l1 ++ a :: l2 :=
  (sublist_remove_middle a l1 l2).subset h

theorem mem_middle_iff {α : Type} {a x : α} {l1 l2 : List α} : x ∈ l1 ++ a :: l2 ↔ x = a ∨ x ∈ l1 ++ l2 := by
  simp only [List.mem_append, List.mem_cons]
  constructor
  · rintro (h | h | h)
    · exact Or.inr (Or.inl h)
    · exact Or.inl h
    · exact Or.inr (Or.inr h)
  · rintro (h | h | h)
    · exact Or.inr (Or.inl h)
    · exact Or.inl h
    · exact Or.inr (Or.inr h)

theorem filter_not_split {α : Type} (sel : α → Bool) (l1 l2 : List α) (a : α)
    (h1 : ∀ x ∈ l1, sel x = false) (ha : sel a = true) (h2 : ∀ x ∈ l2, sel x = false) :
    (l1 ++ a :: l2).filter (fun x => !sel x) = l1 ++ l2 := by
  rw [List.filter_append, List.filter_cons]
  simp only [ha, Bool.not_true, Bool.false_eq_true, if_false]
  have e1 : l1.filter (fun x => !sel x) = l1 := List.filter_eq_self.2 (fun x hx => by simp [h1 x hx])
  have e2 : l2.filter (fun x => !sel x) = l2 := List.filter_eq_self.2 (fun x hx => by simp [h2 x hx])
  rw [e1, e2]

theorem map_sel_split {α : Type} (sel : α → Bool) (l1 l2 : List α) (a a' : α)
    (h1 : ∀ x ∈ l1, sel x = false) (ha : sel a = true) (h2 : ∀ x ∈ l2, sel x = false) :
    (l1 ++ a :: l2).map (fun x => if sel x then a' else x) = l1 ++ a' :: l2 := by
  rw [List.map_append, List.map_cons]
  simp only [ha, if_true]
  have e1 : l1.map (fun x => if sel x then a' else x) = l1 := by
    conv => rhs; rw [← List.map_id l1]
    exact List.map_congr_left (fun x hx => by simp [h1 x hx])
  have e2 : l2.map (fun x => if sel x then a' else x) = l2 := by
    conv => rhs; rw [← List.map_id l2]
    exact List.map_congr_left (fun x hx => by simp [h2 x hx])
  rw [e1, e2]

theorem find?_split {α : Type} {sel : α → Bool} {l : List α} {a : α} (h : l.find? sel = some a) :
    sel a = true ∧ ∃ l1 l2, l = l1 ++ a :: l2 ∧ ∀ x ∈ l1, sel x = false := by
  rcases List.find?_eq_some_iff_append.1 h with ⟨ha, l1, l2, e, hl⟩
  exact ⟨ha, l1, l2, e, fun x hx => by simpa using hl x hx⟩

/-! ## reference counts -/

abbrev Ref := Nat × Key × Nat

def refCountL (refs : List Ref) (n : Nat) (k : Key) : Nat :=
  match refs.find? (fun r => r.1 == n && r.2.1 == k) with
  | some r => r.2.2
  | none => 0

theorem refCount_eq (w : World) (n : Nat) (k : Key) : refCount w n k = refCountL w.refs n k := rfl

def stateCountL (sts : List SState) (n : Nat) (k : Key) : Nat :=
  (sts.filter (fun st => st.node == n && st.key == k)).length

theorem stateCount_eq (w : World) (n : Nat) (k : Key) : stateCount w n k = stateCountL w.states n k := rfl

theorem refCountL_nil (n : Nat) (k : Key) : refCountL [] n k = 0 := rfl

theorem refCountL_cons (r : Ref) (l : List Ref) (n : Nat) (k : Key) :
    refCountL (r :: l) n k = if r.1 = n ∧ r.2.1 = k then r.2.2 else refCountL l n k := by
  unfold refCountL
  rw [List.find?_cons]
  by_cases h : r.1 = n ∧ r.2.1 = k
  · simp [h]
  · have : (r.1 == n && r.2.1 == k) = false := by
      cases hb : (r.1 == n && r.2.1 == k)
      · rfl
      · exact absurd (by simpa using hb) h
    simp [this, h]

/-- increment / decrement of the entry of `(n, k)` -/
def updRef (n : Nat) (k : Key) (g : Nat → Nat) (r : Ref) : Ref :=
  if r.1 == n && r.2.1 == k then (r.1, r.2.1, g r.2.2) else r

theorem bsel_true {n a : Nat} {k b : Key} (h : a = n ∧ b = k) : (a == n && b == k) = true := by
  simp [h.1, h.2]

theorem bsel_false {n a : Nat} {k b : Key} (h : ¬(a = n ∧ b = k)) : (a == n && b == k) = false := by
  cases hb : (a == n && b == k)
  · rfl
  · exact absurd (by simpa using hb) h

theorem updRef_of {n : Nat} {k : Key} (g : Nat → Nat) {r : Ref} (h : r.1 = n ∧ r.2.1 = k) :
    updRef n k g r = (r.1, r.2.1, g r.2.2) := by
  unfold updRef; rw [bsel_true h]; rfl

theorem updRef_of_not {n : Nat} {k : Key} (g : Nat → Nat) {r : Ref} (h : ¬(r.1 = n ∧ r.2.1 = k)) :
    updRef n k g r = r := by
  unfold updRef; rw [bsel_false h]; rfl

theorem updRef_fst (n : Nat) (k : Key) (g : Nat → Nat) (r : Ref) : (updRef n k g r).1 = r.1 := by
  unfold updRef; split <;> rfl

theorem updRef_snd_fst (n : Nat) (k : Key) (g : Nat → Nat) (r : Ref) : (updRef n k g r).2.1 = r.2.1 := by
  unfold updRef; split <;> rfl

theorem refCountL_map_ne (n : Nat) (k : Key) (g : Nat → Nat) (n' : Nat) (k' : Key) (hne : ¬(n' = n ∧ k' = k)) :
    ∀ l : List Ref, refCountL (l.map (updRef n k g)) n' k' = refCountL l n' k'
  | [] => rfl
  | r :: l => by
    rw [List.map_cons, refCountL_cons, refCountL_cons, refCountL_map_ne n k g n' k' hne l,
      updRef_fst, updRef_snd_fst]
    by_cases hm : r.1 = n' ∧ r.2.1 = k'
    · have : ¬(r.1 = n ∧ r.2.1 = k) := fun hh => hne ⟨hm.1 ▸ hh.1, hm.2 ▸ hh.2⟩
      rw [updRef_of_not g this]
    · rw [if_neg hm, if_neg hm]

theorem refCountL_map_eq (n : Nat) (k : Key) (g : Nat → Nat) :
    ∀ l : List Ref, refCountL (l.map (updRef n k g)) n k =
      if (l.find? (fun r => r.1 == n && r.2.1 == k)).isSome then g (refCountL l n k) else 0
  | [] => rfl
  | r :: l => by
    rw [List.map_cons, refCountL_cons, refCountL_map_eq n k g l, List.find?_cons,
      updRef_fst, updRef_snd_fst, refCountL_cons]
    by_cases hm : r.1 = n ∧ r.2.1 = k
    · rw [bsel_true hm, if_pos hm, if_pos hm, updRef_of g hm]; rfl
    · rw [bsel_false hm, if_neg hm, if_neg hm]

theorem refCountL_filter (n : Nat) (k : Key) (n' : Nat) (k' : Key) :
    ∀ l : List Ref, refCountL (l.filter (fun r => !(r.1 == n && r.2.1 == k))) n' k' =
      if n' = n ∧ k' = k then 0 else refCountL l n' k'
  | [] => by simp [refCountL_nil]
  | r :: l => by
    rw [List.filter_cons]
    by_cases hm : r.1 = n ∧ r.2.1 = k
    · have hb : (r.1 == n && r.2.1 == k) = true := by simp [hm.1, hm.2]
      simp only [hb, Bool.not_true, Bool.false_eq_true, if_false]
      rw [refCountL_filter n k n' k' l, refCountL_cons]
      by_cases hq : n' = n ∧ k' = k
      · simp [hq]
      · have : ¬(r.1 = n' ∧ r.2.1 = k') := fun hh => hq ⟨hh.1 ▸ hm.1, hh.2 ▸ hm.2⟩
        simp [hq, this]
    · have hb : (r.1 == n && r.2.1 == k) = false := by
        cases hb : (r.1 == n && r.2.1 == k)
        · rfl
        · exact absurd (by simpa using hb) hm
      simp only [hb, Bool.not_false, if_true]
      rw [refCountL_cons, refCountL_cons, refCountL_filter n k n' k' l]
      by_cases hq : n' = n ∧ k' = k
      · simp [hq]
        intro a b; exact absurd ⟨a, b⟩ hm
      · simp [hq]

/-- a present entry is what `refCountL` finds (keys are unique) -/
theorem refCountL_of_mem : ∀ {l : List Ref}, (l.map (fun r => (r.1, r.2.1))).Nodup →
    ∀ {r : Ref}, r ∈ l → refCountL l r.1 r.2.1 = r.2.2
  | [], _, _, h => by cases h
  | a :: l, hn, r, h => by
    rw [List.map_cons, List.nodup_cons] at hn
    rw [refCountL_cons]
    rcases List.mem_cons.1 h with rfl | h'
    · simp
    · have : ¬(a.1 = r.1 ∧ a.2.1 = r.2.1) := by
        intro hh
        apply hn.1
        have : (a.1, a.2.1) = (r.1, r.2.1) := by rw [hh.1, hh.2]
        rw [this]
        exact List.mem_map.2 ⟨r, h', rfl⟩
      simp only [this, if_false]
      exact refCountL_of_mem hn.2 h'

theorem mem_of_refCountL_ne_zero {l : List Ref} {n : Nat} {k : Key} (h : refCountL l n k ≠ 0) :
    (n, k, refCountL l n k) ∈ l := by
  unfold refCountL at h ⊢
  cases hf : l.find? (fun r => r.1 == n && r.2.1 == k) with
  | none => rw [hf] at h; exact absurd rfl h
  | some r =>
    have hm := List.mem_of_find?_eq_some hf
    have hp := List.find?_some hf
    simp only [Bool.and_eq_true, beq_iff_eq] at hp
    obtain ⟨r1, r2, r3⟩ := r
    simp only at hp
    rw [← hp.1, ← hp.2]
    exact hm

theorem find_isSome_of_refCountL_ne_zero {l : List Ref} {n : Nat} {k : Key} (h : refCountL l n k ≠ 0) :
    (l.find? (fun r => r.1 == n && r.2.1 == k)).isSome = true := by
  unfold refCountL at h
  cases hf : l.find? (fun r => r.1 == n && r.2.1 == k) with
  | none => rw [hf] at h; exact absurd rfl h
  | some r => rfl

/-- no entry of `(n, k)` when the count is 0 and all counts are positive -/
theorem not_mem_keys_of_refCountL_zero {l : List Ref} (hpos : ∀ r ∈ l, 1 ≤ r.2.2) {n : Nat} {k : Key}
    (h : refCountL l n k = 0) : (n, k) ∉ l.map (fun r => (r.1, r.2.1)) := by
  intro hm
  rcases List.mem_map.1 hm with ⟨r, hr, e⟩
  have e1 : r.1 = n := congrArg Prod.fst e
  have e2 : r.2.1 = k := congrArg Prod.snd e
  unfold refCountL at h
  cases hf : l.find? (fun r => r.1 == n && r.2.1 == k) with
  | none =>
    have := List.find?_eq_none.1 hf r hr
    simp [e1, e2] at this
  | some r' =>
    rw [hf] at h
    have := hpos r' (List.mem_of_find?_eq_some hf)
    simp only at h
    omega

/-! ## state counts -/

theorem stateCountL_nil (n : Nat) (k : Key) : stateCountL [] n k = 0 := rfl

theorem stateCountL_cons (st : SState) (l : List SState) (n : Nat) (k : Key) :
    stateCountL (st :: l) n k = (if st.node = n ∧ st.key = k then 1 else 0) + stateCountL l n k := by
  unfold stateCountL
  rw [List.filter_cons]
  by_cases h : st.node = n ∧ st.key = k
  · simp [h]; omega
  · have : (st.node == n && st.key == k) = false := by
      cases hb : (st.node == n && st.key == k)
      · rfl
      · exact absurd (by simpa using hb) h
    simp [this, h]

theorem stateCountL_append (l1 l2 : List SState) (n : Nat) (k : Key) :
    stateCountL (l1 ++ l2) n k = stateCountL l1 n k + stateCountL l2 n k := by
  unfold stateCountL; rw [List.filter_append, List.length_append]

theorem stateCountL_middle (l1 l2 : List SState) (st : SState) (n : Nat) (k : Key) :
    stateCountL (l1 ++ st :: l2) n k = (if st.node = n ∧ st.key = k then 1 else 0) + stateCountL (l1 ++ l2) n k := by
  rw [stateCountL_append, stateCountL_cons, stateCountL_append]; omega

theorem stateCountL_pos_iff {l : List SState} {n : Nat} {k : Key} :
    1 ≤ stateCountL l n k ↔ ∃ st ∈ l, st.node = n ∧ st.key = k := by
  unfold stateCountL
  rw [show (1 ≤ (l.filter (fun st => st.node == n && st.key == k)).length) ↔
      0 < (l.filter (fun st => st.node == n && st.key == k)).length from Iff.rfl,
    List.length_pos_iff_exists_mem]
  constructor
  · rintro ⟨st, hst⟩
    rw [List.mem_filter] at hst
    exact ⟨st, hst.1, by simpa using hst.2⟩
  · rintro ⟨st, hst, h1, h2⟩
    exact ⟨st, List.mem_filter.2 ⟨hst, by simp [h1, h2]⟩⟩

theorem stateCountL_zero_iff {l : List SState} {n : Nat} {k : Key} :
    stateCountL l n k = 0 ↔ ∀ st ∈ l, ¬(st.node = n ∧ st.key = k) := by
  constructor
  · intro h st hst hh
    have := stateCountL_pos_iff.2 ⟨st, hst, hh⟩
    omega
  · intro h
    cases hc : stateCountL l n k with
    | zero => rfl
    | succ m =>
      rcases stateCountL_pos_iff.1 (by omega : 1 ≤ stateCountL l n k) with ⟨st, hst, hh⟩
      exact absurd hh (h st hst)

/-! ## services -/

def findL (svcs : List Svc) (k : Key) : Option Svc := svcs.find? (fun s => s.key == k)

theorem findSvc_eq (w : World) (k : Key) : findSvc w k = findL w.svcs k := rfl

theorem findL_some {svcs : List Svc} {k : Key} {s : Svc} (h : findL svcs k = some s) : s ∈ svcs ∧ s.key = k :=
  ⟨List.mem_of_find?_eq_some h, by simpa using List.find?_some h⟩

theorem findL_none {svcs : List Svc} {k : Key} (h : findL svcs k = none) : ∀ s ∈ svcs, s.key ≠ k := by
  intro s hs
  simpa using List.find?_eq_none.1 h s hs

theorem findL_isSome_of_mem {svcs : List Svc} {s : Svc} (hs : s ∈ svcs) : (findL svcs s.key).isSome = true :=
  List.find?_isSome.2 ⟨s, hs, by simp⟩

theorem findL_of_mem {svcs : List Svc} (hn : (svcs.map (·.key)).Nodup) {s : Svc} (hs : s ∈ svcs) :
    findL svcs s.key = some s := by
  cases hf : findL svcs s.key with
  | none => exact absurd rfl (findL_none hf s hs)
  | some s' =>
    have := findL_some hf
    rw [nodup_map_inj hn this.1 hs this.2]

/-! ## the three parts of the invariant, on lists -/

structure SvcOK (svcs : List Svc) (sts : List SState) (u : Nat) : Prop where
  keysNodup : (svcs.map (·.key)).Nodup
  stSvc : ∀ st ∈ sts, ∃ svc ∈ svcs, svc.key = st.key ∧ st.node ∈ svc.regs ∧ svc.uid = st.uid ∧ svc.cfg = st.cfg
  svcSt : ∀ svc ∈ svcs, svc.regs ≠ [] ∧ svc.regs.Nodup ∧ ∀ n ∈ svc.regs, ∃ st ∈ sts, st.node = n ∧ st.key = svc.key
  svcCfg : ∀ svc ∈ svcs, svc.cfg = mkSettings svc.key.p svc.creq ∧ svc.uid < u

structure RefOK (refs : List Ref) (sts : List SState) : Prop where
  nodup : (refs.map (fun r => (r.1, r.2.1))).Nodup
  pos : ∀ r ∈ refs, 1 ≤ r.2.2
  cnt : ∀ n k, refCountL refs n k = stateCountL sts n k

structure StOK (sts : List SState) : Prop where
  facNodup : (sts.filterMap (·.factory)).Nodup
  portNodup : (sts.flatMap (fun st => st.ports.map (·.1))).Nodup
  live : ∀ st ∈ sts, st.factory.isSome ∨ st.ports ≠ []

/-- the invariant, regrouped -/
structure WF (w : World) : Prop where
  svc : SvcOK w.svcs w.states w.nextUid
  ref : RefOK w.refs w.states
  st : StOK w.states

end Iox2.ServiceLife
