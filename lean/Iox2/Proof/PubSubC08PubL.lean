/-
C08 helper: publisher-side actions preserve the invariant (part L: destroying a publisher).
-/
import Iox2.Proof.PubSubC08PubK
set_option linter.unusedSimpArgs false
set_option linter.unusedVariables false
namespace Iox2.PubSub.C08
open Iox2.PubSub
open Iox2.C16.SlotMapP (abs)
attribute [-simp] List.getD_eq_getElem?_getD

/-- the sender side of a connection goes away -/
def detS (c : Conn) : Option Conn := if c.rAtt then some { c with sAtt := false } else none

theorem detS_idem (o : Option Conn) : (o.bind detS).bind detS = o.bind detS := by
  cases o with
  | none => rfl
  | some c =>
    simp only [Option.bind_some]
    unfold detS
    by_cases h : c.rAtt = true
    · simp [h]
    · simp [h]

theorem detachSender_getC (w : World) (p s a b : Nat) :
    getC (detachSender w p s) a b = if a = p ∧ b = s then (getC w p s).bind detS else getC w a b := by
  rw [detachSender_eq]
  cases hc : getC w p s with
  | none =>
    simp only [Option.bind_none]
    by_cases hab : a = p ∧ b = s
    · obtain ⟨rfl, rfl⟩ := hab; simp [hc]
    · simp [hab]
  | some c =>
    have hkey := getC_key hc
    simp only [Option.bind_some]
    unfold detS
    by_cases hr : c.rAtt = true
    · rw [if_pos hr, if_pos hr]
      have hk : ({ c with sAtt := false } : Conn).pid = p ∧ ({ c with sAtt := false } : Conn).sid = s := hkey
      rw [getC_setC_self hc _ hk]
    · rw [if_neg hr, if_neg hr]
      rw [getC_dropC']

theorem detachSender_uniq {w : World} (h : ConnsUniq w) (p s : Nat) : ConnsUniq (detachSender w p s) := by
  rw [detachSender_eq]
  split
  · exact h
  · split
    · exact h.setC _
    · exact h.dropC _ _

theorem pubDestroySlots_shape (w : World) (p : Nat) (slots : List (Option Nat)) :
    (∀ a b, getC (pubDestroySlots w p slots) a b =
      if a = p ∧ some b ∈ slots then (getC w a b).bind detS else getC w a b) ∧
    (ConnsUniq w → ConnsUniq (pubDestroySlots w p slots)) := by
  induction slots generalizing w with
  | nil => exact ⟨fun a b => by simp [pubDestroySlots], fun h => h⟩
  | cons sl r ih =>
    cases sl with
    | none =>
      rw [pubDestroySlots]
      obtain ⟨i1, i2⟩ := ih w
      refine ⟨fun a b => ?_, i2⟩
      rw [i1]; simp
    | some s =>
      rw [pubDestroySlots]
      obtain ⟨i1, i2⟩ := ih (detachSender w p s)
      refine ⟨fun a b => ?_, fun h => i2 (detachSender_uniq h p s)⟩
      rw [i1, detachSender_getC]
      by_cases ha : a = p
      · subst ha
        by_cases hbs : b = s
        · subst hbs
          by_cases hbr : some b ∈ r
          · simp [hbr, detS_idem]
          · simp [hbr]
        · by_cases hbr : some b ∈ r
          · simp [hbr, hbs]
          · simp [hbr, hbs]
      · simp [ha]

theorem detachSender_pubs (w : World) (p s : Nat) : (detachSender w p s).pubs = w.pubs := by
  rw [detachSender_eq]; split
  · rfl
  · split <;> rfl

theorem pubDestroySlots_pubs (w : World) (p : Nat) (slots : List (Option Nat)) :
    (pubDestroySlots w p slots).pubs = w.pubs := by
  induction slots generalizing w with
  | nil => rfl
  | cons sl r ih =>
    cases sl with
    | none => rw [pubDestroySlots]; exact ih w
    | some s => rw [pubDestroySlots, ih, detachSender_pubs]

theorem getP_of_pubs {w w' : World} (h : w'.pubs = w.pubs) (q : Nat) : getP w' q = getP w q := by
  unfold getP; rw [h]

theorem pubDestroy_inv {cfg : Cfg} {w : World} {xp : Option Nat} {p0 : Nat} {xs : List Nat} {st : Bool}
    (h : InvP cfg w xp p0 xs st) (p : Nat) (hx : p ≠ p0 → xs = []) :
    InvP cfg (pubDestroyIfUnreferenced w p) xp p0 xs st := by
  unfold pubDestroyIfUnreferenced
  cases hp : getP w p with
  | none => exact h
  | some P =>
    dsimp only
    split
    · exact h
    next hcond =>
      have hal : P.alive = false := by
        cases ha : P.alive with
        | false => rfl
        | true => simp [ha] at hcond
      obtain ⟨hSl, -⟩ := h.p p P hp
      obtain ⟨s1, s2⟩ := pubDestroySlots_shape w p P.conns
      have hpubs : ∀ q, getP (pubDestroySlots w p P.conns) q = getP w q :=
        getP_of_pubs (pubDestroySlots_pubs w p P.conns)
      have hfr : PFrame w (setP (pubDestroySlots w p P.conns) p
          { P with ex := false, conns := P.conns.map fun _ => none }) := by
        have := PFrame.of_PStep (pubDestroySlots_P w p P.conns)
        exact ⟨this.cfg, this.pubReg, this.subReg, this.subs⟩
      have hgP : ∀ q, getP (setP (pubDestroySlots w p P.conns) p
          { P with ex := false, conns := P.conns.map fun _ => none }) q =
          if q = p then some { P with ex := false, conns := P.conns.map fun _ => none } else getP w q := by
        intro q; rw [getP_setP, hpubs, hpubs, hp]; rfl
      have hgC : ∀ a b, getC (setP (pubDestroySlots w p P.conns) p
          { P with ex := false, conns := P.conns.map fun _ => none }) a b =
          if a = p ∧ some b ∈ P.conns then (getC w a b).bind detS else getC w a b := by
        intro a b; rw [getC_setP, s1]
      have hsim00 : PubSim00 P { P with ex := false, conns := P.conns.map fun _ => none } := ⟨rfl, rfl⟩
      have hnone : ∀ (i s : Nat), (P.conns.map fun _ => (none : Option Nat))[i]? ≠ some (some s) := by
        intro i s hi
        rw [List.getElem?_map] at hi
        cases hv : P.conns[i]? <;> simp [hv] at hi
      refine h.rebuild00 (xs' := xs) (st' := st) p hfr (fun q hq => by rw [hgP]; simp [hq])
        (fun q s hq => by rw [hgC]; simp [hq]) ?_ ((s2 h.u).of_conns rfl) (fun hne => ⟨hx hne, hx hne⟩) ?_ ?_ ?_
      · constructor
        · intro q Q hq
          rw [hgP]
          by_cases hqp : q = p
          · subst hqp; rw [hp] at hq; cases hq; exact ⟨_, by simp, hsim00⟩
          · exact ⟨Q, by simp [hqp, hq], ⟨rfl, rfl⟩⟩
        · intro q Q' hq
          rw [hgP] at hq
          by_cases hqp : q = p
          · subst hqp; simp at hq; subst hq; exact ⟨P, hp, hsim00⟩
          · simp [hqp] at hq; exact ⟨Q', hq, ⟨rfl, rfl⟩⟩
      · intro s c hc hr
        rw [hgC]
        by_cases hm : some s ∈ P.conns
        · refine ⟨{ c with sAtt := false }, ?_, hr⟩
          simp [hm, hc, detS, hr]
        · exact ⟨c, by simp [hm, hc], hr⟩
      · intro s c' hc'
        rw [hgC] at hc'
        -- the connection before, with the sender detached
        have key : ∃ c, getC w p s = some c ∧ c'.sAtt = false ∧ ConnCore c { c' with sAtt := c.sAtt } ∧
            c'.sub = c.sub ∧ c'.used = c.used := by
          by_cases hm : some s ∈ P.conns
          · simp only [hm, and_self, if_true] at hc'
            cases hc : getC w p s with
            | none => rw [hc] at hc'; cases hc'
            | some c =>
              rw [hc] at hc'
              simp only [Option.bind_some, detS] at hc'
              split at hc'
              · cases hc'
                exact ⟨c, rfl, rfl, ⟨rfl, rfl, rfl, rfl, rfl, rfl, rfl⟩, rfl, rfl⟩
              · cases hc'
          · simp only [hm, and_false, if_false] at hc'
            refine ⟨c', hc', ?_, ⟨rfl, rfl, rfl, rfl, rfl, rfl, rfl⟩, rfl, rfl⟩
            cases hsa : c'.sAtt with
            | false => rfl
            | true =>
              obtain ⟨P1, hp1, _, i, hi⟩ := (h.c p s c' hc').inSlot hsa
              rw [hp] at hp1; cases hp1
              exact absurd (List.mem_of_getElem? hi) hm
        obtain ⟨c, hc, hnsa, k1, k2, k3⟩ := key
        have hCI := h.c p s c hc
        have e3 : c'.cap = c.cap := k1.cap
        have e4 : c'.comp = c.comp := k1.comp
        have e5 : c'.borrow = c.borrow := k1.borrow
        refine ⟨⟨by rw [e3]; exact hCI.ok.cap1, by rw [e3]; exact hCI.ok.capM, by rw [k2, e3]; exact hCI.ok.subLe,
          by rw [e5]; exact hCI.ok.borLe, by rw [k2, e5, e4, e3]; exact hCI.ok.tot⟩,
          ⟨{ P with ex := false, conns := P.conns.map fun _ => none }, by rw [hgP]; simp⟩,
          by rw [hfr.subs]; exact hCI.hasS, ?_, ?_, ?_, ?_, ?_⟩
        · intro S hS; rw [hfr.subs] at hS; rw [e5]; exact hCI.held S hS
        · intro ha; rw [hnsa] at ha; cases ha
        · intro _ Q S hQ _ hex _
          rw [hgP] at hQ; simp at hQ; subst hQ
          cases hex
        · intro ha; rw [hnsa] at ha; cases ha
        · intro Q hQ
          rw [hgP] at hQ; simp at hQ; subst hQ
          rw [k3]; exact hCI.usedLen P hp
      · intro Q hQ
        rw [hgP] at hQ; simp at hQ; subst hQ
        refine ⟨⟨by simp [hSl.connsLen], fun i s hi => absurd hi (hnone i s), fun i s hi => absurd hi (hnone i s),
          fun ha => ?_⟩, fun ha => ?_⟩
        · rw [hal] at ha; cases ha
        · rw [hal] at ha; cases ha

end Iox2.PubSub.C08
