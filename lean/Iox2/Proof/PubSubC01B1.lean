/-
Layer B: counting lemmas for the used-chunk bits, distinctness of connection keys.
-/
import Iox2.Proof.PubSubC01InvB
import Iox2.Proof.PubSubC01A12
namespace Iox2.PubSub.C01P
open Iox2.PubSub

/-- contribution of one connection to `usedCnt w p c` -/
def ind (p c : Nat) (cn : Conn) : Nat :=
  if cn.pid = p ∧ cn.sAtt = true ∧ cn.used.getD c false = true then 1 else 0

def indB (p c : Nat) (cn : Conn) : Bool := decide (cn.pid = p ∧ cn.sAtt = true ∧ cn.used.getD c false = true)

theorem usedCnt_eq (w : World) (p c : Nat) : usedCnt w p c = (w.conns.filter (indB p c)).length := rfl

theorem ind_eq (p c : Nat) (cn : Conn) : ind p c cn = if indB p c cn then 1 else 0 := by
  unfold ind indB
  by_cases h : cn.pid = p ∧ cn.sAtt = true ∧ cn.used.getD c false = true <;> simp [h]

def SameKey (a b : Conn) : Prop := a.pid = b.pid ∧ a.sid = b.sid

theorem filter_length_map_upd {l : List Conn} (hk : l.Pairwise fun a b => ¬ (a.pid = b.pid ∧ a.sid = b.sid))
    {c0 : Conn} (hc0 : c0 ∈ l) (x : Conn) (hx : c0.pid = x.pid ∧ c0.sid = x.sid) (q : Conn → Bool) :
    ((l.map fun e => if e.pid = x.pid ∧ e.sid = x.sid then x else e).filter q).length + (if q c0 then 1 else 0) =
    (l.filter q).length + (if q x then 1 else 0) := by
  induction l with
  | nil => cases hc0
  | cons a l ih =>
    rw [List.pairwise_cons] at hk
    obtain ⟨hk1, hk2⟩ := hk
    by_cases hac : a = c0
    · subst hac
      have hrest : (l.map fun e => if e.pid = x.pid ∧ e.sid = x.sid then x else e) = l := by
        rw [List.map_congr_left (g := id)]
        · simp
        · intro e he
          have := hk1 e he
          have : ¬ (e.pid = x.pid ∧ e.sid = x.sid) := fun hh => this ⟨hx.1.trans hh.1.symm, hx.2.trans hh.2.symm⟩
          simp [this]
      simp only [List.map_cons, if_pos hx, hrest, List.filter_cons]
      by_cases h1 : q x = true <;> by_cases h2 : q a = true <;> simp [h1, h2] <;> omega
    · have hc0l : c0 ∈ l := by
        rcases List.mem_cons.mp hc0 with h | h
        · exact absurd h.symm hac
        · exact h
      have hna : ¬ (a.pid = x.pid ∧ a.sid = x.sid) := by
        intro hh
        exact hk1 c0 hc0l ⟨hh.1.trans hx.1.symm, hh.2.trans hx.2.symm⟩
      have := ih hk2 hc0l
      simp only [List.map_cons, if_neg hna, List.filter_cons]
      by_cases h2 : q a = true
      · simp only [h2, if_true, List.length_cons]; omega
      · simp only [h2]; exact this

theorem filter_length_filter_key {l : List Conn} (hk : l.Pairwise fun a b => ¬ (a.pid = b.pid ∧ a.sid = b.sid))
    {c0 : Conn} (hc0 : c0 ∈ l) (q : Conn → Bool) :
    ((l.filter fun e => ¬ (e.pid = c0.pid ∧ e.sid = c0.sid)).filter q).length + (if q c0 then 1 else 0) =
    (l.filter q).length := by
  induction l with
  | nil => cases hc0
  | cons a l ih =>
    rw [List.pairwise_cons] at hk
    obtain ⟨hk1, hk2⟩ := hk
    by_cases hac : a = c0
    · subst hac
      have hrest : (l.filter fun e => ¬ (e.pid = a.pid ∧ e.sid = a.sid)) = l := by
        rw [List.filter_eq_self]
        intro e he
        have := hk1 e he
        have : ¬ (e.pid = a.pid ∧ e.sid = a.sid) := fun hh => this ⟨hh.1.symm, hh.2.symm⟩
        simp [this]
      simp only [List.filter_cons, and_self, not_true_eq_false, decide_false, hrest]
      by_cases h2 : q a = true <;> simp [h2]
    · have hc0l : c0 ∈ l := by
        rcases List.mem_cons.mp hc0 with h | h
        · exact absurd h.symm hac
        · exact h
      have hna : ¬ (a.pid = c0.pid ∧ a.sid = c0.sid) := hk1 c0 hc0l
      have := ih hk2 hc0l
      simp only [List.filter_cons, hna, not_false_eq_true, decide_true, if_true]
      by_cases h2 : q a = true
      · simp only [h2, if_true, List.length_cons]; omega
      · simp only [h2]; exact this

theorem usedCnt_setC {w : World} (hk : KeysNodup w) {x c0 : Conn} (hg : getC w x.pid x.sid = some c0) (p c : Nat) :
    usedCnt (setC w x) p c + ind p c c0 = usedCnt w p c + ind p c x := by
  obtain ⟨hm, hp, hs⟩ := getC_some hg
  rw [ind_eq, ind_eq, usedCnt_eq, usedCnt_eq]
  exact filter_length_map_upd hk hm x ⟨hp, hs⟩ (indB p c)

theorem usedCnt_dropC {w : World} (hk : KeysNodup w) {a b : Nat} {c0 : Conn} (hg : getC w a b = some c0) (p c : Nat) :
    usedCnt (dropC w a b) p c + ind p c c0 = usedCnt w p c := by
  obtain ⟨hm, hp, hs⟩ := getC_some hg
  rw [ind_eq, usedCnt_eq, usedCnt_eq]
  have := filter_length_filter_key hk hm (indB p c)
  rw [hp, hs] at this
  exact this

theorem usedCnt_addC (w : World) (x : Conn) (p c : Nat) : usedCnt (addC w x) p c = usedCnt w p c + ind p c x := by
  rw [ind_eq, usedCnt_eq, usedCnt_eq]
  show ((w.conns ++ [x]).filter (indB p c)).length = _
  rw [List.filter_append, List.length_append]
  by_cases h : indB p c x = true <;> simp [List.filter_cons, h]

theorem usedCnt_pos {w : World} {cn : Conn} (hm : cn ∈ w.conns) {p c : Nat} (h : ind p c cn = 1) : 1 ≤ usedCnt w p c := by
  rw [usedCnt_eq]
  have : cn ∈ w.conns.filter (indB p c) := by
    rw [List.mem_filter]
    refine ⟨hm, ?_⟩
    rw [ind_eq] at h
    by_cases hh : indB p c cn = true
    · exact hh
    · simp [hh] at h
  exact List.length_pos_of_mem this

theorem usedCnt_zero {w : World} {p c : Nat} (h : usedCnt w p c = 0) {cn : Conn} (hm : cn ∈ w.conns) : ind p c cn = 0 := by
  by_cases hh : ind p c cn = 1
  · have := usedCnt_pos hm hh; omega
  · unfold ind at hh ⊢; split <;> simp_all

theorem ind_le_one (p c : Nat) (cn : Conn) : ind p c cn ≤ 1 := by
  unfold ind; split <;> omega

theorem ind_of_not_att {p c : Nat} {cn : Conn} (h : cn.sAtt = false) : ind p c cn = 0 := by
  unfold ind; simp [h]

theorem ind_of_ne_pid {p c : Nat} {cn : Conn} (h : cn.pid ≠ p) : ind p c cn = 0 := by
  unfold ind; simp [h]

/-! ### distinct keys -/

theorem KeysNodup.setC {w : World} (hk : KeysNodup w) (x : Conn) : KeysNodup (setC w x) := by
  unfold KeysNodup Iox2.PubSub.setC
  simp only
  rw [List.pairwise_map]
  refine hk.imp_of_mem ?_
  intro a b _ _ hab
  by_cases ha : a.pid = x.pid ∧ a.sid = x.sid <;> by_cases hb : b.pid = x.pid ∧ b.sid = x.sid
  · exfalso; exact hab ⟨ha.1.trans hb.1.symm, ha.2.trans hb.2.symm⟩
  · rw [if_pos ha, if_neg hb]; intro hh; exact hb ⟨hh.1.symm, hh.2.symm⟩
  · rw [if_neg ha, if_pos hb]; exact ha
  · rw [if_neg ha, if_neg hb]; exact hab

theorem KeysNodup.dropC {w : World} (hk : KeysNodup w) (p s : Nat) : KeysNodup (dropC w p s) := by
  unfold KeysNodup C01P.dropC
  exact hk.sublist List.filter_sublist

theorem KeysNodup.addC {w : World} (hk : KeysNodup w) {x : Conn} (hx : getC w x.pid x.sid = none) : KeysNodup (addC w x) := by
  unfold KeysNodup C01P.addC
  simp only
  rw [List.pairwise_append]
  refine ⟨hk, List.pairwise_singleton _ _, ?_⟩
  intro a ha b hb
  simp only [List.mem_singleton] at hb
  subst hb
  exact getC_none hx a ha

theorem KeysNodup.detachSender {w : World} (hk : KeysNodup w) (p s : Nat) : KeysNodup (detachSender w p s) := by
  rw [detachSender_eq]
  split
  · exact hk
  · split
    · exact hk.setC _
    · exact hk.dropC p s

theorem KeysNodup.detachReceiver {w : World} (hk : KeysNodup w) (p s : Nat) : KeysNodup (detachReceiver w p s) := by
  rw [detachReceiver_eq]
  split
  · exact hk
  · split
    · exact hk.setC _
    · exact hk.dropC p s

end Iox2.PubSub.C01P
