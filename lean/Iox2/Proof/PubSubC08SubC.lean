/-
C08 helper: subscriber-side actions preserve the invariant (part C: `subDropConn`).
-/
import Iox2.Proof.PubSubC08SubB
import Iox2.Proof.ListLemmas
set_option linter.unusedSimpArgs false
set_option linter.unusedVariables false
namespace Iox2.PubSub.C08
open Iox2.PubSub
open Iox2.C16.SlotMapP (abs)
attribute [-simp] List.getD_eq_getElem?_getD

theorem connBorrow_of_getC {w : World} {p s : Nat} {c : Conn} (hc : getC w p s = some c) :
    connBorrow w p s = c.borrow := by
  unfold connBorrow; rw [hc]

theorem subDropConn_eq {w : World} {s key p : Nat} {S : Sub} (hS : getS w s = some S)
    (hk : smGet S.storage key = some p) :
    subDropConn w s key = detachReceiver (setS w s { S with storage := smRemove S.storage key }) p s := by
  unfold subDropConn
  rw [hS]; dsimp only; rw [hk]

theorem subDropConn_noop {w : World} {s key : Nat} {S : Sub} (hS : getS w s = some S)
    (hk : smGet S.storage key = none) : subDropConn w s key = w := by
  unfold subDropConn
  rw [hS]; dsimp only; rw [hk]

theorem dropKey_core {cfg : Cfg} {w w' : World} {xs : Option Nat} {s : Nat} {hole : Option Nat}
    (h : InvS cfg w xs s hole) {S : Sub} {p key : Nat} (hS : getS w s = some S)
    (hk : abs S.storage key = some p) (hbor : connBorrow w p s = 0)
    (tbr' : List Nat) (htbr : ∀ k, k ∈ tbr' ↔ (k ∈ S.tbr ∧ k ≠ key)) (htnd : tbr'.Nodup)
    (htlen : tbr'.length ≤ S.tbr.length)
    (hole' : Option Nat)
    (hcov : ∀ i : Nat, S.conns[i]? = some (some key) → some i = hole')
    (hh : hole' = hole ∨ (hole = none ∧ ∃ i0 : Nat, hole' = some i0 ∧ S.conns[i0]? = some (some key)))
    (hfr : SFrame w w') (hu : ConnsUniq w')
    (hgS : ∀ q, getS w' q = if q = s then some { S with tbr := tbr', storage := smRemove S.storage key }
      else getS w q)
    (hgC : ∀ a b, getC w' a b = if a = p ∧ b = s then (getC w p s).bind detR else getC w a b) :
    InvS cfg w' xs s hole' := by
  have hSO : SubOK cfg w s S hole := by simpa using h.s s S hS
  obtain ⟨r1, r2, r3⟩ := smRemove_spec hSO.stI key
  obtain ⟨c, hc, hcr⟩ := hSO.hasConn key p hk
  have hcb : c.borrow = 0 := by rw [← connBorrow_of_getC hc]; exact hbor
  have hCI := h.c p s c hc
  have hnoheld : ∀ hd ∈ S.held, hd.pid ≠ p := by
    intro hd hhd hpid
    have := hCI.held S hS
    rw [hcb] at this
    have h0 : S.held.filter (·.pid = p) = [] := List.length_eq_zero_iff.mp this.symm
    rw [List.filter_eq_nil_iff] at h0
    exact h0 hd hhd (by simpa using hpid)
  -- the old hole is still respected
  have hole_old : ∀ i : Nat, some i ≠ hole' → some i ≠ hole := by
    intro i hi
    rcases hh with e | ⟨e, _⟩
    · rw [← e]; exact hi
    · rw [e]; simp
  have hnotkey : ∀ i k : Nat, some i ≠ hole' → S.conns[i]? = some (some k) → k ≠ key := by
    intro i k hi hik e; subst e; exact hi (hcov i hik)
  refine InvS.rebuild1 ((getC w p s).bind detR) h hS hfr hu hgS hgC ⟨rfl, rfl, rfl⟩ (fun _ _ => rfl) ?_ ?_ ?_
  · intro c1 hc1 ha
    rw [hc] at hc1; cases hc1
    refine ⟨{ c with rAtt := false }, by simp [hc, detR, ha], ha, rfl⟩
  · intro c' hc'
    rw [hc] at hc'
    simp only [Option.bind_some] at hc'
    exact (hCI.detR hc').transferS2 (S' := { S with tbr := tbr', storage := smRemove S.storage key }) (by
        unfold detR at hc'; split at hc'
        · cases hc'; exact (getC_key hc).1
        · cases hc') hfr.pubs hS (by rw [hgS]; simp) rfl rfl
  · -- the subscriber record
    refine ⟨r1, hSO.connsLen, fun ha => by rw [r2]; exact hSO.capEq ha, hSO.buf1, hSO.bufM, htnd,
      Nat.le_trans htlen hSO.tbrLen, ?_, ?_, ?_, ?_, ?_, ?_, ?_, ?_, ?_, hSO.aliveEx⟩
    · intro k hkt'
      obtain ⟨hkt, hne⟩ := (htbr k).1 hkt'
      show abs (smRemove S.storage key) k ≠ none
      rw [r3]; simp only [hne, if_false]; exact hSO.tbrIn k hkt
    · intro i k hi hik
      have hne := hnotkey i k hi hik
      obtain ⟨a1, a2⟩ := hSO.connKey i k (hole_old i hi) hik
      refine ⟨?_, fun hm => a2 ((htbr k).1 hm).1⟩
      show abs (smRemove S.storage key) k ≠ none
      rw [r3]; simp only [hne, if_false]; exact a1
    · intro i j k hi hj hik hjk
      exact hSO.connInj i j k (hole_old i hi) (hole_old j hj) hik hjk
    · intro k hka
      have hka' : abs (smRemove S.storage key) k ≠ none := hka
      rw [r3] at hka'
      by_cases hne : k = key
      · simp [hne] at hka'
      · simp only [hne, if_false] at hka'
        rcases hSO.cover k hka' with ht | ⟨i, hi, hik⟩
        · exact .inl ((htbr k).2 ⟨ht, hne⟩)
        · right
          refine ⟨i, ?_, hik⟩
          rcases hh with e | ⟨_, i0, e2, hi0⟩
          · rw [e]; exact hi
          · rw [e2]
            intro e3; cases e3
            rw [hi0] at hik; cases hik
            exact hne rfl
    · intro k q hkq
      have hkq' : abs (smRemove S.storage key) k = some q := hkq
      rw [r3] at hkq'
      by_cases hne : k = key
      · simp [hne] at hkq'
      · simp only [hne, if_false] at hkq'
        obtain ⟨c1, hc1, hr1⟩ := hSO.hasConn k q hkq'
        have hqp : q ≠ p := by intro e; subst e; exact hne (hSO.pidInj k key q hkq' hk)
        exact ⟨c1, by rw [hgC]; simp [hqp, hc1], hr1⟩
    · intro k1 k2 q h1 h2
      have h1' : abs (smRemove S.storage key) k1 = some q := h1
      have h2' : abs (smRemove S.storage key) k2 = some q := h2
      rw [r3] at h1' h2'
      split at h1'
      · cases h1'
      · split at h2'
        · cases h2'
        · exact hSO.pidInj k1 k2 q h1' h2'
    · intro hd hhd
      have hhd' : hd ∈ S.held := hhd
      have h1 := hSO.heldKey hd hhd'
      show abs (smRemove S.storage key) hd.key = some hd.pid
      rw [r3]
      have hne : hd.key ≠ key := by
        intro e; rw [e, hk] at h1; cases h1
        exact hnoheld hd hhd' rfl
      simp only [hne, if_false]; exact h1
    · intro k hkt' q Q hkq hQ
      obtain ⟨hkt, hne⟩ := (htbr k).1 hkt'
      have hkq' : abs (smRemove S.storage key) k = some q := hkq
      rw [r3] at hkq'; simp only [hne, if_false] at hkq'
      rw [hfr.pubs] at hQ
      exact hSO.tbrDead k hkt q Q hkq' hQ
    · intro i k q hi hik hkq
      have hne := hnotkey i k hi hik
      have hkq' : abs (smRemove S.storage key) k = some q := hkq
      rw [r3] at hkq'; simp only [hne, if_false] at hkq'
      rw [hfr.pubs]
      exact hSO.connSlot i k q (hole_old i hi) hik hkq'

theorem setS_setS (w : World) (s : Nat) (a b : Sub) : setS (setS w s a) s b = setS w s b := by
  unfold setS
  simp only [List.map_map]
  congr 1
  apply List.map_congr_left
  intro e _
  simp only [Function.comp]
  by_cases he : e.1 = s <;> simp [he]

theorem dropKey_inv {cfg : Cfg} {w : World} {xs : Option Nat} {s : Nat} {hole : Option Nat}
    (h : InvS cfg w xs s hole) {S : Sub} {p key : Nat} (hS : getS w s = some S)
    (hk : abs S.storage key = some p) (hbor : connBorrow w p s = 0) (hnt : key ∉ S.tbr)
    (hole' : Option Nat)
    (hcov : ∀ i : Nat, S.conns[i]? = some (some key) → some i = hole')
    (hh : hole' = hole ∨ (hole = none ∧ ∃ i0 : Nat, hole' = some i0 ∧ S.conns[i0]? = some (some key))) :
    InvS cfg (subDropConn w s key) xs s hole' ∧
    getS (subDropConn w s key) s = some { S with storage := smRemove S.storage key } := by
  have hSO : SubOK cfg w s S hole := by simpa using h.s s S hS
  have hsm : smGet S.storage key = some p := by rw [smGet_eq hSO.stI]; exact hk
  rw [subDropConn_eq hS hsm]
  have hgS : ∀ q, getS (detachReceiver (setS w s { S with storage := smRemove S.storage key }) p s) q =
      if q = s then some { S with storage := smRemove S.storage key } else getS w q := by
    intro q
    rw [getS_of_subs (detachReceiver_subs _ _ _), getS_setS, hS]; rfl
  refine ⟨dropKey_core h hS hk hbor S.tbr (fun k => ⟨fun hm => ⟨hm, fun e => hnt (e ▸ hm)⟩, fun hm => hm.1⟩)
    hSO.tbrNodup (Nat.le_refl _) hole' hcov hh
    (SFrame.of_SStep (.trans (.setS _ _ _) (detachReceiver_S _ _ _)))
    (detachReceiver_uniq (w := setS w s { S with storage := smRemove S.storage key }) (h.u.of_conns rfl) p s)
    hgS (fun a b => by rw [detachReceiver_getC]; rfl), by rw [hgS]; simp⟩

/-- `to_be_removed` entry `i` is dropped: the erase of the list followed by `subDropConn` -/
theorem evictTbr_inv {cfg : Cfg} {w : World} {xs : Option Nat} {s : Nat} {hole : Option Nat}
    (h : InvS cfg w xs s hole) {S : Sub} {p key i : Nat} (hS : getS w s = some S)
    (hi : S.tbr[i]? = some key) (hk : abs S.storage key = some p) (hbor : connBorrow w p s = 0) :
    InvS cfg (subDropConn (setS w s { S with tbr := S.tbr.eraseIdx i }) s key) xs s hole ∧
    getS (subDropConn (setS w s { S with tbr := S.tbr.eraseIdx i }) s key) s =
      some { S with tbr := S.tbr.eraseIdx i, storage := smRemove S.storage key } := by
  have hSO : SubOK cfg w s S hole := by simpa using h.s s S hS
  have hsm : smGet S.storage key = some p := by rw [smGet_eq hSO.stI]; exact hk
  have hS1 : getS (setS w s { S with tbr := S.tbr.eraseIdx i }) s = some { S with tbr := S.tbr.eraseIdx i } := by
    simp [hS]
  rw [subDropConn_eq hS1 hsm, setS_setS]
  have hgS : ∀ q, getS (detachReceiver (setS w s { S with tbr := S.tbr.eraseIdx i, storage := smRemove S.storage key }) p s) q =
      if q = s then some { S with tbr := S.tbr.eraseIdx i, storage := smRemove S.storage key } else getS w q := by
    intro q
    rw [getS_of_subs (detachReceiver_subs _ _ _), getS_setS, hS]; rfl
  obtain ⟨hil, hget⟩ := List.getElem?_eq_some_iff.mp hi
  have hmem : key ∈ S.tbr := List.mem_of_getElem? hi
  have hperm := Iox2.ListLemmas.perm_eraseIdx S.tbr i key hi
  have hnd2 : (S.tbr.eraseIdx i ++ [key]).Nodup := hperm.nodup_iff.mpr hSO.tbrNodup
  have hnd3 := List.nodup_append.mp hnd2
  have hmem_iff : ∀ k, k ∈ S.tbr.eraseIdx i ↔ (k ∈ S.tbr ∧ k ≠ key) := by
    intro k
    constructor
    · intro hm
      refine ⟨hperm.mem_iff.mp (by simp [hm]), fun e => ?_⟩
      exact hnd3.2.2 k hm key (by simp) e
    · rintro ⟨hm, hne⟩
      have := hperm.mem_iff.mpr hm
      simp at this
      rcases this with h1 | h1
      · exact h1
      · exact absurd h1 hne
  have hcov : ∀ j : Nat, S.conns[j]? = some (some key) → some j = hole := by
    intro j hj
    by_cases hjh : some j = hole
    · exact hjh
    · exact absurd hmem (hSO.connKey j key hjh hj).2
  refine ⟨dropKey_core h hS hk hbor (S.tbr.eraseIdx i) hmem_iff hnd3.1 (by rw [List.length_eraseIdx]; split <;> omega) hole hcov (.inl rfl)
    (SFrame.of_SStep (.trans (.setS _ _ _) (detachReceiver_S _ _ _)))
    (detachReceiver_uniq (w := setS w s { S with tbr := S.tbr.eraseIdx i, storage := smRemove S.storage key })
      (h.u.of_conns rfl) p s)
    hgS (fun a b => by rw [detachReceiver_getC]; rfl), by rw [hgS]; simp⟩

end Iox2.PubSub.C08
