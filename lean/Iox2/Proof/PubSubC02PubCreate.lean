/-
C02 — `pubCreateConn` and the snapshot refresh of `pubUpdate` preserve the invariant.
-/
import Iox2.Proof.PubSubC02PubAttach
import Iox2.Proof.PubSubC02Deliver

namespace Iox2.PubSub.C02P
open Iox2.PubSub
open Iox2.C16.SlotMapP (abs WInv)

/-- frame of the publisher-side connection management of publisher `p` -/
structure PubSide (p : Nat) (w w' : World) : Prop where
  cfg : w'.cfg = w.cfg
  pubReg : w'.pubReg = w.pubReg
  subReg : w'.subReg = w.subReg
  subs : ∀ t, getS w' t = getS w t
  connsO : ∀ a b, a ≠ p → getC w' a b = getC w a b

theorem PubSide.refl (p : Nat) (w : World) : PubSide p w w :=
  ⟨rfl, rfl, rfl, fun _ => rfl, fun _ _ _ => rfl⟩

theorem PubSide.trans {p : Nat} {w1 w2 w3 : World} (h1 : PubSide p w1 w2) (h2 : PubSide p w2 w3) :
    PubSide p w1 w3 :=
  ⟨h2.cfg.trans h1.cfg, h2.pubReg.trans h1.pubReg, h2.subReg.trans h1.subReg,
   fun t => (h2.subs t).trans (h1.subs t),
   fun a b ha => (h2.connsO a b ha).trans (h1.connsO a b ha)⟩

theorem pubCreateConn_eq (w : World) (p slot : Nat) (e : SubEntry) (P : Pub)
    (hP : getP w p = some P) :
    pubCreateConn w p slot e =
      deliverHistory
        (pubAttach w p slot e P
          ((P.hist.drop (P.hist.length - min e.histReq
            (match getC w p e.sid with | some c => c.cap | none => e.buffer))).map
              fun ch => P.chunkSeq.getD ch 0))
        p e.sid
        (P.hist.drop (P.hist.length - min e.histReq
          (match getC w p e.sid with | some c => c.cap | none => e.buffer))) := by
  simp only [pubCreateConn, hP]
  rfl

theorem pubCreateConn_inv {G : GT} {A : GA} {w : World} {p slot : Nat} {e : SubEntry} {P : Pub}
    (hi : Inv G A w) (hP : getP w p = some P) (hex : P.ex = true)
    (hslot : P.conns[slot]? = some none) (hsnap : P.snap[slot]? = some (some e))
    (halive : ∀ S, getS w e.sid = some S → S.alive = true) :
    Inv G A (pubCreateConn w p slot e) ∧ PubSide p w (pubCreateConn w p slot e) ∧
    ∃ P', getP (pubCreateConn w p slot e) p = some P' ∧
      P'.conns = P.conns.set slot (some e.sid) ∧ P'.alive = P.alive ∧ P'.ex = P.ex ∧
      P'.snap = P.snap := by
  rw [pubCreateConn_eq w p slot e P hP]
  generalize hgh : ((P.hist.drop (P.hist.length - min e.histReq
            (match getC w p e.sid with | some c => c.cap | none => e.buffer))).map
              fun ch => P.chunkSeq.getD ch 0) = gh
  generalize hk : (P.hist.length - min e.histReq
          (match getC w p e.sid with | some c => c.cap | none => e.buffer)) = k
  obtain ⟨hi2, a1, a2, a3, a4, a5, a6, a7, a8⟩ := pubAttach_inv (gh := gh) hi hP hex hslot hsnap halive
  have pa := (hi.acc.pubs p P hP).1 hex
  have hlt : slot < P.conns.length := (List.getElem?_eq_some_iff.mp hslot).1
  have hmem : some e.sid ∈ ({ P with conns := P.conns.set slot (some e.sid) } : Pub).conns :=
    List.mem_iff_getElem?.mpr ⟨slot, by simp [List.getElem?_set, hlt]⟩
  obtain ⟨hi3, hrel⟩ := deliverHistory_inv (G := G) (A := A) (p := p) (s := e.sid) (P.hist.drop k)
    (pubAttach w p slot e P gh) _ hi2 a6 hmem
    (fun ch hch => List.mem_of_mem_drop hch)
    (List.Nodup.sublist (List.drop_sublist _ _) pa.histNodup)
    (fun ch _ => a8 ch)
  refine ⟨hi3, ⟨hrel.cfg.trans a1, hrel.pubReg.trans a2, hrel.subReg.trans a3,
    fun t => (hrel.subs t).trans (a4 t), ?_⟩, ?_⟩
  · intro a b ha
    rw [hrel.connsO a b ha]
    exact a7 a b (fun h => ha h.1)
  · obtain ⟨P', hP', e1, e2, _, _⟩ := hrel.pub_fwd a6
    refine ⟨P', hP', e2, ?_, ?_, ?_⟩
    · have := congrArg Pub.alive e1; simpa [eraseRF] using this
    · have := congrArg Pub.ex e1; simpa [eraseRF] using this
    · have := congrArg Pub.snap e1; simpa [eraseRF] using this

theorem PubAcc.congr_fields {A : GA} {w : World} {p : Nat} {P P' : Pub} (h : PubAcc A w p P)
    (h1 : P'.rc = P.rc) (h2 : P'.free = P.free) (h3 : P'.n = P.n) (h4 : P'.loans = P.loans)
    (h5 : P'.hist = P.hist) (h6 : P'.conns = P.conns) : PubAcc A w p P' := by
  refine ⟨h.free.congr h1 h2 h3, ?_, by rw [h4, h3, h1]; exact h.loans, by rw [h4]; exact h.loanLbl,
    by rw [h5]; exact h.histNodup, by rw [h5, h3]; exact h.histLt, by rw [h3]; exact h.xLt,
    by rw [h1]; exact h.xFresh⟩
  intro c hc
  rw [h3] at hc
  rw [h1, h.rcEq c hc]
  unfold refCnt
  rw [h4, h5, h6]

/-- `pubUpdate`: the publisher copies the subscriber registry into its snapshot -/
theorem pubRefresh_inv {G : GT} {A : GA} {w : World} {p : Nat} {P : Pub}
    (hi : Inv G A w) (hP : getP w p = some P) :
    Inv G A (setP w p { P with snapCtr := w.subReg.counter, snap := w.subReg.slots }) := by
  generalize hP0 : ({ P with snapCtr := w.subReg.counter, snap := w.subReg.slots } : Pub) = P0
  have hf : P0.alive = P.alive ∧ P0.ex = P.ex ∧ P0.slot = P.slot ∧ P0.conns = P.conns ∧
      P0.snap = w.subReg.slots ∧ P0.n = P.n ∧ P0.rc = P.rc ∧ P0.free = P.free ∧
      P0.loans = P.loans ∧ P0.hist = P.hist ∧ P0.payload = P.payload := by subst hP0; simp
  obtain ⟨f1, f2, f3, f4, f5, f6, f7, f8, f9, f10, f11⟩ := hf
  have hgP : ∀ q, getP (setP w p P0) q = if q = p then some P0 else getP w q := by
    intro q; simp [hP]
  have hpk : PubsKept w (setP w p P0) := by
    intro q Q hQ
    rw [hgP]
    by_cases hq : q = p
    · subst hq; rw [hP] at hQ; cases hQ; exact ⟨P0, by simp, f3, f1⟩
    · exact ⟨Q, by simp [hq, hQ], rfl, rfl⟩
  have hsk : SubsKept w (setP w p P0) := SubsKept.of_eq (fun _ => rfl)
  have pt := hi.top.pubs p P hP
  have reg := hi.top.reg
  refine ⟨⟨?_, ?_, ?_, ?_⟩, ⟨?_, ?_, ?_⟩⟩
  · exact reg.congr rfl rfl rfl hpk hsk
      (fun q Q' h => by
        rw [hgP] at h
        by_cases hq : q = p
        · subst hq; exact ⟨P, hP⟩
        · simp only [hq, if_false] at h; exact ⟨Q', h⟩)
      (fun t T' h => ⟨T', h⟩) reg.nodup
  · intro q Q hQ
    rw [hgP] at hQ
    by_cases hq : q = p
    · subst hq
      simp only [if_true, Option.some.injEq] at hQ
      subst hQ
      refine ⟨by rw [f4]; exact pt.lenC, by rw [f5]; exact reg.lenS, by rw [f1, f2]; exact pt.aliveEx,
        by rw [f2, f4]; exact pt.dead, ?_, ?_⟩
      · intro i s hc
        rw [f4] at hc
        obtain ⟨S, hS, h1, h2, h3, _, cn, h5, h6⟩ := pt.conn i s hc
        refine ⟨S, hS, h1, h2, h3, ?_, cn, h5, h6⟩
        intro ha
        rcases h2 with h2 | ⟨e, he, hes⟩
        · rw [ha] at h2; cases h2
        · exact ⟨e, by rw [f5, ← h1]; exact he, hes⟩
      · intro i e he
        rw [f5] at he
        obtain ⟨S, hS, h1, h2⟩ := reg.r2 i e he
        refine ⟨S, hS, h2, Or.inr ⟨e, by rw [h2]; exact he, rfl⟩, ?_⟩
        intro hns
        exact reg.nsFresh e.sid hns i e he rfl
    · simp only [hq, if_false] at hQ
      exact (hi.top.pubs q Q hQ).congr rfl rfl hsk (fun t cn h1 h2 => ⟨cn, h1, h2⟩)
  · intro t T hT
    exact (hi.top.subs t T hT).congr rfl rfl hpk (fun q cn h1 h2 => ⟨cn, h1, h2⟩)
  · intro a b cn hcn
    obtain ⟨Pa, Sb, hPa, hSb, ct⟩ := hi.top.conns a b cn hcn
    by_cases ha : a = p
    · subst ha
      rw [hP] at hPa; cases hPa
      exact ⟨P0, Sb, by rw [hgP]; simp, hSb, ct.att, by rw [f4]; exact ct.sAtt, ct.rAtt⟩
    · exact ⟨Pa, Sb, by rw [hgP]; simp [ha, hPa], hSb, ct⟩
  · intro q Q hQ
    rw [hgP] at hQ
    by_cases hq : q = p
    · subst hq
      simp only [if_true, Option.some.injEq] at hQ
      subst hQ
      obtain ⟨h1, h2⟩ := hi.acc.pubs q P hP
      refine ⟨fun hx => ?_, fun hx => by rw [f9]; exact h2 (by rw [← f2]; exact hx)⟩
      exact ((h1 (by rw [← f2]; exact hx)).congr_fields f7 f8 f6 f9 f10 f4).congr (fun _ _ _ => rfl)
    · simp only [hq, if_false] at hQ
      obtain ⟨h1, h2⟩ := hi.acc.pubs q Q hQ
      exact ⟨fun hx => (h1 hx).congr (fun _ _ _ => rfl), h2⟩
  · intro t T hT
    obtain ⟨h1, h2, h3⟩ := hi.acc.subs t T hT
    refine ⟨h1, h2, fun ha x hx => ?_⟩
    obtain ⟨Q, hQ, hq⟩ := h3 ha x hx
    rw [hgP]
    by_cases hxp : x.pid = p
    · rw [hxp] at hQ; rw [hP] at hQ; cases hQ
      exact ⟨P0, by simp [hxp], by rw [f11]; exact hq⟩
    · exact ⟨Q, by simp [hxp, hQ], hq⟩
  · intro a b cn hcn Pa Sb hPa hSb
    rw [hgP] at hPa
    show ConnAcc w.cfg cn Pa Sb
    by_cases ha : a = p
    · subst ha
      simp only [if_true, Option.some.injEq] at hPa
      subst hPa
      exact (hi.acc.conns a b cn hcn P Sb hP hSb).congr f6 f2 rfl rfl
    · simp only [ha, if_false] at hPa
      exact hi.acc.conns a b cn hcn Pa Sb hPa hSb

end Iox2.PubSub.C02P
