/-
Layer B: the bookkeeping of `send` on the publisher record (take the loan, stamp, history, return).
-/
import Iox2.Proof.PubSubC01B14
namespace Iox2.PubSub.C01P
open Iox2.PubSub

variable {cfg : Cfg} {np ns : Option Nat} {w : World}

theorem inflight_some (p c : Nat) (fr : Bool) (a y : Nat) :
    inflight (some (p, c, fr)) a y = if p = a ∧ c = y then 1 else 0 := rfl

def cntN (l : List Nat) (y : Nat) : Nat := (l.filter (· = y)).length

theorem cntN_append (l : List Nat) (c y : Nat) : cntN (l ++ [c]) y = cntN l y + if c = y then 1 else 0 := by
  unfold cntN
  rw [List.filter_append, List.length_append]
  by_cases h : c = y <;> simp [h]

theorem cntN_cons (a : Nat) (l : List Nat) (y : Nat) : cntN (a :: l) y = cntN l y + if a = y then 1 else 0 := by
  unfold cntN
  by_cases h : a = y <;> simp [List.filter_cons, h]

theorem cntN_zero {l : List Nat} {y : Nat} (h : y ∉ l) : cntN l y = 0 := by
  unfold cntN
  rw [List.length_eq_zero_iff, List.filter_eq_nil_iff]
  intro a ha; simp only [decide_eq_true_eq]; rintro rfl; exact h ha

theorem cntN_pos {l : List Nat} {y : Nat} (h : y ∈ l) : 1 ≤ cntN l y :=
  filter_length_pos (q := fun e => decide (e = y)) h (by simp)

/-- the history update of `send` on the pool bookkeeping -/
theorem sendHist_specB (hcap : Nat) (P : Pub) (c : Nat) (hlen : P.rc.length = P.n) (hf : FreeOK P) (hc : c < P.n)
    (hrc : 1 ≤ P.rc.getD c 0) (hnd : P.hist.Nodup) (hcn : c ∉ P.hist)
    (hh : ∀ y ∈ P.hist, y < P.n ∧ 1 ≤ P.rc.getD y 0) :
    sendHist hcap P c = { P with rc := (sendHist hcap P c).rc, free := (sendHist hcap P c).free, hist := (sendHist hcap P c).hist } ∧
    FreeOK (sendHist hcap P c) ∧ (sendHist hcap P c).rc.length = P.n ∧
    (∀ y, (sendHist hcap P c).rc.getD y 0 + cntN P.hist y = P.rc.getD y 0 + cntN (sendHist hcap P c).hist y) ∧
    (sendHist hcap P c).hist.Nodup ∧ (∀ y ∈ (sendHist hcap P c).hist, y = c ∨ y ∈ P.hist) := by
  unfold sendHist
  split
  · exact ⟨rfl, hf, hlen, fun _ => rfl, hnd, fun y hy => Or.inr hy⟩
  · simp only
    obtain ⟨f1, l1, r1, o1⟩ := borrow_ok hlen hf hc hrc
    have hbh : (P.borrowChunk c).hist = P.hist := rfl
    split
    · split
      · rename_i hnil
        have hnil' : P.hist = [] := hnil
        refine ⟨rfl, f1, l1, fun y => ?_, by simp, fun y hy => ?_⟩
        · show (P.borrowChunk c).rc.getD y 0 + _ = _ + cntN [c] y
          rw [r1 y, hnil']
          by_cases hyc : y = c
          · subst hyc; simp [cntN]
          · have : ¬ c = y := fun h => hyc h.symm
            simp [cntN, hyc, this]
        · simp only [List.mem_singleton] at hy; exact Or.inl hy
      · rename_i old rest hcons
        have hcons' : P.hist = old :: rest := hcons
        have hold := hh old (by rw [hcons']; simp)
        have hoc : old ≠ c := by rintro rfl; exact hcn (by rw [hcons']; simp)
        have hrold : 1 ≤ ({ P.borrowChunk c with hist := rest ++ [c] } : Pub).rc.getD old 0 := by
          show 1 ≤ (P.borrowChunk c).rc.getD old 0
          rw [r1 old, if_neg hoc]; exact hold.2
        obtain ⟨f2, l2, r2, o2⟩ := release_ok (P := { P.borrowChunk c with hist := rest ++ [c] }) l1 f1 hold.1 hrold
        rw [hcons'] at hnd
        obtain ⟨hon, hndr⟩ := List.nodup_cons.mp hnd
        have hh2 : (({ P.borrowChunk c with hist := rest ++ [c] } : Pub).releaseChunk old).hist = rest ++ [c] := by
          rw [o2]
        refine ⟨?_, f2, l2, fun y => ?_, ?_, fun y hy => ?_⟩
        · rw [hh2]; exact o2
        · rw [r2 y]
          rw [hh2, hcons', cntN_cons, cntN_append]
          show (if y = old then (P.borrowChunk c).rc.getD old 0 - 1 else (P.borrowChunk c).rc.getD y 0) + _ = _
          rw [r1 y, r1 old, if_neg hoc]
          by_cases hyo : y = old
          · subst hyo
            have : ¬ c = y := fun h => hoc h.symm
            rw [if_pos rfl, if_pos rfl, if_neg this]
            have := hold.2; omega
          · have h1 : ¬ old = y := fun h => hyo h.symm
            rw [if_neg hyo, if_neg h1]
            by_cases hyc : y = c
            · subst hyc; rw [if_pos rfl, if_pos rfl]; omega
            · have h2 : ¬ c = y := fun h => hyc h.symm
              rw [if_neg hyc, if_neg h2]
        · rw [hh2, List.nodup_append]
          refine ⟨hndr, by simp, ?_⟩
          intro a ha b hb
          simp only [List.mem_singleton] at hb
          subst hb
          rintro rfl
          exact hcn (by rw [hcons']; exact List.mem_cons_of_mem _ ha)
        · rw [hh2] at hy
          rcases List.mem_append.mp hy with h1 | h1
          · exact Or.inr (by rw [hcons']; exact List.mem_cons_of_mem _ h1)
          · simp only [List.mem_singleton] at h1; exact Or.inl h1
    · refine ⟨rfl, f1, l1, fun y => ?_, ?_, fun y hy => ?_⟩
      · show (P.borrowChunk c).rc.getD y 0 + _ = _ + cntN (P.hist ++ [c]) y
        rw [r1 y, cntN_append]
        by_cases hyc : y = c
        · subst hyc; rw [if_pos rfl, if_pos rfl]; omega
        · have : ¬ c = y := fun h => hyc h.symm
          rw [if_neg hyc, if_neg this]; omega
      · show (P.hist ++ [c]).Nodup
        rw [List.nodup_append]
        refine ⟨hnd, by simp, ?_⟩
        intro a ha b hb
        simp only [List.mem_singleton] at hb
        subst hb
        rintro rfl; exact hcn ha
      · have hy' : y ∈ P.hist ++ [c] := hy
        rcases List.mem_append.mp hy' with h1 | h1
        · exact Or.inr h1
        · simp only [List.mem_singleton] at h1; exact Or.inl h1

end Iox2.PubSub.C01P
