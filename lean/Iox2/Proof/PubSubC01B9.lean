/-
Layer B: the sender side attaches to / detaches from a connection.
-/
import Iox2.Proof.PubSubC01B8
namespace Iox2.PubSub.C01P
open Iox2.PubSub

variable {cfg : Cfg} {np ns : Option Nat} {fl : Option (Nat × Nat × Bool)} {w : World}

/-- the sender side attaches to an existing, untouched connection object -/
theorem InvB.setC_attach (h : InvB fl w) {c x : Conn} {P : Pub} (hg : getC w x.pid x.sid = some c)
    (hca : c.sAtt = false) (hu : x.used = c.used) (hsub : x.sub = c.sub) (hcomp : x.comp = c.comp)
    (hP : getP w x.pid = some P) (hex : P.ex = true)
    (hvs : c.sub = []) (hvc : c.comp = []) (hheld : ∀ S, getS w x.sid = some S → heldCh S x.pid = []) :
    InvB fl (setC w x) := by
  obtain ⟨hcm, hcp, hcs⟩ := getC_some hg
  have hbits : ∀ y, c.used.getD y false = false := fun y => h.unatt c hcm hca P (hcp ▸ hP) hex y
  have hcnt : ∀ p y, usedCnt (setC w x) p y = usedCnt w p y := by
    intro p y
    have := usedCnt_setC h.keys hg p y
    rw [ind_of_not_att hca] at this
    have hx0 : ind p y x = 0 := by
      unfold ind
      rw [hu, hbits y]; simp
    omega
  constructor
  · exact h.keys.setC x
  · exact h.lens
  · intro cn hcn Q hq
    rcases mem_setC hcn with ⟨rfl, _⟩ | ⟨hm, _⟩
    · rw [hu]; exact h.usedLen c hcm Q (hcp ▸ hq)
    · exact h.usedLen cn hm Q hq
  · exact h.free
  · intro a Q hq hQe y hy
    rw [hcnt]; exact h.rc a Q hq hQe y hy
  · exact h.loans
  · exact h.deadLoans
  · exact h.histOk
  · exact h.flOk
  · intro cn hcn hs Q S hq hQe hS
    rcases mem_setC hcn with ⟨rfl, _⟩ | ⟨hm, _⟩
    · unfold inq
      rw [hsub, hcomp, hvs, hvc, hheld S hS]
      exact ⟨List.nodup_nil, fun y hy => by cases hy⟩
    · exact h.inqOk cn hm hs Q S hq hQe hS
  · intro cn hcn hs Q hq hQe
    rcases mem_setC hcn with ⟨rfl, _⟩ | ⟨hm, _⟩
    · intro y; rw [hu]; exact hbits y
    · exact h.unatt cn hm hs Q hq hQe
  · intro cn hcn Q S hq hS hor ch q hm'
    rcases mem_setC hcn with ⟨rfl, _⟩ | ⟨hm, _⟩
    · rw [hsub, hvs] at hm'; cases hm'
    · exact h.ppi cn hm Q S hq hS hor ch q hm'

/-- the sender side creates the connection object -/
theorem InvB.addC_att (h : InvB fl w) {x : Conn} (hx : getC w x.pid x.sid = none)
    (hlen : ∀ P, getP w x.pid = some P → x.used.length = P.n) (hu : ∀ c, x.used.getD c false = false)
    (hsub : x.sub = []) (hcomp : x.comp = []) (hheld : ∀ S, getS w x.sid = some S → heldCh S x.pid = []) :
    InvB fl (addC w x) := by
  have hcnt : ∀ a c, usedCnt (addC w x) a c = usedCnt w a c := by
    intro a c
    rw [usedCnt_addC]
    have : ind a c x = 0 := by unfold ind; rw [hu c]; simp
    omega
  constructor
  · exact h.keys.addC hx
  · exact h.lens
  · intro cn hcn Q hq
    rcases mem_addC.mp hcn with hm | rfl
    · exact h.usedLen cn hm Q hq
    · exact hlen Q hq
  · exact h.free
  · intro a Q hq hQe c hc
    rw [hcnt]; exact h.rc a Q hq hQe c hc
  · exact h.loans
  · exact h.deadLoans
  · exact h.histOk
  · exact h.flOk
  · intro cn hcn hs Q S hq hQe hS
    rcases mem_addC.mp hcn with hm | rfl
    · exact h.inqOk cn hm hs Q S hq hQe hS
    · unfold inq
      rw [hsub, hcomp, hheld S hS]
      exact ⟨List.nodup_nil, fun y hy => by cases hy⟩
  · intro cn hcn hs Q hq hQe
    rcases mem_addC.mp hcn with hm | rfl
    · exact h.unatt cn hm hs Q hq hQe
    · exact hu
  · intro cn hcn Q S hq hS hor ch q hm'
    rcases mem_addC.mp hcn with hm | rfl
    · exact h.ppi cn hm Q S hq hS hor ch q hm'
    · rw [hsub] at hm'; cases hm'

/-- nothing received from `p` yet: no sample of `p` is held -/
theorem InvA.heldCh_nil (hA : InvA cfg np ns w) {s p : Nat} {S : Sub} (hS : getS w s = some S)
    (hr : (S.ghostRecv.filter (·.1 = p)).map (·.2) = []) : heldCh S p = [] := by
  unfold heldCh
  rw [List.map_eq_nil_iff, List.filter_eq_nil_iff]
  intro hd hhd
  simp only [decide_eq_true_eq]
  intro hp
  have := hA.l4 s S hS hd hhd
  exact filter_map_nil_of_virgin hr this hp

theorem invAB_pubAttach (h : InvAB cfg np ns fl w) {p slot : Nat} {e : SubEntry} {P : Pub}
    (hP : getP w p = some P) (hPa : P.alive = true) (hslot : P.conns[slot]? = some none)
    (hreg : w.subReg.slots[slot]? = some (some e)) :
    InvAB cfg np ns fl (pubAttach w p slot e P) ∧
    getP (pubAttach w p slot e P) p = some { P with conns := P.conns.set slot (some e.sid) } ∧
    (∀ c, getC (pubAttach w p slot e P) p e.sid = some c → ∀ y, c.used.getD y false = false) := by
  obtain ⟨hens, Se, hSe, hSal, hSslot, hSbuf⟩ := h.a.sreg slot e hreg
  have hex := (h.a.palive p P hP hPa).1
  unfold pubAttach
  simp only
  cases hC : getC w p e.sid with
  | none =>
    simp only
    have hB1 : InvB fl (addC w { pid := p, sid := e.sid, cap := e.buffer, used := List.replicate P.n false, sAtt := true, gFirst := P.seq, gHist := (histToDeliver w p e P).map fun ch => P.chunkSeq.getD ch 0 }) := by
      refine h.b.addC_att hC ?_ (fun c => getD_replicate_false _ c) rfl rfl ?_
      · intro Q hQ
        simp only at hQ
        rw [hP] at hQ; cases hQ
        simp
      · intro S hS
        simp only at hS
        rw [hSe] at hS; cases hS
        exact h.a.heldCh_nil hSe (h.a.noRecv_of_noConn hP hPa hSe hSal hC)
    refine ⟨⟨h.a.attachP_new hP hPa hslot hreg hC rfl rfl rfl rfl, ?_⟩,
      getP_setP_self _ (by rw [getP_addC]; exact hP), ?_⟩
    · exact hB1.setP_irrel (P := P) (by rw [getP_addC]; exact hP) ⟨rfl, rfl, rfl, rfl, rfl, rfl, rfl, rfl, rfl, rfl⟩
    · intro c hc y
      rw [getC_setP, getC_addC, hC] at hc
      simp at hc
      subst hc
      exact getD_replicate_false _ y
  | some c =>
    simp only
    obtain ⟨hcm, hcp, hcs⟩ := getC_some hC
    have hca : c.sAtt = false := by
      cases hh : c.sAtt with
      | false => rfl
      | true =>
        exfalso
        obtain ⟨Q, hQ, i, hi⟩ := h.a.a2 c hcm hh
        rw [hcp, hP] at hQ; cases hQ
        obtain ⟨_, S', hS', hsl'⟩ := (h.a.pconns p P hP).2 i c.sid hi
        rw [hcs, hSe] at hS'; cases hS'
        rw [← hsl', hSslot] at hi
        rw [hslot] at hi; cases hi
    have hv := h.a.virg c hcm hca P Se (hcp ▸ hP) (hcs ▸ hSe) hex hSal
    have hl3 := h.a.l3 c hcm Se (hcs ▸ hSe)
    rw [hv.recv, hcp] at hl3
    have hB1 : InvB fl (setC w { c with sAtt := true, gFirst := P.seq, gHist := (histToDeliver w p e P).map fun ch => P.chunkSeq.getD ch 0 }) := by
      refine h.b.setC_attach (c := c) (P := P) ?_ hca rfl rfl rfl ?_ hex hv.sub hv.comp ?_
      · show getC w c.pid c.sid = some c
        rw [hcp, hcs]; exact hC
      · show getP w c.pid = some P
        rw [hcp]; exact hP
      · intro S hS
        have hS' : getS w e.sid = some S := by rw [← hcs]; exact hS
        rw [hSe] at hS'; cases hS'
        show heldCh Se c.pid = []
        rw [hcp]
        exact h.a.heldCh_nil hSe hl3
    refine ⟨⟨h.a.attachP_old hP hslot hreg hC rfl rfl rfl rfl, ?_⟩,
      getP_setP_self _ (by rw [getP_setC]; exact hP), ?_⟩
    · exact hB1.setP_irrel (P := P) (by rw [getP_setC]; exact hP) ⟨rfl, rfl, rfl, rfl, rfl, rfl, rfl, rfl, rfl, rfl⟩
    · intro c' hc' y
      rw [getC_setP, getC_setC] at hc'
      simp only [hcp, hcs, and_self, if_true, hC, Option.map_some, Option.some.injEq] at hc'
      subst hc'
      exact h.b.unatt c hcm hca P (hcp ▸ hP) hex y

theorem invAB_pubCreateConn (h : InvAB cfg np ns fl w) {p slot : Nat} {e : SubEntry} {P : Pub}
    (hP : getP w p = some P) (hPa : P.alive = true) (hslot : P.conns[slot]? = some none)
    (hreg : w.subReg.slots[slot]? = some (some e)) :
    InvAB cfg np ns fl (pubCreateConn w p slot e) := by
  rw [pubCreateConn_eq, hP]
  simp only
  have hslt : slot < P.conns.length := (List.getElem?_eq_some_iff.mp hslot).1
  obtain ⟨h1, hg1, hb1⟩ := invAB_pubAttach h hP hPa hslot hreg
  have hex := (h.a.palive p P hP hPa).1
  have hhist : ∀ ch ∈ histToDeliver w p e P, ch ∈ P.hist := fun ch hch => List.mem_of_mem_drop hch
  refine invAB_deliverHistory h1 p e.sid _ (i := slot) hg1 hex
    (by simp only [List.getElem?_set]; simp [hslt]) hhist ?_ (fun c hc ch _ => hb1 c hc ch)
  exact ((h.b.histOk p P hP hex).1.sublist (List.drop_sublist _ _))

end Iox2.PubSub.C01P
