/-
Layer C: `update_connections` of the publisher.
-/
import Iox2.Proof.PubSubC01C4
namespace Iox2.PubSub.C01P
open Iox2.PubSub

variable {cfg : Cfg} {np ns : Option Nat} {fq : Option (Nat × Nat)} {w : World}

theorem InvK.pubUpdateSlots (hA : InvA cfg np ns w) (hK : InvK fq none w) (p : Nat) (l : List (Option SubEntry))
    (i : Nat) (t : List Nat) {P : Pub} (hP : getP w p = some P) (hPa : P.alive = true)
    (hreg : ∀ j e, l[j]? = some (some e) → w.subReg.slots[i + j]? = some (some e)) :
    InvK fq none (Iox2.PubSub.pubUpdateSlots w p l i t).1 := by
  induction l generalizing w i t P with
  | nil => exact hK
  | cons x r ih =>
    have hreg' : ∀ w' : World, w'.subReg = w.subReg →
        ∀ j e, r[j]? = some (some e) → w'.subReg.slots[i + 1 + j]? = some (some e) := by
      intro w' hw' j e hj
      rw [hw']
      have := hreg (j + 1) e (by simpa using hj)
      rw [show i + 1 + j = i + (j + 1) by omega]; exact this
    cases x with
    | none => exact ih hA hK (i + 1) t hP hPa (hreg' w rfl)
    | some e =>
      have hre : w.subReg.slots[i]? = some (some e) := by
        have := hreg 0 e (by simp); simpa using this
      have hilt : i < P.conns.length := by
        rw [(hA.pconns p P hP).1, ← hA.sregLen]
        exact (List.getElem?_eq_some_iff.mp hre).1
      unfold Iox2.PubSub.pubUpdateSlots
      rw [hP]
      simp only
      cases hs : P.conns.getD i none with
      | none =>
        simp only
        have hslot := getD_eq_none_of hilt hs
        have h1 := hA.pubCreateConn hP hPa hslot hre
        have k1 := hK.pubCreateConn hA hP hPa hslot hre
        have f1 := pubCreateConn_frame w p i e
        obtain ⟨P1, hP1, st1⟩ := f1.psome p P hP
        exact ih h1 k1 (i + 1) (i :: t) hP1 (st1.alive ▸ hPa) (hreg' _ f1.subReg)
      | some s =>
        simp only
        by_cases hse : s = e.sid
        · rw [if_pos hse]
          exact ih hA hK (i + 1) (i :: t) hP hPa (hreg' w rfl)
        · rw [if_neg hse]
          have hslot : P.conns[i]? = some (some s) := getD_eq_some_iff.mp hs
          have h1 := hA.pubRemoveConn p i (fun P' s' hP' hs' => by
            rw [hP] at hP'; cases hP'
            rw [hslot] at hs'; cases hs'
            exact hA.dead_of_mismatch hP hslot (fun e' he' => by
              rw [hre] at he'; cases he'; exact fun hh => hse hh.symm))
          have k1 := hK.of_frame (pubRemoveConn_cframe w p i)
          have f1 := pubRemoveConn_frame w p i
          obtain ⟨P1, hP1, hc1⟩ := pubRemoveConn_conns w p i hP
          obtain ⟨P1', hP1', st1⟩ := f1.psome p P hP
          rw [hP1] at hP1'; cases hP1'
          have hslot1 : P1.conns[i]? = some none := by
            rw [hc1, List.getElem?_set]; simp [hilt]
          have hre1 : (Iox2.PubSub.pubRemoveConn w p i).subReg.slots[i]? = some (some e) := by
            rw [f1.subReg]; exact hre
          have h2 := h1.pubCreateConn hP1 (st1.alive ▸ hPa) hslot1 hre1
          have k2 := k1.pubCreateConn h1 hP1 (st1.alive ▸ hPa) hslot1 hre1
          have f2 := pubCreateConn_frame (Iox2.PubSub.pubRemoveConn w p i) p i e
          obtain ⟨P2, hP2, st2⟩ := f2.psome p P1 hP1
          exact ih h2 k2 (i + 1) (i :: t) hP2 (by rw [st2.alive, st1.alive]; exact hPa)
            (hreg' _ (f2.subReg.trans f1.subReg))

theorem InvK.pubForceUpdate (hA : InvA cfg np ns w) (hK : InvK fq none w) (p : Nat) {P : Pub}
    (hP : getP w p = some P) (hPa : P.alive = true) (hsnap : P.snap = w.subReg.slots) :
    InvK fq none (Iox2.PubSub.pubForceUpdate w p) := by
  unfold Iox2.PubSub.pubForceUpdate
  rw [hP]
  simp only
  have k1 := hK.pubUpdateSlots hA p P.snap 0 [] hP hPa (fun j e hj => by rw [← hsnap]; simpa using hj)
  generalize Iox2.PubSub.pubUpdateSlots w p P.snap 0 [] = d at k1
  obtain ⟨w1, tg⟩ := d
  exact k1.of_frame (pubFinish_cframe w1 p tg _)

theorem InvK.pubUpdate (hA : InvA cfg np ns w) (hK : InvK fq none w) (p : Nat)
    (hPa : ∀ P, getP w p = some P → P.alive = true) :
    InvK fq none (Iox2.PubSub.pubUpdate w p) := by
  unfold Iox2.PubSub.pubUpdate
  cases hP : getP w p with
  | none => exact hK
  | some P =>
    simp only
    split
    · exact hK
    · have h1 : InvA cfg np ns (setP w p { P with snapCtr := w.subReg.counter, snap := w.subReg.slots }) :=
        hA.setP_irrel hP rfl rfl rfl rfl
      have k1 : InvK fq none (setP w p { P with snapCtr := w.subReg.counter, snap := w.subReg.slots }) :=
        hK.of_frame (CFrame.setP hP ⟨rfl, rfl, rfl, id, fun i _ h => ⟨i, h⟩⟩)
      exact k1.pubForceUpdate h1 p (getP_setP_self _ hP) (hPa P hP) rfl

end Iox2.PubSub.C01P
