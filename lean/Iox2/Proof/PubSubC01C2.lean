/-
Layer C: the helper functions that do not touch the send numbering are `CFrame` steps.
-/
import Iox2.Proof.PubSubC01C1
namespace Iox2.PubSub.C01P
open Iox2.PubSub

variable {w : World}

/-! ### publisher side -/

theorem retrieveFrom_cframe (w : World) (p : Nat) (sl : List (Option Nat)) : CFrame w (retrieveFrom w p sl) := by
  induction sl generalizing w with
  | nil => exact CFrame.refl w
  | cons x r ih =>
    cases x with
    | none => exact ih w
    | some s =>
      unfold retrieveFrom
      cases hP : getP w p with
      | none => exact ih w
      | some P =>
        cases hC : getC w p s with
        | none => exact ih w
        | some c =>
          simp only
          have hst := drainComp_stable P c.used c.comp
          generalize drainComp P c.used c.comp = d at hst
          obtain ⟨P', u'⟩ := d
          simp only
          obtain ⟨_, hcp, hcs⟩ := getC_some hC
          have f1 : CFrame w (setP w p P') := CFrame.setP hP (PSame.of_stable hst.1 hst.2)
          have f2 : CFrame (setP w p P') (setC (setP w p P') { c with comp := [], used := u' }) :=
            CFrame.setC (c := c) (by simp only [getC_setP, hcp, hcs]; exact hC) ⟨rfl, rfl, rfl, rfl, rfl, id⟩
          exact (f1.trans f2).trans (ih _)

theorem retrieveReturned_cframe (w : World) (p : Nat) : CFrame w (retrieveReturned w p) := by
  unfold retrieveReturned
  cases hP : getP w p with
  | none => exact CFrame.refl w
  | some P => exact retrieveFrom_cframe w p P.conns

theorem set_none_sub {α : Type} {l : List (Option α)} {slot i : Nat} {v : α}
    (h : (l.set slot none)[i]? = some (some v)) : l[i]? = some (some v) := by
  rw [List.getElem?_set] at h
  split at h
  · split at h <;> cases h
  · exact h

theorem pubRemoveConn_cframe (w : World) (p slot : Nat) : CFrame w (pubRemoveConn w p slot) := by
  rw [pubRemoveConn_eq]
  cases hP : getP w p with
  | none => exact CFrame.refl w
  | some P =>
    simp only
    cases hs : P.conns.getD slot none with
    | none => exact CFrame.refl w
    | some s =>
      simp only
      have hrel : CFrame w (pubRelease w p s P).1 ∧ getP (pubRelease w p s P).1 p = some P ∧
          PStable P (pubRelease w p s P).2 ∧ (pubRelease w p s P).2.conns = P.conns := by
        unfold pubRelease
        cases hC : getC w p s with
        | none => exact ⟨CFrame.refl w, hP, PStable.refl P, rfl⟩
        | some c =>
          simp only
          obtain ⟨_, hcp, hcs⟩ := getC_some hC
          have hst := releaseAllUsed_stable P c.used c.used.length
          exact ⟨CFrame.setC (c := c) (by simp only [hcp, hcs]; exact hC) ⟨rfl, rfl, rfl, rfl, rfl, id⟩,
            hP, hst.1, hst.2⟩
      obtain ⟨f1, hP1, st, hcn⟩ := hrel
      generalize pubRelease w p s P = r at f1 hP1 st hcn
      obtain ⟨w1, P2⟩ := r
      simp only at f1 hP1 st hcn ⊢
      have f2 : CFrame w1 (setP w1 p { P2 with conns := P2.conns.set slot none }) :=
        CFrame.setP hP1 ⟨st.seq, st.hist, st.chunkSeq, fun h => st.ex ▸ h,
          fun i b hi => ⟨i, by simp only [hcn] at hi; exact set_none_sub hi⟩⟩
      exact (f1.trans f2).trans (CFrame.detachSender _ p s)

theorem pubFinish_cframe (w : World) (p : Nat) (t : List Nat) (k : Nat) : CFrame w (pubFinish w p t k) := by
  induction k with
  | zero => exact CFrame.refl w
  | succ k ih =>
    unfold pubFinish
    simp only
    split
    · exact ih
    · exact ih.trans (pubRemoveConn_cframe _ p k)

theorem pubDestroySlots_cframe (w : World) (p : Nat) (l : List (Option Nat)) : CFrame w (pubDestroySlots w p l) := by
  induction l generalizing w with
  | nil => exact CFrame.refl w
  | cons x r ih =>
    cases x with
    | none => exact ih w
    | some s =>
      unfold pubDestroySlots
      exact (CFrame.detachSender w p s).trans (ih _)

theorem pubDestroyIfUnreferenced_cframe (w : World) (p : Nat) : CFrame w (pubDestroyIfUnreferenced w p) := by
  unfold pubDestroyIfUnreferenced
  cases hP : getP w p with
  | none => exact CFrame.refl w
  | some P =>
    simp only
    split
    · exact CFrame.refl w
    · have f1 := pubDestroySlots_cframe w p P.conns
      obtain ⟨g1, _⟩ := pubDestroySlots_frame w p P.conns
      obtain ⟨P', hP', _⟩ := g1.psome p P hP
      obtain ⟨P0, hP0, sm⟩ := f1.pubs p P' hP'
      rw [hP] at hP0; cases hP0
      refine f1.trans (CFrame.setP hP' ?_)
      refine ⟨sm.seq.symm, sm.hist.symm, sm.chunkSeq.symm, fun h => (by cases h), fun i b hi => ?_⟩
      exfalso
      simp only [List.getElem?_map] at hi
      cases h : P.conns[i]? with
      | none => rw [h] at hi; cases hi
      | some v => rw [h] at hi; cases hi

/-! ### subscriber side -/

theorem setS_tbr_cframe {s : Nat} {S : Sub} (hS : getS w s = some S) (t : List Nat) :
    CFrame w (setS w s { S with tbr := t }) := CFrame.setS hS rfl

theorem subDropConn_cframe (w : World) (s key : Nat) : CFrame w (subDropConn w s key) := by
  unfold subDropConn
  cases hS : getS w s with
  | none => exact CFrame.refl w
  | some S =>
    simp only
    cases hk : smGet S.storage key with
    | none => exact CFrame.refl w
    | some p =>
      simp only
      have f1 : CFrame w (setS w s { S with storage := smRemove S.storage key }) := CFrame.setS hS rfl
      exact f1.trans (CFrame.detachReceiver _ p s)

theorem prepMakeRoom_cframe (w : World) (s : Nat) (S : Sub) (hS : getS w s = some S) (hb : Bool) :
    CFrame w (prepMakeRoom w s S hb) := by
  unfold prepMakeRoom
  split
  · exact (setS_tbr_cframe hS _).trans (subDropConn_cframe _ s _)
  · split
    · split
      · exact (setS_tbr_cframe hS _).trans (subDropConn_cframe _ s _)
      · exact CFrame.refl w
    · exact CFrame.refl w

theorem prepEnqueue_cframe (w : World) (s key : Nat) (hb : Bool) : CFrame w (prepEnqueue w s key hb) := by
  unfold prepEnqueue
  cases hS : getS w s with
  | none => exact CFrame.refl w
  | some S =>
    simp only
    split
    · exact setS_tbr_cframe hS _
    · split
      · exact CFrame.panic w
      · exact subDropConn_cframe w s key

theorem subPrepareRemoval_cframe (w : World) (s slot : Nat) : CFrame w (subPrepareRemoval w s slot) := by
  rw [subPrepareRemoval_eq]
  cases hS : getS w s with
  | none => exact CFrame.refl w
  | some S =>
    simp only
    cases hk : S.conns.getD slot none with
    | none => exact CFrame.refl w
    | some key =>
      simp only
      cases hf : connFlags w s S key with
      | none => exact CFrame.refl w
      | some fl =>
        obtain ⟨hasData, hasBorrows⟩ := fl
        simp only
        split
        · split
          · exact setS_tbr_cframe hS _
          · exact (prepMakeRoom_cframe w s S hS hasBorrows).trans (prepEnqueue_cframe _ s key hasBorrows)
        · exact subDropConn_cframe w s key

theorem recvAttach_cframe (w : World) (s p : Nat) (S : Sub) : CFrame w (recvAttach w s p S) := by
  unfold recvAttach
  cases hC : getC w p s with
  | some c =>
    simp only
    obtain ⟨_, hcp, hcs⟩ := getC_some hC
    exact CFrame.setC (c := c) (by simp only [hcp, hcs]; exact hC) ⟨rfl, rfl, rfl, rfl, rfl, id⟩
  | none =>
    simp only
    exact CFrame.addC w ⟨rfl, rfl⟩

theorem subCreateConn_cframe (w : World) (s slot p : Nat) : CFrame w (subCreateConn w s slot p) := by
  rw [subCreateConn_eq]
  cases hS : getS w s with
  | none => exact CFrame.refl w
  | some S =>
    simp only
    have f1 := recvAttach_cframe w s p S
    obtain ⟨_, f2⟩ := recvAttach_frame w s p S
    have hS1 : getS (recvAttach w s p S) s = some S := by
      unfold getS; rw [f2]; exact hS
    generalize smInsert S.storage p = r
    obtain ⟨m, k⟩ := r
    cases k with
    | none => exact f1.trans (CFrame.panic _)
    | some key =>
      simp only
      exact f1.trans (CFrame.setS hS1 rfl)

theorem subUpdateSlots_cframe (w : World) (s : Nat) (l : List (Option Nat)) (i : Nat) (t : List Nat) :
    CFrame w (subUpdateSlots w s l i t).1 := by
  induction l generalizing w i t with
  | nil => exact CFrame.refl w
  | cons x r ih =>
    cases x with
    | none => exact ih w (i + 1) t
    | some p =>
      unfold subUpdateSlots
      cases hS : getS w s with
      | none => exact CFrame.refl w
      | some S =>
        simp only
        split
        · exact ih _ _ _
        · exact ((subPrepareRemoval_cframe w s i).trans (subCreateConn_cframe _ s i p)).trans (ih _ _ _)

theorem subFinish_cframe (w : World) (s : Nat) (t : List Nat) (fuel n : Nat) : CFrame w (subFinish w s t fuel n) := by
  induction fuel generalizing w n with
  | zero => exact CFrame.refl w
  | succ fuel ih =>
    unfold subFinish
    cases hS : getS w s with
    | none => exact CFrame.refl w
    | some S =>
      simp only
      split
      · exact CFrame.refl w
      · refine CFrame.trans ?_ (ih _ _)
        split
        · exact CFrame.refl w
        · split
          · have f1 := subPrepareRemoval_cframe w s n
            split
            · rename_i S' hS'
              exact f1.trans (CFrame.setS hS' rfl)
            · exact f1
          · exact CFrame.refl w

theorem subForceUpdate_cframe (w : World) (s : Nat) : CFrame w (subForceUpdate w s) := by
  unfold subForceUpdate
  cases hS : getS w s with
  | none => exact CFrame.refl w
  | some S =>
    simp only
    generalize hd : subUpdateSlots w s S.snap 0 [] = d
    obtain ⟨w1, tg⟩ := d
    have := subUpdateSlots_cframe w s S.snap 0 []
    rw [hd] at this
    exact this.trans (subFinish_cframe w1 s tg _ _)

theorem subUpdate_cframe (w : World) (s : Nat) : CFrame w (subUpdate w s) := by
  unfold subUpdate
  cases hS : getS w s with
  | none => exact CFrame.refl w
  | some S =>
    simp only
    split
    · exact CFrame.refl w
    · have f1 : CFrame w (setS w s { S with snapCtr := w.pubReg.counter, snap := w.pubReg.slots }) :=
        CFrame.setS hS rfl
      exact f1.trans (subForceUpdate_cframe _ s)

theorem subRelease_cframe (w : World) (s : Nat) (h : Held) : CFrame w (subRelease w s h) := by
  unfold subRelease
  split
  · exact CFrame.refl w
  · split
    · exact CFrame.refl w
    · split
      · exact CFrame.refl w
      · split
        · exact CFrame.refl w
        · rename_i p _ _ c hC
          split
          · obtain ⟨_, hcp, hcs⟩ := getC_some hC
            exact CFrame.setC (c := c) (by simp only [hcp, hcs]; exact hC) ⟨rfl, rfl, rfl, rfl, rfl, id⟩
          · exact CFrame.refl w

theorem subDestroyKeys_cframe (w : World) (s : Nat) (l : List (Nat × Nat)) : CFrame w (subDestroyKeys w s l) := by
  induction l generalizing w with
  | nil => exact CFrame.refl w
  | cons x r ih =>
    obtain ⟨k, p⟩ := x
    unfold subDestroyKeys
    exact (CFrame.detachReceiver w p s).trans (ih _)

theorem subDestroyIfUnreferenced_cframe (w : World) (s : Nat) : CFrame w (subDestroyIfUnreferenced w s) := by
  unfold subDestroyIfUnreferenced
  cases hS : getS w s with
  | none => exact CFrame.refl w
  | some S =>
    simp only
    split
    · exact CFrame.refl w
    · have f1 := subDestroyKeys_cframe w s (SlotMap.items S.storage)
      obtain ⟨_, g2⟩ := subDestroyKeys_frame w s (SlotMap.items S.storage)
      have hS1 : getS (subDestroyKeys w s (SlotMap.items S.storage)) s = some S := by
        unfold getS; rw [g2]; exact hS
      exact f1.trans (CFrame.setS hS1 rfl)

end Iox2.PubSub.C01P
