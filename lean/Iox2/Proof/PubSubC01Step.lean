/-
The API operations (`step`) expressed through named pieces.
-/
import Iox2.Proof.PubSubC01Eqs
namespace Iox2.PubSub.C01P
open Iox2.PubSub

/-! ### send -/

def sendStamp (P : Pub) (c tag : Nat) : Pub :=
  { P with seq := P.seq + 1, chunkSeq := P.chunkSeq.set c P.seq, sent := P.sent ++ [tag] }

def sendHist (hist : Nat) (P : Pub) (c : Nat) : Pub :=
  if hist = 0 then P else
    let P := P.borrowChunk c
    if P.hist.length ≥ hist then
      match P.hist with
      | [] => { P with hist := [c] }
      | old :: rest => { P with hist := rest ++ [c] }.releaseChunk old
    else { P with hist := P.hist ++ [c] }

def sendDeliver (p c seq : Nat) (slots : List (Option Nat)) (acc : World × Nat) : World × Nat :=
  slots.foldl (fun (acc : World × Nat) sl =>
    match sl with
    | none => acc
    | some s => let (w', ok) := deliverTo acc.1 p s c seq
                (w', if ok then acc.2 + 1 else acc.2)) acc

def sendAlive (w : World) (p c tag : Nat) : World × String :=
  let w := pubUpdate w p
  match getP w p with
  | none => (w, "none")
  | some P =>
    let w := retrieveReturned (setP w p (sendHist w.cfg.hist (sendStamp P c tag) c)) p
    let slots := match getP w p with | some P => P.conns | none => []
    let r := sendDeliver p c P.seq slots (w, 0)
    (r.1, s!"ok:{r.2}")

def sendFinish (w : World) (p c : Nat) : World :=
  pubDestroyIfUnreferenced (match getP w p with
    | some P => setP w p { P.releaseChunk c with loanCnt := P.loanCnt - 1 }
    | none => w) p

theorem step_send (w : World) (p l tag : Nat) : step w (.send p l tag) =
    match getP w p with
    | none => (w, "none")
    | some P0 =>
      match P0.loans.find? (·.1 = l) with
      | none => (w, "none")
      | some (_, c) =>
        let P0' := { P0 with payload := P0.payload.set c tag, loans := P0.loans.filter (·.1 ≠ l) }
        let w1 := setP w p P0'
        let r := if !P0'.alive then (w1, "err:ConnectionBrokenSinceSenderNoLongerExists") else sendAlive w1 p c tag
        (sendFinish r.1 p c, r.2) := by
  rfl

/-! ### the other operations -/

def newPub (w : World) (ml : Nat) : Pub :=
  { maxLoans := ml, n := w.cfg.nChunks ml, free := List.range (w.cfg.nChunks ml),
    rc := List.replicate (w.cfg.nChunks ml) 0,
    conns := List.replicate w.cfg.maxSubs none, snapCtr := w.subReg.counter,
    snap := w.subReg.slots, payload := List.replicate (w.cfg.nChunks ml) 0,
    chunkSeq := List.replicate (w.cfg.nChunks ml) 0 }

theorem step_cpub (w : World) (p ml : Nat) : step w (.cpub p ml) =
    if (getP w p).isSome then (w, "dup") else
    let w1 := pubForceUpdate (addP w p (newPub w ml)) p
    match w1.pubReg.add p, getP w1 p with
    | some (reg, slot), some P1 => finishPanic w ({ setP w1 p { P1 with slot := slot } with pubReg := reg }, "ok")
    | _, _ =>
      finishPanic w (delP (match getP w1 p with
        | some P1 => pubDestroySlots w1 p P1.conns
        | none => w1) p, "err:ExceedsMaxSupportedPublishers") := by
  rfl

theorem step_dpub (w : World) (p : Nat) : step w (.dpub p) =
    match getP w p with
    | none => (w, "none")
    | some P =>
      if !P.alive then (w, "none") else
      (pubDestroyIfUnreferenced { setP w p { P with alive := false } with pubReg := w.pubReg.remove P.slot } p, "ok") := by
  rfl

def subTbrCap (w : World) : Nat := if w.cfg.expired ≥ w.cfg.borrowMax then w.cfg.expired else w.cfg.borrowMax

def newSub (w : World) (buffer histReq : Nat) : Sub :=
  { buffer := buffer, histReq := histReq, conns := List.replicate w.cfg.maxPubs none,
    storage := SlotMap.init (subTbrCap w + w.cfg.maxPubs), tbrCap := subTbrCap w,
    snapCtr := w.pubReg.counter, snap := w.pubReg.slots }

def csubBuffer (w : World) (b : Option Nat) : Option Nat :=
  match b with
  | some b => if w.cfg.bufMax < b then none else some (clamp1 b)
  | none => some w.cfg.bufMax

def csubHist (w : World) (h : Option Nat) (buffer : Nat) : Except String Nat :=
  match h with
  | some h => if h > w.cfg.hist then Except.error "err:HistoryRequestExceedsHistorySizeOfService"
              else if h > buffer then Except.error "err:HistoryRequestExceedsBufferSizeOfSubscriber"
              else Except.ok h
  | none => Except.ok (min w.cfg.hist buffer)

def csubCore (w : World) (s buffer histReq : Nat) : World × String :=
  let w1 := subForceUpdate (addS w s (newSub w buffer histReq)) s
  match w1.subReg.add { sid := s, buffer := buffer, histReq := histReq }, getS w1 s with
  | some (reg, slot), some S1 => finishPanic w ({ setS w1 s { S1 with slot := slot } with subReg := reg }, "ok")
  | _, _ =>
    finishPanic w (delS (match getS w1 s with
      | some S1 => subDestroyKeys w1 s (SlotMap.items S1.storage)
      | none => w1) s, "err:ExceedsMaxSupportedSubscribers")

theorem step_csub (w : World) (s : Nat) (b h : Option Nat) : step w (.csub s b h) =
    if (getS w s).isSome then (w, "dup") else
    match csubBuffer w b with
    | none => (w, "err:BufferSizeExceedsMaxSupportedBufferSizeOfService")
    | some buffer =>
      match csubHist w h buffer with
      | .error e => (w, e)
      | .ok histReq => csubCore w s buffer histReq := by
  rfl

theorem step_dsub (w : World) (s : Nat) : step w (.dsub s) =
    match getS w s with
    | none => (w, "none")
    | some S =>
      if !S.alive then (w, "none") else
      (subDestroyIfUnreferenced { setS w s { S with alive := false } with subReg := w.subReg.remove S.slot } s, "ok") := by
  rfl

theorem step_loan (w : World) (p l : Nat) : step w (.loan p l) =
    match getP w p with
    | none => (w, "none")
    | some P0 =>
      if !P0.alive then (w, "none") else
      if (P0.loans.find? (·.1 = l)).isSome then (w, "dup") else
      match getP (retrieveReturned w p) p with
      | none => (retrieveReturned w p, "none")
      | some P =>
        if P.loanCnt ≥ P.maxLoans then (retrieveReturned w p, "err:ExceedsMaxLoans") else
        match P.free with
        | [] => (retrieveReturned w p, "err:OutOfMemory")
        | c :: rest =>
          if P.rc.getD c 0 ≠ 0 then ({ retrieveReturned w p with panicked := true }, "PANIC") else
          (setP (retrieveReturned w p) p { P with free := rest, rc := P.rc.set c 1, loanCnt := P.loanCnt + 1, loans := P.loans ++ [(l, c)] }, "ok") := by
  rfl

theorem step_dloan (w : World) (p l : Nat) : step w (.dloan p l) =
    match getP w p with
    | none => (w, "none")
    | some P =>
      match P.loans.find? (·.1 = l) with
      | none => (w, "none")
      | some (_, c) =>
        (pubDestroyIfUnreferenced (setP w p { P.releaseChunk c with loanCnt := P.loanCnt - 1, loans := P.loans.filter (·.1 ≠ l) }) p, "ok") := by
  rfl

def recvTag (w : World) (p ch : Nat) : Nat := match getP w p with | some P => P.payload.getD ch 0 | none => 0

theorem step_recv (w : World) (s : Nat) : step w (.recv s) =
    match getS w s with
    | none => (w, "none")
    | some S0 =>
      if !S0.alive then (w, "none") else
      if (subUpdate w s).panicked then ({ w with panicked := true }, "PANIC") else
      match subReceive (subUpdate w s) s with
      | (w2, .none) => (w2, "none")
      | (w2, .maxBorrow) => (w2, "err:ExceedsMaxBorrows")
      | (w2, .some key p ch seq) =>
        match getS w2 s with
        | none => (w2, "none")
        | some S =>
          (setS w2 s { S with held := S.held ++ [{ key := key, pid := p, chunk := ch, seq := seq, tag := recvTag w2 p ch }], ghostRecv := S.ghostRecv ++ [(p, seq)] },
           s!"some:{p}:{recvTag w2 p ch}") := by
  rfl

theorem step_dsample (w : World) (s k : Nat) : step w (.dsample s k) =
    match getS w s with
    | none => (w, "none")
    | some S =>
      match S.held[k]? with
      | none => (w, "none")
      | some h =>
        (subDestroyIfUnreferenced (subRelease (setS w s { S with held := S.held.eraseIdx k }) s h) s, "ok") := by
  rfl

theorem step_updP (w : World) (p : Nat) : step w (.updP p) =
    match getP w p with
    | none => (w, "none")
    | some P => if !P.alive then (w, "none") else finishPanic w (pubUpdate w p, "ok") := by
  rfl

theorem step_updS (w : World) (s : Nat) : step w (.updS s) =
    match getS w s with
    | none => (w, "none")
    | some S => if !S.alive then (w, "none") else finishPanic w (subUpdate w s, "ok") := by
  rfl

def probeRelease (P : Pub) (taken : List Nat) : Pub :=
  taken.foldl (fun (P : Pub) c => { P.releaseChunk c with loanCnt := P.loanCnt - 1 }) P

theorem step_probe (w : World) (p : Nat) : step w (.probe p) =
    match getP w p with
    | none => (w, "none")
    | some P0 =>
      if !P0.alive then (w, "none") else
      match getP (retrieveReturned w p) p with
      | none => (retrieveReturned w p, "none")
      | some P =>
        (setP (retrieveReturned w p) p (probeRelease (probeLoans P (P.n + 1) []).1 (probeLoans P (P.n + 1) []).2.1),
         s!"{(probeLoans P (P.n + 1) []).2.1.length}:{(probeLoans P (P.n + 1) []).2.2}") := by
  rfl

theorem step_has (w : World) (s : Nat) : step w (.has s) =
    match getS w s with
    | none => (w, "none")
    | some S0 =>
      if !S0.alive then (w, "none") else
      if (subUpdate w s).panicked then ({ w with panicked := true }, "PANIC") else
      match getS (subUpdate w s) s with
      | none => (subUpdate w s, "none")
      | some S => (subUpdate w s, if anyHasData (subUpdate w s) s (SlotMap.items S.storage) then "true" else "false") := by
  rfl

end Iox2.PubSub.C01P
