/-
Layer B: `send` (delivery to all connections) and the whole operation.
-/
import Iox2.Proof.PubSubC01B16
import Iox2.Proof.PubSubC01C6
namespace Iox2.PubSub.C01P
open Iox2.PubSub

variable {cfg : Cfg} {np ns : Option Nat} {w : World}

theorem invAB_sendDeliver (p c q : Nat) (slots : List (Option Nat)) (acc : World × Nat)
    (h : InvAB cfg np ns (some (p, c, false)) acc.1) {P : Pub} (hP : getP acc.1 p = some P) (hex : P.ex = true)
    (hsl : ∀ s, some s ∈ slots → ∃ i : Nat, P.conns[i]? = some (some s)) (hdist : DistinctSome slots)
    (hbits : ∀ s, some s ∈ slots → ∀ cn, getC acc.1 p s = some cn → cn.used.getD c false = false)
    (hcn : c < P.n) (hpay : P.payload.getD c 0 = P.sent.getD q 0 ∧ q < P.seq) :
    InvAB cfg np ns (some (p, c, false)) (sendDeliver p c q slots acc).1 := by
  induction slots generalizing acc P with
  | nil => exact h
  | cons x r ih =>
    unfold sendDeliver
    rw [List.foldl_cons]
    unfold DistinctSome at hdist
    rw [List.pairwise_cons] at hdist
    obtain ⟨hd1, hd2⟩ := hdist
    cases x with
    | none =>
      exact ih acc h hP hex (fun s hs => hsl s (List.mem_cons_of_mem _ hs)) hd2
        (fun s hs => hbits s (List.mem_cons_of_mem _ hs)) hcn hpay
    | some s =>
      simp only
      obtain ⟨i, hi⟩ := hsl s (by simp)
      have hrc := h.b.rc p P hP hex c hcn
      rw [inflight_some, if_pos ⟨rfl, rfl⟩] at hrc
      have hnp : ¬ Pinned (some (p, c, false)) p P c := by
        rintro (⟨l, hl⟩ | hf)
        · have h1 := ((h.b.loans p P hP hex).2 l c hl).2
          have := filter_length_pos (q := fun e : Nat × Nat => decide (e.2 = c)) hl (by simp)
          omega
        · simp at hf
      have h1 := invAB_deliverTo h (q := q) hP hex hi (fun cn hcn' => hbits s (by simp) cn hcn') hcn (by omega) hnp hpay
      obtain ⟨f1, c1⟩ := deliverTo_frame acc.1 p s c q
      obtain ⟨P1, hP1, st1⟩ := f1.psome p P hP
      refine ih ((deliverTo acc.1 p s c q).1, if (deliverTo acc.1 p s c q).2 = true then acc.2 + 1 else acc.2)
        h1 hP1 (st1.ex ▸ hex) (fun s' hs' => by rw [c1 P P1 hP hP1]; exact hsl s' (List.mem_cons_of_mem _ hs')) hd2
        ?_ (st1.n ▸ hcn) (by rw [st1.payload, st1.sent, st1.seq]; exact hpay)
      intro s' hs' cn hcn'
      obtain ⟨cn0, h0, _, e3⟩ := deliverTo_connB acc.1 p s c q p s' cn hcn'
      cases hh : cn.used.getD c false with
      | false => rfl
      | true =>
        rcases e3 c hh with ⟨_, hss, _⟩ | h3
        · exact absurd (by rw [hss]) (hd1 (some s') hs' s rfl)
        · rw [hbits s' (List.mem_cons_of_mem _ hs') cn0 h0] at h3; cases h3

theorem invAB_sendFinish {fr : Bool} {p c : Nat} (h : InvAB cfg np ns (some (p, c, fr)) w) :
    InvAB cfg np ns none (sendFinish w p c) := by
  unfold sendFinish
  obtain ⟨P, hP, _⟩ := h.b.flOk p c fr rfl
  rw [hP]
  simp only
  have st := releaseChunk_stable P c
  have hA1 : InvA cfg np ns (setP w p { P.releaseChunk c with loanCnt := P.loanCnt - 1 }) :=
    h.a.setP_irrel hP st.alive st.ex st.slot (releaseChunk_conns P c)
  exact invAB_pubDestroyIfUnreferenced (fl := none) ⟨hA1, h.b.finishSend hP⟩ p (fun _ _ hh => by cases hh)

theorem invAB_sendAlive {p c tag : Nat} (h : InvAB cfg none none (some (p, c, true)) w)
    (hPa : ∀ P, getP w p = some P → P.alive = true ∧ P.payload.getD c 0 = tag) :
    InvAB cfg none none (some (p, c, false)) (sendAlive w p c tag).1 := by
  unfold sendAlive
  simp only
  have h1 := invAB_pubUpdate h p (fun P hP => (hPa P hP).1)
  have f1 := pubUpdate_frame w p
  obtain ⟨P0, hP0, _, hcn0, _⟩ := h.b.flOk p c true rfl
  obtain ⟨P, hP, st0⟩ := f1.psome p P0 hP0
  rw [hP]
  simp only
  have hal : P.alive = true := by rw [st0.alive]; exact (hPa P0 hP0).1
  have hex : P.ex = true := (h1.a.palive p P hP hal).1
  have hpayc : P.payload.getD c 0 = tag := by rw [st0.payload]; exact (hPa P0 hP0).2
  have hcn : c < P.n := st0.n ▸ hcn0
  have hlens := h1.b.lens p P hP
  have hnouse : ∀ cn ∈ (pubUpdate w p).conns, cn.pid = p → cn.sAtt = true → cn.used.getD c false = false :=
    fun cn hcn' hp hsa => h1.b.pinned_bit hP hex (Or.inr rfl) hcn' hp hsa
  have hsm := sendHist_sameA (pubUpdate w p).cfg.hist (sendStamp P c tag) c
  have h2 : InvAB cfg none none (some (p, c, false))
      (setP (pubUpdate w p) p (sendHist (pubUpdate w p).cfg.hist (sendStamp P c tag) c)) :=
    ⟨h1.a.setP_irrel hP hsm.alive hsm.ex hsm.slot hsm.conns, h1.b.stamp hP hpayc _⟩
  have hg2 := getP_setP_self (sendHist (pubUpdate w p).cfg.hist (sendStamp P c tag) c) hP
  have hex2 : (sendHist (pubUpdate w p).cfg.hist (sendStamp P c tag) c).ex = true := by rw [hsm.ex]; exact hex
  have h3 := invAB_retrieveReturned h2 p (fun Q hQ => by rw [hg2] at hQ; cases hQ; exact hex2)
  obtain ⟨f3, c3⟩ := retrieveReturned_frame
    (setP (pubUpdate w p) p (sendHist (pubUpdate w p).cfg.hist (sendStamp P c tag) c)) p
  obtain ⟨P3, hP3, st3⟩ := f3.psome p _ hg2
  rw [hP3]
  simp only
  have hspec := sendHist_spec (pubUpdate w p).cfg.hist (sendStamp P c tag) c
  have hB2pay : (sendHist (pubUpdate w p).cfg.hist (sendStamp P c tag) c).payload = P.payload ∧
      (sendHist (pubUpdate w p).cfg.hist (sendStamp P c tag) c).sent = P.sent ++ [tag] ∧
      (sendHist (pubUpdate w p).cfg.hist (sendStamp P c tag) c).n = P.n := by
    have := (h1.b.stamp hP hpayc (pubUpdate w p).cfg.hist)
    unfold sendHist
    split
    · exact ⟨rfl, rfl, rfl⟩
    · simp only
      split
      · split
        · exact ⟨rfl, rfl, rfl⟩
        · rename_i old rest _
          have st := releaseChunk_stable { (sendStamp P c tag).borrowChunk c with hist := rest ++ [c] } old
          exact ⟨st.payload, st.sent, st.n⟩
      · exact ⟨rfl, rfl, rfl⟩
  obtain ⟨e1, e2, e3⟩ := hB2pay
  refine invAB_sendDeliver p c P.seq P3.conns _ h3 hP3 (st3.ex ▸ hex2) (fun s hs => ?_) (h3.a.distinct_conns hP3)
    (fun s hs cn hcn' => ?_) (by rw [st3.n, e3]; exact hcn) ?_
  · obtain ⟨i, hi⟩ := List.getElem?_of_mem hs
    exact ⟨i, hi⟩
  · obtain ⟨cn0, h0, _, _, e5⟩ := retrieveReturned_conn _ p p s cn hcn'
    rw [getC_setP] at h0
    obtain ⟨hm0, hp0, hs0⟩ := getC_some h0
    obtain ⟨i, hi⟩ := List.getElem?_of_mem hs
    have hi' : P.conns[i]? = some (some s) := by
      rw [c3 _ P3 hg2 hP3, hsm.conns] at hi; exact hi
    obtain ⟨cn1, h1', hsa1⟩ := h1.a.a2c p P hP hex i s hi'
    rw [h0] at h1'; cases h1'
    cases hh : cn.used.getD c false with
    | false => rfl
    | true =>
      have := e5 c hh
      rw [hnouse cn0 hm0 hp0 hsa1] at this; cases this
  · rw [st3.payload, st3.sent, st3.seq, e1, e2, hspec.1]
    show P.payload.getD c 0 = (P.sent ++ [tag]).getD P.seq 0 ∧ P.seq < P.seq + 1
    refine ⟨?_, by omega⟩
    rw [hpayc, ← hlens.2.2.2]
    exact (getD_append_self_nat _ _).symm

theorem invB_step_send (hA : InvA cfg none none w) (hB : InvB none w) (p l tag : Nat) :
    InvB none (step w (.send p l tag)).1 := by
  rw [step_send]
  cases hP : getP w p with
  | none => exact hB
  | some P0 =>
    simp only
    cases hl : P0.loans.find? (·.1 = l) with
    | none => exact hB
    | some lc =>
      obtain ⟨l', c⟩ := lc
      simp only
      obtain ⟨hB1, hcn, hex⟩ := hB.takeLoan (tag := tag) hA hP hl
      have hA1 : InvA cfg none none (setP w p { P0 with payload := P0.payload.set c tag, loans := P0.loans.filter (·.1 ≠ l) }) :=
        hA.setP_irrel hP rfl rfl rfl rfl
      have hlens := hB.lens p P0 hP
      split
      · exact (invAB_sendFinish ⟨hA1, hB1⟩).b
      · rename_i hal
        simp only [Bool.not_eq_true', Bool.not_eq_false] at hal
        refine (invAB_sendFinish (invAB_sendAlive ⟨hA1, hB1⟩ (fun P hP' => ?_))).b
        rw [getP_setP_self _ hP] at hP'
        cases hP'
        refine ⟨hal, ?_⟩
        show (P0.payload.set c tag).getD c 0 = tag
        rw [getD_set_nat, if_pos ⟨rfl, by rw [hlens.2.1]; exact hcn⟩]

end Iox2.PubSub.C01P
