/-
C17 — the extra invariant `XInv` (no zombie port cores, unique port ids) holds in every reachable
state of the publish-subscribe model.
-/
import Iox2.Proof.ShutdownC17Core
import Iox2.Proof.ShutdownC17PubView
import Iox2.Proof.ShutdownC17SubView

namespace Iox2.PubSub.C17P
open Iox2.PubSub

theorem xinv_init (cfg : Cfg) : XInv (World.init cfg) :=
  ⟨⟨List.nodup_nil, List.nodup_nil⟩, fun e he => (by cases he), fun e he => (by cases he)⟩

theorem xstep {w : World} (h : XInv w) (op : Op) : XInv (step w op).1 := by
  cases op with
  | cpub p ml => exact xstep_cpub h p ml
  | dpub p => exact xstep_dpub h p
  | csub s b hr => exact xstep_csub h s b hr
  | dsub s => exact xstep_dsub h s
  | loan p l => exact xstep_loan h p l
  | send p l tag => exact xstep_send h p l tag
  | dloan p l => exact xstep_dloan h p l
  | recv s => exact xstep_recv h s
  | dsample s k => exact xstep_dsample h s k
  | updP p => exact xstep_updP h p
  | updS s => exact xstep_updS h s
  | has s => exact xstep_has h s
  | probe p => exact xstep_probe h p

theorem reach_xinv {cfg : Cfg} {w : World} (h : Reach cfg w) : XInv w := by
  induction h with
  | init => exact xinv_init cfg
  | step op _ _ ih => exact xstep ih op

end Iox2.PubSub.C17P
