/-
C02 — frame lemmas: the topology invariant only depends on the topology observations.
-/
import Iox2.Proof.PubSubC02Basic

namespace Iox2.PubSub.C02P
open Iox2.PubSub
open Iox2.C16.SlotMapP (abs WInv)

theorem ptop_eq {P P' : Pub} (h : ptop P' = ptop P) :
    P'.alive = P.alive ∧ P'.ex = P.ex ∧ P'.slot = P.slot ∧ P'.conns = P.conns ∧ P'.snap = P.snap := by
  simpa [ptop] using h

theorem stop_eq {S S' : Sub} (h : stop S' = stop S) :
    S'.alive = S.alive ∧ S'.ex = S.ex ∧ S'.slot = S.slot ∧ S'.conns = S.conns ∧ S'.snap = S.snap ∧
      S'.storage = S.storage ∧ S'.tbr = S.tbr := by
  simpa [stop] using h

theorem ctop_eq {c c' : Conn} (h : ctop c' = ctop c) :
    c'.pid = c.pid ∧ c'.sid = c.sid ∧ c'.sAtt = c.sAtt ∧ c'.rAtt = c.rAtt := by
  simpa [ctop] using h

theorem map_eq_some_left {α β : Type} {f : α → β} {a b : Option α} {x : α}
    (h : a.map f = b.map f) (hx : a = some x) : ∃ y, b = some y ∧ f x = f y := by
  subst hx
  cases b with
  | none => simp at h
  | some y => exact ⟨y, rfl, by simpa using h⟩

namespace TopEq

theorem refl (w : World) (hn : w.conns.Pairwise fun a b => ¬ (a.pid = b.pid ∧ a.sid = b.sid)) :
    TopEq w w := ⟨rfl, rfl, rfl, fun _ => rfl, fun _ => rfl, fun _ _ => rfl, hn⟩

theorem trans {w1 w2 w3 : World} (h1 : TopEq w1 w2) (h2 : TopEq w2 w3) : TopEq w1 w3 :=
  ⟨h2.cfg.trans h1.cfg, h2.pubReg.trans h1.pubReg, h2.subReg.trans h1.subReg,
   fun p => (h2.pubs p).trans (h1.pubs p), fun s => (h2.subs s).trans (h1.subs s),
   fun p s => (h2.conns p s).trans (h1.conns p s), h2.nodup⟩

variable {w w' : World} (h : TopEq w w')
include h

theorem pub_fwd {p : Nat} {P : Pub} (hp : getP w p = some P) :
    ∃ P', getP w' p = some P' ∧ ptop P' = ptop P := by
  obtain ⟨y, hy, e⟩ := map_eq_some_left (h.pubs p).symm hp
  exact ⟨y, hy, e.symm⟩
theorem pub_bwd {p : Nat} {P' : Pub} (hp : getP w' p = some P') :
    ∃ P, getP w p = some P ∧ ptop P' = ptop P :=
  map_eq_some_left (h.pubs p) hp
theorem sub_fwd {s : Nat} {S : Sub} (hs : getS w s = some S) :
    ∃ S', getS w' s = some S' ∧ stop S' = stop S := by
  obtain ⟨y, hy, e⟩ := map_eq_some_left (h.subs s).symm hs
  exact ⟨y, hy, e.symm⟩
theorem sub_bwd {s : Nat} {S' : Sub} (hs : getS w' s = some S') :
    ∃ S, getS w s = some S ∧ stop S' = stop S :=
  map_eq_some_left (h.subs s) hs
theorem conn_fwd {p s : Nat} {c : Conn} (hc : getC w p s = some c) :
    ∃ c', getC w' p s = some c' ∧ ctop c' = ctop c := by
  obtain ⟨y, hy, e⟩ := map_eq_some_left (h.conns p s).symm hc
  exact ⟨y, hy, e.symm⟩
theorem conn_bwd {p s : Nat} {c' : Conn} (hc : getC w' p s = some c') :
    ∃ c, getC w p s = some c ∧ ctop c' = ctop c :=
  map_eq_some_left (h.conns p s) hc

theorem preg {p : Nat} {P P' : Pub} (e : ptop P' = ptop P) (hr : PReg w p P) : PReg w' p P' := by
  obtain ⟨e1, _, e3, _, _⟩ := ptop_eq e
  unfold PReg at *
  rw [e1, e3, h.pubReg]; exact hr

theorem sreg {s : Nat} {S S' : Sub} (e : stop S' = stop S) (hr : SReg w s S) : SReg w' s S' := by
  obtain ⟨e1, _, e3, _, _, _, _⟩ := stop_eq e
  unfold SReg at *
  rw [e1, e3, h.subReg]; exact hr

end TopEq

theorem top_congr {G : GT} {w w' : World} (hi : TopInv G w) (h : TopEq w w') : TopInv G w' := by
  refine ⟨?_, ?_, ?_, ?_⟩
  · -- registry
    have r := hi.reg
    refine ⟨by rw [h.pubReg, h.cfg]; exact r.lenP, by rw [h.subReg, h.cfg]; exact r.lenS,
      ?_, ?_, ?_, ?_, ?_, ?_, ?_, ?_, h.nodup⟩
    · intro i p hp
      rw [h.pubReg] at hp
      obtain ⟨P, hP, ha, hs⟩ := r.r1 i p hp
      obtain ⟨P', hP', e⟩ := h.pub_fwd hP
      obtain ⟨e1, _, e3, _, _⟩ := ptop_eq e
      exact ⟨P', hP', by rw [e1]; exact ha, by rw [e3]; exact hs⟩
    · intro i e he
      rw [h.subReg] at he
      obtain ⟨S, hS, ha, hs⟩ := r.r2 i e he
      obtain ⟨S', hS', e'⟩ := h.sub_fwd hS
      obtain ⟨e1, _, e3, _, _, _, _⟩ := stop_eq e'
      exact ⟨S', hS', by rw [e1]; exact ha, by rw [e3]; exact hs⟩
    · intro p P' hP' hnp
      obtain ⟨P, hP, e⟩ := h.pub_bwd hP'
      exact h.preg e (r.r3p p P hP hnp)
    · intro s S' hS' hns
      obtain ⟨S, hS, e⟩ := h.sub_bwd hS'
      exact h.sreg e (r.r3s s S hS hns)
    · intro p hp i; rw [h.pubReg]; exact r.npFresh p hp i
    · intro s hs i e; rw [h.subReg]; exact r.nsFresh s hs i e
    · intro p hp
      obtain ⟨P, hP, ha⟩ := r.npAlive p hp
      obtain ⟨P', hP', e⟩ := h.pub_fwd hP
      exact ⟨P', hP', by rw [(ptop_eq e).1]; exact ha⟩
    · intro s hs
      obtain ⟨S, hS, ha⟩ := r.nsAlive s hs
      obtain ⟨S', hS', e⟩ := h.sub_fwd hS
      exact ⟨S', hS', by rw [(stop_eq e).1]; exact ha⟩
  · -- publishers
    intro p P' hP'
    obtain ⟨P, hP, e⟩ := h.pub_bwd hP'
    obtain ⟨e1, e2, e3, e4, e5⟩ := ptop_eq e
    have t := hi.pubs p P hP
    refine ⟨by rw [e4, h.cfg]; exact t.lenC, by rw [e5, h.cfg]; exact t.lenSnap,
      by rw [e1, e2]; exact t.aliveEx, by rw [e2, e4]; exact t.dead, ?_, ?_⟩
    · intro i s hc
      rw [e4] at hc
      obtain ⟨S, hS, hsl, hr, hns, hal, cn, hcn, hsa⟩ := t.conn i s hc
      obtain ⟨S', hS', e'⟩ := h.sub_fwd hS
      obtain ⟨f1, _, f3, _, _, _, _⟩ := stop_eq e'
      obtain ⟨cn', hcn', ec⟩ := h.conn_fwd hcn
      obtain ⟨_, _, g3, _⟩ := ctop_eq ec
      refine ⟨S', hS', by rw [f3]; exact hsl, h.sreg e' hr, hns, ?_, cn', hcn', by rw [g3]; exact hsa⟩
      rw [f1, e5]; exact hal
    · intro i en hc
      rw [e5] at hc
      obtain ⟨S, hS, hsl, hr, hns⟩ := t.snap i en hc
      obtain ⟨S', hS', e'⟩ := h.sub_fwd hS
      obtain ⟨_, _, f3, _, _, _, _⟩ := stop_eq e'
      exact ⟨S', hS', by rw [f3]; exact hsl, h.sreg e' hr, hns⟩
  · -- subscribers
    intro s S' hS'
    obtain ⟨S, hS, e⟩ := h.sub_bwd hS'
    obtain ⟨e1, e2, e3, e4, e5, e6, e7⟩ := stop_eq e
    have t := hi.subs s S hS
    refine ⟨by rw [e4, h.cfg]; exact t.lenC, by rw [e5, h.cfg]; exact t.lenSnap,
      by rw [e1, e2]; exact t.aliveEx, by rw [e2, e6]; exact t.dead, by rw [e6]; exact t.winv,
      ?_, by rw [e6]; exact t.inj, ?_, ?_, by rw [e7]; exact t.tbrNodup,
      by rw [e7, e6, e4]; exact t.tbr⟩
    · intro k p hk
      rw [e6] at hk
      obtain ⟨⟨cn, hcn, hra⟩, P, hP, hr, hnp, hor⟩ := t.stor k p hk
      obtain ⟨cn', hcn', ec⟩ := h.conn_fwd hcn
      obtain ⟨_, _, _, g4⟩ := ctop_eq ec
      obtain ⟨P', hP', e'⟩ := h.pub_fwd hP
      obtain ⟨f1, _, _, _, _⟩ := ptop_eq e'
      refine ⟨⟨cn', hcn', by rw [g4]; exact hra⟩, P', hP', h.preg e' hr, hnp, ?_⟩
      rw [e4, e5, f1]; exact hor
    · intro j k hj hh
      rw [e4] at hj
      obtain ⟨p, P, ha, hP, hsl, hal⟩ := t.conn j k hj hh
      obtain ⟨P', hP', e'⟩ := h.pub_fwd hP
      obtain ⟨f1, _, f3, _, _⟩ := ptop_eq e'
      refine ⟨p, P', by rw [e6]; exact ha, hP', by rw [f3]; exact hsl, ?_⟩
      rw [f1, e5]; exact hal
    · intro j p hj
      rw [e5] at hj
      obtain ⟨P, hP, hsl, hr, hnp⟩ := t.snap j p hj
      obtain ⟨P', hP', e'⟩ := h.pub_fwd hP
      obtain ⟨_, _, f3, _, _⟩ := ptop_eq e'
      exact ⟨P', hP', by rw [f3]; exact hsl, h.preg e' hr, hnp⟩
  · -- connections
    intro p s cn' hcn'
    obtain ⟨cn, hcn, ec⟩ := h.conn_bwd hcn'
    obtain ⟨g1, g2, g3, g4⟩ := ctop_eq ec
    obtain ⟨P, S, hP, hS, t⟩ := hi.conns p s cn hcn
    obtain ⟨P', hP', e'⟩ := h.pub_fwd hP
    obtain ⟨_, _, _, f4, _⟩ := ptop_eq e'
    obtain ⟨S', hS', e''⟩ := h.sub_fwd hS
    obtain ⟨_, _, _, _, _, k6, _⟩ := stop_eq e''
    refine ⟨P', S', hP', hS', ?_, ?_, ?_⟩
    · rw [g3, g4]; exact t.att
    · rw [g3, g2, f4]; exact t.sAtt
    · rw [g4, g1, k6]; exact t.rAtt

/-! ### `TopEq` of elementary updates -/

theorem topEq_setP {w : World} {p : Nat} {P P' : Pub}
    (hn : w.conns.Pairwise fun a b => ¬ (a.pid = b.pid ∧ a.sid = b.sid))
    (hp : getP w p = some P) (e : ptop P' = ptop P) : TopEq w (setP w p P') := by
  refine ⟨rfl, rfl, rfl, ?_, fun _ => rfl, fun _ _ => rfl, hn⟩
  intro q
  rw [getP_setP]
  split
  · rename_i hq; subst hq; simp [hp, e]
  · rfl

theorem topEq_setS {w : World} {s : Nat} {S S' : Sub}
    (hn : w.conns.Pairwise fun a b => ¬ (a.pid = b.pid ∧ a.sid = b.sid))
    (hs : getS w s = some S) (e : stop S' = stop S) : TopEq w (setS w s S') := by
  refine ⟨rfl, rfl, rfl, fun _ => rfl, ?_, fun _ _ => rfl, hn⟩
  intro q
  rw [getS_setS]
  split
  · rename_i hq; subst hq; simp [hs, e]
  · rfl

theorem topEq_setC {w : World} {p s : Nat} {c c' : Conn}
    (hn : w.conns.Pairwise fun a b => ¬ (a.pid = b.pid ∧ a.sid = b.sid))
    (hc : getC w p s = some c) (e : ctop c' = ctop c) : TopEq w (setC w c') := by
  refine ⟨rfl, rfl, rfl, fun _ => rfl, fun _ => rfl, ?_, nodup_setC c' hn⟩
  intro a b
  obtain ⟨g1, g2, _, _⟩ := ctop_eq e
  obtain ⟨h1, h2, _⟩ := getC_some hc
  rw [getC_setC]
  split
  · rename_i hq
    obtain ⟨rfl, rfl⟩ := hq
    rw [g1, g2, h1, h2, hc]; simp [e]
  · rfl

end Iox2.PubSub.C02P
