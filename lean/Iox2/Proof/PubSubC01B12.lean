/-
Layer B: the shared state of a publisher is dropped.
-/
import Iox2.Proof.PubSubC01B11
namespace Iox2.PubSub.C01P
open Iox2.PubSub

variable {cfg : Cfg} {np ns : Option Nat} {fl : Option (Nat × Nat × Bool)} {w : World}

theorem invB_pubDestroySlots_aux (p : Nat) (P0 : Pub) (hex : P0.ex = false) (l : List (Option Nat)) {w : World}
    (hP : ∃ P, getP w p = some P) (h : InvB fl (setP w p P0)) :
    InvB fl (setP (pubDestroySlots w p l) p P0) := by
  induction l generalizing w with
  | nil => exact h
  | cons x r ih =>
    cases x with
    | none => exact ih hP h
    | some s =>
      show InvB fl (setP (pubDestroySlots (detachSender w p s) p r) p P0)
      obtain ⟨P, hP'⟩ := hP
      have hg0 : getP (setP w p P0) p = some P0 := getP_setP_self _ hP'
      have h1 := h.detachSender_dead (s := s) hg0 hex
      rw [detachSender_setP_comm] at h1
      exact ih ⟨P, by rw [getP_detachSender]; exact hP'⟩ h1

theorem invAB_pubDestroyIfUnreferenced (h : InvAB cfg np ns fl w) (p : Nat) (hfl : ∀ c fr, fl ≠ some (p, c, fr)) :
    InvAB cfg np ns fl (pubDestroyIfUnreferenced w p) := by
  refine ⟨h.a.pubDestroyIfUnreferenced p, ?_⟩
  unfold pubDestroyIfUnreferenced
  cases hP : getP w p with
  | none => exact h.b
  | some P =>
    simp only
    split
    · exact h.b
    · rename_i hc
      simp only [Bool.or_eq_true, Bool.not_eq_true', not_or, Bool.not_eq_false] at hc
      obtain ⟨⟨_, hlo⟩, _⟩ := hc
      have hl : P.loans = [] := by
        cases hh : P.loans with
        | nil => rfl
        | cons a b => rw [hh] at hlo; simp at hlo
      have h0 := h.b.setP_dead hP hl hfl
      have h1 := invB_pubDestroySlots_aux p { P with ex := false } rfl P.conns ⟨P, hP⟩ h0
      obtain ⟨f1, f2⟩ := pubDestroySlots_frame w p P.conns
      obtain ⟨P', hP', _⟩ := f1.psome p P hP
      have hg : getP (setP (pubDestroySlots w p P.conns) p { P with ex := false }) p = some { P with ex := false } :=
        getP_setP_self _ hP'
      have h3 := h1.setP_irrel (P' := { P with ex := false, conns := P.conns.map fun _ => none }) hg
        ⟨rfl, rfl, rfl, rfl, rfl, rfl, rfl, rfl, rfl, rfl⟩
      rw [setP_setP] at h3
      exact h3

end Iox2.PubSub.C01P
