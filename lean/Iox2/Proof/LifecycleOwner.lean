/-
A step of the owner (node creation, running, orderly drop) keeps the invariant and its guarantee.
-/
import Iox2.Proof.LifecycleQuery
namespace Iox2.Lifecycle

theorem L.ofOwner {fs : FS} {t : Th} (hr : t.role = .owner) (hp : t.pid = 0) (hd : fs.odead = false)
    (hpc : fs.opc = phaseOf t.pc ∧ t.pc ≤ 33)
    (rawErr : t.raw ≠ some .corrupted ∧ t.raw ≠ some .ctxUnreadable)
    (cNoPanic : t.res ≠ some .panicStillAlive) (cOk : t.res = some .ok → fs.odead = true) : L fs t := by
  have hnm : t.role ≠ .monitor := by rw [hr]; decide
  have hnc : t.role ≠ .cleaner := by rw [hr]; decide
  exact ⟨⟨fun _ => hp, fun _ => hr⟩, fun _ => hd, fun _ => hpc,
    fun h => absurd hr h, fun h => absurd hr h, fun h => absurd h hnm, fun h => absurd h hnm, rawErr, fun h => absurd h hnm,
    fun h => absurd h hnc, fun h => absurd h hnc, fun h => absurd h hnc, fun h => absurd h hnc, cNoPanic, cOk⟩

theorem ownerNorm_pid (t : Th) : (ownerNorm t).pid = t.pid := by
  unfold ownerNorm; simp only []; repeat' split
  all_goals rfl
theorem ownerNorm_role (t : Th) : (ownerNorm t).role = t.role := by
  unfold ownerNorm; simp only []; repeat' split
  all_goals rfl
theorem ownerNorm_raw (t : Th) : (ownerNorm t).raw = t.raw := by
  unfold ownerNorm; simp only []; repeat' split
  all_goals rfl
theorem ownerNorm_res (t : Th) : (ownerNorm t).res = t.res := by
  unfold ownerNorm; simp only []; repeat' split
  all_goals rfl

theorem ownerNorm_pc (t : Th) :
    (t.pc = 17 → (ownerNorm t).pc = 17 ∨ (ownerNorm t).pc = 19 ∨ (ownerNorm t).pc = 20) ∧
    (t.pc = 19 → (ownerNorm t).pc = 19 ∨ (ownerNorm t).pc = 20) ∧
    (t.pc = 21 → (ownerNorm t).pc = 21 ∨ (ownerNorm t).pc = 22) := by
  unfold ownerNorm
  simp only []
  refine ⟨?_, ?_, ?_⟩ <;> intro h <;> repeat' split
  all_goals simp_all

end Iox2.Lifecycle

namespace Iox2.Lifecycle

theorem not_lockedByOther_owner {fs : FS} (hG : G fs) : fs.st.lockedByOther 0 = false := by
  cases h : fs.st.lockedByOther 0 with
  | false => rfl
  | true =>
    obtain ⟨p, hp, hne⟩ := (lockedByOther_iff _ _).1 h
    rcases hG.stLock with h' | h'
    · rw [h'] at hp; cases hp
    · rw [h'] at hp; cases hp; exact absurd rfl hne

set_option hygiene false in
/-- finishes one owner case once `fs0`, `t'` are known and `hopc : fs.opc = <number>` -/
macro "owner_fin" : tactic => `(tactic| (
    refine ⟨⟨?_, ?_, ?_, ?_, ?_, ?_, ?_, ?_, ?_, ?_, ?_, ?_, ?_, ?_, ?_, ?_, ?_, ?_, ?_⟩, L.ofOwner hr hp hd ⟨?_, ?_⟩ hre hnp hok, ⟨?_, ?_, ?_, ?_, ?_, ?_⟩, rfl, rfl⟩
    all_goals (simp_all [phaseOf, File.closeBy_linked, File.closeBy_perm]; done)))

set_option hygiene false in
/-- the same for a step that ends in `ownerNorm`: `t' = tn`, `hn : tn.pc = <number>`, `e1 … e4` = the fields `ownerNorm` keeps -/
macro "owner_fin_norm" : tactic => `(tactic| (
    refine ⟨⟨?_, ?_, ?_, ?_, ?_, ?_, ?_, ?_, ?_, ?_, ?_, ?_, ?_, ?_, ?_, ?_, ?_, ?_, ?_⟩,
      L.ofOwner (e2.trans hr) (e1.trans hp) hd ⟨?_, ?_⟩ (e3 ▸ hre) (e4 ▸ hnp) (e4 ▸ hok), ⟨?_, ?_, ?_, ?_, ?_, ?_⟩, e1, e2⟩
    all_goals (simp_all [phaseOf]; done)))

set_option maxHeartbeats 4000000 in
theorem owner_step {fs fs0 : FS} {t t' : Th} {s : String} (hG : G fs) (hL : L fs t) (hr : t.role = .owner)
    (h : ownerStep fs t = some (fs0, t', s)) :
    G { fs0 with opc := phaseOf t'.pc } ∧ L { fs0 with opc := phaseOf t'.pc } t' ∧
    Guar fs { fs0 with opc := phaseOf t'.pc } t.pid ∧ t'.pid = t.pid ∧ t'.role = t.role := by
  have hp : t.pid = 0 := hL.role.1 hr
  have hd := hL.oAlive hr
  obtain ⟨hopc, hle⟩ := hL.oPc hr
  have hre := hL.rawErr
  have hnp := hL.cNoPanic
  have hok := hL.cOk
  have hnl := not_lockedByOther_owner hG
  have hol : fs.ol.lock = none := by
    cases hl : fs.ol.lock with
    | none => rfl
    | some p => have := (hG.olLock p hl).1; rw [hd] at this; cases this
  obtain ⟨g1, g2, g3, g4, g5, g6, g7, g8, g9, g10, g11, g12, g13, g14, g15, g16, g17, g18, g19⟩ := hG
  unfold ownerStep at h
  split at h
  case h_14 hpc =>
    -- setlk st: nobody else ever locks the state file
    have hnl' : fs.st.lockedByOther t.pid = false := hp ▸ hnl
    simp only [hnl', Bool.false_eq_true, if_false] at h
    simp only [Option.some.injEq, Prod.mk.injEq] at h
    obtain ⟨rfl, rfl, _⟩ := h
    simp only [hpc, phaseOf] at hopc
    simp at hopc
    owner_fin
  case h_17 hpc =>
    simp only [Option.some.injEq, Prod.mk.injEq] at h
    obtain ⟨rfl, rfl, _⟩ := h
    have hn := (ownerNorm_pc { t with pc := 17 }).1 rfl
    have e1 := ownerNorm_pid { t with pc := 17 }
    have e2 := ownerNorm_role { t with pc := 17 }
    have e3 := ownerNorm_raw { t with pc := 17 }
    have e4 := ownerNorm_res { t with pc := 17 }
    generalize ownerNorm { t with pc := 17 } = tn at hn e1 e2 e3 e4 ⊢
    simp only [hpc, phaseOf] at hopc
    simp at hopc e1 e2 e3 e4
    rcases hn with hn | hn | hn <;> owner_fin_norm
  case h_18 hpc =>
    split at h
    · cases h
    · simp only [Option.some.injEq, Prod.mk.injEq] at h
      obtain ⟨rfl, rfl, _⟩ := h
      simp only [hpc, phaseOf] at hopc
      simp at hopc
      owner_fin
  case h_19 hpc =>
    simp only [Option.some.injEq, Prod.mk.injEq] at h
    obtain ⟨rfl, rfl, _⟩ := h
    have hn := (ownerNorm_pc { t with pc := 17, ntags := t.ntags - 1, mtags := t.mtags + 1 }).1 rfl
    have e1 := ownerNorm_pid { t with pc := 17, ntags := t.ntags - 1, mtags := t.mtags + 1 }
    have e2 := ownerNorm_role { t with pc := 17, ntags := t.ntags - 1, mtags := t.mtags + 1 }
    have e3 := ownerNorm_raw { t with pc := 17, ntags := t.ntags - 1, mtags := t.mtags + 1 }
    have e4 := ownerNorm_res { t with pc := 17, ntags := t.ntags - 1, mtags := t.mtags + 1 }
    generalize ownerNorm { t with pc := 17, ntags := t.ntags - 1, mtags := t.mtags + 1 } = tn at hn e1 e2 e3 e4 ⊢
    simp only [hpc, phaseOf] at hopc
    simp at hopc e1 e2 e3 e4
    have hdir : fs.dir = true := g19 hd (by omega) (by omega)
    rcases hn with hn | hn | hn <;> owner_fin_norm
  case h_20 hpc =>
    simp only [Option.some.injEq, Prod.mk.injEq] at h
    obtain ⟨rfl, rfl, _⟩ := h
    have hn := (ownerNorm_pc { t with pc := 19, mtags := t.mtags - 1 }).2.1 rfl
    have e1 := ownerNorm_pid { t with pc := 19, mtags := t.mtags - 1 }
    have e2 := ownerNorm_role { t with pc := 19, mtags := t.mtags - 1 }
    have e3 := ownerNorm_raw { t with pc := 19, mtags := t.mtags - 1 }
    have e4 := ownerNorm_res { t with pc := 19, mtags := t.mtags - 1 }
    generalize ownerNorm { t with pc := 19, mtags := t.mtags - 1 } = tn at hn e1 e2 e3 e4 ⊢
    simp only [hpc, phaseOf] at hopc
    simp at hopc e1 e2 e3 e4
    have hdir : fs.dir = true := g19 hd (by omega) (by omega)
    rcases hn with hn | hn <;> owner_fin_norm
  case h_21 hpc =>
    simp only [Option.some.injEq, Prod.mk.injEq] at h
    obtain ⟨rfl, rfl, _⟩ := h
    have hn := (ownerNorm_pc { t with pc := 21, hasDet := fs.det.linked && fs.det.perm == .final }).2.2 rfl
    have e1 := ownerNorm_pid { t with pc := 21, hasDet := fs.det.linked && fs.det.perm == .final }
    have e2 := ownerNorm_role { t with pc := 21, hasDet := fs.det.linked && fs.det.perm == .final }
    have e3 := ownerNorm_raw { t with pc := 21, hasDet := fs.det.linked && fs.det.perm == .final }
    have e4 := ownerNorm_res { t with pc := 21, hasDet := fs.det.linked && fs.det.perm == .final }
    generalize ownerNorm { t with pc := 21, hasDet := fs.det.linked && fs.det.perm == .final } = tn at hn e1 e2 e3 e4 ⊢
    simp only [hpc, phaseOf] at hopc
    simp at hopc e1 e2 e3 e4
    rcases hn with hn | hn <;> owner_fin_norm
  case h_23 hpc =>
    simp only [Option.some.injEq, Prod.mk.injEq] at h
    obtain ⟨rfl, rfl, _⟩ := h
    simp only [hpc, phaseOf] at hopc
    simp at hopc
    by_cases hc : fs.tags = 0 ∧ fs.tagsInit = 0 ∧ fs.det.linked = false
    · rw [if_pos hc]; obtain ⟨hc1, hc2, hc3⟩ := hc; owner_fin
    · rw [if_neg hc]; owner_fin
  case h_26 hpc =>
    -- close st: the owner's lock on the state file is released
    simp only [Option.some.injEq, Prod.mk.injEq] at h
    obtain ⟨rfl, rfl, _⟩ := h
    simp only [hpc, phaseOf] at hopc
    simp at hopc
    have hl : fs.st.lock = some 0 := g4 hd (by omega) (by omega)
    have hcl : fs.st.closeBy t.pid = { fs.st with lock := none } := by
      rw [hp]; simp [File.closeBy, hl]
    rw [hcl]
    owner_fin
  case h_29 hpc =>
    simp only [Option.some.injEq, Prod.mk.injEq] at h
    obtain ⟨rfl, rfl, _⟩ := h
    simp only [hpc, phaseOf] at hopc
    simp at hopc
    have hcl : fs.ol.closeBy t.pid = fs.ol := by
      unfold File.closeBy; rw [hol]; simp
    rw [hcl]
    owner_fin
  case h_34 => cases h
  all_goals (
    rename_i hpc
    simp only [Option.some.injEq, Prod.mk.injEq] at h
    obtain ⟨rfl, rfl, _⟩ := h
    simp only [hpc, phaseOf] at hopc
    simp at hopc
    owner_fin)

end Iox2.Lifecycle
