/-
C08 helper: the API operations preserve the invariant (part D: `csub`).
-/
import Iox2.Proof.PubSubC08OpC
set_option linter.unusedSimpArgs false
set_option linter.unusedVariables false
namespace Iox2.PubSub.C08
open Iox2.PubSub
open Iox2.C16.SlotMapP (abs)
attribute [-simp] List.getD_eq_getElem?_getD

theorem register_sub_inv {cfg : Cfg} {w1 : World} {s slot : Nat} {S1 : Sub} (e : SubEntry)
    (h1 : InvS cfg w1 (some s) s none) (hs1 : getS w1 s = some S1)
    (hns : ∀ p c, getC w1 p s = some c → c.sAtt = false)
    (hnotreg : ∀ (i : Nat) (e' : SubEntry), w1.subReg.slots[i]? = some (some e') → e'.sid ≠ s)
    (hslot : w1.subReg.slots[slot]? = some none) (hal : S1.alive = true)
    (hes : e.sid = s) (heb : e.buffer = S1.buffer) :
    Inv cfg { setS w1 s { S1 with slot := slot } with
      subReg := { slots := w1.subReg.slots.set slot (some e), counter := w1.subReg.counter + 1 } } := by
  have hgS : ∀ q, getS { setS w1 s { S1 with slot := slot } with
      subReg := { slots := w1.subReg.slots.set slot (some e), counter := w1.subReg.counter + 1 } } q =
      if q = s then some { S1 with slot := slot } else getS w1 q := by
    intro q
    show getS (setS w1 s { S1 with slot := slot }) q = _
    rw [getS_setS, hs1]; rfl
  have hsl : slot < w1.subReg.slots.length := (List.getElem?_eq_some_iff.mp hslot).1
  refine ⟨⟨h1.r.cfgEq, h1.r.pubLen, ?_, h1.r.rp1, h1.r.rp2, ?_, ?_⟩, ?_, ?_, ?_, h1.u⟩
  · show (w1.subReg.slots.set slot (some e)).length = _
    simp [h1.r.subLen]
  · intro i e' hi
    have hi' : (w1.subReg.slots.set slot (some e))[i]? = some (some e') := hi
    rw [getElem?_set_some _ _ _ _ _ hsl] at hi'
    rcases hi' with ⟨rfl, rfl⟩ | ⟨hne, hold⟩
    · exact ⟨{ S1 with slot := i }, by rw [hgS, hes]; simp, hal, rfl, heb⟩
    · obtain ⟨Q, hQ, a, b, c⟩ := h1.r.rs1 i e' hold
      have hqs : e'.sid ≠ s := hnotreg i e' hold
      exact ⟨Q, by rw [hgS]; simp [hqs, hQ], a, b, c⟩
  · intro q Q hQ hQal _
    rw [hgS] at hQ
    by_cases hqs : q = s
    · subst hqs
      simp at hQ; subst hQ
      exact ⟨e, (getElem?_set_some _ _ _ _ _ hsl).2 (.inl ⟨rfl, rfl⟩), hes⟩
    · simp [hqs] at hQ
      obtain ⟨e', he', hes'⟩ := h1.r.rs2 q Q hQ hQal (fun e'' => hqs (by cases e''; rfl))
      refine ⟨e', (getElem?_set_some _ _ _ _ _ hsl).2 (.inr ⟨fun e'' => ?_, he'⟩), hes'⟩
      rw [e'', hslot] at he'; cases he'
  · intro a b c hc
    have hc' : getC w1 a b = some c := hc
    refine (h1.c a b c hc').transferG (getC_key hc').1 (fun Q hQ => ⟨Q, hQ, rfl, rfl, rfl⟩)
      (fun Q' hQ' => ⟨Q', hQ', rfl, rfl⟩) (fun Q hQ => ?_) (fun Q' hQ' => ?_)
    · by_cases hbs : b = s
      · subst hbs; rw [hs1] at hQ; cases hQ
        exact ⟨{ S1 with slot := slot }, by rw [hgS]; simp, rfl⟩
      · exact ⟨Q, by rw [hgS]; simp [hbs, hQ], rfl⟩
    · rw [hgS] at hQ'
      by_cases hbs : b = s
      · subst hbs; simp at hQ'; subst hQ'
        exact ⟨S1, hs1, rfl, id⟩
      · simp [hbs] at hQ'
        exact ⟨Q', hQ', rfl, id⟩
  · intro q Q hQ
    have hQ' : getP w1 q = some Q := hQ
    obtain ⟨a, b⟩ := h1.p q Q hQ'
    refine ⟨⟨a.connsLen, a.slotConn, ?_, a.aliveEx⟩, fun ha => (b ha).transfer (fun _ _ => rfl)⟩
    intro i s' hi
    obtain ⟨S', hS', hsl'⟩ := a.slotSlot i s' hi
    have hss : s' ≠ s := by
      intro e'; subst e'
      obtain ⟨c, hc, hsa⟩ := a.slotConn i s' hi
      rw [hns q c hc] at hsa; cases hsa
    exact ⟨S', by rw [hgS]; simp [hss, hS'], hsl'⟩
  · intro q Q hQ
    rw [hgS] at hQ
    by_cases hqs : q = s
    · subst hqs; simp at hQ; subst hQ
      have hSO : SubOK cfg w1 q S1 none := by simpa using h1.s q S1 hs1
      exact ⟨hSO.stI, hSO.connsLen, hSO.capEq, hSO.buf1, hSO.bufM, hSO.tbrNodup, hSO.tbrLen, hSO.tbrIn, hSO.connKey,
        hSO.connInj, hSO.cover, hSO.hasConn, hSO.pidInj, hSO.heldKey, hSO.tbrDead, hSO.connSlot, hSO.aliveEx⟩
    · simp [hqs] at hQ
      have := h1.s q Q hQ
      simp only [hqs, if_false] at this
      exact this.transferS (fun _ => rfl) (fun _ => rfl)

theorem csubCore_spec {cfg : Cfg} {w : World} (h : Inv cfg w) (s buffer histReq : Nat)
    (hs : getS w s = none) (hb1 : 1 ≤ buffer) (hbM : buffer ≤ cfg.bufMax) :
    Inv cfg (csubCore w s buffer histReq).1 ∧
    (w.panicked = false → (csubCore w s buffer histReq).1.panicked = false) ∧
    (w.panicked = false →
      ((csubCore w s buffer histReq).2 = "ok" ↔ liveCnt w.subReg.slots < cfg.maxSubs) ∧
      ((csubCore w s buffer histReq).2 ≠ "ok" →
        (csubCore w s buffer histReq).2 = "err:ExceedsMaxSupportedSubscribers" ∧
        (csubCore w s buffer histReq).1 = w)) := by
  unfold csubCore
  have h0 := add_sub_inv h hs buffer histReq hb1 hbM
  have hs0 : getS { w with subs := w.subs ++ [(s, newSub w buffer histReq)] } s = some (newSub w buffer histReq) := by
    rw [getS_push _ hs]; simp
  obtain ⟨a1, a2⟩ := subForceUpdate_inv h0 hs0 rfl rfl
  obtain ⟨c1, c2, c3, c4, c6, c7, c8, c9⟩ := (subForceUpdate_SS { w with subs := w.subs ++ [(s, newSub w buffer histReq)] } s).facts
  have hnoconn : ∀ p, getC w p s = none := by
    intro p
    cases hc : getC w p s with
    | none => rfl
    | some c =>
      obtain ⟨S, hS⟩ := (h.c p s c hc).hasS
      rw [hs] at hS; cases hS
  have hR0 : RIn s { w with subs := w.subs ++ [(s, newSub w buffer histReq)] } :=
    .inr (.inr ⟨newSub w buffer histReq, hs0, smInv_init _, fun a c hc _ => by
      have : getC w a s = some c := hc
      rw [hnoconn] at this; cases this⟩)
  have hR1 := subForceUpdate_RIn hR0
  generalize hw1 : subForceUpdate { w with subs := w.subs ++ [(s, newSub w buffer histReq)] } s = w1 at *
  by_cases hpan : w.panicked = false
  · -- no panic: the new subscriber holds nothing
    have hnp1 : w1.panicked = false := a2 hpan (by simp [newSub])
    obtain ⟨h1, S1, hs1, hu1⟩ := a1 hnp1
    have hal1 : S1.alive = true := hu1.fields.1
    have hns : ∀ p c, getC w1 p s = some c → c.sAtt = false := by
      intro p c hc
      cases hr : c.sAtt with
      | false => rfl
      | true =>
        obtain ⟨c0, hc0, _⟩ := c8 p c hc hr
        have : getC w p s = some c0 := hc0
        rw [hnoconn] at this; cases this
    have hnotreg : ∀ (i : Nat) (e' : SubEntry), w1.subReg.slots[i]? = some (some e') → e'.sid ≠ s := by
      intro i e' hi e''
      rw [c3] at hi
      obtain ⟨S, hS, _⟩ := h.r.rs1 i e' hi
      rw [e'', hs] at hS; cases hS
    rw [hs1]
    cases hadd : w1.subReg.add { sid := s, buffer := buffer, histReq := histReq } with
    | some rs =>
      obtain ⟨reg, slot⟩ := rs
      dsimp only
      have hff : ∃ j, w1.subReg.slots[j]? = some none ∧ slot = j ∧
          reg = { slots := w1.subReg.slots.set j (some { sid := s, buffer := buffer, histReq := histReq }),
                  counter := w1.subReg.counter + 1 } := by
        unfold Reg.add at hadd
        cases hf : firstFree w1.subReg.slots 0 with
        | none => rw [hf] at hadd; cases hadd
        | some k =>
          rw [hf] at hadd
          simp only [Option.some.injEq, Prod.mk.injEq] at hadd
          obtain ⟨j, e1, e2⟩ := firstFree_some _ _ _ hf
          simp at e1
          subst e1
          exact ⟨k, e2, hadd.2.symm, hadd.1.symm⟩
      obtain ⟨j, hj, rfl, rfl⟩ := hff
      have hinv := register_sub_inv { sid := s, buffer := buffer, histReq := histReq } h1 hs1 hns hnotreg hj hal1 rfl
        (by rw [hu1.fields.2.2.2.1]; rfl)
      have hrp : ({ setS w1 s { S1 with slot := slot } with
          subReg := { slots := w1.subReg.slots.set slot (some { sid := s, buffer := buffer, histReq := histReq }),
                      counter := w1.subReg.counter + 1 } } : World).panicked = false := hnp1
      rw [finishPanic_panicked hrp]
      refine ⟨hinv, fun _ => hrp, fun _ => ⟨⟨fun _ => ?_, fun _ => rfl⟩, fun hne => absurd rfl hne⟩⟩
      have := (add_isSome_iff w1.subReg { sid := s, buffer := buffer, histReq := histReq }).1 (by rw [hadd]; rfl)
      rw [c3, h.r.subLen] at this
      exact this
    | none =>
      dsimp only
      have hfail : csubFail w1 s = w := by
        unfold csubFail
        rw [hs1]
        dsimp only
        obtain ⟨d1, d2, d3, d4, d6, d7, d8, d9⟩ := (subDestroyKeys_SS w1 s (SlotMap.items S1.storage)).facts
        obtain ⟨s1, s2, s3, s4⟩ := subDestroyKeys_shape w1 s (SlotMap.items S1.storage)
        have hSO1 : SubOK cfg w1 s S1 none := by simpa using h1.s s S1 hs1
        have hatt1 : ∀ p c, getC w1 p s = some c → c.sAtt = true ∨ c.rAtt = true :=
          c9 (fun p c hc => by
            have : getC w p s = some c := hc
            rw [hnoconn] at this; cases this)
        have hgone : ∀ p, getC (subDestroyKeys w1 s (SlotMap.items S1.storage)) p s = none := by
          intro p
          rw [s1]
          cases hc : getC w1 p s with
          | none => simp
          | some c =>
            have hsa := hns p c hc
            have hr : c.rAtt = true := by
              rcases hatt1 p c hc with h' | h'
              · rw [hsa] at h'; cases h'
              · exact h'
            have hin : p ∈ (SlotMap.items S1.storage).map (·.2) := by
              rcases hR1 with hp' | hn' | ⟨S', hS', _, hall⟩
              · rw [hnp1] at hp'; cases hp'
              · rw [hs1] at hn'; cases hn'
              · rw [hs1] at hS'; cases hS'
                obtain ⟨k, hk⟩ := hall p c hc hr
                exact List.mem_map.mpr ⟨(k, p), (mem_items_iff hSO1.stI).2 hk, rfl⟩
            simp [hin, detR, hsa]
        have hu2 : ConnsUniq (subDestroyKeys w1 s (SlotMap.items S1.storage)) := s2 h1.u
        have hnop : ∀ c ∈ (subDestroyKeys w1 s (SlotMap.items S1.storage)).conns, c.sid ≠ s := by
          intro c hc e
          have := getC_of_mem hu2 hc
          rw [e, hgone] at this; cases this
        have hnop0 : ∀ c ∈ w.conns, c.sid ≠ s := by
          intro c hc e
          have := getC_of_mem h.u hc
          rw [e, hnoconn] at this; cases this
        apply World.ext'
        · exact d1.trans c1
        · exact d2.trans c2
        · exact d3.trans c3
        · exact d4.trans c4
        · show (subDestroyKeys w1 s (SlotMap.items S1.storage)).subs.filter _ = w.subs
          rw [d7, c7]
          show (w.subs ++ [(s, newSub w buffer histReq)]).filter _ = _
          rw [List.filter_append]
          have : w.subs.find? (·.1 = s) = none := by
            unfold getS at hs
            cases hf : w.subs.find? (·.1 = s) with
            | none => rfl
            | some e => rw [hf] at hs; cases hs
          rw [filter_ne_of_none _ _ this]
          simp
        · show (subDestroyKeys w1 s (SlotMap.items S1.storage)).conns = w.conns
          have e1 : (subDestroyKeys w1 s (SlotMap.items S1.storage)).conns.filter (fun c => c.sid ≠ s) =
              (subDestroyKeys w1 s (SlotMap.items S1.storage)).conns := by
            rw [List.filter_eq_self]; intro c hc; simpa using hnop c hc
          have e2 : w.conns.filter (fun c => c.sid ≠ s) = w.conns := by
            rw [List.filter_eq_self]; intro c hc; simpa using hnop0 c hc
          rw [← e1, d6, c6]
          exact e2
        · exact s4.trans (hnp1.trans hpan.symm)
      rw [hfail, finishPanic_panicked hpan]
      refine ⟨h, fun _ => hpan, fun _ => ⟨⟨fun e => absurd e (by first | decide | (dsimp only; decide)), fun hlt => ?_⟩,
        fun _ => ⟨rfl, rfl⟩⟩⟩
      exfalso
      have := (add_isSome_iff w1.subReg { sid := s, buffer := buffer, histReq := histReq }).2
        (by rw [c3, h.r.subLen]; exact hlt)
      rw [hadd] at this; cases this
  · -- the world had panicked before: the result is discarded
    have hpan' : w.panicked = true := by simpa using hpan
    have hw1p : w1.panicked = true := by
      have := (subForceUpdate_S { w with subs := w.subs ++ [(s, newSub w buffer histReq)] } s).frame.2.2.2.2.1 hpan'
      rw [hw1] at this; exact this
    have hfin : ∀ (r : World × String), r.1.panicked = true → Inv cfg (finishPanic w r).1 := by
      intro r hr
      unfold finishPanic; rw [hr]; exact h.panic
    refine ⟨?_, fun hp => absurd hp hpan, fun hp => absurd hp hpan⟩
    split
    · exact hfin _ hw1p
    · apply hfin
      unfold csubFail
      split
      · show (subDestroyKeys w1 s _).panicked = true
        rw [(subDestroyKeys_shape _ _ _).2.2.2]; exact hw1p
      · exact hw1p

end Iox2.PubSub.C08
