/-
C06 Part B — invariant of the step-level creation protocol (`Iox2/Model/ServiceLifeConc.lean`),
preserved by every step of every thread under every schedule, and the termination measure.

The definitions (`stage`, `validPc`, `hasSeen`, `pastDyn`, `Inv`, `measureT`, `measure`) are in
`ServiceLifeConcInvDefs.lean`, the lemmas in `ServiceLifeConcInvBase.lean`, the step cases in
`ServiceLifeConcInvCreator.lean` and `ServiceLifeConcInvOpener.lean`.
-/
import Iox2.Proof.ServiceLifeConcInvCreator
import Iox2.Proof.ServiceLifeConcInvOpener

namespace Iox2.ServiceLifeConc
open Iox2.Sched

theorem inv_initial {c : Cfg Shared Local} (h : Initial c) : Inv c := by
  obtain ⟨⟨m, hm⟩, hth⟩ := h
  have hstage : ∀ (i : Nat) (t : Local), c.th[i]? = some t → stage t = 0 := by
    intro i t ht
    obtain ⟨-, hpc, -, -, hres⟩ := hth i t ht
    simp [stage, hpc, hres]
  refine
    { ids := fun i t ht => (hth i t ht).1
      pcs := ?_
      owner := ?_
      dynOwner := ?_
      won := ?_
      seen := ?_
      atRead := ?_
      refsReg := ?_ }
  · intro i t ht
    obtain ⟨-, hpc, -, -, hres⟩ := hth i t ht
    refine ⟨?_, by simp [hpc, hres], by simp [hres], by simp [hres]⟩
    unfold validPc
    cases t.role <;> simp [hpc]
  · intro s hs
    simp [hm, Shared.init] at hs
  · intro d hd
    simp [hm, Shared.init] at hd
  · intro i t ht h3
    have := hstage i t ht
    omega
  · intro i t ht _
    obtain ⟨-, hpc, -, hseen, hres⟩ := hth i t ht
    refine ⟨?_, ?_, ?_, ?_, ?_⟩ <;> simp [hasSeen, pastDyn, hpc, hseen, hres]
  · intro i t ht _ h2
    obtain ⟨-, hpc, -, -, -⟩ := hth i t ht
    omega
  · intro r hr
    simp [hm, Shared.init] at hr

theorem step_inv {c c' : Cfg Shared Local} {i : Nat} {evs : List Ev}
    (h : Inv c) (hs : sys.stepAt c i = some (c', evs)) : Inv c' := by
  obtain ⟨t, sh', t', ht, hst, rfl⟩ := stepAt_unfold hs
  have hst : stepT c.sh t = some (sh', t', evs) := hst
  unfold stepT at hst
  cases hr : t.role with
  | creator => rw [hr] at hst; exact creator_step_inv h ht hr hst
  | opener => rw [hr] at hst; exact opener_step_inv h ht hr hst

theorem reachable_inv {c0 c : Cfg Shared Local} (h0 : Initial c0) (hr : Reachable sys c0 c) : Inv c :=
  Reachable.inv Inv (inv_initial h0) (fun _ _ _ _ hi hs => step_inv hi hs) c hr

/-- one step of one call strictly decreases its measure -/
theorem stepT_measure {sh sh' : Shared} {t t' : Local} {evs : List Ev} (hv : validPc t)
    (hres : t.res = none ↔ t.pc ≠ 99) (hst : stepT sh t = some (sh', t', evs)) :
    measureT t' < measureT t := by
  unfold stepT at hst
  cases hr : t.role with
  | creator =>
    rw [hr] at hst
    rcases creator_pcs hr hv with hpc | hpc | hpc | hpc | hpc | hpc | hpc | hpc | hpc | hpc | hpc | hpc | hpc
    all_goals (first | (have hres : t.res = none := by simpa [hpc] using hres) | skip)
    · cases hs : sh.static <;> simp [creatorStep, hpc, hs, finish] at hst <;> obtain ⟨-, rfl, -⟩ := hst <;>
        simp [measureT, hr, hres, hpc]
    · simp [creatorStep, hpc] at hst; obtain ⟨-, rfl, -⟩ := hst; simp [measureT, hr, hres, hpc]
    · cases hs : sh.static <;> simp [creatorStep, hpc, hs] at hst <;> obtain ⟨-, rfl, -⟩ := hst <;>
        simp [measureT, hr, hres, hpc]
    · simp [creatorStep, hpc] at hst; obtain ⟨-, rfl, -⟩ := hst; simp [measureT, hr, hres, hpc]
    · simp [creatorStep, hpc] at hst; obtain ⟨-, rfl, -⟩ := hst; simp [measureT, hr, hres, hpc]
    · cases hs : sh.dyn <;> simp [creatorStep, hpc, hs] at hst <;> obtain ⟨-, rfl, -⟩ := hst <;>
        simp [measureT, hr, hres, hpc]
    · simp [creatorStep, hpc] at hst; obtain ⟨-, rfl, -⟩ := hst; simp [measureT, hr, hres, hpc]
    · simp [creatorStep, hpc] at hst; obtain ⟨-, rfl, -⟩ := hst; simp [measureT, hr, hres, hpc]
    · simp [creatorStep, hpc] at hst; obtain ⟨-, rfl, -⟩ := hst; simp [measureT, hr, hres, hpc]
    · simp [creatorStep, hpc] at hst; obtain ⟨-, rfl, -⟩ := hst; simp [measureT, hr, hres, hpc]
    · simp [creatorStep, hpc, finish] at hst; obtain ⟨-, rfl, -⟩ := hst; simp [measureT, hr, hres, hpc]
    · simp [creatorStep, hpc, finish] at hst; obtain ⟨-, rfl, -⟩ := hst; simp [measureT, hr, hres, hpc]
    · simp [creatorStep, hpc] at hst
  | opener =>
    rw [hr] at hst
    rcases opener_pcs hr hv with hpc | hpc | hpc | hpc | hpc | hpc | hpc | hpc | hpc | hpc
    all_goals (first | (have hres : t.res = none := by simpa [hpc] using hres) | skip)
    · simp [openerStep, hpc] at hst; obtain ⟨-, rfl, -⟩ := hst
      simp [measureT, hr, hres, hpc]; omega
    · cases hs : sh.static with
      | none =>
        simp [openerStep, hpc, hs, finish] at hst; obtain ⟨-, rfl, -⟩ := hst
        simp [measureT, hr, hres, hpc]
      | some s =>
        cases hu : s.unlocked with
        | true =>
          simp [openerStep, hpc, hs, hu] at hst; obtain ⟨-, rfl, -⟩ := hst
          simp [measureT, hr, hres, hpc]
        | false =>
          by_cases hb : t.budget = 0
          · simp [openerStep, hpc, hs, hu, hb, finish] at hst; obtain ⟨-, rfl, -⟩ := hst
            simp [measureT, hr, hres, hpc]
          · simp [openerStep, hpc, hs, hu, hb] at hst; obtain ⟨-, rfl, -⟩ := hst
            simp [measureT, hr, hres, hpc]; omega
    · cases hs : sh.static with
      | none =>
        simp [openerStep, hpc, hs, finish] at hst; obtain ⟨-, rfl, -⟩ := hst
        simp [measureT, hr, hres, hpc]
      | some s =>
        cases hc : t.compatible with
        | false =>
          simp [openerStep, hpc, hs, hc, finish] at hst; obtain ⟨-, rfl, -⟩ := hst
          simp [measureT, hr, hres, hpc]
        | true =>
          simp [openerStep, hpc, hs, hc] at hst; obtain ⟨-, rfl, -⟩ := hst
          simp [measureT, hr, hres, hpc]
    · simp [openerStep, hpc] at hst; obtain ⟨-, rfl, -⟩ := hst
      simp [measureT, hr, hres, hpc]
    · cases hdr : dynReady sh (t.seen.getD 0) <;> simp [openerStep, hpc, hdr] at hst <;>
        obtain ⟨-, rfl, -⟩ := hst <;> simp [measureT, hr, hres, hpc]
    · by_cases hrf : refOf sh t.node = 0
      · cases hdy : sh.dyn with
        | none =>
          simp [openerStep, hpc, hrf, hdy] at hst; obtain ⟨-, rfl, -⟩ := hst
          simp [measureT, hr, hres, hpc]
        | some dd =>
          by_cases hmx : sh.maxNodes ≤ dd.regs.length
          · simp [openerStep, hpc, hrf, hdy, hmx] at hst; obtain ⟨-, rfl, -⟩ := hst
            simp [measureT, hr, hres, hpc]
          · simp [openerStep, hpc, hrf, hdy, hmx] at hst; obtain ⟨-, rfl, -⟩ := hst
            simp [measureT, hr, hres, hpc]
      · simp [openerStep, hpc, hrf] at hst; obtain ⟨-, rfl, -⟩ := hst
        simp [measureT, hr, hres, hpc]
    · simp [openerStep, hpc, finish] at hst; obtain ⟨-, rfl, -⟩ := hst
      simp [measureT, hr, hres, hpc]
    · by_cases hb : t.budget = 0
      · simp [openerStep, hpc, hb, finish] at hst; obtain ⟨-, rfl, -⟩ := hst
        simp [measureT, hr, hres, hpc]
      · simp [openerStep, hpc, hb] at hst; obtain ⟨-, rfl, -⟩ := hst
        simp [measureT, hr, hres, hpc]; omega
    · simp [openerStep, hpc, finish] at hst; obtain ⟨-, rfl, -⟩ := hst
      simp [measureT, hr, hres, hpc]
    · simp [openerStep, hpc] at hst

/-- every step of every thread strictly decreases the measure: all schedules are finite -/
theorem step_measure {c c' : Cfg Shared Local} {i : Nat} {evs : List Ev}
    (h : Inv c) (hs : sys.stepAt c i = some (c', evs)) : measure c' < measure c := by
  obtain ⟨t, sh', t', ht, hst, rfl⟩ := stepAt_unfold hs
  obtain ⟨-, hv, hres, -, -⟩ := h.tbase ht
  exact sum_map_set_lt measureT c.th i t t' ht (stepT_measure hv hres hst)

theorem stepT_isSome {sh : Shared} {t : Local} (hv : validPc t) (hpc9 : t.pc ≠ 99) :
    (stepT sh t).isSome = true := by
  unfold stepT
  cases hr : t.role with
  | creator =>
    rcases creator_pcs hr hv with hpc | hpc | hpc | hpc | hpc | hpc | hpc | hpc | hpc | hpc | hpc | hpc | hpc
    all_goals (simp [creatorStep, hpc])
    all_goals (first | (exact absurd hpc hpc9) | (split <;> simp))
  | opener =>
    rcases opener_pcs hr hv with hpc | hpc | hpc | hpc | hpc | hpc | hpc | hpc | hpc | hpc
    all_goals (simp [openerStep, hpc])
    all_goals (first | (exact absurd hpc hpc9) | (repeat' split) <;> simp)

/-- a call that has not returned can always take its next step (nobody blocks anybody) -/
theorem step_enabled {c : Cfg Shared Local} (h : Inv c) (i : Nat) (t : Local)
    (ht : c.th[i]? = some t) (hres : t.res = none) : ∃ c' evs, sys.stepAt c i = some (c', evs) := by
  obtain ⟨-, hv, hres', -, -⟩ := h.tbase ht
  have hsome := stepT_isSome (sh := c.sh) hv (hres'.mp hres)
  cases hst : stepT c.sh t with
  | none => rw [hst] at hsome; cases hsome
  | some r =>
    obtain ⟨sh', t', evs⟩ := r
    exact ⟨_, _, stepAt_eq_some (S := sys) ht hst⟩

end Iox2.ServiceLifeConc
