/-
Named pieces of the compound model functions, with the (definitional) equations that express the
model functions through them.  Purely a restructuring device for the proofs.
-/
import Iox2.Proof.PubSubC01Basic
namespace Iox2.PubSub.C01P
open Iox2.PubSub

/-! ### subscriber: `prepare_connection_removal` -/

def prepMakeRoom (w : World) (s : Nat) (S : Sub) (hasBorrows : Bool) : World :=
  match findTbr w s S (fun d b => !(d || b)) S.tbr 0 with
  | some (i, k) => subDropConn (setS w s { S with tbr := S.tbr.eraseIdx i }) s k
  | none =>
    if hasBorrows then
      match findTbr w s S (fun _ b => !b) S.tbr 0 with
      | some (i, k) => subDropConn (setS w s { S with tbr := S.tbr.eraseIdx i }) s k
      | none => w
    else w

def prepEnqueue (w : World) (s key : Nat) (hasBorrows : Bool) : World :=
  match getS w s with
  | none => w
  | some S =>
    if S.tbr.length < S.tbrCap then setS w s { S with tbr := S.tbr ++ [key] }
    else if hasBorrows then { w with panicked := true }
    else subDropConn w s key

theorem subPrepareRemoval_eq (w : World) (s slot : Nat) : subPrepareRemoval w s slot =
    match getS w s with
    | none => w
    | some S =>
      match S.conns.getD slot none with
      | none => w
      | some key =>
        match connFlags w s S key with
        | none => w
        | some (hasData, hasBorrows) =>
          if hasData || hasBorrows then
            if S.tbr.length < S.tbrCap then setS w s { S with tbr := S.tbr ++ [key] }
            else prepEnqueue (prepMakeRoom w s S hasBorrows) s key hasBorrows
          else subDropConn w s key := rfl

/-! ### subscriber: `Receiver::create` -/

def recvAttach (w : World) (s p : Nat) (S : Sub) : World :=
  match getC w p s with
  | some c => setC w { c with rAtt := true }
  | none =>
    addC w { pid := p, sid := s, cap := S.buffer,
             used := List.replicate (match getP w p with | some P => P.n | none => 0) false, rAtt := true }

theorem subCreateConn_eq (w : World) (s slot p : Nat) : subCreateConn w s slot p =
    match getS w s with
    | none => w
    | some S =>
      match smInsert S.storage p with
      | (m, some key) => setS (recvAttach w s p S) s { S with storage := m, conns := S.conns.set slot (some key) }
      | (_, none) => { recvAttach w s p S with panicked := true } := rfl

/-! ### publisher: `Sender::create` -/

def histToDeliver (w : World) (p : Nat) (e : SubEntry) (P : Pub) : List Nat :=
  P.hist.drop (P.hist.length - min e.histReq (match getC w p e.sid with | some c => c.cap | none => e.buffer))

def pubAttach (w : World) (p slot : Nat) (e : SubEntry) (P : Pub) : World :=
  let gh := (histToDeliver w p e P).map fun ch => P.chunkSeq.getD ch 0
  setP (match getC w p e.sid with
    | some c => setC w { c with sAtt := true, gFirst := P.seq, gHist := gh }
    | none => addC w { pid := p, sid := e.sid, cap := e.buffer, used := List.replicate P.n false, sAtt := true, gFirst := P.seq, gHist := gh })
    p { P with conns := P.conns.set slot (some e.sid) }

theorem pubCreateConn_eq (w : World) (p slot : Nat) (e : SubEntry) : pubCreateConn w p slot e =
    match getP w p with
    | none => w
    | some P => deliverHistory (pubAttach w p slot e P) p e.sid (histToDeliver w p e P) := rfl

def histSeq (w : World) (p ch : Nat) : Nat := match getP w p with | some P => P.chunkSeq.getD ch 0 | none => 0

theorem deliverHistory_cons (w : World) (p s ch : Nat) (r : List Nat) : deliverHistory w p s (ch :: r) =
    deliverHistory (deliverTo (retrieveReturned w p) p s ch (histSeq (retrieveReturned w p) p ch)).1 p s r := rfl

/-! ### publisher: `Sender::remove_connection` -/

def pubRelease (w : World) (p s : Nat) (P : Pub) : World × Pub :=
  match getC w p s with
  | some c => (setC w { c with used := c.used.map fun _ => false }, releaseAllUsed P c.used c.used.length)
  | none => (w, P)

theorem pubRemoveConn_eq (w : World) (p slot : Nat) : pubRemoveConn w p slot =
    match getP w p with
    | none => w
    | some P =>
      match P.conns.getD slot none with
      | none => w
      | some s =>
        detachSender (setP (pubRelease w p s P).1 p
          { (pubRelease w p s P).2 with conns := (pubRelease w p s P).2.conns.set slot none }) p s := by
  unfold pubRemoveConn pubRelease
  cases getP w p with
  | none => rfl
  | some P =>
    simp only
    cases P.conns.getD slot none with
    | none => rfl
    | some s =>
      simp only
      cases getC w p s <;> rfl

/-! ### subscriber: receive -/

theorem recvFromConn_cases (w : World) (s : Nat) (S : Sub) (key : Nat) :
    (recvFromConn w s S key = (w, .none) ∨ recvFromConn w s S key = (w, .maxBorrow)) ∨
    ∃ p c ch q rest, smGet S.storage key = some p ∧ getC w p s = some c ∧ c.borrow < w.cfg.borrowMax ∧
      c.sub = (ch, q) :: rest ∧
      recvFromConn w s S key =
        (setC w { c with sub := rest, borrow := c.borrow + 1, gReceived := c.gReceived ++ [q] }, .some key p ch q) := by
  unfold recvFromConn
  cases h1 : smGet S.storage key with
  | none => exact Or.inl (Or.inl rfl)
  | some p =>
    simp only
    cases h2 : getC w p s with
    | none => exact Or.inl (Or.inl rfl)
    | some c =>
      simp only
      by_cases h3 : c.borrow ≥ w.cfg.borrowMax
      · rw [if_pos h3]; exact Or.inl (Or.inr rfl)
      · rw [if_neg h3]
        cases h4 : c.sub with
        | nil => exact Or.inl (Or.inl rfl)
        | cons hd rest =>
          obtain ⟨ch, q⟩ := hd
          exact Or.inr ⟨p, c, ch, q, rest, rfl, h2, by omega, h4, rfl⟩

def tbrBorrow (w : World) (p s : Nat) : Nat := match getC w p s with | some c => c.borrow | none => 0

theorem recvTbr_succ (w : World) (s fuel i : Nat) : recvTbr w s (fuel + 1) i =
    match getS w s with
    | none => (w, .none)
    | some S =>
      match S.tbr[i]? with
      | none => (w, .none)
      | some key =>
        match smGet S.storage key with
        | none => recvTbr (setS w s { S with tbr := S.tbr.eraseIdx i }) s fuel i
        | some p =>
          if tbrBorrow w p s = w.cfg.borrowMax then recvTbr w s fuel (i + 1)
          else
            match recvFromConn w s S key with
            | (w', .some k p ch q) => (w', .some k p ch q)
            | (w', .maxBorrow) => (w', .maxBorrow)
            | (w', .none) =>
              if tbrBorrow w p s > 0 then recvTbr w' s fuel (i + 1)
              else recvTbr (subDropConn (setS w' s { S with tbr := S.tbr.eraseIdx i }) s key) s fuel i := rfl

end Iox2.PubSub.C01P

namespace Iox2.PubSub.C01P
open Iox2.PubSub

/-! ### creating / forgetting port records -/

def addP (w : World) (p : Nat) (P : Pub) : World := { w with pubs := w.pubs ++ [(p, P)] }
def delP (w : World) (p : Nat) : World := { w with pubs := w.pubs.filter fun e => e.1 ≠ p }
def addS (w : World) (s : Nat) (S : Sub) : World := { w with subs := w.subs ++ [(s, S)] }
def delS (w : World) (s : Nat) : World := { w with subs := w.subs.filter fun e => e.1 ≠ s }

theorem getP_addP (w : World) (p : Nat) (P : Pub) (a : Nat) :
    getP (addP w p P) a = (getP w a).or (if a = p then some P else none) := by
  unfold getP addP
  simp only [List.find?_append, List.find?_cons, List.find?_nil]
  cases h : w.pubs.find? (fun e => decide (e.1 = a)) with
  | some e => simp
  | none =>
    by_cases hap : a = p
    · subst hap; simp
    · have : ¬ p = a := fun h => hap h.symm
      simp [hap, this]

theorem getP_delP (w : World) (p a : Nat) : getP (delP w p) a = if a = p then none else getP w a := by
  unfold getP delP
  by_cases hap : a = p
  · subst hap
    rw [if_pos rfl, Option.map_eq_none_iff, List.find?_eq_none]
    intro e he
    simp only [List.mem_filter, decide_eq_true_eq] at he
    simpa using he.2
  · rw [if_neg hap, List.find?_filter]
    congr 2
    funext e
    by_cases hea : e.1 = a
    · have : e.1 ≠ p := fun h => hap (hea ▸ h)
      simp [hea, this, hap]
    · simp [hea]

theorem getS_addS (w : World) (s : Nat) (S : Sub) (a : Nat) :
    getS (addS w s S) a = (getS w a).or (if a = s then some S else none) := by
  unfold getS addS
  simp only [List.find?_append, List.find?_cons, List.find?_nil]
  cases h : w.subs.find? (fun e => decide (e.1 = a)) with
  | some e => simp
  | none =>
    by_cases hap : a = s
    · subst hap; simp
    · have : ¬ s = a := fun h => hap h.symm
      simp [hap, this]

theorem getS_delS (w : World) (s a : Nat) : getS (delS w s) a = if a = s then none else getS w a := by
  unfold getS delS
  by_cases hap : a = s
  · subst hap
    rw [if_pos rfl, Option.map_eq_none_iff, List.find?_eq_none]
    intro e he
    simp only [List.mem_filter, decide_eq_true_eq] at he
    simpa using he.2
  · rw [if_neg hap, List.find?_filter]
    congr 2
    funext e
    by_cases hea : e.1 = a
    · have : e.1 ≠ s := fun h => hap (hea ▸ h)
      simp [hea, this, hap]
    · simp [hea]

theorem firstFree_spec {α : Type} (l : List (Option α)) (k i : Nat) (h : firstFree l k = some i) :
    k ≤ i ∧ l[i - k]? = some none := by
  induction l generalizing k with
  | nil => simp [firstFree] at h
  | cons x r ih =>
    cases x with
    | none =>
      simp only [firstFree, Option.some.injEq] at h
      subst h; simp
    | some v =>
      simp only [firstFree] at h
      obtain ⟨h1, h2⟩ := ih (k + 1) h
      refine ⟨by omega, ?_⟩
      have : i - k = (i - (k + 1)) + 1 := by omega
      rw [this]; simpa using h2

theorem Reg_add_spec {α : Type} (r r' : Reg α) (a : α) (i : Nat) (h : r.add a = some (r', i)) :
    r.slots[i]? = some none ∧ r'.slots = r.slots.set i (some a) := by
  unfold Reg.add at h
  cases hf : firstFree r.slots 0 with
  | none => rw [hf] at h; cases h
  | some j =>
    rw [hf] at h
    simp only [Option.some.injEq, Prod.mk.injEq] at h
    obtain ⟨rfl, rfl⟩ := h
    have := firstFree_spec r.slots 0 j hf
    exact ⟨by simpa using this.2, rfl⟩

end Iox2.PubSub.C01P

namespace Iox2.PubSub.C01P
open Iox2.PubSub

def deliverPub (P : Pub) (ch : Nat) (ev : Option Nat) : Pub :=
  match ev with | some old => (P.borrowChunk ch).releaseChunk old | none => P.borrowChunk ch

theorem deliverTo_some (w : World) (p s ch q : Nat) (P : Pub) (c : Conn) (hP : getP w p = some P)
    (hC : getC w p s = some c) :
    deliverTo w p s ch q =
      match (c.trySend w.cfg.overflow ch q).2 with
      | .ok ev => (setP (setC w (c.trySend w.cfg.overflow ch q).1) p (deliverPub P ch ev), true)
      | _ => (setC w (c.trySend w.cfg.overflow ch q).1, false) := by
  unfold deliverTo
  rw [hP, hC]
  rfl

end Iox2.PubSub.C01P
