/-
Layer B: `deliver_offset` to one connection.
-/
import Iox2.Proof.PubSubC01B6
namespace Iox2.PubSub.C01P
open Iox2.PubSub

variable {cfg : Cfg} {np ns : Option Nat} {fl : Option (Nat × Nat × Bool)} {w : World}

theorem b2n_set_true (l : List Bool) (ch y : Nat) (hch : ch < l.length) :
    b2n ((l.set ch true).getD y false) = if y = ch then 1 else b2n (l.getD y false) := by
  rw [getD_set_bool]
  by_cases hy : y = ch
  · subst hy; simp [hch, b2n]
  · have : ¬ ch = y := fun h => hy h.symm
    simp [hy, this]

theorem InvB.deliverTo (h : InvB fl w) {p s ch q : Nat} {P : Pub} {c : Conn}
    (hP : getP w p = some P) (hex : P.ex = true) (hC : getC w p s = some c) (hsa : c.sAtt = true)
    (hSex : ∃ S, getS w s = some S)
    (hch : c.used.getD ch false = false) (hchn : ch < P.n) (hrc1 : 1 ≤ P.rc.getD ch 0) (hnp : ¬ Pinned fl p P ch)
    (hpay : P.payload.getD ch 0 = P.sent.getD q 0 ∧ q < P.seq) :
    InvB fl (deliverTo w p s ch q).1 := by
  obtain ⟨hcm, hcp, hcs⟩ := getC_some hC
  obtain ⟨S0, hS0⟩ := hSex
  have hlens := h.lens p P hP
  have hul := h.usedLen c hcm P (hcp ▸ hP)
  have hfree := h.free p P hP hex
  obtain ⟨hnd, hused⟩ := h.inqOk c hcm hsa P S0 (hcp ▸ hP) hex (hcs ▸ hS0)
  have hppi0 := h.ppi c hcm P S0 (hcp ▸ hP) (hcs ▸ hS0) (Or.inl hsa)
  rw [deliverTo_some w p s ch q P c hP hC]
  have hpid := trySend_pid c w.cfg.overflow ch q
  have hsid := trySend_sid c w.cfg.overflow ch q
  have hsatt := trySend_sAtt c w.cfg.overflow ch q
  have hcomp := trySend_comp c w.cfg.overflow ch q
  have hchl : ch < c.used.length := by rw [hul]; exact hchn
  rcases trySend_log c w.cfg.overflow ch q with ⟨hres, _, _, heq⟩ | ⟨hres, hsub, _, _, _, _, hu⟩ |
      ⟨old, oseq, rest, hsub0, hres, _, _, hsub, _, _, _, hok, hcor⟩
  · -- refused: only the ghost log changes
    rw [hres]
    simp only
    have hg' : getC w (c.trySend w.cfg.overflow ch q).1.pid (c.trySend w.cfg.overflow ch q).1.sid = some c := by
      rw [hpid, hsid, hcp, hcs]; exact hC
    refine h.setC_irrel hg' hsatt ?_ ?_ hcomp <;> rw [heq]
  · -- appended
    rw [hres]
    simp only [deliverPub]
    obtain ⟨f1, l1, r1, o1⟩ := borrow_ok hlens.1 hfree hchn hrc1
    refine h.updPC hP hex hC hsa (hpid.trans hcp) (hsid.trans hcs) (hsatt.trans hsa) o1 l1 (by rw [hu]; simpa using hul) f1
      ?_ ?_ ?_ ?_
    · intro y hy
      rw [r1 y, hu, b2n_set_true _ _ _ hchl]
      by_cases hyc : y = ch
      · subst hyc; rw [if_pos rfl, if_pos rfl, hch]; simp [b2n]
      · rw [if_neg hyc, if_neg hyc]
    · intro y hy
      have hyc : y ≠ ch := fun hh => hnp (hh ▸ hy)
      rw [hu, getD_set_bool]
      have : ¬ (ch = y ∧ ch < c.used.length) := fun hh => hyc hh.1.symm
      rw [if_neg this]
      exact h.pinned_bit hP hex hy hcm hcp hsa
    · intro S hS
      have hSS : S = S0 := by rw [hS0] at hS; exact (Option.some.inj hS).symm
      subst hSS
      unfold inq at hnd hused ⊢
      rw [hsub, hcomp, hpid, hu]
      have hnotin : ch ∉ c.sub.map (·.1) ++ c.comp ++ heldCh S c.pid := by
        intro hin
        have := hused ch hin
        rw [hch] at this; cases this
      have hperm : (List.map (·.1) (c.sub ++ [(ch, q)]) ++ c.comp ++ heldCh S c.pid).Perm
          (ch :: (c.sub.map (·.1) ++ c.comp ++ heldCh S c.pid)) := by
        simp only [List.map_append, List.map_cons, List.map_nil, List.append_assoc]
        exact List.perm_middle
      refine ⟨hperm.nodup_iff.mpr (List.nodup_cons.mpr ⟨hnotin, hnd⟩), fun y hy => ?_⟩
      have := hperm.mem_iff.mp hy
      rw [getD_set_bool]
      rcases List.mem_cons.mp this with rfl | hy'
      · simp [hchl]
      · by_cases hyc : ch = y
        · rw [if_pos ⟨hyc, hchl⟩]
        · have : ¬ (ch = y ∧ ch < c.used.length) := fun hh => hyc hh.1
          rw [if_neg this]; exact hused y hy'
    · intro ch' q' hm
      rw [hsub] at hm
      rcases List.mem_append.mp hm with h1 | h1
      · exact hppi0 ch' q' h1
      · simp only [List.mem_singleton, Prod.mk.injEq] at h1
        obtain ⟨rfl, rfl⟩ := h1
        exact hpay
  · -- the oldest entry is evicted
    have hold_in : old ∈ inq c S0 := by
      unfold inq; rw [hsub0]; simp
    have hold_used : c.used.getD old false = true := hused old hold_in
    have hoc : old ≠ ch := by
      rintro rfl; rw [hch] at hold_used; cases hold_used
    have hset_old : (c.used.set ch true).getD old false = true := by
      rw [getD_set_bool]
      have : ¬ (ch = old ∧ ch < c.used.length) := fun hh => hoc hh.1.symm
      rw [if_neg this]; exact hold_used
    rcases hres with hres | hres
    · obtain ⟨_, hu⟩ := hok hres
      rw [hres]
      simp only [deliverPub]
      have holdn : old < P.n := hul ▸ getD_true_lt hold_used
      obtain ⟨f1, l1, r1, o1⟩ := borrow_ok hlens.1 hfree hchn hrc1
      have hn1 : (P.borrowChunk ch).n = P.n := rfl
      have hrc_old : 1 ≤ (P.borrowChunk ch).rc.getD old 0 := by
        rw [r1 old, if_neg hoc]
        have := h.rc_ge_bit hP hex hcm hcp hsa holdn
        rw [hold_used] at this; simpa [b2n] using this
      obtain ⟨f2, l2, r2, o2⟩ := release_ok (P := P.borrowChunk ch) l1 f1 holdn hrc_old
      have hbit : ∀ y, (c.trySend w.cfg.overflow ch q).1.used.getD y false =
          if y = old then false else if y = ch then true else c.used.getD y false := by
        intro y
        rw [hu, getD_set_bool, getD_set_bool]
        have hol : old < (c.used.set ch true).length := by simpa using (hul ▸ holdn)
        by_cases hyo : y = old
        · rw [hyo, if_pos ⟨rfl, hol⟩, if_pos rfl]
        · have h1 : ¬ (old = y ∧ old < (c.used.set ch true).length) := fun hh => hyo hh.1.symm
          rw [if_neg h1, if_neg hyo]
          by_cases hyc : y = ch
          · subst hyc; simp [hchl]
          · have h2 : ¬ (ch = y ∧ ch < c.used.length) := fun hh => hyc hh.1.symm
            rw [if_neg h2, if_neg hyc]
      refine h.updPC hP hex hC hsa (hpid.trans hcp) (hsid.trans hcs) (hsatt.trans hsa) (o1.trans o2) l2
        (by rw [hu]; simpa using hul) f2 ?_ ?_ ?_ ?_
      · intro y hy
        rw [r2 y, r1 y, r1 old, if_neg hoc, hbit y]
        by_cases hyo : y = old
        · subst hyo
          rw [if_pos rfl, if_pos rfl, hold_used]
          have := h.rc_ge_bit hP hex hcm hcp hsa hy
          rw [hold_used] at this
          simp [b2n] at this ⊢; omega
        · rw [if_neg hyo, if_neg hyo]
          by_cases hyc : y = ch
          · subst hyc; rw [if_pos rfl, if_pos rfl, hch]; simp [b2n]
          · rw [if_neg hyc, if_neg hyc]
      · intro y hy
        have hyc : y ≠ ch := fun hh => hnp (hh ▸ hy)
        rw [hbit y]
        by_cases hyo : y = old
        · rw [if_pos hyo]
        · rw [if_neg hyo, if_neg hyc]
          exact h.pinned_bit hP hex hy hcm hcp hsa
      · intro S hS
        have hSS : S = S0 := by rw [hS0] at hS; exact (Option.some.inj hS).symm
        subst hSS
        unfold inq at hnd hused ⊢
        rw [hsub, hcomp, hpid]
        rw [hsub0] at hnd hused
        simp only [List.map_cons, List.cons_append] at hnd hused
        obtain ⟨hold_notin, hnd'⟩ := List.nodup_cons.mp hnd
        have hnotin : ch ∉ rest.map (·.1) ++ c.comp ++ heldCh S c.pid := by
          intro hin
          have := hused ch (List.mem_cons_of_mem _ hin)
          rw [hch] at this; cases this
        have hperm : (List.map (·.1) (rest ++ [(ch, q)]) ++ c.comp ++ heldCh S c.pid).Perm
            (ch :: (rest.map (·.1) ++ c.comp ++ heldCh S c.pid)) := by
          simp only [List.map_append, List.map_cons, List.map_nil, List.append_assoc]
          exact List.perm_middle
        refine ⟨hperm.nodup_iff.mpr (List.nodup_cons.mpr ⟨hnotin, hnd'⟩), fun y hy => ?_⟩
        have := hperm.mem_iff.mp hy
        rw [hbit y]
        rcases List.mem_cons.mp this with rfl | hy'
        · rw [if_neg (fun hh => hoc hh.symm), if_pos rfl]
        · have hyo : y ≠ old := fun hh => hold_notin (hh ▸ hy')
          rw [if_neg hyo]
          by_cases hyc : y = ch
          · rw [if_pos hyc]
          · rw [if_neg hyc]; exact hused y (List.mem_cons_of_mem _ hy')
      · intro ch' q' hm
        rw [hsub] at hm
        rcases List.mem_append.mp hm with h1 | h1
        · exact hppi0 ch' q' (by rw [hsub0]; exact List.mem_cons_of_mem _ h1)
        · simp only [List.mem_singleton, Prod.mk.injEq] at h1
          obtain ⟨rfl, rfl⟩ := h1
          exact hpay
    · -- `corrupted` cannot happen: the evicted chunk is marked used
      have := hcor hres
      rw [hset_old] at this; cases this

end Iox2.PubSub.C01P
