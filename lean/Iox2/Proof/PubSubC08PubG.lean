/-
C08 helper: publisher-side actions preserve the invariant (part G: `pubRemoveConn`).
-/
import Iox2.Proof.PubSubC08PubF
set_option linter.unusedSimpArgs false
set_option linter.unusedVariables false
namespace Iox2.PubSub.C08
open Iox2.PubSub
open Iox2.C16.SlotMapP (abs)
attribute [-simp] List.getD_eq_getElem?_getD

theorem getD_some_iff {l : List (Option Nat)} {i s : Nat} : l.getD i none = some s ↔ l[i]? = some (some s) := by
  rw [List.getD_eq_getElem?_getD]
  cases h : l[i]? with
  | none => simp
  | some v => simp

theorem detachSender_eq (w : World) (p s : Nat) :
    detachSender w p s =
      match getC w p s with
      | none => w
      | some c => if c.rAtt then setC w { c with sAtt := false } else dropC w p s := rfl

theorem detachReceiver_eq (w : World) (p s : Nat) :
    detachReceiver w p s =
      match getC w p s with
      | none => w
      | some c => if c.sAtt then setC w { c with rAtt := false } else dropC w p s := rfl

theorem removeConn_core {cfg : Cfg} {w w' : World} {xp : Option Nat} {p0 : Nat} {xs : List Nat} {st : Bool}
    (h : InvP cfg w xp p0 xs st) {p s slot : Nat} {P P1 : Pub} {c : Conn} (c3 : Option Conn)
    (hp : getP w p = some P) (hc : getC w p s = some c) (hi : P.conns[slot]? = some (some s))
    (hx : p ≠ p0 → xs = [])
    (hdead : ∀ S, getS w s = some S → S.alive = false)
    (hfr : PFrame w w') (hu : ConnsUniq w')
    (hgP : ∀ q, getP w' q = if q = p then some { P1 with conns := P.conns.set slot none } else getP w q)
    (hgC : ∀ a b, getC w' a b = if a = p ∧ b = s then c3 else getC w a b)
    (hc3 : ∀ x, c3 = some x → ConnCore c { x with sAtt := true } ∧ x.sub = c.sub ∧ x.sAtt = false ∧
      x.used = c.used.map fun _ => false)
    (hc3r : c.rAtt = true → c3 ≠ none)
    (hpool : PoolEq P P1) (hfree : FreeOK P → FreeOK P1)
    (hrc : ∀ x, P1.rc.getD x 0 = P.rc.getD x 0 - (if c.used.getD x false = true then 1 else 0)) :
    InvP cfg w' xp p0 xs st := by
  obtain ⟨hSl, hMem⟩ := h.p p P hp
  have hCI := h.c p s c hc
  obtain ⟨f1, f2, f3, f4, f5, f6, f7, f8, f9, f10, f11, f12, f13, f14, f15⟩ := hpool.fields
  have hsim0 : PubSim0 P { P1 with conns := P.conns.set slot none } := ⟨f1, f2, f3, f5⟩
  have huniq : ∀ j, P.conns[j]? = some (some s) → j = slot := by
    intro j hj
    obtain ⟨S, hS, h1⟩ := hSl.slotSlot slot s hi
    obtain ⟨S', hS', h2⟩ := hSl.slotSlot j s hj
    rw [hS] at hS'; cases hS'; omega
  have hsetget : ∀ j (s' : Nat), (P.conns.set slot none)[j]? = some (some s') ↔
      (j ≠ slot ∧ P.conns[j]? = some (some s')) := by
    intro j s'
    rw [List.getElem?_set]
    by_cases hj : slot = j
    · subst hj
      constructor
      · intro h'; by_cases hl : slot < P.conns.length <;> simp [hl] at h'
      · rintro ⟨h1, _⟩; exact absurd rfl h1
    · simp only [hj, if_false]
      constructor
      · intro h'; exact ⟨fun e => hj e.symm, h'⟩
      · exact fun h' => h'.2
  refine h.rebuild p hfr ?_ ?_ ?_ hu (fun hne => ⟨hx hne, hx hne⟩) ?_ ?_ ?_
  · intro q hq; rw [hgP]; simp [hq]
  · intro q s' hq; rw [hgC]; simp [hq]
  · constructor
    · intro q Q hq
      rw [hgP]
      by_cases hqp : q = p
      · subst hqp; rw [hp] at hq; cases hq; exact ⟨_, by simp, hsim0⟩
      · exact ⟨Q, by simp [hqp, hq], ⟨rfl, rfl, rfl, rfl⟩⟩
    · intro q Q' hq
      rw [hgP] at hq
      by_cases hqp : q = p
      · subst hqp; simp at hq; subst hq; exact ⟨P, hp, hsim0⟩
      · simp [hqp] at hq; exact ⟨Q', hq, ⟨rfl, rfl, rfl, rfl⟩⟩
  · -- receiver-attached connections survive
    intro s' x hx' hxr
    rw [hgC]
    by_cases hs : s' = s
    · subst hs
      rw [hc] at hx'; cases hx'
      cases h3 : c3 with
      | none => exact absurd h3 (hc3r hxr)
      | some y =>
        obtain ⟨k1, _, _, _⟩ := hc3 y h3
        exact ⟨y, by simp, by have := k1.rAtt; simp at this; rw [this]; exact hxr⟩
    · exact ⟨x, by simp [hs, hx'], hxr⟩
  · -- connections of `p`
    intro s' x hx'
    rw [hgC] at hx'
    by_cases hs : s' = s
    · subst hs
      simp at hx'
      obtain ⟨k1, k2, k3, k4⟩ := hc3 x hx'
      have e3 : x.cap = c.cap := k1.cap
      have e4 : x.comp = c.comp := k1.comp
      have e5 : x.borrow = c.borrow := k1.borrow
      refine ⟨⟨by rw [e3]; exact hCI.ok.cap1, by rw [e3]; exact hCI.ok.capM, by rw [k2, e3]; exact hCI.ok.subLe,
        by rw [e5]; exact hCI.ok.borLe, by rw [k2, e5, e4, e3]; exact hCI.ok.tot⟩,
        ⟨{ P1 with conns := P.conns.set slot none }, by rw [hgP]; simp⟩, by rw [hfr.subs]; exact hCI.hasS, ?_, ?_, ?_, ?_, ?_⟩
      · intro S hS; rw [hfr.subs] at hS; rw [e5]; exact hCI.held S hS
      · intro ha; rw [k3] at ha; cases ha
      · intro _ Q S hQ hS _ hal
        rw [hfr.subs] at hS
        rw [hdead S hS] at hal; cases hal
      · intro ha; rw [k3] at ha; cases ha
      · intro Q hQ
        rw [hgP] at hQ; simp at hQ; subst hQ
        rw [k4]; simp only [List.length_map]
        rw [f5]; exact hCI.usedLen P hp
    · simp [hs] at hx'
      refine (h.c p s' x hx').transferAt0 hfr.subs ?_ ?_
      · intro Q hQ
        rw [hp] at hQ; cases hQ
        refine ⟨_, by rw [hgP]; simp, hsim0, fun _ j hj => ⟨j, ?_⟩⟩
        show (P.conns.set slot none)[j]? = _
        rw [hsetget]
        exact ⟨fun e => by subst e; rw [hi] at hj; cases hj; exact hs rfl, hj⟩
      · intro Q' hQ'
        rw [hgP] at hQ'; simp at hQ'; subst hQ'
        exact ⟨P, hp, hsim0⟩
  · -- the publisher
    intro Q hQ
    rw [hgP] at hQ; simp at hQ; subst hQ
    constructor
    · refine ⟨by simp [hSl.connsLen], ?_, ?_, ?_⟩
      · intro j s' hj
        have hj' := (hsetget j s').1 hj
        obtain ⟨c1, hc1, ha1⟩ := hSl.slotConn j s' hj'.2
        have hs : s' ≠ s := by intro e; subst e; exact hj'.1 (huniq j hj'.2)
        exact ⟨c1, by rw [hgC]; simp [hs, hc1], ha1⟩
      · intro j s' hj
        have hj' := (hsetget j s').1 hj
        rw [hfr.subs]; exact hSl.slotSlot j s' hj'.2
      · intro ha; show P1.ex = true; rw [f2]; exact hSl.aliveEx (f1 ▸ ha)
    · intro hal
      have hal' : P.alive = true := f1 ▸ hal
      have M := hMem hal'
      have hmem : some s ∈ P.conns := List.mem_of_getElem? hi
      have hsum : ∀ x, slotSum w' p (P.conns.set slot none) x +
          (if c.used.getD x false = true then 1 else 0) = slotSum w p P.conns x := by
        intro x
        have h1 := slotSum_set_none (w := w) (p := p) (c := x) P.conns slot (some s) hi
        have h2 : slotSum w' p (P.conns.set slot none) x = slotSum w p (P.conns.set slot none) x := by
          apply slotSum_congr
          intro s' hs'
          obtain ⟨j, hj⟩ := List.getElem?_of_mem hs'
          have hj' := (hsetget j s').1 hj
          have hs : s' ≠ s := by intro e; subst e; exact hj'.1 (huniq j hj'.2)
          apply usedAt_congr; rw [hgC]; simp [hs]
        rw [h2]
        simp only [slotRef, usedAt_of_getC hc] at h1
        exact h1
      have hnotused : ∀ x, 1 ≤ (if p = p0 then xs else []).count x + (P.loans.map (·.2)).count x →
          P.rc.getD x 0 = 1 → c.used.getD x false ≠ true := by
        intro x h1 h2 hu'
        have := M.rcEq x
        have h3 := slotSum_ge_of_used (w := w) (p := p) (x := x) hmem (by rw [usedAt_of_getC hc]; exact hu')
        omega
      refine ⟨?_, (by show P1.n = cfg.nChunks P1.maxLoans; rw [f5, f4]; exact M.nEq), ?_, ?_, ?_,
        ?_, ?_, ?_, ?_⟩
      · have := hfree M.fr
        exact ⟨this.rcLen, this.freeNodup, this.freeRc, this.rcFree⟩
      · intro x
        show P1.rc.getD x 0 = _ + (P1.loans.map (·.2)).count x + P1.hist.count x + _
        rw [hrc x, f11, f7, M.rcEq x]
        have := hsum x
        split at this <;> simp_all <;> omega
      · show P1.loanCnt = P1.loans.length + _; rw [f6, f11]; exact M.loanCnt
      · show P1.hist.length ≤ _; rw [f7]; exact M.histLen
      · show (P1.loans.map (·.1)).Nodup; rw [f11]; exact M.labels
      · intro lc hlc
        have hlc' : lc ∈ P.loans := f11 ▸ hlc
        have h1 := M.loanRc lc hlc'
        have hc1 : 1 ≤ (P.loans.map (·.2)).count lc.2 :=
          List.one_le_count_iff.mpr (List.mem_map.mpr ⟨lc, hlc', rfl⟩)
        have := hnotused lc.2 (by omega) h1
        show P1.rc.getD lc.2 0 = 1
        rw [hrc, h1]; simp [this]
      · intro hst x hxm
        have h1 := M.xsRc hst x hxm
        have hc1 : 1 ≤ (if p = p0 then xs else []).count x := List.one_le_count_iff.mpr hxm
        have := hnotused x (by omega) h1
        show P1.rc.getD x 0 = 1
        rw [hrc, h1]; simp [this]
      · show P1.hist.Nodup; rw [f7]; exact M.histNodup

end Iox2.PubSub.C08
