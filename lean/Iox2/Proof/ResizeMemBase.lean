/-
Basic lemmas about the list operations of the model `Iox2.ResizeMem` (memory side): segment
lookup / update / removal, the chunk table, counting of live chunks, powers of two, and the pool
allocator of one segment.
-/
import Iox2.Model.ResizeMem
import Iox2.Props.C15

namespace Iox2.ResizeMem
open Iox2.Alloc

/-! ### powers of two (what `Layout` guarantees for alignments) -/
def Pow2 (n : Nat) : Prop := ∃ k, n = 2 ^ k

theorem Pow2.pos {n : Nat} (h : Pow2 n) : 0 < n := by
  obtain ⟨k, rfl⟩ := h; exact Nat.pow_pos (by decide)

theorem Pow2.dvd_of_le {a b : Nat} (ha : Pow2 a) (hb : Pow2 b) (h : a ≤ b) : a ∣ b := by
  obtain ⟨j, rfl⟩ := ha
  obtain ⟨k, rfl⟩ := hb
  exact Nat.pow_dvd_pow 2 ((Nat.pow_le_pow_iff_right (by decide)).mp h)

theorem Pow2.max {a b : Nat} (ha : Pow2 a) (hb : Pow2 b) : Pow2 (max a b) := by
  rcases Nat.le_total a b with h | h
  · rw [Nat.max_eq_right h]; exact hb
  · rw [Nat.max_eq_left h]; exact ha

theorem pow2_nextPow2 (n : Nat) : Pow2 (nextPow2 n) := by
  unfold nextPow2
  split
  · exact ⟨0, rfl⟩
  · exact ⟨_, rfl⟩

/-! ### segments -/
theorem getSeg_some {segs : List Seg} {id : Nat} {g : Seg} (h : getSeg segs id = some g) :
    g ∈ segs ∧ g.id = id := by
  unfold getSeg at h
  exact ⟨List.mem_of_find?_eq_some h, by simpa using List.find?_some h⟩

theorem getSeg_none {segs : List Seg} {id : Nat} (h : getSeg segs id = none) :
    ∀ g ∈ segs, g.id ≠ id := by
  unfold getSeg at h
  intro g hg
  have := List.find?_eq_none.mp h g hg
  simpa using this

theorem getSeg_of_mem {segs : List Seg} (hnd : (segs.map (·.id)).Nodup) {g : Seg} (hg : g ∈ segs) :
    getSeg segs g.id = some g := by
  induction segs with
  | nil => cases hg
  | cons x xs ih =>
    simp only [List.map_cons, List.nodup_cons] at hnd
    unfold getSeg
    rw [List.find?_cons]
    rcases List.mem_cons.mp hg with rfl | hg'
    · simp
    · have hne : x.id ≠ g.id := by
        intro he
        exact hnd.1 (he ▸ List.mem_map.mpr ⟨g, hg', rfl⟩)
      simp only [hne, decide_false]
      exact ih hnd.2 hg'

theorem getSeg_cons (x : Seg) (xs : List Seg) (id : Nat) :
    getSeg (x :: xs) id = if x.id = id then some x else getSeg xs id := by
  unfold getSeg
  rw [List.find?_cons]
  by_cases h : x.id = id <;> simp [h]

theorem getSeg_setSeg (segs : List Seg) (g' : Seg) (id : Nat) :
    getSeg (setSeg segs g') id =
      if id = g'.id then (getSeg segs id).map (fun _ => g') else getSeg segs id := by
  induction segs with
  | nil => simp [getSeg, setSeg]
  | cons x xs ih =>
    have hs : setSeg (x :: xs) g' = (if x.id = g'.id then g' else x) :: setSeg xs g' := by
      simp [setSeg]
    rw [hs, getSeg_cons, getSeg_cons, ih]
    by_cases h1 : x.id = g'.id <;> by_cases h2 : id = g'.id <;> simp [h1, h2] <;> grind

theorem mem_setSeg {segs : List Seg} {g' x : Seg} (h : x ∈ setSeg segs g') :
    x = g' ∨ (x ∈ segs ∧ x.id ≠ g'.id) := by
  unfold setSeg at h
  obtain ⟨y, hy, rfl⟩ := List.mem_map.mp h
  by_cases hid : y.id = g'.id <;> simp [hid, hy]

theorem setSeg_ids (segs : List Seg) (g' : Seg) :
    (setSeg segs g').map (·.id) = segs.map (·.id) := by
  unfold setSeg
  rw [List.map_map]
  apply List.map_congr_left
  intro x _
  by_cases h : x.id = g'.id <;> simp [h]

theorem setSeg_length (segs : List Seg) (g' : Seg) : (setSeg segs g').length = segs.length := by
  simp [setSeg]

theorem getSeg_dropSeg (segs : List Seg) (d id : Nat) :
    getSeg (dropSeg segs d) id = if id = d then none else getSeg segs id := by
  induction segs with
  | nil => simp [getSeg, dropSeg]
  | cons x xs ih =>
    by_cases hx : x.id = d
    · have hs : dropSeg (x :: xs) d = dropSeg xs d := by simp [dropSeg, hx]
      rw [hs, ih, getSeg_cons]
      by_cases h2 : id = d <;> simp [h2] <;> grind
    · have hs : dropSeg (x :: xs) d = x :: dropSeg xs d := by simp [dropSeg, hx]
      rw [hs, getSeg_cons, getSeg_cons, ih]
      by_cases h2 : id = d <;> simp [h2] <;> grind

theorem mem_dropSeg {segs : List Seg} {d : Nat} {x : Seg} :
    x ∈ dropSeg segs d ↔ x ∈ segs ∧ x.id ≠ d := by
  simp [dropSeg, List.mem_filter]

theorem dropSeg_ids_nodup {segs : List Seg} (h : (segs.map (·.id)).Nodup) (d : Nat) :
    ((dropSeg segs d).map (·.id)).Nodup :=
  List.Nodup.sublist (List.Sublist.map _ List.filter_sublist) h

theorem getSeg_append (segs : List Seg) (g' : Seg) (id : Nat) :
    getSeg (segs ++ [g']) id =
      match getSeg segs id with
      | some g => some g
      | none => if g'.id = id then some g' else none := by
  unfold getSeg
  rw [List.find?_append]
  cases h : List.find? (fun x => decide (x.id = id)) segs with
  | some g => simp
  | none =>
    by_cases h2 : g'.id = id <;> simp [h2]

/-! ### the chunk table -/
theorem mem_putChunk {cs : List Chunk} {c x : Chunk} :
    x ∈ putChunk cs c ↔ x = c ∨ (x ∈ cs ∧ x.label ≠ c.label) := by
  simp [putChunk, List.mem_filter]

theorem getChunk_some {cs : List Chunk} {l : Nat} {c : Chunk} (h : getChunk cs l = some c) :
    c ∈ cs ∧ c.label = l := by
  unfold getChunk at h
  exact ⟨List.mem_of_find?_eq_some h, by simpa using List.find?_some h⟩

theorem getChunk_none {cs : List Chunk} {l : Nat} (h : getChunk cs l = none) :
    ∀ c ∈ cs, c.label ≠ l := by
  unfold getChunk at h
  intro c hc
  simpa using List.find?_eq_none.mp h c hc

theorem getChunk_of_mem {cs : List Chunk} (hnd : (cs.map (·.label)).Nodup) {c : Chunk} (hc : c ∈ cs) :
    getChunk cs c.label = some c := by
  induction cs with
  | nil => cases hc
  | cons x xs ih =>
    simp only [List.map_cons, List.nodup_cons] at hnd
    unfold getChunk
    rw [List.find?_cons]
    rcases List.mem_cons.mp hc with rfl | hc'
    · simp
    · have hne : x.label ≠ c.label := by
        intro he
        exact hnd.1 (he ▸ List.mem_map.mpr ⟨c, hc', rfl⟩)
      simp only [hne, decide_false]
      exact ih hnd.2 hc'

theorem label_inj {cs : List Chunk} (hnd : (cs.map (·.label)).Nodup) {a b : Chunk}
    (ha : a ∈ cs) (hb : b ∈ cs) (h : a.label = b.label) : a = b := by
  have h1 := getChunk_of_mem hnd ha
  have h2 := getChunk_of_mem hnd hb
  rw [h] at h1
  rw [h1] at h2
  exact Option.some.inj h2

theorem putChunk_labels_nodup {cs : List Chunk} (hnd : (cs.map (·.label)).Nodup) (c : Chunk) :
    ((putChunk cs c).map (·.label)).Nodup := by
  unfold putChunk
  simp only [List.map_cons, List.nodup_cons]
  constructor
  · intro hm
    obtain ⟨x, hx, hxl⟩ := List.mem_map.mp hm
    have := (List.mem_filter.mp hx).2
    simp at this
    exact this hxl
  · exact List.Nodup.sublist (List.Sublist.map _ List.filter_sublist) hnd

theorem liveChunk_some {s : St} {l : Nat} {c : Chunk} (h : liveChunk s l = some c) :
    c ∈ s.chunks ∧ c.label = l ∧ c.live = true := by
  unfold liveChunk at h
  cases hg : getChunk s.chunks l with
  | none => simp [hg] at h
  | some c' =>
    simp only [hg] at h
    by_cases hl : c'.live = true
    · simp only [hl, if_true, Option.some.injEq] at h
      subst h
      exact ⟨(getChunk_some hg).1, (getChunk_some hg).2, hl⟩
    · simp [hl] at h

theorem liveChunk_none {s : St} (hnd : (s.chunks.map (·.label)).Nodup) {l : Nat}
    (h : liveChunk s l = none) : ∀ c ∈ s.chunks, c.label = l → c.live = false := by
  intro c hc hl
  unfold liveChunk at h
  have hg := getChunk_of_mem hnd hc
  rw [hl] at hg
  simp only [hg] at h
  by_cases hlive : c.live = true
  · simp [hlive] at h
  · simpa using hlive

/-- number of live chunks recorded for segment `id` -/
def liveIn (cs : List Chunk) (id : Nat) : Nat := cs.countP (fun c => c.live && c.seg == id)

/-- the weight of a chunk record in `liveIn · id` -/
def wt (c : Chunk) (id : Nat) : Nat := if c.live = true ∧ c.seg = id then 1 else 0

theorem liveIn_cons (c : Chunk) (cs : List Chunk) (id : Nat) :
    liveIn (c :: cs) id = liveIn cs id + wt c id := by
  unfold liveIn wt
  rw [List.countP_cons]
  by_cases h1 : c.live = true <;> by_cases h2 : c.seg = id <;> simp [h1, h2]

theorem liveIn_pos_of_mem {cs : List Chunk} {c : Chunk} (hc : c ∈ cs) (hl : c.live = true) :
    0 < liveIn cs c.seg := by
  unfold liveIn
  exact List.countP_pos_iff.mpr ⟨c, hc, by simp [hl]⟩

theorem liveIn_eq_zero {cs : List Chunk} {id : Nat} (h : ∀ c ∈ cs, c.live = true → c.seg ≠ id) :
    liveIn cs id = 0 := by
  unfold liveIn
  apply List.countP_eq_zero.mpr
  intro c hc
  have := h c hc
  by_cases hl : c.live = true <;> simp [hl] <;> grind

/-- the weight of the record stored for label `l` (0 when there is none) -/
def oldWt (cs : List Chunk) (l id : Nat) : Nat :=
  match getChunk cs l with
  | some o => wt o id
  | none => 0

theorem oldWt_of_mem {cs : List Chunk} (hnd : (cs.map (·.label)).Nodup) {c : Chunk} (hc : c ∈ cs) (id : Nat) :
    oldWt cs c.label id = wt c id := by
  unfold oldWt; rw [getChunk_of_mem hnd hc]

theorem oldWt_dead {cs : List Chunk} {l : Nat} (hdead : ∀ c ∈ cs, c.label = l → c.live = false) (id : Nat) :
    oldWt cs l id = 0 := by
  unfold oldWt
  cases hg : getChunk cs l with
  | none => rfl
  | some o =>
    have := getChunk_some hg
    have hl := hdead o this.1 this.2
    simp [wt, hl]

/-- removing the record of label `l` (labels are unique) -/
theorem liveIn_filter_label {cs : List Chunk} (hnd : (cs.map (·.label)).Nodup) (l id : Nat) :
    liveIn (cs.filter (·.label ≠ l)) id + oldWt cs l id = liveIn cs id := by
  unfold oldWt
  induction cs with
  | nil => simp [liveIn, getChunk]
  | cons x xs ih =>
    simp only [List.map_cons, List.nodup_cons] at hnd
    have ih' := ih hnd.2
    by_cases hx : x.label = l
    · -- x is the record; no other record has this label
      have hnone : getChunk xs l = none := by
        unfold getChunk
        apply List.find?_eq_none.mpr
        intro y hy
        simp only [decide_eq_true_eq]
        intro hyl
        exact hnd.1 (hx ▸ hyl ▸ List.mem_map.mpr ⟨y, hy, rfl⟩)
      have hf : (x :: xs).filter (·.label ≠ l) = xs.filter (·.label ≠ l) := by
        simp [hx]
      have hg : getChunk (x :: xs) l = some x := by
        unfold getChunk; rw [List.find?_cons]; simp [hx]
      rw [hf, hg, liveIn_cons]
      rw [hnone] at ih'
      simp only at ih' ⊢
      omega
    · have hf : (x :: xs).filter (·.label ≠ l) = x :: xs.filter (·.label ≠ l) := by
        simp [hx]
      have hg : getChunk (x :: xs) l = getChunk xs l := by
        unfold getChunk; rw [List.find?_cons]; simp [hx]
      rw [hf, hg, liveIn_cons, liveIn_cons]
      omega

/-- replacing / adding the record of a label -/
theorem liveIn_putChunk {cs : List Chunk} (hnd : (cs.map (·.label)).Nodup) (c : Chunk) (id : Nat) :
    liveIn (putChunk cs c) id + oldWt cs c.label id = liveIn cs id + wt c id := by
  unfold putChunk
  rw [liveIn_cons]
  have := liveIn_filter_label hnd c.label id
  omega

/-! ### the pool allocator of one segment -/
/-- the allocator of one segment, spelled out -/
theorem Seg.allocate_eq (g : Seg) (size align : Nat) :
    g.allocate size align =
      if align > g.balign then (g, .error .alignmentFailure)
      else if size > g.stride then (g, .error .sizeTooLarge)
      else match g.pool.free with
        | [] => (g, .error .outOfMemory)
        | i :: rest =>
          ({ g with pool := { g.pool with free := rest }, used := g.used + 1 }, .ok (i * g.stride)) := by
  unfold Seg.allocate Seg.balign Seg.stride PoolSt.allocate
  by_cases h1 : align > g.pool.p.bucketAlign
  · simp [h1]
  · by_cases h2 : size > g.pool.p.stride
    · simp [h1, h2]
    · cases hf : g.pool.free with
      | nil => simp [h1, h2]
      | cons i rest =>
        simp only [h1, h2, if_false]
        congr 2
        unfold Pool.addr
        omega

theorem Seg.allocate_ok {g g' : Seg} {size align off : Nat}
    (h : g.allocate size align = (g', .ok off)) :
    ∃ i rest, g.pool.free = i :: rest ∧ off = i * g.stride ∧ size ≤ g.stride ∧ align ≤ g.balign ∧
      g' = { g with pool := { g.pool with free := rest }, used := g.used + 1 } := by
  rw [Seg.allocate_eq] at h
  by_cases h1 : align > g.balign
  · simp [h1] at h
  · by_cases h2 : size > g.stride
    · simp [h1, h2] at h
    · cases hf : g.pool.free with
      | nil => simp [h1, h2, hf] at h
      | cons i rest =>
        simp only [h1, h2, hf, if_false, Prod.mk.injEq, Except.ok.injEq] at h
        exact ⟨i, rest, rfl, h.2.symm, by omega, by omega, h.1.symm⟩

theorem Seg.allocate_err {g g' : Seg} {size align : Nat} {e : AllocErr}
    (h : g.allocate size align = (g', .error e)) : g' = g := by
  rw [Seg.allocate_eq] at h
  by_cases h1 : align > g.balign
  · simp [h1] at h; exact h.1.symm
  · by_cases h2 : size > g.stride
    · simp [h1, h2] at h; exact h.1.symm
    · cases hf : g.pool.free with
      | nil => simp [h1, h2, hf] at h; exact h.1.symm
      | cons i rest => simp [h1, h2, hf] at h

/-- when does the allocator of a segment serve a request -/
theorem Seg.allocate_ok_of {g : Seg} {size align i : Nat} {rest : List Nat}
    (hf : g.pool.free = i :: rest) (hs : size ≤ g.stride) (ha : align ≤ g.balign) :
    g.allocate size align =
      ({ g with pool := { g.pool with free := rest }, used := g.used + 1 }, .ok (i * g.stride)) := by
  rw [Seg.allocate_eq, if_neg (by omega), if_neg (by omega)]
  simp only [hf]

theorem Seg.deallocate_free (g : Seg) (hwf : Iox2.C15.WF g.pool.p) (i : Nat) :
    (g.deallocate (i * g.stride)).pool.free = i :: g.pool.free := by
  unfold Seg.deallocate PoolSt.deallocate
  simp only
  have : g.pool.p.start + i * g.stride = g.pool.p.addr i := by
    unfold Pool.addr Seg.stride; rfl
  rw [this, Iox2.C15.pool_getIndex_addr _ hwf]

end Iox2.ResizeMem
