/-
C08 helper: the API operations preserve the invariant (part 7: pieces of `send`).
-/
import Iox2.Proof.PubSubC08Op6
set_option linter.unusedSimpArgs false
set_option linter.unusedVariables false
namespace Iox2.PubSub.C08
open Iox2.PubSub
open Iox2.C16.SlotMapP (abs)
attribute [-simp] List.getD_eq_getElem?_getD

/-- `add_sample_to_history` -/
def histUpd (hist : Nat) (P : Pub) (c : Nat) : Pub :=
  if hist = 0 then P else
  if (P.borrowChunk c).hist.length ≥ hist then
    match (P.borrowChunk c).hist with
    | [] => { P.borrowChunk c with hist := [c] }
    | old :: rest => { P.borrowChunk c with hist := rest ++ [c] }.releaseChunk old
  else { P.borrowChunk c with hist := (P.borrowChunk c).hist ++ [c] }

/-- a strictly in-flight chunk is referenced by nothing -/
theorem MemOK.noref {cfg : Cfg} {w : World} {p : Nat} {P : Pub} {c : Nat} (M : MemOK cfg w p P [c] true) :
    P.rc.getD c 0 = 1 ∧ (P.loans.map (·.2)).count c = 0 ∧ P.hist.count c = 0 ∧ slotSum w p P.conns c = 0 := by
  have h1 := M.xsRc rfl c (by simp)
  have h2 := M.rcEq c
  simp only [List.count_cons_self, List.count_nil] at h2
  omega

theorem MemOK.histUpd {cfg : Cfg} {w : World} {p : Nat} {P : Pub} {c : Nat} (M : MemOK cfg w p P [c] true) :
    MemOK cfg w p (histUpd cfg.hist P c) [c] false ∧
      ∃ f r hs, histUpd cfg.hist P c = { P with free := f, rc := r, hist := hs } := by
  obtain ⟨n1, n2, n3, n4⟩ := M.noref
  have hcl : c < P.rc.length := getD_pos_lt (by omega)
  have hcnh : c ∉ P.hist := List.count_eq_zero.mp n3
  unfold Iox2.PubSub.C08.histUpd
  by_cases h0 : cfg.hist = 0
  · rw [if_pos h0]
    exact ⟨⟨M.fr, M.nEq, M.rcEq, M.loanCnt, M.histLen, M.labels, M.loanRc, fun h => (by cases h), M.histNodup⟩,
      ⟨P.free, P.rc, P.hist, rfl⟩⟩
  · rw [if_neg h0]
    have hb := borrowChunk_pool P c
    obtain ⟨f1, f2, f3, f4, f5, f6, f7, f8, f9, f10, f11, f12, f13, f14, f15⟩ := hb.fields
    have hfrB := freeOK_borrowChunk M.fr c (by omega)
    have hrcB := fun x => rc_borrowChunk P c x hcl
    by_cases hfull : (P.borrowChunk c).hist.length ≥ cfg.hist
    · rw [if_pos hfull]
      rw [f7] at hfull ⊢
      cases hh : P.hist with
      | nil => rw [hh] at hfull; simp at hfull; omega
      | cons old rest =>
        dsimp only
        have hnd := M.histNodup
        rw [hh] at hnd hcnh
        have hnd' := List.nodup_cons.mp hnd
        have hoc : old ≠ c := fun e => hcnh (by simp [e])
        have hcr : c ∉ rest := fun hm => hcnh (by simp [hm])
        have hrel := releaseChunk_pool ({ P.borrowChunk c with hist := rest ++ [c] } : Pub) old
        obtain ⟨g1, g2, g3, g4, g5, g6, g7, g8, g9, g10, g11, g12, g13, g14, g15⟩ := hrel.fields
        have hfr := freeOK_releaseChunk (P := { P.borrowChunk c with hist := rest ++ [c] })
          ⟨hfrB.rcLen, hfrB.freeNodup, hfrB.freeRc, hfrB.rcFree⟩ old
        have hrc : ∀ x, (({ P.borrowChunk c with hist := rest ++ [c] } : Pub).releaseChunk old).rc.getD x 0 =
            (if x = old then (if x = c then P.rc.getD x 0 + 1 else P.rc.getD x 0) - 1
              else (if x = c then P.rc.getD x 0 + 1 else P.rc.getD x 0)) := by
          intro x
          rw [rc_releaseChunk]
          show (if x = old then (P.borrowChunk c).rc.getD x 0 - 1 else (P.borrowChunk c).rc.getD x 0) = _
          rw [hrcB]
        have hcold : P.hist.count old = 1 := by
          rw [hh]; simp [List.count_cons, List.count_eq_zero.mpr hnd'.1]
        refine ⟨⟨hfr, ?_, ?_, ?_, ?_, ?_, ?_, fun h => (by cases h), ?_⟩, ?_⟩
        · rw [g5, g4]; show (P.borrowChunk c).n = cfg.nChunks (P.borrowChunk c).maxLoans
          rw [f5, f4]; exact M.nEq
        · intro x
          rw [hrc x, g11, g7, g8]
          show _ = _ + ((P.borrowChunk c).loans.map (·.2)).count x + (rest ++ [c]).count x +
            slotSum w p (P.borrowChunk c).conns x
          rw [f11, f8]
          have := M.rcEq x
          rw [hh] at this
          simp only [List.count_cons, List.count_nil, List.count_append] at this ⊢
          by_cases hxo : x = old
          · subst hxo
            have hxc : ¬ x = c := hoc
            have : ¬ c = x := fun e => hoc e.symm
            simp [hxc, this] at *
            omega
          · by_cases hxc : x = c
            · subst hxc
              have : ¬ old = x := fun e => hxo e.symm
              simp [hxo, this, List.count_eq_zero.mpr hcr] at *
              omega
            · have h1 : ¬ old = x := fun e => hxo e.symm
              have h2 : ¬ c = x := fun e => hxc e.symm
              simp [hxo, hxc, h1, h2] at *
              omega
        · rw [g6, g11]; show (P.borrowChunk c).loanCnt = (P.borrowChunk c).loans.length + _
          rw [f6, f11]; exact M.loanCnt
        · rw [g7]
          show (rest ++ [c]).length ≤ _
          have := M.histLen; rw [hh] at this; simp at this ⊢; omega
        · rw [g11]; show ((P.borrowChunk c).loans.map (·.1)).Nodup; rw [f11]; exact M.labels
        · intro lc hlc
          have hlc' : lc ∈ P.loans := by
            have : lc ∈ (P.borrowChunk c).loans := g11 ▸ hlc
            exact f11 ▸ this
          have h1 := M.loanRc lc hlc'
          have hc1 : 1 ≤ (P.loans.map (·.2)).count lc.2 :=
            List.one_le_count_iff.mpr (List.mem_map.mpr ⟨lc, hlc', rfl⟩)
          have hne1 : lc.2 ≠ c := by intro e; rw [e] at hc1; omega
          have hne2 : lc.2 ≠ old := by
            intro e
            have := M.rcEq old
            rw [e] at h1 hc1
            omega
          rw [hrc]; simp [hne1, hne2, h1]
        · rw [g7]
          show (rest ++ [c]).Nodup
          rw [List.nodup_append]
          refine ⟨hnd'.2, by simp, ?_⟩
          intro a ha b hb' e; simp at hb'; subst hb'; subst e; exact hcr ha
        · obtain ⟨fr, rr, e⟩ := hrel
          obtain ⟨fb, rb, eb⟩ := hb
          rw [e, eb]
          exact ⟨fr, rr, rest ++ [c], rfl⟩
    · rw [if_neg hfull]
      rw [f7] at hfull ⊢
      refine ⟨⟨⟨hfrB.rcLen, hfrB.freeNodup, hfrB.freeRc, hfrB.rcFree⟩, ?_, ?_, ?_, ?_, ?_, ?_, fun h => (by cases h), ?_⟩, ?_⟩
      · show (P.borrowChunk c).n = cfg.nChunks (P.borrowChunk c).maxLoans
        rw [f5, f4]; exact M.nEq
      · intro x
        show (P.borrowChunk c).rc.getD x 0 = _ + ((P.borrowChunk c).loans.map (·.2)).count x + (P.hist ++ [c]).count x +
          slotSum w p (P.borrowChunk c).conns x
        rw [hrcB, f11, f8]
        have := M.rcEq x
        simp only [List.count_cons, List.count_nil, List.count_append] at this ⊢
        by_cases hxc : x = c
        · subst hxc; simp at *; omega
        · have h2 : ¬ c = x := fun e => hxc e.symm
          simp [hxc, h2] at *; omega
      · show (P.borrowChunk c).loanCnt = (P.borrowChunk c).loans.length + _
        rw [f6, f11]; exact M.loanCnt
      · show (P.hist ++ [c]).length ≤ _
        simp; omega
      · show ((P.borrowChunk c).loans.map (·.1)).Nodup; rw [f11]; exact M.labels
      · intro lc hlc
        have hlc' : lc ∈ P.loans := f11 ▸ hlc
        have h1 := M.loanRc lc hlc'
        have hc1 : 1 ≤ (P.loans.map (·.2)).count lc.2 :=
          List.one_le_count_iff.mpr (List.mem_map.mpr ⟨lc, hlc', rfl⟩)
        have hne1 : lc.2 ≠ c := by intro e; rw [e] at hc1; omega
        show (P.borrowChunk c).rc.getD lc.2 0 = 1
        rw [hrcB]; simp [hne1, h1]
      · show (P.hist ++ [c]).Nodup
        rw [List.nodup_append]
        refine ⟨M.histNodup, by simp, ?_⟩
        intro a ha b hb' e; simp at hb'; subst hb'; subst e; exact hcnh ha
      · obtain ⟨fb, rb, eb⟩ := hb
        rw [eb]
        exact ⟨fb, rb, P.hist ++ [c], rfl⟩

end Iox2.PubSub.C08
