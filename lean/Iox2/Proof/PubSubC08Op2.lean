/-
C08 helper: the API operations preserve the invariant (part 2: loan).
-/
import Iox2.Proof.PubSubC08Op1
set_option linter.unusedSimpArgs false
set_option linter.unusedVariables false
namespace Iox2.PubSub.C08
open Iox2.PubSub
open Iox2.C16.SlotMapP (abs)
attribute [-simp] List.getD_eq_getElem?_getD

/-- the state after `retrieveReturned`, as far as a loan is concerned -/
theorem after_retrieve {cfg : Cfg} (hpre : cfg.prealloc = none) {w : World} (h : Inv cfg w) {p : Nat} {P : Pub} (hp : getP w p = some P)
    (hal : P.alive = true) :
    Inv cfg (retrieveReturned w p) ∧
    ∃ P', getP (retrieveReturned w p) p = some P' ∧ PoolEq P P' ∧ P'.maxLoans ≤ P'.free.length + P'.loans.length := by
  have h1 := (retrieveReturned_inv (h.toP p) p (fun hne => absurd rfl hne)).toInv
  obtain ⟨_, s2, _, s4⟩ := retrieveReturned_shape w p
  obtain ⟨P', hp', e⟩ := s2 P hp
  refine ⟨h1, P', hp', e, ?_⟩
  apply free_bound hpre h1 hp' (e.sim.alive.trans hal)
  intro s c hs hc
  obtain ⟨c0, hc0, _, k2, _⟩ := s4 p s c hc
  exact k2 P rfl hp (by rw [← e.sim.conns]; exact hs)

theorem step_loan {cfg : Cfg} (hpre : cfg.prealloc = none) {w : World} (h : Inv cfg w) (p l : Nat) :
    Inv cfg (step w (.loan p l)).1 ∧
    (step w (.loan p l)).2 ≠ "err:OutOfMemory" ∧
    (w.panicked = false → (step w (.loan p l)).1.panicked = false) ∧
    (∀ P, getP w p = some P → P.alive = true → (∀ lc ∈ P.loans, lc.1 ≠ l) →
      P.loanCnt = P.loans.length ∧
      ((step w (.loan p l)).2 = "ok" ↔ P.loans.length < P.maxLoans) ∧
      ((step w (.loan p l)).2 ≠ "ok" → (step w (.loan p l)).2 = "err:ExceedsMaxLoans" ∧
        ∃ P', getP (step w (.loan p l)).1 p = some P' ∧ P'.loans = P.loans ∧ P'.loanCnt = P.loanCnt)) := by
  simp only [step]
  cases hp : getP w p with
  | none => exact ⟨h, (by first | decide | (dsimp only; decide)), fun hp => hp, fun P hP => by cases hP⟩
  | some P0 =>
    dsimp only
    by_cases hal : P0.alive = true
    case neg =>
      have : (!P0.alive) = true := by simpa using hal
      rw [if_pos this]
      exact ⟨h, (by first | decide | (dsimp only; decide)), fun hp => hp, fun P hP ha => by cases hP; exact absurd ha hal⟩
    have : ¬ ((!P0.alive) = true) := by simp [hal]
    rw [if_neg this]
    cases hfind : P0.loans.find? (·.1 = l) with
    | some lc =>
      simp only [Option.isSome_some, if_true]
      refine ⟨h, (by first | decide | (dsimp only; decide)), fun hp => hp, fun P hP ha hfresh => ?_⟩
      cases hP
      obtain ⟨m1, m2⟩ := find_some_mem hfind
      exact absurd m2 (hfresh lc m1)
    | none =>
      simp only [Option.isSome_none, Bool.false_eq_true, if_false]
      obtain ⟨h1, P, hp1, epool, hbound⟩ := after_retrieve hpre h hp hal
      have M0 := (h.p p P0 hp).2 hal
      obtain ⟨f1, f2, f3, f4, f5, f6, f7, f8, f9, f10, f11, f12, f13, f14, f15⟩ := epool.fields
      have hal1 : P.alive = true := f1.trans hal
      have M := (h1.p p P hp1).2 hal1
      have hcnt : P.loanCnt = P.loans.length := by have := M.loanCnt; simpa using this
      have hcnt0 : P0.loanCnt = P0.loans.length := by have := M0.loanCnt; simpa using this
      have hnp1 : (retrieveReturned w p).panicked = w.panicked := (retrieveReturned_P w p).frame.2.2.2.2.1
      rw [hp1]
      dsimp only
      by_cases hlim : P.loanCnt ≥ P.maxLoans
      · rw [if_pos hlim]
        refine ⟨h1, (by first | decide | (dsimp only; decide)), fun hp => by rw [hnp1]; exact hp, fun P' hP' _ _ => ?_⟩
        cases hP'
        refine ⟨hcnt0, ⟨fun e => absurd e (by first | decide | (dsimp only; decide)), fun hlt => ?_⟩, fun _ => ⟨rfl, P, hp1, f11, f6⟩⟩
        rw [hcnt, f11, f4] at hlim; omega
      · rw [if_neg hlim]
        cases hfree : P.free with
        | nil =>
          exfalso
          rw [hfree] at hbound
          simp at hbound; omega
        | cons c rest =>
          dsimp only
          have hc0 : P.rc.getD c 0 = 0 := (M.fr.freeRc c (by rw [hfree]; simp)).2
          have : ¬ (P.rc.getD c 0 ≠ 0) := by simp [hc0]
          rw [if_neg this]
          have hfresh1 : ∀ lc ∈ P.loans, lc.1 ≠ l := by rw [f11]; exact find_none_not_mem hfind
          have M' := M.loan hfree l hfresh1
          refine ⟨?_, (by first | decide | (dsimp only; decide)), fun hp => by show (retrieveReturned w p).panicked = false; rw [hnp1]; exact hp,
            fun P' hP' _ _ => ?_⟩
          · exact ((h1.toP p).setP_only hp1 { P with free := rest, rc := P.rc.set c 1, loanCnt := P.loanCnt + 1, loans := P.loans ++ [(l, c)] }
              ⟨rfl, rfl, rfl, rfl, rfl⟩ (fun hne => absurd rfl hne) (fun _ => by simpa using M')).toInv
          · cases hP'
            refine ⟨hcnt0, ⟨fun _ => ?_, fun _ => rfl⟩, fun hne => absurd rfl hne⟩
            rw [hcnt, f11, f4] at hlim; omega

end Iox2.PubSub.C08
