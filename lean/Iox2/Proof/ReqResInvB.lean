/-
Third part of the state invariant of the request-response model: the response streams.
For every (server, request) pair the responses keep their send order (`gSeq`) on the way through the
channel queue into the received-log of the pending response.  `InvB` is a field of `Inv`.
-/
import Iox2.Proof.ReqResInvX
namespace Iox2.ReqRes

/-- the response `m` answers request `(c, v)` -/
def Msg.forReq (m : Msg) (c v : Nat) : Prop := m.gClient = c ∧ m.rid = v

instance (m : Msg) (c v : Nat) : Decidable (m.forReq c v) := by unfold Msg.forReq; exact inferInstance

/-- the `gSeq` numbers of the responses for request `(c, v)` in a queue -/
def seqsOf (l : List Entry) (c v : Nat) : List Nat := (l.filter (fun e => e.msg.forReq c v)).map (·.msg.gSeq)

/-- the `gSeq` numbers of the responses of server `s` for a request of client `c` in a received-log -/
def recvSeqs (l : List Msg) (s c : Nat) : List Nat := (l.filter (fun m => m.server = s ∧ m.gClient = c)).map (·.gSeq)

structure InvB (w : World) : Prop where
  /-- a queued response names the server at the sending end; that server has handed out the request it answers -/
  b0 : ∀ (f t : Pid) (conn : Conn) (ch : Nat) (x : Chan) (e : Entry), getConn w f t = some conn → conn.chans[ch]? = some x →
        e ∈ x.sub → t.srv = false →
        f.srv = true ∧ e.msg.server = f.n ∧ ∃ V, getSv w f.n = some V ∧ (e.msg.gClient, e.msg.rid) ∈ V.gRecvReq
  /-- within a channel the responses for one request are in send order -/
  b1 : ∀ (f t : Pid) (conn : Conn) (ch : Nat) (x : Chan) (c v : Nat), getConn w f t = some conn → conn.chans[ch]? = some x →
        t.srv = false → (seqsOf x.sub c v).Pairwise (· < ·)
  /-- a received response names a server that has handed out the request it answers -/
  g2 : ∀ c C (P : Pending) (m : Msg), getCl w c = some C → P ∈ C.pendings → m ∈ P.gRecv →
        ∃ V, getSv w m.server = some V ∧ (m.gClient, m.rid) ∈ V.gRecvReq
  /-- (b) the responses of one server for a request of one client, as received through a pending response, are in send order -/
  g3 : ∀ c C (P : Pending) (s c' : Nat), getCl w c = some C → P ∈ C.pendings → (recvSeqs P.gRecv s c').Pairwise (· < ·)
  /-- what was received is older than what is still queued for the same request in the pending response's channel -/
  b2 : ∀ c C (P : Pending) (m : Msg) (conn : Conn) (x : Chan) (e : Entry), getCl w c = some C → P ∈ C.pendings → m ∈ P.gRecv →
        getConn w (sid m.server) (cid c) = some conn → conn.chans[P.channel]? = some x → e ∈ x.sub →
        e.msg.forReq m.gClient m.rid → m.gSeq < e.msg.gSeq
  /-- the active requests of a server stem from pairwise different requests, all handed out by it -/
  u1 : ∀ s V, getSv w s = some V → V.actives.Pairwise (fun a b => ¬ (a.msg.client = b.msg.client ∧ a.msg.rid = b.msg.rid))
  u2 : ∀ s V (A : Active), getSv w s = some V → A ∈ V.actives → (A.msg.client, A.msg.rid) ∈ V.gRecvReq
  /-- the response counter of an active request is above every response sent for its request by this server:
  queued ... -/
  b3 : ∀ s V (A : Active) (t : Pid) (conn : Conn) (ch : Nat) (x : Chan) (e : Entry), getSv w s = some V → A ∈ V.actives →
        getConn w (sid s) t = some conn → conn.chans[ch]? = some x → e ∈ x.sub →
        e.msg.forReq A.msg.client A.msg.rid → e.msg.gSeq < A.gSent
  /-- ... and received -/
  b4 : ∀ s V (A : Active) c C (P : Pending) (m : Msg), getSv w s = some V → A ∈ V.actives → getCl w c = some C →
        P ∈ C.pendings → m ∈ P.gRecv → m.server = s → m.forReq A.msg.client A.msg.rid → m.gSeq < A.gSent
  /-- (e) no queue outgrows the buffer size its connection was created with -/
  q1 : ∀ (f t : Pid) (conn : Conn) (ch : Nat) (x : Chan), getConn w f t = some conn → conn.chans[ch]? = some x →
        x.sub.length ≤ max conn.cap 1

theorem seqsOf_suffix {l l' : List Entry} (h : l' <:+ l) (c v : Nat) : (seqsOf l' c v).Sublist (seqsOf l c v) :=
  (h.sublist.filter _).map _

/-- housekeeping (see `Hk`) -/
theorem InvB.hk {w w' : World} {me : Pid} (hI : InvB w) (h : Hk me w w') : InvB w' := by
  have hcl : ∀ c, getCl w' c = getCl w c := h.getCl_eq
  have hsv : ∀ s, getSv w' s = getSv w s := h.getSv_eq
  have hconn : ∀ (f t : Pid) (c' : Conn) (ch : Nat) (x' : Chan), getConn w' f t = some c' → c'.chans[ch]? = some x' →
      (∃ c x, getConn w f t = some c ∧ c.chans[ch]? = some x ∧ x'.sub <:+ x.sub) ∨ x'.sub = [] := by
    intro f t c' ch x' hc hx
    rcases h.conns f t c' hc with ⟨c, hc0, l⟩ | fr
    · obtain ⟨x, hx0, l0⟩ := l.1 ch x' hx
      exact Or.inl ⟨c, x, hc0, hx0, l0.2⟩
    · exact Or.inr (fr ch x' hx).1
  refine ⟨?_, ?_, ?_, ?_, ?_, ?_, ?_, ?_, ?_, ?_⟩
  rotate_left 9
  · intro f t conn ch x hc hx
    rcases h.conns f t conn hc with ⟨c0, hc0, l⟩ | fr
    · obtain ⟨x0, hx0, l0⟩ := l.1 ch x hx
      rw [l.2.1]
      exact Nat.le_trans l0.2.length_le (hI.q1 f t c0 ch x0 hc0 hx0)
    · rw [(fr ch x hx).1]; simp
  · intro f t conn ch x e hc hx he ht
    simp only [hsv]
    rcases hconn f t conn ch x hc hx with ⟨c0, x0, hc0, hx0, hsub⟩ | hnil
    · exact hI.b0 f t c0 ch x0 e hc0 hx0 (hsub.subset he) ht
    · rw [hnil] at he; cases he
  · intro f t conn ch x c v hc hx ht
    rcases hconn f t conn ch x hc hx with ⟨c0, x0, hc0, hx0, hsub⟩ | hnil
    · exact (hI.b1 f t c0 ch x0 c v hc0 hx0 ht).sublist (seqsOf_suffix hsub c v)
    · rw [hnil]; exact List.Pairwise.nil
  · intro c C P m hC; rw [hcl] at hC; simp only [hsv]; exact hI.g2 c C P m hC
  · intro c C P s c' hC; rw [hcl] at hC; exact hI.g3 c C P s c' hC
  · intro c C P m conn x e hC hP hm hc hx he hf
    rw [hcl] at hC
    rcases hconn _ _ conn _ x hc hx with ⟨c0, x0, hc0, hx0, hsub⟩ | hnil
    · exact hI.b2 c C P m c0 x0 e hC hP hm hc0 hx0 (hsub.subset he) hf
    · rw [hnil] at he; cases he
  · intro s V hV; rw [hsv] at hV; exact hI.u1 s V hV
  · intro s V A hV; rw [hsv] at hV; exact hI.u2 s V A hV
  · intro s V A t conn ch x e hV hA hc hx he hf
    rw [hsv] at hV
    rcases hconn _ _ conn ch x hc hx with ⟨c0, x0, hc0, hx0, hsub⟩ | hnil
    · exact hI.b3 s V A t c0 ch x0 e hV hA hc0 hx0 (hsub.subset he) hf
    · rw [hnil] at he; cases he
  · intro s V A c C P m hV hA hC; rw [hsv] at hV; rw [hcl] at hC; exact hI.b4 s V A c C P m hV hA hC

theorem InvB.of_core {w w' : World} (hI : InvB w) (h4 : w'.clients = w.clients) (h5 : w'.servers = w.servers)
    (h6 : w'.conns = w.conns) : InvB w' := by
  have hcl : ∀ c, getCl w' c = getCl w c := fun c => by unfold getCl; rw [h4]
  have hsv : ∀ s, getSv w' s = getSv w s := fun c => by unfold getSv; rw [h5]
  have hco : ∀ f t, getConn w' f t = getConn w f t := fun f t => by unfold getConn; rw [h6]
  refine ⟨?_, ?_, ?_, ?_, ?_, ?_, ?_, ?_, ?_, fun f t conn ch x hc => hI.q1 f t conn ch x (by rw [← hco]; exact hc)⟩
  · intro f t conn ch x e hc; rw [hco] at hc; simp only [hsv]; exact hI.b0 f t conn ch x e hc
  · intro f t conn ch x c v hc; rw [hco] at hc; exact hI.b1 f t conn ch x c v hc
  · intro c C P m hC; rw [hcl] at hC; simp only [hsv]; exact hI.g2 c C P m hC
  · intro c C P s c' hC; rw [hcl] at hC; exact hI.g3 c C P s c' hC
  · intro c C P m conn x e hC hP hm hc; rw [hcl] at hC; rw [hco] at hc; exact hI.b2 c C P m conn x e hC hP hm hc
  · intro s V hV; rw [hsv] at hV; exact hI.u1 s V hV
  · intro s V A hV; rw [hsv] at hV; exact hI.u2 s V A hV
  · intro s V A t conn ch x e hV hA hc; rw [hsv] at hV; rw [hco] at hc; exact hI.b3 s V A t conn ch x e hV hA hc
  · intro s V A c C P m hV hA hC; rw [hsv] at hV; rw [hcl] at hC; exact hI.b4 s V A c C P m hV hA hC

/-- a client record is written; the clauses about received-logs are supplied for the new record -/
theorem InvB.setCl {w : World} (hI : InvB w) {c : Nat} {C' : Client}
    (h2 : ∀ P ∈ C'.pendings, ∀ m ∈ P.gRecv, ∃ V, getSv w m.server = some V ∧ (m.gClient, m.rid) ∈ V.gRecvReq)
    (h3 : ∀ P ∈ C'.pendings, ∀ s c', (recvSeqs P.gRecv s c').Pairwise (· < ·))
    (hb2 : ∀ P ∈ C'.pendings, ∀ m ∈ P.gRecv, ∀ (conn : Conn) (x : Chan) (e : Entry), getConn w (sid m.server) (cid c) = some conn →
      conn.chans[P.channel]? = some x → e ∈ x.sub → e.msg.forReq m.gClient m.rid → m.gSeq < e.msg.gSeq)
    (hb4 : ∀ P ∈ C'.pendings, ∀ m ∈ P.gRecv, ∀ V (A : Active), getSv w m.server = some V → A ∈ V.actives →
      m.forReq A.msg.client A.msg.rid → m.gSeq < A.gSent) :
    InvB (ReqRes.setCl w c C') := by
  have hcl : ∀ c', getCl (ReqRes.setCl w c C') c' = if c' = c then some C' else getCl w c' := fun _ => getCl_setCl _ _ _ _
  refine ⟨hI.b0, hI.b1, ?_, ?_, ?_, hI.u1, hI.u2, hI.b3, ?_, hI.q1⟩
  · intro c' X P m hX hP hm
    rw [hcl] at hX; split at hX
    · cases hX; exact h2 P hP m hm
    · exact hI.g2 c' X P m hX hP hm
  · intro c' X P s c'' hX hP
    rw [hcl] at hX; split at hX
    · cases hX; exact h3 P hP s c''
    · exact hI.g3 c' X P s c'' hX hP
  · intro c' X P m conn x e hX hP hm hc hx he hf
    rw [hcl] at hX; split at hX
    · next hcc => cases hX; subst hcc; exact hb2 P hP m hm conn x e hc hx he hf
    · exact hI.b2 c' X P m conn x e hX hP hm hc hx he hf
  · intro s V A c' X P m hV hA hX hP hm hs hf
    rw [hcl] at hX; split at hX
    · cases hX; subst hs; exact hb4 P hP m hm V A hV hA hf
    · exact hI.b4 s V A c' X P m hV hA hX hP hm hs hf

/-- the pending responses of the new record are pending responses of the old one (same channel, same
received-log) or have received nothing yet -/
theorem InvB.setCl_sub {w : World} (hI : InvB w) {c : Nat} {C C' : Client} (hC : getCl w c = some C)
    (h : ∀ P' ∈ C'.pendings, (∃ P ∈ C.pendings, P'.channel = P.channel ∧ P'.gRecv = P.gRecv) ∨ P'.gRecv = []) :
    InvB (ReqRes.setCl w c C') := by
  refine hI.setCl ?_ ?_ ?_ ?_
  · intro P' hP' m hm
    rcases h P' hP' with ⟨P, hP, _, e2⟩ | e
    · exact hI.g2 c C P m hC hP (e2 ▸ hm)
    · rw [e] at hm; cases hm
  · intro P' hP' s c'
    rcases h P' hP' with ⟨P, hP, _, e2⟩ | e
    · rw [e2]; exact hI.g3 c C P s c' hC hP
    · rw [e]; exact List.Pairwise.nil
  · intro P' hP' m hm conn x e hc hx he hf
    rcases h P' hP' with ⟨P, hP, e1, e2⟩ | e0
    · exact hI.b2 c C P m conn x e hC hP (e2 ▸ hm) hc (e1 ▸ hx) he hf
    · rw [e0] at hm; cases hm
  · intro P' hP' m hm V A hV hA hf
    rcases h P' hP' with ⟨P, hP, _, e2⟩ | e0
    · exact hI.b4 _ V A c C P m hV hA hC hP (e2 ▸ hm) rfl hf
    · rw [e0] at hm; cases hm

/-- a server record is written (possibly together with a new server registry): the request log only
grows, the clauses about active requests are supplied for the new record -/
theorem InvB.setSvReg {w : World} (hI : InvB w) (s : Nat) (V' : Server) (reg : Iox2.PubSub.Reg (Nat × Nat))
    (hlog : ∀ V, getSv w s = some V → ∀ x ∈ V.gRecvReq, x ∈ V'.gRecvReq)
    (hu1 : V'.actives.Pairwise (fun a b => ¬ (a.msg.client = b.msg.client ∧ a.msg.rid = b.msg.rid)))
    (hu2 : ∀ A ∈ V'.actives, (A.msg.client, A.msg.rid) ∈ V'.gRecvReq)
    (hb3 : ∀ A ∈ V'.actives, ∀ (t : Pid) (conn : Conn) (ch : Nat) (x : Chan) (e : Entry), getConn w (sid s) t = some conn →
      conn.chans[ch]? = some x → e ∈ x.sub → e.msg.forReq A.msg.client A.msg.rid → e.msg.gSeq < A.gSent)
    (hb4 : ∀ A ∈ V'.actives, ∀ c C (P : Pending) (m : Msg), getCl w c = some C → P ∈ C.pendings → m ∈ P.gRecv →
      m.server = s → m.forReq A.msg.client A.msg.rid → m.gSeq < A.gSent) :
    InvB { ReqRes.setSv w s V' with serverReg := reg } := by
  have hsv : ∀ s', getSv { ReqRes.setSv w s V' with serverReg := reg } s' = if s' = s then some V' else getSv w s' :=
    fun _ => getSv_setSv _ _ _ _
  refine ⟨?_, hI.b1, ?_, hI.g3, hI.b2, ?_, ?_, ?_, ?_, hI.q1⟩
  · intro f t conn ch x e hc hx he ht
    obtain ⟨h1, h2, V, hV, hm⟩ := hI.b0 f t conn ch x e hc hx he ht
    refine ⟨h1, h2, ?_⟩
    rw [hsv]
    by_cases hfs : f.n = s
    · simp only [hfs, if_true]; exact ⟨V', rfl, hlog V (hfs ▸ hV) _ hm⟩
    · simp only [hfs, if_false]; exact ⟨V, hV, hm⟩
  · intro c C P m hC hP hm
    obtain ⟨V, hV, hmem⟩ := hI.g2 c C P m hC hP hm
    rw [hsv]
    by_cases hfs : m.server = s
    · simp only [hfs, if_true]; exact ⟨V', rfl, hlog V (hfs ▸ hV) _ hmem⟩
    · simp only [hfs, if_false]; exact ⟨V, hV, hmem⟩
  · intro s' X hX
    rw [hsv] at hX; split at hX
    · cases hX; exact hu1
    · exact hI.u1 s' X hX
  · intro s' X A hX hA
    rw [hsv] at hX; split at hX
    · cases hX; exact hu2 A hA
    · exact hI.u2 s' X A hX hA
  · intro s' X A t conn ch x e hX hA hc hx he hf
    rw [hsv] at hX; split at hX
    · next hss => cases hX; subst hss; exact hb3 A hA t conn ch x e hc hx he hf
    · exact hI.b3 s' X A t conn ch x e hX hA hc hx he hf
  · intro s' X A c C P m hX hA hC hP hm hs hf
    rw [hsv] at hX; split at hX
    · next hss => cases hX; subst hss; exact hb4 A hA c C P m hC hP hm hs hf
    · exact hI.b4 s' X A c C P m hX hA hC hP hm hs hf

theorem InvB.setSv {w : World} (hI : InvB w) (s : Nat) (V' : Server)
    (hlog : ∀ V, getSv w s = some V → ∀ x ∈ V.gRecvReq, x ∈ V'.gRecvReq)
    (hu1 : V'.actives.Pairwise (fun a b => ¬ (a.msg.client = b.msg.client ∧ a.msg.rid = b.msg.rid)))
    (hu2 : ∀ A ∈ V'.actives, (A.msg.client, A.msg.rid) ∈ V'.gRecvReq)
    (hb3 : ∀ A ∈ V'.actives, ∀ (t : Pid) (conn : Conn) (ch : Nat) (x : Chan) (e : Entry), getConn w (sid s) t = some conn →
      conn.chans[ch]? = some x → e ∈ x.sub → e.msg.forReq A.msg.client A.msg.rid → e.msg.gSeq < A.gSent)
    (hb4 : ∀ A ∈ V'.actives, ∀ c C (P : Pending) (m : Msg), getCl w c = some C → P ∈ C.pendings → m ∈ P.gRecv →
      m.server = s → m.forReq A.msg.client A.msg.rid → m.gSeq < A.gSent) :
    InvB (ReqRes.setSv w s V') :=
  hI.setSvReg s V' w.serverReg hlog hu1 hu2 hb3 hb4

/-- the active requests of the new record are active requests of the old one with the same request and a
response counter that did not go back; the log is the same -/
theorem InvB.setSv_mono {w : World} (hI : InvB w) {s : Nat} {V V' : Server} (hV : getSv w s = some V)
    (reg : Iox2.PubSub.Reg (Nat × Nat))
    (hlog : V'.gRecvReq = V.gRecvReq)
    (hu1 : V'.actives.Pairwise (fun a b => ¬ (a.msg.client = b.msg.client ∧ a.msg.rid = b.msg.rid)))
    (h : ∀ A' ∈ V'.actives, ∃ A ∈ V.actives, A'.msg = A.msg ∧ A.gSent ≤ A'.gSent) :
    InvB { ReqRes.setSv w s V' with serverReg := reg } := by
  refine hI.setSvReg s V' reg (fun V0 hV0 x hx => by rw [hV] at hV0; cases hV0; rw [hlog]; exact hx) hu1 ?_ ?_ ?_
  · intro A' hA'
    obtain ⟨A, hA, e1, _⟩ := h A' hA'
    rw [e1, hlog]; exact hI.u2 s V A hV hA
  · intro A' hA' t conn ch x e hc hx he hf
    obtain ⟨A, hA, e1, e2⟩ := h A' hA'
    rw [e1] at hf
    exact Nat.lt_of_lt_of_le (hI.b3 s V A t conn ch x e hV hA hc hx he hf) e2
  · intro A' hA' c C P m hC hP hm hs hf
    obtain ⟨A, hA, e1, e2⟩ := h A' hA'
    rw [e1] at hf
    exact Nat.lt_of_lt_of_le (hI.b4 s V A c C P m hV hA hC hP hm hs hf) e2

theorem InvB.mapChanAt {w : World} (hI : InvB w) (f t : Pid) (ch : Nat) (g : Chan → Chan) (hg : ∀ x, (g x).sub = x.sub) :
    InvB (ReqRes.mapChanAt w f t ch g) := by
  have hconn : ∀ (f' t' : Pid) (c' : Conn) (j : Nat) (x' : Chan), getConn (ReqRes.mapChanAt w f t ch g) f' t' = some c' →
      c'.chans[j]? = some x' → ∃ c x, getConn w f' t' = some c ∧ c.chans[j]? = some x ∧ x'.sub = x.sub := by
    intro f' t' c' j x' hc hx
    obtain ⟨c0, hc0, k⟩ := mapChanAt_conn w f t ch g f' t' c' hc
    obtain ⟨x, hx0, hor⟩ := k j x' hx
    refine ⟨c0, x, hc0, hx0, ?_⟩
    rcases hor with rfl | ⟨_, _, _, rfl⟩
    · rfl
    · exact hg x
  refine ⟨?_, ?_, ?_, ?_, ?_, ?_, ?_, ?_, ?_, ?_⟩
  rotate_left 9
  · intro f' t' conn j x hc hx
    obtain ⟨c0, x0, hc0, hx0, hs⟩ := hconn f' t' conn j x hc hx
    obtain ⟨c1, hc1, hcap⟩ := mapChanAt_cap w f t ch g f' t' conn hc
    rw [hc0] at hc1; cases hc1
    rw [hs, hcap]; exact hI.q1 f' t' c0 j x0 hc0 hx0
  · intro f' t' conn j x e hc hx he ht
    obtain ⟨c0, x0, hc0, hx0, hs⟩ := hconn f' t' conn j x hc hx
    simp only [getSv_mapChanAt]
    exact hI.b0 f' t' c0 j x0 e hc0 hx0 (hs ▸ he) ht
  · intro f' t' conn j x c v hc hx ht
    obtain ⟨c0, x0, hc0, hx0, hs⟩ := hconn f' t' conn j x hc hx
    rw [hs]; exact hI.b1 f' t' c0 j x0 c v hc0 hx0 ht
  · intro c C P m hC; rw [getCl_mapChanAt] at hC; simp only [getSv_mapChanAt]; exact hI.g2 c C P m hC
  · intro c C P s c' hC; rw [getCl_mapChanAt] at hC; exact hI.g3 c C P s c' hC
  · intro c C P m conn x e hC hP hm hc hx he hf
    rw [getCl_mapChanAt] at hC
    obtain ⟨c0, x0, hc0, hx0, hs⟩ := hconn _ _ conn _ x hc hx
    exact hI.b2 c C P m c0 x0 e hC hP hm hc0 hx0 (hs ▸ he) hf
  · intro s V hV; rw [getSv_mapChanAt] at hV; exact hI.u1 s V hV
  · intro s V A hV; rw [getSv_mapChanAt] at hV; exact hI.u2 s V A hV
  · intro s V A t' conn j x e hV hA hc hx he hf
    rw [getSv_mapChanAt] at hV
    obtain ⟨c0, x0, hc0, hx0, hs⟩ := hconn _ _ conn j x hc hx
    exact hI.b3 s V A t' c0 j x0 e hV hA hc0 hx0 (hs ▸ he) hf
  · intro s V A c C P m hV hA hC
    rw [getSv_mapChanAt] at hV; rw [getCl_mapChanAt] at hC; exact hI.b4 s V A c C P m hV hA hC

theorem seqsOf_append (l : List Entry) (e : Entry) (c v : Nat) :
    seqsOf (l ++ [e]) c v = seqsOf l c v ++ (if e.msg.forReq c v then [e.msg.gSeq] else []) := by
  unfold seqsOf
  rw [List.filter_append, List.map_append]
  congr 1
  simp only [List.filter_cons, List.filter_nil]
  split <;> simp_all

/-- `deliverTo`: the clauses a pushed response must satisfy -/
theorem InvB.deliverTo {w : World} (hI : InvB w) (p t : Pid) (ch : Nat) (e : Entry)
    (hb0 : t.srv = false → p.srv = true ∧ e.msg.server = p.n ∧ ∃ V, getSv w p.n = some V ∧ (e.msg.gClient, e.msg.rid) ∈ V.gRecvReq)
    (hb1 : t.srv = false → ∀ (conn : Conn) (x : Chan) (e' : Entry), getConn w p t = some conn → conn.chans[ch]? = some x →
      e' ∈ x.sub → e'.msg.forReq e.msg.gClient e.msg.rid → e'.msg.gSeq < e.msg.gSeq)
    (hb2 : ∀ c C (P : Pending) (m : Msg), t = cid c → getCl w c = some C → P ∈ C.pendings → m ∈ P.gRecv → p = sid m.server →
      e.msg.forReq m.gClient m.rid → m.gSeq < e.msg.gSeq)
    (hb3 : ∀ s V (A : Active), p = sid s → getSv w s = some V → A ∈ V.actives → e.msg.forReq A.msg.client A.msg.rid →
      e.msg.gSeq < A.gSent) :
    InvB (ReqRes.deliverTo w p t ch e).1 := by
  obtain ⟨_, _, k3, k4, _, _, _⟩ := deliverTo_core w p t ch e
  have hconn := deliverTo_conn w p t ch e
  have hcl : ∀ c, getCl (ReqRes.deliverTo w p t ch e).1 c = getCl w c := fun c => by unfold getCl; rw [k3]
  have hsv : ∀ c, getSv (ReqRes.deliverTo w p t ch e).1 c = getSv w c := fun c => by unfold getSv; rw [k4]
  refine ⟨?_, ?_, ?_, ?_, ?_, ?_, ?_, ?_, ?_, ?_⟩
  rotate_left 9
  · intro f' t' conn j x' hc hx
    obtain ⟨c0, hc0, hcap, k⟩ := deliverTo_len w p t ch e f' t' conn hc
    obtain ⟨x, hx0, hor⟩ := k j x' hx
    rw [hcap]
    rcases hor with h | h
    · rw [h]; exact hI.q1 f' t' c0 j x hc0 hx0
    · exact h (hI.q1 f' t' c0 j x hc0 hx0)
  · intro f' t' conn j x' e' hc hx he ht
    obtain ⟨c0, hc0, k⟩ := hconn f' t' conn hc
    obtain ⟨x, hx0, _, hor⟩ := k j x' hx
    simp only [hsv]
    rcases hor with h | ⟨rfl, rfl, rfl, l, hl, hs⟩
    · exact hI.b0 f' t' c0 j x e' hc0 hx0 (h ▸ he) ht
    · rw [hs] at he
      rcases List.mem_append.mp he with h | h
      · exact hI.b0 _ _ c0 _ x e' hc0 hx0 (hl.subset h) ht
      · simp only [List.mem_singleton] at h; subst h; exact hb0 ht
  · intro f' t' conn j x' c v hc hx ht
    obtain ⟨c0, hc0, k⟩ := hconn f' t' conn hc
    obtain ⟨x, hx0, _, hor⟩ := k j x' hx
    rcases hor with h | ⟨rfl, rfl, rfl, l, hl, hs⟩
    · rw [h]; exact hI.b1 f' t' c0 j x c v hc0 hx0 ht
    · rw [hs, seqsOf_append, List.pairwise_append]
      refine ⟨(hI.b1 _ _ c0 _ x c v hc0 hx0 ht).sublist (seqsOf_suffix hl c v), ?_, ?_⟩
      · split <;> simp
      · intro a ha b hb
        split at hb
        · next hfor =>
          simp only [List.mem_singleton] at hb; subst hb
          unfold seqsOf at ha
          obtain ⟨e', he', rfl⟩ := List.mem_map.mp ha
          obtain ⟨hm1, hm2⟩ := List.mem_filter.mp he'
          simp only [decide_eq_true_eq] at hm2
          obtain ⟨h1, h2⟩ := hfor
          exact hb1 ht c0 x e' hc0 hx0 (hl.subset hm1) (by rw [h1, h2]; exact hm2)
        · cases hb
  · intro c C P m hC; rw [hcl] at hC; simp only [hsv]; exact hI.g2 c C P m hC
  · intro c C P s c' hC; rw [hcl] at hC; exact hI.g3 c C P s c' hC
  · intro c C P m conn x' e' hC hP hm hc hx he hf
    rw [hcl] at hC
    obtain ⟨c0, hc0, k⟩ := hconn _ _ conn hc
    obtain ⟨x, hx0, _, hor⟩ := k _ x' hx
    rcases hor with h | ⟨hp, ht, _, l, hl, hs⟩
    · exact hI.b2 c C P m c0 x e' hC hP hm hc0 hx0 (h ▸ he) hf
    · rw [hs] at he
      rcases List.mem_append.mp he with h | h
      · exact hI.b2 c C P m c0 x e' hC hP hm hc0 hx0 (hl.subset h) hf
      · simp only [List.mem_singleton] at h; subst h
        exact hb2 c C P m ht.symm hC hP hm hp.symm hf
  · intro s V hV; rw [hsv] at hV; exact hI.u1 s V hV
  · intro s V A hV; rw [hsv] at hV; exact hI.u2 s V A hV
  · intro s V A t' conn j x' e' hV hA hc hx he hf
    rw [hsv] at hV
    obtain ⟨c0, hc0, k⟩ := hconn _ _ conn hc
    obtain ⟨x, hx0, _, hor⟩ := k j x' hx
    rcases hor with h | ⟨hp, _, _, l, hl, hs⟩
    · exact hI.b3 s V A t' c0 j x e' hV hA hc0 hx0 (h ▸ he) hf
    · rw [hs] at he
      rcases List.mem_append.mp he with h | h
      · exact hI.b3 s V A t' c0 j x e' hV hA hc0 hx0 (hl.subset h) hf
      · simp only [List.mem_singleton] at h; subst h
        exact hb3 s V A hp.symm hV hA hf
  · intro s V A c C P m hV hA hC
    rw [hsv] at hV; rw [hcl] at hC; exact hI.b4 s V A c C P m hV hA hC

theorem InvB.init (c : Cfg) : InvB (World.init c) := by
  have hC : ∀ p, getCl (World.init c) p = none := fun _ => rfl
  have hV : ∀ p, getSv (World.init c) p = none := fun _ => rfl
  have hN : ∀ f t, getConn (World.init c) f t = none := fun _ _ => rfl
  refine ⟨?_, ?_, ?_, ?_, ?_, ?_, ?_, ?_, ?_, fun f t conn ch x h => by rw [hN] at h; cases h⟩
  · intro f t conn ch x e h; rw [hN] at h; cases h
  · intro f t conn ch x c' v h; rw [hN] at h; cases h
  · intro p C P m h; rw [hC] at h; cases h
  · intro p C P s c' h; rw [hC] at h; cases h
  · intro p C P m conn x e h; rw [hC] at h; cases h
  · intro s V h; rw [hV] at h; cases h
  · intro s V A h; rw [hV] at h; cases h
  · intro s V A t conn ch x e h; rw [hV] at h; cases h
  · intro s V A p C P m h; rw [hV] at h; cases h

theorem InvB.clientReg {w : World} (hI : InvB w) (reg : Iox2.PubSub.Reg (Nat × Nat)) : InvB { w with clientReg := reg } :=
  ⟨hI.b0, hI.b1, hI.g2, hI.g3, hI.b2, hI.u1, hI.u2, hI.b3, hI.b4, hI.q1⟩

end Iox2.ReqRes
