/-
Layer B: `probe` (loan until refused, then give everything back) leaves the counters unchanged.
-/
import Iox2.Proof.PubSubC01B17
namespace Iox2.PubSub.C01P
open Iox2.PubSub

variable {cfg : Cfg} {w : World}

/-- everything except `rc`, `free`, `loanCnt` is unchanged -/
def ProbeSame (P P' : Pub) : Prop := P' = { P with rc := P'.rc, free := P'.free, loanCnt := P'.loanCnt }

theorem ProbeSame.refl (P : Pub) : ProbeSame P P := rfl
theorem ProbeSame.trans {P P' P'' : Pub} (a : ProbeSame P P') (b : ProbeSame P' P'') : ProbeSame P P'' := by
  unfold ProbeSame at *
  rw [b, a]

theorem probeLoans_spec (fuel : Nat) (P : Pub) (acc : List Nat) (hlen : P.rc.length = P.n) (hf : FreeOK P) :
    ∃ taken, (probeLoans P fuel acc).2.1 = acc ++ taken ∧
      P.free = taken ++ (probeLoans P fuel acc).1.free ∧
      (∀ y, (probeLoans P fuel acc).1.rc.getD y 0 = if y ∈ taken then 1 else P.rc.getD y 0) ∧
      (probeLoans P fuel acc).1.rc.length = P.n ∧ FreeOK (probeLoans P fuel acc).1 ∧
      ProbeSame P (probeLoans P fuel acc).1 := by
  induction fuel generalizing P acc with
  | zero => exact ⟨[], by simp [probeLoans], by simp [probeLoans], fun y => by simp [probeLoans], hlen, hf, rfl⟩
  | succ fuel ih =>
    unfold probeLoans
    split
    · exact ⟨[], by simp, by simp, fun y => by simp, hlen, hf, rfl⟩
    · split
      · rename_i hnil
        exact ⟨[], by simp, by simp [hnil], fun y => by simp, hlen, hf, rfl⟩
      · rename_i c rest hfree
        obtain ⟨hnd, hmem⟩ := hf
        rw [hfree] at hnd hmem
        obtain ⟨hcnot, hndr⟩ := List.nodup_cons.mp hnd
        have hcn : c < P.n := ((hmem c).mp (by simp)).1
        have hc0 : P.rc.getD c 0 = 0 := ((hmem c).mp (by simp)).2
        have hcl : c < P.rc.length := by rw [hlen]; exact hcn
        have hrcset : ∀ y, (P.rc.set c 1).getD y 0 = if y = c then 1 else P.rc.getD y 0 := by
          intro y
          rw [getD_set_nat]
          by_cases hyc : y = c
          · subst hyc; simp [hcl]
          · have : ¬ c = y := fun hh => hyc hh.symm
            simp [hyc, this]
        have hf1 : FreeOK { P with free := rest, rc := P.rc.set c 1, loanCnt := P.loanCnt + 1 } := by
          refine ⟨hndr, fun y => ?_⟩
          show y ∈ rest ↔ y < P.n ∧ (P.rc.set c 1).getD y 0 = 0
          rw [hrcset y]
          by_cases hyc : y = c
          · subst hyc
            simp only [if_true]
            constructor
            · intro hh; exact absurd hh hcnot
            · intro hh; omega
          · rw [if_neg hyc, ← hmem y]; simp [hyc]
        obtain ⟨taken, h1, h2, h3, h4, h5, h6⟩ := ih { P with free := rest, rc := P.rc.set c 1, loanCnt := P.loanCnt + 1 }
          (acc ++ [c]) (by simp [hlen]) hf1
        refine ⟨c :: taken, by rw [h1]; simp, ?_, fun y => ?_, h4, h5, ?_⟩
        · rw [hfree]
          have : rest = taken ++ (probeLoans { P with free := rest, rc := P.rc.set c 1, loanCnt := P.loanCnt + 1 } fuel (acc ++ [c])).1.free := h2
          rw [List.cons_append, ← this]
        · rw [h3 y]
          show (if y ∈ taken then 1 else (P.rc.set c 1).getD y 0) = _
          rw [hrcset y]
          by_cases hyt : y ∈ taken
          · simp [hyt]
          · by_cases hyc : y = c
            · simp [hyc]
            · simp [hyt, hyc]
        · exact ProbeSame.trans (P' := { P with free := rest, rc := P.rc.set c 1, loanCnt := P.loanCnt + 1 }) rfl h6

theorem probeRelease_spec (l : List Nat) (P : Pub) (hlen : P.rc.length = P.n) (hf : FreeOK P) (hnd : l.Nodup)
    (h1 : ∀ c ∈ l, c < P.n ∧ P.rc.getD c 0 = 1) :
    (∀ y, (probeRelease P l).rc.getD y 0 = if y ∈ l then 0 else P.rc.getD y 0) ∧
    (probeRelease P l).rc.length = P.n ∧ FreeOK (probeRelease P l) ∧ ProbeSame P (probeRelease P l) := by
  induction l generalizing P with
  | nil => exact ⟨fun y => by simp [probeRelease], hlen, hf, rfl⟩
  | cons c r ih =>
    unfold probeRelease
    rw [List.foldl_cons]
    obtain ⟨hcn, hc1⟩ := h1 c (by simp)
    obtain ⟨f1, l1, r1, o1⟩ := release_ok hlen hf hcn (by omega)
    obtain ⟨hcr, hndr⟩ := List.nodup_cons.mp hnd
    have hn : (P.releaseChunk c).n = P.n := by rw [o1]
    have := ih { P.releaseChunk c with loanCnt := P.loanCnt - 1 } (by show (P.releaseChunk c).rc.length = (P.releaseChunk c).n; rw [l1, hn])
      f1 hndr (fun y hy => by
        obtain ⟨a, b⟩ := h1 y (List.mem_cons_of_mem _ hy)
        have hyc : y ≠ c := fun hh => hcr (hh ▸ hy)
        refine ⟨by show y < (P.releaseChunk c).n; rw [hn]; exact a, ?_⟩
        show (P.releaseChunk c).rc.getD y 0 = 1
        rw [r1 y, if_neg hyc]; exact b)
    obtain ⟨a1, a2, a3, a4⟩ := this
    refine ⟨fun y => ?_, by rw [← hn]; exact a2, a3, ?_⟩
    · have := a1 y
      unfold probeRelease at this
      rw [this]
      show (if y ∈ r then 0 else (P.releaseChunk c).rc.getD y 0) = _
      rw [r1 y]
      by_cases hyr : y ∈ r
      · simp [hyr]
      · by_cases hyc : y = c
        · subst hyc
          rw [if_neg hyr, if_pos rfl, if_pos (List.mem_cons_self), hc1]
        · rw [if_neg hyr, if_neg hyc, if_neg (by simp [hyr, hyc])]
    · refine ProbeSame.trans (P' := { P.releaseChunk c with loanCnt := P.loanCnt - 1 }) ?_ a4
      unfold ProbeSame
      show _ = { P with rc := (P.releaseChunk c).rc, free := (P.releaseChunk c).free, loanCnt := P.loanCnt - 1 }
      conv => lhs; rw [o1]

theorem invB_step_probe (hA : InvA cfg none none w) (hB : InvB none w) (p : Nat) :
    InvB none (step w (.probe p)).1 := by
  rw [step_probe]
  cases hP0 : getP w p with
  | none => exact hB
  | some P0 =>
    simp only
    split
    · exact hB
    · rename_i hal
      simp only [Bool.not_eq_true', Bool.not_eq_false] at hal
      have hex0 := (hA.palive p P0 hP0 hal).1
      have h1 := invAB_retrieveReturned (fl := none) ⟨hA, hB⟩ p (fun Q hQ => by rw [hP0] at hQ; cases hQ; exact hex0)
      obtain ⟨f1, _⟩ := retrieveReturned_frame w p
      obtain ⟨P, hP, st⟩ := f1.psome p P0 hP0
      rw [hP]
      simp only
      have hex : P.ex = true := st.ex ▸ hex0
      have hB1 := h1.b
      have hlens := hB1.lens p P hP
      have hfree := hB1.free p P hP hex
      obtain ⟨taken, e1, e2, e3, e4, e5, e6⟩ := probeLoans_spec (P.n + 1) P [] hlens.1 hfree
      generalize probeLoans P (P.n + 1) [] = r at e1 e2 e3 e4 e5 e6
      obtain ⟨P1, tk, why⟩ := r
      simp only [List.nil_append] at e1 e2 e3 e4 e5 e6 ⊢
      subst e1
      have hn1 : P1.n = P.n := by rw [e6]
      have htn : tk.Nodup ∧ ∀ c ∈ tk, c ∈ P.free := by
        have := hfree.1
        rw [e2] at this
        exact ⟨(List.nodup_append.mp this).1, fun c hc => by rw [e2]; exact List.mem_append_left _ hc⟩
      obtain ⟨a1, a2, a3, a4⟩ := probeRelease_spec tk P1 (by rw [e4, hn1]) e5 htn.1 (fun c hc => by
        refine ⟨by rw [hn1]; exact ((hfree.2 c).mp (htn.2 c hc)).1, ?_⟩
        rw [e3 c, if_pos hc])
      have hsame := e6.trans a4
      generalize probeRelease P1 tk = P' at a1 a2 a3 a4 hsame
      have hrc : ∀ y, P'.rc.getD y 0 = P.rc.getD y 0 := by
        intro y
        rw [a1 y, e3 y]
        by_cases hy : y ∈ tk
        · rw [if_pos hy]; exact (((hfree.2 y).mp (htn.2 y hy)).2).symm
        · rw [if_neg hy, if_neg hy]
      have hf : P'.n = P.n ∧ P'.ex = P.ex ∧ P'.payload = P.payload ∧ P'.sent = P.sent ∧ P'.seq = P.seq ∧
          P'.chunkSeq = P.chunkSeq ∧ P'.loans = P.loans ∧ P'.hist = P.hist := by
        have b1 := congrArg Pub.n hsame
        have b2 := congrArg Pub.ex hsame
        have b3 := congrArg Pub.payload hsame
        have b4 := congrArg Pub.sent hsame
        have b5 := congrArg Pub.seq hsame
        have b6 := congrArg Pub.chunkSeq hsame
        have b7 := congrArg Pub.loans hsame
        have b8 := congrArg Pub.hist hsame
        exact ⟨b1, b2, b3, b4, b5, b6, b7, b8⟩
      obtain ⟨fn, fe, fp, fs, fq, fc, fl, fh⟩ := hf
      refine hB1.updP (fl' := none) hP hex fn (fe ▸ hex) ⟨by rw [a2, hn1, fn], by rw [fp, fn]; exact hlens.2.1,
          by rw [fc, fn]; exact hlens.2.2.1, by rw [fs, fq]; exact hlens.2.2.2⟩ a3 ?_ ?_ ?_
        (fun y fr hh => by cases hh) (fun a y fr _ => Iff.rfl) ?_
      · intro y hy
        rw [hrc y, fl, fh]; exact hB1.rc p P hP hex y hy
      · rw [fl]
        obtain ⟨b1, b2⟩ := hB1.loans p P hP hex
        exact ⟨b1, fun l y hm => by rw [hrc y]; exact b2 l y hm⟩
      · rw [fh, fp, fs, fc, fq]; exact hB1.histOk p P hP hex
      · intro cn hcn hp S hS hor ch q hmm
        rw [fp, fs, fq]
        exact hB1.ppi cn hcn P S (hp ▸ hP) hS hor ch q hmm

end Iox2.PubSub.C01P
