/-
C02 — `retrieveReturned` (drain the completion queues) preserves the invariant.
-/
import Iox2.Proof.PubSubC02Update

namespace Iox2.PubSub.C02P
open Iox2.PubSub
open Iox2.C16.SlotMapP (abs WInv)

/-! ### one entry of a completion queue -/

theorem drain_one {G : GT} {A : GA} {w : World} {p s : Nat} {P : Pub} {c : Conn} {ch : Nat}
    {r : List Nat} (hi : Inv G A w) (hP : getP w p = some P) (hC : getC w p s = some c)
    (hs : c.sAtt = true) (hcomp : c.comp = ch :: r) :
    c.used.getD ch false = true ∧
    Inv G A (setC (setP w p (P.releaseChunk ch))
      { c with comp := r, used := c.used.set ch false }) := by
  obtain ⟨hpid, hsid, hmem, hex, pa, S, hS, ct, ca⟩ := hi.sender hP hC hs
  have huniq := hi.top.conn_unique hP (s := s)
  have hchf : ch ∈ flight c S := by simp [flight, hcomp]
  have hused : c.used.getD ch false = true := (ca.used hs ch).mpr hchf
  have hchlt : ch < P.n := by rw [← ca.usedLen]; exact lt_of_getD_true hused
  have hchl : ch < c.used.length := lt_of_getD_true hused
  have hub : usedBit w p s ch = true := by rw [usedBit_of_getC hC]; exact hused
  have hnd := ca.nodup hs
  refine ⟨hused, ?_, ?_⟩
  · apply top_congr hi.top
    exact (topEq_setP hi.top.reg.nodup hP (releaseChunk_ptop P ch)).trans
      (topEq_setC (w := setP w p (P.releaseChunk ch)) (c := c) hi.top.reg.nodup hC rfl)
  · generalize hw1 : setC (setP w p (P.releaseChunk ch))
      { c with comp := r, used := c.used.set ch false } = w1
    have hgP : ∀ q, getP w1 q = if q = p then some (P.releaseChunk ch) else getP w q := by
      intro q; subst hw1; simp [hP]
    have hgC : ∀ a b, getC w1 a b =
        if a = p ∧ b = s then some { c with comp := r, used := c.used.set ch false }
        else getC w a b := by
      intro a b; subst hw1
      rw [getC_setC]
      simp only [hpid, hsid, getC_setP]
      split
      · rename_i h; rw [h.1, h.2, hC]; rfl
      · rfl
    have hgS : ∀ t, getS w1 t = getS w t := by intro t; subst hw1; rfl
    have hcfg : w1.cfg = w.cfg := by subst hw1; rfl
    have hub1 : ∀ x, usedBit w1 p s x = (c.used.set ch false).getD x false := by
      intro x; unfold usedBit; rw [hgC]; simp
    have hubo : ∀ a b x, ¬ (a = p ∧ b = s) → usedBit w1 a b x = usedBit w a b x := by
      intro a b x hab; unfold usedBit; rw [hgC]; simp [hab]
    refine ⟨?_, ?_, ?_⟩
    · -- publishers
      intro q Q hQ
      rw [hgP] at hQ
      by_cases hq : q = p
      · subst hq
        simp only [if_true, Option.some.injEq] at hQ
        subst hQ
        refine ⟨fun _ => ?_, fun h => by rw [releaseChunk_ex, hex] at h; cases h⟩
        have hcc := connCnt_pos (w := w) (p := q) (c := ch) hmem hub
        have hrc1 : 1 ≤ P.rc.getD ch 0 := by
          rw [pa.rcEq ch hchlt]; unfold refCnt; omega
        have hrl : ch < P.rc.length := by rw [pa.free.rcLen]; exact hchlt
        have hrcEq : ∀ c', c' < P.n → (P.releaseChunk ch).rc.getD c' 0 =
            refCnt w1 q (P.releaseChunk ch) c' + extra A q c' := by
          intro c' hc'
          rw [releaseChunk_rc, getD_set_nat]
          have key := connCnt_change_one (w := w) (w' := w1) (p := q) (c := c') hmem huniq
            (fun t ht => hubo q t c' (fun h => ht h.2))
          rw [hub1, getD_set_bool, usedBit_of_getC hC] at key
          have e0 := pa.rcEq c' hc'
          unfold refCnt at e0 ⊢
          simp only [releaseChunk_loans, releaseChunk_hist, releaseChunk_conns]
          by_cases hcc' : ch = c'
          · subst hcc'
            simp only [true_and, hchl, hrl, if_true, hused] at key ⊢
            simp at key
            omega
          · have h1 : ¬ (ch = c' ∧ ch < c.used.length) := fun h => hcc' h.1
            have h2 : ¬ (ch = c' ∧ ch < P.rc.length) := fun h => hcc' h.1
            simp only [h1, h2, if_false] at key ⊢
            omega
        refine ⟨pa.free.release hchlt hrc1, fun c' hc' => hrcEq c' (by simpa using hc'), ?_, by simpa using pa.loanLbl,
          by simpa using pa.histNodup, by simpa using pa.histLt, by simpa using pa.xLt, ?_⟩
        · intro l c' hl
          rw [releaseChunk_loans] at hl
          obtain ⟨h1, h2⟩ := pa.loans l c' hl
          refine ⟨by simpa using h1, ?_⟩
          rw [releaseChunk_rc, getD_set_nat]
          by_cases hcc' : ch = c'
          · subst hcc'
            -- a loaned chunk is referenced by the loan only
            exfalso
            have e0 := pa.rcEq ch hchlt
            unfold refCnt at e0
            have : 1 ≤ (P.loans.filter (·.2 = ch)).length := by
              apply List.length_pos_of_mem (a := (l, ch))
              simp [List.mem_filter, hl]
            omega
          · have h3 : ¬ (ch = c' ∧ ch < P.rc.length) := fun h => hcc' h.1
            simp only [h3, if_false]; exact h2
        · intro c' hx hf
          have h2 := pa.xFresh c' hx hf
          rw [releaseChunk_rc, getD_set_nat]
          by_cases hcc' : ch = c'
          · subst hcc'
            exfalso
            have e0 := pa.rcEq ch hchlt
            unfold refCnt at e0
            have : extra A q ch = 1 := by simp [extra, hx]
            omega
          · have h3 : ¬ (ch = c' ∧ ch < P.rc.length) := fun h => hcc' h.1
            simp only [h3, if_false]; exact h2
      · simp only [hq, if_false] at hQ
        obtain ⟨h1, h2⟩ := hi.acc.pubs q Q hQ
        exact ⟨fun hx => (h1 hx).congr (fun t x _ => hubo q t x (fun h => hq h.1)), h2⟩
    · intro t T hT
      rw [hgS] at hT
      obtain ⟨h1, h2, h3⟩ := hi.acc.subs t T hT
      refine ⟨h1, h2, fun ha x hx => ?_⟩
      obtain ⟨Q, hQ, hq⟩ := h3 ha x hx
      rw [hgP]
      by_cases hxp : x.pid = p
      · rw [hxp] at hQ; rw [hP] at hQ; cases hQ
        exact ⟨P.releaseChunk ch, by simp [hxp], by simpa using hq⟩
      · exact ⟨Q, by simp [hxp, hQ], hq⟩
    · -- connections
      intro a b cn hcn Pa Sb hPa hSb
      rw [hgC] at hcn; rw [hgP] at hPa; rw [hgS] at hSb; rw [hcfg]
      by_cases hab : a = p ∧ b = s
      · obtain ⟨rfl, rfl⟩ := hab
        simp only [and_self, if_true, Option.some.injEq] at hcn hPa
        subst hcn; subst hPa
        rw [hS] at hSb; cases hSb
        have hfl : ∀ x, x ∈ flight { c with comp := r, used := c.used.set ch false } S ↔
            (x ∈ flight c S ∧ x ≠ ch) := by
          intro x
          have hnd' := hnd
          simp only [flight, hcomp] at hnd' ⊢
          simp only [List.mem_append, List.mem_map, List.mem_cons]
          rw [List.nodup_append] at hnd'
          obtain ⟨hn1, hn2, hn3⟩ := hnd'
          rw [List.nodup_append] at hn1
          obtain ⟨hn4, hn5, hn6⟩ := hn1
          rw [List.nodup_cons] at hn5
          constructor
          · rintro ((h | h) | h)
            · refine ⟨Or.inl (Or.inl h), ?_⟩
              rintro rfl
              exact hn6 x (List.mem_map.mpr h) x (by simp) rfl
            · refine ⟨Or.inl (Or.inr (Or.inr h)), ?_⟩
              rintro rfl; exact hn5.1 h
            · refine ⟨Or.inr h, ?_⟩
              rintro rfl
              exact hn3 x (by simp) x h rfl
          · rintro ⟨(h | h | h) | h, hne⟩
            · exact Or.inl (Or.inl h)
            · exact absurd h hne
            · exact Or.inl (Or.inr h)
            · exact Or.inr h
        refine ⟨by simpa using ca.usedLen, ca.subCap, ca.borrowMax, ?_, ca.borrow, ?_, ?_, ?_⟩
        · have := ca.total; simp only [hcomp, List.length_cons] at this ⊢; omega
        · intro _
          have hnd' := hnd
          simp only [flight, hcomp] at hnd' ⊢
          refine List.Nodup.sublist ?_ hnd'
          apply List.Sublist.append_right
          apply List.Sublist.append_left
          exact List.sublist_cons_self _ _
        · intro _ x
          rw [hfl]
          show (c.used.set ch false).getD x false = true ↔ _
          rw [getD_set_bool]
          by_cases hx : ch = x
          · subst hx; simp [hchl]
          · have h1 : ¬ (ch = x ∧ ch < c.used.length) := fun h => hx h.1
            simp only [h1, if_false]
            rw [ca.used hs x]
            constructor
            · intro h; exact ⟨h, fun e => hx e.symm⟩
            · intro h; exact h.1
        · intro h; exact absurd hs (by simp [show c.sAtt = false from h])
      · simp only [hab, if_false] at hcn
        by_cases ha : a = p
        · subst ha
          simp only [if_true, Option.some.injEq] at hPa
          subst hPa
          exact (hi.acc.conns a b cn hcn P Sb hP hSb).congr (by simp) (by simp) rfl rfl
        · simp only [ha, if_false] at hPa
          exact hi.acc.conns a b cn hcn Pa Sb hPa hSb

/-! ### what `retrieveReturned` leaves unchanged -/

def eraseRF (P : Pub) : Pub := { P with rc := [], free := [] }
def eraseCU (c : Conn) : Conn := { c with comp := [], used := [] }

structure DrainRel (w w' : World) : Prop where
  cfg : w'.cfg = w.cfg
  pubReg : w'.pubReg = w.pubReg
  subReg : w'.subReg = w.subReg
  panicked : w'.panicked = w.panicked
  subs : ∀ t, getS w' t = getS w t
  pubs : ∀ q, (getP w' q).map eraseRF = (getP w q).map eraseRF
  conns : ∀ a b, (getC w' a b).map eraseCU = (getC w a b).map eraseCU
  mono : ∀ a b c c', getC w a b = some c → getC w' a b = some c' →
    (c'.comp = [] ∨ c'.comp = c.comp) ∧ ∀ x, c'.used.getD x false = true → c.used.getD x false = true

theorem DrainRel.refl (w : World) : DrainRel w w :=
  ⟨rfl, rfl, rfl, rfl, fun _ => rfl, fun _ => rfl, fun _ _ => rfl, fun a b c c' h h' => by
    rw [h] at h'; cases h'; exact ⟨Or.inr rfl, fun _ hx => hx⟩⟩

theorem DrainRel.trans {w1 w2 w3 : World} (h1 : DrainRel w1 w2) (h2 : DrainRel w2 w3) :
    DrainRel w1 w3 := by
  refine ⟨h2.cfg.trans h1.cfg, h2.pubReg.trans h1.pubReg, h2.subReg.trans h1.subReg,
    h2.panicked.trans h1.panicked, fun t => (h2.subs t).trans (h1.subs t),
    fun q => (h2.pubs q).trans (h1.pubs q), fun a b => (h2.conns a b).trans (h1.conns a b), ?_⟩
  intro a b c c'' hc hc''
  obtain ⟨c', hc', _⟩ := map_eq_some_left (h1.conns a b).symm hc
  obtain ⟨m1, m2⟩ := h1.mono a b c c' hc hc'
  obtain ⟨m3, m4⟩ := h2.mono a b c' c'' hc' hc''
  refine ⟨?_, fun x hx => m2 x (m4 x hx)⟩
  rcases m3 with m3 | m3
  · exact Or.inl m3
  · rw [m3]; exact m1

/-- all entries of a completion queue -/
theorem drain_all {G : GT} {A : GA} {p s : Nat} :
    ∀ (comp : List Nat) (w : World) (P : Pub) (c : Conn), Inv G A w → getP w p = some P →
      getC w p s = some c → c.sAtt = true → c.comp = comp →
      Inv G A (setC (setP w p (drainComp P c.used comp).1)
        { c with comp := [], used := (drainComp P c.used comp).2 }) ∧
      eraseRF (drainComp P c.used comp).1 = eraseRF P ∧
      ∀ x, (drainComp P c.used comp).2.getD x false = true → c.used.getD x false = true := by
  intro comp
  induction comp with
  | nil =>
    intro w P c hi hP hC hs hcomp
    simp only [drainComp]
    refine ⟨?_, trivial, fun _ h => h⟩
    have hc : { c with comp := [], used := c.used } = c := by cases c; simp at hcomp; subst hcomp; rfl
    rw [hc]
    apply hi.ext
    obtain ⟨g1, g2, g3, _, _⟩ := get_update_PC (P' := P) hP hC (c' := c) rfl
    refine ⟨rfl, rfl, rfl, ?_, g3, ?_, nodup_setC _ hi.top.reg.nodup⟩
    · intro q; rw [g1]; split
      · rename_i h; rw [h, hP]
      · rfl
    · intro a b; rw [g2]; split
      · rename_i h; rw [h.1, h.2, hC]
      · rfl
  | cons ch r ih =>
    intro w P c hi hP hC hs hcomp
    obtain ⟨hused, hi1⟩ := drain_one hi hP hC hs hcomp
    simp only [drainComp, hused, if_true]
    obtain ⟨g1, g2, g3, _, _⟩ := get_update_PC (P' := P.releaseChunk ch) hP hC
      (c' := { c with comp := r, used := c.used.set ch false }) rfl
    have hP1 := g1 p; simp only [if_true] at hP1
    have hC1 := g2 p s; simp only [and_self, if_true] at hC1
    obtain ⟨j1, j2, j3⟩ := ih _ _ _ hi1 hP1 hC1 hs rfl
    refine ⟨?_, ?_, ?_⟩
    · apply j1.ext
      obtain ⟨k1, k2, k3, _, _⟩ := get_update_PC
        (P' := (drainComp (P.releaseChunk ch) (c.used.set ch false) r).1) hP1 hC1
        (c' := { c with comp := [], used := (drainComp (P.releaseChunk ch) (c.used.set ch false) r).2 }) rfl
      obtain ⟨l1, l2, l3, _, _⟩ := get_update_PC
        (P' := (drainComp (P.releaseChunk ch) (c.used.set ch false) r).1) hP hC
        (c' := { c with comp := [], used := (drainComp (P.releaseChunk ch) (c.used.set ch false) r).2 }) rfl
      refine ⟨rfl, rfl, rfl, ?_, ?_, ?_, nodup_setC _ hi.top.reg.nodup⟩
      · intro q; rw [l1]; rw [k1, g1]; split <;> rfl
      · intro t; rfl
      · intro a b; rw [l2]; rw [k2, g2]; split <;> rfl
    · rw [j2]; simp [eraseRF]
    · intro x hx
      have := j3 x hx
      simp only at this
      rw [getD_set_bool] at this
      split at this
      · cases this
      · exact this

theorem drainRel_update {w : World} {p s : Nat} {P P' : Pub} {c : Conn} {u : List Bool}
    (hP : getP w p = some P) (hC : getC w p s = some c) (e : eraseRF P' = eraseRF P)
    (hm : ∀ x, u.getD x false = true → c.used.getD x false = true) :
    DrainRel w (setC (setP w p P') { c with comp := [], used := u }) := by
  obtain ⟨g1, g2, g3, _, _⟩ := get_update_PC (P' := P') hP hC
    (c' := { c with comp := [], used := u }) rfl
  refine ⟨rfl, rfl, rfl, rfl, g3, ?_, ?_, ?_⟩
  · intro q; rw [g1]; split
    · rename_i h; rw [h, hP]; simp [e]
    · rfl
  · intro a b; rw [g2]; split
    · rename_i h; rw [h.1, h.2, hC]; rfl
    · rfl
  · intro a b c0 c1 h0 h1
    rw [g2] at h1
    split at h1
    · rename_i h; rw [h.1, h.2, hC] at h0; cases h0; cases h1
      exact ⟨Or.inl rfl, hm⟩
    · rw [h0] at h1; cases h1; exact ⟨Or.inr rfl, fun _ hx => hx⟩

theorem mem_conns_getC {G : GT} {w : World} (hi : TopInv G w) {p s : Nat} {P : Pub}
    (hP : getP w p = some P) (hm : some s ∈ P.conns) :
    ∃ c, getC w p s = some c ∧ c.sAtt = true := by
  obtain ⟨i, hi'⟩ := List.mem_iff_getElem?.mp hm
  obtain ⟨_, _, _, _, _, _, c, h1, h2⟩ := (hi.pubs p P hP).conn i s hi'
  exact ⟨c, h1, h2⟩

theorem retrieveFrom_inv {G : GT} {A : GA} {p : Nat} :
    ∀ (slots : List (Option Nat)) (w : World) (P : Pub), Inv G A w → getP w p = some P →
      (∀ s, some s ∈ slots → some s ∈ P.conns) →
      Inv G A (retrieveFrom w p slots) ∧ DrainRel w (retrieveFrom w p slots) ∧
      ∀ s c', some s ∈ slots → getC (retrieveFrom w p slots) p s = some c' → c'.comp = [] := by
  intro slots
  induction slots with
  | nil => intro w P hi _ _; exact ⟨hi, DrainRel.refl w, fun s c' h => by simp at h⟩
  | cons x r ih =>
    intro w P hi hP hsl
    cases x with
    | none =>
      simp only [retrieveFrom]
      obtain ⟨h1, h2, h3⟩ := ih w P hi hP (fun s hs => hsl s (List.mem_cons_of_mem _ hs))
      refine ⟨h1, h2, fun s c' hs => h3 s c' ?_⟩
      simpa using hs
    | some s =>
      obtain ⟨c, hC, hs⟩ := mem_conns_getC hi.top hP (hsl s (by simp))
      simp only [retrieveFrom, hP, hC]
      obtain ⟨j1, j2, j3⟩ := drain_all c.comp w P c hi hP hC hs rfl
      obtain ⟨g1, g2, g3, _, _⟩ := get_update_PC (P' := (drainComp P c.used c.comp).1) hP hC
        (c' := { c with comp := [], used := (drainComp P c.used c.comp).2 }) rfl
      have hP1 := g1 p; simp only [if_true] at hP1
      have hC1 := g2 p s; simp only [and_self, if_true] at hC1
      have hconns : (drainComp P c.used c.comp).1.conns = P.conns := by
        have := congrArg Pub.conns j2; simpa [eraseRF] using this
      obtain ⟨h1, h2, h3⟩ := ih _ _ j1 hP1
        (fun t ht => by rw [hconns]; exact hsl t (List.mem_cons_of_mem _ ht))
      have hd := drainRel_update hP hC j2 j3
      refine ⟨h1, hd.trans h2, ?_⟩
      intro t c' ht hc'
      by_cases hts : t = s
      · subst hts
        have := (h2.mono p t _ c' hC1 hc').1
        simpa using this
      · apply h3 t c' ?_ hc'
        rcases List.mem_cons.mp ht with h | h
        · exact absurd (Option.some.inj h) hts
        · exact h

theorem retrieveReturned_inv {G : GT} {A : GA} {w : World} {p : Nat} (hi : Inv G A w) :
    Inv G A (retrieveReturned w p) ∧ DrainRel w (retrieveReturned w p) ∧
    ∀ P s c', getP w p = some P → some s ∈ P.conns → getC (retrieveReturned w p) p s = some c' →
      c'.comp = [] := by
  unfold retrieveReturned
  cases hP : getP w p with
  | none => exact ⟨hi, DrainRel.refl w, fun P s c' h => by cases h⟩
  | some P =>
    obtain ⟨h1, h2, h3⟩ := retrieveFrom_inv P.conns w P hi hP (fun s h => h)
    refine ⟨h1, h2, ?_⟩
    intro P' s c' hP' hs hc'
    cases hP'
    exact h3 s c' hs hc'

end Iox2.PubSub.C02P
