/-
C02 — `retrieveReturned` (drain the completion queues) preserves the invariant.
-/
import Iox2.Proof.PubSubC02PubLemmas

namespace Iox2.PubSub.C02P
open Iox2.PubSub
open Iox2.C16.SlotMapP (abs WInv)

/-! ### facts derived from the invariant -/

theorem TopInv.conn_unique {G : GT} {w : World} (hi : TopInv G w) {p : Nat} {P : Pub}
    (hP : getP w p = some P) {s : Nat} :
    ∀ i j : Nat, P.conns[i]? = some (some s) → P.conns[j]? = some (some s) → i = j := by
  intro i j h1 h2
  obtain ⟨S1, hS1, e1, _⟩ := (hi.pubs p P hP).conn i s h1
  obtain ⟨S2, hS2, e2, _⟩ := (hi.pubs p P hP).conn j s h2
  rw [hS1] at hS2; cases hS2
  omega

theorem TopInv.ex_of_mem {G : GT} {w : World} (hi : TopInv G w) {p : Nat} {P : Pub}
    (hP : getP w p = some P) {s : Nat} (hm : some s ∈ P.conns) : P.ex = true := by
  cases h : P.ex with
  | true => rfl
  | false => have := (hi.pubs p P hP).dead h _ hm; simp at this

/-- everything the invariant says about a connection the sender is attached to -/
theorem Inv.sender {G : GT} {A : GA} {w : World} (hi : Inv G A w) {p s : Nat} {P : Pub} {c : Conn}
    (hP : getP w p = some P) (hC : getC w p s = some c) (hs : c.sAtt = true) :
    c.pid = p ∧ c.sid = s ∧ some s ∈ P.conns ∧ P.ex = true ∧ PubAcc A w p P ∧
    ∃ S, getS w s = some S ∧ ConnTop c P S ∧ ConnAcc w.cfg c P S := by
  obtain ⟨hpid, hsid, _⟩ := getC_some hC
  obtain ⟨P0, S, hP0, hS, ct⟩ := hi.top.conns p s c hC
  rw [hP] at hP0; cases hP0
  have hmem : some s ∈ P.conns := by rw [← hsid]; exact ct.sAtt.mp hs
  have hex := hi.top.ex_of_mem hP hmem
  exact ⟨hpid, hsid, hmem, hex, (hi.acc.pubs p P hP).1 hex, S, hS, ct, hi.acc.conns p s c hC P S hP hS⟩

theorem usedBit_of_getC {w : World} {p s : Nat} {c : Conn} (hC : getC w p s = some c) (x : Nat) :
    usedBit w p s x = c.used.getD x false := by
  unfold usedBit; rw [hC]

/-! ### one entry of a completion queue -/

theorem drain_one {G : GT} {A : GA} {w : World} {p s : Nat} {P : Pub} {c : Conn} {ch : Nat}
    {r : List Nat} (hi : Inv G A w) (hP : getP w p = some P) (hC : getC w p s = some c)
    (hs : c.sAtt = true) (hcomp : c.comp = ch :: r) :
    c.used.getD ch false = true ∧
    Inv G A (setC (setP w p (P.releaseChunk ch))
      { c with comp := r, used := c.used.set ch false }) := by
  obtain ⟨hpid, hsid, hmem, hex, pa, S, hS, ct, ca⟩ := hi.sender hP hC hs
  have huniq := hi.top.conn_unique hP (s := s)
  have hchf : ch ∈ flight c S := by simp [flight, hcomp]
  have hused : c.used.getD ch false = true := (ca.used hs ch).mpr hchf
  have hchlt : ch < P.n := by rw [← ca.usedLen]; exact lt_of_getD_true hused
  have hchl : ch < c.used.length := lt_of_getD_true hused
  have hub : usedBit w p s ch = true := by rw [usedBit_of_getC hC]; exact hused
  have hnd := ca.nodup hs
  refine ⟨hused, ?_, ?_⟩
  · apply top_congr hi.top
    exact (topEq_setP hi.top.reg.nodup hP (releaseChunk_ptop P ch)).trans
      (topEq_setC (w := setP w p (P.releaseChunk ch)) (c := c) hi.top.reg.nodup hC rfl)
  · generalize hw1 : setC (setP w p (P.releaseChunk ch))
      { c with comp := r, used := c.used.set ch false } = w1
    have hgP : ∀ q, getP w1 q = if q = p then some (P.releaseChunk ch) else getP w q := by
      intro q; subst hw1; simp [hP]
    have hgC : ∀ a b, getC w1 a b =
        if a = p ∧ b = s then some { c with comp := r, used := c.used.set ch false }
        else getC w a b := by
      intro a b; subst hw1
      rw [getC_setC]
      simp only [hpid, hsid, getC_setP]
      split
      · rename_i h; rw [h.1, h.2, hC]; rfl
      · rfl
    have hgS : ∀ t, getS w1 t = getS w t := by intro t; subst hw1; rfl
    have hcfg : w1.cfg = w.cfg := by subst hw1; rfl
    have hub1 : ∀ x, usedBit w1 p s x = (c.used.set ch false).getD x false := by
      intro x; unfold usedBit; rw [hgC]; simp
    have hubo : ∀ a b x, ¬ (a = p ∧ b = s) → usedBit w1 a b x = usedBit w a b x := by
      intro a b x hab; unfold usedBit; rw [hgC]; simp [hab]
    refine ⟨?_, ?_, ?_⟩
    · -- publishers
      intro q Q hQ
      rw [hgP] at hQ
      by_cases hq : q = p
      · subst hq
        simp only [if_true, Option.some.injEq] at hQ
        subst hQ
        refine ⟨fun _ => ?_, fun h => by rw [releaseChunk_ex, hex] at h; cases h⟩
        have hcc := connCnt_pos (w := w) (p := q) (c := ch) hmem hub
        have hrc1 : 1 ≤ P.rc.getD ch 0 := by
          rw [pa.rcEq ch hchlt]; unfold refCnt; omega
        have hrl : ch < P.rc.length := by rw [pa.free.rcLen]; exact hchlt
        have hrcEq : ∀ c', c' < P.n → (P.releaseChunk ch).rc.getD c' 0 =
            refCnt w1 q (P.releaseChunk ch) c' + extra A q c' := by
          intro c' hc'
          rw [releaseChunk_rc, getD_set_nat]
          have key := connCnt_change_one (w := w) (w' := w1) (p := q) (c := c') hmem huniq
            (fun t ht => hubo q t c' (fun h => ht h.2))
          rw [hub1, getD_set_bool, usedBit_of_getC hC] at key
          have e0 := pa.rcEq c' hc'
          unfold refCnt at e0 ⊢
          simp only [releaseChunk_loans, releaseChunk_hist, releaseChunk_conns]
          by_cases hcc' : ch = c'
          · subst hcc'
            simp only [true_and, hchl, hrl, if_true, hused] at key ⊢
            simp at key
            omega
          · have h1 : ¬ (ch = c' ∧ ch < c.used.length) := fun h => hcc' h.1
            have h2 : ¬ (ch = c' ∧ ch < P.rc.length) := fun h => hcc' h.1
            simp only [h1, h2, if_false] at key ⊢
            omega
        refine ⟨pa.free.release hchlt hrc1, fun c' hc' => hrcEq c' (by simpa using hc'), ?_, by simpa using pa.loanLbl,
          by simpa using pa.histNodup, by simpa using pa.histLt, by simpa using pa.xLt, ?_⟩
        · intro l c' hl
          rw [releaseChunk_loans] at hl
          obtain ⟨h1, h2⟩ := pa.loans l c' hl
          refine ⟨by simpa using h1, ?_⟩
          rw [releaseChunk_rc, getD_set_nat]
          by_cases hcc' : ch = c'
          · subst hcc'
            -- a loaned chunk is referenced by the loan only
            exfalso
            have e0 := pa.rcEq ch hchlt
            unfold refCnt at e0
            have : 1 ≤ (P.loans.filter (·.2 = ch)).length := by
              apply List.length_pos_of_mem (a := (l, ch))
              simp [List.mem_filter, hl]
            omega
          · have h3 : ¬ (ch = c' ∧ ch < P.rc.length) := fun h => hcc' h.1
            simp only [h3, if_false]; exact h2
        · intro c' hx hf
          have h2 := pa.xFresh c' hx hf
          rw [releaseChunk_rc, getD_set_nat]
          by_cases hcc' : ch = c'
          · subst hcc'
            exfalso
            have e0 := pa.rcEq ch hchlt
            unfold refCnt at e0
            have : extra A q ch = 1 := by simp [extra, hx]
            omega
          · have h3 : ¬ (ch = c' ∧ ch < P.rc.length) := fun h => hcc' h.1
            simp only [h3, if_false]; exact h2
      · simp only [hq, if_false] at hQ
        obtain ⟨h1, h2⟩ := hi.acc.pubs q Q hQ
        exact ⟨fun hx => (h1 hx).congr (fun t x _ => hubo q t x (fun h => hq h.1)), h2⟩
    · intro t T hT
      rw [hgS] at hT
      exact hi.acc.subs t T hT
    · -- connections
      intro a b cn hcn Pa Sb hPa hSb
      rw [hgC] at hcn; rw [hgP] at hPa; rw [hgS] at hSb; rw [hcfg]
      by_cases hab : a = p ∧ b = s
      · obtain ⟨rfl, rfl⟩ := hab
        simp only [and_self, if_true, Option.some.injEq] at hcn hPa
        subst hcn; subst hPa
        rw [hS] at hSb; cases hSb
        have hfl : ∀ x, x ∈ flight { c with comp := r, used := c.used.set ch false } S ↔
            (x ∈ flight c S ∧ x ≠ ch) := by
          intro x
          have hnd' := hnd
          simp only [flight, hcomp] at hnd' ⊢
          simp only [List.mem_append, List.mem_map, List.mem_cons]
          rw [List.nodup_append] at hnd'
          obtain ⟨hn1, hn2, hn3⟩ := hnd'
          rw [List.nodup_append] at hn1
          obtain ⟨hn4, hn5, hn6⟩ := hn1
          rw [List.nodup_cons] at hn5
          constructor
          · rintro ((h | h) | h)
            · refine ⟨Or.inl (Or.inl h), ?_⟩
              rintro rfl
              exact hn6 x (List.mem_map.mpr h) x (by simp) rfl
            · refine ⟨Or.inl (Or.inr (Or.inr h)), ?_⟩
              rintro rfl; exact hn5.1 h
            · refine ⟨Or.inr h, ?_⟩
              rintro rfl
              exact hn3 x (by simp) x h rfl
          · rintro ⟨(h | h | h) | h, hne⟩
            · exact Or.inl (Or.inl h)
            · exact absurd h hne
            · exact Or.inl (Or.inr h)
            · exact Or.inr h
        refine ⟨by simpa using ca.usedLen, ca.subCap, ca.borrowMax, ?_, ca.borrow, ?_, ?_, ?_⟩
        · have := ca.total; simp only [hcomp, List.length_cons] at this ⊢; omega
        · intro _
          have hnd' := hnd
          simp only [flight, hcomp] at hnd' ⊢
          refine List.Nodup.sublist ?_ hnd'
          apply List.Sublist.append_right
          apply List.Sublist.append_left
          exact List.sublist_cons_self _ _
        · intro _ x
          rw [hfl]
          show (c.used.set ch false).getD x false = true ↔ _
          rw [getD_set_bool]
          by_cases hx : ch = x
          · subst hx; simp [hchl]
          · have h1 : ¬ (ch = x ∧ ch < c.used.length) := fun h => hx h.1
            simp only [h1, if_false]
            rw [ca.used hs x]
            constructor
            · intro h; exact ⟨h, fun e => hx e.symm⟩
            · intro h; exact h.1
        · intro h; exact absurd hs (by simp [show c.sAtt = false from h])
      · simp only [hab, if_false] at hcn
        by_cases ha : a = p
        · subst ha
          simp only [if_true, Option.some.injEq] at hPa
          subst hPa
          exact (hi.acc.conns a b cn hcn P Sb hP hSb).congr (by simp) (by simp) rfl rfl
        · simp only [ha, if_false] at hPa
          exact hi.acc.conns a b cn hcn Pa Sb hPa hSb

end Iox2.PubSub.C02P
