/- helper lemmas on lists / permutations used by several property files (core only) -/
namespace Iox2.ListLemmas

theorem perm_pop {α} (l : List α) (e : α) (h : l.getLast? = some e) : (l.dropLast ++ [e]).Perm l := by
  have hne : l ≠ [] := by intro h0; simp [h0] at h
  have := List.dropLast_concat_getLast hne
  rw [List.getLast?_eq_some_getLast hne] at h
  simp at h; subst h; rw [this]

theorem perm_eraseIdx {α} (l : List α) (i : Nat) (e : α) (h : l[i]? = some e) :
    (l.eraseIdx i ++ [e]).Perm l := by
  obtain ⟨hi, he⟩ := List.getElem?_eq_some_iff.mp h
  rw [List.eraseIdx_eq_take_drop_succ]
  have h1 : l = l.take i ++ e :: l.drop (i+1) := by
    subst he; simp
  conv => rhs; rw [h1]
  simp only [List.append_assoc]
  apply List.Perm.append_left
  simp

theorem perm_take_drop_rev {α} (l : List α) (n : Nat) : (l.take n ++ (l.drop n).reverse).Perm l := by
  have := List.take_append_drop n l
  conv => rhs; rw [← this]
  exact List.Perm.append_left _ (List.reverse_perm _)

end Iox2.ListLemmas
