/-
C08 helper: subscriber-side actions preserve the invariant (part F: `subCreateConn`).
-/
import Iox2.Proof.PubSubC08SubE
set_option linter.unusedSimpArgs false
set_option linter.unusedVariables false
namespace Iox2.PubSub.C08
open Iox2.PubSub
open Iox2.C16.SlotMapP (abs)
attribute [-simp] List.getD_eq_getElem?_getD

theorem subCreateConn_inv {cfg : Cfg} {w : World} {xs : Option Nat} {s slot : Nat}
    (h : InvS cfg w xs s (some slot)) {S : Sub} (hS : getS w s = some S) (hal : S.alive = true) {p : Nat}
    (hreg : w.pubReg.slots[slot]? = some (some p)) :
    InvS cfg (subCreateConn w s slot p) xs s none ∧
    (subCreateConn w s slot p).panicked = w.panicked ∧
    ∃ S' key, getS (subCreateConn w s slot p) s = some S' ∧
      S' = { S with storage := S'.storage, conns := S.conns.set slot (some key) } ∧
      abs S'.storage key = some p := by
  have hSO : SubOK cfg w s S (some slot) := by simpa using h.s s S hS
  obtain ⟨P, hP, hPal, hPslot⟩ := h.r.rp1 slot p hreg
  have hslotlt : slot < S.conns.length := by
    rw [hSO.connsLen, ← h.r.pubLen]; exact (List.getElem?_eq_some_iff.mp hreg).1
  -- `p` is not yet in the storage
  have hpnot : ∀ k, abs S.storage k ≠ some p := by
    intro k hk
    rcases hSO.cover k (by rw [hk]; simp) with ht | ⟨i, hi, hik⟩
    · have := hSO.tbrDead k ht p P hk hP
      rw [hPal] at this; cases this
    · obtain ⟨P', hP', hsl⟩ := hSO.connSlot i k p hi hik hk
      rw [hP] at hP'; cases hP'
      exact hi (by rw [← hsl, hPslot])
  rw [subCreateConn_eq, hS]
  dsimp only
  rcases smInsert_spec hSO.stI p with ⟨key, m, hins, hkn, hklt, hmI, hmcap, hmabs⟩ | ⟨hfail, hfull⟩
  · rw [hins]
    dsimp only
    -- the connection after `create_receiver`
    have hatt : ∃ c', (∀ a b, getC (subAttach w s p S) a b = if a = p ∧ b = s then some c' else getC w a b) ∧
        ConnsUniq (subAttach w s p S) ∧ c'.rAtt = true ∧
        (∀ c, getC w p s = some c → ConnCore c { c' with rAtt := c.rAtt } ∧ c'.sub = c.sub ∧ c'.used = c.used) ∧
        (getC w p s = none → c' = newConnS w s p S) := by
      unfold subAttach
      cases hc : getC w p s with
      | some c =>
        have hkey := getC_key hc
        have hk1 : ({ c with rAtt := true } : Conn).pid = p ∧ ({ c with rAtt := true } : Conn).sid = s := hkey
        exact ⟨{ c with rAtt := true }, fun a b => getC_setC_self hc _ hk1 a b, h.u.setC _, rfl,
          fun c1 hc1 => (by cases hc1; exact ⟨⟨rfl, rfl, rfl, rfl, rfl, rfl, rfl⟩, rfl, rfl⟩), fun hn => (by cases hn)⟩
      | none =>
        exact ⟨newConnS w s p S, fun a b => getC_pushC w _ a b hc, h.u.pushC _ hc, rfl,
          fun c1 hc1 => (by cases hc1), fun _ => rfl⟩
    obtain ⟨c', hgC0, hu0, hcr, hcold, hcnew⟩ := hatt
    have hfr : SFrame w (setS (subAttach w s p S) s { S with storage := m, conns := S.conns.set slot (some key) }) :=
      SFrame.of_SStep (.trans (subAttach_S _ _ _ _) (.setS _ _ _))
    have hsubs : ∀ q, getS (subAttach w s p S) q = getS w q := by
      intro q
      have := (subAttach_S w s p S).frame
      unfold subAttach
      split <;> rfl
    have hgS : ∀ q, getS (setS (subAttach w s p S) s { S with storage := m, conns := S.conns.set slot (some key) }) q =
        if q = s then some { S with storage := m, conns := S.conns.set slot (some key) } else getS w q := by
      intro q; rw [getS_setS, hsubs, hsubs, hS]; rfl
    have hgC : ∀ a b, getC (setS (subAttach w s p S) s { S with storage := m, conns := S.conns.set slot (some key) }) a b =
        if a = p ∧ b = s then some c' else getC w a b := by
      intro a b; rw [getC_setS]; exact hgC0 a b
    have hnoheld : ∀ hd ∈ S.held, hd.pid ≠ p := by
      intro hd hhd e
      have := hSO.heldKey hd hhd
      rw [e] at this
      exact hpnot _ this
    have hsetget : ∀ (i k : Nat), (S.conns.set slot (some key))[i]? = some (some k) ↔
        ((i = slot ∧ k = key) ∨ (i ≠ slot ∧ S.conns[i]? = some (some k))) := by
      intro i k
      rw [List.getElem?_set]
      by_cases hi : slot = i
      · subst hi
        rw [if_pos rfl, if_pos hslotlt]
        constructor
        · intro h'; left; simp at h'; exact ⟨rfl, h'.symm⟩
        · rintro (⟨_, rfl⟩ | ⟨h1, _⟩)
          · rfl
          · exact absurd rfl h1
      · simp only [hi, if_false]
        constructor
        · intro h'; right; exact ⟨fun e => hi e.symm, h'⟩
        · rintro (⟨h1, _⟩ | ⟨_, h2⟩)
          · exact absurd h1.symm hi
          · exact h2
    refine ⟨InvS.rebuild1 (some c') h hS hfr (hu0.of_conns rfl) hgS hgC ⟨rfl, rfl, rfl⟩ (fun _ _ => rfl) ?_ ?_ ?_,
      ?_, { S with storage := m, conns := S.conns.set slot (some key) }, key, by rw [hgS]; simp, rfl,
      by show abs m key = some p; rw [hmabs]; simp⟩
    · intro c hc ha
      obtain ⟨k1, k2, k3⟩ := hcold c hc
      exact ⟨c', rfl, by have := k1.sAtt; simp at this; rw [this]; exact ha, k3⟩
    · intro c1 hc1
      cases hc1
      cases hc : getC w p s with
      | some c =>
        obtain ⟨k1, k2, k3⟩ := hcold c hc
        have hCI := h.c p s c hc
        exact (hCI.congr0 (c' := c') k1.pid k1.sid k1.cap k1.comp k1.borrow k1.sAtt k2 k3).transferS2
          (S' := { S with storage := m, conns := S.conns.set slot (some key) })
          (k1.pid.trans (getC_key hc).1) hfr.pubs hS (by rw [hgS]; simp) rfl rfl
      | none =>
        have e := hcnew hc
        subst e
        refine ⟨⟨hSO.buf1, hSO.bufM, by simp [newConnS], by simp [newConnS], by simp [newConnS]⟩,
          ⟨P, by rw [hfr.pubs]; exact hP⟩,
          ⟨{ S with storage := m, conns := S.conns.set slot (some key) }, by rw [hgS]; simp⟩, ?_, ?_, ?_, ?_, ?_⟩
        · intro S1 hS1
          rw [hgS] at hS1; simp at hS1; subst hS1
          show 0 = (S.held.filter _).length
          symm
          rw [List.length_eq_zero_iff, List.filter_eq_nil_iff]
          intro hd hhd hpid
          exact hnoheld hd hhd (by simpa using hpid)
        · intro ha; simp [newConnS] at ha
        · intro _ Q S1 hQ _ _ _
          refine ⟨rfl, rfl, rfl, fun ch => ?_⟩
          simp only [newConnS]
          exact getD_replicate_false _ _
        · intro ha; simp [newConnS] at ha
        · intro Q hQ
          rw [hfr.pubs, hP] at hQ; cases hQ
          simp [newConnS, hP]
    · -- the subscriber record
      have habs : ∀ k, abs m k = if k = key then some p else abs S.storage k := hmabs
      refine ⟨hmI, by simp [hSO.connsLen], fun ha => by rw [hmcap]; exact hSO.capEq ha, hSO.buf1, hSO.bufM,
        hSO.tbrNodup, hSO.tbrLen, ?_, ?_, ?_, ?_, ?_, ?_, ?_, ?_, ?_, hSO.aliveEx⟩
      · intro k hk
        show abs m k ≠ none
        rw [habs]; split
        · simp
        · exact hSO.tbrIn k hk
      · intro i k _ hik
        rcases (hsetget i k).1 hik with ⟨rfl, rfl⟩ | ⟨hi, hik'⟩
        · refine ⟨by show abs m k ≠ none; rw [habs]; simp, fun hm => ?_⟩
          exact hSO.tbrIn k hm hkn
        · obtain ⟨a1, a2⟩ := hSO.connKey i k (fun e => hi (by cases e; rfl)) hik'
          refine ⟨?_, a2⟩
          show abs m k ≠ none
          rw [habs]; split
          · simp
          · exact a1
      · intro i j k _ _ hik hjk
        rcases (hsetget i k).1 hik with ⟨rfl, rfl⟩ | ⟨hi, hik'⟩
        · rcases (hsetget j k).1 hjk with ⟨rfl, _⟩ | ⟨hj, hjk'⟩
          · rfl
          · exact absurd hkn (hSO.connKey j k (fun e => hj (by cases e; rfl)) hjk').1
        · rcases (hsetget j k).1 hjk with ⟨rfl, rfl⟩ | ⟨hj, hjk'⟩
          · exact absurd hkn (hSO.connKey i k (fun e => hi (by cases e; rfl)) hik').1
          · exact hSO.connInj i j k (fun e => hi (by cases e; rfl)) (fun e => hj (by cases e; rfl)) hik' hjk'
      · intro k hk
        have hk' : abs m k ≠ none := hk
        rw [habs] at hk'
        by_cases hkk : k = key
        · subst hkk
          exact .inr ⟨slot, by simp, (hsetget slot k).2 (.inl ⟨rfl, rfl⟩)⟩
        · simp only [hkk, if_false] at hk'
          rcases hSO.cover k hk' with ht | ⟨i, hi, hik⟩
          · exact .inl ht
          · have hi' : i ≠ slot := fun e => hi (by rw [e])
            exact .inr ⟨i, by simp, (hsetget i k).2 (.inr ⟨hi', hik⟩)⟩
      · intro k q hkq
        have hkq' : abs m k = some q := hkq
        rw [habs] at hkq'
        by_cases hkk : k = key
        · subst hkk
          simp at hkq'; subst hkq'
          exact ⟨c', by rw [hgC]; simp, hcr⟩
        · simp only [hkk, if_false] at hkq'
          obtain ⟨c1, hc1, hr1⟩ := hSO.hasConn k q hkq'
          have hqp : q ≠ p := by intro e; subst e; exact hpnot k hkq'
          exact ⟨c1, by rw [hgC]; simp [hqp, hc1], hr1⟩
      · intro k1 k2 q h1 h2
        have h1' : abs m k1 = some q := h1
        have h2' : abs m k2 = some q := h2
        rw [habs] at h1' h2'
        by_cases e1 : k1 = key <;> by_cases e2 : k2 = key
        · rw [e1, e2]
        · simp only [e1, e2, if_true, if_false] at h1' h2'
          cases h1'
          exact absurd h2' (hpnot k2)
        · simp only [e1, e2, if_true, if_false] at h1' h2'
          cases h2'
          exact absurd h1' (hpnot k1)
        · simp only [e1, e2, if_false] at h1' h2'
          exact hSO.pidInj k1 k2 q h1' h2'
      · intro hd hhd
        have hhd' : hd ∈ S.held := hhd
        have h1 := hSO.heldKey hd hhd'
        show abs m hd.key = some hd.pid
        rw [habs]
        have hne : hd.key ≠ key := by intro e; rw [e, hkn] at h1; cases h1
        simp only [hne, if_false]; exact h1
      · intro k hkt q Q hkq hQ
        have hne : k ≠ key := by intro e; subst e; exact hSO.tbrIn k hkt hkn
        have hkq' : abs m k = some q := hkq
        rw [habs] at hkq'; simp only [hne, if_false] at hkq'
        rw [hfr.pubs] at hQ
        exact hSO.tbrDead k hkt q Q hkq' hQ
      · intro i k q _ hik hkq
        have hkq' : abs m k = some q := hkq
        rw [habs] at hkq'
        rw [hfr.pubs]
        rcases (hsetget i k).1 hik with ⟨rfl, rfl⟩ | ⟨hi, hik'⟩
        · simp at hkq'; subst hkq'
          exact ⟨P, hP, hPslot⟩
        · have hne : k ≠ key := by
            intro e; subst e
            exact (hSO.connKey i k (fun e => hi (by cases e; rfl)) hik').1 hkn
          simp only [hne, if_false] at hkq'
          exact hSO.connSlot i k q (fun e => hi (by cases e; rfl)) hik' hkq'
    · show (subAttach w s p S).panicked = w.panicked
      unfold subAttach; split <;> rfl
  · -- the storage cannot be full
    exfalso
    have hcap := (hSO.capEq hal).1
    have hcov := full_le_cover hfull (S.tbr ++ (S.conns.eraseIdx slot).filterMap id) (by
      intro k hk
      have hk' : abs S.storage k ≠ none := by
        intro e; rw [e] at hk; cases hk
      rcases hSO.cover k hk' with ht | ⟨i, hi, hik⟩
      · simp [ht]
      · have hi' : i ≠ slot := fun e => hi (by rw [e])
        apply List.mem_append_right
        rw [List.mem_filterMap]
        exact ⟨some k, List.mem_eraseIdx_iff_getElem?.mpr ⟨i, hi', hik⟩, rfl⟩)
    have h1 := List.length_filterMap_le id (S.conns.eraseIdx slot)
    rw [List.length_eraseIdx, if_pos hslotlt] at h1
    have h2 := hSO.tbrLen
    have h3 := hSO.connsLen
    simp only [List.length_append] at hcov
    omega

end Iox2.PubSub.C08
