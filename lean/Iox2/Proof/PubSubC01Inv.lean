/-
The inductive invariant used for the C01 theorems, in three layers:
`InvA` (identities, registries, attachment structure, per-connection ghost-log structure),
`InvB` (reference counting / non-reuse of chunks / payload of pending samples),
`InvC` (send numbering: monotonicity, history, nothing lost).
-/
import Iox2.Proof.PubSubC01Basic
namespace Iox2.PubSub.C01P
open Iox2.PubSub
open Iox2.C16.SlotMapP (abs WInv)

/-- copy of `C01.Interleave` (the specification file imports this one) -/
inductive Il : List Nat → List Nat → List Nat → Prop
  | nil : Il [] [] []
  | left {x a b l} : Il a b l → Il (x :: a) b (x :: l)
  | right {x a b l} : Il a b l → Il a (x :: b) (x :: l)

def pend (cn : Conn) : List Nat := cn.sub.map (·.2)

/-- nothing has happened on the connection yet -/
structure Virgin (cn : Conn) : Prop where
  del : cn.gDelivered = []
  sub : cn.sub = []
  skip : cn.gSkipped = []
  recv : cn.gReceived = []
  evi : cn.gEvicted = []
  comp : cn.comp = []

/-- per-connection structure of the ghost logs -/
structure ConnLog (ov : Bool) (cn : Conn) : Prop where
  split : ∃ consumed, Il cn.gReceived cn.gEvicted consumed ∧ cn.gDelivered = consumed ++ pend cn
  noEv : ov = false → cn.gEvicted = []
  noSkip : ov = true → cn.gSkipped = []
  len : (pend cn).length ≤ cn.cap
  cap1 : 1 ≤ cn.cap
  full : cn.gReceived = [] → cn.gEvicted ≠ [] → (pend cn).length = cn.cap

/-- `np` / `ns`: the publisher / subscriber that is being created (exists, alive, not yet registered) -/
structure InvA (cfg : Cfg) (np ns : Option Nat) (w : World) : Prop where
  cfgEq : w.cfg = cfg
  uniqC : UniqC w
  sregLen : w.subReg.slots.length = cfg.maxSubs
  preg : ∀ i p, w.pubReg.slots[i]? = some (some p) →
    some p ≠ np ∧ ∃ P, getP w p = some P ∧ P.alive = true ∧ P.slot = i
  sreg : ∀ i e, w.subReg.slots[i]? = some (some e) →
    some e.sid ≠ ns ∧ ∃ S, getS w e.sid = some S ∧ S.alive = true ∧ S.slot = i ∧ e.buffer = S.buffer
  palive : ∀ p P, getP w p = some P → P.alive = true →
    P.ex = true ∧ (some p ≠ np → w.pubReg.slots[P.slot]? = some (some p))
  salive : ∀ s S, getS w s = some S → S.alive = true →
    S.ex = true ∧ (some s ≠ ns → ∃ e, w.subReg.slots[S.slot]? = some (some e) ∧ e.sid = s)
  sbuf : ∀ s S, getS w s = some S → 1 ≤ S.buffer
  pconns : ∀ p P, getP w p = some P → P.conns.length = cfg.maxSubs ∧
    ∀ i s, P.conns[i]? = some (some s) → some s ≠ ns ∧ ∃ S, getS w s = some S ∧ S.slot = i
  ends : ∀ cn ∈ w.conns, (∃ P, getP w cn.pid = some P) ∧ (∃ S, getS w cn.sid = some S)
  a1 : ∀ cn ∈ w.conns, cn.rAtt = true →
    ∃ S, getS w cn.sid = some S ∧ S.ex = true ∧ ∃ key, abs S.storage key = some cn.pid
  stor : ∀ s S, getS w s = some S → WInv S.storage ∧
    ∀ key p, abs S.storage key = some p → some p ≠ np ∧ ∃ P, getP w p = some P
  a2 : ∀ cn ∈ w.conns, cn.sAtt = true →
    ∃ P, getP w cn.pid = some P ∧ ∃ i : Nat, P.conns[i]? = some (some cn.sid)
  a2c : ∀ p P, getP w p = some P → P.ex = true → ∀ (i : Nat) s, P.conns[i]? = some (some s) →
    ∃ cn, getC w p s = some cn ∧ cn.sAtt = true
  a3 : ∀ cn ∈ w.conns, cn.sAtt = true ∨ cn.rAtt = true
  virg : ∀ cn ∈ w.conns, cn.sAtt = false → ∀ P S, getP w cn.pid = some P → getS w cn.sid = some S →
    P.ex = true → S.alive = true → Virgin cn
  k2 : ∀ s S, getS w s = some S → S.alive = true → ∀ e ∈ S.ghostRecv, ∀ P, getP w e.1 = some P →
    P.alive = true → ∃ cn, getC w e.1 s = some cn
  l3 : ∀ cn ∈ w.conns, ∀ S, getS w cn.sid = some S →
    (S.ghostRecv.filter (·.1 = cn.pid)).map (·.2) = cn.gReceived
  l4 : ∀ s S, getS w s = some S → ∀ h ∈ S.held, (h.pid, h.seq) ∈ S.ghostRecv
  clog : ∀ cn ∈ w.conns, ConnLog cfg.overflow cn
  gr : ∀ s S, getS w s = some S → ∀ e ∈ S.ghostRecv, some e.1 ≠ np ∧ ∃ P, getP w e.1 = some P

/-! ### layer C -/

/-- `fq = some (p, q)`: sample number `q` of publisher `p` is being delivered (the `send` call has
not yet visited all connections).  `hx = some (p, s)`: the history is being delivered into the
connection `(p, s)` (its `gHist` is not yet a prefix of `gDelivered`). -/
structure InvC (fq : Option (Nat × Nat)) (hx : Option (Nat × Nat)) (w : World) : Prop where
  hmono : ∀ p P, getP w p = some P → (P.hist.map fun c => P.chunkSeq.getD c 0).Pairwise (· < ·) ∧
    ∀ c ∈ P.hist, P.chunkSeq.getD c 0 < P.seq
  dlt : ∀ cn ∈ w.conns, ∀ P, getP w cn.pid = some P →
    (∀ q ∈ cn.gDelivered, q < P.seq) ∧ cn.gDelivered.Pairwise (· < ·)
  hfirst : ∀ cn ∈ w.conns, cn.sAtt = true → some (cn.pid, cn.sid) ≠ hx → ∀ P, getP w cn.pid = some P →
    cn.gFirst ≤ P.seq ∧ cn.gHist <+: cn.gDelivered ∧ (∀ q ∈ cn.gHist, q < cn.gFirst) ∧
    (∀ q ∈ cn.gDelivered, q < cn.gFirst → q ∈ cn.gHist) ∧ cn.gHist.length ≤ cn.cap
  nlost : ∀ p P, getP w p = some P → P.ex = true → ∀ (i : Nat) s, P.conns[i]? = some (some s) →
    ∀ cn, getC w p s = some cn → ∀ q, cn.gFirst ≤ q → q < P.seq → fq ≠ some (p, q) →
    q ∈ cn.gDelivered ∨ q ∈ cn.gSkipped
  smono : ∀ s S, getS w s = some S → ∀ p, ((S.ghostRecv.filter (·.1 = p)).map (·.2)).Pairwise (· < ·)

end Iox2.PubSub.C01P
