/-
The inductive invariant used for the C01 theorems, in three layers:
`InvA` (identities, registries, attachment structure, per-connection ghost-log structure),
`InvB` (reference counting / non-reuse of chunks / payload of pending samples),
`InvC` (send numbering: monotonicity, history, nothing lost).
-/
import Iox2.Proof.PubSubC01Basic
namespace Iox2.PubSub.C01P
open Iox2.PubSub
open Iox2.C16.SlotMapP (abs WInv)

/-- copy of `C01.Interleave` (the specification file imports this one) -/
inductive Il : List Nat → List Nat → List Nat → Prop
  | nil : Il [] [] []
  | left {x a b l} : Il a b l → Il (x :: a) b (x :: l)
  | right {x a b l} : Il a b l → Il a (x :: b) (x :: l)

def pend (cn : Conn) : List Nat := cn.sub.map (·.2)

/-- nothing has happened on the connection yet -/
structure Virgin (cn : Conn) : Prop where
  del : cn.gDelivered = []
  sub : cn.sub = []
  skip : cn.gSkipped = []
  recv : cn.gReceived = []
  evi : cn.gEvicted = []
  comp : cn.comp = []

/-- per-connection structure of the ghost logs -/
structure ConnLog (ov : Bool) (cn : Conn) : Prop where
  split : ∃ consumed, Il cn.gReceived cn.gEvicted consumed ∧ cn.gDelivered = consumed ++ pend cn
  noEv : ov = false → cn.gEvicted = []
  noSkip : ov = true → cn.gSkipped = []
  len : (pend cn).length ≤ cn.cap
  cap1 : 1 ≤ cn.cap
  full : cn.gReceived = [] → cn.gEvicted ≠ [] → (pend cn).length = cn.cap

/-- `np` / `ns`: the publisher / subscriber that is being created (exists, alive, not yet registered) -/
structure InvA (cfg : Cfg) (np ns : Option Nat) (w : World) : Prop where
  cfgEq : w.cfg = cfg
  uniqC : UniqC w
  sregLen : w.subReg.slots.length = cfg.maxSubs
  preg : ∀ i p, w.pubReg.slots[i]? = some (some p) →
    some p ≠ np ∧ ∃ P, getP w p = some P ∧ P.alive = true ∧ P.slot = i
  sreg : ∀ i e, w.subReg.slots[i]? = some (some e) →
    some e.sid ≠ ns ∧ ∃ S, getS w e.sid = some S ∧ S.alive = true ∧ S.slot = i ∧ e.buffer = S.buffer
  palive : ∀ p P, getP w p = some P → P.alive = true →
    P.ex = true ∧ (some p ≠ np → w.pubReg.slots[P.slot]? = some (some p))
  salive : ∀ s S, getS w s = some S → S.alive = true →
    S.ex = true ∧ (some s ≠ ns → ∃ e, w.subReg.slots[S.slot]? = some (some e) ∧ e.sid = s)
  sbuf : ∀ s S, getS w s = some S → 1 ≤ S.buffer
  pconns : ∀ p P, getP w p = some P → P.conns.length = cfg.maxSubs ∧
    ∀ i s, P.conns[i]? = some (some s) → some s ≠ ns ∧ ∃ S, getS w s = some S ∧ S.slot = i
  ends : ∀ cn ∈ w.conns, (∃ P, getP w cn.pid = some P) ∧ (∃ S, getS w cn.sid = some S)
  a1 : ∀ cn ∈ w.conns, cn.rAtt = true →
    ∃ S, getS w cn.sid = some S ∧ S.ex = true ∧ ∃ key, abs S.storage key = some cn.pid
  stor : ∀ s S, getS w s = some S → WInv S.storage ∧
    ∀ key p, abs S.storage key = some p → some p ≠ np ∧ ∃ P, getP w p = some P
  a2 : ∀ cn ∈ w.conns, cn.sAtt = true →
    ∃ P, getP w cn.pid = some P ∧ ∃ i : Nat, P.conns[i]? = some (some cn.sid)
  a2c : ∀ p P, getP w p = some P → P.ex = true → ∀ (i : Nat) s, P.conns[i]? = some (some s) →
    ∃ cn, getC w p s = some cn ∧ cn.sAtt = true
  a3 : ∀ cn ∈ w.conns, cn.sAtt = true ∨ cn.rAtt = true
  virg : ∀ cn ∈ w.conns, cn.sAtt = false → ∀ P S, getP w cn.pid = some P → getS w cn.sid = some S →
    P.ex = true → S.alive = true → Virgin cn
  k2 : ∀ s S, getS w s = some S → S.alive = true → ∀ e ∈ S.ghostRecv, ∀ P, getP w e.1 = some P →
    P.alive = true → ∃ cn, getC w e.1 s = some cn
  l3 : ∀ cn ∈ w.conns, ∀ S, getS w cn.sid = some S →
    (S.ghostRecv.filter (·.1 = cn.pid)).map (·.2) = cn.gReceived
  l4 : ∀ s S, getS w s = some S → ∀ h ∈ S.held, (h.pid, h.seq) ∈ S.ghostRecv
  clog : ∀ cn ∈ w.conns, ConnLog cfg.overflow cn
  gr : ∀ s S, getS w s = some S → ∀ e ∈ S.ghostRecv, some e.1 ≠ np ∧ ∃ P, getP w e.1 = some P

/-! ### layer B -/

def usedCnt (w : World) (p c : Nat) : Nat :=
  (w.conns.filter fun cn => cn.pid = p ∧ cn.sAtt = true ∧ cn.used.getD c false = true).length

def heldCh (S : Sub) (p : Nat) : List Nat := (S.held.filter (·.pid = p)).map (·.chunk)

def inflight (fl : Option (Nat × Nat)) (p c : Nat) : Nat := if fl = some (p, c) then 1 else 0

/-- chunks in flight on a connection: submission queue, completion queue, borrowed by the subscriber -/
def inq (cn : Conn) (S : Sub) : List Nat := cn.sub.map (·.1) ++ cn.comp ++ heldCh S cn.pid

/-- `fl = some (p, c)`: a `send` of publisher `p` is in progress with chunk `c` (the `SampleMut`
holds one reference that is no longer listed in `loans`) -/
structure InvB (fl : Option (Nat × Nat)) (w : World) : Prop where
  lens : ∀ p P, getP w p = some P →
    P.rc.length = P.n ∧ P.payload.length = P.n ∧ P.chunkSeq.length = P.n ∧ P.sent.length = P.seq
  usedLen : ∀ cn ∈ w.conns, ∀ P, getP w cn.pid = some P → cn.used.length = P.n
  free : ∀ p P, getP w p = some P → P.ex = true →
    P.free.Nodup ∧ ∀ c, c ∈ P.free ↔ (c < P.n ∧ P.rc.getD c 0 = 0)
  rc : ∀ p P, getP w p = some P → P.ex = true → ∀ c, c < P.n →
    P.rc.getD c 0 = (P.loans.filter (·.2 = c)).length + (P.hist.filter (· = c)).length
      + usedCnt w p c + inflight fl p c
  loans : ∀ p P, getP w p = some P → P.ex = true →
    (P.loans.map (·.1)).Nodup ∧ ∀ l c, (l, c) ∈ P.loans → c < P.n ∧ P.rc.getD c 0 = 1
  histOk : ∀ p P, getP w p = some P → P.ex = true → ∀ c ∈ P.hist,
    c < P.n ∧ P.payload.getD c 0 = P.sent.getD (P.chunkSeq.getD c 0) 0 ∧ P.chunkSeq.getD c 0 < P.seq
  flOk : ∀ p c, fl = some (p, c) → ∃ P, getP w p = some P ∧ P.ex = true ∧ c < P.n
  inqOk : ∀ cn ∈ w.conns, cn.sAtt = true → ∀ P S, getP w cn.pid = some P → P.ex = true →
    getS w cn.sid = some S → (inq cn S).Nodup ∧ ∀ c ∈ inq cn S, cn.used.getD c false = true
  unatt : ∀ cn ∈ w.conns, cn.sAtt = false → ∀ P, getP w cn.pid = some P → P.ex = true →
    ∀ c, cn.used.getD c false = false
  ppi : ∀ cn ∈ w.conns, ∀ P S, getP w cn.pid = some P → getS w cn.sid = some S →
    (cn.sAtt = true ∨ S.alive = true) → ∀ ch q, (ch, q) ∈ cn.sub →
    P.payload.getD ch 0 = P.sent.getD q 0 ∧ q < P.seq

/-! ### layer C -/

/-- `fq = some (p, q)`: sample number `q` of publisher `p` is being delivered (the `send` call has
not yet visited all connections) -/
structure InvC (fq : Option (Nat × Nat)) (w : World) : Prop where
  hmono : ∀ p P, getP w p = some P → (P.hist.map fun c => P.chunkSeq.getD c 0).Pairwise (· < ·)
  dlt : ∀ cn ∈ w.conns, ∀ P, getP w cn.pid = some P →
    (∀ q ∈ cn.gDelivered, q < P.seq) ∧ cn.gDelivered.Pairwise (· < ·)
  hfirst : ∀ cn ∈ w.conns, cn.sAtt = true → ∀ P, getP w cn.pid = some P →
    cn.gFirst ≤ P.seq ∧ cn.gHist <+: cn.gDelivered ∧ (∀ q ∈ cn.gHist, q < cn.gFirst) ∧
    (∀ q ∈ cn.gDelivered, q < cn.gFirst → q ∈ cn.gHist) ∧ cn.gHist.length ≤ cn.cap
  nlost : ∀ p P, getP w p = some P → P.ex = true → ∀ (i : Nat) s, P.conns[i]? = some (some s) →
    ∀ cn, getC w p s = some cn → ∀ q, cn.gFirst ≤ q → q < P.seq → fq ≠ some (p, q) →
    q ∈ cn.gDelivered ∨ q ∈ cn.gSkipped
  smono : ∀ s S, getS w s = some S → ∀ p, ((S.ghostRecv.filter (·.1 = p)).map (·.2)).Pairwise (· < ·)

end Iox2.PubSub.C01P
