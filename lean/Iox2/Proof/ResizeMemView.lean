/-
View side of the dynamically growing data segment (C15, resize part): the invariant of a
`DynamicView` (model `Iox2.ResizeMem.View`) and its preservation by
`register_and_translate_offset` / `unregister_offset`.
-/
import Iox2.Model.ResizeMem

namespace Iox2.ResizeMem

/-- invariant of one view together with the offsets its user currently holds -/
structure ViewOK (vw : View) : Prop where
  /-- a segment id is mapped at most once -/
  ids    : (vw.segs.map (·.id)).Nodup
  /-- a label is registered at most once -/
  labels : (vw.regs.map (·.label)).Nodup
  /-- the counter of a mapped segment = number of registered offsets that point into it -/
  count  : ∀ x ∈ vw.segs, x.count = vw.regs.countP (fun r => r.seg = x.id)
  /-- the segment of every registered offset is mapped -/
  mapped : ∀ r ∈ vw.regs, ∃ x ∈ vw.segs, x.id = r.seg
  /-- only the most recently mapped segment may be mapped without a registered offset -/
  zero   : ∀ x ∈ vw.segs, x.count = 0 → vw.cur = some x.id

private theorem id_inj {segs : List VSeg} (h : (segs.map (·.id)).Nodup) :
    ∀ x ∈ segs, ∀ y ∈ segs, x.id = y.id → x = y := by
  induction segs with
  | nil => simp
  | cons a t ih =>
    simp only [List.map_cons, List.nodup_cons, List.mem_map, not_exists, not_and] at h
    intro x hx y hy hxy
    simp only [List.mem_cons] at hx hy
    rcases hx with rfl | hx <;> rcases hy with rfl | hy
    · rfl
    · exact absurd hxy.symm (h.1 y hy)
    · exact absurd hxy (h.1 x hx)
    · exact ih h.2 x hx y hy hxy

private theorem find_id {segs : List VSeg} {s : Nat} {x : VSeg}
    (h : segs.find? (·.id = s) = some x) : x ∈ segs ∧ x.id = s := by
  refine ⟨List.mem_of_find?_eq_some h, ?_⟩
  have := List.find?_some h
  simpa using this

private theorem find_none {segs : List VSeg} {s : Nat}
    (h : segs.find? (·.id = s) = none) : ∀ x ∈ segs, x.id ≠ s := by
  simpa using h

private theorem filter_label_id {regs : List Reg} {l : Nat} (h : ∀ r ∈ regs, r.label ≠ l) :
    regs.filter (·.label ≠ l) = regs := by
  rw [List.filter_eq_self]
  intro a ha; simpa using h a ha

private theorem countP_del {regs : List Reg} (hl : (regs.map (·.label)).Nodup) {r : Reg}
    (hr : r ∈ regs) (s : Nat) :
    (regs.filter (·.label ≠ r.label)).countP (fun r' => r'.seg = s) + (if r.seg = s then 1 else 0)
      = regs.countP (fun r' => r'.seg = s) := by
  induction regs with
  | nil => simp at hr
  | cons a t ih =>
    simp only [List.map_cons, List.nodup_cons, List.mem_map, not_exists, not_and] at hl
    simp only [List.mem_cons] at hr
    rcases hr with rfl | hr
    · have : t.filter (·.label ≠ r.label) = t :=
        filter_label_id (fun x hx h => hl.1 x hx h)
      simp only [ne_eq, decide_not] at this
      simp [this, List.countP_cons]
    · have hne : a.label ≠ r.label := fun h => hl.1 r hr h.symm
      have := ih hl.2 hr
      simp only [ne_eq, decide_not] at this
      simp [hne, List.countP_cons]
      omega

private theorem bumpV_ids (segs : List VSeg) (s : Nat) :
    (bumpV segs s).map (·.id) = segs.map (·.id) := by
  simp only [bumpV, List.map_map]
  apply List.map_congr_left
  intro a _; simp only [Function.comp]; split <;> rfl

private theorem decV_ids (segs : List VSeg) (s : Nat) :
    (decV segs s).map (·.id) = segs.map (·.id) := by
  simp only [decV, List.map_map]
  apply List.map_congr_left
  intro a _; simp only [Function.comp]; split <;> rfl

private theorem mem_bumpV {segs : List VSeg} {s : Nat} {y : VSeg} (h : y ∈ bumpV segs s) :
    ∃ x ∈ segs, y.id = x.id ∧ y.count = if x.id = s then x.count + 1 else x.count := by
  simp only [bumpV, List.mem_map] at h
  obtain ⟨x, hx, rfl⟩ := h
  refine ⟨x, hx, ?_⟩
  split <;> simp

private theorem mem_decV {segs : List VSeg} {s : Nat} {y : VSeg} (h : y ∈ decV segs s) :
    ∃ x ∈ segs, y.id = x.id ∧ y.count = if x.id = s then x.count - 1 else x.count := by
  simp only [decV, List.mem_map] at h
  obtain ⟨x, hx, rfl⟩ := h
  refine ⟨x, hx, ?_⟩
  split <;> simp

private theorem ids_mem {segs segs' : List VSeg} (h : segs'.map (·.id) = segs.map (·.id))
    {x : VSeg} (hx : x ∈ segs) : ∃ y ∈ segs', y.id = x.id := by
  have : x.id ∈ segs'.map (·.id) := by rw [h]; exact List.mem_map.2 ⟨x, hx, rfl⟩
  simpa [List.mem_map] using this

private theorem nodup_filter_ids {segs : List VSeg} (p : VSeg → Bool)
    (h : (segs.map (·.id)).Nodup) : ((segs.filter p).map (·.id)).Nodup :=
  h.sublist (List.filter_sublist.map _)

private theorem countP_pos_of_mem {regs : List Reg} {r : Reg} (hr : r ∈ regs) :
    0 < regs.countP (fun r' => r'.seg = r.seg) :=
  List.countP_pos_iff.2 ⟨r, hr, by simp⟩

private theorem releaseOld_sub (segs : List VSeg) (o : Option Nat) :
    ∀ x ∈ releaseOld segs o, x ∈ segs := by
  intro x hx
  cases o with
  | none => exact hx
  | some o =>
    simp only [releaseOld] at hx
    split at hx
    · split at hx
      · exact (List.mem_filter.1 hx).1
      · exact hx
    · exact hx

private theorem releaseOld_ids (segs : List VSeg) (o : Option Nat)
    (h : (segs.map (·.id)).Nodup) : ((releaseOld segs o).map (·.id)).Nodup := by
  cases o with
  | none => exact h
  | some o =>
    simp only [releaseOld]
    split
    · split
      · exact nodup_filter_ids _ h
      · exact h
    · exact h

/-- an entry with a positive counter survives `releaseOld` -/
private theorem releaseOld_keeps {segs : List VSeg} (o : Option Nat)
    (h : (segs.map (·.id)).Nodup) {x : VSeg} (hx : x ∈ segs) (hc : x.count ≠ 0) :
    x ∈ releaseOld segs o := by
  cases o with
  | none => exact hx
  | some o =>
    simp only [releaseOld]
    cases hf : segs.find? (·.id = o) with
    | none => exact hx
    | some y =>
      obtain ⟨hy, hyo⟩ := find_id hf
      simp only
      split
      · rename_i hy0
        apply List.mem_filter.2
        refine ⟨hx, ?_⟩
        have : x.id ≠ o := by
          intro hxo
          have := id_inj h x hx y hy (hxo.trans hyo.symm)
          subst this; exact hc hy0
        simpa using this
      · exact hx

/-- an entry with counter 0 and the id of the old current segment does not survive `releaseOld` -/
private theorem releaseOld_drops {segs : List VSeg} (o : Nat)
    (h : (segs.map (·.id)).Nodup) {x : VSeg} (hx : x ∈ segs) (hc : x.count = 0) (hxo : x.id = o) :
    x ∉ releaseOld segs (some o) := by
  simp only [releaseOld]
  cases hf : segs.find? (·.id = o) with
  | none => exact absurd hxo (find_none hf x hx)
  | some y =>
    obtain ⟨hy, hyo⟩ := find_id hf
    have := id_inj h x hx y hy (hxo.trans hyo.symm)
    subst this
    simp [hc, hxo]

theorem emptyView_ok : ViewOK emptyView := by
  constructor <;> simp [emptyView]

theorem View.register_regs {vw vw' : View} {b : Bool} {seg : Nat}
    (h : vw.register b seg = some vw') : vw'.regs = vw.regs := by
  unfold View.register at h
  split at h
  · cases h; rfl
  · split at h
    · cases h; rfl
    · cases h

/-- registering fails exactly when the segment is neither mapped nor available from the owner -/
theorem View.register_eq_none_iff (vw : View) (b : Bool) (seg : Nat) :
    vw.register b seg = none ↔ (b = false ∧ ∀ x ∈ vw.segs, x.id ≠ seg) := by
  unfold View.register
  cases hf : vw.segs.find? (·.id = seg) with
  | some x =>
    obtain ⟨hx, hxs⟩ := find_id hf
    simp only [reduceCtorEq, false_iff, not_and]
    intro _ hall
    exact hall x hx hxs
  | none =>
    have := find_none hf
    cases b
    · simpa using this
    · simp

/-- `register_and_translate_offset` keeps the invariant (the user records the offset under a fresh label) -/
theorem View.register_ok {vw vw' : View} {b : Bool} {seg : Nat} (l off : Nat)
    (hok : ViewOK vw) (hl : ∀ r ∈ vw.regs, r.label ≠ l)
    (h : vw.register b seg = some vw') : ViewOK (vw'.addReg ⟨l, seg, off⟩) := by
  unfold View.register at h
  cases hf : vw.segs.find? (·.id = seg) with
  | some x0 =>
    obtain ⟨hx0, hx0s⟩ := find_id hf
    rw [hf] at h
    simp only [Option.some.injEq] at h
    subst h
    refine ⟨?_, ?_, ?_, ?_, ?_⟩
    · simp only [View.addReg]; rw [bumpV_ids]; exact hok.ids
    · simp only [View.addReg, List.map_cons, List.nodup_cons, List.mem_map, not_exists, not_and]
      exact ⟨fun r hr => hl r hr, hok.labels⟩
    · intro y hy
      simp only [View.addReg] at hy ⊢
      obtain ⟨x, hx, hid, hc⟩ := mem_bumpV hy
      have := hok.count x hx
      rw [List.countP_cons, hid, hc, this]
      by_cases hxs : x.id = seg
      · simp [hxs]
      · simp [hxs, Ne.symm hxs]
    · intro r hr
      simp only [View.addReg, List.mem_cons] at hr ⊢
      rcases hr with rfl | hr
      · obtain ⟨y, hy, hyid⟩ := ids_mem (bumpV_ids vw.segs seg) hx0
        exact ⟨y, hy, hyid.trans hx0s⟩
      · obtain ⟨x, hx, hxr⟩ := hok.mapped r hr
        obtain ⟨y, hy, hyid⟩ := ids_mem (bumpV_ids vw.segs seg) hx
        exact ⟨y, hy, hyid.trans hxr⟩
    · intro y hy hy0
      simp only [View.addReg] at hy ⊢
      obtain ⟨x, hx, hid, hc⟩ := mem_bumpV hy
      by_cases hxs : x.id = seg
      · simp [hxs] at hc; omega
      · simp only [hxs, if_false] at hc
        rw [hid]; exact hok.zero x hx (hc ▸ hy0)
  | none =>
    have hnone := find_none hf
    rw [hf] at h
    cases b with
    | false => simp at h
    | true =>
      simp only [if_true, Option.some.injEq] at h
      subst h
      -- no registered offset points into `seg`
      have hcnt0 : vw.regs.countP (fun r => r.seg = seg) = 0 := by
        rw [List.countP_eq_zero]
        intro r hr
        obtain ⟨x, hx, hxr⟩ := hok.mapped r hr
        have := hnone x hx
        simpa using fun h' => this (hxr.trans h')
      have hids : ((vw.segs ++ [({ id := seg, count := 1 } : VSeg)]).map (·.id)).Nodup := by
        rw [List.map_append, List.nodup_append]
        refine ⟨hok.ids, by simp, ?_⟩
        intro a ha b hb
        simp only [List.map_cons, List.map_nil, List.mem_singleton] at hb
        simp only [List.mem_map] at ha
        obtain ⟨x, hx, rfl⟩ := ha
        subst hb
        exact hnone x hx
      refine ⟨?_, ?_, ?_, ?_, ?_⟩
      · simp only [View.addReg]; exact releaseOld_ids _ _ hids
      · simp only [View.addReg, List.map_cons, List.nodup_cons, List.mem_map, not_exists, not_and]
        exact ⟨fun r hr => hl r hr, hok.labels⟩
      · intro y hy
        simp only [View.addReg] at hy ⊢
        have hy' := releaseOld_sub _ _ y hy
        rw [List.mem_append, List.mem_singleton] at hy'
        rcases hy' with hy' | rfl
        · have hne := hnone y hy'
          rw [List.countP_cons, hok.count y hy']
          simp [Ne.symm hne]
        · rw [List.countP_cons, hcnt0]; simp
      · intro r hr
        simp only [View.addReg, List.mem_cons] at hr ⊢
        rcases hr with rfl | hr
        · refine ⟨{ id := seg, count := 1 }, releaseOld_keeps _ hids ?_ ?_, rfl⟩
          · simp
          · simp
        · obtain ⟨x, hx, hxr⟩ := hok.mapped r hr
          refine ⟨x, releaseOld_keeps _ hids (List.mem_append_left _ hx) ?_, hxr⟩
          have := hok.count x hx
          have hp := countP_pos_of_mem hr
          rw [← hxr] at hp
          omega
      · intro y hy hy0
        simp only [View.addReg] at hy ⊢
        have hy' := releaseOld_sub _ _ y hy
        rw [List.mem_append, List.mem_singleton] at hy'
        rcases hy' with hy' | rfl
        · exfalso
          have hcur := hok.zero y hy' hy0
          rw [hcur] at hy
          exact releaseOld_drops y.id hids (List.mem_append_left _ hy') hy0 rfl hy
        · simp at hy0

theorem View.unregister_regs (vw : View) (seg : Nat) : (vw.unregister seg).regs = vw.regs := by
  unfold View.unregister
  split
  · rfl
  · split <;> rfl

/-- `unregister_offset` of a registered offset keeps the invariant -/
theorem View.unregister_ok {vw : View} {r : Reg}
    (hok : ViewOK vw) (hr : r ∈ vw.regs) : ViewOK ((vw.unregister r.seg).delReg r.label) := by
  obtain ⟨x1, hx1, hx1r⟩ := hok.mapped r hr
  have hlab : ((vw.regs.filter (·.label ≠ r.label)).map (·.label)).Nodup :=
    hok.labels.sublist (List.filter_sublist.map _)
  have hdel := countP_del hok.labels hr
  unfold View.unregister
  cases hf : vw.segs.find? (·.id = r.seg) with
  | none => exact absurd hx1r (find_none hf x1 hx1)
  | some x0 =>
    obtain ⟨hx0, hx0s⟩ := find_id hf
    have hx0c := hok.count x0 hx0
    have hpos := countP_pos_of_mem hr
    rw [hx0s] at hx0c
    simp only
    split
    · rename_i hcond
      obtain ⟨hc1, hcur⟩ := hcond
      have hd := hdel r.seg
      simp only [if_true] at hd
      have hrest : (vw.regs.filter (·.label ≠ r.label)).countP (fun r' => r'.seg = r.seg) = 0 := by omega
      rw [List.countP_eq_zero] at hrest
      refine ⟨?_, hlab, ?_, ?_, ?_⟩
      · exact nodup_filter_ids _ hok.ids
      · intro y hy
        simp only [View.delReg] at hy ⊢
        obtain ⟨hy1, hy2⟩ := List.mem_filter.1 hy
        have hne : y.id ≠ r.seg := by simpa using hy2
        have hd' := hdel y.id
        simp only [Ne.symm hne, if_false, Nat.add_zero] at hd'
        rw [hd']; exact hok.count y hy1
      · intro r' hr'
        simp only [View.delReg] at hr' ⊢
        have hr'1 := (List.mem_filter.1 hr').1
        obtain ⟨y, hy, hyr⟩ := hok.mapped r' hr'1
        refine ⟨y, List.mem_filter.2 ⟨hy, ?_⟩, hyr⟩
        have := hrest r' hr'
        simp only [decide_eq_true_eq] at this
        simpa [hyr] using this
      · intro y hy hy0
        simp only [View.delReg] at hy ⊢
        exact hok.zero y (List.mem_filter.1 hy).1 hy0
    · rename_i hcond
      refine ⟨?_, hlab, ?_, ?_, ?_⟩
      · simp only [View.delReg]; rw [decV_ids]; exact hok.ids
      · intro y hy
        simp only [View.delReg] at hy ⊢
        obtain ⟨x, hx, hid, hc⟩ := mem_decV hy
        have hd' := hdel x.id
        have hxc := hok.count x hx
        rw [hid, hc]
        by_cases hxs : x.id = r.seg
        · simp only [hxs, if_true] at hd' ⊢
          rw [hxs] at hxc
          omega
        · simp only [hxs, if_false, Ne.symm hxs, Nat.add_zero] at hd' ⊢
          omega
      · intro r' hr'
        simp only [View.delReg] at hr' ⊢
        have hr'1 := (List.mem_filter.1 hr').1
        obtain ⟨x, hx, hxr⟩ := hok.mapped r' hr'1
        obtain ⟨y, hy, hyid⟩ := ids_mem (decV_ids vw.segs r.seg) hx
        exact ⟨y, hy, hyid.trans hxr⟩
      · intro y hy hy0
        simp only [View.delReg] at hy ⊢
        obtain ⟨x, hx, hid, hc⟩ := mem_decV hy
        by_cases hxs : x.id = r.seg
        · simp only [hxs, if_true] at hc
          have hxe := id_inj hok.ids x hx x0 hx0 (hxs.trans hx0s.symm)
          subst hxe
          have h1 : x.count = 1 := by omega
          rw [hid, hxs]
          by_cases hcur : vw.cur = some r.seg
          · exact hcur
          · exact absurd ⟨h1, hcur⟩ hcond
        · simp only [hxs, if_false] at hc
          rw [hid]; exact hok.zero x hx (hc ▸ hy0)

/-- unregistering the last offset of a segment that is not the view's current one unmaps it -/
theorem View.unregister_unmaps {vw : View} {r : Reg}
    (hok : ViewOK vw) (hr : r ∈ vw.regs) (hlast : ∀ r' ∈ vw.regs, r'.seg = r.seg → r' = r)
    (hcur : vw.cur ≠ some r.seg) : ∀ x ∈ (vw.unregister r.seg).segs, x.id ≠ r.seg := by
  unfold View.unregister
  cases hf : vw.segs.find? (·.id = r.seg) with
  | none => exact find_none hf
  | some x0 =>
    obtain ⟨hx0, hx0s⟩ := find_id hf
    have hx0c := hok.count x0 hx0
    rw [hx0s] at hx0c
    have hd := countP_del hok.labels hr r.seg
    simp only [if_true] at hd
    have hrest : (vw.regs.filter (·.label ≠ r.label)).countP (fun r' => r'.seg = r.seg) = 0 := by
      rw [List.countP_eq_zero]
      intro r' hr'
      obtain ⟨h1, h2⟩ := List.mem_filter.1 hr'
      simp only [decide_eq_true_eq]
      intro hs
      have := hlast r' h1 hs
      subst this
      simp at h2
    have h1 : x0.count = 1 := by omega
    simp only [h1, hcur, ne_eq, not_false_eq_true, and_self, if_true]
    intro x hx
    simpa using (List.mem_filter.1 hx).2

/-- unregistering does not unmap anything else -/
theorem View.unregister_keeps_others {vw : View} {seg : Nat} {x : VSeg}
    (hx : x ∈ vw.segs) (hne : x.id ≠ seg) : x ∈ (vw.unregister seg).segs := by
  unfold View.unregister
  split
  · exact hx
  · split
    · exact List.mem_filter.2 ⟨hx, by simpa using hne⟩
    · simp only [decV, List.mem_map]
      exact ⟨x, hx, by simp [hne]⟩

/-- a mapped segment without any registered offset is the view's current segment … -/
theorem ViewOK.idle_is_current {vw : View} (hok : ViewOK vw) {x : VSeg} (hx : x ∈ vw.segs)
    (hidle : ∀ r ∈ vw.regs, r.seg ≠ x.id) : vw.cur = some x.id := by
  apply hok.zero x hx
  rw [hok.count x hx, List.countP_eq_zero]
  intro r hr
  simpa using hidle r hr

/-- … hence there is at most one such mapping -/
theorem ViewOK.idle_unique {vw : View} (hok : ViewOK vw) {x y : VSeg} (hx : x ∈ vw.segs) (hy : y ∈ vw.segs)
    (hix : ∀ r ∈ vw.regs, r.seg ≠ x.id) (hiy : ∀ r ∈ vw.regs, r.seg ≠ y.id) : x = y := by
  have h1 := hok.idle_is_current hx hix
  have h2 := hok.idle_is_current hy hiy
  rw [h1] at h2
  exact id_inj hok.ids x hx y hy (Option.some.inj h2)

end Iox2.ResizeMem
