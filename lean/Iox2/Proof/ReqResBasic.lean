/-
Basic lemmas about the request-response model: association maps, accessors (`get…` / `set…`),
field projections.  Used by the C11 proofs.
-/
import Iox2.Model.ReqRes
namespace Iox2.ReqRes

/-! ### association maps -/

namespace AMap
variable {κ α : Type} [DecidableEq κ]

theorem get_del (m : List (κ × α)) (k k' : κ) :
    get (del m k) k' = if k' = k then none else get m k' := by
  induction m with
  | nil => simp [del, get]
  | cons a m ih =>
    obtain ⟨ka, va⟩ := a
    simp only [del]
    by_cases h : ka = k
    · simp only [h, if_true, ih, get]
      by_cases h' : k' = k
      · simp [h']
      · have : ¬ k = k' := fun e => h' e.symm
        simp [h', this]
    · simp only [h, if_false, get, ih]
      by_cases h2 : ka = k'
      · have : ¬ k' = k := fun e => h (h2.trans e)
        simp [h2, this]
      · simp [h2]

theorem get_set (m : List (κ × α)) (k k' : κ) (v : α) :
    get (set m k v) k' = if k' = k then some v else get m k' := by
  simp only [set, get, get_del]
  by_cases h : k' = k
  · simp [h]
  · have : ¬ k = k' := fun e => h e.symm
    simp [h, this]

@[simp] theorem get_set_same (m : List (κ × α)) (k : κ) (v : α) : get (set m k v) k = some v := by
  simp [get_set]

theorem get_set_ne (m : List (κ × α)) (k k' : κ) (v : α) (h : k' ≠ k) : get (set m k v) k' = get m k' := by
  simp [get_set, h]

@[simp] theorem get_del_same (m : List (κ × α)) (k : κ) : get (del m k) k = none := by
  simp [get_del]

theorem get_del_ne (m : List (κ × α)) (k k' : κ) (h : k' ≠ k) : get (del m k) k' = get m k' := by
  simp [get_del, h]

@[simp] theorem get_nil (k : κ) : get ([] : List (κ × α)) k = none := rfl

end AMap

/-! ### port ids -/

@[simp] theorem cid_ne_sid (a b : Nat) : cid a ≠ sid b := by simp [cid, sid]
@[simp] theorem sid_ne_cid (a b : Nat) : sid a ≠ cid b := by simp [cid, sid]
@[simp] theorem cid_inj (a b : Nat) : cid a = cid b ↔ a = b := by simp [cid]
@[simp] theorem sid_inj (a b : Nat) : sid a = sid b ↔ a = b := by simp [sid]
@[simp] theorem cid_srv (a : Nat) : (cid a).srv = false := rfl
@[simp] theorem sid_srv (a : Nat) : (sid a).srv = true := rfl
@[simp] theorem cid_n (a : Nat) : (cid a).n = a := rfl
@[simp] theorem sid_n (a : Nat) : (sid a).n = a := rfl

theorem pid_eq_cid (p : Pid) (h : p.srv = false) : p = cid p.n := by
  cases p; simp_all [cid]
theorem pid_eq_sid (p : Pid) (h : p.srv = true) : p = sid p.n := by
  cases p; simp_all [sid]

/-! ### field projections of the setters (all by `rfl`) -/

section proj
variable (w : World) (p f t : Pid) (c s : Nat)

@[simp] theorem setSnd_cfg (x : Snd) : (setSnd w p x).cfg = w.cfg := rfl
@[simp] theorem setSnd_clientReg (x : Snd) : (setSnd w p x).clientReg = w.clientReg := rfl
@[simp] theorem setSnd_serverReg (x : Snd) : (setSnd w p x).serverReg = w.serverReg := rfl
@[simp] theorem setSnd_clients (x : Snd) : (setSnd w p x).clients = w.clients := rfl
@[simp] theorem setSnd_servers (x : Snd) : (setSnd w p x).servers = w.servers := rfl
@[simp] theorem setSnd_rcvs (x : Snd) : (setSnd w p x).rcvs = w.rcvs := rfl
@[simp] theorem setSnd_conns (x : Snd) : (setSnd w p x).conns = w.conns := rfl
@[simp] theorem setSnd_snaps (x : Snd) : (setSnd w p x).snaps = w.snaps := rfl
@[simp] theorem setSnd_panicked (x : Snd) : (setSnd w p x).panicked = w.panicked := rfl

@[simp] theorem setRcv_cfg (x : Rcv) : (setRcv w p x).cfg = w.cfg := rfl
@[simp] theorem setRcv_clientReg (x : Rcv) : (setRcv w p x).clientReg = w.clientReg := rfl
@[simp] theorem setRcv_serverReg (x : Rcv) : (setRcv w p x).serverReg = w.serverReg := rfl
@[simp] theorem setRcv_clients (x : Rcv) : (setRcv w p x).clients = w.clients := rfl
@[simp] theorem setRcv_servers (x : Rcv) : (setRcv w p x).servers = w.servers := rfl
@[simp] theorem setRcv_snds (x : Rcv) : (setRcv w p x).snds = w.snds := rfl
@[simp] theorem setRcv_conns (x : Rcv) : (setRcv w p x).conns = w.conns := rfl
@[simp] theorem setRcv_snaps (x : Rcv) : (setRcv w p x).snaps = w.snaps := rfl
@[simp] theorem setRcv_panicked (x : Rcv) : (setRcv w p x).panicked = w.panicked := rfl

@[simp] theorem setConn_cfg (x : Conn) : (setConn w f t x).cfg = w.cfg := rfl
@[simp] theorem setConn_clientReg (x : Conn) : (setConn w f t x).clientReg = w.clientReg := rfl
@[simp] theorem setConn_serverReg (x : Conn) : (setConn w f t x).serverReg = w.serverReg := rfl
@[simp] theorem setConn_clients (x : Conn) : (setConn w f t x).clients = w.clients := rfl
@[simp] theorem setConn_servers (x : Conn) : (setConn w f t x).servers = w.servers := rfl
@[simp] theorem setConn_snds (x : Conn) : (setConn w f t x).snds = w.snds := rfl
@[simp] theorem setConn_rcvs (x : Conn) : (setConn w f t x).rcvs = w.rcvs := rfl
@[simp] theorem setConn_snaps (x : Conn) : (setConn w f t x).snaps = w.snaps := rfl
@[simp] theorem setConn_panicked (x : Conn) : (setConn w f t x).panicked = w.panicked := rfl

@[simp] theorem delConn_cfg : (delConn w f t).cfg = w.cfg := rfl
@[simp] theorem delConn_clientReg : (delConn w f t).clientReg = w.clientReg := rfl
@[simp] theorem delConn_serverReg : (delConn w f t).serverReg = w.serverReg := rfl
@[simp] theorem delConn_clients : (delConn w f t).clients = w.clients := rfl
@[simp] theorem delConn_servers : (delConn w f t).servers = w.servers := rfl
@[simp] theorem delConn_snds : (delConn w f t).snds = w.snds := rfl
@[simp] theorem delConn_rcvs : (delConn w f t).rcvs = w.rcvs := rfl
@[simp] theorem delConn_snaps : (delConn w f t).snaps = w.snaps := rfl
@[simp] theorem delConn_panicked : (delConn w f t).panicked = w.panicked := rfl

@[simp] theorem setCl_cfg (x : Client) : (setCl w c x).cfg = w.cfg := rfl
@[simp] theorem setCl_clientReg (x : Client) : (setCl w c x).clientReg = w.clientReg := rfl
@[simp] theorem setCl_serverReg (x : Client) : (setCl w c x).serverReg = w.serverReg := rfl
@[simp] theorem setCl_servers (x : Client) : (setCl w c x).servers = w.servers := rfl
@[simp] theorem setCl_snds (x : Client) : (setCl w c x).snds = w.snds := rfl
@[simp] theorem setCl_rcvs (x : Client) : (setCl w c x).rcvs = w.rcvs := rfl
@[simp] theorem setCl_conns (x : Client) : (setCl w c x).conns = w.conns := rfl
@[simp] theorem setCl_snaps (x : Client) : (setCl w c x).snaps = w.snaps := rfl
@[simp] theorem setCl_panicked (x : Client) : (setCl w c x).panicked = w.panicked := rfl

@[simp] theorem setSv_cfg (x : Server) : (setSv w s x).cfg = w.cfg := rfl
@[simp] theorem setSv_clientReg (x : Server) : (setSv w s x).clientReg = w.clientReg := rfl
@[simp] theorem setSv_serverReg (x : Server) : (setSv w s x).serverReg = w.serverReg := rfl
@[simp] theorem setSv_clients (x : Server) : (setSv w s x).clients = w.clients := rfl
@[simp] theorem setSv_snds (x : Server) : (setSv w s x).snds = w.snds := rfl
@[simp] theorem setSv_rcvs (x : Server) : (setSv w s x).rcvs = w.rcvs := rfl
@[simp] theorem setSv_conns (x : Server) : (setSv w s x).conns = w.conns := rfl
@[simp] theorem setSv_snaps (x : Server) : (setSv w s x).snaps = w.snaps := rfl
@[simp] theorem setSv_panicked (x : Server) : (setSv w s x).panicked = w.panicked := rfl

@[simp] theorem setSnap_cfg (x : Snap) : (setSnap w p x).cfg = w.cfg := rfl
@[simp] theorem setSnap_clientReg (x : Snap) : (setSnap w p x).clientReg = w.clientReg := rfl
@[simp] theorem setSnap_serverReg (x : Snap) : (setSnap w p x).serverReg = w.serverReg := rfl
@[simp] theorem setSnap_clients (x : Snap) : (setSnap w p x).clients = w.clients := rfl
@[simp] theorem setSnap_servers (x : Snap) : (setSnap w p x).servers = w.servers := rfl
@[simp] theorem setSnap_snds (x : Snap) : (setSnap w p x).snds = w.snds := rfl
@[simp] theorem setSnap_rcvs (x : Snap) : (setSnap w p x).rcvs = w.rcvs := rfl
@[simp] theorem setSnap_conns (x : Snap) : (setSnap w p x).conns = w.conns := rfl
@[simp] theorem setSnap_panicked (x : Snap) : (setSnap w p x).panicked = w.panicked := rfl

end proj

/-! ### get after set -/

section getset
variable (w : World)

@[simp] theorem getSnd_setSnd (p p' : Pid) (x : Snd) :
    getSnd (setSnd w p x) p' = if p' = p then some x else getSnd w p' := by
  simp [getSnd, setSnd, AMap.get_set]
@[simp] theorem getRcv_setRcv (p p' : Pid) (x : Rcv) :
    getRcv (setRcv w p x) p' = if p' = p then some x else getRcv w p' := by
  simp [getRcv, setRcv, AMap.get_set]
@[simp] theorem getCl_setCl (c c' : Nat) (x : Client) :
    getCl (setCl w c x) c' = if c' = c then some x else getCl w c' := by
  simp [getCl, setCl, AMap.get_set]
@[simp] theorem getSv_setSv (s s' : Nat) (x : Server) :
    getSv (setSv w s x) s' = if s' = s then some x else getSv w s' := by
  simp [getSv, setSv, AMap.get_set]

theorem getConn_setConn (f t f' t' : Pid) (x : Conn) :
    getConn (setConn w f t x) f' t' = if f' = f ∧ t' = t then some x else getConn w f' t' := by
  simp only [getConn, setConn, AMap.get_set, Prod.mk.injEq]
theorem getConn_delConn (f t f' t' : Pid) :
    getConn (delConn w f t) f' t' = if f' = f ∧ t' = t then none else getConn w f' t' := by
  simp only [getConn, delConn, AMap.get_del, Prod.mk.injEq]

@[simp] theorem getConn_setConn_same (f t : Pid) (x : Conn) : getConn (setConn w f t x) f t = some x := by
  simp [getConn_setConn]
@[simp] theorem getConn_delConn_same (f t : Pid) : getConn (delConn w f t) f t = none := by
  simp [getConn_delConn]

-- unrelated accessors commute (by `rfl`)
@[simp] theorem getSnd_setRcv (p p' : Pid) (x : Rcv) : getSnd (setRcv w p x) p' = getSnd w p' := rfl
@[simp] theorem getSnd_setConn (f t p' : Pid) (x : Conn) : getSnd (setConn w f t x) p' = getSnd w p' := rfl
@[simp] theorem getSnd_delConn (f t p' : Pid) : getSnd (delConn w f t) p' = getSnd w p' := rfl
@[simp] theorem getSnd_setCl (c : Nat) (p' : Pid) (x : Client) : getSnd (setCl w c x) p' = getSnd w p' := rfl
@[simp] theorem getSnd_setSv (s : Nat) (p' : Pid) (x : Server) : getSnd (setSv w s x) p' = getSnd w p' := rfl

@[simp] theorem getRcv_setSnd (p p' : Pid) (x : Snd) : getRcv (setSnd w p x) p' = getRcv w p' := rfl
@[simp] theorem getRcv_setConn (f t p' : Pid) (x : Conn) : getRcv (setConn w f t x) p' = getRcv w p' := rfl
@[simp] theorem getRcv_delConn (f t p' : Pid) : getRcv (delConn w f t) p' = getRcv w p' := rfl
@[simp] theorem getRcv_setCl (c : Nat) (p' : Pid) (x : Client) : getRcv (setCl w c x) p' = getRcv w p' := rfl
@[simp] theorem getRcv_setSv (s : Nat) (p' : Pid) (x : Server) : getRcv (setSv w s x) p' = getRcv w p' := rfl

@[simp] theorem getConn_setSnd (p f t : Pid) (x : Snd) : getConn (setSnd w p x) f t = getConn w f t := rfl
@[simp] theorem getConn_setRcv (p f t : Pid) (x : Rcv) : getConn (setRcv w p x) f t = getConn w f t := rfl
@[simp] theorem getConn_setCl (c : Nat) (f t : Pid) (x : Client) : getConn (setCl w c x) f t = getConn w f t := rfl
@[simp] theorem getConn_setSv (s : Nat) (f t : Pid) (x : Server) : getConn (setSv w s x) f t = getConn w f t := rfl

@[simp] theorem getCl_setSnd (p : Pid) (c : Nat) (x : Snd) : getCl (setSnd w p x) c = getCl w c := rfl
@[simp] theorem getCl_setRcv (p : Pid) (c : Nat) (x : Rcv) : getCl (setRcv w p x) c = getCl w c := rfl
@[simp] theorem getCl_setConn (f t : Pid) (c : Nat) (x : Conn) : getCl (setConn w f t x) c = getCl w c := rfl
@[simp] theorem getCl_delConn (f t : Pid) (c : Nat) : getCl (delConn w f t) c = getCl w c := rfl
@[simp] theorem getCl_setSv (s c : Nat) (x : Server) : getCl (setSv w s x) c = getCl w c := rfl

@[simp] theorem getSv_setSnd (p : Pid) (s : Nat) (x : Snd) : getSv (setSnd w p x) s = getSv w s := rfl
@[simp] theorem getSv_setRcv (p : Pid) (s : Nat) (x : Rcv) : getSv (setRcv w p x) s = getSv w s := rfl
@[simp] theorem getSv_setConn (f t : Pid) (s : Nat) (x : Conn) : getSv (setConn w f t x) s = getSv w s := rfl
@[simp] theorem getSv_delConn (f t : Pid) (s : Nat) : getSv (delConn w f t) s = getSv w s := rfl
@[simp] theorem getSv_setCl (c s : Nat) (x : Client) : getSv (setCl w c x) s = getSv w s := rfl

@[simp] theorem getSnap_setSnap (p p' : Pid) (x : Snap) :
    getSnap (setSnap w p x) p' = if p' = p then some x else getSnap w p' := by
  simp [getSnap, setSnap, AMap.get_set]
@[simp] theorem getSnap_setSnd (p p' : Pid) (x : Snd) : getSnap (setSnd w p x) p' = getSnap w p' := rfl
@[simp] theorem getSnap_setRcv (p p' : Pid) (x : Rcv) : getSnap (setRcv w p x) p' = getSnap w p' := rfl
@[simp] theorem getSnap_setConn (f t p' : Pid) (x : Conn) : getSnap (setConn w f t x) p' = getSnap w p' := rfl
@[simp] theorem getSnap_delConn (f t p' : Pid) : getSnap (delConn w f t) p' = getSnap w p' := rfl
@[simp] theorem getSnap_setCl (c : Nat) (p' : Pid) (x : Client) : getSnap (setCl w c x) p' = getSnap w p' := rfl
@[simp] theorem getSnap_setSv (s : Nat) (p' : Pid) (x : Server) : getSnap (setSv w s x) p' = getSnap w p' := rfl
@[simp] theorem getSnd_setSnap (p p' : Pid) (x : Snap) : getSnd (setSnap w p x) p' = getSnd w p' := rfl
@[simp] theorem getRcv_setSnap (p p' : Pid) (x : Snap) : getRcv (setSnap w p x) p' = getRcv w p' := rfl
@[simp] theorem getConn_setSnap (p f t : Pid) (x : Snap) : getConn (setSnap w p x) f t = getConn w f t := rfl
@[simp] theorem getCl_setSnap (p : Pid) (c : Nat) (x : Snap) : getCl (setSnap w p x) c = getCl w c := rfl
@[simp] theorem getSv_setSnap (p : Pid) (s : Nat) (x : Snap) : getSv (setSnap w p x) s = getSv w s := rfl

end getset

end Iox2.ReqRes
