/-
C02 — facts derived from the invariant and generic accounting updates (topology unchanged).
-/
import Iox2.Proof.PubSubC02PubLemmas

namespace Iox2.PubSub.C02P
open Iox2.PubSub
open Iox2.C16.SlotMapP (abs WInv)

/-! ### facts derived from the invariant -/

theorem TopInv.conn_unique {G : GT} {w : World} (hi : TopInv G w) {p : Nat} {P : Pub}
    (hP : getP w p = some P) {s : Nat} :
    ∀ i j : Nat, P.conns[i]? = some (some s) → P.conns[j]? = some (some s) → i = j := by
  intro i j h1 h2
  obtain ⟨S1, hS1, e1, _⟩ := (hi.pubs p P hP).conn i s h1
  obtain ⟨S2, hS2, e2, _⟩ := (hi.pubs p P hP).conn j s h2
  rw [hS1] at hS2; cases hS2
  omega

theorem TopInv.ex_of_mem {G : GT} {w : World} (hi : TopInv G w) {p : Nat} {P : Pub}
    (hP : getP w p = some P) {s : Nat} (hm : some s ∈ P.conns) : P.ex = true := by
  cases h : P.ex with
  | true => rfl
  | false => have := (hi.pubs p P hP).dead h _ hm; simp at this

/-- everything the invariant says about a connection the sender is attached to -/
theorem Inv.sender {G : GT} {A : GA} {w : World} (hi : Inv G A w) {p s : Nat} {P : Pub} {c : Conn}
    (hP : getP w p = some P) (hC : getC w p s = some c) (hs : c.sAtt = true) :
    c.pid = p ∧ c.sid = s ∧ some s ∈ P.conns ∧ P.ex = true ∧ PubAcc A w p P ∧
    ∃ S, getS w s = some S ∧ ConnTop c P S ∧ ConnAcc w.cfg c P S := by
  obtain ⟨hpid, hsid, _⟩ := getC_some hC
  obtain ⟨P0, S, hP0, hS, ct⟩ := hi.top.conns p s c hC
  rw [hP] at hP0; cases hP0
  have hmem : some s ∈ P.conns := by rw [← hsid]; exact ct.sAtt.mp hs
  have hex := hi.top.ex_of_mem hP hmem
  exact ⟨hpid, hsid, hmem, hex, (hi.acc.pubs p P hP).1 hex, S, hS, ct, hi.acc.conns p s c hC P S hP hS⟩

theorem usedBit_of_getC {w : World} {p s : Nat} {c : Conn} (hC : getC w p s = some c) (x : Nat) :
    usedBit w p s x = c.used.getD x false := by
  unfold usedBit; rw [hC]

/-! ### generic accounting updates (topology unchanged) -/

/-- the world after replacing publisher `p` and its connection to `s` -/
theorem get_update_PC {w : World} {p s : Nat} {P P' : Pub} {c c' : Conn}
    (hP : getP w p = some P) (hC : getC w p s = some c) (ec : ctop c' = ctop c) :
    (∀ q, getP (setC (setP w p P') c') q = if q = p then some P' else getP w q) ∧
    (∀ a b, getC (setC (setP w p P') c') a b = if a = p ∧ b = s then some c' else getC w a b) ∧
    (∀ t, getS (setC (setP w p P') c') t = getS w t) ∧
    (∀ a b x, ¬ (a = p ∧ b = s) → usedBit (setC (setP w p P') c') a b x = usedBit w a b x) ∧
    (∀ x, usedBit (setC (setP w p P') c') p s x = c'.used.getD x false) := by
  obtain ⟨hpid, hsid, _⟩ := getC_some hC
  obtain ⟨g1, g2, _, _⟩ := ctop_eq ec
  have hgC : ∀ a b, getC (setC (setP w p P') c') a b =
      if a = p ∧ b = s then some c' else getC w a b := by
    intro a b
    rw [getC_setC]
    simp only [g1, g2, hpid, hsid, getC_setP]
    split
    · rename_i h; rw [h.1, h.2, hC]; rfl
    · rfl
  refine ⟨?_, hgC, fun _ => rfl, ?_, ?_⟩
  · intro q; simp [hP]
  · intro a b x hab; unfold usedBit; rw [hgC]; simp [hab]
  · intro x; unfold usedBit; rw [hgC]; simp

/-- Publisher `p` and its connection to `s` change, the topology does not. -/
theorem Inv.update_PC {G : GT} {A : GA} {w : World} {p s : Nat} {P P' : Pub} {c c' : Conn}
    (hi : Inv G A w) (hP : getP w p = some P) (hC : getC w p s = some c)
    (ep : ptop P' = ptop P) (ec : ctop c' = ctop c) (hn : P'.n = P.n)
    (hpay : P'.payload = P.payload)
    (hpa : P.ex = true → PubAcc A (setC (setP w p P') c') p P')
    (hpl : P.ex = false → P'.loans = [])
    (hca : ∀ S, getS w s = some S → ConnAcc w.cfg c' P' S) :
    Inv G A (setC (setP w p P') c') := by
  obtain ⟨hgP, hgC, hgS, hubo, -⟩ := get_update_PC (P' := P') hP hC ec
  obtain ⟨e1, e2, e3, e4, e5⟩ := ptop_eq ep
  refine ⟨?_, ?_, ?_, ?_⟩
  · apply top_congr hi.top
    exact (topEq_setP hi.top.reg.nodup hP ep).trans
      (topEq_setC (w := setP w p P') (c := c) hi.top.reg.nodup hC ec)
  · intro q Q hQ
    rw [hgP] at hQ
    by_cases hq : q = p
    · subst hq
      simp only [if_true, Option.some.injEq] at hQ
      subst hQ
      exact ⟨fun h => hpa (by rw [← e2]; exact h), fun h => hpl (by rw [← e2]; exact h)⟩
    · simp only [hq, if_false] at hQ
      obtain ⟨h1, h2⟩ := hi.acc.pubs q Q hQ
      exact ⟨fun hx => (h1 hx).congr (fun t x _ => hubo q t x (fun h => hq h.1)), h2⟩
  · intro t T hT
    rw [hgS] at hT
    obtain ⟨h1, h2, h3⟩ := hi.acc.subs t T hT
    refine ⟨h1, h2, fun ha x hx => ?_⟩
    obtain ⟨Q, hQ, hq⟩ := h3 ha x hx
    rw [hgP]
    by_cases hxp : x.pid = p
    · rw [hxp] at hQ; rw [hP] at hQ; cases hQ
      exact ⟨P', by simp [hxp], by rw [hpay]; exact hq⟩
    · exact ⟨Q, by simp [hxp, hQ], hq⟩
  · intro a b cn hcn Pa Sb hPa hSb
    rw [hgC] at hcn; rw [hgP] at hPa; rw [hgS] at hSb
    show ConnAcc w.cfg cn Pa Sb
    by_cases hab : a = p ∧ b = s
    · obtain ⟨rfl, rfl⟩ := hab
      simp only [and_self, if_true, Option.some.injEq] at hcn hPa
      subst hcn; subst hPa
      exact hca Sb hSb
    · simp only [hab, if_false] at hcn
      by_cases ha : a = p
      · subst ha
        simp only [if_true, Option.some.injEq] at hPa
        subst hPa
        exact (hi.acc.conns a b cn hcn P Sb hP hSb).congr hn e2 rfl rfl
      · simp only [ha, if_false] at hPa
        exact hi.acc.conns a b cn hcn Pa Sb hPa hSb

/-- Only publisher `p` changes (its accounting fields), no connection does. -/
theorem Inv.update_P {G : GT} {A : GA} {w : World} {p : Nat} {P P' : Pub}
    (hi : Inv G A w) (hP : getP w p = some P)
    (ep : ptop P' = ptop P) (hn : P'.n = P.n)
    (hpay : P'.payload = P.payload)
    (hpa : P.ex = true → PubAcc A (setP w p P') p P')
    (hpl : P.ex = false → P'.loans = []) :
    Inv G A (setP w p P') := by
  have hgP : ∀ q, getP (setP w p P') q = if q = p then some P' else getP w q := by
    intro q; simp [hP]
  obtain ⟨e1, e2, e3, e4, e5⟩ := ptop_eq ep
  refine ⟨top_congr hi.top (topEq_setP hi.top.reg.nodup hP ep), ?_, ?_, ?_⟩
  · intro q Q hQ
    rw [hgP] at hQ
    by_cases hq : q = p
    · subst hq
      simp only [if_true, Option.some.injEq] at hQ
      subst hQ
      exact ⟨fun h => hpa (by rw [← e2]; exact h), fun h => hpl (by rw [← e2]; exact h)⟩
    · simp only [hq, if_false] at hQ
      obtain ⟨h1, h2⟩ := hi.acc.pubs q Q hQ
      exact ⟨fun hx => (h1 hx).congr (fun t x _ => rfl), h2⟩
  · intro t T hT
    obtain ⟨h1, h2, h3⟩ := hi.acc.subs t T hT
    refine ⟨h1, h2, fun ha x hx => ?_⟩
    obtain ⟨Q, hQ, hq⟩ := h3 ha x hx
    rw [hgP]
    by_cases hxp : x.pid = p
    · rw [hxp] at hQ; rw [hP] at hQ; cases hQ
      exact ⟨P', by simp [hxp], by rw [hpay]; exact hq⟩
    · exact ⟨Q, by simp [hxp, hQ], hq⟩
  · intro a b cn hcn Pa Sb hPa hSb
    rw [hgP] at hPa
    show ConnAcc w.cfg cn Pa Sb
    by_cases ha : a = p
    · subst ha
      simp only [if_true, Option.some.injEq] at hPa
      subst hPa
      exact (hi.acc.conns a b cn hcn P Sb hP hSb).congr hn e2 rfl rfl
    · simp only [ha, if_false] at hPa
      exact hi.acc.conns a b cn hcn Pa Sb hPa hSb

end Iox2.PubSub.C02P
