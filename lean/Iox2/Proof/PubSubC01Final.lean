/-
All three layers of the invariant hold in every reachable state; consequences for the C01 theorems.
-/
import Iox2.Proof.PubSubC01B18
import Iox2.Proof.PubSubC01BL3
import Iox2.Proof.PubSubC01FinalC
namespace Iox2.PubSub.C01P
open Iox2.PubSub

variable {cfg : Cfg} {w : World}

theorem InvB.init (cfg : Cfg) : InvB none (World.init cfg) := by
  have hP : ∀ a, getP (World.init cfg) a = none := fun _ => rfl
  constructor
  · exact List.Pairwise.nil
  · intro p P h; rw [hP] at h; cases h
  · intro c hc; cases hc
  · intro p P h; rw [hP] at h; cases h
  · intro p P h; rw [hP] at h; cases h
  · intro p P h; rw [hP] at h; cases h
  · intro p P h; rw [hP] at h; cases h
  · intro p P h; rw [hP] at h; cases h
  · intro p c fr h; cases h
  · intro c hc; cases hc
  · intro c hc; cases hc
  · intro c hc; cases hc

theorem invB_step (hA : InvA cfg none none w) (hB : InvB none w) (op : Op) : InvB none (step w op).1 := by
  cases op with
  | cpub p ml => exact invB_step_cpub hA hB p ml
  | dpub p => exact invB_step_dpub hA hB p
  | csub s b hh => exact invB_step_csub hA hB s b hh
  | dsub s => exact invB_step_dsub hB s
  | loan p l => exact invB_step_loan hA hB p l
  | send p l tag => exact invB_step_send hA hB p l tag
  | dloan p l => exact invB_step_dloan hA hB p l
  | recv s => exact invB_step_recv hB s
  | dsample s k => exact invB_step_dsample hB s k
  | updP p => exact invB_step_updP hA hB p
  | updS s => exact invB_step_updS hB s
  | has s => exact invB_step_has hB s
  | probe p => exact invB_step_probe hA hB p

/-- the complete invariant -/
structure Inv (cfg : Cfg) (w : World) : Prop where
  a : InvA cfg none none w
  b : InvB none w
  c : InvC none none w

theorem Inv.step (hc : cfg.Sane) (h : Inv cfg w) (op : Op) : Inv cfg (step w op).1 :=
  ⟨invA_step hc h.a op, invB_step h.a h.b op, invC_step hc h.a h.b h.c op⟩

theorem reach_inv (hc : cfg.Sane) (h : Reach cfg w) : Inv cfg w := by
  induction h with
  | init => exact ⟨InvA.init cfg, InvB.init cfg, InvC.init cfg⟩
  | step op _ _ ih => exact ih.step hc op

/-- every sample waiting in the buffer of a live subscriber carries the payload written for its number -/
theorem payload_of_inv (h : Inv cfg w) (s : Nat) (S : Sub) (hs : getS w s = some S) (hl : S.alive = true)
    (cn : Conn) (hcn : cn ∈ w.conns) (hsid : cn.sid = s) (ch q : Nat) (hq : (ch, q) ∈ cn.sub) :
    ∃ P, getP w cn.pid = some P ∧ P.payload.getD ch 0 = P.sent.getD q 0 ∧ q < P.seq := by
  obtain ⟨⟨P, hP⟩, _⟩ := h.a.ends cn hcn
  exact ⟨P, hP, h.b.ppi cn hcn P S hP (hsid ▸ hs) (Or.inr hl) ch q hq⟩

end Iox2.PubSub.C01P

namespace Iox2.PubSub.C01P
open Iox2.PubSub

variable {cfg : Cfg} {w : World}

theorem list_ne_append_singleton {α : Type} (l : List α) (a : α) : l ≠ l ++ [a] := by
  intro h
  have := congrArg List.length h
  simp at this

/-- what `receive` reports is the payload written for the send number of the sample it hands out -/
theorem recv_of_inv (h : Inv cfg w) (hnp : w.panicked = false) (s : Nat) (S' : Sub) (hd : Held)
    (hs : getS (step w (.recv s)).1 s = some S') (S : Sub) (hs0 : getS w s = some S)
    (hnew : S'.held = S.held ++ [hd]) :
    ∃ P, getP w hd.pid = some P ∧ hd.tag = P.sent.getD hd.seq 0 ∧
      (step w (.recv s)).2 = s!"some:{hd.pid}:{hd.tag}" := by
  rw [step_recv] at hs ⊢
  rw [hs0] at hs ⊢
  simp only at hs ⊢
  by_cases hal : (!S.alive) = true
  · rw [if_pos hal] at hs
    simp only at hs
    rw [hs0] at hs; cases hs
    exact absurd hnew (list_ne_append_singleton _ _)
  · rw [if_neg hal] at hs ⊢
    simp only [Bool.not_eq_true', Bool.not_eq_false] at hal
    by_cases hp : (subUpdate w s).panicked = true
    · rw [if_pos hp] at hs
      simp only at hs
      have : getS ({ w with panicked := true } : World) s = getS w s := rfl
      rw [this, hs0] at hs; cases hs
      exact absurd hnew (list_ne_append_singleton _ _)
    · rw [if_neg hp] at hs ⊢
      have f1 := subUpdate_frame w s
      have hA1 : InvA cfg none none (subUpdate w s) := by
        rcases h.a.subUpdate s (fun S0 hS0 => by rw [hs0] at hS0; cases hS0; exact hal) with h1 | h1
        · exact absurd h1 hp
        · exact h1
      have hB1 : InvB none (subUpdate w s) := h.b.subStep (subUpdate_step w s)
      have post := subReceive_post (I := fun w => InvA cfg none none w ∧ InvB none w)
        (fun w s S t hI hS => ⟨hI.1.setS_tbr hS t, hI.2.setS_irrel hS rfl id⟩)
        (fun w s key hI => ⟨hI.1.subDropConn s key, hI.2.subStep (subDropConn_step w s key)⟩) s ⟨hA1, hB1⟩
      generalize subReceive (subUpdate w s) s = r at post hs ⊢
      obtain ⟨w2, res⟩ := r
      obtain ⟨f2, post⟩ := post
      have fr := f1.trans f2
      -- nothing received: the held list did not change
      have hsame : ∀ S2, getS w2 s = some S2 → S2.held = S.held := by
        intro S2 hS2
        obtain ⟨S0, hS0, st⟩ := fr.ssome' hS2
        rw [hs0] at hS0; cases hS0
        exact st.held
      cases res with
      | none =>
        simp only at hs
        exact absurd ((hsame S' hs).symm.trans hnew) (list_ne_append_singleton _ _)
      | maxBorrow =>
        simp only at hs
        exact absurd ((hsame S' hs).symm.trans hnew) (list_ne_append_singleton _ _)
      | some key p ch q =>
        simp only at hs post ⊢
        obtain ⟨w', c, rest, hI, fw', hC, hsub, ⟨S1, hS1, _⟩, hw2⟩ := post
        have hS2 : getS w2 s = some S1 := by rw [hw2, getS_setC]; exact hS1
        rw [hS2] at hs ⊢
        simp only at hs ⊢
        rw [getS_setS_self _ hS2] at hs
        simp only [Option.some.injEq] at hs
        subst hs
        simp only at hnew
        rw [hsame S1 hS2] at hnew
        have hhd := List.append_cancel_left hnew
        simp only [List.cons.injEq, and_true] at hhd
        subst hhd
        simp only
        -- the payload claim from layer B in the world `w'` just before the pop
        obtain ⟨hcm, hcp, hcs⟩ := getC_some hC
        obtain ⟨⟨P, hP⟩, _⟩ := hI.1.ends c hcm
        have frw' := f1.trans fw'
        obtain ⟨S0, hS0, st⟩ := frw'.ssome' hS1
        rw [hs0] at hS0; cases hS0
        have hppi := hI.2.ppi c hcm P S1 hP (hcs ▸ hS1) (Or.inr (by rw [st.alive]; exact hal)) ch q
          (by rw [hsub]; simp)
        have hPw : getP w p = some P := by
          rw [← frw'.getP p, ← hcp]; exact hP
        have hPw2 : getP w2 p = some P := by
          rw [fr.getP p]; exact hPw
        have htag : recvTag w2 p ch = P.payload.getD ch 0 := by
          unfold recvTag; rw [hPw2]
        refine ⟨P, hPw, ?_, trivial⟩
        show recvTag w2 p ch = P.sent.getD q 0
        rw [htag]; exact hppi.1

end Iox2.PubSub.C01P
