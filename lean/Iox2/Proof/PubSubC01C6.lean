/-
Layer C: `send` — the sample gets its number, enters the history and is pushed into every connection.
-/
import Iox2.Proof.PubSubC01C5
import Iox2.Proof.PubSubC01InvB
namespace Iox2.PubSub.C01P
open Iox2.PubSub

variable {cfg : Cfg} {np ns : Option Nat} {w : World}

/-- the only fact needed from layer B: a loaned chunk is a valid chunk that is not in the history -/
theorem loan_not_hist (hB : InvB none w) {p l c : Nat} {P : Pub} (hP : getP w p = some P) (hex : P.ex = true)
    (hl : (l, c) ∈ P.loans) : c ∉ P.hist ∧ c < P.chunkSeq.length := by
  obtain ⟨hlt, hrc1⟩ := (hB.loans p P hP hex).2 l c hl
  have hrc := hB.rc p P hP hex c hlt
  have h1 : 1 ≤ (P.loans.filter (·.2 = c)).length :=
    List.length_pos_of_mem (List.mem_filter.mpr ⟨hl, by simp⟩)
  have h0 : (P.hist.filter (· = c)).length = 0 := by omega
  refine ⟨fun hm => ?_, by rw [(hB.lens p P hP).2.2.1]; exact hlt⟩
  have : c ∈ P.hist.filter (· = c) := List.mem_filter.mpr ⟨hm, by simp⟩
  have := List.length_pos_of_mem this
  omega

theorem sendHist_spec (hist : Nat) (P : Pub) (c : Nat) :
    (sendHist hist P c).seq = P.seq ∧ (sendHist hist P c).chunkSeq = P.chunkSeq ∧
    (sendHist hist P c).ex = P.ex ∧ (sendHist hist P c).conns = P.conns ∧
    ((sendHist hist P c).hist = P.hist ∨ (sendHist hist P c).hist = P.hist ++ [c] ∨
      (sendHist hist P c).hist = P.hist.tail ++ [c]) := by
  unfold sendHist
  split
  · exact ⟨rfl, rfl, rfl, rfl, Or.inl rfl⟩
  · simp only
    split
    · split
      · rename_i hnil
        have hnil' : P.hist = [] := hnil
        exact ⟨rfl, rfl, rfl, rfl, Or.inr (Or.inl (by rw [hnil']; rfl))⟩
      · rename_i old rest hcons
        have hcons' : P.hist = old :: rest := hcons
        have st := releaseChunk_stable { P.borrowChunk c with hist := rest ++ [c] } old
        refine ⟨st.seq, st.chunkSeq, st.ex, releaseChunk_conns _ old, Or.inr (Or.inr ?_)⟩
        rw [st.hist, hcons']; rfl
    · exact ⟨rfl, rfl, rfl, rfl, Or.inr (Or.inl rfl)⟩

/-- the sample gets its number and enters the history -/
theorem InvK.stamp (hK : InvK none none w) {p c : Nat} {P P' : Pub} (hP : getP w p = some P)
    (hc1 : c ∉ P.hist) (hc2 : c < P.chunkSeq.length)
    (h1 : P'.seq = P.seq + 1) (h2 : P'.chunkSeq = P.chunkSeq.set c P.seq) (h3 : P'.ex = P.ex)
    (h4 : P'.conns = P.conns)
    (h5 : P'.hist = P.hist ∨ P'.hist = P.hist ++ [c] ∨ P'.hist = P.hist.tail ++ [c]) :
    InvK (some (p, P.seq)) none (setP w p P') := by
  have hQ : ∀ a Q, getP (setP w p P') a = some Q → (a = p ∧ Q = P') ∨ (a ≠ p ∧ getP w a = some Q) := by
    intro a Q h
    rw [getP_setP] at h
    by_cases hap : a = p
    · subst hap
      rw [if_pos rfl, hP] at h
      simp only [Option.map_some, Option.some.injEq] at h
      exact Or.inl ⟨rfl, h.symm⟩
    · rw [if_neg hap] at h
      exact Or.inr ⟨hap, h⟩
  obtain ⟨hm1, hm2⟩ := hK.hmono p P hP
  have hold : ∀ x ∈ P.hist, P'.chunkSeq.getD x 0 = P.chunkSeq.getD x 0 := by
    intro x hx
    have hne : c ≠ x := fun h => hc1 (h ▸ hx)
    rw [h2, List.getD_eq_getElem?_getD, List.getD_eq_getElem?_getD, List.getElem?_set_ne hne]
  have hnew : P'.chunkSeq.getD c 0 = P.seq := by
    rw [h2, List.getD_eq_getElem?_getD, List.getElem?_set_self hc2]; rfl
  have hsnoc : ∀ H : List Nat, H.Sublist P.hist → P'.hist = H ++ [c] →
      (P'.hist.map fun x => P'.chunkSeq.getD x 0).Pairwise (· < ·) ∧
      ∀ x ∈ P'.hist, P'.chunkSeq.getD x 0 < P'.seq := by
    intro H hH he
    have hmap : H.map (fun x => P'.chunkSeq.getD x 0) = H.map (fun x => P.chunkSeq.getD x 0) :=
      List.map_congr_left (fun x hx => hold x (hH.subset hx))
    rw [he, h1]
    refine ⟨?_, fun x hx => ?_⟩
    · rw [List.map_append, hmap, List.pairwise_append]
      refine ⟨hm1.sublist (hH.map _), by simp, fun a ha b hb => ?_⟩
      simp only [List.map_cons, List.map_nil, List.mem_singleton] at hb
      obtain ⟨x, hx, rfl⟩ := List.mem_map.mp ha
      rw [hb, hnew]; exact hm2 x (hH.subset hx)
    · rcases List.mem_append.mp hx with hx | hx
      · rw [hold x (hH.subset hx)]; have := hm2 x (hH.subset hx); omega
      · simp only [List.mem_singleton] at hx; subst hx; rw [hnew]; omega
  refine ⟨fun a Q h => ?_, fun a b cn hcn Q h => ?_, fun a b cn hcn hsa hne Q h => ?_,
    fun a Q h hex i b hi cn hcn hsa q g1 g2 g3 => ?_, hK.smono⟩
  · rcases hQ a Q h with ⟨rfl, rfl⟩ | ⟨_, h0⟩
    · rcases h5 with e | e | e
      · rw [e, h1]
        have hmap : P.hist.map (fun x => Q.chunkSeq.getD x 0) = P.hist.map (fun x => P.chunkSeq.getD x 0) :=
          List.map_congr_left hold
        rw [hmap]
        exact ⟨hm1, fun x hx => by rw [hold x hx]; have := hm2 x hx; omega⟩
      · exact hsnoc P.hist (List.Sublist.refl _) e
      · exact hsnoc P.hist.tail (List.tail_sublist _) e
    · exact hK.hmono a Q h0
  · rw [getC_setP] at hcn
    rcases hQ a Q h with ⟨rfl, rfl⟩ | ⟨_, h0⟩
    · obtain ⟨o1, o2⟩ := hK.dlt a b cn hcn P hP
      exact ⟨fun q hq => by rw [h1]; have := o1 q hq; omega, o2⟩
    · exact hK.dlt a b cn hcn Q h0
  · rw [getC_setP] at hcn
    rcases hQ a Q h with ⟨rfl, rfl⟩ | ⟨_, h0⟩
    · obtain ⟨o1, o2⟩ := hK.hfirst a b cn hcn hsa hne P hP
      exact ⟨by rw [h1]; omega, o2⟩
    · exact hK.hfirst a b cn hcn hsa hne Q h0
  · rw [getC_setP] at hcn
    rcases hQ a Q h with ⟨rfl, rfl⟩ | ⟨_, h0⟩
    · have hq : q ≠ P.seq := fun hh => g3 (by rw [hh])
      rw [h1] at g2
      exact hK.nlost a P hP (h3 ▸ hex) i b (h4 ▸ hi) cn hcn hsa q g1 (by omega) (by simp)
    · exact hK.nlost a Q h0 hex i b hi cn hcn hsa q g1 g2 (by simp)

/-- all connections have been visited -/
theorem InvK.close {p q : Nat} (hK : InvK (some (p, q)) none w)
    (hall : ∀ P, getP w p = some P → ∀ (i : Nat) s, P.conns[i]? = some (some s) → ∀ cn, getC w p s = some cn →
      q ∈ cn.gDelivered ∨ q ∈ cn.gSkipped) : InvK none none w := by
  refine ⟨hK.hmono, hK.dlt, hK.hfirst, fun a Q h hex i b hi cn hcn hsa y g1 g2 _ => ?_, hK.smono⟩
  by_cases hk : a = p ∧ y = q
  · obtain ⟨rfl, rfl⟩ := hk
    exact hall Q h i b hi cn hcn
  · refine hK.nlost a Q h hex i b hi cn hcn hsa y g1 g2 (fun hh => hk ?_)
    simp only [Option.some.injEq, Prod.mk.injEq] at hh
    exact ⟨hh.1.symm, hh.2.symm⟩

/-- the subscribers listed in the connection array are pairwise different -/
def DistinctSome (l : List (Option Nat)) : Prop := l.Pairwise fun a b => ∀ s, a = some s → b ≠ some s

theorem InvA.distinct_conns (hA : InvA cfg np ns w) {p : Nat} {P : Pub} (hP : getP w p = some P) :
    DistinctSome P.conns := by
  unfold DistinctSome
  rw [List.pairwise_iff_getElem]
  intro i j hi hj hij s h1 h2
  have e1 : P.conns[i]? = some (some s) := by rw [List.getElem?_eq_getElem hi, h1]
  have e2 : P.conns[j]? = some (some s) := by rw [List.getElem?_eq_getElem hj, h2]
  obtain ⟨_, S1, hS1, hsl1⟩ := (hA.pconns p P hP).2 i s e1
  obtain ⟨_, S2, hS2, hsl2⟩ := (hA.pconns p P hP).2 j s e2
  rw [hS1] at hS2; cases hS2
  omega

theorem sendDeliver_frame (p c q : Nat) (slots : List (Option Nat)) (acc : World × Nat) :
    PFrame acc.1 (sendDeliver p c q slots acc).1 ∧ SameConns acc.1 (sendDeliver p c q slots acc).1 p := by
  induction slots generalizing acc with
  | nil => exact ⟨PFrame.refl _, SameConns.refl _ p⟩
  | cons x r ih =>
    unfold C01P.sendDeliver
    rw [List.foldl_cons]
    cases x with
    | none => exact ih acc
    | some s =>
      simp only
      obtain ⟨f1, c1⟩ := deliverTo_frame acc.1 p s c q
      obtain ⟨f2, c2⟩ := ih ((deliverTo acc.1 p s c q).1, if (deliverTo acc.1 p s c q).2 = true then acc.2 + 1 else acc.2)
      exact ⟨f1.trans f2, SameConns.trans f1 c1 c2⟩

/-- the connection that `deliverTo` pushed into -/
theorem deliverTo_conn (w : World) (p s ch q : Nat) {P : Pub} (hP : getP w p = some P) {cn' : Conn}
    (h : getC (deliverTo w p s ch q).1 p s = some cn') : ∃ c, getC w p s = some c ∧ CPush c cn' q := by
  cases hC : getC w p s with
  | none => rw [deliverTo_noop w p s ch q (Or.inr hC), hC] at h; cases h
  | some c =>
    rw [deliverTo_getC w p s ch q hP hC] at h
    cases h
    exact ⟨c, rfl, trySend_push ..⟩

theorem InvK.sendDeliver (p c q : Nat) (slots : List (Option Nat)) (hd : DistinctSome slots) (acc : World × Nat)
    (done : List (Option Nat))
    (hK : InvK (some (p, q)) none acc.1)
    (hex : ∃ P, getP acc.1 p = some P)
    (hseq : ∀ P, getP acc.1 p = some P → P.seq = q + 1)
    (hgf : ∀ s cn, getC acc.1 p s = some cn → cn.sAtt = true → cn.gFirst ≤ q)
    (hun : ∀ s cn, some s ∈ slots → getC acc.1 p s = some cn → ∀ x ∈ cn.gDelivered, x < q)
    (hvis : ∀ s cn, some s ∈ done → getC acc.1 p s = some cn → q ∈ cn.gDelivered ∨ q ∈ cn.gSkipped) :
    InvK (some (p, q)) none (sendDeliver p c q slots acc).1 ∧
    ∀ s cn, some s ∈ done ++ slots → getC (sendDeliver p c q slots acc).1 p s = some cn →
      q ∈ cn.gDelivered ∨ q ∈ cn.gSkipped := by
  induction slots generalizing acc done with
  | nil =>
    refine ⟨hK, fun s cn hs hcn => hvis s cn ?_ hcn⟩
    simpa using hs
  | cons x r ih =>
    unfold DistinctSome at hd
    rw [List.pairwise_cons] at hd
    obtain ⟨hd1, hd2⟩ := hd
    unfold C01P.sendDeliver
    rw [List.foldl_cons]
    cases x with
    | none =>
      have := ih hd2 acc done hK hex hseq hgf (fun s cn hs => hun s cn (List.mem_cons_of_mem _ hs)) hvis
      refine ⟨this.1, fun s cn hs hcn => this.2 s cn ?_ hcn⟩
      simp only [List.mem_append, List.mem_cons] at hs ⊢
      rcases hs with hs | hs | hs
      · exact Or.inl hs
      · cases hs
      · exact Or.inr hs
    | some s =>
      simp only
      obtain ⟨P, hP⟩ := hex
      obtain ⟨f1, _⟩ := deliverTo_frame acc.1 p s c q
      have hK' := hK.deliverTo p s c q (fun cn Q hcn hQ =>
        ⟨by rw [hseq Q hQ]; omega, hun s cn (by simp) hcn, fun hsa _ => hgf s cn hcn hsa⟩)
      have hne : ∀ s', some s' ∈ r → ¬ (p = p ∧ s' = s) := by
        intro s' hs' hh
        exact hd1 (some s') hs' s rfl (by rw [hh.2])
      have := ih hd2 ((Iox2.PubSub.deliverTo acc.1 p s c q).1, if (Iox2.PubSub.deliverTo acc.1 p s c q).2 = true then acc.2 + 1 else acc.2)
        (done ++ [some s]) hK' (by obtain ⟨P', hP', _⟩ := f1.psome p P hP; exact ⟨P', hP'⟩)
        (fun Q hQ => by
          obtain ⟨Q0, hQ0, st⟩ := f1.some' hQ
          rw [st.seq]; exact hseq Q0 hQ0)
        (fun s' cn hcn hsa => by
          by_cases hs : s' = s
          · subst hs
            obtain ⟨c0, hc0, hp⟩ := deliverTo_conn acc.1 p s' c q hP hcn
            rw [hp.gFirst]; exact hgf s' c0 hc0 (hp.sAtt ▸ hsa)
          · rw [deliverTo_getC_ne _ _ _ _ _ _ _ (fun hh => hs hh.2)] at hcn
            exact hgf s' cn hcn hsa)
        (fun s' cn hs' hcn => by
          rw [deliverTo_getC_ne _ _ _ _ _ _ _ (hne s' hs')] at hcn
          exact hun s' cn (List.mem_cons_of_mem _ hs') hcn)
        (fun s' cn hs' hcn => by
          by_cases hs : s' = s
          · subst hs
            obtain ⟨c0, _, hp⟩ := deliverTo_conn acc.1 p s' c q hP hcn
            exact hp.mem
          · rw [deliverTo_getC_ne _ _ _ _ _ _ _ (fun hh => hs hh.2)] at hcn
            refine hvis s' cn ?_ hcn
            rcases List.mem_append.mp hs' with hs' | hs'
            · exact hs'
            · have := List.mem_singleton.mp hs'
              exact absurd (Option.some.inj this) hs)
      refine ⟨this.1, fun s' cn hs' hcn => this.2 s' cn ?_ hcn⟩
      have he : done ++ some s :: r = (done ++ [some s]) ++ r := by simp
      rw [he] at hs'; exact hs'

theorem InvK.sendAlive (hA : InvA cfg none none w) (hK : InvK none none w) (p c tag : Nat)
    (hPa : ∀ P, getP w p = some P → P.alive = true)
    (hc : ∀ P, getP w p = some P → c ∉ P.hist ∧ c < P.chunkSeq.length) :
    InvK none none (sendAlive w p c tag).1 := by
  unfold C01P.sendAlive
  simp only
  have hA1 := hA.pubUpdate p hPa
  have hK1 := hK.pubUpdate hA p hPa
  have f1 := pubUpdate_frame w p
  generalize Iox2.PubSub.pubUpdate w p = w1 at hA1 hK1 f1 ⊢
  cases hP : getP w1 p with
  | none => exact hK1
  | some P =>
    simp only
    obtain ⟨P0, hP0, st0⟩ := f1.some' hP
    obtain ⟨hc1, hc2⟩ := hc P0 hP0
    rw [← st0.hist] at hc1
    rw [← st0.chunkSeq] at hc2
    obtain ⟨s1, s2, s3, s4, s5⟩ := sendHist_spec w1.cfg.hist (sendStamp P c tag) c
    generalize sendHist w1.cfg.hist (sendStamp P c tag) c = Ps at s1 s2 s3 s4 s5 ⊢
    have hK2 : InvK (some (p, P.seq)) none (setP w1 p Ps) := hK1.stamp hP hc1 hc2 s1 s2 s3 s4 s5
    have hg2 : getP (setP w1 p Ps) p = some Ps := getP_setP_self Ps hP
    have g3 := retrieveReturned_cframe (setP w1 p Ps) p
    obtain ⟨f3, c3⟩ := retrieveReturned_frame (setP w1 p Ps) p
    have hK3 := hK2.of_frame g3
    obtain ⟨P3, hP3, st3⟩ := f3.psome p Ps hg2
    have hc3 : P3.conns = P.conns := (c3 Ps P3 hg2 hP3).trans s4
    have hback : ∀ s cn, getC (Iox2.PubSub.retrieveReturned (setP w1 p Ps) p) p s = some cn →
        (∃ c0, getC w1 p s = some c0 ∧ CSame c0 cn) ∨ Fresh cn := by
      intro s cn hcn
      rcases g3.getc p s cn hcn with ⟨c0, hc0, sc⟩ | hf
      · rw [getC_setP] at hc0; exact Or.inl ⟨c0, hc0, sc⟩
      · exact Or.inr hf
    generalize Iox2.PubSub.retrieveReturned (setP w1 p Ps) p = w3 at g3 f3 c3 hK3 hP3 hback ⊢
    rw [hP3]
    simp only
    have hdist : DistinctSome P3.conns := by rw [hc3]; exact hA1.distinct_conns hP
    obtain ⟨k1, k2⟩ := InvK.sendDeliver p c P.seq P3.conns hdist (w3, 0) [] hK3 ⟨P3, hP3⟩
      (fun Q hQ => by
        rw [hP3] at hQ; cases hQ
        rw [st3.seq, s1]; rfl)
      (fun s cn hcn hsa => by
        rcases hback s cn hcn with ⟨c0, hc0, sc⟩ | hf
        · rw [sc.gFirst]; exact (hK1.hfirst p s c0 hc0 (sc.sAtt hsa) (by simp) P hP).1
        · rw [hf.1] at hsa; cases hsa)
      (fun s cn _ hcn x hx => by
        rcases hback s cn hcn with ⟨c0, hc0, sc⟩ | hf
        · rw [sc.gDelivered] at hx; exact (hK1.dlt p s c0 hc0 P hP).1 x hx
        · rw [hf.2] at hx; cases hx)
      (fun s cn hs _ => by cases hs)
    obtain ⟨f4, c4⟩ := sendDeliver_frame p c P.seq P3.conns (w3, 0)
    refine k1.close (fun Q hQ i s hi cn hcn => k2 s cn ?_ hcn)
    have : Q.conns = P3.conns := c4 P3 Q hP3 hQ
    rw [this] at hi
    simpa using List.mem_of_getElem? hi

theorem sendFinish_cframe (w : World) (p c : Nat) : CFrame w (sendFinish w p c) := by
  unfold C01P.sendFinish
  refine CFrame.trans ?_ (pubDestroyIfUnreferenced_cframe _ p)
  cases hP : getP w p with
  | none => exact CFrame.refl w
  | some P =>
    simp only
    have st := releaseChunk_stable P c
    exact CFrame.setP hP ⟨st.seq, st.hist, st.chunkSeq, fun h => st.ex ▸ h,
      fun i _ h => ⟨i, (releaseChunk_conns P c) ▸ h⟩⟩

theorem invK_step_send (hA : InvA cfg none none w) (hB : InvB none w) (hK : InvK none none w) (p l tag : Nat) :
    InvK none none (step w (.send p l tag)).1 := by
  rw [C01P.step_send]
  cases hP : getP w p with
  | none => exact hK
  | some P0 =>
    simp only
    cases hl : P0.loans.find? (·.1 = l) with
    | none => exact hK
    | some lc =>
      obtain ⟨l', c⟩ := lc
      simp only
      refine InvK.of_frame (sendFinish_cframe _ p c) ?_
      have h1 : InvA cfg none none (setP w p { P0 with payload := P0.payload.set c tag, loans := P0.loans.filter (·.1 ≠ l) }) :=
        hA.setP_irrel hP rfl rfl rfl rfl
      have k1 : InvK none none (setP w p { P0 with payload := P0.payload.set c tag, loans := P0.loans.filter (·.1 ≠ l) }) :=
        hK.of_frame (CFrame.setP hP ⟨rfl, rfl, rfl, id, fun i _ h => ⟨i, h⟩⟩)
      split
      · exact k1
      · rename_i hal
        simp only [Bool.not_eq_true', Bool.not_eq_false] at hal
        have hex : P0.ex = true := (hA.palive p P0 hP hal).1
        have hmem : (l', c) ∈ P0.loans := List.mem_of_find?_eq_some hl
        refine k1.sendAlive h1 p c tag (fun P hP' => ?_) (fun P hP' => ?_)
        · rw [getP_setP_self _ hP] at hP'; cases hP'; exact hal
        · rw [getP_setP_self _ hP] at hP'; cases hP'
          exact loan_not_hist (P := P0) hB hP hex hmem

end Iox2.PubSub.C01P
