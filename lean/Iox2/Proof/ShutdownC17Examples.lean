/-
C17 — concrete shutdown histories (evaluated by the kernel).
-/
import Iox2.Model.Shutdown

namespace Iox2.Shutdown.C17P
open Iox2.PubSub Iox2.Shutdown

def noPanicRun (s : SWorld) : List SOp → Bool
  | [] => true
  | op :: r => !s.w.panicked && noPanicRun (step s op).1 r

theorem reach_run {cfg : Cfg} {ipc : Bool} : ∀ (ops : List SOp) (s : SWorld), Reach cfg ipc s →
    noPanicRun s ops = true → Reach cfg ipc (run s ops)
  | [], s, h, _ => h
  | op :: r, s, h, hn => by
    simp only [noPanicRun, Bool.and_eq_true, Bool.not_eq_true'] at hn
    exact reach_run r _ (Reach.step op h hn.1) hn.2

def cfgA : Cfg :=
  { maxPubs := 1, maxSubs := 1, bufMax := 1, hist := 0, borrowMax := 1, overflow := false, expired := 3 }

/-! ### D22: everything dropped, the node directory is still there -/

def opsR : List SOp :=
  [.ps (.cpub 0 1), .ps (.csub 0 none none), .dnode, .dsvc, .ps (.dpub 0), .ps (.dsub 0)]

def chkR (s : SWorld) : Bool :=
  !s.node && !s.svc && s.w.pubs.all (fun e => !e.2.alive && e.2.loans.isEmpty) &&
    s.w.subs.all (fun e => !e.2.alive && e.2.held.isEmpty) && !s.w.panicked &&
    !(resources s).isEmpty

set_option maxRecDepth 100000 in
theorem chkR_true : chkR (run (SWorld.init cfgA true) opsR) = true := by decide

theorem all_dropped_refuted :
    ∃ (cfg : Cfg) (ops : List SOp), cfg.Sane ∧
      let s := run (SWorld.init cfg true) ops
      AllDropped s ∧ s.w.panicked = false ∧ resources s ≠ [] := by
  refine ⟨cfgA, opsR, by decide, ?_⟩
  have h := chkR_true
  generalize run (SWorld.init cfgA true) opsR = s at h
  simp only [chkR, Bool.and_eq_true, Bool.not_eq_true', List.all_eq_true,
    List.isEmpty_eq_false_iff] at h
  obtain ⟨⟨⟨⟨⟨h1, h2⟩, h3⟩, h4⟩, h5⟩, h6⟩ := h
  refine ⟨⟨h1, h2, ?_, ?_⟩, h5, h6⟩
  · intro e he
    have := h3 e he
    exact ⟨this.1, List.isEmpty_iff.mp this.2⟩
  · intro e he
    have := h4 e he
    exact ⟨this.1, List.isEmpty_iff.mp this.2⟩

/-! ### non-vacuity: node and service handle dropped first, the publisher still loans and sends -/

def opsN : List SOp := [.ps (.cpub 0 1), .dnode, .dsvc, .ps (.loan 0 1), .ps (.send 0 1 5)]

def chkN (s : SWorld) : Bool :=
  match getP s.w 0 with
  | some P => !s.node && !s.svc && P.alive && P.seq == 1
  | none => false

set_option maxRecDepth 100000 in
theorem chkN_true : chkN (run (SWorld.init cfgA true) opsN) = true := by decide
set_option maxRecDepth 100000 in
theorem noPanicN : noPanicRun (SWorld.init cfgA true) opsN = true := by decide

theorem nonvacuous :
    ∃ (cfg : Cfg) (s : SWorld) (P : Pub), cfg.Sane ∧ Reach cfg true s ∧ s.node = false ∧
      s.svc = false ∧ getP s.w 0 = some P ∧ P.alive = true ∧ P.seq = 1 := by
  have h := chkN_true
  have hr := reach_run (cfg := cfgA) (ipc := true) opsN _ Reach.init noPanicN
  generalize run (SWorld.init cfgA true) opsN = s at h hr
  simp only [chkN] at h
  split at h
  · rename_i P hP
    simp only [Bool.and_eq_true, Bool.not_eq_true', beq_iff_eq] at h
    obtain ⟨⟨⟨h1, h2⟩, h3⟩, h4⟩ := h
    exact ⟨cfgA, s, P, by decide, hr, h1, h2, hP, h3, h4⟩
  · cases h

end Iox2.Shutdown.C17P
