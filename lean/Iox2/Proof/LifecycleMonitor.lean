/-
A step of a monitor (`Node::list` for the node) keeps the invariant; it does not change the file system.
-/
import Iox2.Proof.LifecycleQuery
namespace Iox2.Lifecycle

theorem L.ofMonitor {fs : FS} {t : Th} (hr : t.role = .monitor) (hp : t.pid ≠ 0)
    (qFinal : ((4 ≤ t.pc ∧ t.pc ≤ 10) ∨ (13 ≤ t.pc ∧ t.pc ≤ 19)) → 17 ≤ fs.opc)
    (qOl : (t.pc = 9 ∨ t.pc = 18) → fs.ol.linked = false)
    (rawDead : t.raw = some .dead → fs.odead = false → 26 ≤ fs.opc)
    (rawCleaning : t.raw = some .cleaningUp → fs.odead = false → 25 ≤ fs.opc)
    (rawErr : t.raw ≠ some .corrupted ∧ t.raw ≠ some .ctxUnreadable)
    (rawAliveM : t.listed = some .alive → t.raw = some .alive)
    (cNoPanic : t.res ≠ some .panicStillAlive) (cOk : t.res = some .ok → fs.odead = true) : L fs t := by
  have hno : t.role ≠ .owner := by rw [hr]; decide
  have hnc : t.role ≠ .cleaner := by rw [hr]; decide
  exact ⟨⟨fun h => absurd h hno, fun h => absurd h hp⟩, fun h => absurd h hno, fun h => absurd h hno,
    fun _ => qFinal, fun _ => qOl, fun _ => rawDead, fun _ => rawCleaning, rawErr, fun _ => rawAliveM,
    fun h => absurd h hnc, fun h => absurd h hnc, fun h => absurd h hnc, fun h => absurd h hnc, cNoPanic, cOk⟩

theorem L.pid_ne_zero {fs : FS} {t : Th} (hL : L fs t) (h : t.role ≠ .owner) : t.pid ≠ 0 :=
  fun h0 => h (hL.role.2 h0)

theorem monitor_step {fs fs' : FS} {t t' : Th} {s : String} (hG : G fs) (hL : L fs t) (hr : t.role = .monitor)
    (h : monitorStep fs t = some (fs', t', s)) : fs' = fs ∧ L fs t' ∧ t'.pid = t.pid ∧ t'.role = t.role := by
  have hno : t.role ≠ .owner := by rw [hr]; decide
  have hp := hL.pid_ne_zero hno
  have keep : ∀ (pc : Nat) (hd : Bool), pc ≤ 3 ∨ pc = 50 →
      L fs { t with pc := pc, hasDet := hd } := by
    intro pc hd hpc
    exact L.ofMonitor hr hp (by intro h; simp at h; omega) (by intro h; simp at h; omega)
      (hL.rawDead hr) (hL.rawCleaning hr) hL.rawErr (hL.rawAliveM hr) hL.cNoPanic hL.cOk
  have fin : ∀ (lv : ListV), lv ≠ .alive →
      L fs { t with pc := pcDone, listed := some lv } := by
    intro lv hlv
    exact L.ofMonitor hr hp (by intro h; simp [pcDone] at h) (by intro h; simp [pcDone] at h)
      (hL.rawDead hr) (hL.rawCleaning hr) hL.rawErr (by intro h; simp at h; exact absurd h hlv) hL.cNoPanic hL.cOk
  unfold monitorStep at h
  split at h
  · -- readdir nodes
    split at h <;> simp only [Option.some.injEq, Prod.mk.injEq] at h <;> obtain ⟨rfl, rfl, _⟩ := h
    · exact ⟨rfl, keep 50 _ (by omega), rfl, rfl⟩
    · exact ⟨rfl, fin _ (by decide), rfl, rfl⟩
  · -- stat st
    split at h <;> simp only [Option.some.injEq, Prod.mk.injEq] at h <;> obtain ⟨rfl, rfl, _⟩ := h
    · exact ⟨rfl, keep 1 _ (by omega), rfl, rfl⟩
    · exact ⟨rfl, fin _ (by decide), rfl, rfl⟩
  · -- open det
    simp only [Option.some.injEq, Prod.mk.injEq] at h
    obtain ⟨rfl, rfl, _⟩ := h
    exact ⟨rfl, keep 2 _ (by omega), rfl, rfl⟩
  · -- the query
    rename_i pc _ _ _
    split at h
    · rename_i hpc
      have hs := qstep_sound hG (pid := t.pid) (q := t.pc - 2) hp (by omega)
        (fun h2 => hL.qFinal hno (Or.inl (by omega))) (fun h7 => hL.qOl hno (Or.inl (by omega)))
      cases hq : qstep fs t.pid (t.pc - 2) with
      | next q' =>
        rw [hq] at h hs
        simp only [Option.some.injEq, Prod.mk.injEq] at h
        obtain ⟨rfl, rfl, _⟩ := h
        obtain ⟨h8, hf, h7, _⟩ := hs
        refine ⟨rfl, ?_, rfl, rfl⟩
        exact L.ofMonitor hr hp (by intro h; simp at h; exact hf (by omega)) (by intro h; simp at h; exact h7 (by omega))
          (hL.rawDead hr) (hL.rawCleaning hr) hL.rawErr (hL.rawAliveM hr) hL.cNoPanic hL.cOk
      | done v =>
        rw [hq] at h hs
        simp only [Option.some.injEq, Prod.mk.injEq] at h
        obtain ⟨rfl, rfl, _⟩ := h
        obtain ⟨hc, hu, hd, hcl, _⟩ := hs
        refine ⟨rfl, ?_, rfl, rfl⟩
        refine L.ofMonitor hr hp (by intro h; simp [pcDone] at h) (by intro h; simp [pcDone] at h) ?_ ?_ ?_ ?_ hL.cNoPanic hL.cOk
        · intro h; simp at h; exact (hd h).2
        · intro h; simp at h; exact (hcl h).2
        · constructor <;> (intro h; simp at h; first | exact hc h | exact hu h)
        · intro h
          simp at h
          cases v <;> simp [calOf, listOf] at h ⊢
    · cases h

end Iox2.Lifecycle
