/-
Frame facts: what the helper functions of the model leave unchanged (no invariant needed).
-/
import Iox2.Proof.PubSubC01A1
namespace Iox2.PubSub.C01P
open Iox2.PubSub

/-- everything of a publisher record except `rc`, `free`, `conns`, `snap`, `snapCtr` is unchanged -/
structure PStable (P P' : Pub) : Prop where
  alive : P'.alive = P.alive
  ex : P'.ex = P.ex
  slot : P'.slot = P.slot
  maxLoans : P'.maxLoans = P.maxLoans
  n : P'.n = P.n
  loanCnt : P'.loanCnt = P.loanCnt
  hist : P'.hist = P.hist
  loans : P'.loans = P.loans
  payload : P'.payload = P.payload
  seq : P'.seq = P.seq
  chunkSeq : P'.chunkSeq = P.chunkSeq
  sent : P'.sent = P.sent

theorem PStable.refl (P : Pub) : PStable P P := ⟨rfl, rfl, rfl, rfl, rfl, rfl, rfl, rfl, rfl, rfl, rfl, rfl⟩
theorem PStable.trans {P P' P'' : Pub} (a : PStable P P') (b : PStable P' P'') : PStable P P'' :=
  ⟨b.alive.trans a.alive, b.ex.trans a.ex, b.slot.trans a.slot, b.maxLoans.trans a.maxLoans, b.n.trans a.n,
   b.loanCnt.trans a.loanCnt, b.hist.trans a.hist, b.loans.trans a.loans, b.payload.trans a.payload,
   b.seq.trans a.seq, b.chunkSeq.trans a.chunkSeq, b.sent.trans a.sent⟩

/-- a publisher-side helper ran: subscribers, registries untouched, publisher records stable -/
structure PFrame (w w' : World) : Prop where
  subs : w'.subs = w.subs
  pubReg : w'.pubReg = w.pubReg
  subReg : w'.subReg = w.subReg
  cfg : w'.cfg = w.cfg
  panicked : w'.panicked = w.panicked
  pnone : ∀ a, getP w a = none → getP w' a = none
  psome : ∀ a P, getP w a = some P → ∃ P', getP w' a = some P' ∧ PStable P P'

theorem PFrame.refl (w : World) : PFrame w w :=
  ⟨rfl, rfl, rfl, rfl, rfl, fun _ h => h, fun _ P h => ⟨P, h, PStable.refl P⟩⟩

theorem PFrame.trans {w w' w'' : World} (a : PFrame w w') (b : PFrame w' w'') : PFrame w w'' := by
  refine ⟨b.subs.trans a.subs, b.pubReg.trans a.pubReg, b.subReg.trans a.subReg, b.cfg.trans a.cfg,
    b.panicked.trans a.panicked, fun x h => b.pnone x (a.pnone x h), fun x P h => ?_⟩
  obtain ⟨P', h1, s1⟩ := a.psome x P h
  obtain ⟨P'', h2, s2⟩ := b.psome x P' h1
  exact ⟨P'', h2, s1.trans s2⟩

theorem PFrame.getS {w w' : World} (a : PFrame w w') (s : Nat) : getS w' s = getS w s := by
  unfold Iox2.PubSub.getS; rw [a.subs]

theorem PFrame.some' {w w' : World} (a : PFrame w w') {x : Nat} {P' : Pub} (h : getP w' x = some P') :
    ∃ P, getP w x = some P ∧ PStable P P' := by
  cases h0 : getP w x with
  | none => rw [a.pnone x h0] at h; cases h
  | some P =>
    obtain ⟨P'', h1, s1⟩ := a.psome x P h0
    rw [h] at h1; cases h1
    exact ⟨P, rfl, s1⟩

theorem PFrame.of_eq {w w' : World} (hp : w'.pubs = w.pubs) (hs : w'.subs = w.subs) (hpr : w'.pubReg = w.pubReg)
    (hsr : w'.subReg = w.subReg) (hc : w'.cfg = w.cfg) (hpan : w'.panicked = w.panicked) : PFrame w w' := by
  have : ∀ a, getP w' a = getP w a := fun a => by unfold getP; rw [hp]
  exact ⟨hs, hpr, hsr, hc, hpan, fun a h => by rw [this]; exact h, fun a P h => ⟨P, by rw [this]; exact h, PStable.refl P⟩⟩

theorem PFrame.setC (w : World) (x : Conn) : PFrame w (setC w x) :=
  ⟨rfl, rfl, rfl, rfl, rfl, fun _ h => h, fun _ P h => ⟨P, h, PStable.refl P⟩⟩
theorem PFrame.addC (w : World) (x : Conn) : PFrame w (addC w x) :=
  ⟨rfl, rfl, rfl, rfl, rfl, fun _ h => h, fun _ P h => ⟨P, h, PStable.refl P⟩⟩
theorem PFrame.dropC (w : World) (p s : Nat) : PFrame w (dropC w p s) :=
  ⟨rfl, rfl, rfl, rfl, rfl, fun _ h => h, fun _ P h => ⟨P, h, PStable.refl P⟩⟩

theorem PFrame.setP {w : World} {p : Nat} {P P' : Pub} (h : getP w p = some P) (hs : PStable P P') :
    PFrame w (setP w p P') := by
  refine ⟨rfl, rfl, rfl, rfl, rfl, fun a ha => ?_, fun a Q ha => ?_⟩
  · rw [getP_setP]
    by_cases hap : a = p
    · subst hap; rw [h] at ha; cases ha
    · rw [if_neg hap]; exact ha
  · rw [getP_setP]
    by_cases hap : a = p
    · subst hap; rw [h] at ha; cases ha
      exact ⟨P', by simp [h], hs⟩
    · rw [if_neg hap]; exact ⟨Q, ha, PStable.refl Q⟩

theorem PFrame.detachSender (w : World) (p s : Nat) : PFrame w (detachSender w p s) := by
  refine ⟨by simp, by simp, by simp, by simp, by simp, fun a h => by simpa using h,
    fun a P h => ⟨P, by simpa using h, PStable.refl P⟩⟩

/-! ### publisher record helpers -/

theorem releaseChunk_stable (P : Pub) (c : Nat) : PStable P (P.releaseChunk c) := by
  unfold Pub.releaseChunk
  simp only
  split <;> exact ⟨rfl, rfl, rfl, rfl, rfl, rfl, rfl, rfl, rfl, rfl, rfl, rfl⟩

theorem releaseChunk_conns (P : Pub) (c : Nat) : (P.releaseChunk c).conns = P.conns := by
  unfold Pub.releaseChunk
  simp only
  split <;> rfl

theorem borrowChunk_stable (P : Pub) (c : Nat) : PStable P (P.borrowChunk c) :=
  ⟨rfl, rfl, rfl, rfl, rfl, rfl, rfl, rfl, rfl, rfl, rfl, rfl⟩

theorem borrowChunk_conns (P : Pub) (c : Nat) : (P.borrowChunk c).conns = P.conns := rfl

theorem drainComp_stable (P : Pub) (used : List Bool) (l : List Nat) :
    PStable P (drainComp P used l).1 ∧ (drainComp P used l).1.conns = P.conns := by
  induction l generalizing P used with
  | nil => exact ⟨PStable.refl P, rfl⟩
  | cons c r ih =>
    unfold drainComp
    split
    · obtain ⟨h1, h2⟩ := ih (P.releaseChunk c) (used.set c false)
      exact ⟨(releaseChunk_stable P c).trans h1, h2.trans (releaseChunk_conns P c)⟩
    · exact ih P used

theorem releaseAllUsed_stable (P : Pub) (used : List Bool) (k : Nat) :
    PStable P (releaseAllUsed P used k) ∧ (releaseAllUsed P used k).conns = P.conns := by
  induction k with
  | zero => exact ⟨PStable.refl P, rfl⟩
  | succ k ih =>
    unfold releaseAllUsed
    simp only
    split
    · exact ⟨ih.1.trans (releaseChunk_stable _ k), (releaseChunk_conns _ k).trans ih.2⟩
    · exact ih

/-- the connection array of publisher `p` is unchanged -/
def SameConns (w w' : World) (p : Nat) : Prop :=
  ∀ P P', getP w p = some P → getP w' p = some P' → P'.conns = P.conns

theorem SameConns.refl (w : World) (p : Nat) : SameConns w w p := by
  intro P P' h h'; rw [h] at h'; cases h'; rfl

theorem retrieveFrom_frame (w : World) (p : Nat) (sl : List (Option Nat)) :
    PFrame w (retrieveFrom w p sl) ∧ SameConns w (retrieveFrom w p sl) p := by
  induction sl generalizing w with
  | nil => exact ⟨PFrame.refl w, SameConns.refl w p⟩
  | cons x r ih =>
    cases x with
    | none => exact ih w
    | some s =>
      unfold retrieveFrom
      cases hP : getP w p with
      | none => exact ih w
      | some P =>
        cases hC : getC w p s with
        | none => exact ih w
        | some c =>
          simp only
          generalize hd : drainComp P c.used c.comp = d
          obtain ⟨P', u'⟩ := d
          have hst := drainComp_stable P c.used c.comp
          rw [hd] at hst
          simp only
          have f1 : PFrame w (setC (setP w p P') { c with comp := [], used := u' }) :=
            (PFrame.setP hP hst.1).trans (PFrame.setC _ _)
          obtain ⟨f2, c2⟩ := ih (setC (setP w p P') { c with comp := [], used := u' })
          refine ⟨f1.trans f2, fun Q Q' h h' => ?_⟩
          rw [hP] at h; cases h
          have := c2 P' Q' (by simp [getP_setP, hP]) h'
          rw [this]; exact hst.2

theorem retrieveReturned_frame (w : World) (p : Nat) :
    PFrame w (retrieveReturned w p) ∧ SameConns w (retrieveReturned w p) p := by
  unfold retrieveReturned
  cases hP : getP w p with
  | none => exact ⟨PFrame.refl w, SameConns.refl w p⟩
  | some P => exact retrieveFrom_frame w p P.conns

theorem deliverTo_frame (w : World) (p s ch q : Nat) :
    PFrame w (deliverTo w p s ch q).1 ∧ SameConns w (deliverTo w p s ch q).1 p := by
  have hrefl : PFrame w w ∧ SameConns w w p :=
    ⟨PFrame.refl w, SameConns.refl w p⟩
  unfold deliverTo
  cases hP : getP w p with
  | none => exact hrefl
  | some P =>
    cases hC : getC w p s with
    | none => exact hrefl
    | some c =>
      simp only
      generalize c.trySend w.cfg.overflow ch q = d
      obtain ⟨c', r⟩ := d
      simp only
      cases r with
      | full =>
        exact ⟨PFrame.setC _ _, fun Q Q' h h' => by
          rw [getP_setC] at h'; rw [h] at h'; cases h'; rfl⟩
      | corrupted =>
        exact ⟨PFrame.setC _ _, fun Q Q' h h' => by
          rw [getP_setC] at h'; rw [h] at h'; cases h'; rfl⟩
      | ok ev =>
        simp only
        have hst : PStable P (match ev with
            | some old => (P.borrowChunk ch).releaseChunk old
            | none => P.borrowChunk ch) ∧ (match ev with
            | some old => (P.borrowChunk ch).releaseChunk old
            | none => P.borrowChunk ch).conns = P.conns := by
          cases ev with
          | none => exact ⟨borrowChunk_stable P ch, rfl⟩
          | some old =>
            exact ⟨(borrowChunk_stable P ch).trans (releaseChunk_stable _ old),
              (releaseChunk_conns _ old).trans rfl⟩
        refine ⟨(PFrame.setC w c').trans (PFrame.setP (by rw [getP_setC]; exact hP) hst.1), fun Q Q' h h' => ?_⟩
        rw [hP] at h; cases h
        rw [getP_setP_self _ (by rw [getP_setC]; exact hP)] at h'
        cases h'
        exact hst.2

theorem SameConns.trans {w w' w'' : World} {p : Nat} (f : PFrame w w') (a : SameConns w w' p)
    (b : SameConns w' w'' p) : SameConns w w'' p := by
  intro P P'' h h''
  obtain ⟨P', h', _⟩ := f.psome p P h
  rw [b P' P'' h' h'', a P P' h h']

theorem deliverHistory_frame (w : World) (p s : Nat) (l : List Nat) :
    PFrame w (deliverHistory w p s l) ∧ SameConns w (deliverHistory w p s l) p := by
  induction l generalizing w with
  | nil => exact ⟨PFrame.refl w, SameConns.refl w p⟩
  | cons ch r ih =>
    unfold deliverHistory
    simp only
    obtain ⟨f1, c1⟩ := retrieveReturned_frame w p
    obtain ⟨f2, c2⟩ := deliverTo_frame (retrieveReturned w p) p s ch
      (match getP (retrieveReturned w p) p with | some P => P.chunkSeq.getD ch 0 | none => 0)
    obtain ⟨f3, c3⟩ := ih (deliverTo (retrieveReturned w p) p s ch
      (match getP (retrieveReturned w p) p with | some P => P.chunkSeq.getD ch 0 | none => 0)).1
    exact ⟨(f1.trans f2).trans f3, SameConns.trans (f1.trans f2) (SameConns.trans f1 c1 c2) c3⟩

theorem pubRemoveConn_frame (w : World) (p slot : Nat) : PFrame w (pubRemoveConn w p slot) := by
  unfold pubRemoveConn
  cases hP : getP w p with
  | none => exact PFrame.refl w
  | some P =>
    simp only
    cases hs : P.conns.getD slot none with
    | none => exact PFrame.refl w
    | some s =>
      simp only
      cases hC : getC w p s with
      | none =>
        simp only
        have f1 : PFrame w (setP w p { P with conns := P.conns.set slot none }) := PFrame.setP hP ⟨rfl, rfl, rfl, rfl, rfl, rfl, rfl, rfl, rfl, rfl, rfl, rfl⟩
        exact f1.trans (PFrame.detachSender _ p s)
      | some c =>
        simp only
        have hst := releaseAllUsed_stable P c.used c.used.length
        refine ((PFrame.setC w _).trans (PFrame.setP (P' := { releaseAllUsed P c.used c.used.length with
          conns := (releaseAllUsed P c.used c.used.length).conns.set slot none }) (by rw [getP_setC]; exact hP) ?_)).trans
          (PFrame.detachSender _ p s)
        exact ⟨hst.1.alive, hst.1.ex, hst.1.slot, hst.1.maxLoans, hst.1.n, hst.1.loanCnt, hst.1.hist,
          hst.1.loans, hst.1.payload, hst.1.seq, hst.1.chunkSeq, hst.1.sent⟩

theorem pubCreateConn_frame (w : World) (p slot : Nat) (e : SubEntry) : PFrame w (pubCreateConn w p slot e) := by
  unfold pubCreateConn
  cases hP : getP w p with
  | none => exact PFrame.refl w
  | some P =>
    simp only
    refine PFrame.trans ?_ (deliverHistory_frame _ p e.sid _).1
    cases hC : getC w p e.sid with
    | none =>
      simp only
      refine PFrame.trans ?_ (PFrame.setP (P := P) hP ⟨rfl, rfl, rfl, rfl, rfl, rfl, rfl, rfl, rfl, rfl, rfl, rfl⟩)
      exact PFrame.of_eq rfl rfl rfl rfl rfl rfl
    | some c =>
      simp only
      refine PFrame.trans ?_ (PFrame.setP (P := P) hP ⟨rfl, rfl, rfl, rfl, rfl, rfl, rfl, rfl, rfl, rfl, rfl, rfl⟩)
      exact PFrame.of_eq rfl rfl rfl rfl rfl rfl

theorem pubUpdateSlots_frame (w : World) (p : Nat) (l : List (Option SubEntry)) (i : Nat) (t : List Nat) :
    PFrame w (pubUpdateSlots w p l i t).1 := by
  induction l generalizing w i t with
  | nil => exact PFrame.refl w
  | cons x r ih =>
    cases x with
    | none => exact ih w (i + 1) t
    | some e =>
      unfold pubUpdateSlots
      cases hP : getP w p with
      | none => exact PFrame.refl w
      | some P =>
        simp only
        cases hs : P.conns.getD i none with
        | none => exact (pubCreateConn_frame w p i e).trans (ih _ _ _)
        | some s =>
          simp only
          split
          · exact ih _ _ _
          · exact ((pubRemoveConn_frame w p i).trans (pubCreateConn_frame _ p i e)).trans (ih _ _ _)

theorem pubFinish_frame (w : World) (p : Nat) (t : List Nat) (k : Nat) : PFrame w (pubFinish w p t k) := by
  induction k with
  | zero => exact PFrame.refl w
  | succ k ih =>
    unfold pubFinish
    simp only
    split
    · exact ih
    · exact ih.trans (pubRemoveConn_frame _ p k)

theorem pubForceUpdate_frame (w : World) (p : Nat) : PFrame w (pubForceUpdate w p) := by
  unfold pubForceUpdate
  cases hP : getP w p with
  | none => exact PFrame.refl w
  | some P =>
    simp only
    generalize hd : pubUpdateSlots w p P.snap 0 [] = d
    obtain ⟨w1, tg⟩ := d
    have := pubUpdateSlots_frame w p P.snap 0 []
    rw [hd] at this
    exact this.trans (pubFinish_frame w1 p tg _)

theorem pubUpdate_frame (w : World) (p : Nat) : PFrame w (pubUpdate w p) := by
  unfold pubUpdate
  cases hP : getP w p with
  | none => exact PFrame.refl w
  | some P =>
    simp only
    split
    · exact PFrame.refl w
    · have f1 : PFrame w (setP w p { P with snapCtr := w.subReg.counter, snap := w.subReg.slots }) :=
        PFrame.setP hP ⟨rfl, rfl, rfl, rfl, rfl, rfl, rfl, rfl, rfl, rfl, rfl, rfl⟩
      exact f1.trans (pubForceUpdate_frame _ p)

theorem pubDestroySlots_frame (w : World) (p : Nat) (l : List (Option Nat)) :
    PFrame w (pubDestroySlots w p l) ∧ (pubDestroySlots w p l).pubs = w.pubs := by
  induction l generalizing w with
  | nil => exact ⟨PFrame.refl w, rfl⟩
  | cons x r ih =>
    cases x with
    | none => exact ih w
    | some s =>
      unfold pubDestroySlots
      obtain ⟨h1, h2⟩ := ih (detachSender w p s)
      exact ⟨(PFrame.detachSender w p s).trans h1, by rw [h2]; simp⟩

end Iox2.PubSub.C01P
