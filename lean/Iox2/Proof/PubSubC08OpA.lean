/-
C08 helper: the API operations preserve the invariant (part A: creating a publisher).
-/
import Iox2.Proof.PubSubC08Op9
set_option linter.unusedSimpArgs false
set_option linter.unusedVariables false
namespace Iox2.PubSub.C08
open Iox2.PubSub
open Iox2.C16.SlotMapP (abs)
attribute [-simp] List.getD_eq_getElem?_getD

/-! ### the registry container -/

theorem firstFree_some {α : Type} : ∀ (l : List (Option α)) (i k : Nat), firstFree l i = some k →
    ∃ j, k = i + j ∧ l[j]? = some none
  | [], i, k, h => by simp [firstFree] at h
  | none :: r, i, k, h => by
    simp [firstFree] at h; subst h; exact ⟨0, rfl, rfl⟩
  | some a :: r, i, k, h => by
    rw [firstFree] at h
    obtain ⟨j, e1, e2⟩ := firstFree_some r (i + 1) k h
    exact ⟨j + 1, by omega, by simpa using e2⟩

theorem firstFree_none {α : Type} : ∀ (l : List (Option α)) (i : Nat), firstFree l i = none ↔
    (l.filter Option.isSome).length = l.length
  | [], i => by simp [firstFree]
  | none :: r, i => by
    simp only [firstFree, List.filter_cons, Option.isSome_none, Bool.false_eq_true, if_false, List.length_cons]
    have := List.length_filter_le Option.isSome r
    constructor
    · intro h; cases h
    · intro h; omega
  | some a :: r, i => by
    rw [firstFree, firstFree_none r (i + 1)]
    simp [List.filter_cons]

def liveCnt {α : Type} (slots : List (Option α)) : Nat := (slots.filter Option.isSome).length

theorem add_isSome_iff {α : Type} (r : Reg α) (a : α) : (r.add a).isSome = true ↔ liveCnt r.slots < r.slots.length := by
  unfold Reg.add liveCnt
  have hle := List.length_filter_le Option.isSome r.slots
  cases hf : firstFree r.slots 0 with
  | none =>
    have := (firstFree_none r.slots 0).1 hf
    simp only [Option.isSome_none, Bool.false_eq_true, false_iff]; omega
  | some k =>
    have hne : ¬ ((r.slots.filter Option.isSome).length = r.slots.length) := by
      intro e
      have := (firstFree_none r.slots 0).2 e
      rw [hf] at this; cases this
    simp only [Option.isSome_some, true_iff]; omega

theorem slotSum_replicate_none (w : World) (p n c : Nat) : slotSum w p (List.replicate n none) c = 0 := by
  unfold slotSum
  induction n with
  | zero => rfl
  | succ n ih => simp [List.replicate_succ, slotRef, ih]

theorem getP_push {w : World} {p : Nat} (P : Pub) (hp : getP w p = none) (q : Nat) :
    getP { w with pubs := w.pubs ++ [(p, P)] } q = if q = p then some P else getP w q := by
  unfold getP at *
  simp only [List.find?_append]
  by_cases hq : q = p
  · subst hq
    have : w.pubs.find? (fun x => decide (x.1 = q)) = none := by
      cases h : w.pubs.find? (fun x => decide (x.1 = q)) with
      | none => rfl
      | some e => rw [h] at hp; cases hp
    simp [this]
  · simp only [hq, if_false]
    have : ¬ p = q := fun e => hq e.symm
    cases h : w.pubs.find? (fun x => decide (x.1 = q)) with
    | none => simp [this]
    | some e => simp

/-- the fresh publisher record of `cpub` -/
def newPub (w : World) (ml : Nat) : Pub :=
  { maxLoans := ml, n := w.cfg.nChunks ml, free := List.range (w.cfg.nChunks ml),
    rc := List.replicate (w.cfg.nChunks ml) 0, conns := List.replicate w.cfg.maxSubs none,
    snapCtr := w.subReg.counter, snap := w.subReg.slots, payload := List.replicate (w.cfg.nChunks ml) 0,
    chunkSeq := List.replicate (w.cfg.nChunks ml) 0 }

theorem getD_replicate_zero (n x : Nat) : (List.replicate n 0).getD x 0 = 0 := by
  rw [List.getD_eq_getElem?_getD, List.getElem?_replicate]
  split <;> rfl

theorem add_pub_inv {cfg : Cfg} {w : World} (h : Inv cfg w) {p : Nat} (hp : getP w p = none) (ml : Nat) :
    InvP cfg { w with pubs := w.pubs ++ [(p, newPub w ml)] } (some p) p [] false := by
  have hgP := getP_push (newPub w ml) hp
  have hnoconn : ∀ s, getC w p s = none := by
    intro s
    cases hc : getC w p s with
    | none => rfl
    | some c =>
      obtain ⟨P, hP⟩ := (h.c p s c hc).hasP
      rw [hp] at hP; cases hP
  refine ⟨⟨h.r.cfgEq, h.r.pubLen, h.r.subLen, ?_, ?_, h.r.rs1, h.r.rs2⟩, ?_, ?_, ?_, h.u⟩
  · intro i q hi
    obtain ⟨Q, hQ, a, b⟩ := h.r.rp1 i q hi
    have hqp : q ≠ p := by intro e; subst e; rw [hp] at hQ; cases hQ
    exact ⟨Q, by rw [hgP]; simp [hqp, hQ], a, b⟩
  · intro q Q hQ hal hne
    rw [hgP] at hQ
    have hqp : q ≠ p := fun e => hne (by rw [e])
    simp [hqp] at hQ
    exact h.r.rp2 q Q hQ hal (by simp)
  · intro a b c hc
    have hc' : getC w a b = some c := hc
    have hap : a ≠ p := by intro e; subst e; rw [hnoconn] at hc'; cases hc'
    refine (h.c a b c hc').transferG (getC_key hc').1 (fun Q hQ => ⟨Q, by rw [hgP]; simp [hap, hQ], rfl, rfl, rfl⟩)
      (fun Q' hQ' => ?_) (fun S hS => ⟨S, hS, rfl⟩) (fun S' hS' => ⟨S', hS', rfl, id⟩)
    rw [hgP] at hQ'; simp [hap] at hQ'
    exact ⟨Q', hQ', rfl, rfl⟩
  · intro q Q hQ
    rw [hgP] at hQ
    by_cases hqp : q = p
    · subst hqp
      simp at hQ; subst hQ
      refine ⟨⟨by simp [newPub, h.r.cfgEq], ?_, ?_, fun _ => rfl⟩, fun _ => ?_⟩
      · intro i s hi
        simp [newPub, List.getElem?_replicate] at hi
      · intro i s hi
        simp [newPub, List.getElem?_replicate] at hi
      · simp only [if_true]
        refine ⟨⟨by simp [newPub], by simp [newPub, List.nodup_range], ?_, ?_⟩, by simp [newPub, h.r.cfgEq], ?_, rfl,
          by simp [newPub], by simp [newPub], fun lc hlc => (by simp [newPub] at hlc), fun hst => (by cases hst),
          by simp [newPub]⟩
        · intro c hc
          have : c < w.cfg.nChunks ml := by simpa [newPub] using hc
          exact ⟨this, getD_replicate_zero _ _⟩
        · intro c hc _
          show c ∈ List.range _
          exact List.mem_range.mpr hc
        · intro c
          show (List.replicate _ 0).getD c 0 = _
          rw [getD_replicate_zero]
          have : slotSum { w with pubs := w.pubs ++ [(q, newPub w ml)] } q (newPub w ml).conns c = 0 :=
            slotSum_replicate_none _ _ _ _
          rw [this]; simp [newPub]
    · simp [hqp] at hQ
      obtain ⟨a, b⟩ := h.p q Q hQ
      refine ⟨⟨a.connsLen, a.slotConn, a.slotSlot, a.aliveEx⟩, fun ha => ?_⟩
      simp only [hqp, if_false]
      exact (b ha).transfer (fun _ _ => rfl)
  · intro s S hS
    have hS' : getS w s = some S := hS
    have hSO := h.s s S hS'
    have hnp : ∀ k, abs S.storage k ≠ some p := by
      intro k hk
      obtain ⟨c, hc, _⟩ := hSO.hasConn k p hk
      rw [hnoconn] at hc; cases hc
    refine ⟨hSO.stI, hSO.connsLen, hSO.capEq, hSO.buf1, hSO.bufM, hSO.tbrNodup, hSO.tbrLen, hSO.tbrIn, hSO.connKey,
      hSO.connInj, hSO.cover, hSO.hasConn, hSO.pidInj, hSO.heldKey, ?_, ?_, hSO.aliveEx⟩
    · intro k hk q Q hkq hQ
      rw [hgP] at hQ
      have hqp : q ≠ p := by intro e; subst e; exact hnp k hkq
      simp [hqp] at hQ
      exact hSO.tbrDead k hk q Q hkq hQ
    · intro i k q hi hik hkq
      obtain ⟨Q, hQ, hsl⟩ := hSO.connSlot i k q hi hik hkq
      have hqp : q ≠ p := by intro e; subst e; exact hnp k hkq
      exact ⟨Q, by rw [hgP]; simp [hqp, hQ], hsl⟩

theorem getElem?_set_some {α : Type} (l : List (Option α)) (i j : Nat) (a b : α) (hi : i < l.length) :
    (l.set i (some a))[j]? = some (some b) ↔ ((j = i ∧ b = a) ∨ (j ≠ i ∧ l[j]? = some (some b))) := by
  rw [List.getElem?_set]
  by_cases hij : i = j
  · subst hij
    rw [if_pos rfl, if_pos hi]
    constructor
    · intro h; left; simp at h; exact ⟨rfl, h.symm⟩
    · rintro (⟨_, rfl⟩ | ⟨h1, _⟩)
      · rfl
      · exact absurd rfl h1
  · simp only [hij, if_false]
    constructor
    · intro h; right; exact ⟨fun e => hij e.symm, h⟩
    · rintro (⟨h1, _⟩ | ⟨_, h2⟩)
      · exact absurd h1.symm hij
      · exact h2

theorem register_pub_inv {cfg : Cfg} {w1 : World} {p slot : Nat} {P1 : Pub}
    (h1 : InvP cfg w1 (some p) p [] false) (hp1 : getP w1 p = some P1)
    (hnr : ∀ s c, getC w1 p s = some c → c.rAtt = false)
    (hnotreg : ∀ i : Nat, w1.pubReg.slots[i]? ≠ some (some p))
    (hslot : w1.pubReg.slots[slot]? = some none) (hal : P1.alive = true) :
    Inv cfg { setP w1 p { P1 with slot := slot } with
      pubReg := { slots := w1.pubReg.slots.set slot (some p), counter := w1.pubReg.counter + 1 } } := by
  have hgP : ∀ q, getP { setP w1 p { P1 with slot := slot } with
      pubReg := { slots := w1.pubReg.slots.set slot (some p), counter := w1.pubReg.counter + 1 } } q =
      if q = p then some { P1 with slot := slot } else getP w1 q := by
    intro q
    show getP (setP w1 p { P1 with slot := slot }) q = _
    rw [getP_setP, hp1]; rfl
  have hsl : slot < w1.pubReg.slots.length := (List.getElem?_eq_some_iff.mp hslot).1
  refine ⟨⟨h1.r.cfgEq, ?_, h1.r.subLen, ?_, ?_, h1.r.rs1, h1.r.rs2⟩, ?_, ?_, ?_, h1.u⟩
  · show (w1.pubReg.slots.set slot (some p)).length = _
    simp [h1.r.pubLen]
  · intro i q hi
    have hi' : (w1.pubReg.slots.set slot (some p))[i]? = some (some q) := hi
    rw [getElem?_set_some _ _ _ _ _ hsl] at hi'
    rcases hi' with ⟨rfl, rfl⟩ | ⟨hne, hold⟩
    · exact ⟨{ P1 with slot := i }, by rw [hgP]; simp, hal, rfl⟩
    · obtain ⟨Q, hQ, a, b⟩ := h1.r.rp1 i q hold
      have hqp : q ≠ p := by intro e; subst e; exact hnotreg i hold
      exact ⟨Q, by rw [hgP]; simp [hqp, hQ], a, b⟩
  · intro q Q hQ hQal _
    rw [hgP] at hQ
    show (w1.pubReg.slots.set slot (some p))[Q.slot]? = _
    by_cases hqp : q = p
    · subst hqp
      simp at hQ; subst hQ
      exact (getElem?_set_some _ _ _ _ _ hsl).2 (.inl ⟨rfl, rfl⟩)
    · simp [hqp] at hQ
      have := h1.r.rp2 q Q hQ hQal (fun e => hqp (by cases e; rfl))
      refine (getElem?_set_some _ _ _ _ _ hsl).2 (.inr ⟨fun e => ?_, this⟩)
      rw [e, hslot] at this; cases this
  · intro a b c hc
    have hc' : getC w1 a b = some c := hc
    refine (h1.c a b c hc').transferG (getC_key hc').1 (fun Q hQ => ?_) (fun Q' hQ' => ?_)
      (fun S hS => ⟨S, hS, rfl⟩) (fun S' hS' => ⟨S', hS', rfl, id⟩)
    · by_cases hap : a = p
      · subst hap; rw [hp1] at hQ; cases hQ
        exact ⟨{ P1 with slot := slot }, by rw [hgP]; simp, rfl, rfl, rfl⟩
      · exact ⟨Q, by rw [hgP]; simp [hap, hQ], rfl, rfl, rfl⟩
    · rw [hgP] at hQ'
      by_cases hap : a = p
      · subst hap; simp at hQ'; subst hQ'
        exact ⟨P1, hp1, rfl, rfl⟩
      · simp [hap] at hQ'
        exact ⟨Q', hQ', rfl, rfl⟩
  · intro q Q hQ
    rw [hgP] at hQ
    by_cases hqp : q = p
    · subst hqp; simp at hQ; subst hQ
      obtain ⟨a, b⟩ := h1.p q P1 hp1
      refine ⟨⟨a.connsLen, a.slotConn, a.slotSlot, a.aliveEx⟩, fun ha => ?_⟩
      have M := b ha
      simp only [if_true] at M
      exact ⟨⟨M.fr.rcLen, M.fr.freeNodup, M.fr.freeRc, M.fr.rcFree⟩, M.nEq, M.rcEq, M.loanCnt, M.histLen, M.labels,
        M.loanRc, M.xsRc, M.histNodup⟩
    · simp [hqp] at hQ
      obtain ⟨a, b⟩ := h1.p q Q hQ
      refine ⟨⟨a.connsLen, a.slotConn, a.slotSlot, a.aliveEx⟩, fun ha => ?_⟩
      have M := b ha
      simp only [hqp, if_false] at M
      exact M.transfer (fun _ _ => rfl)
  · intro s S hS
    have hS' : getS w1 s = some S := hS
    have hSO := h1.s s S hS'
    have hnp : ∀ k, abs S.storage k ≠ some p := by
      intro k hk
      obtain ⟨c, hc, hr⟩ := hSO.hasConn k p hk
      rw [hnr s c hc] at hr; cases hr
    refine ⟨hSO.stI, hSO.connsLen, hSO.capEq, hSO.buf1, hSO.bufM, hSO.tbrNodup, hSO.tbrLen, hSO.tbrIn, hSO.connKey,
      hSO.connInj, hSO.cover, hSO.hasConn, hSO.pidInj, hSO.heldKey, ?_, ?_, hSO.aliveEx⟩
    · intro k hk q Q hkq hQ
      rw [hgP] at hQ
      have hqp : q ≠ p := by intro e; subst e; exact hnp k hkq
      simp [hqp] at hQ
      exact hSO.tbrDead k hk q Q hkq hQ
    · intro i k q hi hik hkq
      obtain ⟨Q, hQ, hsl'⟩ := hSO.connSlot i k q hi hik hkq
      have hqp : q ≠ p := by intro e; subst e; exact hnp k hkq
      exact ⟨Q, by rw [hgP]; simp [hqp, hQ], hsl'⟩

end Iox2.PubSub.C08
