/-
Layer B: a publisher and one of its attached connections change together
(`retrieve_returned_chunks`, `deliver_offset`).
-/
import Iox2.Proof.PubSubC01B4
namespace Iox2.PubSub.C01P
open Iox2.PubSub

variable {fl : Option (Nat × Nat × Bool)} {w : World}

theorem ind_att {p c : Nat} {cn : Conn} (hp : cn.pid = p) (hs : cn.sAtt = true) :
    ind p c cn = b2n (cn.used.getD c false) := by
  unfold ind b2n
  simp [hp, hs]

/-- the chunk is referenced by a loan or is the fresh in-flight chunk: its counter is exactly one -/
def Pinned (fl : Option (Nat × Nat × Bool)) (p : Nat) (P : Pub) (y : Nat) : Prop :=
  (∃ l, (l, y) ∈ P.loans) ∨ fl = some (p, y, true)

theorem InvB.pinned_rc (h : InvB fl w) {p : Nat} {P : Pub} (hP : getP w p = some P) (hex : P.ex = true) {y : Nat}
    (hy : Pinned fl p P y) : y < P.n ∧ P.rc.getD y 0 = 1 := by
  rcases hy with ⟨l, hl⟩ | hfl
  · exact (h.loans p P hP hex).2 l y hl
  · obtain ⟨Q, hQ, _, hc, hfr⟩ := h.flOk p y true hfl
    rw [hP] at hQ; cases hQ
    exact ⟨hc, hfr rfl⟩

theorem filter_length_pos {α : Type} {l : List α} {q : α → Bool} {a : α} (ha : a ∈ l) (hq : q a = true) :
    1 ≤ (l.filter q).length :=
  List.length_pos_of_mem (List.mem_filter.mpr ⟨ha, hq⟩)

/-- a pinned chunk is referenced by nothing else -/
theorem InvB.pinned_unused (h : InvB fl w) {p : Nat} {P : Pub} (hP : getP w p = some P) (hex : P.ex = true) {y : Nat}
    (hy : Pinned fl p P y) : usedCnt w p y = 0 ∧ y ∉ P.hist := by
  obtain ⟨hyn, hy1⟩ := h.pinned_rc hP hex hy
  have hrc := h.rc p P hP hex y hyn
  rw [hy1] at hrc
  have hge : 1 ≤ (P.loans.filter (·.2 = y)).length + inflight fl p y := by
    rcases hy with ⟨l, hl⟩ | hfl
    · have := filter_length_pos (q := fun e => decide (e.2 = y)) hl (by simp)
      omega
    · have : inflight fl p y = 1 := by rw [hfl]; simp [inflight]
      omega
  refine ⟨by omega, fun hh => ?_⟩
  have := filter_length_pos (q := fun e => decide (e = y)) hh (by simp)
  omega

/-- publisher `p` and its attached connection `(p, s)` change together -/
theorem InvB.updPC' (h : InvB fl w) {p s : Nat} {P P' : Pub} {c x : Conn}
    (hP : getP w p = some P) (hex : P.ex = true) (hC : getC w p s = some c) (hsa : c.sAtt = true)
    (hxp : x.pid = p) (hxs : x.sid = s)
    (hrf : RcFreeOnly P P') (hlen : P'.rc.length = P.n) (hul : x.used.length = P.n) (hfree : FreeOK P')
    (hrc : ∀ y, y < P.n → P'.rc.getD y 0 + b2n (c.used.getD y false) = P.rc.getD y 0 + ind p y x)
    (hpin : ∀ y, Pinned fl p P y → ind p y x = 0)
    (hinq : x.sAtt = true → ∀ S, getS w s = some S → (inq x S).Nodup ∧ ∀ y ∈ inq x S, x.used.getD y false = true)
    (hun : x.sAtt = false → ∀ y, x.used.getD y false = false)
    (hppi : ∀ S, getS w s = some S → (x.sAtt = true ∨ S.alive = true) → ∀ ch q, (ch, q) ∈ x.sub →
      P.payload.getD ch 0 = P.sent.getD q 0 ∧ q < P.seq) :
    InvB fl (setP (setC w x) p P') := by
  obtain ⟨hcm, hcp, hcs⟩ := getC_some hC
  have hCx : getC w x.pid x.sid = some c := by rw [hxp, hxs]; exact hC
  have hf : P'.n = P.n ∧ P'.loans = P.loans ∧ P'.hist = P.hist ∧ P'.payload = P.payload ∧ P'.sent = P.sent ∧
      P'.chunkSeq = P.chunkSeq ∧ P'.seq = P.seq ∧ P'.ex = P.ex := by
    rw [hrf]; exact ⟨rfl, rfl, rfl, rfl, rfl, rfl, rfl, rfl⟩
  obtain ⟨fn, floans, fhist, fpay, fsent, fcs, fseq, fex⟩ := hf
  have gP : ∀ a Q, getP (setP (setC w x) p P') a = some Q → (a = p ∧ Q = P') ∨ (a ≠ p ∧ getP w a = some Q) := by
    intro a Q hq
    rw [getP_setP] at hq
    by_cases hap : a = p
    · subst hap
      simp only [if_true, getP_setC, hP, Option.map_some, Option.some.injEq] at hq
      exact Or.inl ⟨rfl, hq.symm⟩
    · rw [if_neg hap] at hq
      exact Or.inr ⟨hap, hq⟩
  have hmem : ∀ cn ∈ (setP (setC w x) p P').conns, cn = x ∨ (cn ∈ w.conns ∧ ¬ (cn.pid = p ∧ cn.sid = s)) := by
    intro cn hcn
    rcases mem_setC hcn with ⟨rfl, _⟩ | ⟨hm, hne⟩
    · exact Or.inl rfl
    · rw [hxp, hxs] at hne; exact Or.inr ⟨hm, hne⟩
  have hcnt : ∀ a y, usedCnt (setP (setC w x) p P') a y + ind a y c = usedCnt w a y + ind a y x := by
    intro a y
    exact usedCnt_setC h.keys hCx a y
  have hunpin : ∀ y, Pinned fl p P y → c.used.getD y false = false := by
    intro y hy
    have := (h.pinned_unused hP hex hy).1
    have := usedCnt_zero this hcm
    rw [ind_att hcp hsa] at this
    cases hh : c.used.getD y false with
    | false => rfl
    | true => rw [hh] at this; simp [b2n] at this
  have hrcpin : ∀ y, Pinned fl p P y → P'.rc.getD y 0 = P.rc.getD y 0 := by
    intro y hy
    have h1 := hrc y (h.pinned_rc hP hex hy).1
    rw [hunpin y hy, hpin y hy] at h1
    have : b2n false = 0 := rfl
    omega
  constructor
  · exact h.keys.setC x
  · intro a Q hq
    rcases gP a Q hq with ⟨rfl, rfl⟩ | ⟨_, h0⟩
    · rw [fn, fpay, fcs, fsent, fseq]
      exact ⟨hlen, (h.lens a P hP).2⟩
    · exact h.lens a Q h0
  · intro cn hcn Q hq
    rcases hmem cn hcn with rfl | ⟨hm, hne⟩
    · rw [hxp] at hq
      rcases gP _ Q hq with ⟨_, rfl⟩ | ⟨hap, _⟩
      · rw [fn]; exact hul
      · exact absurd rfl hap
    · rcases gP _ Q hq with ⟨hap, rfl⟩ | ⟨_, h0⟩
      · rw [fn]; exact h.usedLen cn hm P (hap ▸ hP)
      · exact h.usedLen cn hm Q h0
  · intro a Q hq hQe
    rcases gP a Q hq with ⟨rfl, rfl⟩ | ⟨_, h0⟩
    · exact hfree
    · exact h.free a Q h0 hQe
  · intro a Q hq hQe y hy
    rcases gP a Q hq with ⟨rfl, rfl⟩ | ⟨hap, h0⟩
    · rw [fn] at hy
      rw [floans, fhist]
      have h1 := h.rc a P hP hex y hy
      have h2 := hcnt a y
      rw [ind_att hcp hsa] at h2
      have h3 := hrc y hy
      omega
    · have h1 := h.rc a Q h0 hQe y hy
      have h2 := hcnt a y
      rw [ind_of_ne_pid (by rw [hcp]; exact fun hh => hap hh.symm),
        ind_of_ne_pid (by rw [hxp]; exact fun hh => hap hh.symm)] at h2
      omega
  · intro a Q hq hQe
    rcases gP a Q hq with ⟨rfl, rfl⟩ | ⟨_, h0⟩
    · rw [floans, fn]
      obtain ⟨h1, h2⟩ := h.loans a P hP hex
      refine ⟨h1, fun l y hl => ?_⟩
      obtain ⟨h3, h4⟩ := h2 l y hl
      exact ⟨h3, by rw [hrcpin y (Or.inl ⟨l, hl⟩)]; exact h4⟩
    · exact h.loans a Q h0 hQe
  · intro a Q hq hQe
    rcases gP a Q hq with ⟨rfl, rfl⟩ | ⟨_, h0⟩
    · rw [fex, hex] at hQe; cases hQe
    · exact h.deadLoans a Q h0 hQe
  · intro a Q hq hQe
    rcases gP a Q hq with ⟨rfl, rfl⟩ | ⟨_, h0⟩
    · rw [fhist, fn, fpay, fsent, fcs, fseq]; exact h.histOk a P hP hex
    · exact h.histOk a Q h0 hQe
  · intro a y fr hfl
    obtain ⟨Q0, h0, hQe, hy, hfr⟩ := h.flOk a y fr hfl
    rw [getP_setP]
    by_cases hap : a = p
    · subst hap
      rw [hP] at h0; cases h0
      refine ⟨P', by simp [hP], fex ▸ hQe, fn ▸ hy, fun hh => ?_⟩
      subst hh
      rw [hrcpin y (Or.inr hfl)]; exact hfr rfl
    · rw [if_neg hap]; exact ⟨Q0, h0, hQe, hy, hfr⟩
  · intro cn hcn hs Q S hq hQe hS
    rw [getS_setP, getS_setC] at hS
    rcases hmem cn hcn with rfl | ⟨hm, hne⟩
    · rw [hxs] at hS; exact hinq hs S hS
    · rcases gP _ Q hq with ⟨hap, rfl⟩ | ⟨_, h0⟩
      · exact h.inqOk cn hm hs P S (hap ▸ hP) hex hS
      · exact h.inqOk cn hm hs Q S h0 hQe hS
  · intro cn hcn hs Q hq hQe
    rcases hmem cn hcn with rfl | ⟨hm, hne⟩
    · exact hun hs
    · rcases gP _ Q hq with ⟨hap, rfl⟩ | ⟨_, h0⟩
      · exact h.unatt cn hm hs P (hap ▸ hP) hex
      · exact h.unatt cn hm hs Q h0 hQe
  · intro cn hcn Q S hq hS hor ch q hm'
    rw [getS_setP, getS_setC] at hS
    rcases hmem cn hcn with rfl | ⟨hm, hne⟩
    · rw [hxp] at hq
      rcases gP _ Q hq with ⟨_, rfl⟩ | ⟨hap, _⟩
      · rw [fpay, fsent, fseq]; exact hppi S (hxs ▸ hS) hor ch q hm'
      · exact absurd rfl hap
    · rcases gP _ Q hq with ⟨hap, rfl⟩ | ⟨_, h0⟩
      · rw [fpay, fsent, fseq]; exact h.ppi cn hm P S (hap ▸ hP) hS hor ch q hm'
      · exact h.ppi cn hm Q S h0 hS hor ch q hm'


/-- publisher `p` and its attached connection `(p, s)` change together (the connection stays attached) -/
theorem InvB.updPC (h : InvB fl w) {p s : Nat} {P P' : Pub} {c x : Conn}
    (hP : getP w p = some P) (hex : P.ex = true) (hC : getC w p s = some c) (hsa : c.sAtt = true)
    (hxp : x.pid = p) (hxs : x.sid = s) (hxa : x.sAtt = true)
    (hrf : RcFreeOnly P P') (hlen : P'.rc.length = P.n) (hul : x.used.length = P.n) (hfree : FreeOK P')
    (hrc : ∀ y, y < P.n → P'.rc.getD y 0 + b2n (c.used.getD y false) = P.rc.getD y 0 + b2n (x.used.getD y false))
    (hpin : ∀ y, Pinned fl p P y → x.used.getD y false = false)
    (hinq : ∀ S, getS w s = some S → (inq x S).Nodup ∧ ∀ y ∈ inq x S, x.used.getD y false = true)
    (hppi : ∀ ch q, (ch, q) ∈ x.sub → P.payload.getD ch 0 = P.sent.getD q 0 ∧ q < P.seq) :
    InvB fl (setP (setC w x) p P') := by
  refine h.updPC' hP hex hC hsa hxp hxs hrf hlen hul hfree ?_ ?_ (fun _ => hinq) ?_ (fun _ _ _ => hppi)
  · intro y hy; rw [ind_att hxp hxa]; exact hrc y hy
  · intro y hy; rw [ind_att hxp hxa, hpin y hy]; rfl
  · intro hf; rw [hxa] at hf; cases hf

end Iox2.PubSub.C01P
