/-
C08 helper: the API operations preserve the invariant (part 4: returning a loan, dloan, dpub, dsub).
-/
import Iox2.Proof.PubSubC08Op3
set_option linter.unusedSimpArgs false
set_option linter.unusedVariables false
namespace Iox2.PubSub.C08
open Iox2.PubSub
open Iox2.C16.SlotMapP (abs)
attribute [-simp] List.getD_eq_getElem?_getD

theorem loans_filter_perm : ∀ (loans : List (Nat × Nat)) (l c : Nat), (loans.map (·.1)).Nodup → (l, c) ∈ loans →
    ((l, c) :: loans.filter (·.1 ≠ l)).Perm loans
  | [], l, c, _, hm => by simp at hm
  | a :: r, l, c, hnd, hm => by
    simp only [List.map_cons, List.nodup_cons] at hnd
    rcases List.mem_cons.mp hm with e | hm'
    · subst e
      have hr : r.filter (·.1 ≠ l) = r := by
        rw [List.filter_eq_self]
        intro x hx
        have : x.1 ≠ l := fun e => hnd.1 (List.mem_map.mpr ⟨x, hx, e⟩)
        simpa using this
      have h0 : (((l, c) :: r).filter (·.1 ≠ l)) = r.filter (·.1 ≠ l) := by
        rw [List.filter_cons]; simp
      rw [h0, hr]
    · have hne : a.1 ≠ l := by
        intro e
        exact hnd.1 (List.mem_map.mpr ⟨(l, c), hm', e.symm⟩)
      have ih := loans_filter_perm r l c hnd.2 hm'
      simp only [List.filter_cons, hne, ne_eq, not_false_eq_true, decide_true, if_true]
      exact (List.Perm.swap _ _ _).trans (ih.cons a)

/-- a loan becomes an in-flight reference (the first step of `send` and `dloan`) -/
theorem MemOK.take_loan {cfg : Cfg} {w : World} {p : Nat} {P : Pub} (M : MemOK cfg w p P [] false)
    {l c : Nat} (hm : (l, c) ∈ P.loans) (pl : List Nat) :
    MemOK cfg w p { P with payload := pl, loans := P.loans.filter (·.1 ≠ l) } [c] true := by
  have hperm := loans_filter_perm P.loans l c M.labels hm
  have hrc1 := M.loanRc (l, c) hm
  refine ⟨⟨M.fr.rcLen, M.fr.freeNodup, M.fr.freeRc, M.fr.rcFree⟩, M.nEq, ?_, ?_, M.histLen, ?_, ?_, ?_, M.histNodup⟩
  · intro x
    have := M.rcEq x
    have hc := (hperm.map (·.2)).count_eq x
    simp only [List.map_cons, List.count_cons, List.count_nil] at hc this ⊢
    show P.rc.getD x 0 = _ + ((P.loans.filter (·.1 ≠ l)).map (·.2)).count x + _ + _
    by_cases hxc : c = x
    · simp [hxc] at hc ⊢; omega
    · simp [hxc] at hc ⊢; omega
  · have := M.loanCnt
    have hl := hperm.length_eq
    simp only [List.length_cons, List.length_nil, Nat.add_zero] at this hl
    show P.loanCnt = (P.loans.filter _).length + 1
    omega
  · exact List.Nodup.sublist (List.filter_sublist.map _) M.labels
  · intro lc hlc
    exact M.loanRc lc (List.mem_filter.mp hlc).1
  · intro _ x hx
    simp at hx; subst hx; exact hrc1

/-- the in-flight reference is dropped (`return_loaned_chunk`) -/
theorem MemOK.drop_flight {cfg : Cfg} {w : World} {p : Nat} {P : Pub} {c : Nat} {st : Bool}
    (M : MemOK cfg w p P [c] st) :
    MemOK cfg w p { P.releaseChunk c with loanCnt := P.loanCnt - 1 } [] false := by
  have hpool := releaseChunk_pool P c
  obtain ⟨f1, f2, f3, f4, f5, f6, f7, f8, f9, f10, f11, f12, f13, f14, f15⟩ := hpool.fields
  have hfr := freeOK_releaseChunk M.fr c
  have hrc := rc_releaseChunk P c
  refine ⟨⟨hfr.rcLen, hfr.freeNodup, hfr.freeRc, hfr.rcFree⟩, ?_, ?_, ?_, ?_, ?_, ?_, fun h => (by cases h), ?_⟩
  · show (P.releaseChunk c).n = cfg.nChunks (P.releaseChunk c).maxLoans
    rw [f5, f4]; exact M.nEq
  · intro x
    show (P.releaseChunk c).rc.getD x 0 = _ + ((P.releaseChunk c).loans.map (·.2)).count x +
      (P.releaseChunk c).hist.count x + slotSum w p (P.releaseChunk c).conns x
    rw [hrc, f11, f7, f8]
    have := M.rcEq x
    simp only [List.count_cons, List.count_nil] at this ⊢
    by_cases hxc : x = c
    · subst hxc; simp at this ⊢; omega
    · have : ¬ c = x := fun e => hxc e.symm
      simp [hxc, this] at *; omega
  · show P.loanCnt - 1 = (P.releaseChunk c).loans.length + 0
    rw [f11]; have := M.loanCnt; simp at this; omega
  · show (P.releaseChunk c).hist.length ≤ _; rw [f7]; exact M.histLen
  · show ((P.releaseChunk c).loans.map (·.1)).Nodup; rw [f11]; exact M.labels
  · intro lc hlc
    have hlc' : lc ∈ P.loans := f11 ▸ hlc
    have h1 := M.loanRc lc hlc'
    show (P.releaseChunk c).rc.getD lc.2 0 = 1
    rw [hrc]
    have hne : lc.2 ≠ c := by
      intro e
      have := M.rcEq c
      have hc1 : 1 ≤ (P.loans.map (·.2)).count c :=
        List.one_le_count_iff.mpr (List.mem_map.mpr ⟨lc, hlc', e⟩)
      rw [e] at h1
      simp only [List.count_cons_self, List.count_nil] at this
      omega
    simp [hne, h1]
  · show (P.releaseChunk c).hist.Nodup; rw [f7]; exact M.histNodup

theorem step_dloan {cfg : Cfg} {w : World} (h : Inv cfg w) (p l : Nat) :
    Inv cfg (step w (.dloan p l)).1 ∧ (step w (.dloan p l)).1.panicked = w.panicked := by
  simp only [step]
  cases hp : getP w p with
  | none => exact ⟨h, rfl⟩
  | some P =>
    dsimp only
    cases hfind : P.loans.find? (·.1 = l) with
    | none => exact ⟨h, rfl⟩
    | some lc =>
      obtain ⟨lab, c⟩ := lc
      dsimp only
      obtain ⟨hm, hlab⟩ := find_some_mem hfind
      have hlab' : lab = l := hlab
      subst hlab'
      have hpool := releaseChunk_pool P c
      have hsim : PubSim P { P.releaseChunk c with loanCnt := P.loanCnt - 1, loans := P.loans.filter (·.1 ≠ lab) } :=
        ⟨hpool.sim.alive, hpool.sim.ex, hpool.sim.slot, hpool.sim.conns, hpool.sim.n⟩
      have h1 : InvP cfg (setP w p { P.releaseChunk c with loanCnt := P.loanCnt - 1, loans := P.loans.filter (·.1 ≠ lab) }) none p [] false := by
        refine (h.toP p).setP_only hp _ hsim (fun hne => absurd rfl hne) (fun hal => ?_)
        have hal' : P.alive = true := hpool.sim.alive ▸ hal
        have M := (h.p p P hp).2 hal'
        have M1 := (M.take_loan hm P.payload).drop_flight
        simp only [if_true]
        have e : ({ P with payload := P.payload, loans := P.loans.filter (·.1 ≠ lab) } : Pub).releaseChunk c =
            { P.releaseChunk c with loans := P.loans.filter (·.1 ≠ lab) } := by
          unfold Pub.releaseChunk
          dsimp only
          split <;> rfl
        rw [e] at M1
        exact M1
      refine ⟨(pubDestroy_inv h1 p (fun hne => absurd rfl hne)).toInv, ?_⟩
      exact (pubDestroyIfUnreferenced_P _ p).frame.2.2.2.2.1

end Iox2.PubSub.C08
