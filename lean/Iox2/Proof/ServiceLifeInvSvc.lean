/-
C06 — preservation of `SvcOK` by the list-level state changes, and stability of the incarnations.
-/
import Iox2.Proof.ServiceLifeInvBase

namespace Iox2.ServiceLife

/-- replace the registered node ids of the service `k` -/
def updRegs (k : Key) (R : Svc → List Nat) (s : Svc) : Svc :=
  if s.key == k then { s with regs := R s } else s

theorem updRegs_key (k : Key) (R : Svc → List Nat) (s : Svc) : (updRegs k R s).key = s.key := by
  unfold updRegs; split <;> rfl
theorem updRegs_uid (k : Key) (R : Svc → List Nat) (s : Svc) : (updRegs k R s).uid = s.uid := by
  unfold updRegs; split <;> rfl
theorem updRegs_cfg (k : Key) (R : Svc → List Nat) (s : Svc) : (updRegs k R s).cfg = s.cfg := by
  unfold updRegs; split <;> rfl
theorem updRegs_creq (k : Key) (R : Svc → List Nat) (s : Svc) : (updRegs k R s).creq = s.creq := by
  unfold updRegs; split <;> rfl
theorem updRegs_regs_of {k : Key} (R : Svc → List Nat) {s : Svc} (h : s.key = k) : (updRegs k R s).regs = R s := by
  unfold updRegs; rw [if_pos (by simp [h])]
theorem updRegs_of_ne {k : Key} (R : Svc → List Nat) {s : Svc} (h : s.key ≠ k) : updRegs k R s = s := by
  unfold updRegs; rw [if_neg (by simp [h])]

theorem keys_map_updRegs (k : Key) (R : Svc → List Nat) (l : List Svc) :
    (l.map (updRegs k R)).map (·.key) = l.map (·.key) := by
  rw [List.map_map]
  exact List.map_congr_left (fun s _ => updRegs_key k R s)

theorem SvcOK.unique {svcs : List Svc} {sts : List SState} {u : Nat} (h : SvcOK svcs sts u) {s1 s2 : Svc}
    (h1 : s1 ∈ svcs) (h2 : s2 ∈ svcs) (e : s1.key = s2.key) : s1 = s2 :=
  nodup_map_inj h.keysNodup h1 h2 e

/-- a state of `(n, k)` exists: the node is registered at the service found for `k` -/
theorem SvcOK.mem_regs {svcs : List Svc} {sts : List SState} {u : Nat} (h : SvcOK svcs sts u) {k : Key} {svc : Svc}
    (hf : findL svcs k = some svc) {st : SState} (hst : st ∈ sts) (hk : st.key = k) :
    st.node ∈ svc.regs ∧ svc.uid = st.uid ∧ svc.cfg = st.cfg := by
  rcases h.stSvc st hst with ⟨svc0, hs0, e0, hm, hu, hc⟩
  have := findL_some hf
  have : svc0 = svc := h.unique hs0 this.1 (by rw [e0, hk, this.2])
  subst this
  exact ⟨hm, hu, hc⟩

theorem SvcOK.find_of_state {svcs : List Svc} {sts : List SState} {u : Nat} (h : SvcOK svcs sts u) {st : SState}
    (hst : st ∈ sts) : ∃ svc, findL svcs st.key = some svc := by
  rcases h.stSvc st hst with ⟨svc0, hs0, e0, -⟩
  have := findL_isSome_of_mem hs0
  rw [e0] at this
  cases hf : findL svcs st.key with
  | none => rw [hf] at this; cases this
  | some svc => exact ⟨svc, rfl⟩

/-! ## a new state -/

theorem SvcOK.add_reg {svcs : List Svc} {sts : List SState} {u : Nat} (h : SvcOK svcs sts u) {k : Key} {svc : Svc}
    (hf : findL svcs k = some svc) {n : Nat} (h0 : stateCountL sts n k = 0) (lbl : Nat) :
    SvcOK (svcs.map (updRegs k (fun s => n :: s.regs)))
      ({ node := n, key := svc.key, uid := svc.uid, cfg := svc.cfg, factory := some lbl, ports := [] } :: sts) u := by
  have hsvc := findL_some hf
  have h0' := stateCountL_zero_iff.1 h0
  refine ⟨?_, ?_, ?_, ?_⟩
  · rw [keys_map_updRegs]; exact h.keysNodup
  · intro st hst
    rcases List.mem_cons.1 hst with rfl | hst
    · refine ⟨updRegs k _ svc, List.mem_map.2 ⟨svc, hsvc.1, rfl⟩, updRegs_key _ _ _, ?_, updRegs_uid _ _ _, updRegs_cfg _ _ _⟩
      rw [updRegs_regs_of _ hsvc.2]
      exact List.mem_cons_self
    · rcases h.stSvc st hst with ⟨svc0, hs0, e0, hm, hu, hc⟩
      refine ⟨updRegs k _ svc0, List.mem_map.2 ⟨svc0, hs0, rfl⟩, (updRegs_key _ _ _).trans e0, ?_,
        (updRegs_uid _ _ _).trans hu, (updRegs_cfg _ _ _).trans hc⟩
      by_cases hk : svc0.key = k
      · rw [updRegs_regs_of _ hk]; exact List.mem_cons_of_mem _ hm
      · rw [updRegs_of_ne _ hk]; exact hm
  · intro s' hs'
    rcases List.mem_map.1 hs' with ⟨s0, hs0, rfl⟩
    rcases h.svcSt s0 hs0 with ⟨hne, hnd, hall⟩
    by_cases hk : s0.key = k
    · rw [updRegs_regs_of _ hk, updRegs_key]
      refine ⟨List.cons_ne_nil _ _, List.nodup_cons.2 ⟨?_, hnd⟩, ?_⟩
      · intro hm
        rcases hall n hm with ⟨st, hst, e1, e2⟩
        exact h0' st hst ⟨e1, e2.trans hk⟩
      · intro m hm
        rcases List.mem_cons.1 hm with rfl | hm
        · have : s0 = svc := h.unique hs0 hsvc.1 (hk.trans hsvc.2.symm)
          exact ⟨_, List.mem_cons_self, rfl, by rw [this]⟩
        · rcases hall m hm with ⟨st, hst, e⟩
          exact ⟨st, List.mem_cons_of_mem _ hst, e⟩
    · rw [updRegs_of_ne _ hk]
      refine ⟨hne, hnd, ?_⟩
      intro m hm
      rcases hall m hm with ⟨st, hst, e⟩
      exact ⟨st, List.mem_cons_of_mem _ hst, e⟩
  · intro s' hs'
    rcases List.mem_map.1 hs' with ⟨s0, hs0, rfl⟩
    rw [updRegs_cfg, updRegs_key, updRegs_creq, updRegs_uid]
    exact h.svcCfg s0 hs0

theorem SvcOK.add_same {svcs : List Svc} {sts : List SState} {u : Nat} (h : SvcOK svcs sts u) {k : Key} {svc : Svc}
    (hf : findL svcs k = some svc) {n : Nat} (h1 : 1 ≤ stateCountL sts n k) (lbl : Nat) :
    SvcOK svcs ({ node := n, key := svc.key, uid := svc.uid, cfg := svc.cfg, factory := some lbl, ports := [] } :: sts) u := by
  have hsvc := findL_some hf
  rcases stateCountL_pos_iff.1 h1 with ⟨st1, hst1, e1, e2⟩
  refine ⟨h.keysNodup, ?_, ?_, h.svcCfg⟩
  · intro st hst
    rcases List.mem_cons.1 hst with rfl | hst
    · refine ⟨svc, hsvc.1, rfl, ?_, rfl, rfl⟩
      have := (h.mem_regs hf hst1 e2).1
      rw [e1] at this
      exact this
    · exact h.stSvc st hst
  · intro s hs
    rcases h.svcSt s hs with ⟨hne, hnd, hall⟩
    refine ⟨hne, hnd, ?_⟩
    intro m hm
    rcases hall m hm with ⟨st, hst, e⟩
    exact ⟨st, List.mem_cons_of_mem _ hst, e⟩

theorem SvcOK.create {svcs : List Svc} {sts : List SState} {u : Nat} (h : SvcOK svcs sts u) {k : Key}
    (hf : findL svcs k = none) (n lbl : Nat) (r : Req) :
    SvcOK ({ key := k, uid := u, cfg := mkSettings k.p r, regs := [n], creq := r } :: svcs)
      ({ node := n, key := k, uid := u, cfg := mkSettings k.p r, factory := some lbl, ports := [] } :: sts) (u + 1) := by
  have hnone := findL_none hf
  refine ⟨?_, ?_, ?_, ?_⟩
  · rw [List.map_cons, List.nodup_cons]
    refine ⟨?_, h.keysNodup⟩
    intro hm
    rcases List.mem_map.1 hm with ⟨s, hs, e⟩
    exact hnone s hs e
  · intro st hst
    rcases List.mem_cons.1 hst with rfl | hst
    · exact ⟨_, List.mem_cons_self, rfl, List.mem_cons_self, rfl, rfl⟩
    · rcases h.stSvc st hst with ⟨svc0, hs0, e⟩
      exact ⟨svc0, List.mem_cons_of_mem _ hs0, e⟩
  · intro s hs
    rcases List.mem_cons.1 hs with rfl | hs
    · refine ⟨List.cons_ne_nil _ _, List.nodup_cons.2 ⟨List.not_mem_nil, List.nodup_nil⟩, ?_⟩
      intro m hm
      rcases List.mem_cons.1 hm with rfl | hm
      · exact ⟨_, List.mem_cons_self, rfl, rfl⟩
      · cases hm
    · rcases h.svcSt s hs with ⟨hne, hnd, hall⟩
      refine ⟨hne, hnd, ?_⟩
      intro m hm
      rcases hall m hm with ⟨st, hst, e⟩
      exact ⟨st, List.mem_cons_of_mem _ hst, e⟩
  · intro s hs
    rcases List.mem_cons.1 hs with rfl | hs
    · exact ⟨rfl, Nat.lt_succ_self u⟩
    · exact ⟨(h.svcCfg s hs).1, Nat.lt_succ_of_lt (h.svcCfg s hs).2⟩

/-! ## a state changes, keeping node and service -/

theorem SvcOK.replace {svcs : List Svc} {l1 l2 : List SState} {st : SState} {u : Nat}
    (h : SvcOK svcs (l1 ++ st :: l2) u) (st' : SState) (hn : st'.node = st.node) (hk : st'.key = st.key)
    (hu : st'.uid = st.uid) (hc : st'.cfg = st.cfg) : SvcOK svcs (l1 ++ st' :: l2) u := by
  refine ⟨h.keysNodup, ?_, ?_, h.svcCfg⟩
  · intro x hx
    rcases mem_middle_iff.1 hx with rfl | hx
    · rw [hn, hk, hu, hc]
      exact h.stSvc st (mem_middle_iff.2 (Or.inl rfl))
    · exact h.stSvc x (mem_remove_middle hx)
  · intro s hs
    rcases h.svcSt s hs with ⟨hne, hnd, hall⟩
    refine ⟨hne, hnd, ?_⟩
    intro m hm
    rcases hall m hm with ⟨x, hx, e1, e2⟩
    rcases mem_middle_iff.1 hx with rfl | hx
    · exact ⟨st', mem_middle_iff.2 (Or.inl rfl), hn.trans e1, hk.trans e2⟩
    · exact ⟨x, mem_remove_middle hx, e1, e2⟩

/-! ## a state goes away -/

theorem SvcOK.remove_keep {svcs : List Svc} {l1 l2 : List SState} {st : SState} {u : Nat}
    (h : SvcOK svcs (l1 ++ st :: l2) u) (h1 : 1 ≤ stateCountL (l1 ++ l2) st.node st.key) :
    SvcOK svcs (l1 ++ l2) u := by
  rcases stateCountL_pos_iff.1 h1 with ⟨st1, hst1, e1, e2⟩
  refine ⟨h.keysNodup, fun x hx => h.stSvc x (mem_remove_middle hx), ?_, h.svcCfg⟩
  intro s hs
  rcases h.svcSt s hs with ⟨hne, hnd, hall⟩
  refine ⟨hne, hnd, ?_⟩
  intro m hm
  rcases hall m hm with ⟨x, hx, e3, e4⟩
  rcases mem_middle_iff.1 hx with rfl | hx
  · exact ⟨st1, hst1, e1.trans e3, e2.trans e4⟩
  · exact ⟨x, hx, e3, e4⟩

/-- the last state of the last registered node: the service goes away -/
theorem SvcOK.remove_last {svcs : List Svc} {l1 l2 : List SState} {st : SState} {u : Nat}
    (h : SvcOK svcs (l1 ++ st :: l2) u) (h0 : stateCountL (l1 ++ l2) st.node st.key = 0) {svc : Svc}
    (hf : findL svcs st.key = some svc) (he : svc.regs.erase st.node = []) :
    SvcOK (svcs.filter (fun s => !(s.key == st.key))) (l1 ++ l2) u := by
  have h0' := stateCountL_zero_iff.1 h0
  have hnok : ∀ x ∈ l1 ++ l2, x.key ≠ st.key := by
    intro x hx e
    have hm := (h.mem_regs hf (mem_remove_middle hx) e).1
    have hne : x.node ≠ st.node := fun e' => h0' x hx ⟨e', e⟩
    have : x.node ∈ svc.regs.erase st.node := (List.mem_erase_of_ne hne).2 hm
    rw [he] at this
    cases this
  have hmemf : ∀ s, s ∈ svcs.filter (fun s => !(s.key == st.key)) ↔ s ∈ svcs ∧ s.key ≠ st.key := by
    intro s; rw [List.mem_filter]; simp
  refine ⟨h.keysNodup.sublist (List.filter_sublist.map _), ?_, ?_, ?_⟩
  · intro x hx
    rcases h.stSvc x (mem_remove_middle hx) with ⟨svc0, hs0, e0, rest⟩
    exact ⟨svc0, (hmemf _).2 ⟨hs0, by rw [e0]; exact hnok x hx⟩, e0, rest⟩
  · intro s hs
    rcases (hmemf _).1 hs with ⟨hs, hk⟩
    rcases h.svcSt s hs with ⟨hne, hnd, hall⟩
    refine ⟨hne, hnd, ?_⟩
    intro m hm
    rcases hall m hm with ⟨x, hx, e3, e4⟩
    rcases mem_middle_iff.1 hx with rfl | hx
    · exact absurd e4.symm hk
    · exact ⟨x, hx, e3, e4⟩
  · intro s hs
    exact h.svcCfg s ((hmemf _).1 hs).1

/-- the last state of a node, other nodes remain: the node id is deregistered -/
theorem SvcOK.remove_dereg {svcs : List Svc} {l1 l2 : List SState} {st : SState} {u : Nat}
    (h : SvcOK svcs (l1 ++ st :: l2) u) (h0 : stateCountL (l1 ++ l2) st.node st.key = 0) {svc : Svc}
    (hf : findL svcs st.key = some svc) (he : svc.regs.erase st.node ≠ []) :
    SvcOK (svcs.map (updRegs st.key (fun _ => svc.regs.erase st.node))) (l1 ++ l2) u := by
  have h0' := stateCountL_zero_iff.1 h0
  have hsvc := findL_some hf
  refine ⟨?_, ?_, ?_, ?_⟩
  · rw [keys_map_updRegs]; exact h.keysNodup
  · intro x hx
    rcases h.stSvc x (mem_remove_middle hx) with ⟨svc0, hs0, e0, hm, hu, hc⟩
    refine ⟨updRegs st.key _ svc0, List.mem_map.2 ⟨svc0, hs0, rfl⟩, (updRegs_key _ _ _).trans e0, ?_,
      (updRegs_uid _ _ _).trans hu, (updRegs_cfg _ _ _).trans hc⟩
    by_cases hk : svc0.key = st.key
    · rw [updRegs_regs_of _ hk]
      have : svc0 = svc := h.unique hs0 hsvc.1 (hk.trans hsvc.2.symm)
      subst this
      have hne : x.node ≠ st.node := fun e' => h0' x hx ⟨e', e0.symm.trans hk⟩
      exact (List.mem_erase_of_ne hne).2 hm
    · rw [updRegs_of_ne _ hk]; exact hm
  · intro s' hs'
    rcases List.mem_map.1 hs' with ⟨s0, hs0, rfl⟩
    rcases h.svcSt s0 hs0 with ⟨hne, hnd, hall⟩
    by_cases hk : s0.key = st.key
    · have : s0 = svc := h.unique hs0 hsvc.1 (hk.trans hsvc.2.symm)
      subst this
      rw [updRegs_regs_of _ hk, updRegs_key]
      refine ⟨he, hnd.erase _, ?_⟩
      intro m hm
      rcases (hnd.mem_erase_iff).1 hm with ⟨hmne, hm⟩
      rcases hall m hm with ⟨x, hx, e3, e4⟩
      rcases mem_middle_iff.1 hx with rfl | hx
      · exact absurd e3.symm hmne
      · exact ⟨x, hx, e3, e4⟩
    · rw [updRegs_of_ne _ hk]
      refine ⟨hne, hnd, ?_⟩
      intro m hm
      rcases hall m hm with ⟨x, hx, e3, e4⟩
      rcases mem_middle_iff.1 hx with rfl | hx
      · exact absurd e4.symm hk
      · exact ⟨x, hx, e3, e4⟩
  · intro s' hs'
    rcases List.mem_map.1 hs' with ⟨s0, hs0, rfl⟩
    rw [updRegs_cfg, updRegs_key, updRegs_creq, updRegs_uid]
    exact h.svcCfg s0 hs0

/-! ## stability of the incarnations: what is found afterwards was there before, with the same
uid / settings -/

def SvcSub (l l' : List Svc) : Prop :=
  ∀ k s', findL l' k = some s' → ∃ s, findL l k = some s ∧ s'.uid = s.uid ∧ s'.cfg = s.cfg ∧ s'.key = s.key

theorem SvcSub.refl (l : List Svc) : SvcSub l l := fun _ s' h => ⟨s', h, rfl, rfl, rfl⟩

theorem SvcSub.trans {l1 l2 l3 : List Svc} (h12 : SvcSub l1 l2) (h23 : SvcSub l2 l3) : SvcSub l1 l3 := by
  intro k s3 h3
  rcases h23 k s3 h3 with ⟨s2, h2, e1, e2, e3⟩
  rcases h12 k s2 h2 with ⟨s1, h1, f1, f2, f3⟩
  exact ⟨s1, h1, e1.trans f1, e2.trans f2, e3.trans f3⟩

theorem findL_map_updRegs (k : Key) (R : Svc → List Nat) (l : List Svc) (k' : Key) :
    findL (l.map (updRegs k R)) k' = (findL l k').map (updRegs k R) := by
  unfold findL
  rw [List.find?_map]
  have : ((fun s : Svc => s.key == k') ∘ updRegs k R) = (fun s : Svc => s.key == k') := by
    funext s
    show ((updRegs k R s).key == k') = (s.key == k')
    rw [updRegs_key]
  rw [this]

theorem SvcSub.map_updRegs (k : Key) (R : Svc → List Nat) (l : List Svc) : SvcSub l (l.map (updRegs k R)) := by
  intro k' s' h
  rw [findL_map_updRegs] at h
  cases hf : findL l k' with
  | none => rw [hf] at h; cases h
  | some s =>
    rw [hf] at h
    have : s' = updRegs k R s := by simpa using h.symm
    subst this
    exact ⟨s, rfl, updRegs_uid _ _ _, updRegs_cfg _ _ _, updRegs_key _ _ _⟩

theorem SvcSub.filter (k : Key) (l : List Svc) : SvcSub l (l.filter (fun s => !(s.key == k))) := by
  intro k' s' h
  unfold findL at h ⊢
  rw [List.find?_filter] at h
  induction l with
  | nil => cases h
  | cons a l ih =>
    rw [List.find?_cons] at h ⊢
    by_cases hk : a.key = k'
    · have hb : (a.key == k') = true := by simp [hk]
      rw [hb]
      by_cases hk2 : a.key = k
      · -- the removed service: nothing with this key can be found behind it
        exfalso
        have hd : decide ((!(a.key == k)) = true ∧ (a.key == k') = true) = false := by simp [hk2]
        rw [hd] at h
        have := List.find?_some h
        simp at this
        exact this.1 (this.2.trans (hk.symm.trans hk2))
      · have hd : decide ((!(a.key == k)) = true ∧ (a.key == k') = true) = true := by
          simp [hk]; exact fun e => hk2 (hk.trans e)
        rw [hd] at h
        have : s' = a := by simpa using h.symm
        subst this
        exact ⟨s', rfl, rfl, rfl, rfl⟩
    · have hb : (a.key == k') = false := by simp [hk]
      have hd : decide ((!(a.key == k)) = true ∧ (a.key == k') = true) = false := by simp [hk]
      rw [hd] at h
      rw [hb]
      exact ih h

end Iox2.ServiceLife
