/-
Registry (`Reg`) and id-set (`insertId`) lemmas for the event-port model.
-/
import Iox2.Model.EventPorts
namespace Iox2.EventPorts

/-! ### `insertId` -/

theorem mem_insertId {x a : Nat} {l : List Nat} : a ∈ insertId x l ↔ a = x ∨ a ∈ l := by
  induction l with
  | nil => simp [insertId]
  | cons y ys ih =>
    unfold insertId
    by_cases h1 : x < y
    · simp [h1]
    · by_cases h2 : x = y
      · subst h2; simp
      · simp [h1, h2, ih]; constructor
        · rintro (h | h | h) <;> simp [h]
        · rintro (h | h | h) <;> simp [h]

theorem insertId_sorted {x : Nat} {l : List Nat} (h : l.Pairwise (· < ·)) : (insertId x l).Pairwise (· < ·) := by
  induction l with
  | nil => simp [insertId]
  | cons y ys ih =>
    unfold insertId
    have hy := List.pairwise_cons.mp h
    by_cases h1 : x < y
    · simp only [h1, if_true]
      refine List.pairwise_cons.mpr ⟨?_, h⟩
      intro a ha
      rcases List.mem_cons.mp ha with rfl | ha
      · exact h1
      · exact Nat.lt_trans h1 (hy.1 a ha)
    · by_cases h2 : x = y
      · simp [h2, h]
      · simp only [h1, h2, if_false]
        refine List.pairwise_cons.mpr ⟨?_, ih hy.2⟩
        intro a ha
        rcases mem_insertId.mp ha with rfl | ha
        · omega
        · exact hy.1 a ha

/-! ### registry well-formedness relative to an ownership function

`own a = some i`: the port with label `a` holds the registry entry in slot `i`. -/

structure RegOK (r : Reg) (own : Nat → Option Nat) : Prop where
  slot : ∀ i a, r.slots[i]? = some (some a) → own a = some i
  owner : ∀ a i, own a = some i → r.slots[i]? = some (some a)
  free : ∀ i, i ∈ r.free ↔ r.slots[i]? = some none
  nodup : r.free.Nodup

theorem RegOK.init (cap : Nat) : RegOK (Reg.init cap) (fun _ => none) := by
  refine ⟨?_, ?_, ?_, ?_⟩
  · intro i a h; simp [Reg.init, List.getElem?_replicate] at h
  · intro a i h; simp at h
  · intro i; simp [Reg.init, List.getElem?_replicate, List.mem_range]
  · exact List.nodup_range

theorem RegOK.congr {r : Reg} {own own' : Nat → Option Nat} (h : RegOK r own) (e : ∀ a, own' a = own a) : RegOK r own' := by
  have : own' = own := funext e
  rw [this]; exact h

theorem Reg.add_isSome_iff {r : Reg} {own : Nat → Option Nat} (h : RegOK r own) (a : Nat) :
    (r.add a).isSome ↔ ∃ i : Nat, r.slots[i]? = some none := by
  unfold Reg.add
  cases hf : r.free with
  | nil =>
    simp
    intro i hi
    have := (h.free i).mpr hi
    rw [hf] at this; simp at this
  | cons i rest =>
    simp
    exact ⟨i, (h.free i).mp (by rw [hf]; simp)⟩

theorem Reg.add_none_iff {r : Reg} {own : Nat → Option Nat} (h : RegOK r own) (a : Nat) :
    r.add a = none ↔ ¬ ∃ i : Nat, r.slots[i]? = some none := by
  rw [← Reg.add_isSome_iff h a]; cases r.add a <;> simp

theorem RegOK.add {r r' : Reg} {own : Nat → Option Nat} {a i : Nat} (h : RegOK r own) (hn : own a = none)
    (e : r.add a = some (r', i)) :
    RegOK r' (fun x => if x = a then some i else own x) ∧ r'.slots = r.slots.set i (some a) ∧ r.slots[i]? = some none
      ∧ r'.counter = r.counter + 1 := by
  unfold Reg.add at e
  cases hf : r.free with
  | nil => rw [hf] at e; simp at e
  | cons j rest =>
    rw [hf] at e; simp at e
    obtain ⟨e1, e2⟩ := e
    subst e2; subst e1
    have hj : r.slots[j]? = some none := (h.free j).mp (by rw [hf]; simp)
    have hjl : j < r.slots.length := by
      rcases Nat.lt_or_ge j r.slots.length with h1 | h1
      · exact h1
      · rw [List.getElem?_eq_none h1] at hj; simp at hj
    have hnd : j ∉ rest ∧ rest.Nodup := by
      have := h.nodup; rw [hf] at this; exact List.nodup_cons.mp this
    refine ⟨⟨?_, ?_, ?_, ?_⟩, rfl, hj, rfl⟩
    · intro i b hb
      simp only [List.getElem?_set] at hb
      by_cases hji : j = i
      · subst hji; simp [hjl] at hb; subst hb; simp
      · simp [hji] at hb
        have := h.slot i b hb
        have hba : b ≠ a := by intro e; subst e; rw [hn] at this; simp at this
        simp [hba, this]
    · intro b i hb
      by_cases hba : b = a
      · subst hba; simp at hb; subst hb; simp [hjl]
      · simp [hba] at hb
        have := h.owner b i hb
        have hji : j ≠ i := by intro e; subst e; rw [hj] at this; simp at this
        simp [List.getElem?_set, hji, this]
    · intro i
      simp only [List.getElem?_set]
      by_cases hji : j = i
      · subst hji; simp [hjl, hnd.1]
      · simp [hji]
        rw [← h.free i, hf]; simp; intro e; exact absurd e.symm hji
    · exact hnd.2

theorem RegOK.remove {r : Reg} {own : Nat → Option Nat} {a i : Nat} (h : RegOK r own) (ho : own a = some i) :
    RegOK (r.remove i) (fun x => if x = a then none else own x) := by
  have hs := h.owner a i ho
  have hil : i < r.slots.length := by
    rcases Nat.lt_or_ge i r.slots.length with h1 | h1
    · exact h1
    · rw [List.getElem?_eq_none h1] at hs; simp at hs
  refine ⟨?_, ?_, ?_, ?_⟩
  · intro j b hb
    simp only [Reg.remove, List.getElem?_set] at hb
    by_cases hij : i = j
    · subst hij; simp [hil] at hb
    · simp [hij] at hb
      have hb' := h.slot j b hb
      have : b ≠ a := by intro e; subst e; rw [ho] at hb'; simp at hb'; exact hij hb'
      simp [this, hb']
  · intro b j hb
    by_cases hba : b = a
    · subst hba; simp at hb
    · simp [hba] at hb
      have := h.owner b j hb
      have hij : i ≠ j := by intro e; subst e; rw [hs] at this; simp at this; exact hba this.symm
      simp [Reg.remove, List.getElem?_set, hij, this]
  · intro j
    simp only [Reg.remove, List.getElem?_set, List.mem_cons]
    by_cases hij : i = j
    · subst hij; simp [hil]
    · simp [hij]; rw [h.free j]; constructor
      · rintro (e | e); exact absurd e.symm hij; exact e
      · intro e; exact Or.inr e
  · simp only [Reg.remove]
    refine List.nodup_cons.mpr ⟨?_, h.nodup⟩
    intro hm
    rw [h.free i, hs] at hm; simp at hm

theorem Reg.remove_slots_length (r : Reg) (i : Nat) : (r.remove i).slots.length = r.slots.length := by
  simp [Reg.remove]

theorem Reg.removeWhere_length (r : Reg) (p : Nat → Bool) (n : Nat) : (r.removeWhere p n).slots.length = r.slots.length := by
  induction n with
  | zero => rfl
  | succ n ih =>
    simp only [Reg.removeWhere]
    split
    · split
      · rw [Reg.remove_slots_length, ih]
      · exact ih
    · exact ih

/-- one iteration of `removeWhere` -/
def Reg.rmStep (r : Reg) (p : Nat → Bool) (i : Nat) : Reg :=
  match r.slots.getD i none with
  | some a => if p a then r.remove i else r
  | none => r

theorem Reg.removeWhere_succ (r : Reg) (p : Nat → Bool) (n : Nat) :
    r.removeWhere p (n + 1) = (r.removeWhere p n).rmStep p n := rfl

/-- what a release does to the content of a slot -/
def clr (p : Nat → Bool) : Option (Option Nat) → Option (Option Nat)
  | some (some a) => if p a then some none else some (some a)
  | o => o

theorem RegOK.rmStep {r : Reg} {own : Nat → Option Nat} (p : Nat → Bool) (h : RegOK r own) (n : Nat) :
    RegOK (r.rmStep p n) (fun x => if own x = some n ∧ p x = true then none else own x) ∧
    (∀ i : Nat, (r.rmStep p n).slots[i]? = if i = n then clr p r.slots[i]? else r.slots[i]?) ∧
    r.counter ≤ (r.rmStep p n).counter ∧
    ((r.rmStep p n).counter = r.counter → (r.rmStep p n).slots = r.slots) := by
  unfold Reg.rmStep
  rw [List.getD_eq_getElem?_getD]
  rcases hs : r.slots[n]? with _ | (_ | a)
  · refine ⟨?_, ?_, Nat.le_refl _, fun _ => rfl⟩
    · apply h.congr; intro x
      by_cases hx : own x = some n ∧ p x = true
      · have := h.owner x n hx.1; rw [hs] at this; simp at this
      · simp [hx]
    · intro i; by_cases hi : i = n
      · subst hi; simp [hs, clr]
      · simp [hi]
  · refine ⟨?_, ?_, Nat.le_refl _, fun _ => rfl⟩
    · apply h.congr; intro x
      by_cases hx : own x = some n ∧ p x = true
      · have := h.owner x n hx.1; rw [hs] at this; simp at this
      · simp [hx]
    · intro i; by_cases hi : i = n
      · subst hi; simp [hs, clr]
      · simp [hi]
  · simp only [Option.getD_some]
    have hown : own a = some n := h.slot n a hs
    have hnl : n < r.slots.length := by
      rcases Nat.lt_or_ge n r.slots.length with h1 | h1
      · exact h1
      · rw [List.getElem?_eq_none h1] at hs; simp at hs
    by_cases hp : p a = true
    · simp only [hp, if_true]
      refine ⟨?_, ?_, ?_, ?_⟩
      · apply (h.remove hown).congr; intro x
        by_cases hxa : x = a
        · subst hxa; simp [hown, hp]
        · simp only [hxa, if_false]
          by_cases hx : own x = some n ∧ p x = true
          · have := h.owner x n hx.1; rw [hs] at this; simp at this; exact absurd this.symm hxa
          · simp [hx]
      · intro i
        simp only [Reg.remove, List.getElem?_set]
        by_cases hni : n = i
        · subst hni; rw [hs]; simp [hnl, clr, hp]
        · have : ¬ i = n := fun e => hni e.symm
          simp [hni, this]
      · simp [Reg.remove]
      · intro e; simp [Reg.remove] at e
    · simp only [hp]
      refine ⟨?_, ?_, Nat.le_refl _, fun _ => rfl⟩
      · apply h.congr; intro x
        by_cases hx : own x = some n ∧ p x = true
        · have := h.owner x n hx.1; rw [hs] at this; simp at this; subst this; exact absurd hx.2 hp
        · simp [hx]
      · intro i; by_cases hi : i = n
        · subst hi; simp [hs, clr, hp]
        · simp [hi]

/-- `removeWhere` releases exactly the entries below `n` that satisfy `p` -/
theorem RegOK.removeWhere {r : Reg} {own : Nat → Option Nat} (p : Nat → Bool) (h : RegOK r own) (n : Nat) :
    RegOK (r.removeWhere p n) (fun x => match own x with
                                      | some i => if i < n ∧ p x = true then none else some i
                                      | none => none) ∧
    (∀ i : Nat, (r.removeWhere p n).slots[i]? = if i < n then clr p r.slots[i]? else r.slots[i]?) ∧
    r.counter ≤ (r.removeWhere p n).counter ∧
    ((r.removeWhere p n).counter = r.counter → (r.removeWhere p n).slots = r.slots) := by
  induction n with
  | zero =>
    refine ⟨?_, ?_, Nat.le_refl _, fun _ => rfl⟩
    · apply h.congr; intro a; cases own a <;> simp
    · intro i; simp [Reg.removeWhere]
  | succ n ih =>
    obtain ⟨ih1, ih2, ih3, ih4⟩ := ih
    rw [Reg.removeWhere_succ]
    obtain ⟨s1, s2, s3, s4⟩ := ih1.rmStep p n
    refine ⟨?_, ?_, Nat.le_trans ih3 s3, ?_⟩
    · apply s1.congr; intro x
      cases hx : own x with
      | none => simp
      | some i =>
        by_cases hp : p x = true
        · simp only [hp, and_true]
          by_cases hlt : i < n
          · have : i < n + 1 := by omega
            simp [hlt, this]
          · by_cases hin : i = n
            · subst hin; simp
            · have : ¬ i < n + 1 := by omega
              simp [hlt, this, hin]
        · simp [hp]
    · intro i
      rw [s2 i, ih2 i]
      by_cases hin : i = n
      · subst hin; simp
      · by_cases hlt : i < n
        · have : i < n + 1 := by omega
          simp [hin, hlt, this]
        · have : ¬ i < n + 1 := by omega
          simp [hin, hlt, this]
    · intro e
      have e1 : (r.removeWhere p n).counter = r.counter := by omega
      have e2 : ((r.removeWhere p n).rmStep p n).counter = (r.removeWhere p n).counter := by omega
      rw [s4 e2, ih4 e1]

/-- all entries that satisfy `p` are released -/
theorem RegOK.removeWhere_all {r : Reg} {own : Nat → Option Nat} (p : Nat → Bool) (h : RegOK r own) :
    RegOK (r.removeWhere p r.slots.length) (fun x => if p x = true then none else own x) ∧
    (∀ i : Nat, (r.removeWhere p r.slots.length).slots[i]? = clr p r.slots[i]?) := by
  obtain ⟨h1, h2, _, _⟩ := h.removeWhere p r.slots.length
  refine ⟨?_, ?_⟩
  · apply h1.congr; intro x
    cases hx : own x with
    | none => simp
    | some i =>
      have := h.owner x i hx
      have hil : i < r.slots.length := by
        rcases Nat.lt_or_ge i r.slots.length with h1 | h1
        · exact h1
        · rw [List.getElem?_eq_none h1] at this; simp at this
      by_cases hp : p x = true <;> simp [hp, hil]
  · intro i; rw [h2 i]
    by_cases hil : i < r.slots.length
    · simp [hil]
    · simp [hil]; rfl

theorem Reg.mem_labels {r : Reg} {a : Nat} : a ∈ r.labels ↔ ∃ i : Nat, r.slots[i]? = some (some a) := by
  simp only [Reg.labels, List.mem_filterMap, id]
  constructor
  · rintro ⟨o, ho, e⟩; subst e; exact List.mem_iff_getElem?.mp ho
  · rintro ⟨i, hi⟩; exact ⟨some a, List.mem_iff_getElem?.mpr ⟨i, hi⟩, rfl⟩

theorem Reg.len_le (r : Reg) : r.len ≤ r.slots.length := by
  simp [Reg.len, Reg.labels]; exact List.length_filterMap_le _ _

end Iox2.EventPorts
