/-
C17 — shutdown in any order: facts about `Iox2.Shutdown.step`, and the C17 statements derived from
the publish-subscribe invariants `C02P.Inv` and `C17P.XInv`.
-/
import Iox2.Model.Shutdown
import Iox2.Proof.PubSubC02StepPub
import Iox2.Proof.ShutdownC17View

namespace Iox2.Shutdown.C17P
open Iox2.PubSub Iox2.Shutdown
open Iox2.PubSub.C02P Iox2.PubSub.C17P
open Iox2.C16.SlotMapP (abs)

/-! ### the step function -/

theorem step_w (s : SWorld) (op : SOp) :
    (step s op).1.w = s.w ∨ ∃ o, op = .ps o ∧ (step s op).1.w = (PubSub.step s.w o).1 := by
  cases op with
  | dnode => left; simp only [step]; split <;> rfl
  | dsvc => left; simp only [step]; split <;> rfl
  | ls => left; rfl
  | ps o =>
    cases o <;> simp only [step] <;> first
      | (split
         · left; rfl
         · right; exact ⟨_, rfl, rfl⟩)
      | (right; exact ⟨_, rfl, rfl⟩)

theorem step_ipc (s : SWorld) (op : SOp) : (step s op).1.ipc = s.ipc := by
  cases op with
  | dnode => simp only [step]; split <;> rfl
  | dsvc => simp only [step]; split <;> rfl
  | ls => rfl
  | ps o => cases o <;> simp only [step] <;> first | (split <;> rfl) | rfl

theorem reach_pubsub {cfg : Cfg} {ipc : Bool} {s : SWorld} (h : Reach cfg ipc s) :
    PubSub.Reach cfg s.w := by
  induction h with
  | init => exact PubSub.Reach.init
  | step op _ hnp ih =>
    rcases step_w _ op with h | ⟨o, _, h⟩
    · rw [h]; exact ih
    · rw [h]; exact PubSub.Reach.step o ih hnp

theorem reach_ipc {cfg : Cfg} {ipc : Bool} {s : SWorld} (h : Reach cfg ipc s) : s.ipc = ipc := by
  induction h with
  | init => rfl
  | step op _ _ ih => rw [step_ipc]; exact ih

/-! ### drops never panic -/

theorem detachSender_panicked (w : World) (p s : Nat) :
    (detachSender w p s).panicked = w.panicked := by
  rw [detachSender_eq]
  split
  · rfl
  · split <;> rfl

theorem pubDestroySlots_panicked (p : Nat) : ∀ (l : List (Option Nat)) (w : World),
    (pubDestroySlots w p l).panicked = w.panicked
  | [], _ => rfl
  | none :: r, w => by simp only [pubDestroySlots]; exact pubDestroySlots_panicked p r w
  | some s :: r, w => by
    simp only [pubDestroySlots]
    rw [pubDestroySlots_panicked p r, detachSender_panicked]

theorem pubDestroyIfUnreferenced_panicked (w : World) (p : Nat) :
    (pubDestroyIfUnreferenced w p).panicked = w.panicked := by
  unfold pubDestroyIfUnreferenced
  split
  · rfl
  · split
    · rfl
    · simp only [setP_panicked]; exact pubDestroySlots_panicked p _ w

theorem subDestroyIfUnreferenced_panicked (w : World) (s : Nat) :
    (subDestroyIfUnreferenced w s).panicked = w.panicked := by
  unfold subDestroyIfUnreferenced
  split
  · rfl
  · split
    · rfl
    · simp only [setS_panicked]; exact subDestroyKeys_panicked s _ w

theorem subRelease_panicked (w : World) (s : Nat) (h : Held) :
    (subRelease w s h).panicked = w.panicked := by
  unfold subRelease
  repeat' split
  all_goals rfl

theorem psdrop_panicked (w : World) (o : Op)
    (ho : (∃ p, o = .dpub p) ∨ (∃ s, o = .dsub s) ∨ (∃ p l, o = .dloan p l) ∨
      (∃ s k, o = .dsample s k)) :
    (PubSub.step w o).1.panicked = w.panicked := by
  rcases ho with ⟨p, rfl⟩ | ⟨s, rfl⟩ | ⟨p, l, rfl⟩ | ⟨s, k, rfl⟩
  · simp only [PubSub.step]
    split
    · rfl
    · split
      · rfl
      · rw [pubDestroyIfUnreferenced_panicked]; rfl
  · simp only [PubSub.step]
    split
    · rfl
    · split
      · rfl
      · rw [subDestroyIfUnreferenced_panicked]; rfl
  · simp only [PubSub.step]
    split
    · rfl
    · split
      · rfl
      · rw [pubDestroyIfUnreferenced_panicked]; rfl
  · simp only [PubSub.step]
    split
    · rfl
    · split
      · rfl
      · rw [subDestroyIfUnreferenced_panicked, subRelease_panicked]; rfl

/-! ### consequences of the invariants -/

theorem ex_of_live_pub {w : World} (hi : Inv {} {} w) {p : Nat} {P : Pub} (hP : getP w p = some P)
    (hl : P.alive = true ∨ P.loans ≠ []) : P.ex = true := by
  rcases hl with hl | hl
  · exact (hi.top.pubs p P hP).aliveEx hl
  · cases h : P.ex with
    | true => rfl
    | false => exact absurd ((hi.acc.pubs p P hP).2 h) hl

theorem ex_of_live_sub {w : World} (hi : Inv {} {} w) {s : Nat} {S : Sub} (hS : getS w s = some S)
    (hl : S.alive = true ∨ S.held ≠ []) : S.ex = true := by
  rcases hl with hl | hl
  · exact (hi.top.subs s S hS).aliveEx hl
  · cases h : S.ex with
    | true => rfl
    | false => exact absurd ((hi.acc.subs s S hS).1 h) hl

/-- a connection never outlives both of its port cores -/
theorem conn_has_port {w : World} (hi : Inv {} {} w) {cn : Conn} (hcn : cn ∈ w.conns) :
    (∃ P, getP w cn.pid = some P ∧ P.ex = true) ∨ (∃ S, getS w cn.sid = some S ∧ S.ex = true) := by
  have hC := getC_of_mem hi.top.reg.nodup hcn
  obtain ⟨P, S, hP, hS, ct⟩ := hi.top.conns _ _ cn hC
  rcases ct.att with h | h
  · left; exact ⟨P, hP, hi.top.ex_of_mem hP (ct.sAtt.mp h)⟩
  · right
    refine ⟨S, hS, ?_⟩
    obtain ⟨k, hk⟩ := ct.rAtt.mp h
    cases hex : S.ex with
    | true => rfl
    | false => rw [(hi.top.subs _ S hS).dead hex k] at hk; cases hk

theorem portCores_pos_of_pub {w : World} {p : Nat} {P : Pub} (hP : getP w p = some P)
    (hex : P.ex = true) :
    1 ≤ (w.pubs.filter (·.2.ex)).length ∧ 1 ≤ portCores w := by
  have : 1 ≤ (w.pubs.filter (·.2.ex)).length :=
    List.length_pos_of_mem (List.mem_filter.mpr ⟨mem_of_getP hP, hex⟩)
  exact ⟨this, by unfold portCores; omega⟩

theorem portCores_pos_of_sub {w : World} {s : Nat} {S : Sub} (hS : getS w s = some S)
    (hex : S.ex = true) : 1 ≤ portCores w := by
  have : 1 ≤ (w.subs.filter (·.2.ex)).length :=
    List.length_pos_of_mem (List.mem_filter.mpr ⟨mem_of_getS hS, hex⟩)
  unfold portCores; omega

/-- everything dropped: no port core, no connection -/
theorem all_dropped_empty {s : SWorld} (hi : Inv {} {} s.w) (hx : XInv s.w) (hall : AllDropped s) :
    (s.w.pubs.filter (·.2.ex)).length = 0 ∧ (s.w.subs.filter (·.2.ex)).length = 0 ∧
    s.w.conns.length = 0 := by
  obtain ⟨_, _, hp, hs⟩ := hall
  have hpe : ∀ e ∈ s.w.pubs, e.2.ex = false := by
    intro e he
    cases hex : e.2.ex with
    | false => rfl
    | true =>
      rcases hx.pubs e he hex with h | h
      · rw [(hp e he).1] at h; cases h
      · exact absurd (hp e he).2 h
  have hse : ∀ e ∈ s.w.subs, e.2.ex = false := by
    intro e he
    cases hex : e.2.ex with
    | false => rfl
    | true =>
      rcases hx.subs e he hex with h | h
      · rw [(hs e he).1] at h; cases h
      · exact absurd (hs e he).2 h
  refine ⟨?_, ?_, ?_⟩
  · rw [List.length_eq_zero_iff, List.filter_eq_nil_iff]
    intro e he; rw [hpe e he]; simp
  · rw [List.length_eq_zero_iff, List.filter_eq_nil_iff]
    intro e he; rw [hse e he]; simp
  · rw [List.length_eq_zero_iff]
    cases hc : s.w.conns with
    | nil => rfl
    | cons cn t =>
      exfalso
      have hcn : cn ∈ s.w.conns := by rw [hc]; simp
      rcases conn_has_port hi hcn with ⟨P, hP, hex⟩ | ⟨S, hS, hex⟩
      · rw [hpe _ (mem_of_getP hP)] at hex; cases hex
      · rw [hse _ (mem_of_getS hS)] at hex; cases hex

/-! ### `count` over `resources` -/

theorem find_filter_nonzero {k : String} : ∀ {l : List (String × Nat)} {e : String × Nat},
    l.find? (·.1 = k) = some e → e.2 ≠ 0 → (l.filter (·.2 ≠ 0)).find? (·.1 = k) = some e
  | [], _, h, _ => by simp at h
  | a :: t, e, h, hne => by
    simp only [List.find?_cons] at h
    by_cases hak : a.1 = k
    · simp only [hak, decide_true] at h
      cases h
      simp [List.filter_cons, hne, hak]
    · simp only [hak, decide_false] at h
      have ih := find_filter_nonzero h hne
      rw [List.filter_cons]
      split
      · simp only [List.find?_cons, hak, decide_false]
        exact ih
      · exact ih

/-- the unfiltered resource table -/
def resAll (s : SWorld) : List (String × Nat) :=
  let n := if nodeCore s then 1 else 0
  let v := if svcCore s then 1 else 0
  let pubsEx := (s.w.pubs.filter (·.2.ex)).length
  [("connection", s.w.conns.length), ("data", pubsEx), ("details", n), ("dynamic", v),
   ("node_monitor", n), ("node_monitor_context", n), ("node_monitor_owner_lock", n),
   ("nodedir", if nodeCore s || s.nodeDirLeft then 1 else 0),
   ("port_tag", portCores s.w), ("service", v), ("service_tag", v)]

theorem resources_eq (s : SWorld) (h : s.ipc = true) :
    resources s = (resAll s).filter (·.2 ≠ 0) := by
  unfold resources resAll
  simp only [h, Bool.not_true, Bool.false_eq_true, if_false]

/-! ### the node directory is left only by a port-side drop -/

theorem dirleft_core {s s2 : SWorld} {w' : World} (hn : s.nodeDirLeft = false)
    (hl : s2.nodeDirLeft = true)
    (h1 : s2 = { s with w := w',
                        nodeDirLeft := s.nodeDirLeft || lastOwnerWasPort s { s with w := w' } }) :
    nodeCore s = true ∧ nodeCore s2 = false ∧ s.node = false ∧ s.svc = false := by
  subst h1
  simp only [hn, Bool.false_or, lastOwnerWasPort, Bool.and_eq_true, Bool.not_eq_true'] at hl
  obtain ⟨h2, h3⟩ := hl
  have hnode : s.node = false ∧ s.svc = false := by
    simp only [nodeCore, svcCore, Bool.or_eq_false_iff] at h3
    exact ⟨h3.1, h3.2.1⟩
  exact ⟨h2, h3, hnode.1, hnode.2⟩

theorem dirleft_only_by_port (s : SWorld) (op : SOp) (hn : s.nodeDirLeft = false)
    (hl : (step s op).1.nodeDirLeft = true) :
    (∃ o, op = .ps o) ∧ nodeCore s = true ∧ nodeCore (step s op).1 = false ∧ s.node = false ∧
      s.svc = false := by
  cases op with
  | dnode => exfalso; simp only [step] at hl; split at hl <;> simp [hn] at hl
  | dsvc => exfalso; simp only [step] at hl; split at hl <;> simp [hn] at hl
  | ls => exfalso; simp [step, hn] at hl
  | ps o =>
    refine ⟨⟨o, rfl⟩, ?_⟩
    cases o with
    | cpub p ml => exfalso; simp only [step] at hl; split at hl <;> simp [hn] at hl
    | csub s b hr => exfalso; simp only [step] at hl; split at hl <;> simp [hn] at hl
    | dpub p => exact dirleft_core (w' := (PubSub.step s.w (.dpub p)).1) hn hl rfl
    | dsub s' => exact dirleft_core (w' := (PubSub.step s.w (.dsub s')).1) hn hl rfl
    | loan p l => exact dirleft_core (w' := (PubSub.step s.w (.loan p l)).1) hn hl rfl
    | send p l t => exact dirleft_core (w' := (PubSub.step s.w (.send p l t)).1) hn hl rfl
    | dloan p l => exact dirleft_core (w' := (PubSub.step s.w (.dloan p l)).1) hn hl rfl
    | recv s' => exact dirleft_core (w' := (PubSub.step s.w (.recv s')).1) hn hl rfl
    | dsample s' k => exact dirleft_core (w' := (PubSub.step s.w (.dsample s' k)).1) hn hl rfl
    | updP p => exact dirleft_core (w' := (PubSub.step s.w (.updP p)).1) hn hl rfl
    | updS s' => exact dirleft_core (w' := (PubSub.step s.w (.updS s')).1) hn hl rfl
    | has s' => exact dirleft_core (w' := (PubSub.step s.w (.has s')).1) hn hl rfl
    | probe p => exact dirleft_core (w' := (PubSub.step s.w (.probe p)).1) hn hl rfl

end Iox2.Shutdown.C17P
