/-
C08 helper: publisher-side actions preserve the invariant (part I: attaching a connection).
-/
import Iox2.Proof.PubSubC08PubH
set_option linter.unusedSimpArgs false
set_option linter.unusedVariables false
namespace Iox2.PubSub.C08
open Iox2.PubSub
open Iox2.C16.SlotMapP (abs)
attribute [-simp] List.getD_eq_getElem?_getD

theorem attach_core {cfg : Cfg} {w w' : World} {xp : Option Nat} {p0 : Nat} {xs : List Nat} {st : Bool}
    (h : InvP cfg w xp p0 xs st) {p slot sid : Nat} {P : Pub} {S : Sub} (c' : Conn)
    (hp : getP w p = some P) (hal : P.alive = true) (hi0 : P.conns[slot]? = some none)
    (hx : p ≠ p0 → xs = [])
    (hS : getS w sid = some S) (hSslot : S.slot = slot)
    (hfr : PFrame w w') (hu : ConnsUniq w')
    (hgP : ∀ q, getP w' q = if q = p then some { P with conns := P.conns.set slot (some sid) } else getP w q)
    (hgC : ∀ a b, getC w' a b = if a = p ∧ b = sid then some c' else getC w a b)
    (hsub : c'.sub = []) (hcomp : c'.comp = []) (hbor : c'.borrow = 0) (hsa : c'.sAtt = true)
    (hused : ∀ x, c'.used.getD x false = false) (hulen : c'.used.length = P.n)
    (hcap1 : 1 ≤ c'.cap) (hcapM : c'.cap ≤ cfg.bufMax)
    (hrAtt : ∀ c, getC w p sid = some c → c.rAtt = true → c'.rAtt = true)
    (hheld : (S.held.filter (·.pid = p)).length = 0) :
    InvP cfg w' xp p0 xs st := by
  obtain ⟨hSl, hMem⟩ := h.p p P hp
  have hsim0 : PubSim0 P { P with conns := P.conns.set slot (some sid) } := ⟨rfl, rfl, rfl, rfl⟩
  have hslotlt : slot < P.conns.length := (List.getElem?_eq_some_iff.mp hi0).1
  have hnotin : ∀ j : Nat, P.conns[j]? ≠ some (some sid) := by
    intro j hj
    obtain ⟨S', hS', h2⟩ := hSl.slotSlot j sid hj
    rw [hS] at hS'; cases hS'
    rw [hSslot] at h2; subst h2
    rw [hi0] at hj; cases hj
  have hsetget : ∀ j (s' : Nat), (P.conns.set slot (some sid))[j]? = some (some s') ↔
      ((j = slot ∧ s' = sid) ∨ (j ≠ slot ∧ P.conns[j]? = some (some s'))) := by
    intro j s'
    rw [List.getElem?_set]
    by_cases hj : slot = j
    · subst hj
      rw [if_pos rfl, if_pos hslotlt]
      constructor
      · intro h'; left; simp at h'; exact ⟨rfl, h'.symm⟩
      · rintro (⟨_, rfl⟩ | ⟨h1, _⟩)
        · rfl
        · exact absurd rfl h1
    · simp only [hj, if_false]
      constructor
      · intro h'; right; exact ⟨fun e => hj e.symm, h'⟩
      · rintro (⟨h1, _⟩ | ⟨_, h2⟩)
        · exact absurd h1.symm hj
        · exact h2
  refine h.rebuild p hfr ?_ ?_ ?_ hu (fun hne => ⟨hx hne, hx hne⟩) ?_ ?_ ?_
  · intro q hq; rw [hgP]; simp [hq]
  · intro q s' hq; rw [hgC]; simp [hq]
  · constructor
    · intro q Q hq
      rw [hgP]
      by_cases hqp : q = p
      · subst hqp; rw [hp] at hq; cases hq; exact ⟨_, by simp, hsim0⟩
      · exact ⟨Q, by simp [hqp, hq], ⟨rfl, rfl, rfl, rfl⟩⟩
    · intro q Q' hq
      rw [hgP] at hq
      by_cases hqp : q = p
      · subst hqp; simp at hq; subst hq; exact ⟨P, hp, hsim0⟩
      · simp [hqp] at hq; exact ⟨Q', hq, ⟨rfl, rfl, rfl, rfl⟩⟩
  · intro s' x hx' hxr
    rw [hgC]
    by_cases hs : s' = sid
    · subst hs
      exact ⟨c', by simp, hrAtt x hx' hxr⟩
    · exact ⟨x, by simp [hs, hx'], hxr⟩
  · -- connections of `p`
    intro s' x hx'
    rw [hgC] at hx'
    by_cases hs : s' = sid
    · subst hs
      simp at hx'; subst hx'
      refine ⟨⟨hcap1, hcapM, by rw [hsub]; simp, by rw [hbor]; omega, by rw [hsub, hbor, hcomp]; simp⟩,
        ⟨{ P with conns := P.conns.set slot (some s') }, by rw [hgP]; simp⟩, ⟨S, by rw [hfr.subs]; exact hS⟩,
        ?_, ?_, ?_, ?_, ?_⟩
      · intro S' hS'; rw [hfr.subs, hS] at hS'; cases hS'; rw [hbor, hheld]
      · intro _ S' hS'
        rw [hfr.subs, hS] at hS'; cases hS'
        have hk : c'.pid = p := by
          have := getC_key (w := w') (p := p) (s := s') (c := c') (by rw [hgC]; simp)
          exact this.1
        have hh : heldChunks S c'.pid = [] := by
          unfold heldChunks; rw [hk]
          rw [List.length_eq_zero_iff] at hheld
          rw [hheld]; rfl
        unfold connChunks
        rw [hsub, hcomp, hh]
        simp [hused]
      · intro ha; rw [hsa] at ha; cases ha
      · intro _
        exact ⟨{ P with conns := P.conns.set slot (some s') }, by rw [hgP]; simp, hSl.aliveEx hal, slot,
          (hsetget slot s').2 (.inl ⟨rfl, rfl⟩)⟩
      · intro Q hQ
        rw [hgP] at hQ; simp at hQ; subst hQ
        exact hulen
    · simp [hs] at hx'
      refine (h.c p s' x hx').transferAt0 hfr.subs ?_ ?_
      · intro Q hQ
        rw [hp] at hQ; cases hQ
        refine ⟨_, by rw [hgP]; simp, hsim0, fun _ j hj => ⟨j, ?_⟩⟩
        show (P.conns.set slot (some sid))[j]? = _
        rw [hsetget]
        right
        exact ⟨fun e => (by subst e; rw [hi0] at hj; cases hj), hj⟩
      · intro Q' hQ'
        rw [hgP] at hQ'; simp at hQ'; subst hQ'
        exact ⟨P, hp, hsim0⟩
  · -- the publisher
    intro Q hQ
    rw [hgP] at hQ; simp at hQ; subst hQ
    constructor
    · refine ⟨by simp [hSl.connsLen], ?_, ?_, hSl.aliveEx⟩
      · intro j s' hj
        rcases (hsetget j s').1 hj with ⟨rfl, rfl⟩ | ⟨hj1, hj2⟩
        · exact ⟨c', by rw [hgC]; simp, hsa⟩
        · obtain ⟨c1, hc1, ha1⟩ := hSl.slotConn j s' hj2
          have hs : s' ≠ sid := by intro e; subst e; exact hnotin j hj2
          exact ⟨c1, by rw [hgC]; simp [hs, hc1], ha1⟩
      · intro j s' hj
        rw [hfr.subs]
        rcases (hsetget j s').1 hj with ⟨rfl, rfl⟩ | ⟨hj1, hj2⟩
        · exact ⟨S, hS, hSslot⟩
        · exact hSl.slotSlot j s' hj2
    · intro _
      have M := hMem hal
      refine ⟨⟨M.fr.rcLen, M.fr.freeNodup, M.fr.freeRc, M.fr.rcFree⟩, M.nEq, ?_, M.loanCnt, M.histLen, M.labels, M.loanRc, M.xsRc, M.histNodup⟩
      intro x
      show P.rc.getD x 0 = (if p = p0 then xs else []).count x + (P.loans.map (·.2)).count x + P.hist.count x +
        slotSum w' p (P.conns.set slot (some sid)) x
      rw [M.rcEq x, slotSum_set_some (w := w') P.conns slot (some sid) hi0]
      have h1 : slotSum w' p P.conns x = slotSum w p P.conns x := by
        apply slotSum_congr
        intro s' hs'
        obtain ⟨j, hj⟩ := List.getElem?_of_mem hs'
        have hs : s' ≠ sid := by intro e; subst e; exact hnotin j hj
        apply usedAt_congr; rw [hgC]; simp [hs]
      have h2 : slotRef w' p x (some sid) = 0 := by
        simp only [slotRef]
        rw [usedAt_of_getC (c := c') (by rw [hgC]; simp), hused]; simp
      rw [h1, h2, Nat.add_zero]

end Iox2.PubSub.C08
