/-
C02 — the API operations on publishers (`cpub`, `dpub`, `send`, `dloan`, `probe`, `updP`)
preserve the invariant; `step_inv`, `reach_inv`.
-/
import Iox2.Proof.PubSubC02StepSub
import Iox2.Proof.PubSubC02PubUpdate
import Iox2.Proof.PubSubC02SendAcc

namespace Iox2.PubSub.C02P
open Iox2.PubSub

theorem step_dloan_inv {w : World} (hi : Inv {} {} w) (p l : Nat) :
    Inv {} {} (step w (.dloan p l)).1 := by
  simp only [step]
  cases hP : getP w p with
  | none => exact hi
  | some P =>
    simp only []
    cases hl : P.loans.find? (fun x => decide (x.1 = l)) with
    | none => exact hi
    | some x =>
      obtain ⟨l', c⟩ := x
      exact pubDestroyIfUnreferenced_inv (dloan_inv hi hP hl)

theorem step_dpub_inv {w : World} (hi : Inv {} {} w) (p : Nat) :
    Inv {} {} (step w (.dpub p)).1 := by
  simp only [step]
  cases hP : getP w p with
  | none => exact hi
  | some P =>
    simp only []
    split
    · exact hi
    · rename_i hal
      exact pubDestroyIfUnreferenced_inv (dpub_unregister_inv hi rfl hP (by simpa using hal))

theorem step_updP_inv {w : World} (hi : Inv {} {} w) (p : Nat) :
    Inv {} {} (step w (.updP p)).1 := by
  simp only [step]
  cases hP : getP w p with
  | none => exact hi
  | some P =>
    simp only []
    split
    · exact hi
    · rename_i hal
      exact inv_finishPanic hi (Or.inr (pubUpdate_inv hi (fun P' h => by
        rw [hP] at h; cases h; simpa using hal)).1)

theorem step_probe_inv {w : World} (hi : Inv {} {} w) (p : Nat) :
    Inv {} {} (step w (.probe p)).1 := by
  simp only [step]
  cases hP0 : getP w p with
  | none => exact hi
  | some P0 =>
    simp only []
    split
    · exact hi
    · obtain ⟨hi1, _, _⟩ := retrieveReturned_inv (p := p) hi
      cases hP : getP (retrieveReturned w p) p with
      | none => exact hi1
      | some P => exact probe_inv hi1 hP

theorem step_cpub_inv {w : World} (hi : Inv {} {} w) (p ml : Nat) :
    Inv {} {} (step w (.cpub p ml)).1 := by
  simp only [step]
  split
  · exact hi
  · rename_i hnone
    have hnone' : getP w p = none := by
      cases hq : getP w p with
      | none => rfl
      | some x => rw [hq] at hnone; simp at hnone
    have hi0 := cpub_init_inv (A := {}) (p := p) (ml := ml) hi hnone' rfl
    generalize hPn : ({
        maxLoans := ml, n := w.cfg.nChunks ml,
        free := List.range (w.cfg.nChunks ml), rc := List.replicate (w.cfg.nChunks ml) 0,
        conns := List.replicate w.cfg.maxSubs none, snapCtr := w.subReg.counter,
        snap := w.subReg.slots, payload := List.replicate (w.cfg.nChunks ml) 0,
        chunkSeq := List.replicate (w.cfg.nChunks ml) 0 } : Pub) = Pn at hi0 ⊢
    have hex : Pn.ex = true := by subst hPn; rfl
    have hsn : Pn.snap = w.subReg.slots := by subst hPn; rfl
    have hg0 : getP { w with pubs := w.pubs ++ [(p, Pn)] } p = some Pn := by
      rw [PubLife.getP_append w p p Pn hnone']; simp
    have hf : PFresh Pn.snap { w with pubs := w.pubs ++ [(p, Pn)] } := by
      intro j e hj S hS
      rw [hsn] at hj
      obtain ⟨S', hS', h1, _⟩ := hi0.top.reg.r2 j e hj
      rw [hS] at hS'; cases hS'; exact h1
    obtain ⟨hi1, _, P1, hP1, _⟩ := pubForceUpdate_inv hi0 hg0 hex hf
    generalize pubForceUpdate { w with pubs := w.pubs ++ [(p, Pn)] } p = w1 at hi1 hP1 ⊢
    split
    · rename_i reg slot P1' hadd hP1'
      exact inv_finishPanic hi (Or.inr (cpub_ok_inv hi1 hadd hP1'))
    · apply inv_finishPanic hi
      right
      simp only [hP1]
      exact cpub_fail_inv hi1 hP1 rfl

/-! ### send -/

theorem usedBit_mono_of_drain {w w' : World} (hd : DrainRel w w') {p s x : Nat}
    (h : usedBit w p s x = false) : usedBit w' p s x = false := by
  unfold usedBit at *
  cases hc' : getC w' p s with
  | none => rfl
  | some c' =>
    obtain ⟨c, hc, _⟩ := map_eq_some_left (hd.conns p s) hc'
    rw [hc] at h
    simp only at h ⊢
    cases hb : c'.used.getD x false with
    | false => rfl
    | true => rw [(hd.mono p s c c' hc hc').2 x hb] at h; cases h

theorem send_mid_inv {w0 : World} {p c tag : Nat} {P0 : Pub}
    (hi0 : Inv {} { xp := some (p, c), xFresh := true } w0) (hP0 : getP w0 p = some P0)
    (hal : P0.alive = true) :
    ∃ P, getP (pubUpdate w0 p) p = some P ∧
      let w2 := retrieveReturned (setP (pubUpdate w0 p) p (sendHist (pubUpdate w0 p).cfg.hist P c tag)) p
      ∃ P3, getP w2 p = some P3 ∧
        Inv {} { xp := some (p, c), xFresh := false }
          (P3.conns.foldl (fun (acc : World × Nat) sl =>
            match sl with
            | none => acc
            | some s => let (w', ok) := deliverTo acc.1 p s c P.seq
                        (w', if ok then acc.2 + 1 else acc.2)) (w2, 0)).1 ∧
        ∃ P4, getP (P3.conns.foldl (fun (acc : World × Nat) sl =>
            match sl with
            | none => acc
            | some s => let (w', ok) := deliverTo acc.1 p s c P.seq
                        (w', if ok then acc.2 + 1 else acc.2)) (w2, 0)).1 p = some P4 := by
  obtain ⟨hi1, _, hex1⟩ := pubUpdate_inv hi0 (fun P h => by rw [hP0] at h; cases h; exact hal)
  obtain ⟨P, hP⟩ := hex1 P0 hP0
  refine ⟨P, hP, ?_⟩
  obtain ⟨hi2, hub⟩ := send_hist_inv (tag := tag) hi1 hP
  rw [sendHist_eq] at hi2
  generalize hPh : sendHist (pubUpdate w0 p).cfg.hist P c tag = Ph at hi2 ⊢
  obtain ⟨e1, _, _, _⟩ := sendHist_fields (pubUpdate w0 p).cfg.hist P c tag
  rw [hPh] at e1
  have hconns : Ph.conns = P.conns := (ptop_eq e1).2.2.2.1
  have hPh' : getP (setP (pubUpdate w0 p) p Ph) p = some Ph := by simp [hP]
  obtain ⟨hi3, hd, hcomp⟩ := retrieveReturned_inv (p := p) hi2
  obtain ⟨P3, hP3, e3⟩ := map_eq_some_left (hd.pubs p).symm hPh'
  have hconns3 : P3.conns = P.conns := by
    have := congrArg Pub.conns e3; simp only [eraseRF] at this; rw [← this, hconns]
  refine ⟨P3, hP3, ?_⟩
  have hall := deliverAll_inv (seq := P.seq) hi3 hP3 rfl rfl
    (fun s cn hs hcn => hcomp Ph s cn hPh' (by rw [hconns, ← hconns3]; exact hs) hcn)
    (fun s hs => usedBit_mono_of_drain hd (by
      have := hub s (by rw [← hconns3]; exact hs)
      exact this))
  exact ⟨hall.1, (hall.2.pub_fwd hP3).imp fun _ h => h.1⟩

/-- the part of `send` between writing the payload and dropping the `SampleMut` -/
def sendMid (w : World) (p c tag : Nat) (alive : Bool) : World × String :=
  if !alive then (w, "err:ConnectionBrokenSinceSenderNoLongerExists") else
    let w := pubUpdate w p
    match getP w p with
    | none => (w, "none")
    | some P =>
      let seq := P.seq
      let P := sendHist w.cfg.hist P c tag
      let w := retrieveReturned (setP w p P) p
      let slots := match getP w p with | some P => P.conns | none => []
      let (w, cnt) := slots.foldl (fun (acc : World × Nat) sl =>
          match sl with
          | none => acc
          | some s => let (w', ok) := deliverTo acc.1 p s c seq
                      (w', if ok then acc.2 + 1 else acc.2)) (w, 0)
      (w, s!"ok:{cnt}")

theorem step_send_eq {w : World} {p l tag l' c : Nat} {P0 : Pub} (hP0 : getP w p = some P0)
    (hl : P0.loans.find? (fun x => decide (x.1 = l)) = some (l', c)) :
    (step w (.send p l tag)).1 =
      pubDestroyIfUnreferenced
        (match getP (sendMid (setP w p { P0 with payload := P0.payload.set c tag, loans := P0.loans.filter (fun x => decide (x.1 ≠ l)) }) p c tag P0.alive).1 p with
          | some P => setP (sendMid (setP w p { P0 with payload := P0.payload.set c tag, loans := P0.loans.filter (fun x => decide (x.1 ≠ l)) }) p c tag P0.alive).1 p { P.releaseChunk c with loanCnt := P.loanCnt - 1 }
          | none => (sendMid (setP w p { P0 with payload := P0.payload.set c tag, loans := P0.loans.filter (fun x => decide (x.1 ≠ l)) }) p c tag P0.alive).1) p := by
  rw [step]
  simp only [hP0, hl]
  rfl

theorem sendMid_inv {w0 : World} {p c tag : Nat} {Ps : Pub}
    (hi0 : Inv {} { xp := some (p, c), xFresh := true } w0) (hPs : getP w0 p = some Ps) :
    (∃ f, Inv {} { xp := some (p, c), xFresh := f } (sendMid w0 p c tag Ps.alive).1) ∧
    ∃ P, getP (sendMid w0 p c tag Ps.alive).1 p = some P := by
  cases hal : Ps.alive with
  | false => exact ⟨⟨true, hi0⟩, Ps, hPs⟩
  | true =>
    obtain ⟨P, hP, P3, hP3, hfin, P4, hP4⟩ := send_mid_inv (tag := tag) hi0 hPs hal
    have e : (sendMid w0 p c tag true).1 =
        (P3.conns.foldl (fun (acc : World × Nat) sl =>
            match sl with
            | none => acc
            | some s => let (w', ok) := deliverTo acc.1 p s c P.seq
                        (w', if ok then acc.2 + 1 else acc.2))
          (retrieveReturned (setP (pubUpdate w0 p) p (sendHist (pubUpdate w0 p).cfg.hist P c tag)) p,
            0)).1 := by
      simp only [sendMid, hP]
      simp only [hP3]
      rfl
    rw [e]
    exact ⟨⟨false, hfin⟩, P4, hP4⟩

theorem step_send_inv {w : World} (hi : Inv {} {} w) (p l tag : Nat) :
    Inv {} {} (step w (.send p l tag)).1 := by
  cases hP0 : getP w p with
  | none => simp only [step, hP0]; exact hi
  | some P0 =>
    cases hl : P0.loans.find? (fun x => decide (x.1 = l)) with
    | none => simp only [step, hP0, hl]; exact hi
    | some x =>
      obtain ⟨l', c⟩ := x
      rw [step_send_eq hP0 hl]
      apply pubDestroyIfUnreferenced_inv
      have hi0 := send_start_inv (tag := tag) hi hP0 hl
      generalize hPs : ({ P0 with
          payload := P0.payload.set c tag,
          loans := P0.loans.filter (fun x => decide (x.1 ≠ l)) } : Pub) = Ps at hi0 ⊢
      have hPs' : getP (setP w p Ps) p = some Ps := by simp [hP0]
      have hal : Ps.alive = P0.alive := by subst hPs; rfl
      rw [← hal]
      obtain ⟨⟨f, hm⟩, P, hP⟩ := sendMid_inv (tag := tag) hi0 hPs'
      simp only [hP]
      exact send_finish_inv hm hP

/-! ### all operations -/

theorem step_inv {w : World} (hi : Inv {} {} w) (op : Op) : Inv {} {} (step w op).1 := by
  cases op with
  | cpub p ml => exact step_cpub_inv hi p ml
  | dpub p => exact step_dpub_inv hi p
  | csub s b h => exact step_csub_inv hi s b h
  | dsub s => exact step_dsub_inv hi s
  | loan p l => exact step_loan_inv hi p l
  | send p l tag => exact step_send_inv hi p l tag
  | dloan p l => exact step_dloan_inv hi p l
  | recv s => exact step_recv_inv hi s
  | dsample s k => exact step_dsample_inv hi s k
  | updP p => exact step_updP_inv hi p
  | updS s => exact step_updS_inv hi s
  | has s => exact step_has_inv hi s
  | probe p => exact step_probe_inv hi p

theorem reach_inv {cfg : Cfg} {w : World} (h : Reach cfg w) : Inv {} {} w := by
  induction h with
  | init => exact init_inv cfg
  | step op _ _ ih => exact step_inv ih op

end Iox2.PubSub.C02P
