/-
C08 helper: publisher-side actions preserve the invariant (part B: retrieve).
-/
import Iox2.Proof.PubSubC08PubA
set_option linter.unusedSimpArgs false
set_option linter.unusedVariables false
namespace Iox2.PubSub.C08
open Iox2.PubSub
open Iox2.C16.SlotMapP (abs)

theorem slotSum_ge_of_used {w : World} {p s x : Nat} {slots : List (Option Nat)}
    (hm : some s ∈ slots) (hu : usedAt w p s x = true) : 1 ≤ slotSum w p slots x := by
  unfold slotSum
  induction slots with
  | nil => simp at hm
  | cons a l ih =>
    simp only [List.map_cons, List.sum_cons]
    rcases List.mem_cons.mp hm with e | hm'
    · subst e
      simp only [slotRef, hu, if_true]
      omega
    · have := ih hm'
      omega

theorem SlotsOK.count_one {cfg : Cfg} {w : World} {p : Nat} {P : Pub} (h : SlotsOK cfg w p P)
    {i s : Nat} (hi : P.conns[i]? = some (some s)) : P.conns.count (some s) = 1 := by
  apply count_eq_one_of_unique _ i _ hi
  intro j hj
  obtain ⟨S, hS, h1⟩ := h.slotSlot i s hi
  obtain ⟨S', hS', h2⟩ := h.slotSlot j s hj
  rw [hS] at hS'; cases hS'
  omega

theorem usedAt_of_getC {w : World} {p s : Nat} {c : Conn} (hc : getC w p s = some c) (x : Nat) :
    usedAt w p s x = c.used.getD x false := by
  unfold usedAt; rw [hc]

theorem retrieve_core {cfg : Cfg} {w : World} {xp : Option Nat} {p0 : Nat} {xs : List Nat} {st : Bool}
    (h : InvP cfg w xp p0 xs st) (p s : Nat) (hx : p ≠ p0 → xs = [])
    {P : Pub} {c : Conn} (hp : getP w p = some P) (hc : getC w p s = some c)
    {i : Nat} (hi : P.conns[i]? = some (some s))
    (P' : Pub) (used' : List Bool)
    (d1 : PoolEq P P') (d2 : FreeOK P → FreeOK P')
    (d3 : ∀ x, P'.rc.getD x 0 = P.rc.getD x 0 - if x ∈ c.comp then 1 else 0)
    (d4 : used'.length = c.used.length)
    (d5 : ∀ x, used'.getD x false = (c.used.getD x false && decide (x ∉ c.comp))) :
    InvP cfg (setC (setP w p P') { c with comp := [], used := used' }) xp p0 xs st := by
  obtain ⟨hSl, hMem⟩ := h.p p P hp
  obtain ⟨c0, hc0, hsa⟩ := hSl.slotConn i s hi
  rw [hc] at hc0; cases hc0
  have hCI := h.c p s c hc
  obtain ⟨S, hS⟩ := hCI.hasS
  obtain ⟨hnd, hex⟩ := hCI.exact hsa S hS
  have hkey := getC_key hc
  have hcompUsed : ∀ x ∈ c.comp, c.used.getD x false = true := by
    intro x hx'
    exact (hex x).2 (by unfold connChunks; simp [hx'])
  have hmem : some s ∈ P.conns := List.mem_of_getElem? hi
  have hcnt := hSl.count_one hi
  have hkey' : ({ c with comp := [], used := used' } : Conn).pid = p ∧
      ({ c with comp := [], used := used' } : Conn).sid = s := hkey
  have hgP : ∀ q, getP (setC (setP w p P') { c with comp := [], used := used' }) q =
      if q = p then some P' else getP w q := getP_setC_setP hp _ _
  have hgC : ∀ a b, getC (setC (setP w p P') { c with comp := [], used := used' }) a b =
      if a = p ∧ b = s then some { c with comp := [], used := used' } else getC w a b :=
    getC_setC_setP hc _ _ hkey'
  refine h.rebuild1 hp hc hkey' d1.sim (fun hr => hr) (fun hne => ⟨hx hne, hx hne⟩) ?_ ?_
  · -- the connection
    refine ⟨⟨hCI.ok.cap1, hCI.ok.capM, hCI.ok.subLe, hCI.ok.borLe, ?_⟩, ⟨P', by rw [hgP]; simp⟩,
      hCI.hasS, hCI.held, ?_, ?_, ?_, ?_⟩
    · have := hCI.ok.subLe; have := hCI.ok.borLe
      simp only [List.length_nil]; omega
    · intro _ S' hS'
      have hS'' : getS w s = some S' := hS'
      rw [hS] at hS''; cases hS''
      constructor
      · unfold connChunks at hnd ⊢
        simp only [List.append_nil]
        exact (List.nodup_append.mp hnd).1
      · intro ch
        simp only [d5]
        unfold connChunks at hex hnd ⊢
        simp only [List.append_nil]
        rw [Bool.and_eq_true, hex ch, decide_eq_true_eq]
        constructor
        · rintro ⟨h1, h2⟩
          rcases List.mem_append.mp h1 with h1 | h1
          · exact h1
          · exact absurd h1 h2
        · intro h1
          refine ⟨List.mem_append_left _ h1, fun h2 => ?_⟩
          exact (List.nodup_append.mp hnd).2.2 ch h1 ch h2 rfl
    · intro hf; exact absurd hsa (by simp [show c.sAtt = false from hf])
    · intro _
      obtain ⟨P1, hp1, hex1, _⟩ := hCI.inSlot hsa
      rw [hp] at hp1; cases hp1
      exact ⟨P', by rw [hgP]; simp, d1.sim.ex.trans hex1, i, by rw [d1.sim.conns]; exact hi⟩
    · intro Q hQ
      rw [hgP] at hQ
      simp at hQ; subst hQ
      show used'.length = _
      rw [d4, d1.sim.n]
      exact hCI.usedLen P hp
  · -- the publisher
    constructor
    · refine ⟨by rw [d1.sim.conns]; exact hSl.connsLen, ?_, ?_, ?_⟩
      · intro j s' hj
        rw [d1.sim.conns] at hj
        obtain ⟨c1, hc1, ha1⟩ := hSl.slotConn j s' hj
        rw [hgC]
        by_cases hs : s' = s
        · subst hs
          rw [hc] at hc1; cases hc1
          exact ⟨{ c with comp := [], used := used' }, by simp, ha1⟩
        · exact ⟨c1, by simp [hs, hc1], ha1⟩
      · intro j s' hj
        rw [d1.sim.conns] at hj
        exact hSl.slotSlot j s' hj
      · intro ha; rw [d1.sim.ex]; exact hSl.aliveEx (d1.sim.alive ▸ ha)
    · intro hal
      have hal' : P.alive = true := d1.sim.alive ▸ hal
      have M := hMem hal'
      obtain ⟨f1, f2, f3, f4, f5, f6, f7, f8, f9, f10, f11, f12, f13, f14, f15⟩ := d1.fields
      have hU : ∀ s' x, s' ≠ s →
          usedAt (setC (setP w p P') { c with comp := [], used := used' }) p s' x = usedAt w p s' x := by
        intro s' x hs
        apply usedAt_congr
        rw [hgC]; simp [hs]
      have hUs : ∀ x, usedAt (setC (setP w p P') { c with comp := [], used := used' }) p s x =
            (c.used.getD x false && decide (x ∉ c.comp)) := by
        intro x
        rw [usedAt_of_getC (c := { c with comp := [], used := used' }) (by rw [hgC]; simp)]
        exact d5 x
      have hsum : ∀ x, slotSum (setC (setP w p P') { c with comp := [], used := used' }) p P.conns x +
            (if x ∈ c.comp then 1 else 0) = slotSum w p P.conns x := by
        intro x
        have := slotSum_update (w := w) (c := x) P.conns (hU · x)
        rw [hcnt, hUs x, usedAt_of_getC hc] at this
        by_cases hxc : x ∈ c.comp
        · have hu := hcompUsed x hxc
          simp only [hu, hxc, not_true_eq_false, decide_false, Bool.and_false, Bool.false_eq_true,
            if_true, if_false] at this ⊢
          omega
        · simp only [hxc, not_false_eq_true, decide_true, Bool.and_true, if_false] at this ⊢
          omega
      have hnotcomp : ∀ x, 1 ≤ (if p = p0 then xs else []).count x + (P.loans.map (·.2)).count x + P.hist.count x →
          P.rc.getD x 0 = 1 → x ∉ c.comp := by
        intro x h1 h2 hxc
        have := M.rcEq x
        have h3 := slotSum_ge_of_used (w := w) (p := p) (x := x) hmem
          (by rw [usedAt_of_getC hc]; exact hcompUsed x hxc)
        omega
      refine ⟨d2 M.fr, by rw [f5, f4]; exact M.nEq, ?_, by rw [f6, f11]; exact M.loanCnt,
        by rw [f7]; exact M.histLen, by rw [f11]; exact M.labels, ?_, ?_, by rw [f7]; exact M.histNodup⟩
      · intro x
        rw [d3, f11, f7, f8, M.rcEq x]
        have := hsum x
        by_cases hxc : x ∈ c.comp <;> simp only [hxc, if_true, if_false] at this ⊢ <;> omega
      · intro lc hlc
        rw [f11] at hlc
        have h1 := M.loanRc lc hlc
        have hc1 : 1 ≤ (P.loans.map (·.2)).count lc.2 :=
          List.one_le_count_iff.mpr (List.mem_map.mpr ⟨lc, hlc, rfl⟩)
        have := hnotcomp lc.2 (by omega) h1
        rw [d3, h1]; simp [this]
      · intro hst x hxm
        have h1 := M.xsRc hst x hxm
        have hc1 : 1 ≤ (if p = p0 then xs else []).count x := List.one_le_count_iff.mpr hxm
        have := hnotcomp x (by omega) h1
        rw [d3, h1]; simp [this]

theorem retrieveOne_inv {cfg : Cfg} {w : World} {xp : Option Nat} {p0 : Nat} {xs : List Nat} {st : Bool}
    (h : InvP cfg w xp p0 xs st) (p s : Nat) (hx : p ≠ p0 → xs = [])
    (hslot : ∀ P, getP w p = some P → ∃ i : Nat, P.conns[i]? = some (some s)) :
    InvP cfg (retrieveOne w p s) xp p0 xs st := by
  unfold retrieveOne
  split
  next P c hp hc =>
    obtain ⟨i, hi⟩ := hslot P hp
    obtain ⟨hSl, hMem⟩ := h.p p P hp
    obtain ⟨c0, hc0, hsa⟩ := hSl.slotConn i s hi
    rw [hc] at hc0; cases hc0
    have hCI := h.c p s c hc
    obtain ⟨S, hS⟩ := hCI.hasS
    obtain ⟨hnd, hex⟩ := hCI.exact hsa S hS
    have hcompNd : c.comp.Nodup := by
      unfold connChunks at hnd
      exact (List.nodup_append.mp hnd).2.1
    have hcompUsed : ∀ x ∈ c.comp, c.used.getD x false = true := by
      intro x hx'
      exact (hex x).2 (by unfold connChunks; simp [hx'])
    obtain ⟨d1, d2, d3, d4, d5⟩ := drainComp_spec P c.used c.comp hcompNd hcompUsed
    exact retrieve_core h p s hx hp hc hi _ _ d1 d2 d3 d4 d5
  next => exact h

theorem drainComp_pool (P : Pub) (used : List Bool) (comp : List Nat) : PoolEq P (drainComp P used comp).1 := by
  induction comp generalizing P used with
  | nil => exact .refl _
  | cons c r ih =>
    rw [drainComp]
    split
    · exact (releaseChunk_pool P c).trans (ih _ _)
    · exact ih _ _

theorem drainComp_used_mono (P : Pub) (used : List Bool) (comp : List Nat) (x : Nat) :
    (drainComp P used comp).2.getD x false = true → used.getD x false = true := by
  induction comp generalizing P used with
  | nil => exact id
  | cons c r ih =>
    rw [drainComp]
    split
    · intro hu
      have := ih _ _ hu
      rw [List.getD_eq_getElem?_getD, List.getElem?_set] at this
      split at this
      · split at this <;> simp at this
      · rw [List.getD_eq_getElem?_getD]; exact this
    · exact ih _ _

/-- what `retrieveOne` does, without the invariant -/
theorem retrieveOne_shape (w : World) (p s : Nat) :
    (∀ q, q ≠ p → getP (retrieveOne w p s) q = getP w q) ∧
    (∀ P, getP w p = some P → ∃ P', getP (retrieveOne w p s) p = some P' ∧ PoolEq P P') ∧
    (getP w p = none → getP (retrieveOne w p s) p = none) ∧
    (∀ a b c', getC (retrieveOne w p s) a b = some c' →
      ∃ c, getC w a b = some c ∧ (c.comp = [] → c'.comp = []) ∧
        ((a = p ∧ b = s) → getP w p ≠ none → c'.comp = []) ∧
        (∀ x, c'.used.getD x false = true → c.used.getD x false = true)) := by
  unfold retrieveOne
  split
  next P c hp hc =>
    have hkey := getC_key hc
    have hk' : ({ c with comp := [], used := (drainComp P c.used c.comp).2 } : Conn).pid = p ∧
      ({ c with comp := [], used := (drainComp P c.used c.comp).2 } : Conn).sid = s := hkey
    refine ⟨fun q hq => by rw [getP_setC_setP hp]; simp [hq], fun P1 hp1 => ?_, fun hn => by simp [hp] at hn, ?_⟩
    · rw [hp] at hp1; cases hp1
      exact ⟨(drainComp P c.used c.comp).1, by rw [getP_setC_setP hp]; simp, drainComp_pool P c.used c.comp⟩
    · intro a b c' hc'
      rw [getC_setC_setP hc _ _ hk'] at hc'
      by_cases hab : a = p ∧ b = s
      · obtain ⟨rfl, rfl⟩ := hab
        simp at hc'; subst hc'
        exact ⟨c, hc, fun _ => rfl, fun _ _ => rfl, fun x => drainComp_used_mono P c.used c.comp x⟩
      · simp [hab] at hc'
        exact ⟨c', hc', id, fun h => absurd h hab, fun _ h => h⟩
  next hno =>
    refine ⟨fun _ _ => rfl, fun P hp => ⟨P, hp, .refl _⟩, id, ?_⟩
    intro a b c' hc'
    refine ⟨c', hc', id, ?_, fun _ h => h⟩
    rintro ⟨rfl, rfl⟩ hpn
    cases hp : getP w a with
    | none => exact absurd hp hpn
    | some P => exact absurd hc' (by
        intro hc'; exact hno P c' hp hc')

theorem retrieveFrom_shape (w : World) (p : Nat) (slots : List (Option Nat)) :
    (∀ q, q ≠ p → getP (retrieveFrom w p slots) q = getP w q) ∧
    (∀ P, getP w p = some P → ∃ P', getP (retrieveFrom w p slots) p = some P' ∧ PoolEq P P') ∧
    (getP w p = none → getP (retrieveFrom w p slots) p = none) ∧
    (∀ a b c', getC (retrieveFrom w p slots) a b = some c' →
      ∃ c, getC w a b = some c ∧ (c.comp = [] → c'.comp = []) ∧
        ((a = p ∧ some b ∈ slots) → getP w p ≠ none → c'.comp = []) ∧
        (∀ x, c'.used.getD x false = true → c.used.getD x false = true)) := by
  induction slots generalizing w with
  | nil =>
    refine ⟨fun _ _ => rfl, fun P hp => ⟨P, hp, .refl _⟩, id, fun a b c' hc' => ⟨c', hc', id, ?_, fun _ h => h⟩⟩
    rintro ⟨-, hm⟩; simp at hm
  | cons sl r ih =>
    cases sl with
    | none =>
      rw [retrieveFrom_cons_none]
      obtain ⟨i1, i2, i3, i4⟩ := ih w
      refine ⟨i1, i2, i3, fun a b c' hc' => ?_⟩
      obtain ⟨c, hc, h1, h2, h3⟩ := i4 a b c' hc'
      refine ⟨c, hc, h1, ?_, h3⟩
      rintro ⟨ha, hm⟩ hpn
      simp at hm
      exact h2 ⟨ha, hm⟩ hpn
    | some s =>
      rw [retrieveFrom_cons_some]
      obtain ⟨o1, o2, o3, o4⟩ := retrieveOne_shape w p s
      obtain ⟨i1, i2, i3, i4⟩ := ih (retrieveOne w p s)
      refine ⟨fun q hq => (i1 q hq).trans (o1 q hq), ?_, fun hn => i3 (o3 hn), ?_⟩
      · intro P hp
        obtain ⟨P1, hp1, e1⟩ := o2 P hp
        obtain ⟨P2, hp2, e2⟩ := i2 P1 hp1
        exact ⟨P2, hp2, e1.trans e2⟩
      · intro a b c' hc'
        obtain ⟨c1, hc1, h1, h2, h3⟩ := i4 a b c' hc'
        obtain ⟨c0, hc0, g1, g2, g3⟩ := o4 a b c1 hc1
        refine ⟨c0, hc0, fun e => h1 (g1 e), ?_, fun x hx => g3 x (h3 x hx)⟩
        rintro ⟨ha, hm⟩ hpn
        rcases List.mem_cons.mp hm with e | hm'
        · cases e
          exact h1 (g2 ⟨ha, rfl⟩ hpn)
        · apply h2 ⟨ha, hm'⟩
          subst ha
          cases hp : getP w a with
          | none => exact absurd hp hpn
          | some P =>
            obtain ⟨P1, hp1, -⟩ := o2 P hp
            rw [hp1]; simp

theorem retrieveFrom_inv {cfg : Cfg} {w : World} {xp : Option Nat} {p0 : Nat} {xs : List Nat} {st : Bool}
    (h : InvP cfg w xp p0 xs st) (p : Nat) (slots : List (Option Nat)) (hx : p ≠ p0 → xs = [])
    (hslot : ∀ P, getP w p = some P → ∀ s, some s ∈ slots → ∃ i : Nat, P.conns[i]? = some (some s)) :
    InvP cfg (retrieveFrom w p slots) xp p0 xs st := by
  induction slots generalizing w with
  | nil => exact h
  | cons sl r ih =>
    cases sl with
    | none =>
      rw [retrieveFrom_cons_none]
      exact ih h (fun P hp s hs => hslot P hp s (List.mem_cons_of_mem _ hs))
    | some s =>
      rw [retrieveFrom_cons_some]
      apply ih (retrieveOne_inv h p s hx (fun P hp => hslot P hp s (by simp)))
      intro P1 hp1 s' hs'
      obtain ⟨-, o2, o3, -⟩ := retrieveOne_shape w p s
      cases hp : getP w p with
      | none => rw [o3 hp] at hp1; cases hp1
      | some P =>
        obtain ⟨P2, hp2, e⟩ := o2 P hp
        rw [hp1] at hp2; cases hp2
        rw [e.sim.conns]
        exact hslot P hp s' (List.mem_cons_of_mem _ hs')

theorem retrieveReturned_inv {cfg : Cfg} {w : World} {xp : Option Nat} {p0 : Nat} {xs : List Nat} {st : Bool}
    (h : InvP cfg w xp p0 xs st) (p : Nat) (hx : p ≠ p0 → xs = []) :
    InvP cfg (retrieveReturned w p) xp p0 xs st := by
  unfold retrieveReturned
  split
  · exact h
  next P hp =>
    apply retrieveFrom_inv h p _ hx
    intro P1 hp1 s hs
    rw [hp] at hp1; cases hp1
    obtain ⟨i, hi⟩ := List.getElem?_of_mem hs
    exact ⟨i, hi⟩

theorem retrieveReturned_shape (w : World) (p : Nat) :
    (∀ q, q ≠ p → getP (retrieveReturned w p) q = getP w q) ∧
    (∀ P, getP w p = some P → ∃ P', getP (retrieveReturned w p) p = some P' ∧ PoolEq P P') ∧
    (getP w p = none → getP (retrieveReturned w p) p = none) ∧
    (∀ a b c', getC (retrieveReturned w p) a b = some c' →
      ∃ c, getC w a b = some c ∧ (c.comp = [] → c'.comp = []) ∧
        (∀ P, a = p → getP w p = some P → some b ∈ P.conns → c'.comp = []) ∧
        (∀ x, c'.used.getD x false = true → c.used.getD x false = true)) := by
  unfold retrieveReturned
  split
  next hp =>
    refine ⟨fun _ _ => rfl, fun P hp' => (by rw [hp] at hp'; cases hp'), id,
      fun a b c' hc' => ⟨c', hc', id, ?_, fun _ h => h⟩⟩
    intro P ha hp'; subst ha; rw [hp] at hp'; cases hp'
  next P hp =>
    obtain ⟨i1, i2, i3, i4⟩ := retrieveFrom_shape w p P.conns
    refine ⟨i1, i2, i3, fun a b c' hc' => ?_⟩
    obtain ⟨c, hc, h1, h2, h3⟩ := i4 a b c' hc'
    refine ⟨c, hc, h1, fun P1 ha hp1 hm => ?_, h3⟩
    rw [hp] at hp1; cases hp1
    exact h2 ⟨ha, hm⟩ (by rw [hp]; simp)

end Iox2.PubSub.C08
