/-
The receive path (`receive_from_to_be_removed_connections`, the scan over the connection storage),
generically for a predicate `I` on worlds that is preserved by the bookkeeping steps.
-/
import Iox2.Proof.PubSubC01FrameS
namespace Iox2.PubSub.C01P
open Iox2.PubSub

/-- either nothing was received and `I` holds, or the result world is a world satisfying `I` with the
head of one submission queue taken -/
def RecvPost (I : World → Prop) (s : Nat) (w0 : World) (r : World × RecvRes) : Prop :=
  SFrame w0 r.1 ∧
  match r.2 with
  | .some key p ch q => ∃ w' c rest, I w' ∧ SFrame w0 w' ∧ getC w' p s = some c ∧ c.sub = (ch, q) :: rest ∧
      (∃ S', getS w' s = some S' ∧ smGet S'.storage key = some p) ∧
      r.1 = setC w' { c with sub := rest, borrow := c.borrow + 1, gReceived := c.gReceived ++ [q] }
  | _ => I r.1

theorem RecvPost.mono {I : World → Prop} {s : Nat} {w0 w1 : World} {r : World × RecvRes} (f : SFrame w0 w1)
    (h : RecvPost I s w1 r) : RecvPost I s w0 r := by
  obtain ⟨h1, h2⟩ := h
  refine ⟨f.trans h1, ?_⟩
  cases hr : r.2 with
  | some key p ch q =>
    rw [hr] at h2
    obtain ⟨w', c, rest, a, b, c', d, e, g⟩ := h2
    exact ⟨w', c, rest, a, f.trans b, c', d, e, g⟩
  | none => rw [hr] at h2; exact h2
  | maxBorrow => rw [hr] at h2; exact h2

/-- one `receive_from_connection` -/
theorem recvFromConn_post {I : World → Prop} {w : World} (hI : I w) (s : Nat) (S : Sub) (hS : getS w s = some S) (key : Nat) :
    RecvPost I s w (recvFromConn w s S key) := by
  refine ⟨recvFromConn_sframe w s S key, ?_⟩
  rcases recvFromConn_cases w s S key with (h | h) | ⟨p, c, ch, q, rest, h1, h2, h3, h4, h⟩
  · rw [h]; exact hI
  · rw [h]; exact hI
  · rw [h]
    exact ⟨w, c, rest, hI, SFrame.refl w, h2, h4, ⟨S, hS, h1⟩, rfl⟩

variable {I : World → Prop}
  (hI1 : ∀ w s S t, I w → getS w s = some S → I (setS w s { S with tbr := t }))
  (hI2 : ∀ w s key, I w → I (subDropConn w s key))

include hI1 hI2 in
theorem recvTbr_post (s fuel : Nat) {w : World} (i : Nat) (hI : I w) : RecvPost I s w (recvTbr w s fuel i) := by
  induction fuel generalizing w i with
  | zero => exact ⟨SFrame.refl w, hI⟩
  | succ fuel ih =>
    rw [recvTbr_succ]
    cases hS : getS w s with
    | none => exact ⟨SFrame.refl w, hI⟩
    | some S =>
      simp only
      cases hk : S.tbr[i]? with
      | none => exact ⟨SFrame.refl w, hI⟩
      | some key =>
        simp only
        cases hg : smGet S.storage key with
        | none =>
          simp only
          exact (ih i (hI1 w s S _ hI hS)).mono (setS_tbr_frame hS _)
        | some p =>
          simp only
          split
          · exact ih (i + 1) hI
          · have hp := recvFromConn_post hI s S hS key
            have hun := recvFromConn_unchanged w s S key
            generalize recvFromConn w s S key = r at hp hun
            obtain ⟨w', res⟩ := r
            cases res with
            | some k p ch q => exact hp
            | maxBorrow => exact hp
            | none =>
              simp only
              have hw' : w' = w := hun (fun _ _ _ _ h => by cases h)
              subst hw'
              split
              · exact ih (i + 1) hI
              · have f1 := setS_tbr_frame hS (S.tbr.eraseIdx i)
                have f2 := subDropConn_frame (setS w' s { S with tbr := S.tbr.eraseIdx i }) s key
                exact (ih i (hI2 _ s key (hI1 w' s S _ hI hS))).mono (f1.trans f2)

theorem recvScan_post (s : Nat) (S : Sub) (l : List (Nat × Nat)) {w : World} (acc : ScanAcc) (hI : I w)
    (hS : getS w s = some S) :
    RecvPost I s w ((recvScan w s S l acc).1, (recvScan w s S l acc).2.1) := by
  induction l generalizing w acc with
  | nil => exact ⟨SFrame.refl w, hI⟩
  | cons x r ih =>
    obtain ⟨key, p⟩ := x
    unfold recvScan
    cases hC : getC w p s with
    | none => exact ih acc hI hS
    | some c =>
      simp only
      split
      · exact ih acc hI hS
      · split
        · exact ih _ hI hS
        · have hp := recvFromConn_post hI s S hS key
          have hun := recvFromConn_unchanged w s S key
          generalize recvFromConn w s S key = r at hp hun
          obtain ⟨w', res⟩ := r
          cases res with
          | some k p ch q => exact hp
          | maxBorrow => exact hp
          | none =>
            simp only
            have hw' : w' = w := hun (fun _ _ _ _ h => by cases h)
            subst hw'
            exact ih _ hI hS

include hI1 hI2 in
theorem subReceive_post (s : Nat) {w : World} (hI : I w) : RecvPost I s w (subReceive w s) := by
  unfold subReceive
  cases hS : getS w s with
  | none => exact ⟨SFrame.refl w, hI⟩
  | some S =>
    simp only
    have h1 := recvTbr_post hI1 hI2 s (S.tbr.length + 1) 0 hI
    generalize recvTbr w s (S.tbr.length + 1) 0 = r at h1
    obtain ⟨w', res⟩ := r
    cases res with
    | some k p ch q => exact h1
    | maxBorrow => exact h1
    | none =>
      simp only
      cases hS' : getS w' s with
      | none => exact h1
      | some S' =>
        simp only
        have h2 := recvScan_post (I := I) s S' (SlotMap.items S'.storage) {} h1.2 hS'
        generalize recvScan w' s S' (SlotMap.items S'.storage) {} = r2 at h2
        obtain ⟨w'', res2, acc⟩ := r2
        have h3 := h2.mono h1.1
        cases res2 with
        | some k p ch q => exact h3
        | maxBorrow => exact h3
        | none =>
          simp only
          split
          · exact ⟨h3.1, h3.2⟩
          · exact h3

end Iox2.PubSub.C01P
