/-
C08 helper: transfer (frame) lemmas for the parts of the invariant, and `slotSum` algebra.
-/
import Iox2.Proof.PubSubC08Mem
set_option linter.unusedSimpArgs false
set_option linter.unusedVariables false
namespace Iox2.PubSub.C08
open Iox2.PubSub
open Iox2.C16.SlotMapP (abs)

/-- publisher records that agree on everything the other parts of the invariant look at -/
structure PubSim (P P' : Pub) : Prop where
  alive : P'.alive = P.alive
  ex : P'.ex = P.ex
  slot : P'.slot = P.slot
  conns : P'.conns = P.conns
  n : P'.n = P.n

theorem PubSim.refl (P : Pub) : PubSim P P := ⟨rfl, rfl, rfl, rfl, rfl⟩
theorem PubSim.symm {P P' : Pub} (h : PubSim P P') : PubSim P' P :=
  ⟨h.alive.symm, h.ex.symm, h.slot.symm, h.conns.symm, h.n.symm⟩
theorem PoolEq.sim {P P' : Pub} (h : PoolEq P P') : PubSim P P' := by
  obtain ⟨f, r, rfl⟩ := h; exact ⟨rfl, rfl, rfl, rfl, rfl⟩

/-- all publishers of `w'` are similar to those of `w` -/
structure PubsSim (w w' : World) : Prop where
  fwd : ∀ q P, getP w q = some P → ∃ P', getP w' q = some P' ∧ PubSim P P'
  bwd : ∀ q P', getP w' q = some P' → ∃ P, getP w q = some P ∧ PubSim P P'

theorem PubsSim.of_eq {w w' : World} (h : ∀ q, getP w' q = getP w q) : PubsSim w w' :=
  ⟨fun q P hq => ⟨P, by rw [h, hq], .refl _⟩, fun q P' hq => ⟨P', by rw [← h, hq], .refl _⟩⟩

theorem PubsSim.setP {w : World} {p : Nat} {P P' : Pub} (hp : getP w p = some P) (hs : PubSim P P') :
    PubsSim w (setP w p P') := by
  constructor
  · intro q Q hq
    by_cases hqp : q = p
    · subst hqp
      rw [hp] at hq; cases hq
      exact ⟨P', by simp [hp], hs⟩
    · exact ⟨Q, by simp [hqp, hq], .refl _⟩
  · intro q Q' hq
    by_cases hqp : q = p
    · subst hqp
      simp [hp] at hq; subst hq
      exact ⟨P, hp, hs⟩
    · simp [hqp] at hq
      exact ⟨Q', hq, .refl _⟩

theorem PubsSim.trans {a b c : World} (h1 : PubsSim a b) (h2 : PubsSim b c) : PubsSim a c := by
  constructor
  · intro q P hq
    obtain ⟨P', hq', s1⟩ := h1.fwd q P hq
    obtain ⟨P'', hq'', s2⟩ := h2.fwd q P' hq'
    exact ⟨P'', hq'', ⟨s2.alive.trans s1.alive, s2.ex.trans s1.ex, s2.slot.trans s1.slot,
      s2.conns.trans s1.conns, s2.n.trans s1.n⟩⟩
  · intro q P'' hq
    obtain ⟨P', hq', s2⟩ := h2.bwd q P'' hq
    obtain ⟨P, hq0, s1⟩ := h1.bwd q P' hq'
    exact ⟨P, hq0, ⟨s2.alive.trans s1.alive, s2.ex.trans s1.ex, s2.slot.trans s1.slot,
      s2.conns.trans s1.conns, s2.n.trans s1.n⟩⟩

/-- weaker similarity (the connection slots may differ) -/
structure PubSim0 (P P' : Pub) : Prop where
  alive : P'.alive = P.alive
  ex : P'.ex = P.ex
  slot : P'.slot = P.slot
  n : P'.n = P.n

theorem PubSim.to0 {P P' : Pub} (h : PubSim P P') : PubSim0 P P' := ⟨h.alive, h.ex, h.slot, h.n⟩

structure PubsSim0 (w w' : World) : Prop where
  fwd : ∀ q P, getP w q = some P → ∃ P', getP w' q = some P' ∧ PubSim0 P P'
  bwd : ∀ q P', getP w' q = some P' → ∃ P, getP w q = some P ∧ PubSim0 P P'

theorem PubsSim.to0 {w w' : World} (h : PubsSim w w') : PubsSim0 w w' :=
  ⟨fun q P hq => by obtain ⟨P', a, b⟩ := h.fwd q P hq; exact ⟨P', a, b.to0⟩,
   fun q P' hq => by obtain ⟨P, a, b⟩ := h.bwd q P' hq; exact ⟨P, a, b.to0⟩⟩

/-- weakest similarity: liveness and registry slot -/
structure PubSim00 (P P' : Pub) : Prop where
  alive : P'.alive = P.alive
  slot : P'.slot = P.slot

structure PubsSim00 (w w' : World) : Prop where
  fwd : ∀ q P, getP w q = some P → ∃ P', getP w' q = some P' ∧ PubSim00 P P'
  bwd : ∀ q P', getP w' q = some P' → ∃ P, getP w q = some P ∧ PubSim00 P P'

theorem PubsSim0.to00 {w w' : World} (h : PubsSim0 w w') : PubsSim00 w w' :=
  ⟨fun q P hq => by obtain ⟨P', a, b⟩ := h.fwd q P hq; exact ⟨P', a, ⟨b.alive, b.slot⟩⟩,
   fun q P' hq => by obtain ⟨P, a, b⟩ := h.bwd q P' hq; exact ⟨P, a, ⟨b.alive, b.slot⟩⟩⟩

/-! ### registries -/

theorem RInv.transferP {cfg : Cfg} {w w' : World} {xp xs : Option Nat} (h : RInv cfg w xp xs)
    (hcfg : w'.cfg = w.cfg) (hpr : w'.pubReg = w.pubReg) (hsr : w'.subReg = w.subReg)
    (hS : ∀ s, getS w' s = getS w s) (hP : PubsSim00 w w') : RInv cfg w' xp xs := by
  refine ⟨hcfg.trans h.cfgEq, by rw [hpr]; exact h.pubLen, by rw [hsr]; exact h.subLen, ?_, ?_, ?_, ?_⟩
  · intro i p hi
    rw [hpr] at hi
    obtain ⟨P, hp, ha, hsl⟩ := h.rp1 i p hi
    obtain ⟨P', hp', sim⟩ := hP.fwd p P hp
    exact ⟨P', hp', sim.alive.trans ha, sim.slot.trans hsl⟩
  · intro p P' hp' ha hne
    obtain ⟨P, hp, sim⟩ := hP.bwd p P' hp'
    rw [hpr, sim.slot]
    exact h.rp2 p P hp (sim.alive.symm.trans ha) hne
  · intro i e hi
    rw [hsr] at hi
    rw [hS]
    exact h.rs1 i e hi
  · intro s S hs ha hne
    rw [hS] at hs
    rw [hsr]
    exact h.rs2 s S hs ha hne

/-! ### connections -/

theorem ConnInv.transferAt0 {cfg : Cfg} {w w' : World} {p s : Nat} {c : Conn} (h : ConnInv cfg w p s c)
    (hS : ∀ s, getS w' s = getS w s)
    (fwd : ∀ P, getP w p = some P → ∃ P', getP w' p = some P' ∧ PubSim0 P P' ∧
      (c.sAtt = true → ∀ i : Nat, P.conns[i]? = some (some s) → ∃ j : Nat, P'.conns[j]? = some (some s)))
    (bwd : ∀ P', getP w' p = some P' → ∃ P, getP w p = some P ∧ PubSim0 P P') : ConnInv cfg w' p s c := by
  refine ⟨h.ok, ?_, ?_, ?_, ?_, ?_, ?_, ?_⟩
  · obtain ⟨P, hp⟩ := h.hasP
    obtain ⟨P', hp', -⟩ := fwd P hp
    exact ⟨P', hp'⟩
  · rw [hS]; exact h.hasS
  · intro S hs; rw [hS] at hs; exact h.held S hs
  · intro ha S hs; rw [hS] at hs; exact h.exact ha S hs
  · intro ha P' S hp' hs hex hal
    rw [hS] at hs
    obtain ⟨P, hp, sim⟩ := bwd P' hp'
    exact h.fresh ha P S hp hs (sim.ex.symm.trans hex) hal
  · intro ha
    obtain ⟨P, hp, hex, i, hi⟩ := h.inSlot ha
    obtain ⟨P', hp', sim, hsl⟩ := fwd P hp
    obtain ⟨j, hj⟩ := hsl ha i hi
    exact ⟨P', hp', sim.ex.trans hex, j, hj⟩
  · intro P' hp'
    obtain ⟨P, hp, sim⟩ := bwd P' hp'
    rw [sim.n]; exact h.usedLen P hp

theorem ConnInv.transferAt {cfg : Cfg} {w w' : World} {p s : Nat} {c : Conn} (h : ConnInv cfg w p s c)
    (hS : ∀ s, getS w' s = getS w s)
    (fwd : ∀ P, getP w p = some P → ∃ P', getP w' p = some P' ∧ PubSim P P')
    (bwd : ∀ P', getP w' p = some P' → ∃ P, getP w p = some P ∧ PubSim P P') : ConnInv cfg w' p s c :=
  h.transferAt0 hS
    (fun P hp => by
      obtain ⟨P', hp', sim⟩ := fwd P hp
      exact ⟨P', hp', sim.to0, fun _ i hi => ⟨i, by rw [sim.conns]; exact hi⟩⟩)
    (fun P' hp' => by
      obtain ⟨P, hp, sim⟩ := bwd P' hp'
      exact ⟨P, hp, sim.to0⟩)

theorem ConnInv.transferP {cfg : Cfg} {w w' : World} {p s : Nat} {c : Conn} (h : ConnInv cfg w p s c)
    (hS : ∀ s, getS w' s = getS w s) (hP : PubsSim w w') : ConnInv cfg w' p s c :=
  h.transferAt hS (hP.fwd p) (hP.bwd p)

/-! ### subscribers -/

theorem SubOK.transferP {cfg : Cfg} {w w' : World} {s : Nat} {S : Sub} {hole : Option Nat}
    (h : SubOK cfg w s S hole) (hP : PubsSim00 w w')
    (hC : ∀ p c, getC w p s = some c → c.rAtt = true → ∃ c', getC w' p s = some c' ∧ c'.rAtt = true) :
    SubOK cfg w' s S hole := by
  refine ⟨h.stI, h.connsLen, h.capEq, h.buf1, h.bufM, h.tbrNodup, h.tbrLen, h.tbrIn, h.connKey, h.connInj,
    h.cover, ?_, h.pidInj, h.heldKey, ?_, ?_, h.aliveEx⟩
  · intro k p hk
    obtain ⟨c, hc, hr⟩ := h.hasConn k p hk
    exact hC p c hc hr
  · intro k hk p P' ha hp'
    obtain ⟨P, hp, sim⟩ := hP.bwd p P' hp'
    rw [sim.alive]; exact h.tbrDead k hk p P ha hp
  · intro i k p hi hk ha
    obtain ⟨P, hp, hsl⟩ := h.connSlot i k p hi hk ha
    obtain ⟨P', hp', sim⟩ := hP.fwd p P hp
    exact ⟨P', hp', sim.slot.trans hsl⟩

/-! ### `slotSum` -/

theorem slotSum_congr {w w' : World} {p p' c : Nat} (slots : List (Option Nat))
    (h : ∀ s, some s ∈ slots → usedAt w' p' s c = usedAt w p s c) :
    slotSum w' p' slots c = slotSum w p slots c := by
  unfold slotSum
  induction slots with
  | nil => rfl
  | cons a l ih =>
    simp only [List.map_cons, List.sum_cons]
    rw [ih (fun s hs => h s (List.mem_cons_of_mem _ hs))]
    congr 1
    cases a with
    | none => rfl
    | some s => simp only [slotRef]; rw [h s (by simp)]

/-- changing the used bits of one connection changes the sum by the number of slots it occupies -/
theorem slotSum_update {w w' : World} {p s c : Nat} (slots : List (Option Nat))
    (h : ∀ s', s' ≠ s → usedAt w' p s' c = usedAt w p s' c) :
    slotSum w' p slots c + slots.count (some s) * (if usedAt w p s c then 1 else 0) =
      slotSum w p slots c + slots.count (some s) * (if usedAt w' p s c then 1 else 0) := by
  unfold slotSum
  induction slots with
  | nil => simp
  | cons a l ih =>
    simp only [List.map_cons, List.sum_cons, List.count_cons]
    cases a with
    | none =>
      simp only [slotRef]
      have : ((none : Option Nat) == some s) = false := rfl
      simp only [this, Bool.false_eq_true, if_false, Nat.add_zero, Nat.zero_add]
      exact ih
    | some s' =>
      by_cases hs : s' = s
      · subst hs
        simp only [slotRef, beq_self_eq_true, if_true, Nat.add_mul, Nat.one_mul]
        omega
      · have : ((some s' : Option Nat) == some s) = false := by simp [hs]
        simp only [slotRef, this, Bool.false_eq_true, if_false, Nat.add_zero, h s' hs]
        omega

theorem count_eq_one_of_unique {α : Type} [BEq α] [LawfulBEq α] (l : List α) (i : Nat) (a : α)
    (hi : l[i]? = some a) (hu : ∀ j, l[j]? = some a → j = i) : l.count a = 1 := by
  induction l generalizing i with
  | nil => simp at hi
  | cons b l ih =>
    cases i with
    | zero =>
      simp at hi; subst hi
      have : l.count b = 0 := by
        rw [List.count_eq_zero]
        intro hm
        obtain ⟨j, hj⟩ := List.getElem?_of_mem hm
        have := hu (j + 1) (by simpa using hj)
        omega
      simp [this]
    | succ i =>
      have hb : b ≠ a := by
        intro e; subst e
        have := hu 0 (by simp)
        omega
      have := ih i (by simpa using hi) (fun j hj => by
        have := hu (j + 1) (by simpa using hj)
        omega)
      rw [List.count_cons, this]
      simp [hb]

theorem slotSum_pos {w : World} {p c : Nat} {slots : List (Option Nat)} (h : slotSum w p slots c ≠ 0) :
    ∃ s, some s ∈ slots ∧ usedAt w p s c = true := by
  unfold slotSum at h
  induction slots with
  | nil => simp at h
  | cons a l ih =>
    simp only [List.map_cons, List.sum_cons] at h
    by_cases h0 : slotRef w p c a = 0
    · rw [h0, Nat.zero_add] at h
      obtain ⟨s, hs, hu⟩ := ih h
      exact ⟨s, List.mem_cons_of_mem _ hs, hu⟩
    · cases a with
      | none => simp [slotRef] at h0
      | some s =>
        refine ⟨s, by simp, ?_⟩
        simp only [slotRef] at h0
        by_cases hu : usedAt w p s c = true
        · exact hu
        · simp [hu] at h0

theorem slotSum_set_none {w : World} {p c : Nat} (slots : List (Option Nat)) (i : Nat) (sl : Option Nat)
    (hi : slots[i]? = some sl) :
    slotSum w p (slots.set i none) c + slotRef w p c sl = slotSum w p slots c := by
  unfold slotSum
  induction slots generalizing i with
  | nil => simp at hi
  | cons a l ih =>
    cases i with
    | zero =>
      simp at hi; subst hi
      simp only [List.set_cons_zero, List.map_cons, List.sum_cons, slotRef]
      omega
    | succ i =>
      simp only [List.set_cons_succ, List.map_cons, List.sum_cons]
      have := ih i (by simpa using hi)
      omega

theorem slotSum_set_some {w : World} {p c : Nat} (slots : List (Option Nat)) (i : Nat) (sl : Option Nat)
    (hi : slots[i]? = some none) :
    slotSum w p (slots.set i sl) c = slotSum w p slots c + slotRef w p c sl := by
  unfold slotSum
  induction slots generalizing i with
  | nil => simp at hi
  | cons a l ih =>
    cases i with
    | zero =>
      simp at hi; subst hi
      simp only [List.set_cons_zero, List.map_cons, List.sum_cons, slotRef]
      omega
    | succ i =>
      simp only [List.set_cons_succ, List.map_cons, List.sum_cons]
      have := ih i (by simpa using hi)
      omega

end Iox2.PubSub.C08
