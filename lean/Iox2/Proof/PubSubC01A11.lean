/-
Layer A: life cycle of a subscriber record (created, registered, creation failed, unregistered).
-/
import Iox2.Proof.PubSubC01A10
namespace Iox2.PubSub.C01P
open Iox2.PubSub
open Iox2.C16.SlotMapP (abs WInv)

variable {cfg : Cfg} {w : World}

theorem InvA.addSub (h : InvA cfg none none w) {s : Nat} (hfresh : getS w s = none) {S : Sub}
    (hex : S.ex = true) (hbuf : 1 ≤ S.buffer) {n : Nat} (hst : S.storage = SlotMap.init n)
    (hgr : S.ghostRecv = []) (hheld : S.held = []) :
    InvA cfg none (some s) (addS w s S) := by
  have gS : ∀ a Q, getS (addS w s S) a = some Q → getS w a = some Q ∨ (a = s ∧ Q = S) := by
    intro a Q hq
    rw [getS_addS] at hq
    cases h0 : getS w a with
    | some Q0 => rw [h0] at hq; simp at hq; exact Or.inl (by rw [hq])
    | none =>
      rw [h0] at hq
      by_cases hap : a = s
      · simp [hap] at hq; exact Or.inr ⟨hap, hq.symm⟩
      · simp [hap] at hq
  have gS2 : ∀ a Q, getS w a = some Q → getS (addS w s S) a = some Q ∧ a ≠ s := by
    intro a Q hq
    rw [getS_addS, hq]
    exact ⟨rfl, fun hap => by rw [hap, hfresh] at hq; cases hq⟩
  constructor
  · exact h.cfgEq
  · exact h.uniqC
  · exact h.sregLen
  · exact h.preg
  · intro i e hi
    obtain ⟨_, Q0, h2, h3⟩ := h.sreg i e hi
    obtain ⟨h5, h6⟩ := gS2 _ Q0 h2
    exact ⟨fun hh => h6 (Option.some.inj hh), Q0, h5, h3⟩
  · exact h.palive
  · intro a Q hq hQa
    rcases gS a Q hq with h0 | ⟨rfl, rfl⟩
    · have := h.salive a Q h0 hQa
      exact ⟨this.1, fun _ => this.2 (by simp)⟩
    · exact ⟨hex, fun hh => absurd rfl hh⟩
  · intro a Q hq
    rcases gS a Q hq with h0 | ⟨rfl, rfl⟩
    · exact h.sbuf a Q h0
    · exact hbuf
  · intro a P hP
    obtain ⟨h1, h2⟩ := h.pconns a P hP
    refine ⟨h1, fun i b hi => ?_⟩
    obtain ⟨_, Q0, h0, h4⟩ := h2 i b hi
    obtain ⟨h5, h6⟩ := gS2 _ Q0 h0
    exact ⟨fun hh => h6 (Option.some.inj hh), Q0, h5, h4⟩
  · intro cn hcn
    obtain ⟨hP, ⟨Q0, h0⟩⟩ := h.ends cn hcn
    exact ⟨hP, ⟨Q0, (gS2 _ Q0 h0).1⟩⟩
  · intro cn hcn hra
    obtain ⟨Q0, h0, h1⟩ := h.a1 cn hcn hra
    exact ⟨Q0, (gS2 _ Q0 h0).1, h1⟩
  · intro a Q hq
    rcases gS a Q hq with h0 | ⟨rfl, rfl⟩
    · exact h.stor a Q h0
    · rw [hst]
      refine ⟨Iox2.C16.SlotMapP.winv_init n, fun k p' hk => ?_⟩
      rw [Iox2.C16.SlotMapP.abs_init] at hk; cases hk
  · exact h.a2
  · exact h.a2c
  · exact h.a3
  · intro cn hcn hsa P Q hP hq hPe hQa
    obtain ⟨_, ⟨Q0, h0⟩⟩ := h.ends cn hcn
    rcases gS _ Q hq with h1 | ⟨h1, _⟩
    · exact h.virg cn hcn hsa P Q hP h1 hPe hQa
    · rw [h1, hfresh] at h0; cases h0
  · intro a Q hq hQa e he P hP hPa
    rcases gS a Q hq with h0 | ⟨rfl, rfl⟩
    · exact h.k2 a Q h0 hQa e he P hP hPa
    · rw [hgr] at he; cases he
  · intro cn hcn Q hq
    obtain ⟨_, ⟨Q0, h0⟩⟩ := h.ends cn hcn
    rcases gS _ Q hq with h1 | ⟨h1, _⟩
    · exact h.l3 cn hcn Q h1
    · rw [h1, hfresh] at h0; cases h0
  · intro a Q hq x hx
    rcases gS a Q hq with h0 | ⟨rfl, rfl⟩
    · exact h.l4 a Q h0 x hx
    · rw [hheld] at hx; cases hx
  · exact h.clog
  · intro a Q hq e he
    rcases gS a Q hq with h0 | ⟨rfl, rfl⟩
    · exact h.gr a Q h0 e he
    · rw [hgr] at he; cases he

theorem InvA.registerSub {s : Nat} (h : InvA cfg none (some s) w) {S1 : Sub} (hS : getS w s = some S1)
    (hal : S1.alive = true) {reg : Reg SubEntry} {slot : Nat} {en : SubEntry}
    (hadd : w.subReg.add en = some (reg, slot)) (hsid : en.sid = s) (hbuf : en.buffer = S1.buffer) :
    InvA cfg none none { setS w s { S1 with slot := slot } with subReg := reg } := by
  obtain ⟨hfree, hreg⟩ := Reg_add_spec _ _ _ _ hadd
  have hslt : slot < w.subReg.slots.length := (List.getElem?_eq_some_iff.mp hfree).1
  have gS : ∀ a Q, getS (setS w s { S1 with slot := slot }) a = some Q →
      (a = s ∧ Q = { S1 with slot := slot }) ∨ (a ≠ s ∧ getS w a = some Q) := by
    intro a Q hq
    rw [getS_setS] at hq
    by_cases hap : a = s
    · subst hap
      simp only [if_true, hS, Option.map_some, Option.some.injEq] at hq
      exact Or.inl ⟨rfl, hq.symm⟩
    · rw [if_neg hap] at hq
      exact Or.inr ⟨hap, hq⟩
  have gS2 : ∀ a Q0, getS w a = some Q0 → ∃ Q, getS (setS w s { S1 with slot := slot }) a = some Q ∧
      Q.alive = Q0.alive ∧ Q.ex = Q0.ex ∧ Q.storage = Q0.storage ∧ Q.buffer = Q0.buffer ∧ (a ≠ s → Q = Q0) := by
    intro a Q0 hq
    rw [getS_setS]
    by_cases hap : a = s
    · subst hap
      rw [hS] at hq; cases hq
      exact ⟨{ S1 with slot := slot }, by simp [hS], rfl, rfl, rfl, rfl, fun hh => absurd rfl hh⟩
    · rw [if_neg hap]
      exact ⟨Q0, hq, rfl, rfl, rfl, rfl, fun _ => rfl⟩
  constructor
  · exact h.cfgEq
  · exact h.uniqC
  · show reg.slots.length = _
    rw [hreg, List.length_set]; exact h.sregLen
  · exact h.preg
  · intro i e hi
    show _ ∧ ∃ S, getS (setS w s { S1 with slot := slot }) e.sid = some S ∧ _
    simp only [hreg, List.getElem?_set] at hi
    by_cases his : slot = i
    · subst his
      simp [hslt] at hi
      subst hi
      rw [hsid]
      exact ⟨by simp, _, getS_setS_self _ hS, hal, rfl, hbuf⟩
    · rw [if_neg his] at hi
      obtain ⟨hne, Q0, h2, h3, h4, h5⟩ := h.sreg i e hi
      have hap : e.sid ≠ s := fun hh => hne (by rw [hh])
      exact ⟨by simp, Q0, by rw [getS_setS_ne _ _ hap]; exact h2, h3, h4, h5⟩
  · exact h.palive
  · intro a Q hq hQa
    show _ ∧ (_ → ∃ e, reg.slots[Q.slot]? = _ ∧ _)
    rcases gS a Q hq with ⟨rfl, rfl⟩ | ⟨hap, h0⟩
    · refine ⟨(h.salive a S1 hS hal).1, fun _ => ⟨en, ?_, hsid⟩⟩
      simp only [hreg, List.getElem?_set]
      simp [hslt]
    · have := h.salive a Q h0 hQa
      refine ⟨this.1, fun _ => ?_⟩
      obtain ⟨e, h1, h2⟩ := this.2 (fun hh => hap (Option.some.inj hh))
      refine ⟨e, ?_, h2⟩
      simp only [hreg, List.getElem?_set]
      have : slot ≠ Q.slot := by
        intro hh; rw [← hh, hfree] at h1; cases h1
      rw [if_neg this]; exact h1
  · intro a Q hq
    rcases gS a Q hq with ⟨rfl, rfl⟩ | ⟨_, h0⟩
    · exact h.sbuf a S1 hS
    · exact h.sbuf a Q h0
  · intro a P hP
    obtain ⟨h1, h2⟩ := h.pconns a P hP
    refine ⟨h1, fun i b hi => ?_⟩
    obtain ⟨hne, Q0, h0, h4⟩ := h2 i b hi
    have hbs : b ≠ s := fun hh => hne (by rw [hh])
    refine ⟨by simp, Q0, ?_, h4⟩
    show getS (setS w s { S1 with slot := slot }) b = some Q0
    rw [getS_setS_ne _ _ hbs]; exact h0
  · intro cn hcn
    obtain ⟨hP, ⟨Q0, h0⟩⟩ := h.ends cn hcn
    obtain ⟨Q, hq, _⟩ := gS2 _ Q0 h0
    exact ⟨hP, ⟨Q, hq⟩⟩
  · intro cn hcn hra
    obtain ⟨Q0, h0, h1, h2⟩ := h.a1 cn hcn hra
    obtain ⟨Q, hq, _, e2, e3, _⟩ := gS2 _ Q0 h0
    exact ⟨Q, hq, e2 ▸ h1, e3 ▸ h2⟩
  · intro a Q hq
    rcases gS a Q hq with ⟨rfl, rfl⟩ | ⟨_, h0⟩
    · exact h.stor a S1 hS
    · exact h.stor a Q h0
  · exact h.a2
  · exact h.a2c
  · exact h.a3
  · intro cn hcn hsa P Q hP hq hPe hQa
    rcases gS _ Q hq with ⟨hap, rfl⟩ | ⟨_, h0⟩
    · exact h.virg cn hcn hsa P S1 hP (hap ▸ hS) hPe hQa
    · exact h.virg cn hcn hsa P Q hP h0 hPe hQa
  · intro a Q hq hQa e he P hP hPa
    rcases gS a Q hq with ⟨rfl, rfl⟩ | ⟨_, h0⟩
    · exact h.k2 a S1 hS hQa e he P hP hPa
    · exact h.k2 a Q h0 hQa e he P hP hPa
  · intro cn hcn Q hq
    rcases gS _ Q hq with ⟨hap, rfl⟩ | ⟨_, h0⟩
    · exact h.l3 cn hcn S1 (hap ▸ hS)
    · exact h.l3 cn hcn Q h0
  · intro a Q hq x hx
    rcases gS a Q hq with ⟨rfl, rfl⟩ | ⟨_, h0⟩
    · exact h.l4 a S1 hS x hx
    · exact h.l4 a Q h0 x hx
  · exact h.clog
  · intro a Q hq e he
    rcases gS a Q hq with ⟨rfl, rfl⟩ | ⟨_, h0⟩
    · exact h.gr a S1 hS e he
    · exact h.gr a Q h0 e he

theorem InvA.unregisterSub (h : InvA cfg none none w) {s : Nat} {S : Sub} (hS : getS w s = some S)
    (hal : S.alive = true) :
    InvA cfg none none { setS w s { S with alive := false } with subReg := w.subReg.remove S.slot } := by
  obtain ⟨e0, hregs, hes⟩ := (h.salive s S hS hal).2 (by simp)
  have gS : ∀ a Q, getS (setS w s { S with alive := false }) a = some Q →
      (a = s ∧ Q = { S with alive := false }) ∨ (a ≠ s ∧ getS w a = some Q) := by
    intro a Q hq
    rw [getS_setS] at hq
    by_cases hap : a = s
    · subst hap
      simp only [if_true, hS, Option.map_some, Option.some.injEq] at hq
      exact Or.inl ⟨rfl, hq.symm⟩
    · rw [if_neg hap] at hq
      exact Or.inr ⟨hap, hq⟩
  have gS2 : ∀ a Q0, getS w a = some Q0 → ∃ Q, getS (setS w s { S with alive := false }) a = some Q ∧
      Q.ex = Q0.ex ∧ Q.storage = Q0.storage ∧ Q.slot = Q0.slot ∧ (a ≠ s → Q = Q0) := by
    intro a Q0 hq
    rw [getS_setS]
    by_cases hap : a = s
    · subst hap
      rw [hS] at hq; cases hq
      exact ⟨{ S with alive := false }, by simp [hS], rfl, rfl, rfl, fun hh => absurd rfl hh⟩
    · rw [if_neg hap]
      exact ⟨Q0, hq, rfl, rfl, rfl, fun _ => rfl⟩
  constructor
  · exact h.cfgEq
  · exact h.uniqC
  · show (w.subReg.remove S.slot).slots.length = _
    simp only [Reg.remove, List.length_set]; exact h.sregLen
  · exact h.preg
  · intro i e hi
    show _ ∧ ∃ Q, getS (setS w s { S with alive := false }) e.sid = some Q ∧ _
    simp only [Reg.remove, List.getElem?_set] at hi
    by_cases his : S.slot = i
    · rw [if_pos his] at hi; split at hi <;> cases hi
    · rw [if_neg his] at hi
      obtain ⟨hne, Q0, h2, h3, h4, h5⟩ := h.sreg i e hi
      have hap : e.sid ≠ s := by
        intro hh; rw [hh, hS] at h2; cases h2; exact his h4
      exact ⟨hne, Q0, by rw [getS_setS_ne _ _ hap]; exact h2, h3, h4, h5⟩
  · exact h.palive
  · intro a Q hq hQa
    show _ ∧ (_ → ∃ e, (w.subReg.remove S.slot).slots[Q.slot]? = _ ∧ _)
    rcases gS a Q hq with ⟨rfl, rfl⟩ | ⟨hap, h0⟩
    · cases hQa
    · have := h.salive a Q h0 hQa
      refine ⟨this.1, fun hh => ?_⟩
      obtain ⟨e, h1, h2⟩ := this.2 hh
      refine ⟨e, ?_, h2⟩
      simp only [Reg.remove, List.getElem?_set]
      have : S.slot ≠ Q.slot := by
        intro hh2; rw [← hh2, hregs] at h1; cases h1; exact hap (h2 ▸ hes)
      rw [if_neg this]; exact h1
  · intro a Q hq
    rcases gS a Q hq with ⟨rfl, rfl⟩ | ⟨_, h0⟩
    · exact h.sbuf a S hS
    · exact h.sbuf a Q h0
  · intro a P hP
    obtain ⟨h1, h2⟩ := h.pconns a P hP
    refine ⟨h1, fun i b hi => ?_⟩
    obtain ⟨hne, Q0, h0, h4⟩ := h2 i b hi
    obtain ⟨Q, hq, _, _, e3, _⟩ := gS2 _ Q0 h0
    exact ⟨hne, Q, hq, e3 ▸ h4⟩
  · intro cn hcn
    obtain ⟨hP, ⟨Q0, h0⟩⟩ := h.ends cn hcn
    obtain ⟨Q, hq, _⟩ := gS2 _ Q0 h0
    exact ⟨hP, ⟨Q, hq⟩⟩
  · intro cn hcn hra
    obtain ⟨Q0, h0, h1, h2⟩ := h.a1 cn hcn hra
    obtain ⟨Q, hq, e2, e3, _⟩ := gS2 _ Q0 h0
    exact ⟨Q, hq, e2 ▸ h1, e3 ▸ h2⟩
  · intro a Q hq
    rcases gS a Q hq with ⟨rfl, rfl⟩ | ⟨_, h0⟩
    · exact h.stor a S hS
    · exact h.stor a Q h0
  · exact h.a2
  · exact h.a2c
  · exact h.a3
  · intro cn hcn hsa P Q hP hq hPe hQa
    rcases gS _ Q hq with ⟨hap, rfl⟩ | ⟨_, h0⟩
    · cases hQa
    · exact h.virg cn hcn hsa P Q hP h0 hPe hQa
  · intro a Q hq hQa e he P hP hPa
    rcases gS a Q hq with ⟨rfl, rfl⟩ | ⟨_, h0⟩
    · cases hQa
    · exact h.k2 a Q h0 hQa e he P hP hPa
  · intro cn hcn Q hq
    rcases gS _ Q hq with ⟨hap, rfl⟩ | ⟨_, h0⟩
    · exact h.l3 cn hcn S (hap ▸ hS)
    · exact h.l3 cn hcn Q h0
  · intro a Q hq x hx
    rcases gS a Q hq with ⟨rfl, rfl⟩ | ⟨_, h0⟩
    · exact h.l4 a S hS x hx
    · exact h.l4 a Q h0 x hx
  · exact h.clog
  · intro a Q hq e he
    rcases gS a Q hq with ⟨rfl, rfl⟩ | ⟨_, h0⟩
    · exact h.gr a S hS e he
    · exact h.gr a Q h0 e he

/-! ### creation of a subscriber failed -/

theorem subDestroyKeys_conns (s : Nat) (l : List (Nat × Nat)) {w : World}
    (hr : ∀ cn ∈ w.conns, cn.sid = s → cn.sAtt = false) :
    (subDestroyKeys w s l).conns = w.conns.filter (fun c => ¬ (c.sid = s ∧ c.pid ∈ l.map (·.2))) := by
  induction l generalizing w with
  | nil =>
    show w.conns = _
    rw [List.filter_eq_self.mpr]
    intro c _; simp
  | cons x r ih =>
    obtain ⟨k0, p⟩ := x
    show (subDestroyKeys (detachReceiver w p s) s r).conns = _
    cases hg : getC w p s with
    | none =>
      rw [detachReceiver_none hg, ih hr]
      apply List.filter_congr
      intro c hc
      have := getC_none hg c hc
      by_cases hs : c.sid = s
      · have hp : c.pid ≠ p := fun hh => this ⟨hh, hs⟩
        simp [hs, hp]
      · simp [hs]
    | some c0 =>
      obtain ⟨hm, hp0, hs0⟩ := getC_some hg
      rw [detachReceiver_drop hg (hr c0 hm hs0)]
      rw [ih (w := dropC w p s) (fun cn hcn hp => hr cn (mem_dropC.mp hcn).1 hp)]
      show (w.conns.filter _).filter _ = _
      rw [List.filter_filter]
      apply List.filter_congr
      intro c _
      by_cases hs : c.sid = s
      · by_cases hp : c.pid = p
        · simp [hp, hs]
        · simp [hp, hs]
      · simp [hs]

theorem subDestroyKeys_panicked (w : World) (s : Nat) (l : List (Nat × Nat)) :
    (subDestroyKeys w s l).panicked = w.panicked := by
  induction l generalizing w with
  | nil => rfl
  | cons x r ih =>
    obtain ⟨k, p⟩ := x
    show (subDestroyKeys (detachReceiver w p s) s r).panicked = _
    rw [ih]; simp

/-- all connections of subscriber `s` removed -/
def dropSid (w : World) (s : Nat) : World := { w with conns := w.conns.filter fun c => c.sid ≠ s }

theorem getC_dropSid (w : World) (s a b : Nat) : getC (dropSid w s) a b = if b = s then none else getC w a b := by
  unfold getC dropSid
  by_cases hap : b = s
  · subst hap
    rw [if_pos rfl, List.find?_eq_none]
    intro c hc
    simp only [List.mem_filter, decide_eq_true_eq] at hc
    simp only [decide_eq_true_eq]
    exact fun hh => hc.2 hh.2
  · rw [if_neg hap, List.find?_filter]
    congr 1
    funext c
    by_cases hc : c.pid = a ∧ c.sid = b
    · have : c.sid ≠ s := fun hh => hap (hc.2 ▸ hh)
      simp [hc, hap]
    · simp [hc]

theorem InvA.failSub_core {s : Nat} (h : InvA cfg none (some s) w) :
    InvA cfg none none (delS (dropSid w s) s) := by
  have gS : ∀ a Q, getS (delS (dropSid w s) s) a = some Q → a ≠ s ∧ getS w a = some Q := by
    intro a Q hq
    rw [getS_delS] at hq
    by_cases hap : a = s
    · rw [if_pos hap] at hq; cases hq
    · rw [if_neg hap] at hq; exact ⟨hap, hq⟩
  have gS2 : ∀ a Q, getS w a = some Q → a ≠ s → getS (delS (dropSid w s) s) a = some Q := by
    intro a Q hq hap
    rw [getS_delS, if_neg hap]; exact hq
  have hmem : ∀ cn, cn ∈ (delS (dropSid w s) s).conns ↔ cn ∈ w.conns ∧ cn.sid ≠ s := by
    intro cn
    show cn ∈ w.conns.filter _ ↔ _
    simp only [List.mem_filter, decide_eq_true_eq]
  have gC : ∀ a b, b ≠ s → getC (delS (dropSid w s) s) a b = getC w a b := by
    intro a b hap
    show getC (dropSid w s) a b = _
    rw [getC_dropSid, if_neg hap]
  constructor
  · exact h.cfgEq
  · intro cn hcn
    obtain ⟨hm, hp⟩ := (hmem cn).mp hcn
    rw [gC _ _ hp]; exact h.uniqC cn hm
  · exact h.sregLen
  · exact h.preg
  · intro i e hi
    obtain ⟨hne, Q0, h2, h3⟩ := h.sreg i e hi
    have hap : e.sid ≠ s := fun hh => hne (by rw [hh])
    exact ⟨by simp, Q0, gS2 _ Q0 h2 hap, h3⟩
  · exact h.palive
  · intro a Q hq hQa
    obtain ⟨hap, h0⟩ := gS a Q hq
    have := h.salive a Q h0 hQa
    exact ⟨this.1, fun _ => this.2 (fun hh => hap (Option.some.inj hh))⟩
  · intro a Q hq
    exact h.sbuf a Q (gS a Q hq).2
  · intro a P hP
    obtain ⟨h1, h2⟩ := h.pconns a P hP
    refine ⟨h1, fun i b hi => ?_⟩
    obtain ⟨hne, Q0, h0, h4⟩ := h2 i b hi
    exact ⟨by simp, Q0, gS2 _ Q0 h0 (fun hh => hne (by rw [hh])), h4⟩
  · intro cn hcn
    obtain ⟨hm, hp⟩ := (hmem cn).mp hcn
    obtain ⟨hP, ⟨Q0, h0⟩⟩ := h.ends cn hm
    exact ⟨hP, ⟨Q0, gS2 _ Q0 h0 hp⟩⟩
  · intro cn hcn hra
    obtain ⟨hm, hp⟩ := (hmem cn).mp hcn
    obtain ⟨Q0, h0, h1⟩ := h.a1 cn hm hra
    exact ⟨Q0, gS2 _ Q0 h0 hp, h1⟩
  · intro a Q hq
    exact h.stor a Q (gS a Q hq).2
  · intro cn hcn hsa
    exact h.a2 cn ((hmem cn).mp hcn).1 hsa
  · intro a P hP hPe i b hi
    obtain ⟨hne, _⟩ := (h.pconns a P hP).2 i b hi
    rw [gC _ _ (fun hh => hne (by rw [hh]))]
    exact h.a2c a P hP hPe i b hi
  · intro cn hcn
    exact h.a3 cn ((hmem cn).mp hcn).1
  · intro cn hcn hsa P Q hP hq hPe hQa
    exact h.virg cn ((hmem cn).mp hcn).1 hsa P Q hP (gS _ Q hq).2 hPe hQa
  · intro a Q hq hQa e he P hP hPa
    obtain ⟨hap, h0⟩ := gS _ Q hq
    rw [gC _ _ hap]
    exact h.k2 a Q h0 hQa e he P hP hPa
  · intro cn hcn Q hq
    exact h.l3 cn ((hmem cn).mp hcn).1 Q (gS _ Q hq).2
  · intro a Q hq
    exact h.l4 a Q (gS a Q hq).2
  · intro cn hcn
    exact h.clog cn ((hmem cn).mp hcn).1
  · intro a Q hq
    exact h.gr a Q (gS a Q hq).2

theorem InvA.failSub_eq {s : Nat} (h : InvA cfg none (some s) w) {S1 : Sub} (hS : getS w s = some S1) :
    delS (subDestroyKeys w s (SlotMap.items S1.storage)) s = delS (dropSid w s) s := by
  have hr : ∀ cn ∈ w.conns, cn.sid = s → cn.sAtt = false := by
    intro cn hcn hp
    cases hsa : cn.sAtt with
    | false => rfl
    | true =>
      obtain ⟨P, hP, i, hi⟩ := h.a2 cn hcn hsa
      have := ((h.pconns _ P hP).2 i _ hi).1
      rw [hp] at this; exact absurd rfl this
  obtain ⟨f1, f2⟩ := subDestroyKeys_frame w s (SlotMap.items S1.storage)
  have hc := subDestroyKeys_conns s (SlotMap.items S1.storage) hr
  have hc2 : (subDestroyKeys w s (SlotMap.items S1.storage)).conns = w.conns.filter fun c => c.sid ≠ s := by
    rw [hc]
    apply List.filter_congr
    intro c hcm
    by_cases hp : c.sid = s
    · have hra : c.rAtt = true := by
        rcases h.a3 c hcm with h1 | h1
        · rw [hr c hcm hp] at h1; cases h1
        · exact h1
      obtain ⟨k, hk⟩ := h.attached_items hS c hcm hp hra
      have : c.pid ∈ (SlotMap.items S1.storage).map (·.2) := List.mem_map.mpr ⟨(k, c.pid), hk, rfl⟩
      simp only [hp, this, and_self, not_true_eq_false, decide_false, ne_eq, not_true_eq_false, decide_false]
    · simp [hp]
  have hpan := subDestroyKeys_panicked w s (SlotMap.items S1.storage)
  unfold delS dropSid
  rw [f2, hc2, f1.pubs, f1.pubReg, f1.subReg, f1.cfg, hpan]

theorem InvA.failSub {s : Nat} (h : InvA cfg none (some s) w) {S1 : Sub} (hS : getS w s = some S1) :
    InvA cfg none none (delS (subDestroyKeys w s (SlotMap.items S1.storage)) s) := by
  rw [h.failSub_eq hS]; exact h.failSub_core

end Iox2.PubSub.C01P
