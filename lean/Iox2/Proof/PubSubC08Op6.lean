/-
C08 helper: the API operations preserve the invariant (part 6: probe).
-/
import Iox2.Proof.PubSubC08Op5
set_option linter.unusedSimpArgs false
set_option linter.unusedVariables false
namespace Iox2.PubSub.C08
open Iox2.PubSub
open Iox2.C16.SlotMapP (abs)
attribute [-simp] List.getD_eq_getElem?_getD

/-- records that differ only in the pool and the loan counter -/
def PoolCntEq (P P' : Pub) : Prop := ∃ f r n, P' = { P with free := f, rc := r, loanCnt := n }

theorem PoolCntEq.refl (P : Pub) : PoolCntEq P P := ⟨P.free, P.rc, P.loanCnt, rfl⟩
theorem PoolCntEq.trans {a b c : Pub} (h1 : PoolCntEq a b) (h2 : PoolCntEq b c) : PoolCntEq a c := by
  obtain ⟨f1, r1, n1, rfl⟩ := h1
  obtain ⟨f2, r2, n2, rfl⟩ := h2
  exact ⟨f2, r2, n2, rfl⟩

/-- state of the probe: `acc` = chunks taken so far -/
structure ProbeSt (P0 P : Pub) (acc : List Nat) : Prop where
  eq : PoolCntEq P0 P
  fr : FreeOK P
  nd : acc.Nodup
  taken : ∀ c ∈ acc, P.rc.getD c 0 = 1 ∧ P0.rc.getD c 0 = 0
  other : ∀ x, x ∉ acc → P.rc.getD x 0 = P0.rc.getD x 0
  cnt : P.loanCnt = P0.loanCnt + acc.length
  freeLen : P.free.length + acc.length = P0.free.length

theorem probeLoans_spec (P0 : Pub) (hb : P0.maxLoans ≤ P0.free.length + P0.loanCnt) :
    ∀ (fuel : Nat) (P : Pub) (acc : List Nat), ProbeSt P0 P acc → P0.maxLoans < fuel + P.loanCnt → 0 < fuel →
      ProbeSt P0 (probeLoans P fuel acc).1 (probeLoans P fuel acc).2.1 ∧
      (probeLoans P fuel acc).2.2 = "ExceedsMaxLoans" ∧
      (probeLoans P fuel acc).1.loanCnt = max P0.maxLoans P.loanCnt ∧
      (probeLoans P fuel acc).1.maxLoans = P0.maxLoans := by
  intro fuel
  induction fuel with
  | zero =>
    intro P acc st hf hpos
    omega
  | succ fuel ih =>
    intro P acc st hf _
    obtain ⟨f, r, n, e⟩ := st.eq
    have hm : P.maxLoans = P0.maxLoans := by rw [e]
    rw [probeLoans]
    by_cases hlim : P.loanCnt ≥ P.maxLoans
    · rw [if_pos hlim]
      refine ⟨st, rfl, ?_, hm⟩
      show P.loanCnt = _
      rw [hm] at hlim
      omega
    · rw [if_neg hlim]
      cases hfree : P.free with
      | nil =>
        exfalso
        have h1 := st.cnt; have h2 := st.freeLen
        rw [hfree] at h2
        simp at h2
        rw [hm] at hlim
        omega
      | cons c rest =>
        dsimp only
        have hcf : c ∈ P.free := by rw [hfree]; simp
        obtain ⟨hcn, hc0⟩ := st.fr.freeRc c hcf
        have hcl : c < P.rc.length := by rw [st.fr.rcLen]; exact hcn
        have hnd := st.fr.freeNodup
        rw [hfree] at hnd
        have hnd' := List.nodup_cons.mp hnd
        have hcacc : c ∉ acc := by
          intro hm'; have := (st.taken c hm').1; omega
        have hrc : ∀ x, (P.rc.set c 1).getD x 0 = if x = c then 1 else P.rc.getD x 0 := by
          intro x; rw [getD_set_nat]; by_cases hx : x = c <;> simp [hx, hcl]
        have st' : ProbeSt P0 { P with free := rest, rc := P.rc.set c 1, loanCnt := P.loanCnt + 1 } (acc ++ [c]) := by
          refine ⟨st.eq.trans ⟨rest, P.rc.set c 1, P.loanCnt + 1, rfl⟩, ⟨by simp [st.fr.rcLen], hnd'.2, ?_, ?_⟩, ?_, ?_, ?_, ?_, ?_⟩
          · intro x hx
            have hx' : x ∈ P.free := by rw [hfree]; simp [hx]
            have := st.fr.freeRc x hx'
            refine ⟨this.1, ?_⟩
            show (P.rc.set c 1).getD x 0 = 0
            rw [hrc]
            have hne : x ≠ c := by intro e'; subst e'; exact hnd'.1 hx
            simp [hne, this.2]
          · intro x hx hz
            have hz' : (P.rc.set c 1).getD x 0 = 0 := hz
            rw [hrc] at hz'
            by_cases hxc : x = c
            · simp [hxc] at hz'
            · simp only [hxc, if_false] at hz'
              have := st.fr.rcFree x hx hz'
              rw [hfree] at this
              rcases List.mem_cons.mp this with e' | hm'
              · exact absurd e' hxc
              · exact hm'
          · rw [List.nodup_append]
            refine ⟨st.nd, by simp, ?_⟩
            intro a ha b hb' e'; simp at hb'; subst hb'; subst e'; exact hcacc ha
          · intro x hx
            show (P.rc.set c 1).getD x 0 = 1 ∧ _
            rw [hrc]
            rcases List.mem_append.mp hx with hx | hx
            · have := st.taken x hx
              have hne : x ≠ c := fun e' => hcacc (e' ▸ hx)
              simp [hne, this]
            · simp at hx; subst hx
              refine ⟨by simp, ?_⟩
              rw [← st.other x hcacc]; exact hc0
          · intro x hx
            show (P.rc.set c 1).getD x 0 = _
            rw [hrc]
            have hx1 : x ∉ acc := fun hm' => hx (by simp [hm'])
            have hx2 : x ≠ c := fun e' => hx (by simp [e'])
            simp [hx2, st.other x hx1]
          · show P.loanCnt + 1 = _
            have := st.cnt; simp; omega
          · show rest.length + (acc ++ [c]).length = _
            have := st.freeLen; rw [hfree] at this; simp at this ⊢; omega
        obtain ⟨k1, k2, k3, k4⟩ := ih _ (acc ++ [c]) st' (by show P0.maxLoans < fuel + (P.loanCnt + 1); omega)
          (by rw [hm] at hlim; omega)
        refine ⟨k1, k2, ?_, k4⟩
        rw [k3]
        show max P0.maxLoans (P.loanCnt + 1) = _
        rw [hm] at hlim
        omega

/-- returning the probe loans -/
theorem probeRelease_spec (P0 : Pub) :
    ∀ (rem : List Nat) (P : Pub), ProbeSt P0 P rem →
      ProbeSt P0 (rem.foldl (fun (P : Pub) c => { P.releaseChunk c with loanCnt := P.loanCnt - 1 }) P) [] := by
  intro rem
  induction rem with
  | nil => intro P st; exact st
  | cons c r ih =>
    intro P st
    simp only [List.foldl_cons]
    apply ih
    have hpool := releaseChunk_pool P c
    obtain ⟨f, rr, e⟩ := hpool
    have hrc := rc_releaseChunk P c
    have hnd' := List.nodup_cons.mp st.nd
    have hfr := freeOK_releaseChunk st.fr c
    have hc1 := (st.taken c (by simp)).1
    have hfree : (P.releaseChunk c).free = c :: P.free := by
      unfold Pub.releaseChunk; dsimp only; rw [if_pos hc1]
    refine ⟨st.eq.trans ⟨(P.releaseChunk c).free, (P.releaseChunk c).rc, P.loanCnt - 1, by rw [e]⟩,
      ⟨hfr.rcLen, hfr.freeNodup, hfr.freeRc, hfr.rcFree⟩, hnd'.2, ?_, ?_, ?_, ?_⟩
    · intro x hx
      have := st.taken x (by simp [hx])
      show (P.releaseChunk c).rc.getD x 0 = 1 ∧ _
      rw [hrc]
      have hne : x ≠ c := fun e' => hnd'.1 (e' ▸ hx)
      simp [hne, this]
    · intro x hx
      show (P.releaseChunk c).rc.getD x 0 = _
      rw [hrc]
      by_cases hxc : x = c
      · subst hxc
        have := st.taken x (by simp)
        simp [this]
      · simp only [hxc, if_false]
        exact st.other x (by simp [hxc, hx])
    · show P.loanCnt - 1 = _
      have := st.cnt; simp at this; omega
    · show (P.releaseChunk c).free.length + r.length = _
      rw [hfree]
      have := st.freeLen; simp at this ⊢; omega

theorem probe_str (n : Nat) :
    toString n ++ toString ":" ++ toString "ExceedsMaxLoans" = toString n ++ toString ":ExceedsMaxLoans" := by
  rw [String.append_assoc]
  rfl

theorem step_probe {cfg : Cfg} (hpre : cfg.prealloc = none) {w : World} (h : Inv cfg w) (p : Nat) :
    Inv cfg (step w (.probe p)).1 ∧ (step w (.probe p)).1.panicked = w.panicked ∧
    (∀ P, getP w p = some P → P.alive = true →
      (step w (.probe p)).2 = s!"{P.maxLoans - P.loans.length}:ExceedsMaxLoans") := by
  simp only [step]
  cases hp : getP w p with
  | none => exact ⟨h, rfl, fun P hP => by cases hP⟩
  | some P0 =>
    dsimp only
    by_cases hal : P0.alive = true
    case neg =>
      have : (!P0.alive) = true := by simpa using hal
      rw [if_pos this]
      exact ⟨h, rfl, fun P hP ha => by cases hP; exact absurd ha hal⟩
    have : ¬ ((!P0.alive) = true) := by simp [hal]
    rw [if_neg this]
    obtain ⟨h1, P, hp1, epool, hbound⟩ := after_retrieve hpre h hp hal
    obtain ⟨f1, f2, f3, f4, f5, f6, f7, f8, f9, f10, f11, f12, f13, f14, f15⟩ := epool.fields
    have hal1 : P.alive = true := f1.trans hal
    have M := (h1.p p P hp1).2 hal1
    have hcnt : P.loanCnt = P.loans.length := by have := M.loanCnt; simpa using this
    have hnp1 : (retrieveReturned w p).panicked = w.panicked := (retrieveReturned_P w p).frame.2.2.2.2.1
    rw [hp1]
    dsimp only
    have st0 : ProbeSt P P [] :=
      ⟨.refl _, M.fr, List.nodup_nil, fun c hc => (by cases hc), fun _ _ => rfl, rfl, rfl⟩
    have hn : P.maxLoans ≤ P.n := by
      have := M.nEq; unfold Cfg.nChunks Cfg.fullChunks at this; rw [hpre] at this; dsimp only at this; omega
    obtain ⟨k1, k2, k3, k4⟩ := probeLoans_spec P (by rw [hcnt]; exact hbound) (P.n + 1) P [] st0 (by omega) (by omega)
    have k5 := probeRelease_spec P _ _ k1
    have hlen : (probeLoans P (P.n + 1) []).2.1.length = P.maxLoans - P.loans.length := by
      have := k1.cnt
      rw [k3] at this
      omega
    generalize hres : probeLoans P (P.n + 1) [] = res at k1 k2 k3 k4 k5 hlen
    obtain ⟨P', taken, why⟩ := res
    dsimp only at k1 k2 k3 k4 k5 hlen ⊢
    generalize hP2 : taken.foldl (fun (P : Pub) c => { P.releaseChunk c with loanCnt := P.loanCnt - 1 }) P' = P2 at k5
    refine ⟨?_, hnp1, fun Q hQ _ => ?_⟩
    · -- the publisher record is as before, up to the order of the free list
      obtain ⟨fr, rr, nn, e⟩ := k5.eq
      have hsim : PubSim P P2 := by rw [e]; exact ⟨rfl, rfl, rfl, rfl, rfl⟩
      refine ((h1.toP p).setP_only hp1 P2 hsim (fun hne => absurd rfl hne) (fun _ => ?_)).toInv
      simp only [if_true]
      have hrc : ∀ x, P2.rc.getD x 0 = P.rc.getD x 0 := fun x => k5.other x (by simp)
      have hlc : P2.loanCnt = P.loanCnt := by have := k5.cnt; simpa using this
      have hf : P2.loans = P.loans ∧ P2.hist = P.hist ∧ P2.conns = P.conns ∧ P2.n = P.n ∧ P2.maxLoans = P.maxLoans := by
        rw [e]; exact ⟨rfl, rfl, rfl, rfl, rfl⟩
      obtain ⟨g1, g2, g3, g4, g5⟩ := hf
      refine ⟨k5.fr, by rw [g4, g5]; exact M.nEq, fun x => ?_, by rw [hlc, g1]; exact M.loanCnt, by rw [g2]; exact M.histLen,
        by rw [g1]; exact M.labels, fun lc hlc => ?_, fun hst => (by cases hst), by rw [g2]; exact M.histNodup⟩
      · rw [hrc, g1, g2, g3]; exact M.rcEq x
      · rw [hrc]; exact M.loanRc lc (g1 ▸ hlc)
    · cases hQ
      rw [k2, hlen, f4, f11]
      exact probe_str _

end Iox2.PubSub.C08
