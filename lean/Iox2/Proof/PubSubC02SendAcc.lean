/-
C02 — accounting of `.send` (payload write / history / drop of the `SampleMut`) and `.probe`.
-/
import Iox2.Proof.PubSubC02PubAcc

namespace Iox2.PubSub.C02P
open Iox2.PubSub
open Iox2.C16.SlotMapP (abs WInv)

/-! ### general facts about `PubAcc` -/

/-- `PubAcc` reads the counters pointwise, the free list as a duplicate-free set, and the fields
`n`, `loans`, `hist`, `conns` -/
theorem PubAcc.of_eqv {A : GA} {w : World} {p : Nat} {P P' : Pub} (h : PubAcc A w p P)
    (hrc : ∀ x, P'.rc.getD x 0 = P.rc.getD x 0) (hlen : P'.rc.length = P.rc.length)
    (hfn : P'.free.Nodup) (hfm : ∀ x, x ∈ P'.free ↔ x ∈ P.free) (hn : P'.n = P.n)
    (hl : P'.loans = P.loans) (hh : P'.hist = P.hist) (hc : P'.conns = P.conns) :
    PubAcc A w p P' := by
  refine ⟨⟨by rw [hlen, hn]; exact h.free.rcLen, hfn, ?_⟩, ?_, ?_, ?_, ?_, ?_, ?_, ?_⟩
  · intro c; rw [hfm, hrc, hn]; exact h.free.freeIff c
  · intro c hc'
    rw [hrc]; unfold refCnt; rw [hl, hh, hc]; rw [hn] at hc'
    exact h.rcEq c hc'
  · intro l c hm; rw [hl] at hm; rw [hrc, hn]; exact h.loans l c hm
  · rw [hl]; exact h.loanLbl
  · rw [hh]; exact h.histNodup
  · rw [hh, hn]; exact h.histLt
  · rw [hn]; exact h.xLt
  · intro c hx hf; rw [hrc]; exact h.xFresh c hx hf

/-- the freshness flag of the ghost may always be dropped -/
theorem PubAcc.unfresh {A : GA} {w : World} {p : Nat} {P : Pub} (h : PubAcc A w p P) :
    PubAcc { A with xFresh := false } w p P :=
  ⟨h.free, h.rcEq, h.loans, h.loanLbl, h.histNodup, h.histLt, h.xLt, fun _ _ hf => by cases hf⟩

theorem extra_self {A : GA} {p c : Nat} (hx : A.xp = some (p, c)) : extra A p c = 1 := by
  simp [extra, hx]

theorem filter_single (c c' : Nat) :
    ([c].filter (· = c')).length = if c = c' then 1 else 0 := by
  by_cases h : c = c' <;> simp [h]

/-- the in-flight chunk is not loaned -/
theorem PubAcc.x_not_loaned {A : GA} {w : World} {p c : Nat} {P : Pub} (h : PubAcc A w p P)
    (hx : A.xp = some (p, c)) (l : Nat) : (l, c) ∉ P.loans := by
  intro hm
  obtain ⟨hlt, h1⟩ := h.loans l c hm
  have hr := h.rcEq c hlt
  rw [extra_self hx] at hr
  unfold refCnt at hr
  have := length_filter_pos (q := fun x => decide (x.2 = c)) hm (by simp)
  omega

/-- `add_sample_to_history`, first half: the in-flight chunk gets a history reference -/
theorem PubAcc.hist_push {A : GA} {w : World} {p c : Nat} {P : Pub} (h : PubAcc A w p P)
    (hx : A.xp = some (p, c)) (hnh : c ∉ P.hist) :
    PubAcc { A with xFresh := false } w p { P.borrowChunk c with hist := P.hist ++ [c] } := by
  have hclt := h.xLt c hx
  have hr := h.rcEq c hclt
  rw [extra_self hx] at hr
  have hrl : c < P.rc.length := by rw [h.free.rcLen]; exact hclt
  refine ⟨(h.free.borrow (fun _ => by omega)).congr rfl rfl rfl, ?_, ?_, h.loanLbl, ?_, ?_, h.xLt,
    fun _ _ hf => by cases hf⟩
  · intro c' hc'
    show (P.rc.set c (P.rc.getD c 0 + 1)).getD c' 0 = refCnt w p _ c' + extra A p c'
    rw [getD_set_nat]
    have h2 := h.rcEq c' hc'
    unfold refCnt at h2 ⊢
    dsimp only
    simp only [borrowChunk_loans, borrowChunk_conns, List.filter_append, List.length_append,
      filter_single]
    by_cases hcc : c = c'
    · subst hcc
      simp only [true_and, hrl, if_true]
      omega
    · have h3 : ¬ (c = c' ∧ c < P.rc.length) := fun h => hcc h.1
      simp only [hcc, false_and, if_false]
      omega
  · intro l c' hm
    have hm' : (l, c') ∈ P.loans := hm
    obtain ⟨h1, h2⟩ := h.loans l c' hm'
    refine ⟨h1, ?_⟩
    show (P.rc.set c (P.rc.getD c 0 + 1)).getD c' 0 = 1
    rw [getD_set_nat]
    have hcc : c ≠ c' := by
      intro e; subst e; exact h.x_not_loaned hx l hm'
    have h3 : ¬ (c = c' ∧ c < P.rc.length) := fun h => hcc h.1
    simp only [h3, if_false]; exact h2
  · show (P.hist ++ [c]).Nodup
    rw [List.nodup_append]
    refine ⟨h.histNodup, by simp, ?_⟩
    intro a ha b hb
    simp at hb; subst hb
    intro e; subst e; exact hnh ha
  · intro c' hm
    have hm' : c' ∈ P.hist ++ [c] := hm
    show c' < P.n
    rcases List.mem_append.mp hm' with h1 | h1
    · exact h.histLt c' h1
    · simp at h1; subst h1; exact hclt

/-- `add_sample_to_history`, second half: the oldest history sample is released -/
theorem PubAcc.hist_pop {A : GA} {w : World} {p old : Nat} {P : Pub} {rest : List Nat}
    (h : PubAcc A w p P) (hh : P.hist = old :: rest) :
    PubAcc A w p ({ P with hist := rest }.releaseChunk old) := by
  have hold : old ∈ P.hist := by rw [hh]; simp
  have holt := h.histLt old hold
  have hr := h.rcEq old holt
  unfold refCnt at hr
  have hhp := length_filter_pos (q := fun x => decide (x = old)) hold (by simp)
  have hrl : old < P.rc.length := by rw [h.free.rcLen]; exact holt
  have hnd := h.histNodup
  rw [hh, List.nodup_cons] at hnd
  have hfr : FreeOK { P with hist := rest } := h.free.congr rfl rfl rfl
  have hfilt : ∀ c', (P.hist.filter (· = c')).length =
      (if old = c' then 1 else 0) + (rest.filter (· = c')).length := by
    intro c'; rw [hh, List.filter_cons]
    by_cases hcc : old = c'
    · simp [hcc]; omega
    · simp [hcc]
  refine ⟨hfr.release holt (by show 1 ≤ P.rc.getD old 0; omega), ?_, ?_, ?_, ?_, ?_, ?_, ?_⟩
  · intro c' hc'
    have hc'' : c' < P.n := by simpa using hc'
    rw [releaseChunk_rc, getD_set_nat]
    show (if old = c' ∧ old < P.rc.length then P.rc.getD old 0 - 1 else P.rc.getD c' 0) = _
    have h2 := h.rcEq c' hc''
    have h4 := hfilt c'
    unfold refCnt at h2 ⊢
    rw [releaseChunk_hist, releaseChunk_conns, releaseChunk_loans]
    by_cases hcc : old = c'
    · subst hcc
      simp only [true_and, hrl, if_true] at h4 ⊢
      omega
    · have h3 : ¬ (old = c' ∧ old < P.rc.length) := fun h => hcc h.1
      simp only [hcc, false_and, if_false] at h4 ⊢
      omega
  · intro l c' hm
    have hm' : (l, c') ∈ P.loans := by simpa using hm
    obtain ⟨h1, h2⟩ := h.loans l c' hm'
    refine ⟨by simpa using h1, ?_⟩
    rw [releaseChunk_rc, getD_set_nat]
    show (if old = c' ∧ old < P.rc.length then P.rc.getD old 0 - 1 else P.rc.getD c' 0) = 1
    have hcc : old ≠ c' := by
      intro e; subst e
      have := length_filter_pos (q := fun x => decide (x.2 = old)) hm' (by simp)
      omega
    have h3 : ¬ (old = c' ∧ old < P.rc.length) := fun h => hcc h.1
    simp only [h3, if_false]; exact h2
  · simpa using h.loanLbl
  · simpa using hnd.2
  · intro c' hm
    have hm' : c' ∈ rest := by simpa using hm
    have : c' < P.n := h.histLt c' (by rw [hh]; exact List.mem_cons_of_mem _ hm')
    simpa using this
  · intro c' hx'; simpa using h.xLt c' hx'
  · intro c' hx' hf
    have h2 := h.xFresh c' hx' hf
    rw [releaseChunk_rc, getD_set_nat]
    show (if old = c' ∧ old < P.rc.length then P.rc.getD old 0 - 1 else P.rc.getD c' 0) = 1
    have hcc : old ≠ c' := by
      intro e; subst e
      have := extra_self hx'
      omega
    have h3 : ¬ (old = c' ∧ old < P.rc.length) := fun h => hcc h.1
    simp only [h3, if_false]; exact h2

/-! ### `.send` -/

/-- `.send`, first step: the payload is written, the loan becomes the in-flight `SampleMut` -/
theorem send_start_inv {w : World} {p l l' c tag : Nat} {P : Pub}
    (hi : Inv {} {} w) (hP : getP w p = some P) (hl : P.loans.find? (·.1 = l) = some (l', c)) :
    Inv {} { xp := some (p, c), xFresh := true }
      (setP w p { P with payload := P.payload.set c tag, loans := P.loans.filter (·.1 ≠ l) }) := by
  obtain ⟨hll, hmem⟩ := find_label hl
  have hex := hi.ex_of_loan hP hmem
  have pa := hi.pubAcc hP hex
  obtain ⟨hclt, hc1⟩ := pa.loans l c hmem
  have hcount := filter_label_count pa.loanLbl hmem
  have hr := pa.rcEq c hclt
  rw [extra_none] at hr
  unfold refCnt at hr
  have hlc := length_filter_pos (q := fun x => decide (x.2 = c)) hmem (by simp)
  have hcc0 : connCnt w p P.conns c = 0 := by omega
  refine hi.update_P' hP ?_ ?_ rfl rfl ?_ ?_ ?_
  · intro q c' _ h; cases h
  · intro q c' hq h
    simp only [Option.some.injEq, Prod.mk.injEq] at h
    exact hq h.1.symm
  · intro s S h hS ha hh hpid
    show (P.payload.set c tag).getD h.chunk 0 = P.payload.getD h.chunk 0
    rw [getD_set_nat]
    have hne : c ≠ h.chunk := by
      intro e
      obtain ⟨_, h2, _⟩ := hi.acc.subs s S hS
      have hk := h2 h hh
      rw [hpid] at hk
      obtain ⟨⟨cn, hC, _⟩, _⟩ := (hi.top.subs s S hS).stor _ _ hk
      obtain ⟨hpid', _, _⟩ := getC_some hC
      have := live_flight_counted hi hP hex hS ha hC (c := c) (by
        unfold flight
        apply List.mem_append_right
        unfold heldOf
        exact List.mem_map.mpr ⟨h, List.mem_filter.mpr ⟨hh, by simp [hpid, hpid']⟩, e.symm⟩)
      omega
    have h3 : ¬ (c = h.chunk ∧ c < P.payload.length) := fun h => hne h.1
    simp only [h3, if_false]
  · intro _
    refine ⟨pa.free.congr rfl rfl rfl, ?_, ?_, filter_label_nodup l pa.loanLbl, pa.histNodup,
      pa.histLt, ?_, ?_⟩
    · intro c' hc'
      replace hc' : c' < P.n := hc'
      show P.rc.getD c' 0 = refCnt _ p _ c' + extra _ p c'
      have h1 := hcount c'
      have h2 := pa.rcEq c' hc'
      rw [extra_none] at h2
      have hcn : ∀ X : Pub, connCnt (setP w p X) p P.conns c' = connCnt w p P.conns c' :=
        fun X => connCnt_congr (fun s _ => rfl)
      unfold refCnt at h2 ⊢
      dsimp only
      rw [hcn]
      by_cases hcc : c' = c
      · subst hcc
        rw [extra_self rfl]
        simp only [if_true] at h1
        omega
      · have he : extra { xp := some (p, c), xFresh := true } p c' = 0 := by
          have : ¬ c = c' := fun e => hcc e.symm
          simp [extra, this]
        rw [he]
        simp only [hcc, if_false] at h1
        omega
    · intro l'' c'' hm0
      have hm : (l'', c'') ∈ P.loans.filter (·.1 ≠ l) := hm0
      obtain ⟨hm1, _⟩ := mem_filter_label hm
      exact pa.loans l'' c'' hm1
    · intro c' hx
      simp only [Option.some.injEq, Prod.mk.injEq, true_and] at hx
      subst hx; exact hclt
    · intro c' hx _
      simp only [Option.some.injEq, Prod.mk.injEq, true_and] at hx
      subst hx; exact hc1
  · intro h; rw [hex] at h; cases h

/-- `add_sample_to_history` (the `let P := …` block of `.send`) -/
def sendHist (h : Nat) (P : Pub) (c tag : Nat) : Pub :=
  let seq := P.seq
  let P := { P with seq := P.seq + 1, chunkSeq := P.chunkSeq.set c seq, sent := P.sent ++ [tag] }
  let P :=
    if h = 0 then P else
    let P := P.borrowChunk c
    if P.hist.length ≥ h then
      match P.hist with
      | [] => { P with hist := [c] }
      | old :: rest => { P with hist := rest ++ [c] }.releaseChunk old
    else { P with hist := P.hist ++ [c] }
  P

theorem sendHist_fields (h : Nat) (P : Pub) (c tag : Nat) :
    ptop (sendHist h P c tag) = ptop P ∧ (sendHist h P c tag).n = P.n ∧
    (sendHist h P c tag).payload = P.payload ∧ (sendHist h P c tag).loans = P.loans := by
  simp only [sendHist]
  split
  · exact ⟨rfl, rfl, rfl, rfl⟩
  · split
    · split
      · exact ⟨rfl, rfl, rfl, rfl⟩
      · exact ⟨by simp [ptop], by simp, by simp, by simp⟩
    · exact ⟨rfl, rfl, rfl, rfl⟩

theorem sendHist_acc {A : GA} {w : World} {p c : Nat} {P : Pub} (h tag : Nat)
    (pa : PubAcc A w p P) (hx : A.xp = some (p, c)) (hnh : c ∉ P.hist) :
    PubAcc { A with xFresh := false } w p (sendHist h P c tag) := by
  have pa0 : PubAcc A w p
      { P with seq := P.seq + 1, chunkSeq := P.chunkSeq.set c P.seq, sent := P.sent ++ [tag] } :=
    pa.of_eqv (fun _ => rfl) rfl pa.free.freeNodup (fun _ => Iff.rfl) rfl rfl rfl rfl
  have pa2 := pa0.hist_push hx hnh
  simp only [sendHist]
  split
  · exact pa0.unfresh
  · rename_i h0
    split
    · rename_i hlen
      split
      · rename_i heq
        exfalso
        have heq' : P.hist = [] := heq
        have hlen' : P.hist.length ≥ h := hlen
        rw [heq'] at hlen'
        simp at hlen'
        omega
      · rename_i old rest heq
        have heq' : P.hist = old :: rest := heq
        exact pa2.hist_pop (old := old) (rest := rest ++ [c])
          (by show P.hist ++ [c] = _; rw [heq']; rfl)
    · exact pa2

/-- `.send`, `add_sample_to_history` (the whole `let P := …` block of the model between `pubUpdate`
and `retrieveReturned`); the term is copied from `step` -/
theorem send_hist_inv {w : World} {p c tag : Nat} {P : Pub}
    (hi : Inv {} { xp := some (p, c), xFresh := true } w) (hP : getP w p = some P) :
    Inv {} { xp := some (p, c), xFresh := false }
      (setP w p
        (let seq := P.seq
         let P := { P with seq := P.seq + 1, chunkSeq := P.chunkSeq.set c seq, sent := P.sent ++ [tag] }
         let P :=
           if w.cfg.hist = 0 then P else
           let P := P.borrowChunk c
           if P.hist.length ≥ w.cfg.hist then
             match P.hist with
             | [] => { P with hist := [c] }
             | old :: rest => { P with hist := rest ++ [c] }.releaseChunk old
           else { P with hist := P.hist ++ [c] }
         P)) ∧
    (∀ s, some s ∈ P.conns → usedBit w p s c = false) := by
  show Inv {} { xp := some (p, c), xFresh := false } (setP w p (sendHist w.cfg.hist P c tag)) ∧ _
  obtain ⟨f1, f2, f3, f4⟩ := sendHist_fields w.cfg.hist P c tag
  have key : P.ex = true → c ∉ P.hist ∧ connCnt w p P.conns c = 0 := by
    intro hex
    have pa := hi.pubAcc hP hex
    have hclt := pa.xLt c rfl
    have h1 := pa.xFresh c rfl rfl
    have hr := pa.rcEq c hclt
    rw [extra_self rfl] at hr
    unfold refCnt at hr
    refine ⟨?_, by omega⟩
    intro hm
    have := length_filter_pos (q := fun x => decide (x = c)) hm (by simp)
    omega
  refine ⟨?_, ?_⟩
  · refine hi.update_P' hP ?_ ?_ f1 f2 ?_ ?_ ?_
    · intro q c' hq h
      simp only [Option.some.injEq, Prod.mk.injEq] at h
      exact hq h.1.symm
    · intro q c' hq h
      simp only [Option.some.injEq, Prod.mk.injEq] at h
      exact hq h.1.symm
    · intro s S h _ _ _ _; rw [f3]
    · intro hex
      have pa := hi.pubAcc hP hex
      have := sendHist_acc w.cfg.hist tag pa rfl (key hex).1
      refine PubAcc.congr this ?_
      intro s x _; rfl
    · intro hex; rw [f4]; exact (hi.acc.pubs p P hP).2 hex
  · intro s hs
    have hex := hi.top.ex_of_mem hP hs
    exact connCnt_zero (key hex).2 hs

/-- `.send`, last step: the `SampleMut` is dropped (`return_loaned_chunk`) -/
theorem send_finish_inv {w : World} {p c : Nat} {P : Pub} {f : Bool}
    (hi : Inv {} { xp := some (p, c), xFresh := f } w) (hP : getP w p = some P) :
    Inv {} {} (setP w p { P.releaseChunk c with loanCnt := P.loanCnt - 1 }) := by
  refine hi.update_P' hP ?_ ?_ ?_ ?_ ?_ ?_ ?_
  · intro q c' hq h
    simp only [Option.some.injEq, Prod.mk.injEq] at h
    exact hq h.1.symm
  · intro q c' _ h; cases h
  · simp [ptop]
  · simp
  · intro s S h _ _ _ _; simp
  · intro hex
    have pa := hi.pubAcc hP hex
    have hclt := pa.xLt c rfl
    have hr := pa.rcEq c hclt
    rw [extra_self rfl] at hr
    have hrl : c < P.rc.length := by rw [pa.free.rcLen]; exact hclt
    have hcn : ∀ X : Pub, ∀ c', connCnt (setP w p X) p P.conns c' = connCnt w p P.conns c' :=
      fun X c' => connCnt_congr (fun s _ => rfl)
    refine ⟨(pa.free.release hclt (by omega)).congr rfl rfl rfl, ?_, ?_, by simpa using pa.loanLbl,
      by simpa using pa.histNodup, by simpa using pa.histLt, ?_, ?_⟩
    · intro c' hc'
      replace hc' : c' < P.n := by simpa using hc'
      show (P.releaseChunk c).rc.getD c' 0 = refCnt _ p _ c' + extra {} p c'
      rw [releaseChunk_rc, getD_set_nat, extra_none]
      have h2 := pa.rcEq c' hc'
      unfold refCnt at hr h2 ⊢
      dsimp only
      rw [releaseChunk_hist, releaseChunk_conns, releaseChunk_loans, hcn]
      by_cases hcc : c = c'
      · subst hcc
        simp only [true_and, hrl, if_true]
        omega
      · have he : extra { xp := some (p, c), xFresh := f } p c' = 0 := by simp [extra, hcc]
        rw [he] at h2
        simp only [hcc, false_and, if_false]
        omega
    · intro l c' hm0
      have hm : (l, c') ∈ P.loans := by simpa using hm0
      obtain ⟨h1, h2⟩ := pa.loans l c' hm
      refine ⟨by simpa using h1, ?_⟩
      show (P.releaseChunk c).rc.getD c' 0 = 1
      rw [releaseChunk_rc, getD_set_nat]
      have hcc : c ≠ c' := by
        intro e; subst e; exact pa.x_not_loaned rfl l hm
      simp only [hcc, false_and, if_false]; exact h2
    · intro c' h; cases h
    · intro c' h; cases h
  · intro hex
    show (P.releaseChunk c).loans = []
    rw [releaseChunk_loans]; exact (hi.acc.pubs p P hP).2 hex

/-- the `let P := …` block of `.send` is `sendHist` -/
theorem sendHist_eq (h : Nat) (P : Pub) (c tag : Nat) :
    (let seq := P.seq
     let P := { P with seq := P.seq + 1, chunkSeq := P.chunkSeq.set c seq, sent := P.sent ++ [tag] }
     let P :=
       if h = 0 then P else
       let P := P.borrowChunk c
       if P.hist.length ≥ h then
         match P.hist with
         | [] => { P with hist := [c] }
         | old :: rest => { P with hist := rest ++ [c] }.releaseChunk old
       else { P with hist := P.hist ++ [c] }
     P) = sendHist h P c tag := rfl

/-! ### `.probe` -/

/-- what `probeLoans` does to the publisher: the chunks `T` are taken from the head of the free
list and their counters are set to one -/
structure ProbeRel (P P₂ : Pub) (T : List Nat) : Prop where
  free : P.free = T ++ P₂.free
  rcLen : P₂.rc.length = P.rc.length
  rc : (∀ t ∈ T, t < P.rc.length) → ∀ x, P₂.rc.getD x 0 = if x ∈ T then 1 else P.rc.getD x 0
  n : P₂.n = P.n
  loans : P₂.loans = P.loans
  hist : P₂.hist = P.hist
  conns : P₂.conns = P.conns
  top : ptop P₂ = ptop P
  payload : P₂.payload = P.payload

theorem ProbeRel.refl (P : Pub) : ProbeRel P P [] :=
  ⟨rfl, rfl, fun _ x => by simp, rfl, rfl, rfl, rfl, rfl, rfl⟩

theorem ProbeRel.step {P P₂ : Pub} {T : List Nat} {c : Nat} {rest : List Nat} {k : Nat}
    (hf : P.free = c :: rest)
    (h : ProbeRel { P with free := rest, rc := P.rc.set c 1, loanCnt := k } P₂ T) :
    ProbeRel P P₂ (c :: T) := by
  refine ⟨?_, ?_, ?_, h.n, h.loans, h.hist, h.conns, h.top, h.payload⟩
  · rw [hf]; have := h.free; simp only at this; rw [this]; rfl
  · have := h.rcLen; simp only [List.length_set] at this; exact this
  · intro hlt x
    have h1 := h.rc (by
      intro t ht
      show t < (P.rc.set c 1).length
      rw [List.length_set]
      exact hlt t (List.mem_cons_of_mem _ ht)) x
    have hcl : c < P.rc.length := hlt c List.mem_cons_self
    rw [h1]
    show (if x ∈ T then 1 else (P.rc.set c 1).getD x 0) = _
    rw [getD_set_nat]
    by_cases hx : x ∈ T
    · simp [hx]
    · by_cases hcx : c = x
      · subst hcx; simp [hcl]
      · have : ¬ x = c := fun e => hcx e.symm
        simp only [hx, hcx, false_and, if_false, List.mem_cons, this, or_self]

theorem probeLoans_spec (fuel : Nat) : ∀ (P : Pub) (acc : List Nat),
    ∃ T, (probeLoans P fuel acc).2.1 = acc ++ T ∧ ProbeRel P (probeLoans P fuel acc).1 T := by
  induction fuel with
  | zero => intro P acc; exact ⟨[], by simp [probeLoans], ProbeRel.refl P⟩
  | succ fuel ih =>
    intro P acc
    rw [probeLoans]
    split
    · exact ⟨[], by simp, ProbeRel.refl P⟩
    · split
      · exact ⟨[], by simp, ProbeRel.refl P⟩
      · rename_i c rest hf
        obtain ⟨T, h1, h2⟩ := ih { P with free := rest, rc := P.rc.set c 1, loanCnt := P.loanCnt + 1 }
          (acc ++ [c])
        exact ⟨c :: T, by rw [h1]; simp, ProbeRel.step hf h2⟩

/-- one `return_loaned_chunk` of `.probe` -/
def relStep (P : Pub) (c : Nat) : Pub := { P.releaseChunk c with loanCnt := P.loanCnt - 1 }

/-- the fields the release fold does not touch -/
theorem relFold_fields : ∀ (T : List Nat) (P : Pub),
    (T.foldl relStep P).n = P.n ∧ (T.foldl relStep P).loans = P.loans ∧
    (T.foldl relStep P).hist = P.hist ∧ (T.foldl relStep P).conns = P.conns ∧
    ptop (T.foldl relStep P) = ptop P ∧ (T.foldl relStep P).payload = P.payload
  | [], P => ⟨rfl, rfl, rfl, rfl, rfl, rfl⟩
  | t :: T, P => by
    obtain ⟨h1, h2, h3, h4, h5, h6⟩ := relFold_fields T (relStep P t)
    rw [List.foldl_cons]
    refine ⟨by rw [h1]; simp [relStep], by rw [h2]; simp [relStep], by rw [h3]; simp [relStep],
      by rw [h4]; simp [relStep], by rw [h5]; simp [relStep, ptop], by rw [h6]; simp [relStep]⟩

/-- releasing distinct chunks whose counter is one: they go (in reverse order) to the head of the
free list and their counters become zero -/
theorem relFold_acc : ∀ (T : List Nat) (P : Pub), T.Nodup →
    (∀ t ∈ T, t < P.rc.length ∧ P.rc.getD t 0 = 1) →
    (T.foldl relStep P).free = T.reverse ++ P.free ∧
    (T.foldl relStep P).rc.length = P.rc.length ∧
    ∀ x, (T.foldl relStep P).rc.getD x 0 = if x ∈ T then 0 else P.rc.getD x 0
  | [], P, _, _ => ⟨rfl, rfl, fun x => by simp⟩
  | t :: T, P, hnd, h => by
    rw [List.nodup_cons] at hnd
    obtain ⟨htl, ht1⟩ := h t List.mem_cons_self
    have hrc : (relStep P t).rc = P.rc.set t 0 := by
      show (P.releaseChunk t).rc = _
      rw [releaseChunk_rc, ht1]
    have hfree : (relStep P t).free = t :: P.free := by
      show (P.releaseChunk t).free = _
      rw [releaseChunk_free, if_pos ht1]
    have hget : ∀ x, (relStep P t).rc.getD x 0 = if x = t then 0 else P.rc.getD x 0 := by
      intro x
      rw [hrc, getD_set_nat]
      by_cases hx : t = x
      · subst hx; simp [htl]
      · have : ¬ x = t := fun e => hx e.symm
        simp only [hx, false_and, if_false, this]
    obtain ⟨h1, h2, h3⟩ := relFold_acc T (relStep P t) hnd.2 (by
      intro t' ht'
      obtain ⟨a, b⟩ := h t' (List.mem_cons_of_mem _ ht')
      have hne : ¬ t' = t := by intro e; subst e; exact hnd.1 ht'
      refine ⟨by rw [hrc, List.length_set]; exact a, ?_⟩
      rw [hget, if_neg hne]; exact b)
    rw [List.foldl_cons]
    refine ⟨by rw [h1, hfree]; simp, by rw [h2, hrc, List.length_set], ?_⟩
    intro x
    rw [h3, hget]
    by_cases hx : x ∈ T
    · simp [hx]
    · by_cases hxt : x = t
      · simp [hxt]
      · simp only [hx, hxt, if_false, List.mem_cons, or_self]

/-- `.probe`: loan until refused, then return everything: the publisher's accounting is unchanged
(the free list is permuted) -/
theorem probe_inv {G : GT} {A : GA} {w : World} {p : Nat} {P : Pub}
    (hi : Inv G A w) (hP : getP w p = some P) :
    Inv G A (setP w p
      ((probeLoans P (P.n + 1) []).2.1.foldl
        (fun (P : Pub) c => { P.releaseChunk c with loanCnt := P.loanCnt - 1 })
        (probeLoans P (P.n + 1) []).1)) := by
  show Inv G A (setP w p ((probeLoans P (P.n + 1) []).2.1.foldl relStep (probeLoans P (P.n + 1) []).1))
  obtain ⟨T, hT, pr⟩ := probeLoans_spec (P.n + 1) P []
  rw [hT, List.nil_append]
  generalize (probeLoans P (P.n + 1) []).1 = P₂ at pr
  obtain ⟨f1, f2, f3, f4, f5, f6⟩ := relFold_fields T P₂
  refine hi.update_P hP (by rw [f5, pr.top]) (by rw [f1, pr.n]) (by rw [f6, pr.payload]) ?_ ?_
  · intro hex
    have pa := hi.pubAcc hP hex
    have hmem : ∀ t ∈ T, t ∈ P.free := by
      intro t ht; rw [pr.free]; exact List.mem_append_left _ ht
    have hT0 : ∀ t ∈ T, t < P.rc.length ∧ P.rc.getD t 0 = 0 := by
      intro t ht
      obtain ⟨a, b⟩ := (pa.free.freeIff t).mp (hmem t ht)
      exact ⟨by rw [pa.free.rcLen]; exact a, b⟩
    have hnd := pa.free.freeNodup
    rw [pr.free, List.nodup_append] at hnd
    obtain ⟨hndT, hnd2, hdis⟩ := hnd
    have hrc2 := pr.rc (fun t ht => (hT0 t ht).1)
    obtain ⟨g1, g2, g3⟩ := relFold_acc T P₂ hndT (by
      intro t ht
      refine ⟨by rw [pr.rcLen]; exact (hT0 t ht).1, ?_⟩
      rw [hrc2, if_pos ht])
    have pa' : PubAcc A w p (T.foldl relStep P₂) := by
      refine pa.of_eqv ?_ (by rw [g2, pr.rcLen]) ?_ ?_ (by rw [f1, pr.n]) (by rw [f2, pr.loans])
        (by rw [f3, pr.hist]) (by rw [f4, pr.conns])
      · intro x
        rw [g3, hrc2]
        by_cases hx : x ∈ T
        · simp only [hx, if_true]; exact (hT0 x hx).2.symm
        · simp only [hx, if_false]
      · rw [g1, List.nodup_append]
        refine ⟨(List.reverse_perm T).nodup_iff.mpr hndT, hnd2, ?_⟩
        intro a ha b hb
        exact hdis a (List.mem_reverse.mp ha) b hb
      · intro x
        rw [g1, pr.free]
        simp only [List.mem_append, List.mem_reverse]
    exact pa'.congr (fun s x _ => rfl)
  · intro hex
    rw [f2, pr.loans]; exact (hi.acc.pubs p P hP).2 hex

end Iox2.PubSub.C02P
