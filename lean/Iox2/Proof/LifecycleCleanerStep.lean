import Iox2.Proof.LifecycleCleaner
namespace Iox2.Lifecycle

theorem closeBy_st_other {fs : FS} (hG : G fs) {pid : Nat} (hp : pid ≠ 0) : fs.st.closeBy pid = fs.st := by
  unfold File.closeBy
  rcases hG.stLock with h | h <;> rw [h] <;> simp
  exact fun h0 => absurd h0.symm hp

theorem not_lockedByOther_ol {fs : FS} {pid : Nat} (h : ¬ fs.ol.lockedByOther pid = true) :
    ∀ p, fs.ol.lock = some p → p = pid := by
  intro p hp
  cases hpp : decide (p = pid) with
  | true => exact of_decide_eq_true hpp
  | false => exact absurd ((lockedByOther_iff _ _).2 ⟨p, hp, of_decide_eq_false hpp⟩) h

set_option hygiene false in
macro "cleaner_fin" : tactic => `(tactic| (
    refine ⟨⟨?_, ?_, ?_, ?_, ?_, ?_, ?_, ?_, ?_, ?_, ?_, ?_, ?_, ?_, ?_, ?_, ?_, ?_, ?_⟩,
      L.ofCleaner hr hp ?_ ?_ ?_ ?_ ?_ ?_ ?_ ?_ ?_, ⟨?_, ?_, ?_, ?_, ?_, ?_⟩, rfl, rfl, rfl, rfl⟩
    all_goals first
      | (intros; assumption)
      | (simp_all [pcDone, File.closeBy_linked, File.closeBy_perm]; done)
      | (intro h; dsimp only at h; exact g18 (by omega))
      | (intros; simp_all [pcDone, File.closeBy_linked, File.closeBy_perm] <;> omega)))

set_option hygiene false in
macro "cleaner_fin_norm" : tactic => `(tactic| (
    refine ⟨⟨?_, ?_, ?_, ?_, ?_, ?_, ?_, ?_, ?_, ?_, ?_, ?_, ?_, ?_, ?_, ?_, ?_, ?_, ?_⟩,
      L.ofCleaner (e2.trans hr) (e1 ▸ hp) ?_ ?_ (e3 ▸ l3) ?_ ?_ ?_ ?_ (e4 ▸ l8) (e4 ▸ l9), ⟨?_, ?_, ?_, ?_, ?_, ?_⟩, rfl, rfl, e1, e2⟩
    all_goals first
      | (intros; assumption)
      | (simp_all [pcDone]; done)
      | (intro h; dsimp only at h; exact g18 (by omega))
      | (intros; simp_all [pcDone] <;> omega)))

set_option maxHeartbeats 4000000 in
theorem cleaner_step_explicit {fs fs' : FS} {t t' : Th} {s : String} (hG : G fs) (hL : L fs t) (hr : t.role = .cleaner)
    (hrange : t.pc ≤ 1 ∨ t.pc = 50 ∨ 20 ≤ t.pc)
    (h : cleanerStep fs t = some (fs', t', s)) :
    G fs' ∧ L fs' t' ∧ Guar fs fs' t.pid ∧ fs'.opc = fs.opc ∧ fs'.odead = fs.odead ∧ t'.pid = t.pid ∧ t'.role = t.role := by
  have hno : t.role ≠ .owner := by rw [hr]; decide
  have hp := hL.pid_ne_zero hno
  have l1 := hL.qFinal hno
  have l2 := hL.qOl hno
  have l3 := hL.rawErr
  have l4 := hL.cDead hr
  have l5 := hL.cOwnerDead hr
  have l6 := hL.cHolds hr
  have l7 := hL.cStGone hr
  have l8 := hL.cNoPanic
  have l9 := hL.cOk
  have hcs := closeBy_st_other hG hp
  have hG' := hG
  have hA : ¬ (2 ≤ t.pc ∧ t.pc ≤ 10) := by omega
  have hB : ¬ (11 ≤ t.pc ∧ t.pc ≤ 19) := by omega
  obtain ⟨g1, g2, g3, g4, g5, g6, g7, g8, g9, g10, g11, g12, g13, g14, g15, g16, g17, g18, g19⟩ := hG
  unfold cleanerStep at h
  simp only [] at h
  split at h
  case h_1 hpc =>
    split at h
    all_goals (
      simp only [Option.some.injEq, Prod.mk.injEq] at h
      obtain ⟨rfl, rfl, _⟩ := h
      cleaner_fin)
  case h_2 hpc =>
    split at h
    all_goals (
      simp only [Option.some.injEq, Prod.mk.injEq] at h
      obtain ⟨rfl, rfl, _⟩ := h
      cleaner_fin)
  case h_7 hpc =>
    -- getlk st: the owner is dead, nobody holds the state-file lock
    split at h
    · rename_i hlk
      have h0 := (lockedByOther_st hG' hp).1 hlk
      have h1 := (g3 h0).1
      have h2 := l5 (Or.inr ⟨by omega, by omega⟩)
      rw [h1] at h2; cases h2
    · simp only [Option.some.injEq, Prod.mk.injEq] at h
      obtain ⟨rfl, rfl, _⟩ := h
      cleaner_fin
  case h_8 hpc =>
    -- setlk ol
    split at h
    · simp only [Option.some.injEq, Prod.mk.injEq] at h
      obtain ⟨rfl, rfl, _⟩ := h
      cleaner_fin
    · rename_i hlk
      have hnot := not_lockedByOther_ol hlk
      have hod := l5 (Or.inr ⟨by omega, by omega⟩)
      simp only [Option.some.injEq, Prod.mk.injEq] at h
      obtain ⟨rfl, rfl, _⟩ := h
      refine ⟨⟨?_, ?_, ?_, ?_, ?_, ?_, ?_, ?_, ?_, ?_, ?_, ?_, ?_, ?_, ?_, ?_, ?_, ?_, ?_⟩,
        L.ofCleaner hr hp ?_ ?_ ?_ ?_ ?_ ?_ ?_ ?_ ?_, ⟨?_, ?_, ?_, ?_, ?_, ?_⟩, rfl, rfl, rfl, rfl⟩
      case refine_14 => intro p hpp; simp at hpp; subst hpp; exact ⟨hod, hp⟩
      case refine_31 => intro p hne hpp; exact absurd (hnot p hpp) hne
      case refine_34 => intro p hpp; simp at hpp; exact Or.inl hpp.symm
      all_goals first
        | (intros; assumption)
        | (simp_all [pcDone]; done)
        | (intro h; dsimp only at h; exact g18 (by omega))
        | (intros; simp_all [pcDone] <;> omega)
  case h_10 hpc =>
    simp only [Option.some.injEq, Prod.mk.injEq] at h
    obtain ⟨rfl, rfl, _⟩ := h
    have hn := (cleanerNorm_pc { t with pc := 27, todo := fs.tags }).1 rfl
    have e1 := cleanerNorm_pid { t with pc := 27, todo := fs.tags }
    have e2 := cleanerNorm_role { t with pc := 27, todo := fs.tags }
    have e3 := cleanerNorm_raw { t with pc := 27, todo := fs.tags }
    have e4 := cleanerNorm_res { t with pc := 27, todo := fs.tags }
    generalize cleanerNorm { t with pc := 27, todo := fs.tags } = tn at hn e1 e2 e3 e4 ⊢
    simp at e1 e2 e3 e4
    rcases hn with hn | hn <;> cleaner_fin_norm
  case h_11 hpc =>
    simp only [Option.some.injEq, Prod.mk.injEq] at h
    obtain ⟨rfl, rfl, _⟩ := h
    have hn := (cleanerNorm_pc { t with pc := 27, todo := t.todo - 1 }).1 rfl
    have e1 := cleanerNorm_pid { t with pc := 27, todo := t.todo - 1 }
    have e2 := cleanerNorm_role { t with pc := 27, todo := t.todo - 1 }
    have e3 := cleanerNorm_raw { t with pc := 27, todo := t.todo - 1 }
    have e4 := cleanerNorm_res { t with pc := 27, todo := t.todo - 1 }
    generalize cleanerNorm { t with pc := 27, todo := t.todo - 1 } = tn at hn e1 e2 e3 e4 ⊢
    simp at e1 e2 e3 e4
    rcases hn with hn | hn <;> cleaner_fin_norm
  case h_12 hpc =>
    simp only [Option.some.injEq, Prod.mk.injEq] at h
    obtain ⟨rfl, rfl, _⟩ := h
    have hn := (cleanerNorm_pc { t with pc := 29, hasDet := fs.det.linked && fs.det.perm == .final }).2 rfl
    have e1 := cleanerNorm_pid { t with pc := 29, hasDet := fs.det.linked && fs.det.perm == .final }
    have e2 := cleanerNorm_role { t with pc := 29, hasDet := fs.det.linked && fs.det.perm == .final }
    have e3 := cleanerNorm_raw { t with pc := 29, hasDet := fs.det.linked && fs.det.perm == .final }
    have e4 := cleanerNorm_res { t with pc := 29, hasDet := fs.det.linked && fs.det.perm == .final }
    generalize cleanerNorm { t with pc := 29, hasDet := fs.det.linked && fs.det.perm == .final } = tn at hn e1 e2 e3 e4 ⊢
    simp at e1 e2 e3 e4
    rcases hn with hn | hn <;> cleaner_fin_norm
  case h_20 hpc =>
    -- close ol: the cleaner's lock is released
    simp only [Option.some.injEq, Prod.mk.injEq] at h
    obtain ⟨rfl, rfl, _⟩ := h
    have hl := l6 (Or.inl ⟨by omega, by omega⟩)
    have hcl : fs.ol.closeBy t.pid = { fs.ol with lock := none } := by simp [File.closeBy, hl]
    rw [hcl]
    cleaner_fin
  case h_25 hpc =>
    simp only [Option.some.injEq, Prod.mk.injEq] at h
    obtain ⟨rfl, rfl, _⟩ := h
    have hl := l6 (Or.inr ⟨by omega, by omega⟩)
    have hcl : fs.ol.closeBy t.pid = { fs.ol with lock := none } := by simp [File.closeBy, hl]
    rw [hcl]
    cleaner_fin
  case h_28 =>
    rw [if_neg hA, if_neg hB] at h
    cases h
  all_goals (
    rename_i hpc
    repeat' split at h
    all_goals (
      simp only [Option.some.injEq, Prod.mk.injEq] at h
      obtain ⟨rfl, rfl, _⟩ := h
      cleaner_fin))

end Iox2.Lifecycle
