/-
C08 helper: subscriber-side actions preserve the invariant (part K: dropping a sample).
-/
import Iox2.Proof.PubSubC08SubJ
set_option linter.unusedSimpArgs false
set_option linter.unusedVariables false
namespace Iox2.PubSub.C08
open Iox2.PubSub
open Iox2.C16.SlotMapP (abs)
attribute [-simp] List.getD_eq_getElem?_getD

theorem filter_eraseIdx_perm {α : Type} (l : List α) (k : Nat) (a : α) (pred : α → Bool) (h : l[k]? = some a) :
    ((l.eraseIdx k).filter pred ++ (if pred a then [a] else [])).Perm (l.filter pred) := by
  have hp := (Iox2.ListLemmas.perm_eraseIdx l k a h).filter pred
  rw [List.filter_append] at hp
  by_cases hpa : pred a = true
  · simpa [List.filter_cons, hpa] using hp
  · simpa [List.filter_cons, hpa] using hp

theorem dsample_core {cfg : Cfg} {w : World} {xs : Option Nat} {s : Nat}
    (h : InvS cfg w xs s none) {S : Sub} (hS : getS w s = some S) {k : Nat} {hd : Held}
    (hk : S.held[k]? = some hd) :
    InvS cfg (subRelease (setS w s { S with held := S.held.eraseIdx k }) s hd) xs s none ∧
    getS (subRelease (setS w s { S with held := S.held.eraseIdx k }) s hd) s =
      some { S with held := S.held.eraseIdx k } := by
  have hSO : SubOK cfg w s S none := by simpa using h.s s S hS
  have hmem : hd ∈ S.held := List.mem_of_getElem? hk
  have hkey := hSO.heldKey hd hmem
  obtain ⟨c, hc, hcr⟩ := hSO.hasConn hd.key hd.pid hkey
  have hCI := h.c hd.pid s c hc
  have hcnt := hCI.held S hS
  have hpermF := filter_eraseIdx_perm S.held k hd (·.pid = hd.pid) hk
  simp only [decide_true, if_true] at hpermF
  have hlen : ((S.held.eraseIdx k).filter (·.pid = hd.pid)).length + 1 = c.borrow := by
    rw [hcnt, ← hpermF.length_eq]; simp
  have hbpos : 1 ≤ c.borrow := by omega
  have hcomp : c.comp.length < c.cap + w.cfg.borrowMax + 1 := by
    have := hCI.ok.tot; rw [h.r.cfgEq]; omega
  have hS1 : getS (setS w s { S with held := S.held.eraseIdx k }) s = some { S with held := S.held.eraseIdx k } := by
    simp [hS]
  have hrel : subRelease (setS w s { S with held := S.held.eraseIdx k }) s hd =
      setC (setS w s { S with held := S.held.eraseIdx k }) { c with comp := c.comp ++ [hd.chunk], borrow := c.borrow - 1 } := by
    unfold subRelease
    rw [hS1]
    dsimp only
    rw [smGet_eq hSO.stI, hkey]
    dsimp only
    rw [if_neg (by simp)]
    rw [getC_setS, hc]
    dsimp only
    exact if_pos hcomp
  rw [hrel]
  have hckey := getC_key hc
  have hk1 : ({ c with comp := c.comp ++ [hd.chunk], borrow := c.borrow - 1 } : Conn).pid = hd.pid ∧
      ({ c with comp := c.comp ++ [hd.chunk], borrow := c.borrow - 1 } : Conn).sid = s := hckey
  refine ⟨InvS.rebuild1 (S' := { S with held := S.held.eraseIdx k })
    (some { c with comp := c.comp ++ [hd.chunk], borrow := c.borrow - 1 }) h hS ⟨rfl, rfl, rfl, fun _ => rfl⟩
    (((h.u.of_conns rfl : ConnsUniq (setS w s { S with held := S.held.eraseIdx k })).setC _))
    (fun q => by simp only [getS_setC, getS_setS, hS, Option.map_some])
    (fun a b => by rw [getC_setC_self (by rw [getC_setS]; exact hc) _ hk1]; rfl)
    ⟨rfl, rfl, rfl⟩ (fun q hq => ?_) (fun c1 hc1 ha => ?_) (fun c1 hc1 => ?_) ?_, by simp [hS]⟩
  · have hp := filter_eraseIdx_perm S.held k hd (·.pid = q) hk
    have hne : ¬ hd.pid = q := fun e => hq e.symm
    simp only [hne, decide_false, Bool.false_eq_true, if_false, List.append_nil] at hp
    show (S.held.eraseIdx k).filter _ = _
    -- a permutation of a sublist filter: use the sublist fact instead
    have hsub : ((S.held.eraseIdx k).filter (·.pid = q)).Sublist (S.held.filter (·.pid = q)) :=
      (List.eraseIdx_sublist _ _).filter _
    exact hsub.eq_of_length hp.length_eq
  · rw [hc] at hc1; cases hc1
    exact ⟨_, rfl, ha, rfl⟩
  · cases hc1
    refine ⟨⟨hCI.ok.cap1, hCI.ok.capM, hCI.ok.subLe, ?_, ?_⟩, hCI.hasP,
      ⟨{ S with held := S.held.eraseIdx k }, by simp [hS]⟩, ?_, ?_, ?_, hCI.inSlot, hCI.usedLen⟩
    · show c.borrow - 1 ≤ _; have := hCI.ok.borLe; omega
    · have := hCI.ok.tot; simp at this ⊢; omega
    · intro S1 hS1'
      simp [hS] at hS1'; subst hS1'
      show c.borrow - 1 = ((S.held.eraseIdx k).filter _).length
      omega
    · intro ha S1 hS1'
      simp [hS] at hS1'; subst hS1'
      obtain ⟨hnd, hex⟩ := hCI.exact ha S hS
      unfold connChunks heldChunks at hnd hex ⊢
      dsimp only at hnd hex ⊢
      rw [hckey.1] at hnd hex ⊢
      have hpm := hpermF.map (·.chunk)
      simp only [List.map_append, List.map_cons, List.map_nil] at hpm
      have hperm : (c.sub.map (·.1) ++ ((S.held.eraseIdx k).filter (·.pid = hd.pid)).map (·.chunk) ++
          (c.comp ++ [hd.chunk])).Perm
          (c.sub.map (·.1) ++ (S.held.filter (·.pid = hd.pid)).map (·.chunk) ++ c.comp) := by
        rw [List.perm_iff_count]
        intro a
        have := List.perm_iff_count.mp hpm a
        simp only [List.count_append, List.count_cons, List.count_nil] at this ⊢
        omega
      constructor
      · exact hperm.nodup_iff.mpr hnd
      · intro x
        rw [hex x, hperm.mem_iff]
    · intro ha P S1 hP hS1' hex hal
      simp [hS] at hS1'; subst hS1'
      have := (hCI.fresh ha P S hP hS hex hal).2.2.1
      omega
  · refine ⟨hSO.stI, hSO.connsLen, hSO.capEq, hSO.buf1, hSO.bufM, hSO.tbrNodup, hSO.tbrLen, hSO.tbrIn, hSO.connKey,
      hSO.connInj, hSO.cover, ?_, hSO.pidInj, ?_, hSO.tbrDead, hSO.connSlot, hSO.aliveEx⟩
    · intro k' q hkq
      obtain ⟨c1, hc1, hr1⟩ := hSO.hasConn k' q hkq
      rw [getC_setC_self (by rw [getC_setS]; exact hc) _ hk1]
      by_cases hqp : q = hd.pid
      · subst hqp
        rw [hc] at hc1; cases hc1
        exact ⟨{ c with comp := c.comp ++ [hd.chunk], borrow := c.borrow - 1 }, by simp, hr1⟩
      · exact ⟨c1, by simp [hqp]; exact hc1, hr1⟩
    · intro h' hh'
      exact hSO.heldKey h' ((List.eraseIdx_sublist _ _).subset hh')

end Iox2.PubSub.C08
