/-
C08 helper: publisher-side actions preserve the invariant (part C: `deliverTo`).
-/
import Iox2.Proof.PubSubC08PubB
set_option linter.unusedSimpArgs false
set_option linter.unusedVariables false
namespace Iox2.PubSub.C08
open Iox2.PubSub
open Iox2.C16.SlotMapP (abs)

/-- rebuild after an action on publisher record `p` and connection `(p, s)`, given pointwise -/
theorem InvP.rebuild2 {cfg : Cfg} {w w' : World} {xp : Option Nat} {p0 : Nat} {xs xs' : List Nat} {st st' : Bool}
    (h : InvP cfg w xp p0 xs st) {p s : Nat} {P P' : Pub} {c c' : Conn}
    (hp : getP w p = some P) (hc : getC w p s = some c)
    (hfr : PFrame w w') (hu : ConnsUniq w')
    (hgP : ∀ q, getP w' q = if q = p then some P' else getP w q)
    (hgC : ∀ a b, getC w' a b = if a = p ∧ b = s then some c' else getC w a b)
    (hsim : PubSim P P') (hr : c.rAtt = true → c'.rAtt = true)
    (hx : p ≠ p0 → xs = [] ∧ xs' = [])
    (hC : ConnInv cfg w' p s c')
    (hP : SlotsOK cfg w' p P' ∧ (P'.alive = true → MemOK cfg w' p P' (if p = p0 then xs' else []) st')) :
    InvP cfg w' xp p0 xs' st' := by
  have hsimW : PubsSim w w' := by
    constructor
    · intro q Q hq
      rw [hgP]
      by_cases hqp : q = p
      · subst hqp; rw [hp] at hq; cases hq; exact ⟨P', by simp, hsim⟩
      · exact ⟨Q, by simp [hqp, hq], .refl _⟩
    · intro q Q' hq
      rw [hgP] at hq
      by_cases hqp : q = p
      · subst hqp; simp at hq; subst hq; exact ⟨P, hp, hsim⟩
      · simp [hqp] at hq; exact ⟨Q', hq, .refl _⟩
  refine h.rebuild p hfr ?_ ?_ hsimW.to0 hu hx ?_ ?_ ?_
  · intro q hq; rw [hgP]; simp [hq]
  · intro q s' hq; rw [hgC]; simp [hq]
  · intro s' x hx' hxr
    rw [hgC]
    by_cases hs : s' = s
    · subst hs
      rw [hc] at hx'; cases hx'
      exact ⟨c', by simp, hr hxr⟩
    · exact ⟨x, by simp [hs, hx'], hxr⟩
  · intro s' x hx'
    rw [hgC] at hx'
    by_cases hs : s' = s
    · subst hs
      simp at hx'; subst hx'
      exact hC
    · simp [hs] at hx'
      exact (h.c p s' x hx').transferP hfr.subs hsimW
  · intro Q hQ
    rw [hgP] at hQ
    simp at hQ; subst hQ
    exact hP

/-- fields of a connection the invariant looks at (besides `sub` and `used`) -/
structure ConnCore (c c' : Conn) : Prop where
  pid : c'.pid = c.pid
  sid : c'.sid = c.sid
  cap : c'.cap = c.cap
  comp : c'.comp = c.comp
  borrow : c'.borrow = c.borrow
  sAtt : c'.sAtt = c.sAtt
  rAtt : c'.rAtt = c.rAtt

theorem ConnCore.refl (c : Conn) : ConnCore c c := ⟨rfl, rfl, rfl, rfl, rfl, rfl, rfl⟩

theorem trySend_spec (c : Conn) (ov : Bool) (ch seq : Nat) (hcap : 1 ≤ c.cap) :
    ConnCore c (c.trySend ov ch seq).1 ∧
    (((c.trySend ov ch seq).2 = .full ∧ (c.trySend ov ch seq).1.sub = c.sub ∧ (c.trySend ov ch seq).1.used = c.used) ∨
     ((c.trySend ov ch seq).2 = .ok none ∧ (c.trySend ov ch seq).1.sub = c.sub ++ [(ch, seq)] ∧
        (c.trySend ov ch seq).1.used = c.used.set ch true ∧ c.sub.length < c.cap) ∨
     (∃ old oseq rest, c.sub = (old, oseq) :: rest ∧ (c.trySend ov ch seq).1.sub = rest ++ [(ch, seq)] ∧
        (((c.used.set ch true).getD old false = true ∧ (c.trySend ov ch seq).2 = .ok (some old) ∧
            (c.trySend ov ch seq).1.used = (c.used.set ch true).set old false) ∨
         ((c.used.set ch true).getD old false = false ∧ (c.trySend ov ch seq).2 = .corrupted)))) := by
  unfold Conn.trySend
  split
  · exact ⟨⟨rfl, rfl, rfl, rfl, rfl, rfl, rfl⟩, .inl ⟨rfl, rfl, rfl⟩⟩
  · dsimp only
    split
    · split
      · rename_i h1 h2 h3
        rw [h3] at h1; simp at h1; omega
      · rename_i h1 h2 old oseq rest h3
        split
        · rename_i h4
          exact ⟨⟨rfl, rfl, rfl, rfl, rfl, rfl, rfl⟩, .inr (.inr ⟨old, oseq, rest, h3, rfl, .inl ⟨h4, rfl, rfl⟩⟩)⟩
        · rename_i h4
          exact ⟨⟨rfl, rfl, rfl, rfl, rfl, rfl, rfl⟩, .inr (.inr ⟨old, oseq, rest, h3, rfl, .inr ⟨by simpa using h4, rfl⟩⟩)⟩
    · rename_i h1 h2
      exact ⟨⟨rfl, rfl, rfl, rfl, rfl, rfl, rfl⟩, .inr (.inl ⟨rfl, rfl, rfl, by omega⟩)⟩

theorem getD_set_bool (l : List Bool) (c x : Nat) (v : Bool) :
    (l.set c v).getD x false = if x = c ∧ c < l.length then v else l.getD x false := by
  simp only [List.getD_eq_getElem?_getD, List.getElem?_set]
  by_cases h : c = x
  · subst h
    by_cases h2 : c < l.length <;> simp [h2]
  · have : ¬ x = c := fun h' => h h'.symm
    simp [h, this]

/-- a connection with the same relevant fields satisfies the same invariant -/
theorem ConnInv.congr0 {cfg : Cfg} {w : World} {p s : Nat} {c c' : Conn} (h : ConnInv cfg w p s c)
    (e1 : c'.pid = c.pid) (e2 : c'.sid = c.sid) (e3 : c'.cap = c.cap) (e4 : c'.comp = c.comp)
    (e5 : c'.borrow = c.borrow) (e6 : c'.sAtt = c.sAtt)
    (hsub : c'.sub = c.sub) (hused : c'.used = c.used) : ConnInv cfg w p s c' := by
  refine ⟨⟨by rw [e3]; exact h.ok.cap1, by rw [e3]; exact h.ok.capM, by rw [hsub, e3]; exact h.ok.subLe,
      by rw [e5]; exact h.ok.borLe, by rw [hsub, e5, e4, e3]; exact h.ok.tot⟩, h.hasP, h.hasS, ?_, ?_, ?_, ?_, ?_⟩
  · intro S hS; rw [e5]; exact h.held S hS
  · intro ha S hS
    have := h.exact (e6 ▸ ha) S hS
    unfold connChunks at this ⊢
    rw [hsub, e1, e4, hused]; exact this
  · intro ha P S hP hS hex hal
    have := h.fresh (e6 ▸ ha) P S hP hS hex hal
    rw [hsub, e4, e5, hused]; exact this
  · intro ha; exact h.inSlot (e6 ▸ ha)
  · intro P hP; rw [hused]; exact h.usedLen P hP

theorem ConnInv.congr {cfg : Cfg} {w : World} {p s : Nat} {c c' : Conn} (h : ConnInv cfg w p s c)
    (hcore : ConnCore c c') (hsub : c'.sub = c.sub) (hused : c'.used = c.used) : ConnInv cfg w p s c' :=
  h.congr0 hcore.pid hcore.sid hcore.cap hcore.comp hcore.borrow hcore.sAtt hsub hused

end Iox2.PubSub.C08
