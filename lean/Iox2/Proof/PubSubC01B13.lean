/-
Layer B: the record of one publisher changes (loan, return of a loan, the bookkeeping of `send`).
-/
import Iox2.Proof.PubSubC01B12
namespace Iox2.PubSub.C01P
open Iox2.PubSub

variable {cfg : Cfg} {np ns : Option Nat} {fl fl' : Option (Nat × Nat × Bool)} {w : World}

theorem inflight_ne {fl : Option (Nat × Nat × Bool)} {p a y : Nat} (hfl : ∀ c fr, fl ≠ some (a, c, fr)) :
    inflight fl a y = 0 := by
  unfold inflight
  cases fl with
  | none => rfl
  | some t =>
    obtain ⟨p', c', fr⟩ := t
    simp only
    by_cases h : p' = a ∧ c' = y
    · obtain ⟨rfl, rfl⟩ := h; exact absurd rfl (hfl c' fr)
    · rw [if_neg h]

/-- only the record of publisher `p` (whose shared state exists) changes; the connections stay -/
theorem InvB.updP (h : InvB fl w) {p : Nat} {P P' : Pub} (hP : getP w p = some P) (hex : P.ex = true)
    (hn : P'.n = P.n) (hex' : P'.ex = true)
    (hlens : P'.rc.length = P'.n ∧ P'.payload.length = P'.n ∧ P'.chunkSeq.length = P'.n ∧ P'.sent.length = P'.seq)
    (hfree : FreeOK P')
    (hrc : ∀ y, y < P.n → P'.rc.getD y 0 = (P'.loans.filter (·.2 = y)).length + (P'.hist.filter (· = y)).length
      + usedCnt w p y + inflight fl' p y)
    (hloans : (P'.loans.map (·.1)).Nodup ∧ ∀ l y, (l, y) ∈ P'.loans → y < P.n ∧ P'.rc.getD y 0 = 1)
    (hhist : P'.hist.Nodup ∧ ∀ y ∈ P'.hist, y < P.n ∧ P'.payload.getD y 0 = P'.sent.getD (P'.chunkSeq.getD y 0) 0 ∧
      P'.chunkSeq.getD y 0 < P'.seq)
    (hflp : ∀ y fr, fl' = some (p, y, fr) → y < P.n ∧ (fr = true → P'.rc.getD y 0 = 1))
    (hflo : ∀ a y fr, a ≠ p → (fl' = some (a, y, fr) ↔ fl = some (a, y, fr)))
    (hppi : ∀ cn ∈ w.conns, cn.pid = p → ∀ S, getS w cn.sid = some S → (cn.sAtt = true ∨ S.alive = true) →
      ∀ ch q, (ch, q) ∈ cn.sub → P'.payload.getD ch 0 = P'.sent.getD q 0 ∧ q < P'.seq) :
    InvB fl' (setP w p P') := by
  have gP : ∀ a Q, getP (setP w p P') a = some Q → (a = p ∧ Q = P') ∨ (a ≠ p ∧ getP w a = some Q) := by
    intro a Q hq
    rw [getP_setP] at hq
    by_cases hap : a = p
    · subst hap
      simp only [if_true, hP, Option.map_some, Option.some.injEq] at hq
      exact Or.inl ⟨rfl, hq.symm⟩
    · rw [if_neg hap] at hq
      exact Or.inr ⟨hap, hq⟩
  have hinf : ∀ a y, a ≠ p → inflight fl' a y = inflight fl a y := by
    intro a y hap
    unfold inflight
    cases hf' : fl' with
    | none =>
      cases hf : fl with
      | none => rfl
      | some t =>
        obtain ⟨p', c', fr⟩ := t
        simp only
        by_cases hh : p' = a ∧ c' = y
        · obtain ⟨rfl, rfl⟩ := hh
          have := (hflo p' c' fr hap).mpr hf
          rw [hf'] at this; cases this
        · rw [if_neg hh]
    | some t' =>
      obtain ⟨p', c', fr⟩ := t'
      simp only
      by_cases hh : p' = a ∧ c' = y
      · obtain ⟨rfl, rfl⟩ := hh
        have := (hflo p' c' fr hap).mp hf'
        rw [this]
      · rw [if_neg hh]
        cases hf : fl with
        | none => rfl
        | some t =>
          obtain ⟨p2, c2, fr2⟩ := t
          simp only
          by_cases hh2 : p2 = a ∧ c2 = y
          · obtain ⟨rfl, rfl⟩ := hh2
            have := (hflo p2 c2 fr2 hap).mpr hf
            rw [hf'] at this
            simp only [Option.some.injEq, Prod.mk.injEq] at this
            exact absurd ⟨this.1, this.2.1⟩ hh
          · rw [if_neg hh2]
  constructor
  · exact h.keys
  · intro a Q hq
    rcases gP a Q hq with ⟨rfl, rfl⟩ | ⟨_, h0⟩
    · exact hlens
    · exact h.lens a Q h0
  · intro cn hcn Q hq
    rcases gP _ Q hq with ⟨hap, rfl⟩ | ⟨_, h0⟩
    · rw [hn]; exact h.usedLen cn hcn P (hap ▸ hP)
    · exact h.usedLen cn hcn Q h0
  · intro a Q hq hQe
    rcases gP a Q hq with ⟨rfl, rfl⟩ | ⟨_, h0⟩
    · exact hfree
    · exact h.free a Q h0 hQe
  · intro a Q hq hQe y hy
    rcases gP a Q hq with ⟨rfl, rfl⟩ | ⟨hap, h0⟩
    · exact hrc y (hn ▸ hy)
    · rw [hinf a y hap]; exact h.rc a Q h0 hQe y hy
  · intro a Q hq hQe
    rcases gP a Q hq with ⟨rfl, rfl⟩ | ⟨_, h0⟩
    · rw [hn]; exact hloans
    · exact h.loans a Q h0 hQe
  · intro a Q hq hQe
    rcases gP a Q hq with ⟨rfl, rfl⟩ | ⟨_, h0⟩
    · rw [hex'] at hQe; cases hQe
    · exact h.deadLoans a Q h0 hQe
  · intro a Q hq hQe
    rcases gP a Q hq with ⟨rfl, rfl⟩ | ⟨_, h0⟩
    · rw [hn]; exact hhist
    · exact h.histOk a Q h0 hQe
  · intro a y fr hfl'
    by_cases hap : a = p
    · subst hap
      obtain ⟨h1, h2⟩ := hflp y fr hfl'
      exact ⟨P', by simp [getP_setP, hP], hex', hn ▸ h1, h2⟩
    · obtain ⟨Q0, h0, hQe, hy, hfr⟩ := h.flOk a y fr ((hflo a y fr hap).mp hfl')
      exact ⟨Q0, by rw [getP_setP, if_neg hap]; exact h0, hQe, hy, hfr⟩
  · intro cn hcn hs Q S hq hQe hS
    rcases gP _ Q hq with ⟨hap, rfl⟩ | ⟨_, h0⟩
    · exact h.inqOk cn hcn hs P S (hap ▸ hP) hex hS
    · exact h.inqOk cn hcn hs Q S h0 hQe hS
  · intro cn hcn hs Q hq hQe
    rcases gP _ Q hq with ⟨hap, rfl⟩ | ⟨_, h0⟩
    · exact h.unatt cn hcn hs P (hap ▸ hP) hex
    · exact h.unatt cn hcn hs Q h0 hQe
  · intro cn hcn Q S hq hS hor ch q hm
    rcases gP _ Q hq with ⟨hap, rfl⟩ | ⟨_, h0⟩
    · exact hppi cn hcn hap S hS hor ch q hm
    · exact h.ppi cn hcn Q S h0 hS hor ch q hm

/-! ### list facts about loans -/

theorem find_label_mem {loans : List (Nat × Nat)} {l l' c : Nat} (h : loans.find? (·.1 = l) = some (l', c)) :
    (l, c) ∈ loans ∧ l' = l := by
  have h1 := List.mem_of_find?_eq_some h
  have h2 := List.find?_some h
  simp only [decide_eq_true_eq] at h2
  subst h2
  exact ⟨h1, rfl⟩

/-- with distinct labels, removing label `l` removes exactly the loan `(l, c)` -/
theorem filter_label_count {loans : List (Nat × Nat)} (hnd : (loans.map (·.1)).Nodup) {l c : Nat} (hm : (l, c) ∈ loans)
    (q : Nat × Nat → Bool) :
    (loans.filter q).length = (if q (l, c) then 1 else 0) + ((loans.filter (·.1 ≠ l)).filter q).length := by
  induction loans with
  | nil => cases hm
  | cons a r ih =>
    simp only [List.map_cons, List.nodup_cons] at hnd
    obtain ⟨hnot, hnd'⟩ := hnd
    rcases List.mem_cons.mp hm with hh | hh
    · subst hh
      have hr : r.filter (·.1 ≠ l) = r := by
        rw [List.filter_eq_self]
        intro e he
        simp only [ne_eq, decide_not, Bool.not_eq_eq_eq_not, Bool.not_true, decide_eq_false_iff_not]
        intro hel
        exact hnot (List.mem_map.mpr ⟨e, he, hel⟩)
      simp only [List.filter_cons, ne_eq, not_true_eq_false, decide_false, Bool.false_eq_true, if_false, hr]
      by_cases hq : q (l, c) = true <;> simp [hq]; omega
    · have hal : a.1 ≠ l := by
        intro hh2
        exact hnot (List.mem_map.mpr ⟨(l, c), hh, hh2.symm⟩)
      simp only [List.filter_cons, ne_eq, hal, not_false_eq_true, decide_true, if_true]
      have := ih hnd' hh
      simp only [ne_eq] at this
      by_cases hq : q a = true
      · simp only [hq, if_true, List.length_cons]; omega
      · simp only [hq]; exact this

theorem filter_label_sub {loans : List (Nat × Nat)} {l : Nat} {e : Nat × Nat} (h : e ∈ loans.filter (·.1 ≠ l)) : e ∈ loans :=
  (List.mem_filter.mp h).1

theorem filter_label_nodup {loans : List (Nat × Nat)} (hnd : (loans.map (·.1)).Nodup) (l : Nat) :
    ((loans.filter (·.1 ≠ l)).map (·.1)).Nodup :=
  hnd.sublist (List.Sublist.map _ List.filter_sublist)

end Iox2.PubSub.C01P
