/-
C02 — `subDropConn` (the subscriber drops a connection without borrowed samples) preserves the
invariant.
-/
import Iox2.Proof.PubSubC02TopCongr
import Iox2.Proof.PubSubC02SlotMap

namespace Iox2.PubSub.C02P
open Iox2.PubSub
open Iox2.C16.SlotMapP (abs WInv)

theorem heldOf_nil_of_length {S : Sub} {p : Nat} (h : (heldOf S p).length = 0) :
    ∀ x ∈ S.held, x.pid ≠ p := by
  intro x hx hp
  have : x.chunk ∈ heldOf S p := by
    unfold heldOf
    exact List.mem_map.mpr ⟨x, List.mem_filter.mpr ⟨hx, by simp [hp]⟩, rfl⟩
  have := List.length_pos_of_mem this
  omega

theorem subDropConn_inv {G : GT} {A : GA} {w : World} {s key p : Nat} {S : Sub}
    (hi : Inv G A w) (hS : getS w s = some S) (hk : abs S.storage key = some p)
    (hb : ∀ c, getC w p s = some c → c.borrow = 0)
    (hconn : ∀ j : Nat, S.conns[j]? = some (some key) → G.hole = some (s, j))
    (htbr : key ∉ S.tbr) :
    Inv G A (subDropConn w s key) := by
  have st := hi.top.subs s S hS
  obtain ⟨⟨c, hC, hra⟩, P, hP, hpreg, hnp, hor⟩ := st.stor key p hk
  obtain ⟨hpid, hsid, _⟩ := getC_some hC
  obtain ⟨P0, S0, hP0, hS0, ct⟩ := hi.top.conns p s c hC
  rw [hP] at hP0; cases hP0; rw [hS] at hS0; cases hS0
  have ca := hi.acc.conns p s c hC P S hP hS
  have hb0 := hb c hC
  have hheld : ∀ x ∈ S.held, x.pid ≠ p := by
    apply heldOf_nil_of_length
    rw [← hpid, ← ca.borrow]; exact hb0
  obtain ⟨hw', habs⟩ := smRemove_spec st.winv key
  generalize hS' : ({ S with storage := smRemove S.storage key } : Sub) = S'
  have hS'f : S'.alive = S.alive ∧ S'.ex = S.ex ∧ S'.slot = S.slot ∧ S'.conns = S.conns ∧
      S'.snap = S.snap ∧ S'.tbr = S.tbr ∧ S'.held = S.held ∧
      S'.storage = smRemove S.storage key := by subst hS'; simp
  obtain ⟨f1, f2, f3, f4, f5, f6, f7, f8⟩ := hS'f
  -- the resulting world
  have hres : ∃ w', subDropConn w s key = w' ∧ w'.cfg = w.cfg ∧ w'.pubReg = w.pubReg ∧
      w'.subReg = w.subReg ∧ (∀ q, getP w' q = getP w q) ∧
      (∀ t, getS w' t = if t = s then some S' else getS w t) ∧
      (∀ a b, ¬ (a = p ∧ b = s) → getC w' a b = getC w a b) ∧
      ((c.sAtt = true ∧ getC w' p s = some { c with rAtt := false }) ∨
       (c.sAtt = false ∧ getC w' p s = none)) ∧
      w'.conns.Pairwise fun a b => ¬ (a.pid = b.pid ∧ a.sid = b.sid) := by
    refine ⟨_, rfl, ?_⟩
    have hsm : smGet S.storage key = some p := by rw [smGet_eq_abs]; exact hk
    simp only [subDropConn, hS, hsm, hS']
    rw [detachReceiver_eq]
    simp only [getC_setS, hC]
    have hgS : ∀ t, getS (setS w s S') t = if t = s then some S' else getS w t := by
      intro t; simp [hS]
    cases hsa : c.sAtt with
    | true =>
      simp only [if_true]
      refine ⟨rfl, rfl, rfl, fun _ => rfl, hgS, ?_, Or.inl ⟨trivial, ?_⟩,
        nodup_setC _ hi.top.reg.nodup⟩
      · intro a b hab
        rw [getC_setC]
        simp only [hpid, hsid, hab, if_false, getC_setS]
      · rw [getC_setC]
        simp only [hpid, hsid, and_self, if_true, getC_setS, hC]
        rfl
    | false =>
      simp only [Bool.false_eq_true, if_false]
      refine ⟨rfl, rfl, rfl, fun _ => rfl, hgS, ?_, Or.inr ⟨trivial, ?_⟩,
        nodup_delC _ _ hi.top.reg.nodup⟩
      · intro a b hab
        rw [getC_delC]
        simp only [hab, if_false, getC_setS]
      · rw [getC_delC]; simp
  obtain ⟨w', hw'e, hcfg, hrp, hrs, hgP, hgS, hgCo, hgCp, hnd⟩ := hres
  rw [hw'e]
  have hpk : PubsKept w w' := PubsKept.of_eq hgP
  have hsk : SubsKept w w' := by
    intro t T hT
    rw [hgS]
    by_cases hts : t = s
    · subst hts; rw [hS] at hT; cases hT
      exact ⟨S', by simp, f3, f1⟩
    · exact ⟨T, by simp [hts, hT], rfl, rfl⟩
  -- keys of `p` : only `key`
  have honly : ∀ k, abs S.storage k = some p → k = key := fun k h => st.inj k key p h hk
  have habs' : ∀ k q, abs S'.storage k = some q ↔ (k ≠ key ∧ abs S.storage k = some q) := by
    intro k q; rw [f8, habs]
    by_cases hkk : k = key <;> simp [hkk]
  refine ⟨⟨?_, ?_, ?_, ?_⟩, ⟨?_, ?_, ?_⟩⟩
  · -- registry
    exact hi.top.reg.congr hcfg hrp hrs hpk hsk
      (fun q P' h => ⟨P', by rw [← hgP]; exact h⟩)
      (fun t T' h => by
        rw [hgS] at h
        by_cases hts : t = s
        · subst hts; exact ⟨S, hS⟩
        · simp only [hts, if_false] at h; exact ⟨T', h⟩) hnd
  · -- publishers
    intro q Q hQ
    rw [hgP] at hQ
    apply (hi.top.pubs q Q hQ).congr hcfg hrs hsk
    intro t cn hcn hsa
    by_cases hab : q = p ∧ t = s
    · obtain ⟨rfl, rfl⟩ := hab
      rw [hC] at hcn; cases hcn
      rcases hgCp with ⟨_, h2⟩ | ⟨h1, _⟩
      · exact ⟨_, h2, hsa⟩
      · rw [hsa] at h1; cases h1
    · exact ⟨cn, by rw [hgCo q t hab]; exact hcn, hsa⟩
  · -- subscribers
    intro t T hT
    rw [hgS] at hT
    by_cases hts : t = s
    · subst hts
      simp only [if_true, Option.some.injEq] at hT
      subst hT
      refine ⟨by rw [f4, hcfg]; exact st.lenC, by rw [f5, hcfg]; exact st.lenSnap,
        by rw [f1, f2]; exact st.aliveEx, ?_, by rw [f8]; exact hw', ?_, ?_, ?_, ?_,
        by rw [f6]; exact st.tbrNodup, ?_⟩
      · intro hex k
        rw [f2] at hex
        rw [f8, habs]; split
        · rfl
        · exact st.dead hex k
      · intro k q hkq
        obtain ⟨hne, hkq'⟩ := (habs' k q).mp hkq
        obtain ⟨⟨cn, h1, h2⟩, Q, hQ, h3, h4, h5⟩ := st.stor k q hkq'
        have hqp : q ≠ p := fun e => hne (honly k (e ▸ hkq'))
        refine ⟨⟨cn, by rw [hgCo q t (fun h => hqp h.1)]; exact h1, h2⟩, Q, by rw [hgP]; exact hQ,
          hpk.preg hrp hQ (by rw [hgP]; exact hQ) h3, h4, ?_⟩
        rw [f4, f5]; exact h5
      · intro k1 k2 q h1 h2
        exact st.inj k1 k2 q ((habs' k1 q).mp h1).2 ((habs' k2 q).mp h2).2
      · intro j k hj hh
        rw [f4] at hj
        obtain ⟨q, Q, h1, hQ, h2, h3⟩ := st.conn j k hj hh
        have hne : k ≠ key := by
          rintro rfl; exact hh (hconn j hj)
        exact ⟨q, Q, (habs' k q).mpr ⟨hne, h1⟩, by rw [hgP]; exact hQ, h2, by rw [f5]; exact h3⟩
      · intro j q hj
        rw [f5] at hj
        obtain ⟨Q, hQ, h1, h2, h3⟩ := st.snap j q hj
        exact ⟨Q, by rw [hgP]; exact hQ, h1, hpk.preg hrp hQ (by rw [hgP]; exact hQ) h2, h3⟩
      · intro k hkt
        rw [f6] at hkt
        obtain ⟨⟨q, hq⟩, h2⟩ := st.tbr k hkt
        have hne : k ≠ key := by rintro rfl; exact htbr hkt
        exact ⟨⟨q, (habs' k q).mpr ⟨hne, hq⟩⟩, by rw [f4]; exact h2⟩
    · simp only [hts, if_false] at hT
      apply (hi.top.subs t T hT).congr hcfg hrp hpk
      intro q cn hcn hra'
      exact ⟨cn, by rw [hgCo q t (fun h => hts h.2)]; exact hcn, hra'⟩
  · -- connections (topology)
    intro a b cn hcn
    by_cases hab : a = p ∧ b = s
    · obtain ⟨rfl, rfl⟩ := hab
      rcases hgCp with ⟨h1, h2⟩ | ⟨_, h2⟩
      · rw [h2] at hcn; cases hcn
        refine ⟨P, S', by rw [hgP]; exact hP, by rw [hgS]; simp, ?_, ?_, ?_⟩
        · exact Or.inl h1
        · exact ct.sAtt
        · constructor
          · intro h; cases h
          · rintro ⟨k, hk'⟩
            rw [hpid] at hk'
            obtain ⟨hne, hk''⟩ := (habs' k a).mp hk'
            exact absurd (honly k hk'') hne
      · rw [h2] at hcn; cases hcn
    · rw [hgCo a b hab] at hcn
      obtain ⟨Pa, Sb, hPa, hSb, ct'⟩ := hi.top.conns a b cn hcn
      obtain ⟨hpid', hsid', _⟩ := getC_some hcn
      by_cases hbs : b = s
      · subst hbs
        rw [hS] at hSb; cases hSb
        refine ⟨Pa, S', by rw [hgP]; exact hPa, by rw [hgS]; simp, ct'.att, ct'.sAtt, ?_⟩
        rw [ct'.rAtt]
        have hap : a ≠ p := fun h => hab ⟨h, rfl⟩
        constructor
        · rintro ⟨k, hk'⟩
          refine ⟨k, (habs' k _).mpr ⟨?_, hk'⟩⟩
          rintro rfl
          rw [hk, hpid'] at hk'
          exact hap (Option.some.inj hk').symm
        · rintro ⟨k, hk'⟩
          exact ⟨k, ((habs' k _).mp hk').2⟩
      · exact ⟨Pa, Sb, by rw [hgP]; exact hPa, by rw [hgS]; simp [hbs, hSb], ct'⟩
  · -- publishers (accounting)
    intro q Q hQ
    rw [hgP] at hQ
    obtain ⟨h1, h2⟩ := hi.acc.pubs q Q hQ
    refine ⟨fun hx => (h1 hx).congr ?_, h2⟩
    intro t x ht
    by_cases hab : q = p ∧ t = s
    · obtain ⟨rfl, rfl⟩ := hab
      rw [hP] at hQ; cases hQ
      rcases hgCp with ⟨_, h2⟩ | ⟨h1, _⟩
      · unfold usedBit; rw [h2, hC]
      · have := ct.sAtt.mpr (by rw [hsid]; exact ht)
        rw [h1] at this; cases this
    · exact usedBit_congr (hgCo q t hab) x
  · -- subscribers (accounting)
    intro t T hT
    rw [hgS] at hT
    by_cases hts : t = s
    · subst hts
      simp only [if_true, Option.some.injEq] at hT
      subst hT
      obtain ⟨h1, h2, h3⟩ := hi.acc.subs t S hS
      refine ⟨by rw [f2, f7]; exact h1, ?_, ?_⟩
      · intro x hx
        rw [f7] at hx
        refine (habs' x.key x.pid).mpr ⟨?_, h2 x hx⟩
        intro hxk
        have := h2 x hx
        rw [hxk, hk] at this
        exact hheld x hx (Option.some.inj this).symm
      · intro ha x hx
        rw [f1] at ha; rw [f7] at hx
        obtain ⟨Q, hQ, hq⟩ := h3 ha x hx
        exact ⟨Q, by rw [hgP]; exact hQ, hq⟩
    · simp only [hts, if_false] at hT
      obtain ⟨h1, h2, h3⟩ := hi.acc.subs t T hT
      refine ⟨h1, h2, fun ha x hx => ?_⟩
      obtain ⟨Q, hQ, hq⟩ := h3 ha x hx
      exact ⟨Q, by rw [hgP]; exact hQ, hq⟩
  · -- connections (accounting)
    intro a b cn hcn Pa Sb hPa hSb
    rw [hgP] at hPa; rw [hgS] at hSb; rw [hcfg]
    have hheldOf : ∀ q, heldOf S' q = heldOf S q := by intro q; unfold heldOf; rw [f7]
    by_cases hab : a = p ∧ b = s
    · obtain ⟨rfl, rfl⟩ := hab
      simp only [if_true, Option.some.injEq] at hSb
      subst hSb
      rw [hP] at hPa; cases hPa
      rcases hgCp with ⟨_, h2⟩ | ⟨_, h2⟩
      · rw [h2] at hcn; cases hcn
        have := ca.congr (P' := P) (S' := S') rfl rfl (hheldOf _) f1
        exact ⟨this.usedLen, this.subCap, this.borrowMax, this.total, this.borrow, this.nodup,
          this.used, this.idle⟩
      · rw [h2] at hcn; cases hcn
    · rw [hgCo a b hab] at hcn
      by_cases hbs : b = s
      · subst hbs
        simp only [if_true, Option.some.injEq] at hSb
        subst hSb
        exact (hi.acc.conns a b cn hcn Pa S hPa hS).congr rfl rfl (hheldOf _) f1
      · simp only [hbs, if_false] at hSb
        exact hi.acc.conns a b cn hcn Pa Sb hPa hSb

end Iox2.PubSub.C02P
