/-
Layer B, life-cycle operations: registries are irrelevant, port records are created / forgotten.
-/
import Iox2.Proof.PubSubC01B12
namespace Iox2.PubSub.C01P
open Iox2.PubSub

variable {cfg : Cfg} {fl : Option (Nat × Nat × Bool)} {w : World}

/-! ### registries, `finishPanic` -/

theorem invB_pubReg (h : InvB fl w) (r : Reg Nat) : InvB fl { w with pubReg := r } :=
  ⟨h.keys, h.lens, h.usedLen, h.free, h.rc, h.loans, h.deadLoans, h.histOk, h.flOk, h.inqOk, h.unatt, h.ppi⟩

theorem invB_subReg (h : InvB fl w) (r : Reg SubEntry) : InvB fl { w with subReg := r } :=
  ⟨h.keys, h.lens, h.usedLen, h.free, h.rc, h.loans, h.deadLoans, h.histOk, h.flOk, h.inqOk, h.unatt, h.ppi⟩

theorem invB_finishPanic {w0 : World} (h0 : InvB fl w0) (r : World × String) (hr : InvB fl r.1) :
    InvB fl (finishPanic w0 r).1 := by
  unfold finishPanic
  split
  · exact h0.panic
  · exact hr

/-! ### a publisher record is created -/

theorem usedCnt_zero_of_no_pid {w : World} {p : Nat} (h : ∀ cn ∈ w.conns, cn.pid ≠ p) (c : Nat) :
    usedCnt w p c = 0 := by
  unfold usedCnt
  rw [List.length_eq_zero_iff, List.filter_eq_nil_iff]
  intro cn hcn
  have := h cn hcn
  simp [this]

theorem getD_replicate_zero (n c : Nat) : (List.replicate n 0).getD c 0 = 0 := by
  rw [List.getD_eq_getElem?_getD, List.getElem?_replicate]
  split <;> rfl

theorem invB_addP (hB : InvB fl w) {p : Nat} (hfresh : getP w p = none) (hends : ∀ cn ∈ w.conns, cn.pid ≠ p)
    {P : Pub} (hrc : P.rc = List.replicate P.n 0) (hfree : P.free = List.range P.n)
    (hpay : P.payload.length = P.n) (hcs : P.chunkSeq.length = P.n) (hsent : P.sent = []) (hseq : P.seq = 0)
    (hloans : P.loans = []) (hhist : P.hist = []) : InvB fl (addP w p P) := by
  have gP : ∀ a Q, getP (addP w p P) a = some Q → getP w a = some Q ∨ (a = p ∧ Q = P) := by
    intro a Q hq
    rw [getP_addP] at hq
    cases h0 : getP w a with
    | some Q0 => rw [h0] at hq; simp at hq; exact Or.inl (by rw [hq])
    | none =>
      rw [h0] at hq
      by_cases hap : a = p
      · simp [hap] at hq; exact Or.inr ⟨hap, hq.symm⟩
      · simp [hap] at hq
  have gPc : ∀ cn ∈ w.conns, ∀ Q, getP (addP w p P) cn.pid = some Q → getP w cn.pid = some Q := by
    intro cn hcn Q hq
    rcases gP _ Q hq with h0 | ⟨h0, _⟩
    · exact h0
    · exact absurd h0 (hends cn hcn)
  have hcnt : ∀ a c, usedCnt (addP w p P) a c = usedCnt w a c := fun _ _ => rfl
  have hflp : ∀ c, inflight fl p c = 0 := by
    intro c
    unfold inflight
    cases hfl : fl with
    | none => rfl
    | some t =>
      obtain ⟨p', c', fr⟩ := t
      simp only
      split
      · rename_i hh
        obtain ⟨Q, hQ, _⟩ := hB.flOk p' c' fr hfl
        rw [hh.1, hfresh] at hQ; cases hQ
      · rfl
  constructor
  · exact hB.keys
  · intro a Q hq
    rcases gP a Q hq with h0 | ⟨rfl, rfl⟩
    · exact hB.lens a Q h0
    · refine ⟨by rw [hrc, List.length_replicate], hpay, hcs, by rw [hsent, hseq]; rfl⟩
  · intro cn hcn Q hq
    exact hB.usedLen cn hcn Q (gPc cn hcn Q hq)
  · intro a Q hq hex
    rcases gP a Q hq with h0 | ⟨rfl, rfl⟩
    · exact hB.free a Q h0 hex
    · rw [hfree, hrc]
      refine ⟨List.nodup_range, fun c => ?_⟩
      rw [List.mem_range, getD_replicate_zero]
      exact ⟨fun hc => ⟨hc, rfl⟩, fun hc => hc.1⟩
  · intro a Q hq hex c hc
    rw [hcnt]
    rcases gP a Q hq with h0 | ⟨rfl, rfl⟩
    · exact hB.rc a Q h0 hex c hc
    · rw [hrc, getD_replicate_zero, hloans, hhist, usedCnt_zero_of_no_pid hends, hflp]; rfl
  · intro a Q hq hex
    rcases gP a Q hq with h0 | ⟨rfl, rfl⟩
    · exact hB.loans a Q h0 hex
    · rw [hloans]
      exact ⟨List.nodup_nil, fun l c hm => by cases hm⟩
  · intro a Q hq hex
    rcases gP a Q hq with h0 | ⟨rfl, rfl⟩
    · exact hB.deadLoans a Q h0 hex
    · exact hloans
  · intro a Q hq hex
    rcases gP a Q hq with h0 | ⟨rfl, rfl⟩
    · exact hB.histOk a Q h0 hex
    · rw [hhist]
      exact ⟨List.nodup_nil, fun c hm => by cases hm⟩
  · intro a c fr hfl
    obtain ⟨Q, hQ, rest⟩ := hB.flOk a c fr hfl
    exact ⟨Q, by rw [getP_addP, hQ]; rfl, rest⟩
  · intro cn hcn hsa Q S hq hex hS
    exact hB.inqOk cn hcn hsa Q S (gPc cn hcn Q hq) hex hS
  · intro cn hcn hsa Q hq hex
    exact hB.unatt cn hcn hsa Q (gPc cn hcn Q hq) hex
  · intro cn hcn Q S hq hS hor ch q hm
    exact hB.ppi cn hcn Q S (gPc cn hcn Q hq) hS hor ch q hm

theorem invB_addP_new (hA : InvA cfg none none w) (hB : InvB fl w) {p : Nat} (hfresh : getP w p = none) (ml : Nat) :
    InvB fl (addP w p (newPub w ml)) := by
  refine invB_addP hB hfresh (fun cn hcn hp => ?_) rfl rfl (by simp [newPub]) (by simp [newPub]) rfl rfl rfl rfl
  obtain ⟨⟨Q, hQ⟩, _⟩ := hA.ends cn hcn
  rw [hp, hfresh] at hQ; cases hQ

/-! ### the creation of a publisher failed -/

theorem usedCnt_dropPid (w : World) {p a : Nat} (hap : a ≠ p) (c : Nat) :
    usedCnt (dropPid w p) a c = usedCnt w a c := by
  unfold usedCnt dropPid
  simp only
  rw [List.filter_filter]
  congr 1
  apply List.filter_congr
  intro cn _
  by_cases h : cn.pid = a
  · simp [h, hap]
  · simp [h]

theorem invB_failPub (h : InvB fl w) (p : Nat) (hfl : ∀ c fr, fl ≠ some (p, c, fr)) :
    InvB fl (delP (dropPid w p) p) := by
  have gP : ∀ a Q, getP (delP (dropPid w p) p) a = some Q → a ≠ p ∧ getP w a = some Q := by
    intro a Q hq
    rw [getP_delP] at hq
    by_cases hap : a = p
    · rw [if_pos hap] at hq; cases hq
    · rw [if_neg hap] at hq; exact ⟨hap, hq⟩
  have hmem : ∀ cn, cn ∈ (delP (dropPid w p) p).conns → cn ∈ w.conns := by
    intro cn hcn
    have : cn ∈ w.conns.filter _ := hcn
    exact (List.mem_filter.mp this).1
  have hcnt : ∀ a c, a ≠ p → usedCnt (delP (dropPid w p) p) a c = usedCnt w a c :=
    fun a c hap => usedCnt_dropPid w hap c
  constructor
  · show (w.conns.filter _).Pairwise _
    exact h.keys.sublist List.filter_sublist
  · intro a Q hq; exact h.lens a Q (gP a Q hq).2
  · intro cn hcn Q hq; exact h.usedLen cn (hmem cn hcn) Q (gP _ Q hq).2
  · intro a Q hq; exact h.free a Q (gP a Q hq).2
  · intro a Q hq hex c hc
    obtain ⟨hap, h0⟩ := gP a Q hq
    rw [hcnt a c hap]; exact h.rc a Q h0 hex c hc
  · intro a Q hq; exact h.loans a Q (gP a Q hq).2
  · intro a Q hq; exact h.deadLoans a Q (gP a Q hq).2
  · intro a Q hq; exact h.histOk a Q (gP a Q hq).2
  · intro a c fr hfl'
    obtain ⟨Q, hQ, rest⟩ := h.flOk a c fr hfl'
    have hap : a ≠ p := fun hh => hfl c fr (hh ▸ hfl')
    exact ⟨Q, by rw [getP_delP, if_neg hap]; exact hQ, rest⟩
  · intro cn hcn hsa Q S hq hex hS
    exact h.inqOk cn (hmem cn hcn) hsa Q S (gP _ Q hq).2 hex hS
  · intro cn hcn hsa Q hq hex
    exact h.unatt cn (hmem cn hcn) hsa Q (gP _ Q hq).2 hex
  · intro cn hcn Q S hq hS hor ch q hm
    exact h.ppi cn (hmem cn hcn) Q S (gP _ Q hq).2 hS hor ch q hm

/-! ### a subscriber record is created / forgotten -/

theorem invB_addS (hB : InvB fl w) {s : Nat} (hends : ∀ cn ∈ w.conns, cn.sid ≠ s)
    (S : Sub) : InvB fl (addS w s S) := by
  have gS : ∀ cn ∈ w.conns, ∀ Q, getS (addS w s S) cn.sid = some Q → getS w cn.sid = some Q := by
    intro cn hcn Q hq
    rw [getS_addS] at hq
    cases h0 : getS w cn.sid with
    | some Q0 => rw [h0] at hq; simp at hq; rw [hq]
    | none =>
      rw [h0] at hq
      have := hends cn hcn
      simp [this] at hq
  constructor
  · exact hB.keys
  · exact hB.lens
  · exact hB.usedLen
  · exact hB.free
  · exact hB.rc
  · exact hB.loans
  · exact hB.deadLoans
  · exact hB.histOk
  · exact hB.flOk
  · intro cn hcn hsa Q S0 hq hex hS
    exact hB.inqOk cn hcn hsa Q S0 hq hex (gS cn hcn S0 hS)
  · exact hB.unatt
  · intro cn hcn Q S0 hq hS hor ch q hm
    exact hB.ppi cn hcn Q S0 hq (gS cn hcn S0 hS) hor ch q hm

theorem invB_addS_new (hA : InvA cfg none none w) (hB : InvB fl w) {s : Nat} (hfresh : getS w s = none) (S : Sub) :
    InvB fl (addS w s S) := by
  refine invB_addS hB (fun cn hcn hs => ?_) S
  obtain ⟨_, ⟨Q, hQ⟩⟩ := hA.ends cn hcn
  rw [hs, hfresh] at hQ; cases hQ

/-- forgetting a subscriber record only weakens the claims -/
theorem invB_delS (hB : InvB fl w) (s : Nat) : InvB fl (delS w s) := by
  have gS : ∀ a Q, getS (delS w s) a = some Q → getS w a = some Q := by
    intro a Q hq
    rw [getS_delS] at hq
    by_cases hap : a = s
    · rw [if_pos hap] at hq; cases hq
    · rw [if_neg hap] at hq; exact hq
  constructor
  · exact hB.keys
  · exact hB.lens
  · exact hB.usedLen
  · exact hB.free
  · exact hB.rc
  · exact hB.loans
  · exact hB.deadLoans
  · exact hB.histOk
  · exact hB.flOk
  · intro cn hcn hsa Q S0 hq hex hS
    exact hB.inqOk cn hcn hsa Q S0 hq hex (gS _ S0 hS)
  · exact hB.unatt
  · intro cn hcn Q S0 hq hS hor ch q hm
    exact hB.ppi cn hcn Q S0 hq (gS _ S0 hS) hor ch q hm

end Iox2.PubSub.C01P
