/-
C02 — `deliverTo`, `deliverHistory` and the delivery loop of `send` preserve the invariant.
-/
import Iox2.Proof.PubSubC02Retrieve

namespace Iox2.PubSub.C02P
open Iox2.PubSub
open Iox2.C16.SlotMapP (abs WInv)

/-! ### the frame of the publisher-side accounting operations -/

/-- frame of the publisher-side accounting operations on publisher `p` -/
structure PubRel (p : Nat) (w w' : World) : Prop where
  cfg : w'.cfg = w.cfg
  pubReg : w'.pubReg = w.pubReg
  subReg : w'.subReg = w.subReg
  panicked : w'.panicked = w.panicked
  subs : ∀ t, getS w' t = getS w t
  pubs : ∀ q, (getP w' q).map eraseRF = (getP w q).map eraseRF
  connsO : ∀ a b, a ≠ p → getC w' a b = getC w a b
  connsP : ∀ b, (getC w' p b).map ctop = (getC w p b).map ctop

theorem PubRel.refl (p : Nat) (w : World) : PubRel p w w :=
  ⟨rfl, rfl, rfl, rfl, fun _ => rfl, fun _ => rfl, fun _ _ _ => rfl, fun _ => rfl⟩

theorem PubRel.trans {p : Nat} {w1 w2 w3 : World} (h1 : PubRel p w1 w2) (h2 : PubRel p w2 w3) :
    PubRel p w1 w3 :=
  ⟨h2.cfg.trans h1.cfg, h2.pubReg.trans h1.pubReg, h2.subReg.trans h1.subReg,
   h2.panicked.trans h1.panicked, fun t => (h2.subs t).trans (h1.subs t),
   fun q => (h2.pubs q).trans (h1.pubs q),
   fun a b hab => (h2.connsO a b hab).trans (h1.connsO a b hab),
   fun b => (h2.connsP b).trans (h1.connsP b)⟩

/-- the publisher `p` of the later world: same history, same connection array -/
theorem PubRel.pub_fwd {p : Nat} {w w' : World} (h : PubRel p w w') {q : Nat} {P : Pub}
    (hP : getP w q = some P) :
    ∃ P', getP w' q = some P' ∧ eraseRF P' = eraseRF P ∧ P'.conns = P.conns ∧ P'.hist = P.hist ∧
      P'.n = P.n := by
  obtain ⟨P', hP', e⟩ := map_eq_some_left (h.pubs q).symm hP
  refine ⟨P', hP', e.symm, ?_, ?_, ?_⟩
  · have := congrArg Pub.conns e; simpa [eraseRF] using this.symm
  · have := congrArg Pub.hist e; simpa [eraseRF] using this.symm
  · have := congrArg Pub.n e; simpa [eraseRF] using this.symm

/-- the world `w'` is `w` with publisher `p` replaced by `P'` and connection `(p, s)` by `c'` -/
structure Upd (w w' : World) (p s : Nat) (P' : Pub) (c' : Conn) : Prop where
  cfg : w'.cfg = w.cfg
  pubReg : w'.pubReg = w.pubReg
  subReg : w'.subReg = w.subReg
  panicked : w'.panicked = w.panicked
  subs : ∀ t, getS w' t = getS w t
  pubs : ∀ q, getP w' q = if q = p then some P' else getP w q
  conns : ∀ a b, getC w' a b = if a = p ∧ b = s then some c' else getC w a b

theorem upd_PC {w : World} {p s : Nat} {P : Pub} {c : Conn} (P' : Pub) {c' : Conn}
    (hP : getP w p = some P) (hC : getC w p s = some c) (ec : ctop c' = ctop c) :
    Upd w (setC (setP w p P') c') p s P' c' := by
  obtain ⟨g1, g2, g3, _, _⟩ := get_update_PC (P' := P') hP hC ec
  exact ⟨rfl, rfl, rfl, rfl, g3, g1, g2⟩

theorem upd_C {w : World} {p s : Nat} {P : Pub} {c : Conn} {c' : Conn}
    (hP : getP w p = some P) (hC : getC w p s = some c) (ec : ctop c' = ctop c) :
    Upd w (setC w c') p s P c' := by
  obtain ⟨hpid, hsid, _⟩ := getC_some hC
  obtain ⟨g1, g2, _, _⟩ := ctop_eq ec
  refine ⟨rfl, rfl, rfl, rfl, fun _ => rfl, ?_, ?_⟩
  · intro q
    rw [getP_setC]
    split
    · rename_i h; rw [h, hP]
    · rfl
  · intro a b
    rw [getC_setC]
    simp only [g1, g2, hpid, hsid]
    split
    · rename_i h; rw [h.1, h.2, hC]; rfl
    · rfl

theorem Upd.trans {w w1 w2 : World} {p s : Nat} {P1 P2 : Pub} {c1 c2 : Conn}
    (h1 : Upd w w1 p s P1 c1) (h2 : Upd w1 w2 p s P2 c2) : Upd w w2 p s P2 c2 := by
  refine ⟨h2.cfg.trans h1.cfg, h2.pubReg.trans h1.pubReg, h2.subReg.trans h1.subReg,
    h2.panicked.trans h1.panicked, fun t => (h2.subs t).trans (h1.subs t), ?_, ?_⟩
  · intro q; rw [h2.pubs, h1.pubs]; split <;> rfl
  · intro a b; rw [h2.conns, h1.conns]; split <;> rfl

theorem Upd.obsEq {w w1 w2 : World} {p s : Nat} {P' : Pub} {c' : Conn}
    (h1 : Upd w w1 p s P' c') (h2 : Upd w w2 p s P' c')
    (hn : w2.conns.Pairwise fun a b => ¬ (a.pid = b.pid ∧ a.sid = b.sid)) : ObsEq w1 w2 :=
  ⟨h2.cfg.trans h1.cfg.symm, h2.pubReg.trans h1.pubReg.symm, h2.subReg.trans h1.subReg.symm,
   fun q => by rw [h2.pubs, h1.pubs], fun t => by rw [h2.subs, h1.subs],
   fun a b => by rw [h2.conns, h1.conns], hn⟩

theorem Upd.pubRel {w w' : World} {p s : Nat} {P P' : Pub} {c c' : Conn}
    (h : Upd w w' p s P' c') (hP : getP w p = some P) (hC : getC w p s = some c)
    (e : eraseRF P' = eraseRF P) (ec : ctop c' = ctop c) : PubRel p w w' := by
  refine ⟨h.cfg, h.pubReg, h.subReg, h.panicked, h.subs, ?_, ?_, ?_⟩
  · intro q; rw [h.pubs]; split
    · rename_i hq; rw [hq, hP]; simp [e]
    · rfl
  · intro a b hab; rw [h.conns]; simp [hab]
  · intro b; rw [h.conns]; split
    · rename_i hq; rw [hq.2, hC]; simp [ec]
    · rfl

end Iox2.PubSub.C02P
