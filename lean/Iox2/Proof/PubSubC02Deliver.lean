/-
C02 — `deliverTo`, `deliverHistory` and the delivery loop of `send` preserve the invariant.
-/
import Iox2.Proof.PubSubC02Retrieve

namespace Iox2.PubSub.C02P
open Iox2.PubSub
open Iox2.C16.SlotMapP (abs WInv)

/-! ### the frame of the publisher-side accounting operations -/

/-- frame of the publisher-side accounting operations on publisher `p` -/
structure PubRel (p : Nat) (w w' : World) : Prop where
  cfg : w'.cfg = w.cfg
  pubReg : w'.pubReg = w.pubReg
  subReg : w'.subReg = w.subReg
  panicked : w'.panicked = w.panicked
  subs : ∀ t, getS w' t = getS w t
  pubs : ∀ q, (getP w' q).map eraseRF = (getP w q).map eraseRF
  connsO : ∀ a b, a ≠ p → getC w' a b = getC w a b
  connsP : ∀ b, (getC w' p b).map ctop = (getC w p b).map ctop

theorem PubRel.refl (p : Nat) (w : World) : PubRel p w w :=
  ⟨rfl, rfl, rfl, rfl, fun _ => rfl, fun _ => rfl, fun _ _ _ => rfl, fun _ => rfl⟩

theorem PubRel.trans {p : Nat} {w1 w2 w3 : World} (h1 : PubRel p w1 w2) (h2 : PubRel p w2 w3) :
    PubRel p w1 w3 :=
  ⟨h2.cfg.trans h1.cfg, h2.pubReg.trans h1.pubReg, h2.subReg.trans h1.subReg,
   h2.panicked.trans h1.panicked, fun t => (h2.subs t).trans (h1.subs t),
   fun q => (h2.pubs q).trans (h1.pubs q),
   fun a b hab => (h2.connsO a b hab).trans (h1.connsO a b hab),
   fun b => (h2.connsP b).trans (h1.connsP b)⟩

/-- the publisher `p` of the later world: same history, same connection array -/
theorem PubRel.pub_fwd {p : Nat} {w w' : World} (h : PubRel p w w') {q : Nat} {P : Pub}
    (hP : getP w q = some P) :
    ∃ P', getP w' q = some P' ∧ eraseRF P' = eraseRF P ∧ P'.conns = P.conns ∧ P'.hist = P.hist ∧
      P'.n = P.n := by
  obtain ⟨P', hP', e⟩ := map_eq_some_left (h.pubs q).symm hP
  refine ⟨P', hP', e.symm, ?_, ?_, ?_⟩
  · have := congrArg Pub.conns e; simpa [eraseRF] using this.symm
  · have := congrArg Pub.hist e; simpa [eraseRF] using this.symm
  · have := congrArg Pub.n e; simpa [eraseRF] using this.symm

/-- the world `w'` is `w` with publisher `p` replaced by `P'` and connection `(p, s)` by `c'` -/
structure Upd (w w' : World) (p s : Nat) (P' : Pub) (c' : Conn) : Prop where
  cfg : w'.cfg = w.cfg
  pubReg : w'.pubReg = w.pubReg
  subReg : w'.subReg = w.subReg
  panicked : w'.panicked = w.panicked
  subs : ∀ t, getS w' t = getS w t
  pubs : ∀ q, getP w' q = if q = p then some P' else getP w q
  conns : ∀ a b, getC w' a b = if a = p ∧ b = s then some c' else getC w a b

theorem upd_PC {w : World} {p s : Nat} {P : Pub} {c : Conn} (P' : Pub) {c' : Conn}
    (hP : getP w p = some P) (hC : getC w p s = some c) (ec : ctop c' = ctop c) :
    Upd w (setC (setP w p P') c') p s P' c' := by
  obtain ⟨g1, g2, g3, _, _⟩ := get_update_PC (P' := P') hP hC ec
  exact ⟨rfl, rfl, rfl, rfl, g3, g1, g2⟩

theorem upd_C {w : World} {p s : Nat} {P : Pub} {c : Conn} {c' : Conn}
    (hP : getP w p = some P) (hC : getC w p s = some c) (ec : ctop c' = ctop c) :
    Upd w (setC w c') p s P c' := by
  obtain ⟨hpid, hsid, _⟩ := getC_some hC
  obtain ⟨g1, g2, _, _⟩ := ctop_eq ec
  refine ⟨rfl, rfl, rfl, rfl, fun _ => rfl, ?_, ?_⟩
  · intro q
    rw [getP_setC]
    split
    · rename_i h; rw [h, hP]
    · rfl
  · intro a b
    rw [getC_setC]
    simp only [g1, g2, hpid, hsid]
    split
    · rename_i h; rw [h.1, h.2, hC]; rfl
    · rfl

theorem Upd.trans {w w1 w2 : World} {p s : Nat} {P1 P2 : Pub} {c1 c2 : Conn}
    (h1 : Upd w w1 p s P1 c1) (h2 : Upd w1 w2 p s P2 c2) : Upd w w2 p s P2 c2 := by
  refine ⟨h2.cfg.trans h1.cfg, h2.pubReg.trans h1.pubReg, h2.subReg.trans h1.subReg,
    h2.panicked.trans h1.panicked, fun t => (h2.subs t).trans (h1.subs t), ?_, ?_⟩
  · intro q; rw [h2.pubs, h1.pubs]; split <;> rfl
  · intro a b; rw [h2.conns, h1.conns]; split <;> rfl

theorem Upd.obsEq {w w1 w2 : World} {p s : Nat} {P' : Pub} {c' : Conn}
    (h1 : Upd w w1 p s P' c') (h2 : Upd w w2 p s P' c')
    (hn : w2.conns.Pairwise fun a b => ¬ (a.pid = b.pid ∧ a.sid = b.sid)) : ObsEq w1 w2 :=
  ⟨h2.cfg.trans h1.cfg.symm, h2.pubReg.trans h1.pubReg.symm, h2.subReg.trans h1.subReg.symm,
   fun q => by rw [h2.pubs, h1.pubs], fun t => by rw [h2.subs, h1.subs],
   fun a b => by rw [h2.conns, h1.conns], hn⟩

theorem Upd.pubRel {w w' : World} {p s : Nat} {P P' : Pub} {c c' : Conn}
    (h : Upd w w' p s P' c') (hP : getP w p = some P) (hC : getC w p s = some c)
    (e : eraseRF P' = eraseRF P) (ec : ctop c' = ctop c) : PubRel p w w' := by
  refine ⟨h.cfg, h.pubReg, h.subReg, h.panicked, h.subs, ?_, ?_, ?_⟩
  · intro q; rw [h.pubs]; split
    · rename_i hq; rw [hq, hP]; simp [e]
    · rfl
  · intro a b hab; rw [h.conns]; simp [hab]
  · intro b; rw [h.conns]; split
    · rename_i hq; rw [hq.2, hC]; simp [ec]
    · rfl

/-! ### `retrieveReturned` stays within the frame -/

theorem releaseChunk_eraseRF (P : Pub) (c : Nat) : eraseRF (P.releaseChunk c) = eraseRF P := by
  simp only [Pub.releaseChunk]; split <;> rfl

theorem borrowChunk_eraseRF (P : Pub) (c : Nat) : eraseRF (P.borrowChunk c) = eraseRF P := rfl

theorem drainComp_eraseRF : ∀ (comp : List Nat) (P : Pub) (used : List Bool),
    eraseRF (drainComp P used comp).1 = eraseRF P := by
  intro comp
  induction comp with
  | nil => intro P used; rfl
  | cons ch r ih =>
    intro P used
    simp only [drainComp]
    split
    · rw [ih, releaseChunk_eraseRF]
    · exact ih P used

theorem retrieveFrom_pubRel {p : Nat} : ∀ (slots : List (Option Nat)) (w : World),
    PubRel p w (retrieveFrom w p slots) := by
  intro slots
  induction slots with
  | nil => intro w; exact PubRel.refl p w
  | cons x r ih =>
    intro w
    cases x with
    | none => simp only [retrieveFrom]; exact ih w
    | some s =>
      simp only [retrieveFrom]
      split
      · rename_i P c hP hC
        refine PubRel.trans ?_ (ih _)
        exact (upd_PC _ hP hC (c' := { c with comp := [], used := (drainComp P c.used c.comp).2 })
          rfl).pubRel hP hC (drainComp_eraseRF _ _ _) rfl
      · exact ih w

theorem retrieveReturned_pubRel' (w : World) (p : Nat) : PubRel p w (retrieveReturned w p) := by
  unfold retrieveReturned
  split
  · exact PubRel.refl p w
  · exact retrieveFrom_pubRel _ w

theorem retrieveReturned_pubRel {G : GT} {A : GA} {w : World} {p : Nat} (_hi : Inv G A w) :
    PubRel p w (retrieveReturned w p) := retrieveReturned_pubRel' w p

/-! ### the outcomes of `try_send` -/

theorem trySend_cases (c : Conn) (ov : Bool) (chunk seq : Nat) :
    (∃ c', c.trySend ov chunk seq = (c', .full) ∧ ctop c' = ctop c ∧ c'.cap = c.cap ∧
      c'.sub = c.sub ∧ c'.comp = c.comp ∧ c'.used = c.used ∧ c'.borrow = c.borrow) ∨
    (∃ c', c.trySend ov chunk seq = (c', .ok none) ∧ c.sub.length < max c.cap 1 ∧
      ctop c' = ctop c ∧ c'.cap = c.cap ∧
      c'.sub = c.sub ++ [(chunk, seq)] ∧ c'.comp = c.comp ∧ c'.used = c.used.set chunk true ∧
      c'.borrow = c.borrow) ∨
    (∃ c' old oseq rest, c.sub = (old, oseq) :: rest ∧
      (c.used.set chunk true).getD old false = true ∧
      c.trySend ov chunk seq = (c', .ok (some old)) ∧ ctop c' = ctop c ∧ c'.cap = c.cap ∧
      c'.sub = rest ++ [(chunk, seq)] ∧ c'.comp = c.comp ∧
      c'.used = (c.used.set chunk true).set old false ∧ c'.borrow = c.borrow) ∨
    (∃ c' old oseq rest, c.sub = (old, oseq) :: rest ∧
      (c.used.set chunk true).getD old false = false ∧
      c.trySend ov chunk seq = (c', .corrupted) ∧ ctop c' = ctop c ∧
      c'.comp = c.comp ∧ c'.used = c.used.set chunk true) := by
  simp only [Conn.trySend]
  split
  · exact Or.inl ⟨_, rfl, rfl, rfl, rfl, rfl, rfl, rfl⟩
  · split
    · rename_i hfull
      cases hsub : c.sub with
      | nil =>
        refine Or.inr (Or.inl ⟨_, rfl, ?_, rfl, rfl, rfl, rfl, rfl, rfl⟩)
        show 0 < max c.cap 1; omega
      | cons a rest =>
        obtain ⟨old, oseq⟩ := a
        simp only
        split
        · rename_i hu
          exact Or.inr (Or.inr (Or.inl ⟨_, old, oseq, rest, rfl, hu, rfl, rfl, rfl, rfl, rfl, rfl, rfl⟩))
        · rename_i hu
          refine Or.inr (Or.inr (Or.inr ⟨_, old, oseq, rest, rfl, ?_, rfl, rfl, rfl, rfl⟩))
          simpa using hu
    · rename_i hfull
      refine Or.inr (Or.inl ⟨_, rfl, ?_, rfl, rfl, rfl, rfl, rfl, rfl⟩)
      simp only [ge_iff_le, Nat.not_le] at hfull
      omega

/-! ### elementary accounting steps -/

/-- only the connection `(p, s)` changes, its used bits do not -/
theorem Inv.update_C {G : GT} {A : GA} {w : World} {p s : Nat} {P : Pub} {c c' : Conn}
    (hi : Inv G A w) (hP : getP w p = some P) (hC : getC w p s = some c)
    (ec : ctop c' = ctop c) (hu : c'.used = c.used)
    (hca : ∀ S, getS w s = some S → ConnAcc w.cfg c' P S) : Inv G A (setC w c') := by
  obtain ⟨_, _, _, hubo, hub1⟩ := get_update_PC (P' := P) hP hC ec
  have h1 : Inv G A (setC (setP w p P) c') := by
    refine hi.update_PC hP hC rfl ec rfl rfl ?_ (hi.acc.pubs p P hP).2 hca
    intro hex
    refine ((hi.acc.pubs p P hP).1 hex).congr ?_
    intro t x _
    by_cases hts : t = s
    · subst hts; rw [hub1, hu, usedBit_of_getC hC]
    · exact hubo p t x (fun h => hts h.2)
  exact h1.ext ((upd_PC P hP hC ec).obsEq (upd_C hP hC ec) (nodup_setC _ hi.top.reg.nodup))

theorem borrow_release_comm (P : Pub) {a b : Nat} (hab : a ≠ b) :
    (P.borrowChunk a).releaseChunk b = (P.releaseChunk b).borrowChunk a := by
  have h1 : (P.rc.set a (P.rc.getD a 0 + 1)).getD b 0 = P.rc.getD b 0 := by
    rw [getD_set_nat, if_neg (fun h => hab h.1)]
  have h2 : (P.rc.set b (P.rc.getD b 0 - 1)).getD a 0 = P.rc.getD a 0 := by
    rw [getD_set_nat, if_neg (fun h => hab h.1.symm)]
  have h3 : (P.rc.set a (P.rc.getD a 0 + 1)).set b (P.rc.getD b 0 - 1) =
      (P.rc.set b (P.rc.getD b 0 - 1)).set a (P.rc.getD a 0 + 1) := List.set_comm _ _ hab
  simp only [Pub.releaseChunk, Pub.borrowChunk, h1]
  split
  · simp only [h2, h3]
  · simp only [h2, h3]

/-- a chunk is appended to a submission queue that has room (`borrow_chunk`, `used[chunk] := true`) -/
theorem push_inv {G : GT} {A : GA} {w : World} {p s chunk seq : Nat} {P : Pub} {c c' : Conn}
    (hi : Inv G A w) (hP : getP w p = some P) (hC : getC w p s = some c) (hs : c.sAtt = true)
    (hcomp : c.comp = []) (hlen : c.sub.length < max c.cap 1)
    (hub : c.used.getD chunk false = false)
    (hch : chunk ∈ P.hist ∨ (A.xp = some (p, chunk) ∧ A.xFresh = false))
    (ec : ctop c' = ctop c) (hcap : c'.cap = c.cap) (hsub : c'.sub = c.sub ++ [(chunk, seq)])
    (hcomp' : c'.comp = c.comp) (hused : c'.used = c.used.set chunk true)
    (hbor : c'.borrow = c.borrow) :
    Inv G A (setC (setP w p (P.borrowChunk chunk)) c') := by
  obtain ⟨hpid, hsid, hmem, hex, pa, S, hS, ct, ca⟩ := hi.sender hP hC hs
  have huniq := hi.top.conn_unique hP (s := s)
  obtain ⟨g1, g2, g3, g4⟩ := ctop_eq ec
  have hlt : chunk < P.n := by
    rcases hch with h | h
    · exact pa.histLt _ h
    · exact pa.xLt _ h.1
  have hul : chunk < c.used.length := by rw [ca.usedLen]; exact hlt
  have hrl : chunk < P.rc.length := by rw [pa.free.rcLen]; exact hlt
  have e0 := pa.rcEq chunk hlt
  have hpos : 1 ≤ (P.hist.filter (· = chunk)).length + extra A p chunk := by
    rcases hch with h | h
    · have : 1 ≤ (P.hist.filter (· = chunk)).length := by
        apply List.length_pos_of_mem (a := chunk); simp [List.mem_filter, h]
      omega
    · have : extra A p chunk = 1 := by simp [extra, h.1]
      omega
  have hnf : chunk ∉ flight c S := by
    intro h; have := (ca.used hs chunk).mpr h; rw [hub] at this; cases this
  obtain ⟨_, _, _, hubo, hub1⟩ := get_update_PC (P' := P.borrowChunk chunk) hP hC ec
  refine hi.update_PC hP hC (borrowChunk_ptop P chunk) ec rfl rfl ?_
    (fun h => by rw [hex] at h; cases h) ?_
  · intro _
    refine ⟨pa.free.borrow (fun _ => by unfold refCnt at e0; omega), ?_, ?_, pa.loanLbl,
      pa.histNodup, pa.histLt, pa.xLt, ?_⟩
    · intro c1 hc1
      rw [borrowChunk_rc, getD_set_nat]
      have key := connCnt_change_one (w := w) (w' := setC (setP w p (P.borrowChunk chunk)) c')
        (p := p) (c := c1) hmem huniq (fun t ht => hubo p t c1 (fun h => ht h.2))
      rw [hub1, hused, getD_set_bool, usedBit_of_getC hC] at key
      have e1 := pa.rcEq c1 hc1
      unfold refCnt at e1 ⊢
      simp only [borrowChunk_loans, borrowChunk_hist, borrowChunk_conns]
      by_cases hcc : chunk = c1
      · subst hcc
        simp only [true_and, hul, hrl, if_true, hub] at key ⊢
        simp at key
        omega
      · have h1 : ¬ (chunk = c1 ∧ chunk < c.used.length) := fun h => hcc h.1
        have h2 : ¬ (chunk = c1 ∧ chunk < P.rc.length) := fun h => hcc h.1
        simp only [h1, h2, if_false] at key ⊢
        omega
    · intro l c1 hl
      rw [borrowChunk_loans] at hl
      obtain ⟨h1, h2⟩ := pa.loans l c1 hl
      refine ⟨h1, ?_⟩
      rw [borrowChunk_rc, getD_set_nat]
      by_cases hcc : chunk = c1
      · subst hcc; exfalso
        unfold refCnt at e0
        have : 1 ≤ (P.loans.filter (·.2 = chunk)).length := by
          apply List.length_pos_of_mem (a := (l, chunk)); simp [List.mem_filter, hl]
        omega
      · rw [if_neg (fun h => hcc h.1)]; exact h2
    · intro c1 hx hf
      have h2 := pa.xFresh c1 hx hf
      rw [borrowChunk_rc, getD_set_nat]
      by_cases hcc : chunk = c1
      · subst hcc; exfalso
        have hh : chunk ∈ P.hist := by
          rcases hch with h | h
          · exact h
          · rw [hf] at h; cases h.2
        have : 1 ≤ (P.hist.filter (· = chunk)).length := by
          apply List.length_pos_of_mem (a := chunk); simp [List.mem_filter, hh]
        have : extra A p chunk = 1 := by simp [extra, hx]
        unfold refCnt at e0
        omega
      · rw [if_neg (fun h => hcc h.1)]; exact h2
  · intro S' hS'
    rw [hS] at hS'; cases hS'
    have hfl : (flight c' S).Perm (chunk :: flight c S) := by
      simp only [flight, hsub, hcomp', hcomp, g1, List.map_append, List.map_cons, List.map_nil,
        List.append_nil, List.append_assoc, List.singleton_append]
      exact List.perm_middle
    refine ⟨by rw [hused, List.length_set]; exact ca.usedLen, ?_, by rw [hbor]; exact ca.borrowMax,
      ?_, by rw [hbor, g1]; exact ca.borrow, ?_, ?_, ?_⟩
    · rw [hsub, hcap, List.length_append]; simp only [List.length_singleton]; omega
    · have := ca.borrowMax
      rw [hsub, hcap, hbor, hcomp', hcomp, List.length_append]
      simp only [List.length_singleton, List.length_nil]; omega
    · intro _
      rw [hfl.nodup_iff, List.nodup_cons]
      exact ⟨hnf, ca.nodup hs⟩
    · intro _ x
      rw [hfl.mem_iff, hused, getD_set_bool, List.mem_cons]
      by_cases hx : chunk = x
      · subst hx; simp [hul]
      · rw [if_neg (fun h => hx h.1), ca.used hs x]
        constructor
        · intro h; exact Or.inr h
        · rintro (h | h)
          · exact absurd h.symm hx
          · exact h
    · intro h; rw [g3, hs] at h; cases h

/-- `ConnAcc` only reads the accounting fields of the connection -/
theorem ConnAcc.of_fields {cfg : Cfg} {c c' : Conn} {P : Pub} {S : Sub} (h : ConnAcc cfg c P S)
    (ec : ctop c' = ctop c) (hcap : c'.cap = c.cap) (hsub : c'.sub = c.sub)
    (hcomp : c'.comp = c.comp) (hused : c'.used = c.used) (hbor : c'.borrow = c.borrow) :
    ConnAcc cfg c' P S := by
  obtain ⟨g1, g2, g3, g4⟩ := ctop_eq ec
  have hf : flight c' S = flight c S := by unfold flight; rw [hsub, hcomp, g1]
  exact ⟨by rw [hused]; exact h.usedLen, by rw [hsub, hcap]; exact h.subCap,
    by rw [hbor]; exact h.borrowMax, by rw [hsub, hcap, hbor, hcomp]; exact h.total,
    by rw [hbor, g1]; exact h.borrow, by rw [hf, g3]; exact h.nodup,
    by rw [hf, g3, hused]; exact h.used, by rw [g3, hused, hsub, hcomp, hbor]; exact h.idle⟩

/-- the oldest entry of the submission queue is handed over to the completion queue -/
theorem move_inv {G : GT} {A : GA} {w : World} {p s : Nat} {P : Pub} {c : Conn}
    {old oseq : Nat} {rest : List (Nat × Nat)}
    (hi : Inv G A w) (hP : getP w p = some P) (hC : getC w p s = some c) (hs : c.sAtt = true)
    (hsub : c.sub = (old, oseq) :: rest) (hcomp : c.comp = []) :
    Inv G A (setC w { c with sub := rest, comp := [old] }) := by
  obtain ⟨hpid, hsid, hmem, hex, pa, S, hS, ct, ca⟩ := hi.sender hP hC hs
  refine hi.update_C hP hC rfl rfl ?_
  intro S' hS'; rw [hS] at hS'; cases hS'
  have hfl : (flight { c with sub := rest, comp := [old] } S).Perm (flight c S) := by
    simp only [flight, hsub, hcomp, List.map_cons, List.append_nil, List.cons_append,
      List.append_assoc, List.nil_append]
    exact List.perm_middle
  refine ⟨ca.usedLen, ?_, ca.borrowMax, ?_, ca.borrow, ?_, ?_, ?_⟩
  · have := ca.subCap; rw [hsub] at this; simp only [List.length_cons] at this ⊢; omega
  · have := ca.total; rw [hsub, hcomp] at this
    simp only [List.length_cons, List.length_nil] at this ⊢; omega
  · intro _; rw [hfl.nodup_iff]; exact ca.nodup hs
  · intro _ x; rw [hfl.mem_iff]; exact ca.used hs x
  · intro h
    have h' : c.sAtt = false := h
    rw [hs] at h'; cases h'

/-- safe overflow: the oldest entry is evicted (`release_chunk`), the new chunk is appended -/
theorem evict_inv {G : GT} {A : GA} {w : World} {p s chunk seq : Nat} {P : Pub} {c c' : Conn}
    {old oseq : Nat} {rest : List (Nat × Nat)}
    (hi : Inv G A w) (hP : getP w p = some P) (hC : getC w p s = some c) (hs : c.sAtt = true)
    (hcomp : c.comp = []) (hsub0 : c.sub = (old, oseq) :: rest)
    (hub : c.used.getD chunk false = false)
    (hch : chunk ∈ P.hist ∨ (A.xp = some (p, chunk) ∧ A.xFresh = false))
    (ec : ctop c' = ctop c) (hcap : c'.cap = c.cap) (hsub : c'.sub = rest ++ [(chunk, seq)])
    (hcomp' : c'.comp = c.comp) (hused : c'.used = (c.used.set chunk true).set old false)
    (hbor : c'.borrow = c.borrow) :
    Inv G A (setC (setP w p ((P.borrowChunk chunk).releaseChunk old)) c') := by
  obtain ⟨hpid, hsid, hmem, hex, pa, S, hS, ct, ca⟩ := hi.sender hP hC hs
  -- step 1: hand the oldest entry over
  have hi1 := move_inv hi hP hC hs hsub0 hcomp
  generalize hc1 : ({ c with sub := rest, comp := [old] } : Conn) = c1 at hi1
  have ec1 : ctop c1 = ctop c := by subst hc1; rfl
  have u1 : Upd w (setC w c1) p s P c1 := upd_C hP hC ec1
  have hP1 : getP (setC w c1) p = some P := by rw [u1.pubs]; simp
  have hC1 : getC (setC w c1) p s = some c1 := by rw [u1.conns]; simp
  have hs1 : c1.sAtt = true := by subst hc1; exact hs
  have hcomp1 : c1.comp = old :: [] := by subst hc1; rfl
  -- step 2: drain it
  obtain ⟨hold1, hi2⟩ := drain_one hi1 hP1 hC1 hs1 hcomp1
  have hold : c.used.getD old false = true := by subst hc1; exact hold1
  have hne : chunk ≠ old := by
    intro h; rw [h, hold] at hub; cases hub
  generalize hc2 : ({ c1 with comp := [], used := c1.used.set old false } : Conn) = c2 at hi2
  have ec2 : ctop c2 = ctop c1 := by subst hc2; rfl
  have u2 := upd_PC (P.releaseChunk old) hP1 hC1 ec2
  generalize hw2 : setC (setP (setC w c1) p (P.releaseChunk old)) c2 = w2 at hi2 u2
  have hP2 : getP w2 p = some (P.releaseChunk old) := by rw [u2.pubs]; simp
  have hC2 : getC w2 p s = some c2 := by rw [u2.conns]; simp
  have f1 : c2.sAtt = true := by subst hc2; exact hs1
  have f2 : c2.comp = [] := by subst hc2; rfl
  have f3 : c2.sub = rest := by subst hc2; subst hc1; rfl
  have f4 : c2.cap = c.cap := by subst hc2; subst hc1; rfl
  have f5 : c2.used = c.used.set old false := by subst hc2; subst hc1; rfl
  have f6 : c2.borrow = c.borrow := by subst hc2; subst hc1; rfl
  -- step 3: push
  have ec3 : ctop c' = ctop c2 := by rw [ec, ec2, ec1]
  have hi3 := push_inv (seq := seq) (chunk := chunk) (c' := c') hi2 hP2 hC2 f1 f2
    (by have := ca.subCap; rw [hsub0] at this; simp only [List.length_cons] at this
        rw [f3, f4]; omega)
    (by rw [f5, getD_set_bool]; split
        · rfl
        · exact hub)
    (by rw [releaseChunk_hist]; exact hch) ec3 (by rw [hcap, f4]) (by rw [hsub, f3])
    (by rw [hcomp', hcomp, f2]) (by rw [hused, f5]; exact List.set_comm _ _ hne) (by rw [hbor, f6])
  have u3 := upd_PC ((P.releaseChunk old).borrowChunk chunk) hP2 hC2 ec3
  have u := upd_PC ((P.borrowChunk chunk).releaseChunk old) hP hC ec
  rw [borrow_release_comm P hne] at u ⊢
  exact hi3.ext (((u1.trans u2).trans u3).obsEq u (nodup_setC _ hi.top.reg.nodup))

/-! ### `deliverTo` -/

theorem setP_setC_comm (w : World) (p : Nat) (P : Pub) (c : Conn) :
    setP (setC w c) p P = setC (setP w p P) c := rfl

theorem deliverTo_inv {G : GT} {A : GA} {w : World} {p s chunk seq : Nat} {P : Pub}
    (hi : Inv G A w) (hP : getP w p = some P) (hm : some s ∈ P.conns)
    (hcomp : ∀ c, getC w p s = some c → c.comp = [])
    (hub : usedBit w p s chunk = false)
    (hch : chunk ∈ P.hist ∨ (A.xp = some (p, chunk) ∧ A.xFresh = false)) :
    Inv G A (deliverTo w p s chunk seq).1 ∧ PubRel p w (deliverTo w p s chunk seq).1 ∧
    (∀ b, b ≠ s → getC (deliverTo w p s chunk seq).1 p b = getC w p b) ∧
    (∀ x, x ≠ chunk → usedBit (deliverTo w p s chunk seq).1 p s x = true → usedBit w p s x = true) ∧
    (∀ c c', getC w p s = some c → getC (deliverTo w p s chunk seq).1 p s = some c' → c'.comp = c.comp) := by
  obtain ⟨c, hC, hs⟩ := mem_conns_getC hi.top hP hm
  have hcomp0 := hcomp c hC
  have hub0 : c.used.getD chunk false = false := by rw [← usedBit_of_getC hC]; exact hub
  obtain ⟨hpid, hsid, hmem, hex, pa, S, hS, ct, ca⟩ := hi.sender hP hC hs
  have main : ∃ P' c', Inv G A (deliverTo w p s chunk seq).1 ∧
      Upd w (deliverTo w p s chunk seq).1 p s P' c' ∧ eraseRF P' = eraseRF P ∧ ctop c' = ctop c ∧
      c'.comp = c.comp ∧
      (∀ x, x ≠ chunk → c'.used.getD x false = true → c.used.getD x false = true) := by
    have hset : ∀ x, x ≠ chunk → (c.used.set chunk true).getD x false = true →
        c.used.getD x false = true := by
      intro x hx h
      rw [getD_set_bool, if_neg (fun h => hx h.1.symm)] at h
      exact h
    simp only [deliverTo, hP, hC]
    rcases trySend_cases c w.cfg.overflow chunk seq with
      ⟨c', hts, ec, hcap, hsub, hcm, hus, hbo⟩ | ⟨c', hts, hlen, ec, hcap, hsub, hcm, hus, hbo⟩ |
      ⟨c', old, oseq, rest, hsub0, hu, hts, ec, hcap, hsub, hcm, hus, hbo⟩ |
      ⟨c', old, oseq, rest, hsub0, hu, hts, ec, hcm, hus⟩
    · -- queue full, no overflow
      rw [hts]
      refine ⟨P, c', ?_, upd_C hP hC ec, rfl, ec, hcm, ?_⟩
      · exact hi.update_C hP hC ec hus (fun S' hS' => by
          rw [hS] at hS'; cases hS'
          exact ca.of_fields ec hcap hsub hcm hus hbo)
      · intro x _ h; rw [hus] at h; exact h
    · -- room in the queue
      rw [hts]
      simp only [setP_setC_comm]
      refine ⟨P.borrowChunk chunk, c', ?_, upd_PC _ hP hC ec, rfl, ec, hcm, ?_⟩
      · exact push_inv hi hP hC hs hcomp0 hlen hub0 hch ec hcap hsub hcm hus hbo
      · intro x hx h; rw [hus] at h; exact hset x hx h
    · -- overflow
      rw [hts]
      simp only [setP_setC_comm]
      refine ⟨(P.borrowChunk chunk).releaseChunk old, c', ?_, upd_PC _ hP hC ec, ?_, ec, hcm, ?_⟩
      · exact evict_inv hi hP hC hs hcomp0 hsub0 hub0 hch ec hcap hsub hcm hus hbo
      · rw [releaseChunk_eraseRF, borrowChunk_eraseRF]
      · intro x hx h
        rw [hus, getD_set_bool] at h
        split at h
        · cases h
        · exact hset x hx h
    · -- corrupted: impossible
      exfalso
      have hof : old ∈ flight c S := by simp [flight, hsub0]
      have h1 := (ca.used hs old).mpr hof
      rw [getD_set_bool] at hu
      split at hu
      · cases hu
      · rw [h1] at hu; cases hu
  obtain ⟨P', c', hinv, u, e, ec, hcm, hmono⟩ := main
  have hC' : getC (deliverTo w p s chunk seq).1 p s = some c' := by rw [u.conns]; simp
  refine ⟨hinv, u.pubRel hP hC e ec, ?_, ?_, ?_⟩
  · intro b hb; rw [u.conns]; simp [hb]
  · intro x hx h
    rw [usedBit_of_getC hC'] at h
    rw [usedBit_of_getC hC]
    exact hmono x hx h
  · intro c0 c0' h0 h0'
    rw [hC] at h0; cases h0
    rw [hC'] at h0'; cases h0'
    exact hcm

/-! ### `deliverHistory` -/

theorem deliverHistory_cons (w : World) (p s ch : Nat) (r : List Nat) :
    ∃ seq, deliverHistory w p s (ch :: r) =
      deliverHistory (deliverTo (retrieveReturned w p) p s ch seq).1 p s r := ⟨_, rfl⟩

theorem deliverHistory_inv {G : GT} {A : GA} {p s : Nat} :
    ∀ (chunks : List Nat) (w : World) (P : Pub), Inv G A w → getP w p = some P → some s ∈ P.conns →
      (∀ ch ∈ chunks, ch ∈ P.hist) → chunks.Nodup → (∀ ch ∈ chunks, usedBit w p s ch = false) →
      Inv G A (deliverHistory w p s chunks) ∧ PubRel p w (deliverHistory w p s chunks) := by
  intro chunks
  induction chunks with
  | nil => intro w P hi _ _ _ _ _; exact ⟨hi, PubRel.refl p w⟩
  | cons ch r ih =>
    intro w P hi hP hm hh hnd hub
    obtain ⟨seq, hseq⟩ := deliverHistory_cons w p s ch r
    rw [hseq]
    obtain ⟨hi1, hd, hc1⟩ := retrieveReturned_inv (p := p) hi
    have hr1 := retrieveReturned_pubRel' w p
    generalize retrieveReturned w p = w1 at hi1 hd hc1 hr1 ⊢
    obtain ⟨P1, hP1, _, hconns1, hhist1, _⟩ := hr1.pub_fwd hP
    -- used bits only get cleared
    have hmono : ∀ x, usedBit w1 p s x = true → usedBit w p s x = true := by
      intro x hx
      obtain ⟨c, hC, _⟩ := mem_conns_getC hi.top hP hm
      obtain ⟨c1, hC1, _⟩ := mem_conns_getC hi1.top hP1 (by rw [hconns1]; exact hm)
      rw [usedBit_of_getC hC1] at hx; rw [usedBit_of_getC hC]
      exact (hd.mono p s c c1 hC hC1).2 x hx
    have hub1 : ∀ x ∈ ch :: r, usedBit w1 p s x = false := by
      intro x hx
      cases h : usedBit w1 p s x with
      | false => rfl
      | true => have := hmono x h; rw [hub x hx] at this; cases this
    obtain ⟨hi2, hr2, _, hm2, _⟩ := deliverTo_inv (seq := seq) hi1 hP1 (by rw [hconns1]; exact hm)
      (fun c hc => hc1 P s c hP hm hc) (hub1 ch (by simp))
      (Or.inl (by rw [hhist1]; exact hh ch (by simp)))
    generalize (deliverTo w1 p s ch seq).1 = w2 at hi2 hr2 hm2 ⊢
    obtain ⟨P2, hP2, _, hconns2, hhist2, _⟩ := hr2.pub_fwd hP1
    rw [List.nodup_cons] at hnd
    obtain ⟨j1, j2⟩ := ih w2 P2 hi2 hP2 (by rw [hconns2, hconns1]; exact hm)
      (fun x hx => by rw [hhist2, hhist1]; exact hh x (List.mem_cons_of_mem _ hx)) hnd.2
      (fun x hx => by
        cases h : usedBit w2 p s x with
        | false => rfl
        | true =>
          have := hm2 x (by rintro rfl; exact hnd.1 hx) h
          rw [hub1 x (List.mem_cons_of_mem _ hx)] at this; cases this)
    exact ⟨j1, (hr1.trans hr2).trans j2⟩

/-! ### the delivery loop of `send` -/

theorem deliverLoop_inv {G : GT} {A : GA} {p c seq : Nat} (hx : A.xp = some (p, c))
    (hf : A.xFresh = false) :
    ∀ (slots : List (Option Nat)) (w : World) (n : Nat) (P : Pub), Inv G A w → getP w p = some P →
      (∀ s, some s ∈ slots → some s ∈ P.conns) →
      slots.Pairwise (fun a b => ∀ s, a = some s → b ≠ some s) →
      (∀ s cn, some s ∈ slots → getC w p s = some cn → cn.comp = []) →
      (∀ s, some s ∈ slots → usedBit w p s c = false) →
      Inv G A (slots.foldl (fun (acc : World × Nat) sl =>
          match sl with
          | none => acc
          | some s => let (w', ok) := deliverTo acc.1 p s c seq
                      (w', if ok then acc.2 + 1 else acc.2)) (w, n)).1 ∧
      PubRel p w (slots.foldl (fun (acc : World × Nat) sl =>
          match sl with
          | none => acc
          | some s => let (w', ok) := deliverTo acc.1 p s c seq
                      (w', if ok then acc.2 + 1 else acc.2)) (w, n)).1 := by
  intro slots
  induction slots with
  | nil => intro w n P hi _ _ _ _ _; exact ⟨hi, PubRel.refl p w⟩
  | cons x r ih =>
    intro w n P hi hP hsl hpw hcomp hub
    rw [List.pairwise_cons] at hpw
    cases x with
    | none =>
      simp only [List.foldl_cons]
      exact ih w n P hi hP (fun s hs => hsl s (List.mem_cons_of_mem _ hs)) hpw.2
        (fun s cn hs => hcomp s cn (List.mem_cons_of_mem _ hs))
        (fun s hs => hub s (List.mem_cons_of_mem _ hs))
    | some s =>
      have hms : some s ∈ some s :: r := List.mem_cons_self
      obtain ⟨hi1, hr1, ho1, _, _⟩ := deliverTo_inv (seq := seq) hi hP (hsl s hms)
        (fun cn h => hcomp s cn hms h) (hub s hms) (Or.inr ⟨hx, hf⟩)
      simp only [List.foldl_cons]
      rcases hd : deliverTo w p s c seq with ⟨w', ok⟩
      rw [hd] at hi1 hr1 ho1
      simp only at hi1 hr1 ho1
      obtain ⟨P', hP', _, hconns', _, _⟩ := hr1.pub_fwd hP
      have hne : ∀ t, some t ∈ r → t ≠ s := by
        intro t ht e
        exact hpw.1 (some t) ht s rfl (by rw [e])
      obtain ⟨j1, j2⟩ := ih w' (if ok = true then n + 1 else n) P' hi1 hP'
        (fun t ht => by rw [hconns']; exact hsl t (List.mem_cons_of_mem _ ht)) hpw.2
        (fun t cn ht h => by
          rw [ho1 t (hne t ht)] at h
          exact hcomp t cn (List.mem_cons_of_mem _ ht) h)
        (fun t ht => by
          rw [usedBit_congr (ho1 t (hne t ht))]
          exact hub t (List.mem_cons_of_mem _ ht))
      exact ⟨j1, hr1.trans j2⟩

/-- the delivery loop of `send` -/
theorem deliverAll_inv {G : GT} {A : GA} {w : World} {p c seq : Nat} {P : Pub}
    (hi : Inv G A w) (hP : getP w p = some P) (hx : A.xp = some (p, c)) (hf : A.xFresh = false)
    (hcomp : ∀ s cn, some s ∈ P.conns → getC w p s = some cn → cn.comp = [])
    (hub : ∀ s, some s ∈ P.conns → usedBit w p s c = false) :
    Inv G A (P.conns.foldl (fun (acc : World × Nat) sl =>
        match sl with
        | none => acc
        | some s => let (w', ok) := deliverTo acc.1 p s c seq
                    (w', if ok then acc.2 + 1 else acc.2)) (w, 0)).1 ∧
    PubRel p w (P.conns.foldl (fun (acc : World × Nat) sl =>
        match sl with
        | none => acc
        | some s => let (w', ok) := deliverTo acc.1 p s c seq
                    (w', if ok then acc.2 + 1 else acc.2)) (w, 0)).1 := by
  refine deliverLoop_inv hx hf P.conns w 0 P hi hP (fun _ h => h) ?_ hcomp hub
  rw [List.pairwise_iff_getElem]
  intro i j hi' hj hij s h1 h2
  have := hi.top.conn_unique hP (s := s) i j
    (by rw [List.getElem?_eq_getElem hi', h1]) (by rw [List.getElem?_eq_getElem hj, h2])
  omega

end Iox2.PubSub.C02P
