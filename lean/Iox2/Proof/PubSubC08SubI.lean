/-
C08 helper: subscriber-side actions preserve the invariant (part I: `subUpdate`, receiving).
-/
import Iox2.Proof.PubSubC08SubH
set_option linter.unusedSimpArgs false
set_option linter.unusedVariables false
namespace Iox2.PubSub.C08
open Iox2.PubSub
open Iox2.C16.SlotMapP (abs)
attribute [-simp] List.getD_eq_getElem?_getD

theorem subUpdate_inv {cfg : Cfg} {w : World} {xs : Option Nat} {s : Nat}
    (h : InvS cfg w xs s none) {S : Sub} (hS : getS w s = some S) (hal : S.alive = true) :
    ((subUpdate w s).panicked = false →
      InvS cfg (subUpdate w s) xs s none ∧
      ∃ S', getS (subUpdate w s) s = some S' ∧ SubUpd { S with snapCtr := S'.snapCtr, snap := S'.snap } S') ∧
    (w.panicked = false → S.held.length ≤ cfg.borrowMax → (subUpdate w s).panicked = false) := by
  unfold subUpdate
  rw [hS]
  dsimp only
  split
  · exact ⟨fun _ => ⟨h, S, hS, .refl _⟩, fun hp _ => hp⟩
  · have hSO : SubOK cfg w s S none := by simpa using h.s s S hS
    have h0 : InvS cfg (setS w s { S with snapCtr := w.pubReg.counter, snap := w.pubReg.slots }) xs s none := by
      refine h.setS_only hS _ ⟨rfl, rfl, rfl⟩ rfl ?_
      exact ⟨hSO.stI, hSO.connsLen, hSO.capEq, hSO.buf1, hSO.bufM, hSO.tbrNodup, hSO.tbrLen, hSO.tbrIn, hSO.connKey,
        hSO.connInj, hSO.cover, hSO.hasConn, hSO.pidInj, hSO.heldKey, hSO.tbrDead, hSO.connSlot, hSO.aliveEx⟩
    obtain ⟨a1, a2⟩ := subForceUpdate_inv h0 (S := { S with snapCtr := w.pubReg.counter, snap := w.pubReg.slots })
      (by simp [hS]) hal rfl
    refine ⟨fun hnp => ?_, fun hp hdisc => a2 hp hdisc⟩
    obtain ⟨b1, S', hS', hu⟩ := a1 hnp
    refine ⟨b1, S', hS', ?_⟩
    obtain ⟨st, tb, cs, rfl⟩ := hu
    exact ⟨st, tb, cs, rfl⟩

/-- the invariant holds once the received sample has been handed to the application -/
def RecvPost (cfg : Cfg) (xs : Option Nat) (s : Nat) (w' : World) (res : RecvRes) : Prop :=
  match res with
  | .some k p ch q => ∀ S' tag, getS w' s = some S' →
      InvS cfg (setS w' s { S' with held := S'.held ++ [{ key := k, pid := p, chunk := ch, seq := q, tag := tag }],
                                     ghostRecv := S'.ghostRecv ++ [(p, q)] }) xs s none
  | _ => InvS cfg w' xs s none

theorem perm_move {l1 l2 l3 : List Nat} (ch : Nat) :
    (l1 ++ (l2 ++ [ch]) ++ l3).Perm (ch :: l1 ++ l2 ++ l3) := by
  rw [List.perm_iff_count]
  intro a
  simp only [List.count_append, List.count_cons, List.count_nil]
  omega

theorem recvFromConn_spec {cfg : Cfg} {w : World} {xs : Option Nat} {s : Nat}
    (h : InvS cfg w xs s none) {S : Sub} (hS : getS w s = some S) (key : Nat) :
    RecvPost cfg xs s (recvFromConn w s S key).1 (recvFromConn w s S key).2 ∧
    (recvFromConn w s S key).1.panicked = w.panicked ∧
    getS (recvFromConn w s S key).1 s = some S ∧
    ((recvFromConn w s S key).2 = .none ∨ (recvFromConn w s S key).2 = .maxBorrow →
      (recvFromConn w s S key).1 = w) := by
  have hSO : SubOK cfg w s S none := by simpa using h.s s S hS
  unfold recvFromConn
  rw [smGet_eq hSO.stI]
  cases hk : abs S.storage key with
  | none => exact ⟨h, rfl, hS, fun _ => rfl⟩
  | some p =>
    dsimp only
    cases hc : getC w p s with
    | none => exact ⟨h, rfl, hS, fun _ => rfl⟩
    | some c =>
      dsimp only
      split
      · exact ⟨h, rfl, hS, fun _ => rfl⟩
      next hbor =>
        cases hsub : c.sub with
        | nil => exact ⟨h, rfl, hS, fun _ => rfl⟩
        | cons hd rest =>
          obtain ⟨ch, seq⟩ := hd
          dsimp only
          refine ⟨?_, rfl, hS, fun hx => by rcases hx with hx | hx <;> cases hx⟩
          intro S' tag hS'
          have hS'' : getS w s = some S' := hS'
          rw [hS] at hS''; cases hS''
          have hkey := getC_key hc
          have hCI := h.c p s c hc
          have hbor' : c.borrow < cfg.borrowMax := by rw [← h.r.cfgEq]; omega
          have hk1 : ({ c with sub := rest, borrow := c.borrow + 1, gReceived := c.gReceived ++ [seq] } : Conn).pid = p ∧
              ({ c with sub := rest, borrow := c.borrow + 1, gReceived := c.gReceived ++ [seq] } : Conn).sid = s := hkey
          have hfilter : (S.held ++ [({ key := key, pid := p, chunk := ch, seq := seq, tag := tag } : Held)]).filter (·.pid = p) =
              S.held.filter (·.pid = p) ++ [{ key := key, pid := p, chunk := ch, seq := seq, tag := tag }] := by
            rw [List.filter_append]; simp
          refine InvS.rebuild1
            (S' := { S with held := S.held ++ [{ key := key, pid := p, chunk := ch, seq := seq, tag := tag }], ghostRecv := S.ghostRecv ++ [(p, seq)] })
            (some { c with sub := rest, borrow := c.borrow + 1, gReceived := c.gReceived ++ [seq] })
            h hS ⟨rfl, rfl, rfl, fun _ => rfl⟩ ((h.u.setC _).of_conns rfl)
            (fun q => by simp only [getS_setS, getS_setC, hS, Option.map_some])
            (fun a b => by rw [getC_setS, getC_setC_self hc _ hk1])
            ⟨rfl, rfl, rfl⟩ (fun q hq => ?_) (fun c1 hc1 ha => ?_) (fun c1 hc1 => ?_) ?_
          · show (S.held ++ [_]).filter _ = _
            rw [List.filter_append]
            have : ¬ p = q := fun e => hq e.symm
            simp [this]
          · rw [hc] at hc1; cases hc1
            exact ⟨_, rfl, ha, rfl⟩
          · cases hc1
            refine ⟨⟨hCI.ok.cap1, hCI.ok.capM, ?_, ?_, ?_⟩, hCI.hasP,
              ⟨{ S with held := S.held ++ [{ key := key, pid := p, chunk := ch, seq := seq, tag := tag }], ghostRecv := S.ghostRecv ++ [(p, seq)] }, by simp [hS]⟩,
              ?_, ?_, ?_, hCI.inSlot, hCI.usedLen⟩
            · have := hCI.ok.subLe; rw [hsub] at this; simp at this ⊢; omega
            · show c.borrow + 1 ≤ _; omega
            · have := hCI.ok.tot; rw [hsub] at this; simp at this ⊢; omega
            · intro S1 hS1
              simp [hS] at hS1; subst hS1
              show c.borrow + 1 = ((S.held ++ [_]).filter _).length
              rw [hfilter, List.length_append, ← hCI.held S hS]; rfl
            · intro ha S1 hS1
              simp [hS] at hS1; subst hS1
              obtain ⟨hnd, hex⟩ := hCI.exact ha S hS
              unfold connChunks heldChunks at hnd hex ⊢
              dsimp only at hnd hex ⊢
              rw [hkey.1] at hnd hex ⊢
              rw [hsub] at hnd hex
              rw [hfilter, List.map_append]
              have hperm := perm_move (l1 := rest.map (·.1)) (l2 := (S.held.filter (·.pid = p)).map (·.chunk))
                (l3 := c.comp) ch
              constructor
              · exact hperm.nodup_iff.mpr (by simpa using hnd)
              · intro x
                rw [hex x]
                show _ ↔ x ∈ rest.map (·.1) ++ ((S.held.filter (·.pid = p)).map (·.chunk) ++ [ch]) ++ c.comp
                rw [hperm.mem_iff]
                simp
            · intro ha P S1 hP hS1 hex hal
              simp [hS] at hS1; subst hS1
              have := (hCI.fresh ha P S hP hS hex hal).1
              rw [hsub] at this; cases this
          · refine ⟨hSO.stI, hSO.connsLen, hSO.capEq, hSO.buf1, hSO.bufM, hSO.tbrNodup, hSO.tbrLen, hSO.tbrIn, hSO.connKey,
              hSO.connInj, hSO.cover, ?_, hSO.pidInj, ?_, hSO.tbrDead, hSO.connSlot, hSO.aliveEx⟩
            · intro k q hkq
              obtain ⟨c1, hc1, hr1⟩ := hSO.hasConn k q hkq
              rw [getC_setS, getC_setC_self hc _ hk1]
              by_cases hqp : q = p
              · subst hqp
                rw [hc] at hc1; cases hc1
                exact ⟨{ c with sub := rest, borrow := c.borrow + 1, gReceived := c.gReceived ++ [seq] }, by simp, hr1⟩
              · exact ⟨c1, by simp [hqp, hc1], hr1⟩
            · intro hd hhd
              have hhd' : hd ∈ S.held ++ [({ key := key, pid := p, chunk := ch, seq := seq, tag := tag } : Held)] := hhd
              rcases List.mem_append.mp hhd' with hm | hm
              · exact hSO.heldKey hd hm
              · simp at hm; subst hm; exact hk

end Iox2.PubSub.C08
