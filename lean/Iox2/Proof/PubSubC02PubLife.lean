/-
C02 — publisher lifecycle: `pubRemoveConn`, `pubDestroyIfUnreferenced`, the `.dpub` unregistration
and the three phases of `.cpub` (port object created, registered / registry full) preserve the
invariant.
-/
import Iox2.Proof.PubSubC02SubDrop
import Iox2.Proof.PubSubC02Retrieve

namespace Iox2.PubSub.C02P
open Iox2.PubSub
open Iox2.C16.SlotMapP (abs WInv)

namespace PubLife

/-! ### small lemmas -/

theorem firstFree_spec {α : Type} : ∀ (l : List (Option α)) (k i : Nat),
    firstFree l k = some i → k ≤ i ∧ l[i - k]? = some none
  | [], k, i, h => by simp [firstFree] at h
  | none :: r, k, i, h => by
    simp only [firstFree, Option.some.injEq] at h
    subst h; simp
  | some a :: r, k, i, h => by
    simp only [firstFree] at h
    obtain ⟨h1, h2⟩ := firstFree_spec r (k + 1) i h
    refine ⟨by omega, ?_⟩
    have : i - k = (i - (k + 1)) + 1 := by omega
    rw [this]; simpa using h2

theorem getP_append (w : World) (p q : Nat) (X : Pub) (hnone : getP w p = none) :
    getP { w with pubs := w.pubs ++ [(p, X)] } q = if q = p then some X else getP w q := by
  unfold getP at *
  simp only [List.find?_append, List.find?_cons, List.find?_nil]
  by_cases h : q = p
  · subst h
    simp only [if_true]
    cases hf : w.pubs.find? (·.1 = q) with
    | none => simp
    | some x => rw [hf] at hnone; simp at hnone
  · simp only [h, if_false]
    have : ¬ p = q := fun e => h e.symm
    cases hf : w.pubs.find? (·.1 = q) <;> simp [this]

theorem getP_filter (w : World) (p q : Nat) :
    getP { w with pubs := w.pubs.filter fun e => e.1 ≠ p } q =
      if q = p then none else getP w q := by
  unfold getP
  simp only [List.find?_filter]
  by_cases h : q = p
  · subst h
    simp only [if_true, Option.map_eq_none_iff]
    rw [List.find?_eq_none]
    intro x _
    by_cases hx : x.1 = q <;> simp [hx]
  · simp only [h, if_false]
    congr 1
    congr 1
    funext x
    by_cases hx : x.1 = q
    · have : ¬ x.1 = p := fun e => h (hx.symm.trans e)
      simp [hx, h]
    · simp [hx]

/-- replacing one element of a list changes a `countP` by the bits of the two elements -/
theorem countP_set_bit {α : Type} (f : α → Bool) (b : α) :
    ∀ (l : List α) (i : Nat) (a : α), l[i]? = some a →
      (l.set i b).countP f + (if f a then 1 else 0) = l.countP f + (if f b then 1 else 0)
  | [], i, a, h => by simp at h
  | x :: t, 0, a, h => by
    simp only [List.getElem?_cons_zero, Option.some.injEq] at h
    subst h
    simp only [List.set_cons_zero, List.countP_cons]
    omega
  | x :: t, i + 1, a, h => by
    simp only [List.getElem?_cons_succ] at h
    have := countP_set_bit f b t i a h
    simp only [List.set_cons_succ, List.countP_cons]
    omega

theorem mem_set_none {l : List (Option Nat)} {i : Nat} {x : Nat} (h : some x ∈ l.set i none) :
    ∃ j : Nat, j ≠ i ∧ l[j]? = some (some x) := by
  obtain ⟨j, hj⟩ := List.mem_iff_getElem?.mp h
  rw [List.getElem?_set] at hj
  by_cases hij : i = j
  · subst hij
    simp only [if_true] at hj
    split at hj <;> simp at hj
  · simp only [hij, if_false] at hj
    exact ⟨j, fun e => hij e.symm, hj⟩

/-! ### `releaseAllUsed` -/

theorem eraseRF_releaseChunk (P : Pub) (c : Nat) : eraseRF (P.releaseChunk c) = eraseRF P := by
  simp only [Pub.releaseChunk]; split <;> rfl

theorem eraseRF_fields {P R : Pub} (h : eraseRF R = eraseRF P) :
    R.alive = P.alive ∧ R.ex = P.ex ∧ R.slot = P.slot ∧ R.n = P.n ∧ R.hist = P.hist ∧
    R.conns = P.conns ∧ R.snap = P.snap ∧ R.loans = P.loans ∧ R.payload = P.payload := by
  have h1 := congrArg Pub.alive h
  have h2 := congrArg Pub.ex h
  have h3 := congrArg Pub.slot h
  have h4 := congrArg Pub.n h
  have h5 := congrArg Pub.hist h
  have h6 := congrArg Pub.conns h
  have h7 := congrArg Pub.snap h
  have h8 := congrArg Pub.loans h
  have h9 := congrArg Pub.payload h
  exact ⟨h1, h2, h3, h4, h5, h6, h7, h8, h9⟩

theorem releaseAllUsed_spec (P : Pub) (used : List Bool) (hf : FreeOK P) :
    ∀ k, k ≤ P.n → (∀ c, c < k → used.getD c false = true → 1 ≤ P.rc.getD c 0) →
      FreeOK (releaseAllUsed P used k) ∧ eraseRF (releaseAllUsed P used k) = eraseRF P ∧
      ∀ c, (releaseAllUsed P used k).rc.getD c 0 =
        P.rc.getD c 0 - (if c < k ∧ used.getD c false = true then 1 else 0)
  | 0, _, _ => by
    refine ⟨hf, rfl, ?_⟩
    intro c; simp [releaseAllUsed]
  | k + 1, hk, hpos => by
    obtain ⟨h1, h2, h3⟩ := releaseAllUsed_spec P used hf k (by omega)
      (fun c hc hu => hpos c (by omega) hu)
    have hn : (releaseAllUsed P used k).n = P.n := (eraseRF_fields h2).2.2.2.1
    simp only [releaseAllUsed]
    cases hu : used.getD k false with
    | false =>
      simp only [Bool.false_eq_true, if_false]
      refine ⟨h1, h2, ?_⟩
      intro c
      rw [h3 c]
      by_cases hck : c = k
      · subst hck; simp only [hu, Bool.false_eq_true, and_false, if_false]
      · have : c < k + 1 ↔ c < k := by omega
        simp only [this]
    | true =>
      simp only [if_true]
      have hkk : (releaseAllUsed P used k).rc.getD k 0 = P.rc.getD k 0 := by
        rw [h3 k]; simp
      have hp := hpos k (by omega) hu
      refine ⟨h1.release (by rw [hn]; omega) (by rw [hkk]; exact hp),
        (eraseRF_releaseChunk _ _).trans h2, ?_⟩
      intro c
      rw [releaseChunk_rc, getD_set_nat, hkk]
      have hl : k < (releaseAllUsed P used k).rc.length := by rw [h1.rcLen, hn]; omega
      by_cases hck : k = c
      · subst hck
        rw [if_pos ⟨rfl, hl⟩, if_pos ⟨Nat.lt_succ_self _, hu⟩]
      · have h4 : ¬ (k = c ∧ k < (releaseAllUsed P used k).rc.length) := fun h => hck h.1
        simp only [h4, if_false]
        rw [h3 c]
        have : c < k + 1 ↔ c < k := by omega
        simp only [this]

/-! ### `detachSender`, `pubDestroySlots` by observations -/

/-- what happens to a connection whose sender side goes away -/
def detS (oc : Option Conn) : Option Conn :=
  match oc with
  | none => none
  | some c => if c.rAtt then some { c with sAtt := false } else none

theorem detS_idem (oc : Option Conn) : detS (detS oc) = detS oc := by
  cases oc with
  | none => rfl
  | some c =>
    cases h : c.rAtt <;> simp [detS, h]

theorem getC_detachSender (w : World) (p s a b : Nat) :
    getC (detachSender w p s) a b = if a = p ∧ b = s then detS (getC w a b) else getC w a b := by
  rw [detachSender_eq]
  cases hC : getC w p s with
  | none =>
    simp only
    split
    · rename_i h; rw [h.1, h.2, hC]; rfl
    · rfl
  | some c =>
    obtain ⟨hpid, hsid, _⟩ := getC_some hC
    simp only
    cases hra : c.rAtt with
    | true =>
      simp only [if_true]
      rw [getC_setC]
      show (if a = c.pid ∧ b = c.sid then _ else _) = _
      rw [hpid, hsid]
      by_cases h : a = p ∧ b = s
      · rw [if_pos h, if_pos h, h.1, h.2, hC]; simp [detS, hra, hpid, hsid]
      · rw [if_neg h, if_neg h]
    | false =>
      simp only [Bool.false_eq_true, if_false]
      rw [getC_delC]
      split
      · rename_i h; rw [h.1, h.2, hC]; simp [detS, hra]
      · rfl

theorem detachSender_fields (w : World) (p s : Nat) :
    (detachSender w p s).cfg = w.cfg ∧ (detachSender w p s).pubReg = w.pubReg ∧
    (detachSender w p s).subReg = w.subReg ∧ (detachSender w p s).pubs = w.pubs ∧
    (detachSender w p s).subs = w.subs := by
  rw [detachSender_eq]
  cases getC w p s with
  | none => exact ⟨rfl, rfl, rfl, rfl, rfl⟩
  | some c =>
    simp only
    split <;> exact ⟨rfl, rfl, rfl, rfl, rfl⟩

theorem nodup_detachSender {w : World} (p s : Nat)
    (hn : w.conns.Pairwise fun a b => ¬ (a.pid = b.pid ∧ a.sid = b.sid)) :
    (detachSender w p s).conns.Pairwise fun a b => ¬ (a.pid = b.pid ∧ a.sid = b.sid) := by
  rw [detachSender_eq]
  cases getC w p s with
  | none => exact hn
  | some c =>
    simp only
    split
    · exact nodup_setC _ hn
    · exact nodup_delC _ _ hn

theorem pubDestroySlots_obs (p : Nat) : ∀ (l : List (Option Nat)) (w : World),
    (w.conns.Pairwise fun a b => ¬ (a.pid = b.pid ∧ a.sid = b.sid)) →
    (pubDestroySlots w p l).cfg = w.cfg ∧ (pubDestroySlots w p l).pubReg = w.pubReg ∧
    (pubDestroySlots w p l).subReg = w.subReg ∧ (pubDestroySlots w p l).pubs = w.pubs ∧
    (pubDestroySlots w p l).subs = w.subs ∧
    (∀ a b, getC (pubDestroySlots w p l) a b =
      if a = p ∧ some b ∈ l then detS (getC w a b) else getC w a b) ∧
    ((pubDestroySlots w p l).conns.Pairwise fun a b => ¬ (a.pid = b.pid ∧ a.sid = b.sid))
  | [], w, hn => by
    refine ⟨rfl, rfl, rfl, rfl, rfl, ?_, hn⟩
    intro a b; simp [pubDestroySlots]
  | none :: r, w, hn => by
    obtain ⟨g1, g2, g3, g4, g5, g6, g7⟩ := pubDestroySlots_obs p r w hn
    have e : pubDestroySlots w p (none :: r) = pubDestroySlots w p r := rfl
    rw [e]
    refine ⟨g1, g2, g3, g4, g5, ?_, g7⟩
    intro a b
    rw [g6]
    have : some b ∈ (none :: r : List (Option Nat)) ↔ some b ∈ r := by simp
    simp only [this]
  | some s :: r, w, hn => by
    obtain ⟨f1, f2, f3, f4, f5⟩ := detachSender_fields w p s
    obtain ⟨g1, g2, g3, g4, g5, g6, g7⟩ :=
      pubDestroySlots_obs p r (detachSender w p s) (nodup_detachSender p s hn)
    have e : pubDestroySlots w p (some s :: r) = pubDestroySlots (detachSender w p s) p r := rfl
    rw [e]
    refine ⟨g1.trans f1, g2.trans f2, g3.trans f3, g4.trans f4, g5.trans f5, ?_, g7⟩
    intro a b
    rw [g6, getC_detachSender]
    by_cases ha : a = p
    · by_cases hb : b = s
      · have h1 : some b ∈ (some s :: r : List (Option Nat)) := by rw [hb]; exact List.mem_cons_self
        have h2 : some s ∈ (some s :: r : List (Option Nat)) := List.mem_cons_self
        simp only [ha, hb, and_self, if_true, true_and, h2]
        split
        · exact detS_idem _
        · rfl
      · have h1 : some b ∈ (some s :: r : List (Option Nat)) ↔ some b ∈ r := by
          simp [hb]
        simp only [ha, hb, and_false, if_false, true_and, h1]
    · simp [ha]

/-! ### generic step: publisher `p` detaches from the subscribers in `D` -/

structure Detach (w w' : World) (p : Nat) (P P' : Pub) (D : Nat → Prop) : Prop where
  cfg : w'.cfg = w.cfg
  pubReg : w'.pubReg = w.pubReg
  subReg : w'.subReg = w.subReg
  subs : ∀ t, getS w' t = getS w t
  pubs : ∀ q, q ≠ p → getP w' q = getP w q
  pubP : getP w' p = some P'
  connsO : ∀ a b, a ≠ p → getC w' a b = getC w a b
  connsK : ∀ b, ¬ D b → getC w' p b = getC w p b
  nodup : w'.conns.Pairwise fun a b => ¬ (a.pid = b.pid ∧ a.sid = b.sid)
  alive : P'.alive = P.alive
  slot : P'.slot = P.slot
  snap : P'.snap = P.snap
  n : P'.n = P.n
  payload : P'.payload = P.payload
  ex : P'.ex = true → P.ex = true
  lenC : P'.conns.length = P.conns.length
  connsP : ∀ (i b : Nat), P'.conns[i]? = some (some b) ↔ (P.conns[i]? = some (some b) ∧ ¬ D b)
  dmem : ∀ b, D b → some b ∈ P.conns
  dconn : ∀ b cn, D b → getC w p b = some cn →
    (cn.rAtt = false → getC w' p b = none) ∧
    (cn.rAtt = true → ∃ cn', getC w' p b = some cn' ∧ cn'.pid = cn.pid ∧ cn'.sid = cn.sid ∧
      cn'.rAtt = true ∧ cn'.sAtt = false ∧ cn'.used.length = cn.used.length ∧ cn'.sub = cn.sub ∧
      cn'.comp = cn.comp ∧ cn'.borrow = cn.borrow ∧ cn'.cap = cn.cap ∧
      (P'.ex = true → (∀ c, cn'.used.getD c false = false) ∧
        ∀ S, getS w b = some S → S.alive = false))
  dead : P'.ex = false → ∀ x ∈ P'.conns, x = none
  aliveEx : P'.alive = true → P'.ex = true

theorem inv_detach {G : GT} {A : GA} {w w' : World} {p : Nat} {P P' : Pub} {D : Nat → Prop}
    (hi : Inv G A w) (hP : getP w p = some P) (d : Detach w w' p P P' D)
    (hacc : (P'.ex = true → PubAcc A w' p P') ∧ (P'.ex = false → P'.loans = [])) :
    Inv G A w' := by
  have hpk : PubsKept w w' := by
    intro q Q hQ
    by_cases hq : q = p
    · subst hq; rw [hP] at hQ; cases hQ; exact ⟨P', d.pubP, d.slot, d.alive⟩
    · exact ⟨Q, by rw [d.pubs q hq]; exact hQ, rfl, rfl⟩
  have hsk : SubsKept w w' := SubsKept.of_eq d.subs
  have hmem' : ∀ b, some b ∈ P'.conns ↔ (some b ∈ P.conns ∧ ¬ D b) := by
    intro b
    constructor
    · intro h
      obtain ⟨i, hi'⟩ := List.mem_iff_getElem?.mp h
      obtain ⟨h1, h2⟩ := (d.connsP i b).mp hi'
      exact ⟨List.mem_iff_getElem?.mpr ⟨i, h1⟩, h2⟩
    · rintro ⟨h, h2⟩
      obtain ⟨i, hi'⟩ := List.mem_iff_getElem?.mp h
      exact List.mem_iff_getElem?.mpr ⟨i, (d.connsP i b).mpr ⟨hi', h2⟩⟩
  have hrk : ∀ q t cn, getC w q t = some cn → cn.rAtt = true →
      ∃ cn', getC w' q t = some cn' ∧ cn'.rAtt = true := by
    intro q t cn hcn hra
    by_cases hq : q = p
    · subst hq
      by_cases hD : D t
      · obtain ⟨cn', h1, _, _, h2, _⟩ := (d.dconn t cn hD hcn).2 hra
        exact ⟨cn', h1, h2⟩
      · exact ⟨cn, by rw [d.connsK t hD]; exact hcn, hra⟩
    · exact ⟨cn, by rw [d.connsO q t hq]; exact hcn, hra⟩
  refine ⟨⟨?_, ?_, ?_, ?_⟩, ⟨?_, ?_, ?_⟩⟩
  · -- registry
    refine hi.top.reg.congr d.cfg d.pubReg d.subReg hpk hsk ?_
      (fun t S' h => ⟨S', by rw [← d.subs]; exact h⟩) d.nodup
    intro q Q' h
    by_cases hq : q = p
    · subst hq; exact ⟨P, hP⟩
    · exact ⟨Q', by rw [← d.pubs q hq]; exact h⟩
  · -- publishers
    intro q Q hQ
    by_cases hq : q = p
    · subst hq
      rw [d.pubP] at hQ; cases hQ
      have t := hi.top.pubs q P hP
      refine ⟨by rw [d.lenC, d.cfg]; exact t.lenC, by rw [d.snap, d.cfg]; exact t.lenSnap,
        d.aliveEx, d.dead, ?_, ?_⟩
      · intro i b hib
        obtain ⟨h1, hD⟩ := (d.connsP i b).mp hib
        obtain ⟨S, hS, hsl, hr, hns, hal, cn, hcn, hsa⟩ := t.conn i b h1
        have hS' : getS w' b = some S := by rw [d.subs]; exact hS
        exact ⟨S, hS', hsl, hsk.sreg d.subReg hS hS' hr, hns, by rw [d.snap]; exact hal,
          cn, by rw [d.connsK b hD]; exact hcn, hsa⟩
      · intro i e hie
        rw [d.snap] at hie
        obtain ⟨S, hS, hsl, hr, hns⟩ := t.snap i e hie
        have hS' : getS w' e.sid = some S := by rw [d.subs]; exact hS
        exact ⟨S, hS', hsl, hsk.sreg d.subReg hS hS' hr, hns⟩
    · rw [d.pubs q hq] at hQ
      apply (hi.top.pubs q Q hQ).congr d.cfg d.subReg hsk
      intro t cn hcn hsa
      exact ⟨cn, by rw [d.connsO q t hq]; exact hcn, hsa⟩
  · -- subscribers
    intro t T hT
    rw [d.subs] at hT
    exact (hi.top.subs t T hT).congr d.cfg d.pubReg hpk (fun q cn => hrk q t cn)
  · -- connections (topology)
    intro a b cn' hcn'
    by_cases ha : a = p
    · subst ha
      by_cases hD : D b
      · obtain ⟨cn, hcn, hsa⟩ := mem_conns_getC hi.top hP (d.dmem b hD)
        obtain ⟨P0, S, hP0, hS, ct⟩ := hi.top.conns a b cn hcn
        rw [hP] at hP0; cases hP0
        cases hra : cn.rAtt with
        | false =>
          have := (d.dconn b cn hD hcn).1 hra
          rw [this] at hcn'; cases hcn'
        | true =>
          obtain ⟨cn2, h1, e1, e2, e3, e4, _⟩ := (d.dconn b cn hD hcn).2 hra
          rw [h1] at hcn'; cases hcn'
          refine ⟨P', S, d.pubP, by rw [d.subs]; exact hS, Or.inr e3, ?_, ?_⟩
          · constructor
            · intro h; rw [e4] at h; cases h
            · intro h
              rw [e2, (getC_some hcn).2.1] at h
              exact absurd hD ((hmem' b).mp h).2
          · rw [e3, e1]
            constructor
            · intro _; exact ct.rAtt.mp hra
            · intro _; rfl
      · rw [d.connsK b hD] at hcn'
        obtain ⟨P0, S, hP0, hS, ct⟩ := hi.top.conns a b cn' hcn'
        rw [hP] at hP0; cases hP0
        refine ⟨P', S, d.pubP, by rw [d.subs]; exact hS, ct.att, ?_, ct.rAtt⟩
        rw [ct.sAtt, (getC_some hcn').2.1, hmem' b]
        constructor
        · exact fun h => ⟨h, hD⟩
        · exact fun h => h.1
    · rw [d.connsO a b ha] at hcn'
      obtain ⟨Pa, Sb, hPa, hSb, ct⟩ := hi.top.conns a b cn' hcn'
      exact ⟨Pa, Sb, by rw [d.pubs a ha]; exact hPa, by rw [d.subs]; exact hSb, ct⟩
  · -- publishers (accounting)
    intro q Q hQ
    by_cases hq : q = p
    · subst hq; rw [d.pubP] at hQ; cases hQ; exact hacc
    · rw [d.pubs q hq] at hQ
      obtain ⟨h1, h2⟩ := hi.acc.pubs q Q hQ
      exact ⟨fun hx => (h1 hx).congr (fun t x _ => usedBit_congr (d.connsO q t hq) x), h2⟩
  · -- subscribers (accounting)
    intro t T hT
    rw [d.subs] at hT
    obtain ⟨h1, h2, h3⟩ := hi.acc.subs t T hT
    refine ⟨h1, h2, fun ha x hx => ?_⟩
    obtain ⟨Q, hQ, hq⟩ := h3 ha x hx
    by_cases hxp : x.pid = p
    · rw [hxp] at hQ ⊢
      rw [hP] at hQ; cases hQ
      exact ⟨P', d.pubP, by rw [d.payload]; exact hq⟩
    · exact ⟨Q, by rw [d.pubs _ hxp]; exact hQ, hq⟩
  · -- connections (accounting)
    intro a b cn' hcn' Pa Sb hPa hSb
    rw [d.subs] at hSb; rw [d.cfg]
    by_cases ha : a = p
    · subst ha
      rw [d.pubP] at hPa; cases hPa
      by_cases hD : D b
      · obtain ⟨cn, hcn, hsa⟩ := mem_conns_getC hi.top hP (d.dmem b hD)
        have ca := hi.acc.conns a b cn hcn P Sb hP hSb
        cases hra : cn.rAtt with
        | false =>
          have := (d.dconn b cn hD hcn).1 hra
          rw [this] at hcn'; cases hcn'
        | true =>
          obtain ⟨cn2, h1, e1, e2, e3, e4, e5, e6, e7, e8, e9, e10⟩ := (d.dconn b cn hD hcn).2 hra
          rw [h1] at hcn'; cases hcn'
          refine ⟨by rw [e5, d.n]; exact ca.usedLen, by rw [e6, e9]; exact ca.subCap,
            by rw [e8]; exact ca.borrowMax, by rw [e6, e7, e8, e9]; exact ca.total,
            by rw [e8, e1]; exact ca.borrow, (fun h => by rw [e4] at h; cases h),
            (fun h => by rw [e4] at h; cases h), fun _ hex => ?_⟩
          obtain ⟨h2, h3⟩ := e10 hex
          exact ⟨h2, fun hal => by rw [h3 Sb hSb] at hal; cases hal⟩
      · rw [d.connsK b hD] at hcn'
        have ca := hi.acc.conns a b cn' hcn' P Sb hP hSb
        exact ⟨by rw [d.n]; exact ca.usedLen, ca.subCap, ca.borrowMax, ca.total, ca.borrow,
          ca.nodup, ca.used, fun h hex => ca.idle h (d.ex hex)⟩
    · rw [d.connsO a b ha] at hcn'; rw [d.pubs a ha] at hPa
      exact hi.acc.conns a b cn' hcn' Pa Sb hPa hSb

theorem getD_map_false (l : List Bool) (x : Nat) : (l.map fun _ => false).getD x false = false := by
  rw [List.getD_eq_getElem?_getD, List.getElem?_map]
  cases l[x]? <;> rfl

theorem connCnt_set_none {w : World} {p : Nat} {conns : List (Option Nat)} {slot s x : Nat}
    (h : conns[slot]? = some (some s)) :
    connCnt w p (conns.set slot none) x + (if usedBit w p s x = true then 1 else 0) =
      connCnt w p conns x := by
  have := countP_set_bit
    (fun sl : Option Nat => match sl with | some s => usedBit w p s x | none => false)
    none conns slot (some s) h
  unfold connCnt
  simp only [← List.countP_eq_length_filter]
  simp only [Bool.false_eq_true, if_false, Nat.add_zero] at this
  exact this

/-! ### generic step: publishers appear / disappear / change `alive`, `slot`; registry changes -/

theorem pubTop_congrG {G G' : GT} {w w' : World} {p : Nat} {P P' : Pub} (h : PubTop G w p P)
    (hns : G'.ns = G.ns) (hcfg : w'.cfg = w.cfg) (hr : w'.subReg = w.subReg) (hs : SubsKept w w')
    (hc : ∀ t cn, getC w p t = some cn → cn.sAtt = true →
      ∃ cn', getC w' p t = some cn' ∧ cn'.sAtt = true)
    (hconns : P'.conns = P.conns) (hsnap : P'.snap = P.snap) (hae : P'.alive = true → P'.ex = true)
    (hex : P'.ex = false → P.ex = false) : PubTop G' w' p P' := by
  have h1 := h.congr hcfg hr hs hc
  refine ⟨by rw [hconns]; exact h1.lenC, by rw [hsnap]; exact h1.lenSnap, hae,
    fun hx => by rw [hconns]; exact h1.dead (hex hx), ?_, ?_⟩
  · intro i s hi
    rw [hconns] at hi
    obtain ⟨S, hS, a, b, c, d, cn, e, f⟩ := h1.conn i s hi
    exact ⟨S, hS, a, b, by rw [hns]; exact c, by rw [hsnap]; exact d, cn, e, f⟩
  · intro i e hi
    rw [hsnap] at hi
    obtain ⟨S, hS, a, b, c⟩ := h1.snap i e hi
    exact ⟨S, hS, a, b, by rw [hns]; exact c⟩

theorem subTop_congrG {G G' : GT} {w w' : World} {s : Nat} {S : Sub} (h : SubTop G w s S)
    (hhole : G'.hole = G.hole) (hcfg : w'.cfg = w.cfg)
    (hp : ∀ q Q, getP w q = some Q → G.np ≠ some q → PReg w q Q →
      ∃ Q', getP w' q = some Q' ∧ Q'.slot = Q.slot ∧ (Q'.alive = true → Q.alive = true) ∧
        (Q.alive = false → Q'.alive = false) ∧ PReg w' q Q' ∧ G'.np ≠ some q)
    (hc : ∀ q cn, getC w q s = some cn → cn.rAtt = true →
      ∃ cn', getC w' q s = some cn' ∧ cn'.rAtt = true) : SubTop G' w' s S := by
  refine ⟨by rw [hcfg]; exact h.lenC, by rw [hcfg]; exact h.lenSnap, h.aliveEx, h.dead, h.winv,
    ?_, h.inj, ?_, ?_, h.tbrNodup, ?_⟩
  · intro k p hk
    obtain ⟨⟨cn, h1, h2⟩, P, hP, h3, h4, h5⟩ := h.stor k p hk
    obtain ⟨cn', h6, h7⟩ := hc p cn h1 h2
    obtain ⟨P', hP', e1, e2, e3, e4, e5⟩ := hp p P hP h4 h3
    refine ⟨⟨cn', h6, h7⟩, P', hP', e4, e5, ?_⟩
    rcases h5 with ⟨j, hj1, hj2⟩ | ⟨ha, hs⟩
    · exact Or.inl ⟨j, by rw [hhole]; exact hj1, hj2⟩
    · exact Or.inr ⟨e3 ha, hs⟩
  · intro j k hj hh
    rw [hhole] at hh
    obtain ⟨p, P, h1, hP, h2, h3⟩ := h.conn j k hj hh
    obtain ⟨_, P0, hP0, h4, h5, _⟩ := h.stor k p h1
    rw [hP] at hP0; cases hP0
    obtain ⟨P', hP', e1, e2, e3, e4, e5⟩ := hp p P hP h5 h4
    exact ⟨p, P', h1, hP', by rw [e1]; exact h2, fun ha => h3 (e2 ha)⟩
  · intro j p hj
    obtain ⟨P, hP, h1, h2, h3⟩ := h.snap j p hj
    obtain ⟨P', hP', e1, e2, e3, e4, e5⟩ := hp p P hP h3 h2
    exact ⟨P', hP', by rw [e1]; exact h1, e4, e5⟩
  · intro k hk
    obtain ⟨h1, h2⟩ := h.tbr k hk
    exact ⟨h1, fun j hj => by rw [hhole]; exact h2 j hj⟩

theorem inv_change {G G' : GT} {A : GA} {w w' : World} (hi : Inv G A w)
    (hreg : RegOK G' w') (hhole : G'.hole = G.hole) (hns : G'.ns = G.ns)
    (hcfg : w'.cfg = w.cfg) (hrs : w'.subReg = w.subReg)
    (hS : ∀ t, getS w' t = getS w t)
    (hC : ∀ a b cn, getC w' a b = some cn → getC w a b = some cn)
    (hcr : ∀ q s cn, getC w q s = some cn → cn.rAtt = true → getC w' q s = some cn)
    (hpfwd : ∀ q Q, getP w q = some Q → G.np ≠ some q → PReg w q Q →
      ∃ Q', getP w' q = some Q' ∧ Q'.slot = Q.slot ∧ (Q'.alive = true → Q.alive = true) ∧
        (Q.alive = false → Q'.alive = false) ∧ PReg w' q Q' ∧ G'.np ≠ some q ∧
        Q'.payload = Q.payload)
    (hcp : ∀ a b cn, getC w' a b = some cn → ∀ Q, getP w a = some Q →
      ∃ Q', getP w' a = some Q' ∧ Q'.conns = Q.conns)
    (hpbwd : ∀ q Q', getP w' q = some Q' →
      (∃ Q, getP w q = some Q ∧ Q'.conns = Q.conns ∧ Q'.snap = Q.snap ∧ Q'.ex = Q.ex ∧
        (Q'.alive = true → Q'.ex = true) ∧ Q'.n = Q.n ∧ Q'.rc = Q.rc ∧ Q'.free = Q.free ∧
        Q'.loans = Q.loans ∧ Q'.hist = Q.hist ∧ ∀ b, getC w' q b = getC w q b) ∨
      ((∀ b, getC w q b = none) ∧ Q'.ex = true ∧ PubTop G' w' q Q' ∧ PubAcc A w' q Q')) :
    Inv G' A w' := by
  have hsk : SubsKept w w' := SubsKept.of_eq hS
  refine ⟨⟨hreg, ?_, ?_, ?_⟩, ⟨?_, ?_, ?_⟩⟩
  · intro q Q' hQ'
    rcases hpbwd q Q' hQ' with ⟨Q, hQ, x1, x2, x3, x4, _, _, _, _, _, hcb⟩ | ⟨_, _, h, _⟩
    · exact pubTop_congrG (hi.top.pubs q Q hQ) hns hcfg hrs hsk
        (fun t cn h1 h2 => ⟨cn, by rw [hcb]; exact h1, h2⟩) x1 x2 x4 (fun h => by rw [← x3]; exact h)
    · exact h
  · intro t T hT
    rw [hS] at hT
    refine subTop_congrG (hi.top.subs t T hT) hhole hcfg ?_
      (fun q cn h1 h2 => ⟨cn, hcr q t cn h1 h2, h2⟩)
    intro q Q hQ hnp hpr
    obtain ⟨Q', a, b, c, d, e, f, _⟩ := hpfwd q Q hQ hnp hpr
    exact ⟨Q', a, b, c, d, e, f⟩
  · intro a b cn hcn
    obtain ⟨P, S, hP, hS', ct⟩ := hi.top.conns a b cn (hC a b cn hcn)
    obtain ⟨Q', hQ', hc⟩ := hcp a b cn hcn P hP
    exact ⟨Q', S, hQ', by rw [hS]; exact hS', ct.att, by rw [hc]; exact ct.sAtt, ct.rAtt⟩
  · intro q Q' hQ'
    rcases hpbwd q Q' hQ' with ⟨Q, hQ, x1, _, x3, _, x5, x6, x7, x8, x9, hcb⟩ | ⟨_, hex, _, pa⟩
    · obtain ⟨h1, h2⟩ := hi.acc.pubs q Q hQ
      refine ⟨fun hx => ?_, fun hx => by rw [x8]; exact h2 (by rw [← x3]; exact hx)⟩
      have pa := h1 (by rw [← x3]; exact hx)
      refine ⟨pa.free.congr x6 x7 x5, ?_, ?_, by rw [x8]; exact pa.loanLbl,
        by rw [x9]; exact pa.histNodup, by rw [x9, x5]; exact pa.histLt, by rw [x5]; exact pa.xLt,
        by rw [x6]; exact pa.xFresh⟩
      · intro c hc
        rw [x5] at hc
        rw [x6, pa.rcEq c hc]
        unfold refCnt
        rw [x8, x9, x1, connCnt_congr (fun s _ => usedBit_congr (hcb s) c)]
      · intro l c hl
        rw [x8] at hl
        rw [x5, x6]; exact pa.loans l c hl
    · exact ⟨fun _ => pa, fun h => by rw [hex] at h; cases h⟩
  · intro t T hT
    rw [hS] at hT
    obtain ⟨h1, h2, h3⟩ := hi.acc.subs t T hT
    refine ⟨h1, h2, fun ha x hx => ?_⟩
    obtain ⟨Q, hQ, hq⟩ := h3 ha x hx
    obtain ⟨_, Q0, hQ0, hpr, hnp, _⟩ := (hi.top.subs t T hT).stor x.key x.pid (h2 x hx)
    rw [hQ] at hQ0; cases hQ0
    obtain ⟨Q', hQ', _, _, _, _, _, hpay⟩ := hpfwd x.pid Q hQ hnp hpr
    exact ⟨Q', hQ', by rw [hpay]; exact hq⟩
  · intro a b cn hcn Pa Sb hPa hSb
    rw [hS] at hSb; rw [hcfg]
    have hcn0 := hC a b cn hcn
    rcases hpbwd a Pa hPa with ⟨Q, hQ, _, _, x3, _, x5, _⟩ | ⟨hnone, _⟩
    · exact (hi.acc.conns a b cn hcn0 Q Sb hQ hSb).congr x5 x3 rfl rfl
    · rw [hnone b] at hcn0; cases hcn0

theorem getD_replicate_zero (n c : Nat) : (List.replicate n 0).getD c 0 = 0 := by
  rw [List.getD_eq_getElem?_getD, List.getElem?_replicate]
  split <;> rfl

theorem connCnt_replicate_none (w : World) (p n c : Nat) :
    connCnt w p (List.replicate n none) c = 0 := by
  unfold connCnt
  rw [List.length_eq_zero_iff, List.filter_eq_nil_iff]
  intro x hx
  rw [List.eq_of_mem_replicate hx]
  simp

theorem pReg_of_eq {w w' : World} (h : w'.pubReg = w.pubReg) {q : Nat} {Q : Pub}
    (hp : PReg w q Q) : PReg w' q Q := by
  unfold PReg at *; rw [h]; exact hp

theorem sReg_of_eq {w w' : World} (h : w'.subReg = w.subReg) {t : Nat} {T : Sub}
    (hp : SReg w t T) : SReg w' t T := by
  unfold SReg at *; rw [h]; exact hp

end PubLife

open PubLife

/-- also: slot empty ⇒ no-op -/
theorem pubRemoveConn_none {w : World} {p slot : Nat} {P : Pub} (hP : getP w p = some P)
    (hslot : P.conns.getD slot none = none) : pubRemoveConn w p slot = w := by
  simp only [pubRemoveConn, hP, hslot]

/-- `Sender::remove_connection` of slot `slot`, which holds a subscriber that is no longer alive -/
theorem pubRemoveConn_inv {G : GT} {A : GA} {w : World} {p slot s : Nat} {P : Pub}
    (hi : Inv G A w) (hP : getP w p = some P) (hslot : P.conns[slot]? = some (some s))
    (hdead : ∀ S, getS w s = some S → S.alive = false) :
    Inv G A (pubRemoveConn w p slot) ∧
    (pubRemoveConn w p slot).cfg = w.cfg ∧ (pubRemoveConn w p slot).pubReg = w.pubReg ∧
    (pubRemoveConn w p slot).subReg = w.subReg ∧
    (∀ t, getS (pubRemoveConn w p slot) t = getS w t) ∧
    (∀ q, q ≠ p → getP (pubRemoveConn w p slot) q = getP w q) ∧
    (∀ a b, a ≠ p → getC (pubRemoveConn w p slot) a b = getC w a b) ∧
    (∀ b, b ≠ s → getC (pubRemoveConn w p slot) p b = getC w p b) ∧
    ∃ P', getP (pubRemoveConn w p slot) p = some P' ∧ P'.conns = P.conns.set slot none ∧
      P'.alive = P.alive ∧ P'.ex = P.ex ∧ P'.slot = P.slot ∧ P'.snap = P.snap ∧ P'.n = P.n ∧
      P'.hist = P.hist ∧ P'.loans = P.loans ∧ P'.payload = P.payload := by
  have hmem : some s ∈ P.conns := List.mem_iff_getElem?.mpr ⟨slot, hslot⟩
  obtain ⟨c, hC, hsa⟩ := mem_conns_getC hi.top hP hmem
  obtain ⟨hpid, hsid, _, hex, pa, S, hS, ct, ca⟩ := hi.sender hP hC hsa
  have huniq := hi.top.conn_unique hP (s := s)
  have hgetD : P.conns.getD slot none = some s := by
    rw [List.getD_eq_getElem?_getD, hslot]; rfl
  have hub : ∀ x, usedBit w p s x = c.used.getD x false := usedBit_of_getC hC
  have hpos : ∀ x, x < c.used.length → c.used.getD x false = true → 1 ≤ P.rc.getD x 0 := by
    intro x hx hu
    have h1 := connCnt_pos (w := w) (p := p) (c := x) hmem (by rw [hub]; exact hu)
    rw [pa.rcEq x (by rw [← ca.usedLen]; exact hx)]
    unfold refCnt; omega
  obtain ⟨r1, r2, r3⟩ := releaseAllUsed_spec P c.used pa.free c.used.length
    (by rw [ca.usedLen]; exact Nat.le_refl _) hpos
  generalize hR : releaseAllUsed P c.used c.used.length = R at r1 r2 r3
  obtain ⟨f1, f2, f3, f4, f5, f6, f7, f8, f9⟩ := eraseRF_fields r2
  generalize hP' : ({ R with conns := R.conns.set slot none } : Pub) = P'
  have hP'f : P'.alive = P.alive ∧ P'.ex = P.ex ∧ P'.slot = P.slot ∧ P'.n = P.n ∧
      P'.hist = P.hist ∧ P'.conns = P.conns.set slot none ∧ P'.snap = P.snap ∧
      P'.loans = P.loans ∧ P'.payload = P.payload ∧ P'.rc = R.rc ∧ P'.free = R.free := by
    subst hP'
    exact ⟨f1, f2, f3, f4, f5, by rw [← f6], f7, f8, f9, rfl, rfl⟩
  obtain ⟨e1, e2, e3, e4, e5, e6, e7, e8, e9, e10, e11⟩ := hP'f
  -- the resulting world
  have hres : ∃ w', pubRemoveConn w p slot = w' ∧ w'.cfg = w.cfg ∧ w'.pubReg = w.pubReg ∧
      w'.subReg = w.subReg ∧ (∀ q, getP w' q = if q = p then some P' else getP w q) ∧
      (∀ t, getS w' t = getS w t) ∧
      (∀ a b, ¬ (a = p ∧ b = s) → getC w' a b = getC w a b) ∧
      ((c.rAtt = true ∧ getC w' p s =
          some { c with used := c.used.map fun _ => false, sAtt := false }) ∨
       (c.rAtt = false ∧ getC w' p s = none)) ∧
      w'.conns.Pairwise fun a b => ¬ (a.pid = b.pid ∧ a.sid = b.sid) := by
    have hC0 : getC (setP (setC w { c with used := c.used.map fun _ => false }) p P') p s =
        some { c with used := c.used.map fun _ => false } := by
      rw [getC_setP, getC_setC]
      show (if p = c.pid ∧ s = c.sid then _ else _) = _
      rw [if_pos ⟨hpid.symm, hsid.symm⟩, hC]; rfl
    have hgP1 : ∀ q, getP (setP (setC w { c with used := c.used.map fun _ => false }) p P') q =
        if q = p then some P' else getP w q := by
      intro q; simp [hP]
    have hgC1 : ∀ a b, ¬ (a = p ∧ b = s) →
        getC (setP (setC w { c with used := c.used.map fun _ => false }) p P') a b =
          getC w a b := by
      intro a b hab
      rw [getC_setP, getC_setC]
      show (if a = c.pid ∧ b = c.sid then _ else _) = _
      rw [if_neg (by rw [hpid, hsid]; exact hab)]
    have hn1 : (setP (setC w { c with used := c.used.map fun _ => false }) p P').conns.Pairwise
        fun a b => ¬ (a.pid = b.pid ∧ a.sid = b.sid) := nodup_setC _ hi.top.reg.nodup
    have hw : pubRemoveConn w p slot =
        if c.rAtt = true then
          setC (setP (setC w { c with used := c.used.map fun _ => false }) p P')
            { c with used := c.used.map fun _ => false, sAtt := false }
        else delC (setP (setC w { c with used := c.used.map fun _ => false }) p P') p s := by
      simp only [pubRemoveConn, hP, hgetD, hC, hR, hP']
      rw [detachSender_eq, hC0]
    by_cases hra : c.rAtt = true
    · rw [if_pos hra] at hw
      refine ⟨_, hw, rfl, rfl, rfl, hgP1, fun _ => rfl, ?_, Or.inl ⟨hra, ?_⟩, nodup_setC _ hn1⟩
      · intro a b hab
        rw [getC_setC]
        show (if a = c.pid ∧ b = c.sid then _ else _) = _
        rw [if_neg (by rw [hpid, hsid]; exact hab)]
        exact hgC1 a b hab
      · rw [getC_setC]
        show (if p = c.pid ∧ s = c.sid then _ else _) = _
        rw [if_pos ⟨hpid.symm, hsid.symm⟩, hC0]; rfl
    · rw [if_neg hra] at hw
      have hra' : c.rAtt = false := by simpa using hra
      refine ⟨_, hw, rfl, rfl, rfl, hgP1, fun _ => rfl, ?_, Or.inr ⟨hra', ?_⟩, nodup_delC _ _ hn1⟩
      · intro a b hab
        rw [getC_delC, if_neg hab]
        exact hgC1 a b hab
      · rw [getC_delC]; simp
  obtain ⟨w', hw'e, hcfg, hrp, hrs, hgP, hgS, hgCo, hgCp, hnd⟩ := hres
  rw [hw'e]
  have hPp : getP w' p = some P' := by rw [hgP]; simp
  -- members of the new connection array
  have hne : ∀ t, some t ∈ P.conns.set slot none → t ≠ s := by
    intro t ht
    obtain ⟨j, hj, hjt⟩ := mem_set_none ht
    rintro rfl
    exact hj (huniq j slot hjt hslot)
  have hd : Detach w w' p P P' (fun b => b = s) := by
    refine ⟨hcfg, hrp, hrs, hgS, ?_, hPp, ?_, ?_, hnd, e1, e3, e7, e4, e9, ?_, ?_, ?_, ?_, ?_, ?_, ?_⟩
    · intro q hq; rw [hgP]; simp [hq]
    · intro a b ha; exact hgCo a b (fun h => ha h.1)
    · intro b hb; exact hgCo p b (fun h => hb h.2)
    · intro _; exact hex
    · rw [e6, List.length_set]
    · intro i b
      rw [e6, List.getElem?_set]
      constructor
      · intro h
        by_cases his : slot = i
        · simp only [his, if_true] at h
          split at h <;> simp at h
        · simp only [his, if_false] at h
          refine ⟨h, ?_⟩
          rintro rfl
          exact his (huniq slot i hslot h)
      · rintro ⟨h, hb⟩
        have his : ¬ slot = i := by
          rintro rfl
          rw [hslot] at h
          exact hb (Option.some.inj (Option.some.inj h)).symm
        simp only [his, if_false]; exact h
    · rintro b rfl; exact hmem
    · rintro b cn rfl hcn
      rw [hC] at hcn; cases hcn
      rcases hgCp with ⟨h1, h2⟩ | ⟨h1, h2⟩
      · refine ⟨(fun h => by rw [h1] at h; cases h), fun _ => ⟨_, h2, rfl, rfl, h1, rfl, ?_, rfl,
          rfl, rfl, rfl, fun _ => ⟨?_, hdead⟩⟩⟩
        · simp
        · intro x; exact getD_map_false _ _
      · exact ⟨fun _ => h2, fun h => by rw [h1] at h; cases h⟩
    · intro h; rw [e2, hex] at h; cases h
    · intro _; rw [e2]; exact hex
  -- accounting of the publisher
  have hcc : ∀ x, connCnt w' p P'.conns x + (if c.used.getD x false = true then 1 else 0) =
      connCnt w p P.conns x := by
    intro x
    rw [e6, ← connCnt_set_none (w := w) (p := p) (x := x) hslot, hub]
    congr 1
    apply connCnt_congr
    intro t ht
    exact usedBit_congr (hgCo p t (fun h => hne t ht h.2)) x
  have hrc : ∀ x, x < P.n → P'.rc.getD x 0 =
      P.rc.getD x 0 - (if c.used.getD x false = true then 1 else 0) := by
    intro x hx
    rw [e10, r3 x]
    have : x < c.used.length := by rw [ca.usedLen]; exact hx
    simp only [this, true_and]
  have hacc : PubAcc A w' p P' := by
    refine ⟨r1.congr e10 e11 (e4.trans f4.symm), ?_, ?_, by rw [e8]; exact pa.loanLbl,
      by rw [e5]; exact pa.histNodup, by rw [e5, e4]; exact pa.histLt, by rw [e4]; exact pa.xLt, ?_⟩
    · intro x hx
      rw [e4] at hx
      rw [hrc x hx]
      have h0 := pa.rcEq x hx
      have h1 := hcc x
      have h2 := hpos x (by rw [ca.usedLen]; exact hx)
      unfold refCnt at h0 ⊢
      rw [e8, e5]
      cases hu : c.used.getD x false with
      | false => simp only [hu, Bool.false_eq_true, if_false] at h1 ⊢; omega
      | true => simp only [hu, if_true] at h1 h2 ⊢; omega
    · intro l x hl
      rw [e8] at hl
      obtain ⟨h1, h2⟩ := pa.loans l x hl
      refine ⟨by rw [e4]; exact h1, ?_⟩
      rw [hrc x h1]
      have h0 := pa.rcEq x h1
      have h3 := hcc x
      unfold refCnt at h0
      have : 1 ≤ (P.loans.filter (·.2 = x)).length := by
        apply List.length_pos_of_mem (a := (l, x))
        simp [List.mem_filter, hl]
      cases hu : c.used.getD x false with
      | false => simp only [Bool.false_eq_true, if_false]; omega
      | true => simp only [hu, if_true] at h3; omega
    · intro x hx hf
      have h1 := pa.xLt x hx
      have h2 := pa.xFresh x hx hf
      rw [hrc x h1]
      have h0 := pa.rcEq x h1
      have h3 := hcc x
      unfold refCnt at h0
      have : extra A p x = 1 := by simp [extra, hx]
      cases hu : c.used.getD x false with
      | false => simp only [Bool.false_eq_true, if_false]; omega
      | true => simp only [hu, if_true] at h3; omega
  refine ⟨inv_detach hi hP hd ⟨fun _ => hacc, fun h => by rw [e2, hex] at h; cases h⟩,
    hcfg, hrp, hrs, hgS, hd.pubs, hd.connsO, hd.connsK, P', hPp, e6, e1, e2, e3, e7, e4, e5, e8, e9⟩

theorem pubDestroyIfUnreferenced_inv {G : GT} {A : GA} {w : World} {p : Nat}
    (hi : Inv G A w) : Inv G A (pubDestroyIfUnreferenced w p) := by
  unfold pubDestroyIfUnreferenced
  cases hP : getP w p with
  | none => exact hi
  | some P =>
    simp only []
    by_cases hcond : (P.alive || !P.loans.isEmpty || !P.ex) = true
    · rw [if_pos hcond]; exact hi
    · rw [if_neg hcond]
      have hc3 : P.alive = false ∧ P.loans = [] ∧ P.ex = true := by
        cases h1 : P.alive <;> cases h2 : P.loans <;> cases h3 : P.ex <;>
          simp [h1, h2, h3] at hcond ⊢
      obtain ⟨hal, hlo, hex⟩ := hc3
      obtain ⟨g1, g2, g3, g4, g5, g6, g7⟩ := pubDestroySlots_obs p P.conns w hi.top.reg.nodup
      generalize pubDestroySlots w p P.conns = w1 at g1 g2 g3 g4 g5 g6 g7
      have hgP1 : ∀ q, getP w1 q = getP w q := by intro q; unfold getP; rw [g4]
      have hgS1 : ∀ t, getS w1 t = getS w t := by intro t; unfold getS; rw [g5]
      generalize hP' : ({ P with ex := false, conns := P.conns.map fun _ => none } : Pub) = P'
      have hP'f : P'.alive = P.alive ∧ P'.ex = false ∧ P'.slot = P.slot ∧ P'.n = P.n ∧
          P'.conns = P.conns.map (fun _ => none) ∧ P'.snap = P.snap ∧
          P'.loans = P.loans ∧ P'.payload = P.payload := by
        subst hP'; exact ⟨rfl, rfl, rfl, rfl, rfl, rfl, rfl, rfl⟩
      obtain ⟨e1, e2, e3, e4, e6, e7, e8, e9⟩ := hP'f
      have hd : Detach w (setP w1 p P') p P P' (fun b => some b ∈ P.conns) := by
        refine ⟨g1, g2, g3, ?_, ?_, ?_, ?_, ?_, g7, e1, e3, e7, e4, e9, ?_, ?_, ?_, ?_, ?_, ?_, ?_⟩
        · intro t; rw [getS_setP]; exact hgS1 t
        · intro q hq; rw [getP_setP, if_neg hq]; exact hgP1 q
        · rw [getP_setP, if_pos rfl, hgP1, hP]; rfl
        · intro a b ha
          rw [getC_setP, g6, if_neg (fun h => ha h.1)]
        · intro b hb
          rw [getC_setP, g6, if_neg (fun h => hb h.2)]
        · intro h; rw [e2] at h; cases h
        · rw [e6, List.length_map]
        · intro i b
          rw [e6, List.getElem?_map]
          constructor
          · intro h
            cases hx : P.conns[i]? with
            | none => rw [hx] at h; cases h
            | some y => rw [hx] at h; simp at h
          · rintro ⟨h, hb⟩
            exact absurd (List.mem_iff_getElem?.mpr ⟨i, h⟩) hb
        · intro b hb; exact hb
        · intro b cn hD hcn
          have hgc : getC (setP w1 p P') p b = detS (some cn) := by
            rw [getC_setP, g6, if_pos ⟨rfl, hD⟩, hcn]
          constructor
          · intro hra; rw [hgc]; simp [detS, hra]
          · intro hra
            refine ⟨{ cn with sAtt := false }, ?_, rfl, rfl, hra, rfl, rfl, rfl, rfl, rfl, rfl, ?_⟩
            · rw [hgc]; simp [detS, hra]
            · intro h; rw [e2] at h; cases h
        · intro _ x hx
          rw [e6] at hx
          obtain ⟨_, _, h⟩ := List.mem_map.mp hx
          exact h.symm
        · intro h; rw [e1, hal] at h; cases h
      exact inv_detach hi hP hd
        ⟨(fun h => by rw [e2] at h; cases h), fun _ => by rw [e8]; exact hlo⟩

/-- `.dpub`: the port object is dropped and leaves the registry -/
theorem dpub_unregister_inv {G : GT} {A : GA} {w : World} {p : Nat} {P : Pub}
    (hi : Inv G A w) (hnp : G.np = none) (hP : getP w p = some P) (ha : P.alive = true) :
    Inv G A { setP w p { P with alive := false } with pubReg := w.pubReg.remove P.slot } := by
  have r := hi.top.reg
  have hnp' : ∀ q, G.np ≠ some q := fun q h => by rw [hnp] at h; cases h
  have hregP : w.pubReg.slots[P.slot]? = some (some p) := by
    rcases r.r3p p P hP (hnp' p) with h | h
    · rw [ha] at h; cases h
    · exact h
  generalize hw' : ({ setP w p { P with alive := false } with
    pubReg := w.pubReg.remove P.slot } : World) = w'
  have hgP : ∀ q, getP w' q = if q = p then some { P with alive := false } else getP w q := by
    intro q; subst hw'
    show getP (setP w p { P with alive := false }) q = _
    simp [hP]
  have hgS : ∀ t, getS w' t = getS w t := by intro t; subst hw'; rfl
  have hgC : ∀ a b, getC w' a b = getC w a b := by intro a b; subst hw'; rfl
  have hcfg : w'.cfg = w.cfg := by subst hw'; rfl
  have hrs : w'.subReg = w.subReg := by subst hw'; rfl
  have hnd : w'.conns = w.conns := by subst hw'; rfl
  have hslots : w'.pubReg.slots = w.pubReg.slots.set P.slot none := by subst hw'; rfl
  have hsl : ∀ i : Nat, i ≠ P.slot → w'.pubReg.slots[i]? = w.pubReg.slots[i]? := by
    intro i hne
    rw [hslots, List.getElem?_set, if_neg (fun h => hne h.symm)]
  have hpreg : ∀ q Q, q ≠ p → PReg w q Q → PReg w' q Q := by
    intro q Q hq hpr
    rcases hpr with h | h
    · exact Or.inl h
    · refine Or.inr ?_
      rw [hsl _ ?_]; exact h
      intro e
      rw [e, hregP] at h
      exact hq (Option.some.inj (Option.some.inj h)).symm
  apply inv_change hi ?_ rfl rfl hcfg hrs hgS (fun a b cn h => by rw [← hgC]; exact h)
    (fun q s cn h _ => by rw [hgC]; exact h)
  · -- forward
    intro q Q hQ _ hpr
    by_cases hq : q = p
    · subst hq
      rw [hP] at hQ; cases hQ
      exact ⟨{ P with alive := false }, by rw [hgP, if_pos rfl], rfl, (fun h => by cases h),
        fun _ => rfl, Or.inl rfl, hnp' q, rfl⟩
    · exact ⟨Q, by rw [hgP, if_neg hq]; exact hQ, rfl, id, id, hpreg q Q hq hpr, hnp' q, rfl⟩
  · intro a b cn _ Q hQ
    by_cases hq : a = p
    · subst hq
      rw [hP] at hQ; cases hQ
      exact ⟨{ P with alive := false }, by rw [hgP, if_pos rfl], rfl⟩
    · exact ⟨Q, by rw [hgP, if_neg hq]; exact hQ, rfl⟩
  · intro q Q' hQ'
    rw [hgP] at hQ'
    left
    by_cases hq : q = p
    · subst hq
      rw [if_pos rfl] at hQ'; cases hQ'
      exact ⟨P, hP, rfl, rfl, rfl, (fun h => by cases h), rfl, rfl, rfl, rfl, rfl, hgC q⟩
    · rw [if_neg hq] at hQ'
      exact ⟨Q', hQ', rfl, rfl, rfl, (hi.top.pubs q Q' hQ').aliveEx, rfl, rfl, rfl, rfl, rfl, hgC q⟩
  · -- registry
    refine ⟨by rw [hslots, List.length_set, hcfg]; exact r.lenP, by rw [hrs, hcfg]; exact r.lenS,
      ?_, ?_, ?_, ?_, fun q h => absurd h (hnp' q), by rw [hrs]; exact r.nsFresh,
      fun q h => absurd h (hnp' q), ?_, by rw [hnd]; exact r.nodup⟩
    · intro i q hiq
      have hne : i ≠ P.slot := by
        rintro rfl
        rw [hslots, List.getElem?_set, if_pos rfl] at hiq
        split at hiq <;> simp at hiq
      rw [hsl i hne] at hiq
      obtain ⟨Q, hQ, h1, h2⟩ := r.r1 i q hiq
      have hq : q ≠ p := by
        rintro rfl
        rw [hP] at hQ; cases hQ
        exact hne h2.symm
      exact ⟨Q, by rw [hgP, if_neg hq]; exact hQ, h1, h2⟩
    · intro i e hie
      rw [hrs] at hie
      obtain ⟨S, hS, h1, h2⟩ := r.r2 i e hie
      exact ⟨S, by rw [hgS]; exact hS, h1, h2⟩
    · intro q Q' hQ' _
      rw [hgP] at hQ'
      by_cases hq : q = p
      · rw [if_pos hq] at hQ'; cases hQ'
        exact Or.inl rfl
      · rw [if_neg hq] at hQ'
        exact hpreg q Q' hq (r.r3p q Q' hQ' (hnp' q))
    · intro t T hT hns
      rw [hgS] at hT
      have := r.r3s t T hT hns
      unfold SReg at *; rw [hrs]; exact this
    · intro t hns
      obtain ⟨T, hT, h1⟩ := r.nsAlive t hns
      exact ⟨T, by rw [hgS]; exact hT, h1⟩

/-- `.cpub`, first step: the new port object exists but is not registered yet -/
theorem cpub_init_inv {A : GA} {w : World} {p ml : Nat}
    (hi : Inv {} A w) (hnone : getP w p = none) (hx : A.xp = none) :
    Inv { np := some p } A
      { w with pubs := w.pubs ++ [(p, ({
          maxLoans := ml, n := w.cfg.nChunks ml,
          free := List.range (w.cfg.nChunks ml), rc := List.replicate (w.cfg.nChunks ml) 0,
          conns := List.replicate w.cfg.maxSubs none, snapCtr := w.subReg.counter,
          snap := w.subReg.slots, payload := List.replicate (w.cfg.nChunks ml) 0,
          chunkSeq := List.replicate (w.cfg.nChunks ml) 0 } : Pub))] } := by
  have r := hi.top.reg
  generalize hP0 : ({
          maxLoans := ml, n := w.cfg.nChunks ml,
          free := List.range (w.cfg.nChunks ml), rc := List.replicate (w.cfg.nChunks ml) 0,
          conns := List.replicate w.cfg.maxSubs none, snapCtr := w.subReg.counter,
          snap := w.subReg.slots, payload := List.replicate (w.cfg.nChunks ml) 0,
          chunkSeq := List.replicate (w.cfg.nChunks ml) 0 } : Pub) = P0
  have hP0f : P0.alive = true ∧ P0.ex = true ∧ P0.free = List.range P0.n ∧
      P0.rc = List.replicate P0.n 0 ∧ P0.hist = [] ∧
      P0.conns = List.replicate w.cfg.maxSubs none ∧ P0.snap = w.subReg.slots ∧ P0.loans = [] := by
    subst hP0; exact ⟨rfl, rfl, rfl, rfl, rfl, rfl, rfl, rfl⟩
  obtain ⟨e1, e2, e3, e4, e5, e6, e7, e8⟩ := hP0f
  generalize hw' : ({ w with pubs := w.pubs ++ [(p, P0)] } : World) = w'
  have hgP : ∀ q, getP w' q = if q = p then some P0 else getP w q := by
    intro q; subst hw'; exact getP_append w p q P0 hnone
  have hgS : ∀ t, getS w' t = getS w t := by intro t; subst hw'; rfl
  have hgC : ∀ a b, getC w' a b = getC w a b := by intro a b; subst hw'; rfl
  have hcfg : w'.cfg = w.cfg := by subst hw'; rfl
  have hrp : w'.pubReg = w.pubReg := by subst hw'; rfl
  have hrs : w'.subReg = w.subReg := by subst hw'; rfl
  have hnd : w'.conns = w.conns := by subst hw'; rfl
  have hne : ∀ q Q, getP w q = some Q → q ≠ p := by
    rintro q Q hQ rfl; rw [hnone] at hQ; cases hQ
  have hnoc : ∀ b, getC w p b = none := by
    intro b
    cases hc : getC w p b with
    | none => rfl
    | some cn =>
      obtain ⟨Q, _, hQ, _⟩ := hi.top.conns p b cn hc
      exact absurd rfl (hne p Q hQ)
  apply inv_change (G' := { np := some p }) hi ?_ rfl rfl hcfg hrs hgS (fun a b cn h => by rw [← hgC]; exact h)
    (fun q s cn h _ => by rw [hgC]; exact h)
  · intro q Q hQ _ hpr
    have hq := hne q Q hQ
    exact ⟨Q, by rw [hgP, if_neg hq]; exact hQ, rfl, id, id, pReg_of_eq hrp hpr,
      fun h => hq (Option.some.inj h).symm, rfl⟩
  · intro a b cn _ Q hQ
    exact ⟨Q, by rw [hgP, if_neg (hne a Q hQ)]; exact hQ, rfl⟩
  · intro q Q' hQ'
    rw [hgP] at hQ'
    by_cases hq : q = p
    · subst hq
      rw [if_pos rfl] at hQ'; cases hQ'
      right
      refine ⟨hnoc, e2, ⟨?_, ?_, fun _ => e2, ?_, ?_, ?_⟩, ⟨⟨?_, ?_, ?_⟩, ?_, ?_, ?_, ?_, ?_, ?_, ?_⟩⟩
      · rw [e6, List.length_replicate, hcfg]
      · rw [e7, hcfg]; exact r.lenS
      · intro h; rw [e2] at h; cases h
      · intro i s hs
        have := List.mem_of_getElem? hs
        rw [e6] at this
        have := List.eq_of_mem_replicate this
        cases this
      · intro i e hs
        rw [e7] at hs
        obtain ⟨S, hS, h1, h2⟩ := r.r2 i e hs
        refine ⟨S, by rw [hgS]; exact hS, h2, Or.inr ⟨e, ?_, rfl⟩, fun h => by cases h⟩
        rw [hrs, h2]; exact hs
      · rw [e4, List.length_replicate]
      · rw [e3]; exact List.nodup_range
      · intro c
        rw [e3, e4, List.mem_range, getD_replicate_zero]
        simp
      · intro c _
        rw [e4, getD_replicate_zero]
        unfold refCnt extra
        rw [e8, e5, e6, connCnt_replicate_none, hx]
        rfl
      · intro l c hl; rw [e8] at hl; cases hl
      · rw [e8]; exact List.nodup_nil
      · rw [e5]; exact List.nodup_nil
      · intro c hc; rw [e5] at hc; cases hc
      · intro c hc; rw [hx] at hc; cases hc
      · intro c hc; rw [hx] at hc; cases hc
    · rw [if_neg hq] at hQ'
      left
      exact ⟨Q', hQ', rfl, rfl, rfl, (hi.top.pubs q Q' hQ').aliveEx, rfl, rfl, rfl, rfl, rfl, hgC q⟩
  · -- registry
    refine ⟨by rw [hrp, hcfg]; exact r.lenP, by rw [hrs, hcfg]; exact r.lenS,
      ?_, ?_, ?_, ?_, ?_, (fun t h => by cases h), ?_, (fun t h => by cases h),
      by rw [hnd]; exact r.nodup⟩
    · intro i q hiq
      rw [hrp] at hiq
      obtain ⟨Q, hQ, h1, h2⟩ := r.r1 i q hiq
      exact ⟨Q, by rw [hgP, if_neg (hne q Q hQ)]; exact hQ, h1, h2⟩
    · intro i e hie
      rw [hrs] at hie
      obtain ⟨S, hS, h1, h2⟩ := r.r2 i e hie
      exact ⟨S, by rw [hgS]; exact hS, h1, h2⟩
    · intro q Q' hQ' hnq
      rw [hgP] at hQ'
      have hq : q ≠ p := fun h => hnq (by rw [h])
      rw [if_neg hq] at hQ'
      exact pReg_of_eq hrp (r.r3p q Q' hQ' (fun h => by cases h))
    · intro t T hT hns
      rw [hgS] at hT
      exact sReg_of_eq hrs (r.r3s t T hT hns)
    · intro q hq i hs
      rw [hrp] at hs
      obtain ⟨Q, hQ, _⟩ := r.r1 i q hs
      exact hne q Q hQ (Option.some.inj hq).symm
    · intro q hq
      have : q = p := (Option.some.inj hq).symm
      subst this
      exact ⟨P0, by rw [hgP, if_pos rfl], e1⟩

/-- `.cpub`, registration succeeded -/
theorem cpub_ok_inv {A : GA} {w1 : World} {p slot : Nat} {P1 : Pub} {reg : Reg Nat}
    (hi : Inv { np := some p } A w1) (hadd : w1.pubReg.add p = some (reg, slot))
    (hP1 : getP w1 p = some P1) :
    Inv {} A { setP w1 p { P1 with slot := slot } with pubReg := reg } := by
  have r := hi.top.reg
  have hff : firstFree w1.pubReg.slots 0 = some slot ∧
      reg.slots = w1.pubReg.slots.set slot (some p) := by
    unfold Reg.add at hadd
    cases hf : firstFree w1.pubReg.slots 0 with
    | none => simp only [hf] at hadd; cases hadd
    | some i =>
      simp only [hf, Option.some.injEq, Prod.mk.injEq] at hadd
      obtain ⟨h1, h2⟩ := hadd
      subst h2; subst h1
      exact ⟨rfl, rfl⟩
  obtain ⟨hff1, hregs⟩ := hff
  have hfree : w1.pubReg.slots[slot]? = some none := by
    have := (firstFree_spec _ 0 slot hff1).2
    rwa [Nat.sub_zero] at this
  have hlt : slot < w1.pubReg.slots.length :=
    Nat.lt_of_not_le (fun h => by rw [List.getElem?_eq_none h] at hfree; cases hfree)
  have halive : P1.alive = true := by
    obtain ⟨Q, hQ, h⟩ := r.npAlive p rfl
    rw [hP1] at hQ; cases hQ; exact h
  generalize hw' : ({ setP w1 p { P1 with slot := slot } with pubReg := reg } : World) = w'
  have hgP : ∀ q, getP w' q = if q = p then some { P1 with slot := slot } else getP w1 q := by
    intro q; subst hw'
    show getP (setP w1 p { P1 with slot := slot }) q = _
    simp [hP1]
  have hgS : ∀ t, getS w' t = getS w1 t := by intro t; subst hw'; rfl
  have hgC : ∀ a b, getC w' a b = getC w1 a b := by intro a b; subst hw'; rfl
  have hcfg : w'.cfg = w1.cfg := by subst hw'; rfl
  have hrs : w'.subReg = w1.subReg := by subst hw'; rfl
  have hnd : w'.conns = w1.conns := by subst hw'; rfl
  have hslots : w'.pubReg.slots = w1.pubReg.slots.set slot (some p) := by subst hw'; exact hregs
  have hsl : ∀ i : Nat, i ≠ slot → w'.pubReg.slots[i]? = w1.pubReg.slots[i]? := by
    intro i hne
    rw [hslots, List.getElem?_set, if_neg (fun h => hne h.symm)]
  have hslp : w'.pubReg.slots[slot]? = some (some p) := by
    rw [hslots, List.getElem?_set, if_pos rfl, if_pos hlt]
  have hpreg : ∀ q Q, PReg w1 q Q → PReg w' q Q := by
    intro q Q hpr
    rcases hpr with h | h
    · exact Or.inl h
    · refine Or.inr ?_
      rw [hsl _ ?_]; exact h
      intro e
      rw [e, hfree] at h
      cases h
  apply inv_change (G' := {}) hi ?_ rfl rfl hcfg hrs hgS (fun a b cn h => by rw [← hgC]; exact h)
    (fun q s cn h _ => by rw [hgC]; exact h)
  · intro q Q hQ hnp hpr
    have hq : q ≠ p := fun h => hnp (by rw [h])
    exact ⟨Q, by rw [hgP, if_neg hq]; exact hQ, rfl, id, id, hpreg q Q hpr,
      (fun h => by cases h), rfl⟩
  · intro a b cn _ Q hQ
    by_cases hq : a = p
    · subst hq
      rw [hP1] at hQ; cases hQ
      exact ⟨{ P1 with slot := slot }, by rw [hgP, if_pos rfl], rfl⟩
    · exact ⟨Q, by rw [hgP, if_neg hq]; exact hQ, rfl⟩
  · intro q Q' hQ'
    rw [hgP] at hQ'
    left
    by_cases hq : q = p
    · subst hq
      rw [if_pos rfl] at hQ'; cases hQ'
      exact ⟨P1, hP1, rfl, rfl, rfl, (hi.top.pubs q P1 hP1).aliveEx, rfl, rfl, rfl, rfl, rfl, hgC q⟩
    · rw [if_neg hq] at hQ'
      exact ⟨Q', hQ', rfl, rfl, rfl, (hi.top.pubs q Q' hQ').aliveEx, rfl, rfl, rfl, rfl, rfl, hgC q⟩
  · -- registry
    refine ⟨by rw [hslots, List.length_set, hcfg]; exact r.lenP, by rw [hrs, hcfg]; exact r.lenS,
      ?_, ?_, ?_, ?_, (fun q h => by cases h), (fun t h => by cases h), (fun q h => by cases h),
      (fun t h => by cases h), by rw [hnd]; exact r.nodup⟩
    · intro i q hiq
      by_cases his : i = slot
      · subst his
        rw [hslp] at hiq
        have : q = p := (Option.some.inj (Option.some.inj hiq)).symm
        subst this
        exact ⟨{ P1 with slot := i }, by rw [hgP, if_pos rfl], halive, rfl⟩
      · rw [hsl i his] at hiq
        obtain ⟨Q, hQ, h1, h2⟩ := r.r1 i q hiq
        have hq : q ≠ p := by
          rintro rfl
          exact r.npFresh q rfl i hiq
        exact ⟨Q, by rw [hgP, if_neg hq]; exact hQ, h1, h2⟩
    · intro i e hie
      rw [hrs] at hie
      obtain ⟨S, hS, h1, h2⟩ := r.r2 i e hie
      exact ⟨S, by rw [hgS]; exact hS, h1, h2⟩
    · intro q Q' hQ' _
      rw [hgP] at hQ'
      by_cases hq : q = p
      · rw [if_pos hq] at hQ'; cases hQ'
        rw [hq]
        exact Or.inr hslp
      · rw [if_neg hq] at hQ'
        exact hpreg q Q' (r.r3p q Q' hQ' (fun h => hq (Option.some.inj h).symm))
    · intro t T hT hns
      rw [hgS] at hT
      exact sReg_of_eq hrs (r.r3s t T hT hns)

/-- `.cpub`, registry full: the port is dropped again -/
theorem cpub_fail_inv {A : GA} {w1 : World} {p : Nat} {P1 : Pub}
    (hi : Inv { np := some p } A w1) (hP1 : getP w1 p = some P1) (hx : A.xp = none) :
    Inv {} A { (pubDestroySlots w1 p P1.conns) with
      pubs := (pubDestroySlots w1 p P1.conns).pubs.filter fun e => e.1 ≠ p } := by
  have _ := hx
  have r := hi.top.reg
  obtain ⟨g1, g2, g3, g4, g5, g6, g7⟩ := pubDestroySlots_obs p P1.conns w1 r.nodup
  generalize pubDestroySlots w1 p P1.conns = w2 at g1 g2 g3 g4 g5 g6 g7
  generalize hw' : ({ w2 with pubs := w2.pubs.filter fun e => e.1 ≠ p } : World) = w'
  have hgP : ∀ q, getP w' q = if q = p then none else getP w1 q := by
    intro q; subst hw'
    rw [getP_filter]
    have : getP w2 q = getP w1 q := by unfold getP; rw [g4]
    rw [this]
  have hgS : ∀ t, getS w' t = getS w1 t := by
    intro t; subst hw'
    show getS w2 t = _
    unfold getS; rw [g5]
  have hgC : ∀ a b, getC w' a b =
      if a = p ∧ some b ∈ P1.conns then detS (getC w1 a b) else getC w1 a b := by
    intro a b; subst hw'; exact g6 a b
  have hcfg : w'.cfg = w1.cfg := by subst hw'; exact g1
  have hrp : w'.pubReg = w1.pubReg := by subst hw'; exact g2
  have hrs : w'.subReg = w1.subReg := by subst hw'; exact g3
  have hnd : w'.conns.Pairwise fun a b => ¬ (a.pid = b.pid ∧ a.sid = b.sid) := by
    subst hw'; exact g7
  -- connections of `p` have no receiver
  have hcp : ∀ b cn, getC w1 p b = some cn → cn.rAtt = false ∧ some b ∈ P1.conns := by
    intro b cn hc
    obtain ⟨P, S, hP, hS, ct⟩ := hi.top.conns p b cn hc
    rw [hP1] at hP; cases hP
    obtain ⟨hpid, hsid, _⟩ := getC_some hc
    have hra : cn.rAtt = false := by
      cases h : cn.rAtt with
      | false => rfl
      | true =>
        obtain ⟨k, hk⟩ := ct.rAtt.mp h
        rw [hpid] at hk
        obtain ⟨_, _, _, _, hnp, _⟩ := (hi.top.subs b S hS).stor k p hk
        exact absurd rfl hnp
    refine ⟨hra, ?_⟩
    rcases ct.att with h | h
    · rw [← hsid]; exact ct.sAtt.mp h
    · rw [hra] at h; cases h
  have hgCp : ∀ b, getC w' p b = none := by
    intro b
    rw [hgC]
    cases hc : getC w1 p b with
    | none => split <;> rfl
    | some cn =>
      obtain ⟨h1, h2⟩ := hcp b cn hc
      rw [if_pos ⟨rfl, h2⟩]
      simp [detS, h1]
  have hgCo : ∀ a b, a ≠ p → getC w' a b = getC w1 a b := by
    intro a b ha
    rw [hgC, if_neg (fun h => ha h.1)]
  apply inv_change (G' := {}) hi ?_ rfl rfl hcfg hrs hgS
  · intro a b cn h
    by_cases ha : a = p
    · subst ha; rw [hgCp] at h; cases h
    · rw [← hgCo a b ha]; exact h
  · intro q s cn h hra
    by_cases hq : q = p
    · subst hq
      rw [(hcp s cn h).1] at hra; cases hra
    · rw [hgCo q s hq]; exact h
  · intro q Q hQ hnp hpr
    have hq : q ≠ p := fun h => hnp (by rw [h])
    exact ⟨Q, by rw [hgP, if_neg hq]; exact hQ, rfl, id, id, pReg_of_eq hrp hpr,
      (fun h => by cases h), rfl⟩
  · intro a b cn hcn Q hQ
    have ha : a ≠ p := by
      rintro rfl; rw [hgCp] at hcn; cases hcn
    exact ⟨Q, by rw [hgP, if_neg ha]; exact hQ, rfl⟩
  · intro q Q' hQ'
    rw [hgP] at hQ'
    by_cases hq : q = p
    · rw [if_pos hq] at hQ'; cases hQ'
    · rw [if_neg hq] at hQ'
      left
      exact ⟨Q', hQ', rfl, rfl, rfl, (hi.top.pubs q Q' hQ').aliveEx, rfl, rfl, rfl, rfl, rfl,
        fun b => hgCo q b hq⟩
  · -- registry
    refine ⟨by rw [hrp, hcfg]; exact r.lenP, by rw [hrs, hcfg]; exact r.lenS,
      ?_, ?_, ?_, ?_, (fun q h => by cases h), (fun t h => by cases h), (fun q h => by cases h),
      (fun t h => by cases h), hnd⟩
    · intro i q hiq
      rw [hrp] at hiq
      obtain ⟨Q, hQ, h1, h2⟩ := r.r1 i q hiq
      have hq : q ≠ p := by
        rintro rfl
        exact r.npFresh q rfl i hiq
      exact ⟨Q, by rw [hgP, if_neg hq]; exact hQ, h1, h2⟩
    · intro i e hie
      rw [hrs] at hie
      obtain ⟨S, hS, h1, h2⟩ := r.r2 i e hie
      exact ⟨S, by rw [hgS]; exact hS, h1, h2⟩
    · intro q Q' hQ' _
      rw [hgP] at hQ'
      by_cases hq : q = p
      · rw [if_pos hq] at hQ'; cases hQ'
      · rw [if_neg hq] at hQ'
        exact pReg_of_eq hrp (r.r3p q Q' hQ' (fun h => hq (Option.some.inj h).symm))
    · intro t T hT hns
      rw [hgS] at hT
      exact sReg_of_eq hrs (r.r3s t T hT hns)

end Iox2.PubSub.C02P
