/-
C08 helper: publisher-side actions preserve the invariant (part F: history delivery).
-/
import Iox2.Proof.PubSubC08PubE
set_option linter.unusedSimpArgs false
set_option linter.unusedVariables false
namespace Iox2.PubSub.C08
open Iox2.PubSub
open Iox2.C16.SlotMapP (abs)
attribute [-simp] List.getD_eq_getElem?_getD

/-- a history chunk is not in flight while the in-flight chunks are unreferenced -/
theorem MemOK.hist_not_xs {cfg : Cfg} {w : World} {p : Nat} {P : Pub} {xs : List Nat} {st : Bool}
    (M : MemOK cfg w p P xs st) (hst : st = true) {ch : Nat} (hch : ch ∈ P.hist) : ch ∉ xs := by
  intro hm
  have h1 := M.xsRc hst ch hm
  have h2 := M.rcEq ch
  have h3 : 1 ≤ xs.count ch := List.one_le_count_iff.mpr hm
  have h4 : 1 ≤ P.hist.count ch := List.one_le_count_iff.mpr hch
  omega

theorem deliverHistory_inv {cfg : Cfg} {w : World} {xp : Option Nat} {p0 : Nat} {xs : List Nat} {st : Bool}
    (h : InvP cfg w xp p0 xs st) {p s i : Nat} {P : Pub} (l : List Nat)
    (hp : getP w p = some P) (hi : P.conns[i]? = some (some s)) (hal : P.alive = true)
    (hx : p ≠ p0 → xs = [])
    (hl : ∀ x ∈ l, x ∈ P.hist) (hnd : l.Nodup) (hun : ∀ x ∈ l, usedAt w p s x = false) :
    InvP cfg (deliverHistory w p s l) xp p0 xs st ∧
      ∃ P', getP (deliverHistory w p s l) p = some P' ∧ PoolEq P P' := by
  induction l generalizing w P with
  | nil => exact ⟨h, P, hp, .refl _⟩
  | cons ch r ih =>
    rw [deliverHistory]
    -- retrieve
    have h1 := retrieveReturned_inv h p hx
    obtain ⟨_, s2, _, s4⟩ := retrieveReturned_shape w p
    obtain ⟨P1, hp1, e1⟩ := s2 P hp
    have hi1 : P1.conns[i]? = some (some s) := by rw [e1.sim.conns]; exact hi
    obtain ⟨c1, hc1, hsa1⟩ := (h1.p p P1 hp1).1.slotConn i s hi1
    obtain ⟨c0, hc0, k1, k2, k3⟩ := s4 p s c1 hc1
    have hcomp1 : c1.comp = [] := k2 P rfl hp (List.mem_of_getElem? hi)
    have hun1 : ∀ x ∈ ch :: r, c1.used.getD x false = false := by
      intro x hx'
      have := hun x hx'
      rw [usedAt_of_getC hc0] at this
      cases hu : c1.used.getD x false with
      | false => rfl
      | true => rw [k3 x hu] at this; cases this
    have hal1 : P1.alive = true := e1.sim.alive.trans hal
    have hhist1 : P1.hist = P.hist := e1.fields.2.2.2.2.2.2.1
    have hch : ch ∈ P1.hist := by rw [hhist1]; exact hl ch (by simp)
    have M1 := (h1.p p P1 hp1).2 hal1
    -- deliver
    have h2 := deliverTo_inv h1 (P1.chunkSeq.getD ch 0) hp1 hc1 hi1 hal1 hx hcomp1 (hun1 ch (by simp))
      (by have := List.one_le_count_iff.mpr hch; omega) (fun hst => M1.hist_not_xs hst hch)
    simp only [hp1]
    obtain ⟨_, d2, _, d4, _⟩ := deliverTo_shape (retrieveReturned w p) p s ch (P1.chunkSeq.getD ch 0)
    obtain ⟨P2, hp2, e2⟩ := d2 P1 hp1
    have hnd' := List.nodup_cons.mp hnd
    have hi2 : P2.conns[i]? = some (some s) := by rw [e2.sim.conns]; exact hi1
    obtain ⟨hfin, P3, hp3, e3⟩ := ih h2 hp2 hi2 (e2.sim.alive.trans hal1)
      (fun x hx' => by rw [e2.fields.2.2.2.2.2.2.1, hhist1]; exact hl x (by simp [hx'])) hnd'.2
      (by
        intro x hx'
        have hxc : x ≠ ch := by intro e; subst e; exact hnd'.1 hx'
        cases hu : usedAt (deliverTo (retrieveReturned w p) p s ch (P1.chunkSeq.getD ch 0)).1 p s x with
        | false => rfl
        | true =>
          unfold usedAt at hu
          cases hc2 : getC (deliverTo (retrieveReturned w p) p s ch (P1.chunkSeq.getD ch 0)).1 p s with
          | none => rw [hc2] at hu; cases hu
          | some c2 =>
            rw [hc2] at hu
            obtain ⟨c1', hc1', _, _, _, m⟩ := d4 p s c2 hc2
            rw [hc1] at hc1'; cases hc1'
            have := m x hxc hu
            rw [hun1 x (by simp [hx'])] at this; cases this)
    exact ⟨hfin, P3, hp3, (e1.trans e2).trans e3⟩

end Iox2.PubSub.C08
