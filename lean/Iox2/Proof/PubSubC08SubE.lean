/-
C08 helper: subscriber-side actions preserve the invariant (part E: `subPrepareRemoval`).
-/
import Iox2.Proof.PubSubC08SubD
set_option linter.unusedSimpArgs false
set_option linter.unusedVariables false
namespace Iox2.PubSub.C08
open Iox2.PubSub
open Iox2.C16.SlotMapP (abs)
attribute [-simp] List.getD_eq_getElem?_getD

/-- only the subscriber record changes -/
theorem InvS.setS_only {cfg : Cfg} {w : World} {xs : Option Nat} {s : Nat} {hole hole' : Option Nat}
    (h : InvS cfg w xs s hole) {S : Sub} (hS : getS w s = some S) (S' : Sub)
    (hsim : SubSim S S') (hheld : S'.held = S.held)
    (hSub : SubOK cfg w s S' hole') : InvS cfg (setS w s S') xs s hole' := by
  refine InvS.rebuild1 (p := 0) (getC w 0 s) h hS ⟨rfl, rfl, rfl, fun _ => rfl⟩ (h.u.of_conns rfl)
    (fun q => by rw [getS_setS, hS]; rfl) (fun a b => ?_) hsim (fun q _ => by rw [hheld])
    (fun c hc ha => ⟨c, hc, ha, rfl⟩) (fun c' hc' => ?_) (hSub.transferS (fun _ => rfl) (fun _ => rfl))
  · by_cases hab : a = 0 ∧ b = s
    · obtain ⟨rfl, rfl⟩ := hab; simp
    · simp [hab]
  · exact (h.c 0 s c' hc').transferS2 (getC_key hc').1 (fun _ => rfl) hS (by simp [hS]) hsim.alive (by rw [hheld])

/-- a slot without a connection can be regarded as the hole -/
theorem SubOK.open_none {cfg : Cfg} {w : World} {s : Nat} {S : Sub} (h : SubOK cfg w s S none) (slot : Nat)
    (hn : ∀ k, S.conns[slot]? ≠ some (some k)) : SubOK cfg w s S (some slot) := by
  refine ⟨h.stI, h.connsLen, h.capEq, h.buf1, h.bufM, h.tbrNodup, h.tbrLen, h.tbrIn,
    fun i k _ hi => h.connKey i k (by simp) hi, fun i j k _ _ hi hj => h.connInj i j k (by simp) (by simp) hi hj,
    ?_, h.hasConn, h.pidInj, h.heldKey, h.tbrDead, fun i k p _ hi => h.connSlot i k p (by simp) hi, h.aliveEx⟩
  intro k hk
  rcases h.cover k hk with ht | ⟨i, _, hi⟩
  · exact .inl ht
  · right
    refine ⟨i, ?_, hi⟩
    intro e; cases e
    exact hn k hi

theorem SubOK.close_none {cfg : Cfg} {w : World} {s : Nat} {S : Sub} {slot : Nat} (h : SubOK cfg w s S (some slot))
    (hn : ∀ k, S.conns[slot]? ≠ some (some k)) : SubOK cfg w s S none := by
  have hne : ∀ i k : Nat, S.conns[i]? = some (some k) → some i ≠ some slot := by
    intro i k hi e; cases e; exact hn k hi
  refine ⟨h.stI, h.connsLen, h.capEq, h.buf1, h.bufM, h.tbrNodup, h.tbrLen, h.tbrIn,
    fun i k _ hi => h.connKey i k (hne i k hi) hi,
    fun i j k _ _ hi hj => h.connInj i j k (hne i k hi) (hne j k hj) hi hj,
    ?_, h.hasConn, h.pidInj, h.heldKey, h.tbrDead, fun i k p _ hi => h.connSlot i k p (hne i k hi) hi, h.aliveEx⟩
  intro k hk
  rcases h.cover k hk with ht | ⟨i, _, hi⟩
  · exact .inl ht
  · exact .inr ⟨i, by simp, hi⟩

/-- the key of `slot` moves to the `to_be_removed` list -/
theorem tbrPush_inv {cfg : Cfg} {w : World} {xs : Option Nat} {s : Nat}
    (h : InvS cfg w xs s none) {S : Sub} (hS : getS w s = some S) {slot key : Nat}
    (hslot : S.conns[slot]? = some (some key)) (hlen : S.tbr.length < S.tbrCap)
    (hdead : ∀ p P, abs S.storage key = some p → getP w p = some P → P.alive = false) :
    InvS cfg (setS w s { S with tbr := S.tbr ++ [key] }) xs s (some slot) := by
  have hSO : SubOK cfg w s S none := by simpa using h.s s S hS
  obtain ⟨ka, kt⟩ := hSO.connKey slot key (by simp) hslot
  refine h.setS_only hS _ ⟨rfl, rfl, rfl⟩ rfl ?_
  refine ⟨hSO.stI, hSO.connsLen, hSO.capEq, hSO.buf1, hSO.bufM, ?_, ?_, ?_, ?_, ?_, ?_, hSO.hasConn, hSO.pidInj,
    hSO.heldKey, ?_, ?_, hSO.aliveEx⟩
  · show (S.tbr ++ [key]).Nodup
    rw [List.nodup_append]
    refine ⟨hSO.tbrNodup, by simp, ?_⟩
    intro a ha b hb e
    simp at hb; subst hb; subst e; exact kt ha
  · show (S.tbr ++ [key]).length ≤ _
    simp; omega
  · intro k hk
    have hk' : k ∈ S.tbr ++ [key] := hk
    rcases List.mem_append.mp hk' with hk' | hk'
    · exact hSO.tbrIn k hk'
    · simp at hk'; subst hk'; exact ka
  · intro i k hi hik
    have hi' : i ≠ slot := fun e => hi (by rw [e])
    obtain ⟨a1, a2⟩ := hSO.connKey i k (by simp) hik
    refine ⟨a1, ?_⟩
    show k ∉ S.tbr ++ [key]
    intro hm
    rcases List.mem_append.mp hm with hm | hm
    · exact a2 hm
    · simp at hm; subst hm
      exact hi' (hSO.connInj i slot k (by simp) (by simp) hik hslot)
  · intro i j k _ _ hi hj
    exact hSO.connInj i j k (by simp) (by simp) hi hj
  · intro k hk
    rcases hSO.cover k hk with ht | ⟨i, _, hi⟩
    · left; show k ∈ S.tbr ++ [key]; simp [ht]
    · by_cases his : i = slot
      · subst his
        rw [hslot] at hi; cases hi
        left; show key ∈ S.tbr ++ [key]; simp
      · exact .inr ⟨i, fun e => his (by cases e; rfl), hi⟩
  · intro k hk p P hkp hP
    have hk' : k ∈ S.tbr ++ [key] := hk
    rcases List.mem_append.mp hk' with hk' | hk'
    · exact hSO.tbrDead k hk' p P hkp hP
    · simp at hk'; subst hk'; exact hdead p P hkp hP
  · intro i k p _ hi hk
    exact hSO.connSlot i k p (by simp) hi hk

/-- a stored connection with borrows has a held sample carrying its key -/
theorem key_in_held {cfg : Cfg} {w : World} {s : Nat} {S : Sub} {hole : Option Nat}
    (hSO : SubOK cfg w s S hole) (hC : CInv cfg w) (hS : getS w s = some S) {k p : Nat} {c : Conn}
    (hk : abs S.storage k = some p) (hc : getC w p s = some c) (hb : c.borrow > 0) :
    k ∈ S.held.map (·.key) := by
  have := (hC p s c hc).held S hS
  have hne : S.held.filter (·.pid = p) ≠ [] := by
    intro e; rw [e] at this; simp at this; omega
  obtain ⟨hd, hhd⟩ := List.exists_mem_of_ne_nil _ hne
  rw [List.mem_filter] at hhd
  have hpid : hd.pid = p := by simpa using hhd.2
  have := hSO.heldKey hd hhd.1
  rw [hpid] at this
  have := hSO.pidInj hd.key k p this hk
  exact List.mem_map.mpr ⟨hd, hhd.1, this⟩

theorem subPrepareRemoval_inv {cfg : Cfg} {w : World} {xs : Option Nat} {s : Nat}
    (h : InvS cfg w xs s none) {S : Sub} (hS : getS w s = some S) (slot : Nat)
    (hdead : ∀ key p P, S.conns[slot]? = some (some key) → abs S.storage key = some p →
      getP w p = some P → P.alive = false) :
    ((subPrepareRemoval w s slot).panicked = false → InvS cfg (subPrepareRemoval w s slot) xs s (some slot)) ∧
    (w.panicked = false → S.alive = true → S.held.length ≤ cfg.borrowMax →
      (subPrepareRemoval w s slot).panicked = false) ∧
    (∃ S', getS (subPrepareRemoval w s slot) s = some S' ∧ SubKeep S S') := by
  have hSO : SubOK cfg w s S none := by simpa using h.s s S hS
  rw [subPrepareRemoval_eq, hS]
  dsimp only
  cases hsl : S.conns.getD slot none with
  | none =>
    dsimp only
    have hn : ∀ k, S.conns[slot]? ≠ some (some k) := by
      intro k hk; rw [← getD_some_iff, hsl] at hk; cases hk
    refine ⟨fun _ => ?_, fun hp _ _ => hp, S, hS, .refl _⟩
    refine ⟨h.r, h.c, h.p, ?_, h.u⟩
    intro q Q hq
    by_cases hqs : q = s
    · subst hqs; rw [hS] at hq; cases hq
      simpa using hSO.open_none slot hn
    · simpa [hqs] using h.s q Q hq
  | some key =>
    dsimp only
    have hslot : S.conns[slot]? = some (some key) := getD_some_iff.mp hsl
    obtain ⟨ka, kt⟩ := hSO.connKey slot key (by simp) hslot
    cases hkp : abs S.storage key with
    | none => exact absurd hkp ka
    | some p =>
      obtain ⟨c, hc, hcf⟩ := connFlags_eq hSO hkp
      rw [hcf]
      dsimp only
      have hdead' : ∀ p' P, abs S.storage key = some p' → getP w p' = some P → P.alive = false :=
        fun p' P h1 h2 => hdead key p' P hslot h1 h2
      have hcov : ∀ i : Nat, S.conns[i]? = some (some key) → some i = some slot := by
        intro i hi; rw [hSO.connInj i slot key (by simp) (by simp) hi hslot]
      by_cases hfl : (!c.sub.isEmpty || decide (c.borrow > 0)) = true
      · rw [if_pos hfl]
        by_cases hlen : S.tbr.length < S.tbrCap
        · rw [if_pos hlen]
          exact ⟨fun _ => tbrPush_inv h hS hslot hlen hdead', fun hp _ _ => hp,
            _, by simp [hS], ⟨S.storage, S.tbr ++ [key], rfl⟩⟩
        · rw [if_neg hlen]
          -- evict, then retry
          obtain ⟨e1, S1, hS1, erel, ecase⟩ := prepEvict_inv h hS (decide (c.borrow > 0))
          have hSO1 : SubOK cfg (prepEvict w s S (decide (c.borrow > 0))) s S1 none := by simpa using e1.s s S1 hS1
          have hslot1 : S1.conns[slot]? = some (some key) := by rw [erel.conns]; exact hslot
          have hkp1 : abs S1.storage key = some p := by rw [erel.absKeep key kt]; exact hkp
          have hkt1 : key ∉ S1.tbr := fun hm => kt (erel.tbrSub key hm)
          have hcov1 : ∀ i : Nat, S1.conns[i]? = some (some key) → some i = some slot := by
            intro i hi; rw [erel.conns] at hi; exact hcov i hi
          have hpnot : ∀ k ∈ S.tbr, abs S.storage k ≠ some p := by
            intro k hk e
            exact kt (hSO.pidInj k key p e hkp ▸ hk)
          have hc1 : getC (prepEvict w s S (decide (c.borrow > 0))) p s = some c := by
            rw [erel.connKeep p hpnot]; exact hc
          unfold prepRetry
          rw [hS1]
          dsimp only
          by_cases hlen1 : S1.tbr.length < S1.tbrCap
          · rw [if_pos hlen1]
            refine ⟨fun _ => tbrPush_inv e1 hS1 hslot1 hlen1 ?_, fun hp _ _ => by
              show (prepEvict w s S (decide (c.borrow > 0))).panicked = false
              rw [erel.panicked]; exact hp, _, by simp [hS1], erel.keep.trans ⟨S1.storage, S1.tbr ++ [key], rfl⟩⟩
            intro p' P h1 h2
            rw [hkp1] at h1; cases h1
            rw [erel.frame.pubs] at h2
            exact hdead' p P hkp h2
          · rw [if_neg hlen1]
            by_cases hb : decide (c.borrow > 0) = true
            · rw [if_pos hb]
              refine ⟨fun hp => (by cases hp), fun hp hal hdisc => ?_, S1, hS1, erel.keep⟩
              exfalso
              have hbpos : c.borrow > 0 := by simpa using hb
              rcases ecase with hl | ⟨ew, eS, hall⟩
              · have := hSO.tbrLen
                rw [erel.tbrCap] at hlen1
                omega
              · subst eS
                have hsub : ∀ k ∈ S1.tbr ++ [key], k ∈ S1.held.map (·.key) := by
                  intro k hk
                  rcases List.mem_append.mp hk with hk | hk
                  · obtain ⟨d, hd⟩ := hall hb k hk
                    cases hka : abs S1.storage k with
                    | none => exact absurd hka (hSO.tbrIn k hk)
                    | some q =>
                      obtain ⟨cq, hcq, hfq⟩ := connFlags_eq hSO hka
                      rw [hfq] at hd
                      simp only [Option.some.injEq, Prod.mk.injEq, decide_eq_true_eq] at hd
                      exact key_in_held hSO h.c hS hka hcq hd.2
                  · simp at hk; subst hk
                    exact key_in_held hSO h.c hS hkp hc hbpos
                have hnd : (S1.tbr ++ [key]).Nodup := by
                  rw [List.nodup_append]
                  refine ⟨hSO.tbrNodup, by simp, ?_⟩
                  intro a ha b hb' e; simp at hb'; subst hb'; subst e; exact kt ha
                have := nodup_subset_length _ _ hnd hsub
                simp at this
                have := (hSO.capEq hal).2
                omega
            · rw [if_neg hb]
              have hb0 : connBorrow (prepEvict w s S (decide (c.borrow > 0))) p s = 0 := by
                rw [connBorrow_of_getC hc1]
                simp at hb; omega
              obtain ⟨r1, r2⟩ := dropKey_inv e1 hS1 hkp1 hb0 hkt1 (some slot) hcov1 (.inr ⟨rfl, slot, rfl, hslot1⟩)
              exact ⟨fun _ => r1, fun hp _ _ => by rw [subDropConn_panicked, erel.panicked]; exact hp, _, r2,
                erel.keep.trans ⟨_, S1.tbr, rfl⟩⟩
      · rw [if_neg hfl]
        have hb0 : connBorrow w p s = 0 := by
          rw [connBorrow_of_getC hc]
          simp at hfl; omega
        obtain ⟨r1, r2⟩ := dropKey_inv h hS hkp hb0 kt (some slot) hcov (.inr ⟨rfl, slot, rfl, hslot⟩)
        exact ⟨fun _ => r1, fun hp _ _ => by rw [subDropConn_panicked]; exact hp, _, r2, ⟨_, S.tbr, rfl⟩⟩

end Iox2.PubSub.C08
