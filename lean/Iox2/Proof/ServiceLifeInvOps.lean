/-
C06 — the building blocks of `step` (`addRef`/`addState`, `createCore`, `openCore`, `oocCore`, `release`,
`updState`, `dropAll`) preserve the regrouped invariant `WF` and never replace an incarnation.
-/
import Iox2.Proof.ServiceLifeInvRef
import Iox2.Proof.ServiceLifeInvSvc

namespace Iox2.ServiceLife

/-- an incarnation found before and after is the same one -/
def SvcStab (l l' : List Svc) : Prop :=
  ∀ k s s', findL l k = some s → findL l' k = some s' → s'.uid = s.uid ∧ s'.cfg = s.cfg ∧ s'.key = s.key

theorem SvcSub.stab {l l' : List Svc} (h : SvcSub l l') : SvcStab l l' := by
  intro k s s' h1 h2
  rcases h k s' h2 with ⟨s0, h0, e⟩
  rw [h1] at h0
  cases h0
  exact e

theorem SvcStab.refl (l : List Svc) : SvcStab l l := (SvcSub.refl l).stab

/-- `w'` satisfies the invariant and only lost services / changed registrations relative to `w` -/
def PresS (w w' : World) : Prop := WF w' ∧ SvcSub w.svcs w'.svcs

/-- `w'` satisfies the invariant and kept the incarnations of `w` -/
def Pres (w w' : World) : Prop := WF w' ∧ SvcStab w.svcs w'.svcs

theorem PresS.pres {w w' : World} (h : PresS w w') : Pres w w' := ⟨h.1, h.2.stab⟩

theorem PresS.refl {w : World} (h : WF w) : PresS w w := ⟨h, SvcSub.refl _⟩

theorem PresS.trans {w1 w2 w3 : World} (h12 : PresS w1 w2) (h23 : PresS w2 w3) : PresS w1 w3 :=
  ⟨h23.1, h12.2.trans h23.2⟩

/-! ## equations -/

theorem addRef_zero (w : World) (n : Nat) (k : Key) (h : refCount w n k = 0) :
    addRef w n k = { w with refs := (n, k, 1) :: w.refs, svcs := w.svcs.map (updRegs k (fun s => n :: s.regs)) } := by
  unfold addRef; rw [if_pos (by simp [h])]; rfl

theorem addRef_pos (w : World) (n : Nat) (k : Key) (h : refCount w n k ≠ 0) :
    addRef w n k = { w with refs := w.refs.map (updRef n k (fun c => c + 1)) } := by
  unfold addRef; rw [if_neg (by simp [h])]; rfl

theorem release_congr (w : World) {st st' : SState} (hn : st'.node = st.node) (hk : st'.key = st.key) :
    release w st' = release w st := by
  unfold release; rw [hn, hk]

theorem release_dec (w : World) (st : SState) (hc : ¬refCount w st.node st.key ≤ 1) :
    release w st = { w with refs := w.refs.map (updRef st.node st.key (fun c => c - 1)) } := by
  unfold release; rw [if_neg hc]; rfl

theorem release_none (w : World) (st : SState) (hc : refCount w st.node st.key ≤ 1) (hf : findSvc w st.key = none) :
    release w st = { w with refs := w.refs.filter (fun r => !(r.1 == st.node && r.2.1 == st.key)) } := by
  unfold release; rw [if_pos hc]; simp only [hf]

theorem release_last (w : World) (st : SState) (hc : refCount w st.node st.key ≤ 1) {svc : Svc}
    (hf : findSvc w st.key = some svc) (he : (svc.regs.erase st.node).isEmpty = true) :
    release w st = { w with refs := w.refs.filter (fun r => !(r.1 == st.node && r.2.1 == st.key)),
                            svcs := w.svcs.filter (fun s => !(s.key == st.key)) } := by
  unfold release; rw [if_pos hc]; simp only [hf]; rw [if_pos he]

theorem release_dereg (w : World) (st : SState) (hc : refCount w st.node st.key ≤ 1) {svc : Svc}
    (hf : findSvc w st.key = some svc) (he : ¬(svc.regs.erase st.node).isEmpty = true) :
    release w st = { w with refs := w.refs.filter (fun r => !(r.1 == st.node && r.2.1 == st.key)),
                            svcs := w.svcs.map (updRegs st.key (fun _ => svc.regs.erase st.node)) } := by
  unfold release; rw [if_pos hc]; simp only [hf]; rw [if_neg he]; rfl

/-! ## open / create -/

theorem open_pres (w : World) (n h : Nat) (k : Key) (svc : Svc) (hw : WF w) (hf : findSvc w k = some svc)
    (hl : labelUsed w h = false) : PresS w (addState (addRef w n k) n h svc) := by
  have hsvc := findL_some hf
  have hl' := labelUsed_false_iff.1 hl
  by_cases h0 : refCount w n k = 0
  · rw [addRef_zero w n k h0]
    have hs0 : stateCountL w.states n k = 0 := by rw [← hw.ref.cnt]; exact h0
    exact ⟨⟨hw.svc.add_reg hf hs0 h, hw.ref.add_new h0 _ rfl hsvc.2, hw.st.add n svc.key svc.uid svc.cfg hl'⟩,
      SvcSub.map_updRegs _ _ _⟩
  · rw [addRef_pos w n k h0]
    have hs1 : 1 ≤ stateCountL w.states n k := by
      rw [← hw.ref.cnt]; exact Nat.pos_of_ne_zero h0
    exact ⟨⟨hw.svc.add_same hf hs1 h, hw.ref.add_inc h0 _ rfl hsvc.2, hw.st.add n svc.key svc.uid svc.cfg hl'⟩,
      SvcSub.refl _⟩

theorem openCore_pres (w : World) (n h : Nat) (k : Key) (r : Req) (hw : WF w) (hl : labelUsed w h = false) :
    PresS w (openCore w n h k r).1 := by
  unfold openCore
  cases hf : findSvc w k with
  | none => exact PresS.refl hw
  | some svc =>
    simp only
    cases hv : verify k.p r svc.cfg with
    | some e => exact PresS.refl hw
    | none =>
      simp only
      split
      · exact PresS.refl hw
      · exact open_pres w n h k svc hw hf hl

/-- `openCore` leaves the world alone when it fails -/
theorem openCore_err (w : World) (n h : Nat) (k : Key) (r : Req) {w' : World} {c : Nat} {e : String}
    (he : openCore w n h k r = (w', .err c e)) : w' = w := by
  unfold openCore at he
  cases hf : findSvc w k with
  | none => rw [hf] at he; simp only at he; exact (Prod.mk.inj he).1.symm
  | some svc =>
    rw [hf] at he
    simp only at he
    cases hv : verify k.p r svc.cfg with
    | some e' => rw [hv] at he; simp only at he; exact (Prod.mk.inj he).1.symm
    | none =>
      rw [hv] at he
      simp only at he
      split at he
      · exact (Prod.mk.inj he).1.symm
      · cases (Prod.mk.inj he).2

theorem createCore_pres (w : World) (n h : Nat) (k : Key) (r : Req) (hw : WF w) (hl : labelUsed w h = false) :
    Pres w (createCore w n h k r).1 := by
  unfold createCore
  simp only
  cases hp : preCheck k.p r (mkSettings k.p r).vals with
  | some e => exact (PresS.refl hw).pres
  | none =>
    simp only
    cases hf : findSvc w k with
    | some s => exact (PresS.refl hw).pres
    | none =>
      simp only
      split
      · exact (PresS.refl hw).pres
      · split
        · exact (PresS.refl hw).pres
        · have hl' := labelUsed_false_iff.1 hl
          have hnone := findL_none hf
          -- no state of the service, hence no reference
          have hs0 : stateCountL w.states n k = 0 := by
            apply stateCountL_zero_iff.2
            intro st hst e
            rcases hw.svc.stSvc st hst with ⟨svc0, hs0, e0, -⟩
            exact hnone svc0 hs0 (e0.trans e.2)
          have h0 : refCountL w.refs n k = 0 := by rw [hw.ref.cnt]; exact hs0
          refine ⟨⟨hw.svc.create hf n h r, hw.ref.add_new h0 _ rfl rfl, hw.st.add n k w.nextUid (mkSettings k.p r) hl'⟩, ?_⟩
          intro k' s s' h1 h2
          have hk' : k ≠ k' := by
            intro e
            rw [← e] at h1
            rw [show findL w.svcs k = none from hf] at h1
            cases h1
          have h2' : findL w.svcs k' = some s' := by
            have : findL ({ key := k, uid := w.nextUid, cfg := mkSettings k.p r, regs := [n], creq := r } :: w.svcs) k' = some s' := h2
            unfold findL at this
            rw [List.find?_cons] at this
            have hb : ((({ key := k, uid := w.nextUid, cfg := mkSettings k.p r, regs := [n], creq := r } : Svc).key) == k') = false := by
              simp [hk']
            rw [hb] at this
            exact this
          rw [h1] at h2'
          cases h2'
          exact ⟨rfl, rfl, rfl⟩

theorem wrapErr_world_eq (c : Nat) (x : World × Out) : (wrapErr c x).1 = x.1 := by
  unfold wrapErr
  split <;> rfl

theorem oocCore_pres (w : World) (n h : Nat) (k : Key) (r : Req) (hw : WF w) (hl : labelUsed w h = false) :
    Pres w (oocCore w n h k r).1 := by
  unfold oocCore
  simp only
  have hopen := openCore_pres w n h k { r with vals := clampReq (fieldsOf k.p) r.vals } hw hl
  split
  · rename_i w' c e heq
    have hw' := openCore_err w n h k _ heq
    split
    · rw [wrapErr_world_eq]
      exact createCore_pres w n h k _ hw hl
    · subst hw'
      exact (PresS.refl hw).pres
  · exact hopen.pres

/-! ## release -/

theorem release_pres (w : World) (l1 l2 : List SState) (st : SState) (hw : WF w) (hs : w.states = l1 ++ st :: l2) :
    PresS w (release { w with states := l1 ++ l2 } st) := by
  have hsvc := hw.svc
  have href := hw.ref
  have hst := hw.st
  rw [hs] at hsvc href hst
  have hcnt := href.cnt st.node st.key
  rw [stateCountL_middle, if_pos ⟨rfl, rfl⟩] at hcnt
  by_cases hc : refCount { w with states := l1 ++ l2 } st.node st.key ≤ 1
  · have hc' : refCountL w.refs st.node st.key ≤ 1 := hc
    have h0 : stateCountL (l1 ++ l2) st.node st.key = 0 := by omega
    rcases hsvc.find_of_state (mem_middle_iff.2 (Or.inl rfl)) with ⟨svc, hf⟩
    have hf' : findSvc { w with states := l1 ++ l2 } st.key = some svc := hf
    by_cases he : (svc.regs.erase st.node).isEmpty = true
    · rw [release_last _ st hc hf' he]
      exact ⟨⟨hsvc.remove_last h0 hf (List.isEmpty_iff.1 he), href.remove_last rfl rfl hc', hst.remove⟩,
        SvcSub.filter _ _⟩
    · rw [release_dereg _ st hc hf' he]
      exact ⟨⟨hsvc.remove_dereg h0 hf (fun e => he (List.isEmpty_iff.2 e)), href.remove_last rfl rfl hc', hst.remove⟩,
        SvcSub.map_updRegs _ _ _⟩
  · rw [release_dec _ st hc]
    have hc' : ¬refCountL w.refs st.node st.key ≤ 1 := hc
    have h1 : 1 ≤ stateCountL (l1 ++ l2) st.node st.key := by omega
    exact ⟨⟨hsvc.remove_keep h1, href.remove_dec rfl rfl hc', hst.remove⟩, SvcSub.refl _⟩

/-! ## updState -/

theorem updState_pres (w : World) (sel : SState → Bool) (f : SState → SState) (hw : WF w)
    (hf : ∀ st, (f st).node = st.node ∧ (f st).key = st.key ∧ (f st).uid = st.uid ∧ (f st).cfg = st.cfg)
    (huniq : ∀ l1 st l2, w.states = l1 ++ st :: l2 → sel st = true → ∀ x ∈ l2, sel x = false)
    (hrep : ∀ l1 st l2, w.states = l1 ++ st :: l2 → sel st = true →
      ¬((f st).factory.isNone && (f st).ports.isEmpty) = true → StOK (l1 ++ f st :: l2)) :
    PresS w (updState w sel f) := by
  unfold updState
  cases hfind : w.states.find? sel with
  | none => exact PresS.refl hw
  | some st =>
    simp only
    rcases find?_split hfind with ⟨hsel, l1, l2, hs, h1⟩
    have h2 := huniq l1 st l2 hs hsel
    rcases hf st with ⟨e1, e2, e3, e4⟩
    split
    · rename_i hcond
      rw [release_congr _ e1 e2, hs, filter_not_split sel l1 l2 st h1 hsel h2]
      exact release_pres w l1 l2 st hw hs
    · rename_i hcond
      rw [hs, map_sel_split sel l1 l2 st (f st) h1 hsel h2]
      have hsvc := hw.svc
      have href := hw.ref
      rw [hs] at hsvc href
      exact ⟨⟨hsvc.replace (f st) e1 e2 e3 e4, href.replace (f st) e1 e2, hrep l1 st l2 hs hsel hcond⟩, SvcSub.refl _⟩

/-! ## dropAll -/

theorem dropAll_pres : ∀ (fuel : Nat) (w : World), WF w → PresS w (dropAll fuel w)
  | 0, w, hw => PresS.refl hw
  | fuel + 1, w, hw => by
    unfold dropAll
    cases hs : w.states with
    | nil => exact PresS.refl hw
    | cons st rest =>
      simp only
      have h1 : PresS w (release { w with states := rest } st) := release_pres w [] rest st hw hs
      exact h1.trans (dropAll_pres fuel _ h1.1)

end Iox2.ServiceLife
