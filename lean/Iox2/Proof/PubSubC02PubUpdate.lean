/-
C02 — `pubUpdateSlots`, `pubFinish`, `pubForceUpdate`, `pubUpdate` preserve the invariant.
-/
import Iox2.Proof.PubSubC02PubCreate
import Iox2.Proof.PubSubC02PubLife

namespace Iox2.PubSub.C02P
open Iox2.PubSub
open Iox2.C16.SlotMapP (abs WInv)

/-- loop invariant: the publisher exists, with shared state, a fixed snapshot and array length -/
def PLoop (p : Nat) (snap0 : List (Option SubEntry)) (n0 : Nat) (w : World) : Prop :=
  ∃ P, getP w p = some P ∧ P.ex = true ∧ P.snap = snap0 ∧ P.conns.length = n0

/-- the snapshot is fresh: every subscriber in it is alive -/
def PFresh (snap0 : List (Option SubEntry)) (w : World) : Prop :=
  ∀ (j : Nat) (e : SubEntry), snap0[j]? = some (some e) → ∀ S, getS w e.sid = some S → S.alive = true

theorem PFresh.of_side {p : Nat} {snap0 : List (Option SubEntry)} {w w' : World}
    (h : PFresh snap0 w) (hs : PubSide p w w') : PFresh snap0 w' := by
  intro j e hj S hS
  rw [hs.subs] at hS
  exact h j e hj S hS

theorem pubRemoveConn_step {G : GT} {A : GA} {w : World} {p slot s : Nat} {P : Pub}
    {snap0 : List (Option SubEntry)} {n0 : Nat}
    (hi : Inv G A w) (hP : getP w p = some P) (hex : P.ex = true) (hsn : P.snap = snap0)
    (hlen : P.conns.length = n0) (hslot : P.conns[slot]? = some (some s))
    (hdead : ∀ S, getS w s = some S → S.alive = false) :
    Inv G A (pubRemoveConn w p slot) ∧ PubSide p w (pubRemoveConn w p slot) ∧
    ∃ P', getP (pubRemoveConn w p slot) p = some P' ∧ P'.ex = true ∧ P'.snap = snap0 ∧
      P'.conns.length = n0 ∧ P'.conns = P.conns.set slot none := by
  obtain ⟨h1, h2, h3, h4, h5, _, h7, _, P', h9, h10, _, h12, _, h14, _⟩ :=
    pubRemoveConn_inv hi hP hslot hdead
  exact ⟨h1, ⟨h2, h3, h4, h5, h7⟩, P', h9, by rw [h12]; exact hex, by rw [h14]; exact hsn,
    by rw [h10, List.length_set]; exact hlen, h10⟩

theorem pubUpdateSlots_inv {G : GT} {A : GA} {p : Nat} {snap0 : List (Option SubEntry)} {n0 : Nat}
    (hn0 : snap0.length = n0) :
    ∀ (l : List (Option SubEntry)) (i : Nat) (tagged : List Nat) (w : World),
      Inv G A w → PLoop p snap0 n0 w → PFresh snap0 w →
      (∀ (j : Nat) (e : SubEntry), l[j]? = some (some e) → snap0[i + j]? = some (some e)) →
      Inv G A (pubUpdateSlots w p l i tagged).1 ∧ PubSide p w (pubUpdateSlots w p l i tagged).1 ∧
      PLoop p snap0 n0 (pubUpdateSlots w p l i tagged).1 ∧
      (∀ k, k ∈ tagged → k ∈ (pubUpdateSlots w p l i tagged).2) ∧
      (∀ (j : Nat) (e : SubEntry), l[j]? = some (some e) →
        (i + j) ∈ (pubUpdateSlots w p l i tagged).2) := by
  intro l
  induction l with
  | nil =>
    intro i tagged w hi hl _ _
    exact ⟨hi, PubSide.refl p w, hl, fun k hk => hk, fun j e h => by simp at h⟩
  | cons x r ih =>
    intro i tagged w hi hl hf hsn
    have hsn' : ∀ (j : Nat) (e : SubEntry), r[j]? = some (some e) →
        snap0[i + 1 + j]? = some (some e) := by
      intro j e hj
      have := hsn (j + 1) e (by simpa using hj)
      rw [show i + 1 + j = i + (j + 1) by omega]; exact this
    cases x with
    | none =>
      simp only [pubUpdateSlots]
      obtain ⟨h1, h2, h3, h4, h5⟩ := ih (i + 1) tagged w hi hl hf hsn'
      refine ⟨h1, h2, h3, h4, ?_⟩
      intro j e hj
      cases j with
      | zero => simp at hj
      | succ j =>
        have := h5 j e (by simpa using hj)
        rw [show i + (j + 1) = i + 1 + j by omega]; exact this
    | some e =>
      obtain ⟨P, hP, hex, hPs, hPl⟩ := hl
      have hsi : snap0[i]? = some (some e) := by simpa using hsn 0 e (by simp)
      have hilt : i < n0 := by
        rw [← hn0]; exact (List.getElem?_eq_some_iff.mp hsi).1
      have hal : ∀ S, getS w e.sid = some S → S.alive = true := hf i e hsi
      have hPsi : P.snap[i]? = some (some e) := by rw [hPs]; exact hsi
      -- common continuation
      have cont : ∀ w', Inv G A w' → PubSide p w w' → PLoop p snap0 n0 w' →
          Inv G A (pubUpdateSlots w' p r (i + 1) (i :: tagged)).1 ∧
          PubSide p w (pubUpdateSlots w' p r (i + 1) (i :: tagged)).1 ∧
          PLoop p snap0 n0 (pubUpdateSlots w' p r (i + 1) (i :: tagged)).1 ∧
          (∀ k, k ∈ tagged → k ∈ (pubUpdateSlots w' p r (i + 1) (i :: tagged)).2) ∧
          (∀ (j : Nat) (e' : SubEntry), (some e :: r)[j]? = some (some e') →
            (i + j) ∈ (pubUpdateSlots w' p r (i + 1) (i :: tagged)).2) := by
        intro w' hi' hs' hl'
        obtain ⟨h1, h2, h3, h4, h5⟩ := ih (i + 1) (i :: tagged) w' hi' hl' (hf.of_side hs') hsn'
        refine ⟨h1, hs'.trans h2, h3, fun k hk => h4 k (List.mem_cons_of_mem _ hk), ?_⟩
        intro j e' hj
        cases j with
        | zero => exact h4 i (by simp)
        | succ j =>
          have := h5 j e' (by simpa using hj)
          rw [show i + (j + 1) = i + 1 + j by omega]; exact this
      simp only [pubUpdateSlots, hP]
      cases hc : P.conns.getD i none with
      | none =>
        simp only []
        have hslot : P.conns[i]? = some none := by
          rw [List.getD_eq_getElem?_getD] at hc
          have : i < P.conns.length := by rw [hPl]; exact hilt
          rw [List.getElem?_eq_getElem this] at hc ⊢
          simpa using hc
        obtain ⟨g1, g2, P', g3, g4, g5, g6, g7⟩ := pubCreateConn_inv hi hP hex hslot hPsi hal
        exact cont _ g1 g2 ⟨P', g3, by rw [g6]; exact hex, by rw [g7]; exact hPs,
          by rw [g4, List.length_set]; exact hPl⟩
      | some s =>
        simp only []
        have hslot : P.conns[i]? = some (some s) := by
          rw [List.getD_eq_getElem?_getD] at hc
          have : i < P.conns.length := by rw [hPl]; exact hilt
          rw [List.getElem?_eq_getElem this] at hc ⊢
          simpa using hc
        split
        · exact cont w hi (PubSide.refl p w) ⟨P, hP, hex, hPs, hPl⟩
        · rename_i hne
          have hdead : ∀ S, getS w s = some S → S.alive = false := by
            intro S hS
            obtain ⟨S', hS', _, _, _, h4, _⟩ := (hi.top.pubs p P hP).conn i s hslot
            rw [hS] at hS'; cases hS'
            cases ha : S.alive with
            | false => rfl
            | true =>
              obtain ⟨e', he', hes⟩ := h4 ha
              rw [hPsi] at he'; cases he'
              exact absurd hes.symm hne
          obtain ⟨k1, k2, P1, k3, k4, k5, k6, k7⟩ :=
            pubRemoveConn_step hi hP hex hPs hPl hslot hdead
          have hslot1 : P1.conns[i]? = some none := by
            rw [k7, List.getElem?_set]; simp [hPl, hilt]
          have hal1 : ∀ S, getS (pubRemoveConn w p i) e.sid = some S → S.alive = true := by
            intro S hS; rw [k2.subs] at hS; exact hal S hS
          obtain ⟨g1, g2, P', g3, g4, g5, g6, g7⟩ :=
            pubCreateConn_inv k1 k3 k4 hslot1 (by rw [k5]; exact hsi) hal1
          exact cont _ g1 (k2.trans g2) ⟨P', g3, by rw [g6]; exact k4, by rw [g7]; exact k5,
            by rw [g4, List.length_set]; exact k6⟩

theorem pubFinish_inv {G : GT} {A : GA} {p : Nat} {snap0 : List (Option SubEntry)} {n0 : Nat}
    {tagged : List Nat}
    (htag : ∀ (j : Nat) (e : SubEntry), snap0[j]? = some (some e) → j ∈ tagged) :
    ∀ (k : Nat) (w : World), Inv G A w → PLoop p snap0 n0 w →
      Inv G A (pubFinish w p tagged k) ∧ PubSide p w (pubFinish w p tagged k) ∧
      PLoop p snap0 n0 (pubFinish w p tagged k) := by
  intro k
  induction k with
  | zero => intro w hi hl; exact ⟨hi, PubSide.refl p w, hl⟩
  | succ k ih =>
    intro w hi hl
    obtain ⟨h1, h2, h3⟩ := ih w hi hl
    simp only [pubFinish]
    split
    · exact ⟨h1, h2, h3⟩
    · rename_i hnt
      obtain ⟨P, hP, hex, hPs, hPl⟩ := h3
      cases hc : P.conns.getD k none with
      | none =>
        rw [pubRemoveConn_none hP hc]
        exact ⟨h1, h2, ⟨P, hP, hex, hPs, hPl⟩⟩
      | some s =>
        have hslot : P.conns[k]? = some (some s) := by
          rw [List.getD_eq_getElem?_getD] at hc
          cases hq : P.conns[k]? with
          | none => rw [hq] at hc; cases hc
          | some v => rw [hq] at hc; simp at hc; rw [hc]
        have hdead : ∀ S, getS (pubFinish w p tagged k) s = some S → S.alive = false := by
          intro S hS
          obtain ⟨S', hS', _, _, _, h4, _⟩ := (h1.top.pubs p P hP).conn k s hslot
          rw [hS] at hS'; cases hS'
          cases ha : S.alive with
          | false => rfl
          | true =>
            obtain ⟨e', he', _⟩ := h4 ha
            rw [hPs] at he'
            have := htag k e' he'
            exact absurd (by simpa using this) hnt
        obtain ⟨k1, k2, P1, k3, k4, k5, k6, _⟩ := pubRemoveConn_step h1 hP hex hPs hPl hslot hdead
        exact ⟨k1, h2.trans k2, ⟨P1, k3, k4, k5, k6⟩⟩

theorem pubForceUpdate_inv {G : GT} {A : GA} {w : World} {p : Nat} {P : Pub}
    (hi : Inv G A w) (hP : getP w p = some P) (hex : P.ex = true) (hf : PFresh P.snap w) :
    Inv G A (pubForceUpdate w p) ∧ PubSide p w (pubForceUpdate w p) ∧
    ∃ P', getP (pubForceUpdate w p) p = some P' ∧ P'.ex = true := by
  have pt := hi.top.pubs p P hP
  have hn0 : P.snap.length = P.conns.length := by rw [pt.lenSnap, pt.lenC]
  obtain ⟨h1, h2, h3, _, h5⟩ := pubUpdateSlots_inv (G := G) (A := A) (p := p) hn0 P.snap 0 [] w hi
    ⟨P, hP, hex, rfl, rfl⟩ hf (fun j e h => by simpa using h)
  simp only [pubForceUpdate, hP]
  obtain ⟨k1, k2, P', k3, k4, _⟩ := pubFinish_inv (G := G) (A := A) (p := p) (snap0 := P.snap)
    (n0 := P.conns.length) (tagged := (pubUpdateSlots w p P.snap 0 []).2)
    (fun j e h => by simpa using h5 j e h) P.conns.length _ h1 h3
  exact ⟨k1, h2.trans k2, P', k3, k4⟩

theorem pubUpdate_inv {G : GT} {A : GA} {w : World} {p : Nat}
    (hi : Inv G A w) (ha : ∀ P, getP w p = some P → P.alive = true) :
    Inv G A (pubUpdate w p) ∧ w.cfg = (pubUpdate w p).cfg ∧
    (∀ P, getP w p = some P → ∃ P', getP (pubUpdate w p) p = some P') := by
  unfold pubUpdate
  cases hP : getP w p with
  | none => exact ⟨hi, rfl, fun P h => by cases h⟩
  | some P =>
    simp only []
    split
    · exact ⟨hi, rfl, fun _ _ => ⟨P, hP⟩⟩
    · have hex := (hi.top.pubs p P hP).aliveEx (ha P hP)
      have hi0 := pubRefresh_inv hi hP
      have hP0 : getP (setP w p { P with snapCtr := w.subReg.counter, snap := w.subReg.slots }) p =
          some { P with snapCtr := w.subReg.counter, snap := w.subReg.slots } := by simp [hP]
      have hf : PFresh w.subReg.slots
          (setP w p { P with snapCtr := w.subReg.counter, snap := w.subReg.slots }) := by
        intro j e hj S hS
        obtain ⟨S', hS', h1, _⟩ := hi.top.reg.r2 j e hj
        rw [getS_setP] at hS
        rw [hS] at hS'; cases hS'; exact h1
      obtain ⟨h1, h2, P', h3, _⟩ := pubForceUpdate_inv hi0 hP0 hex hf
      exact ⟨h1, h2.cfg.symm, fun _ _ => ⟨P', h3⟩⟩

end Iox2.PubSub.C02P
