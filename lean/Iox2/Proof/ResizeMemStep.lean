/-
The invariant of the whole model state (`Inv`: owner side `MInv` + every view `ViewOK`) is kept
by every operation of a history (`step_inv`), provided the operation respects the usage contract
`OpOk`: alignments are powers of two (what `Layout` guarantees) and `grow` is applied to a chunk of
the current segment (for a chunk of an older segment `DynamicMemory::grow` misbehaves, see
`Iox2/Props/C15Resize.lean`).
-/
import Iox2.Proof.ResizeMemInv
import Iox2.Proof.ResizeMemView

namespace Iox2.ResizeMem
open Iox2.Alloc

/-! ### commutation of updates of different segments -/
theorem setSeg_cons (x : Seg) (xs : List Seg) (g : Seg) :
    setSeg (x :: xs) g = (if x.id = g.id then g else x) :: setSeg xs g := by
  simp [setSeg]

theorem dropSeg_cons (x : Seg) (xs : List Seg) (d : Nat) :
    dropSeg (x :: xs) d = if x.id = d then dropSeg xs d else x :: dropSeg xs d := by
  by_cases h : x.id = d <;> simp [dropSeg, h]

theorem dropSeg_setSeg (segs : List Seg) (g2 : Seg) (d : Nat) (_h : g2.id ≠ d) :
    dropSeg (setSeg segs g2) d = setSeg (dropSeg segs d) g2 := by
  unfold dropSeg setSeg
  rw [List.filter_map]
  congr 1
  apply List.filter_congr
  intro x _
  by_cases h1 : x.id = g2.id <;> simp [h1]

theorem setSeg_comm (segs : List Seg) (g2 g3 : Seg) (h : g2.id ≠ g3.id) :
    setSeg (setSeg segs g2) g3 = setSeg (setSeg segs g3) g2 := by
  induction segs with
  | nil => rfl
  | cons x xs ih =>
    rw [setSeg_cons, setSeg_cons, setSeg_cons, setSeg_cons, ih]
    by_cases h1 : x.id = g2.id
    · have h2 : x.id ≠ g3.id := by rw [h1]; exact h
      simp [h1, h2, h]
    · by_cases h2 : x.id = g3.id
      · have : g3.id ≠ g2.id := fun e => h e.symm
        simp [h1, h2, this]
      · simp [h1, h2]

theorem deallocSegs_setSeg (segs : List Seg) (g2 : Seg) (cur seg off : Nat) (h : g2.id ≠ seg) :
    deallocSegs (setSeg segs g2) cur seg off = setSeg (deallocSegs segs cur seg off) g2 := by
  unfold deallocSegs
  have hget : getSeg (setSeg segs g2) seg = getSeg segs seg := by
    rw [getSeg_setSeg, if_neg (fun e : seg = g2.id => h e.symm)]
  rw [hget]
  cases hg : getSeg segs seg with
  | none => rfl
  | some g =>
    simp only
    split
    · exact dropSeg_setSeg _ _ _ h
    · apply setSeg_comm
      have := (getSeg_some hg).2
      show g2.id ≠ g.id
      rw [this]; exact h

theorem getSeg_deallocSegs_other (segs : List Seg) (cur seg off id : Nat) (h : id ≠ seg) :
    getSeg (deallocSegs segs cur seg off) id = getSeg segs id := by
  unfold deallocSegs
  cases hg : getSeg segs seg with
  | none => rfl
  | some g =>
    simp only
    have hgid := (getSeg_some hg).2
    split
    · rw [getSeg_dropSeg, if_neg h]
    · rw [getSeg_setSeg]
      have : id ≠ g.id := by rw [hgid]; exact h
      simp [Seg.deallocate, this]

theorem putChunk_putChunk (cs : List Chunk) (a b : Chunk) (h : b.label = a.label) :
    putChunk (putChunk cs a) b = putChunk cs b := by
  unfold putChunk
  rw [List.filter_cons]
  simp only [h, ne_eq, not_true_eq_false, decide_false, Bool.false_eq_true, if_false, List.filter_filter,
    Bool.and_self]

/-! ### the usage contract and the global invariant -/
/-- what a caller must respect: alignments are powers of two (`Layout`); `grow` only for a chunk of
the current segment -/
def OpOk (s : St) : Op → Prop
  | .alloc _ _ align => Pow2 align
  | .grow l _ align _ => Pow2 align ∧ ∀ c, liveChunk s l = some c → c.seg = s.cur
  | _ => True

structure Inv (s : St) : Prop where
  mem   : MInv s.segs s.cur s.chunks
  views : ∀ vw ∈ s.views, ViewOK vw

/-! ### `allocate` -/
/-- what the `loop` of `DynamicMemory::allocate` does: a (possibly empty) series of new segments
that leaves the chunks alone, then either the error `oom` or an allocation in the then current segment -/
theorem allocLoop_spec (fuel : Nat) (s : St) (size align : Nat) (hinv : MInv s.segs s.cur s.chunks)
    (hp : Pow2 align) (hfuel : 0 < fuel ∧ s.cfg.maxSegs < fuel + s.cur) :
    ∃ s1 : St, MInv s1.segs s1.cur s1.chunks ∧ s1.chunks = s.chunks ∧ s1.mem = s.mem ∧ s1.views = s.views ∧
      s1.cfg = s.cfg ∧ s.cur ≤ s1.cur ∧
      (∀ id g0, getSeg s1.segs id = some g0 → id ≤ s.cur → getSeg s.segs id = some g0) ∧
      ((allocLoop fuel s size align = (s1, .error .oom)) ∨
       ∃ g g' off, getSeg s1.segs s1.cur = some g ∧ g.allocate size align = (g', .ok off) ∧
         allocLoop fuel s size align =
           ({ s1 with segs := setSeg s1.segs { g' with count := g'.count + 1 } }, .ok (s1.cur, off))) := by
  induction fuel generalizing s with
  | zero => omega
  | succ fuel ih =>
    obtain ⟨g, hg⟩ := hinv.cur_in
    unfold allocLoop
    rw [hg]
    simp only
    cases ha : g.allocate size align with
    | mk g' r =>
      cases r with
      | ok off =>
        exact ⟨s, hinv, rfl, rfl, rfl, rfl, Nat.le_refl _, fun _ _ h _ => h, Or.inr ⟨g, g', off, hg, ha, rfl⟩⟩
      | error e =>
        simp only
        by_cases hst : s.cfg.strategy = .static
        · simp only [hst, if_true]
          exact ⟨s, hinv, rfl, rfl, rfl, rfl, Nat.le_refl _, fun _ _ h _ => h, Or.inl rfl⟩
        · simp only [hst, if_false]
          cases hc : createResized s g size align with
          | none =>
            exact ⟨s, hinv, rfl, rfl, rfl, rfl, Nat.le_refl _, fun _ _ h _ => h, Or.inl rfl⟩
          | some s2 =>
            simp only
            obtain ⟨hinv2, hch, hmem, hviews, hcfg, hcur, _, hback⟩ := minv_createResized hinv hg hp hc
            obtain ⟨_, _, hlt, _⟩ := createResized_spec hc
            have hf2 : 0 < fuel ∧ s2.cfg.maxSegs < fuel + s2.cur := by rw [hcfg, hcur]; omega
            obtain ⟨s1, h1, h2, h3, h4, h5, h6, h7, h8⟩ := ih s2 hinv2 hf2
            refine ⟨s1, h1, h2.trans hch, h3.trans hmem, h4.trans hviews, h5.trans hcfg, by omega, ?_, h8⟩
            intro id g0 hget hle
            exact hback id g0 (h7 id g0 hget (by omega)) hle

/-! ### every operation keeps the invariant -/
theorem inv_of_minv {s s' : St} (hinv : Inv s) (h1 : MInv s'.segs s'.cur s'.chunks) (h2 : s'.views = s.views) :
    Inv s' := ⟨h1, by rw [h2]; exact hinv.views⟩

theorem allocate_spec (s : St) (size align : Nat) (hinv : MInv s.segs s.cur s.chunks) (hp : Pow2 align) :
    ∃ s1 : St, MInv s1.segs s1.cur s1.chunks ∧ s1.chunks = s.chunks ∧ s1.mem = s.mem ∧ s1.views = s.views ∧
      s1.cfg = s.cfg ∧ s.cur ≤ s1.cur ∧
      (∀ id g0, getSeg s1.segs id = some g0 → id ≤ s.cur → getSeg s.segs id = some g0) ∧
      ((allocate s size align = (s1, .error .oom)) ∨
       ∃ g g' off, getSeg s1.segs s1.cur = some g ∧ g.allocate size align = (g', .ok off) ∧
         allocate s size align =
           ({ s1 with segs := setSeg s1.segs { g' with count := g'.count + 1 } }, .ok (s1.cur, off))) := by
  unfold allocate
  exact allocLoop_spec _ s size align hinv hp ⟨by omega, by omega⟩

theorem step_alloc_inv {s : St} (hinv : Inv s) {l size align : Nat} (hp : Pow2 align) :
    Inv (step s (.alloc l size align)).1 := by
  simp only [step]
  cases hl : liveChunk s l with
  | some c => exact hinv
  | none =>
    simp only
    obtain ⟨s1, h1, h2, _, h4, _, _, _, h8⟩ := allocate_spec s size align hinv.mem hp
    rcases h8 with h8 | ⟨g, g', off, hg, ha, h8⟩
    · rw [h8]
      exact inv_of_minv hinv h1 h4
    · rw [h8]
      simp only
      refine inv_of_minv hinv ?_ h4
      have hdead : ∀ c ∈ s1.chunks, c.label = l → c.live = false := by
        rw [h2]; exact liveChunk_none hinv.mem.labels hl
      exact minv_alloc h1 hg ha hp hdead false

theorem step_dealloc_inv {s : St} (hinv : Inv s) {l : Nat} : Inv (step s (.dealloc l)).1 := by
  simp only [step]
  cases hl : liveChunk s l with
  | none => exact hinv
  | some c =>
    simp only
    split
    · exact hinv
    · obtain ⟨hcm, _, hlive⟩ := liveChunk_some hl
      obtain ⟨f1, f2, _, f4, _⟩ := deallocate_frame s c.seg c.off
      refine inv_of_minv hinv ?_ f4
      simp only [f1, f2, deallocate_segs]
      exact minv_dealloc hinv.mem hcm hlive

theorem growChunk_inv {s : St} (hinv : Inv s) {c : Chunk} (hcm : c ∈ s.chunks) (hlive : c.live = true)
    {size align : Nat} (hp : Pow2 align) (hcur : c.seg = s.cur) (pl : Placement) :
    Inv (growChunk s c size align pl).1 := by
  unfold growChunk
  obtain ⟨g, hg⟩ := hinv.mem.cur_in
  rw [hg]
  simp only
  split
  · exact hinv
  · rename_i hal
    split
    · exact hinv
    · split
      · -- a new segment is needed
        split
        · exact hinv
        · cases hc : createResized s g size align with
          | none => exact hinv
          | some s1 =>
            simp only
            obtain ⟨hinv1, hch, _, hviews, _, hcur1, _, _⟩ := minv_createResized hinv.mem hg hp hc
            obtain ⟨g1, hg1⟩ := hinv1.cur_in
            rw [hg1]
            simp only
            cases ha : g1.allocate size align with
            | mk g1' r =>
              cases r with
              | error e => exact inv_of_minv hinv hinv1 hviews
              | ok off =>
                simp only
                have hcm1 : c ∈ s1.chunks := by rw [hch]; exact hcm
                have hne : s1.cur ≠ c.seg := by rw [hcur1, hcur]; omega
                have hA := minv_dealloc hinv1 hcm1 hlive
                have hgA : getSeg (deallocSegs s1.segs s1.cur c.seg c.off) s1.cur = some g1 := by
                  rw [getSeg_deallocSegs_other _ _ _ _ _ hne]; exact hg1
                have hdead : ∀ x ∈ putChunk s1.chunks { c with live := false }, x.label = c.label → x.live = false := by
                  intro x hx hxl
                  rcases mem_putChunk.mp hx with rfl | ⟨_, hxne⟩
                  · rfl
                  · exact (hxne hxl).elim
                have hB := minv_alloc hA hgA ha hp hdead (decide (off = c.off))
                have hpp := putChunk_putChunk s1.chunks { c with live := false } { label := c.label, seg := s1.cur, off := off, size := size, align := align, live := true, tainted := decide (off = c.off) } rfl
                rw [hpp] at hB
                have hg1id : g1'.id = s1.cur := by
                  obtain ⟨_, _, _, _, _, _, hg1'⟩ := Seg.allocate_ok ha
                  rw [hg1']; exact (getSeg_some hg1).2
                rw [← deallocSegs_setSeg _ _ _ _ _ (by show g1'.id ≠ c.seg; rw [hg1id]; exact hne)] at hB
                refine inv_of_minv hinv ?_ ?_
                · simp only [deallocate_frame, deallocate_segs]
                  exact hB
                · simp only [deallocate_frame]
                  exact hviews
      · -- in place
        rename_i hsz
        refine inv_of_minv hinv ?_ rfl
        simp only
        refine minv_replace hinv.mem hcm hlive hlive rfl hcur.symm rfl ?_ hp
        intro g0 hg0
        rw [hcur, hg] at hg0
        have := (Option.some.inj hg0).symm
        subst this
        exact ⟨by show size ≤ g0.stride; omega, by show align ≤ g0.balign; omega⟩

theorem step_grow_inv {s : St} (hinv : Inv s) {l size align : Nat} {pl : Placement}
    (hok : OpOk s (.grow l size align pl)) : Inv (step s (.grow l size align pl)).1 := by
  simp only [step]
  cases hl : liveChunk s l with
  | none => exact hinv
  | some c =>
    simp only
    split
    · exact hinv
    · obtain ⟨hcm, _, hlive⟩ := liveChunk_some hl
      exact growChunk_inv hinv hcm hlive hok.1 (hok.2 c hl) pl

theorem views_set_ok {views : List View} (h : ∀ vw ∈ views, ViewOK vw) {x : View} (hx : ViewOK x) (v : Nat) :
    ∀ vw ∈ views.set v x, ViewOK vw := by
  intro vw hvw
  rcases List.mem_or_eq_of_mem_set hvw with h1 | rfl
  · exact h vw h1
  · exact hx

theorem step_vreg_inv {s : St} (hinv : Inv s) {v l : Nat} : Inv (step s (.vreg v l)).1 := by
  simp only [step]
  cases hv : s.views[v]? with
  | none => exact hinv
  | some vw =>
    simp only
    have hvw : ViewOK vw := hinv.views vw (List.mem_of_getElem? hv)
    split
    · exact hinv
    · rename_i hany
      cases hc : getChunk s.chunks l with
      | none => exact hinv
      | some c =>
        simp only
        cases hr : vw.register (getSeg s.segs c.seg).isSome c.seg with
        | none => exact hinv
        | some vw' =>
          simp only
          refine ⟨hinv.mem, views_set_ok hinv.views ?_ v⟩
          apply View.register_ok l c.off hvw ?_ hr
          intro r hr' hrl
          apply hany
          simp only [List.any_eq_true, decide_eq_true_eq]
          exact ⟨r, hr', hrl⟩

theorem step_vunreg_inv {s : St} (hinv : Inv s) {v l : Nat} : Inv (step s (.vunreg v l)).1 := by
  simp only [step]
  cases hv : s.views[v]? with
  | none => exact hinv
  | some vw =>
    simp only
    have hvw : ViewOK vw := hinv.views vw (List.mem_of_getElem? hv)
    cases hf : vw.regs.find? (fun r => decide (r.label = l)) with
    | none => exact hinv
    | some r =>
      simp only
      have hrm : r ∈ vw.regs := List.mem_of_find?_eq_some hf
      have hrl : r.label = l := by simpa using List.find?_some hf
      refine ⟨hinv.mem, views_set_ok hinv.views ?_ v⟩
      rw [← hrl]
      exact View.unregister_ok hvw hrm

/-- **the invariant is kept by every operation that respects the usage contract** -/
theorem step_inv {s : St} (hinv : Inv s) (op : Op) (hok : OpOk s op) : Inv (step s op).1 := by
  cases op with
  | alloc l size align => exact step_alloc_inv hinv hok
  | write l b =>
    simp only [step]
    cases hl : liveChunk s l with
    | none => exact hinv
    | some c =>
      simp only
      split
      · exact hinv
      · exact ⟨hinv.mem, hinv.views⟩
  | dealloc l => exact step_dealloc_inv hinv
  | grow l size align pl => exact step_grow_inv hinv hok
  | vreg v l => exact step_vreg_inv hinv
  | vread v l =>
    simp only [step]
    cases hv : s.views[v]? with
    | none => exact hinv
    | some vw =>
      simp only
      cases hf : vw.regs.find? (fun r => decide (r.label = l)) <;> exact hinv
  | vunreg v l => exact step_vunreg_inv hinv
  | segments => exact hinv
  | vsegments v =>
    simp only [step]
    cases hv : s.views[v]? <;> exact hinv

/-- the initial state satisfies the invariant -/
theorem create_inv {cfg : Cfg} {size align chunks nviews : Nat} {s : St} (hp : Pow2 align)
    (h : create cfg size align chunks nviews = .ok s) : Inv s := by
  unfold create at h
  cases hm : mkSeg cfg 0 { bucketSize := size, bucketAlign := align, nBuckets := chunks } with
  | error e => simp [hm] at h
  | ok g =>
    simp only [hm] at h
    have hs := (Except.ok.inj h).symm
    subst hs
    obtain ⟨hid, hcnt, hused, hsz, hal, _, _, _, hfree, _⟩ := mkSeg_ok hm
    have hget : getSeg [g] 0 = some g := by rw [getSeg_cons]; simp [hid]
    refine ⟨⟨by simp, ⟨g, hget⟩, ?_, by simp, by simp, by simp⟩, ?_⟩
    · intro x hx
      simp only [List.mem_singleton] at hx
      subst hx
      refine ⟨hsz, by rw [hal]; exact hp, by rw [hfree]; exact List.nodup_range, ?_, ?_, by omega,
        by rw [hused, hcnt], by rw [hused, hfree]; simp⟩
      · intro i hi; rw [hfree] at hi; exact List.mem_range.mp hi
      · rw [hcnt]; rfl
    · intro vw hvw
      have := List.eq_of_mem_replicate hvw
      subst this
      exact emptyView_ok

end Iox2.ResizeMem
