/-
Composition model of `PublisherSharedState::send_sample` (refresh the connections — a newly seen
subscriber gets the history —, add the sample to the history, deliver) interleaved with a subscriber
that registers at any moment.  Property: the subscriber receives every sample at most once, in order.
-/
import Iox2.Model.Compose
namespace Iox2.Compose.PS

inductive POp where
  | refresh | addHistory | deliver
deriving DecidableEq, Repr

def nominal : List POp := [.refresh, .addHistory, .deliver]

def expand : List Src → List POp
  | [] => []
  | .refresh :: r => .refresh :: expand r
  | .addHistory :: r => .addHistory :: expand r
  | .deliver :: r => .deliver :: expand r
  | _ :: r => expand r

structure St where
  registered : Bool := false
  connected : Bool := false
  hist : List Nat := []
  queue : List Nat := []       -- everything delivered to the subscriber, in order
  next : Nat := 0
  cur : Option (Nat × List POp) := none

def pbegin (prog : List POp) (s : St) : St :=
  if s.cur.isNone then { s with cur := some (s.next, prog), next := s.next + 1 } else s

def pexec (s : St) (n : Nat) : POp → St
  | .refresh => if s.registered && !s.connected then { s with connected := true, queue := s.queue ++ s.hist } else s
  | .addHistory => { s with hist := s.hist ++ [n] }
  | .deliver => if s.connected then { s with queue := s.queue ++ [n] } else s

def pstep (s : St) : St :=
  match s.cur with
  | none => s
  | some (_, []) => { s with cur := none }
  | some (n, op :: rest) => { pexec s n op with cur := some (n, rest) }

def sregister (s : St) : St := { s with registered := true }

inductive Reach (prog : List POp) : St → Prop where
  | init : Reach prog {}
  | pbegin {s} : Reach prog s → Reach prog (pbegin prog s)
  | pstep {s} : Reach prog s → Reach prog (pstep s)
  | sregister {s} : Reach prog s → Reach prog (sregister s)

/-- bound below which the entries of history / queue lie -/
def hBound (s : St) : Nat := match s.cur with | some (n, rem) => if POp.addHistory ∈ rem then n else s.next | none => s.next
def qBound (s : St) : Nat := match s.cur with | some (n, rem) => if POp.deliver ∈ rem then n else s.next | none => s.next

structure Inv (s : St) : Prop where
  qEmpty : s.connected = false → s.queue = []
  hSorted : s.hist.Pairwise (· < ·)
  qSorted : s.queue.Pairwise (· < ·)
  hLt : ∀ x ∈ s.hist, x < hBound s
  qLt : ∀ x ∈ s.queue, x < qBound s
  curOk : ∀ n rem, s.cur = some (n, rem) → n + 1 = s.next ∧ (rem = nominal ∨ rem = [.addHistory, .deliver] ∨ rem = [.deliver] ∨ rem = [])

theorem inv_init : Inv {} := by
  constructor <;> simp

theorem pbegin_inv (s : St) (h : Inv s) : Inv (pbegin nominal s) := by
  unfold pbegin
  split
  next hc =>
    have hn : s.cur = none := by simpa using hc
    refine ⟨h.qEmpty, h.hSorted, h.qSorted, ?_, ?_, ?_⟩
    · intro x hx; have := h.hLt x hx; simp [hBound, hn, nominal] at *; exact this
    · intro x hx; have := h.qLt x hx; simp [qBound, hn, nominal] at *; exact this
    · intro n rem e; simp at e; obtain ⟨rfl, rfl⟩ := e; exact ⟨rfl, Or.inl rfl⟩
  next => exact h

theorem sregister_inv (s : St) (h : Inv s) : Inv (sregister s) :=
  ⟨h.qEmpty, h.hSorted, h.qSorted, h.hLt, h.qLt, h.curOk⟩

theorem pstep_inv (s : St) (h : Inv s) : Inv (pstep s) := by
  unfold pstep
  split
  next => exact h
  next n hc =>
    obtain ⟨hn, _⟩ := h.curOk n [] hc
    refine ⟨h.qEmpty, h.hSorted, h.qSorted, ?_, ?_, by simp⟩
    · intro x hx; have := h.hLt x hx; simp [hBound, hc] at *; exact this
    · intro x hx; have := h.qLt x hx; simp [qBound, hc] at *; exact this
  next n op rest hc =>
    obtain ⟨hn, hrem⟩ := h.curOk n (op :: rest) hc
    have hh := h.hLt; have hq := h.qLt
    simp only [hBound, qBound, hc] at hh hq
    rcases hrem with e | e | e | e
    · -- refresh
      simp [nominal] at e; obtain ⟨rfl, rfl⟩ := e
      simp at hh hq
      by_cases hr : (s.registered && !s.connected) = true
      · simp only [pexec, hr, if_true]
        simp at hr
        have qe := h.qEmpty hr.2
        refine ⟨by simp, h.hSorted, by simpa [qe] using h.hSorted, ?_, ?_, ?_⟩
        · intro x hx; simpa [hBound] using hh x hx
        · intro x hx; simp [qe] at hx; simpa [qBound] using hh x hx
        · intro n' rem' e'; simp at e'; obtain ⟨rfl, rfl⟩ := e'; exact ⟨hn, Or.inr (Or.inl rfl)⟩
      · simp only [pexec, hr]
        refine ⟨h.qEmpty, h.hSorted, h.qSorted, ?_, ?_, ?_⟩
        · intro x hx; simpa [hBound] using hh x hx
        · intro x hx; simpa [qBound] using hq x hx
        · intro n' rem' e'; simp at e'; obtain ⟨rfl, rfl⟩ := e'; exact ⟨hn, Or.inr (Or.inl rfl)⟩
    · -- addHistory
      simp at e; obtain ⟨rfl, rfl⟩ := e
      simp at hh hq
      refine ⟨h.qEmpty, ?_, h.qSorted, ?_, ?_, ?_⟩
      · simp only [pexec]; rw [List.pairwise_append]
        exact ⟨h.hSorted, by simp, by intro a ha b hb; simp at hb; subst hb; exact hh a ha⟩
      · intro x hx; simp [pexec] at hx; simp [hBound, pexec]
        rcases hx with hx | rfl
        · have := hh x hx; omega
        · omega
      · intro x hx; simpa [qBound, pexec] using hq x hx
      · intro n' rem' e'; simp at e'; obtain ⟨rfl, rfl⟩ := e'; exact ⟨hn, Or.inr (Or.inr (Or.inl rfl))⟩
    · -- deliver
      simp at e; obtain ⟨rfl, rfl⟩ := e
      simp at hh hq
      by_cases hcn : s.connected = true
      · simp only [pexec, hcn, if_true]
        refine ⟨by simp, h.hSorted, ?_, ?_, ?_, ?_⟩
        · simp only; rw [List.pairwise_append]
          exact ⟨h.qSorted, by simp, by intro a ha b hb; simp at hb; subst hb; exact hq a ha⟩
        · intro x hx; simpa [hBound] using hh x hx
        · intro x hx; simp at hx; simp [qBound]
          rcases hx with hx | rfl
          · have := hq x hx; omega
          · omega
        · intro n' rem' e'; simp at e'; obtain ⟨rfl, rfl⟩ := e'; exact ⟨hn, Or.inr (Or.inr (Or.inr rfl))⟩
      · simp only [pexec, hcn]
        refine ⟨h.qEmpty, h.hSorted, h.qSorted, ?_, ?_, ?_⟩
        · intro x hx; simpa [hBound] using hh x hx
        · intro x hx; have := hq x hx; simp [qBound]; omega
        · intro n' rem' e'; simp at e'; obtain ⟨rfl, rfl⟩ := e'; exact ⟨hn, Or.inr (Or.inr (Or.inr rfl))⟩
    · cases e

theorem reach_inv (s : St) (h : Reach nominal s) : Inv s := by
  induction h with
  | init => exact inv_init
  | pbegin _ ih => exact pbegin_inv _ ih
  | pstep _ ih => exact pstep_inv _ ih
  | sregister _ ih => exact sregister_inv _ ih

end Iox2.Compose.PS
