/-
The two `state()` queries of a cleaner (for `Node::list`, pc 2..10, and inside `ProcessCleaner::new`, pc 11..19).
-/
import Iox2.Proof.LifecycleCleaner
namespace Iox2.Lifecycle

theorem cleanerStep_query {fs : FS} {t : Th} (h1 : 2 ≤ t.pc) (h2 : t.pc ≤ 19) :
    cleanerStep fs t =
      if 2 ≤ t.pc ∧ t.pc ≤ 10 then
        match qstep fs t.pid (t.pc - 2) with
        | .next q => some (fs, { t with pc := q + 2 }, qName (t.pc - 2))
        | .done v =>
          if calOf v = .dead then some (fs, { t with pc := 11, raw := some v, listed := some .dead }, qName (t.pc - 2))
          else some (fs, { t with pc := pcDone, raw := some v, listed := some (listOf (calOf v)), res := some .notDead }, qName (t.pc - 2))
      else
        match qstep fs t.pid (t.pc - 11) with
        | .next q => some (fs, { t with pc := q + 11 }, qName (t.pc - 11))
        | .done v =>
          match cleanerRefusal v with
          | none => some (fs, { t with pc := 20, raw := some v }, qName (t.pc - 11))
          | some r => some (fs, { t with pc := pcDone, raw := some v, res := some r }, qName (t.pc - 11)) := by
  have hB : ¬ (2 ≤ t.pc ∧ t.pc ≤ 10) → (11 ≤ t.pc ∧ t.pc ≤ 19) := by omega
  unfold cleanerStep
  simp only []
  split
  case h_28 =>
    by_cases hA : 2 ≤ t.pc ∧ t.pc ≤ 10
    · rw [if_pos hA, if_pos hA]; rfl
    · rw [if_neg hA, if_neg hA, if_pos (hB hA)]; rfl
  all_goals omega

theorem cleaner_step_query {fs fs' : FS} {t t' : Th} {s : String} (hG : G fs) (hL : L fs t) (hr : t.role = .cleaner)
    (h1 : 2 ≤ t.pc) (h2 : t.pc ≤ 19)
    (h : cleanerStep fs t = some (fs', t', s)) :
    fs' = fs ∧ L fs t' ∧ t'.pid = t.pid ∧ t'.role = t.role := by
  have hno : t.role ≠ .owner := by rw [hr]; decide
  have hp := hL.pid_ne_zero hno
  rw [cleanerStep_query h1 h2] at h
  split at h
  · -- the query of Node::list
    rename_i hpc
    have hs := qstep_sound hG (pid := t.pid) (q := t.pc - 2) hp (by omega)
      (fun h2 => hL.qFinal hno (Or.inl (by omega))) (fun h7 => hL.qOl hno (Or.inl (by omega)))
    cases hq : qstep fs t.pid (t.pc - 2) with
    | next q' =>
      rw [hq] at h hs
      simp only [Option.some.injEq, Prod.mk.injEq] at h
      obtain ⟨rfl, rfl, _⟩ := h
      obtain ⟨h8, hf, h7, _⟩ := hs
      refine ⟨rfl, ?_, rfl, rfl⟩
      exact L.ofCleaner hr hp (by intro h; simp at h; exact hf (by omega)) (by intro h; simp at h; exact h7 (by omega))
        hL.rawErr (by intro h; simp at h; omega) (by intro h; simp at h; omega) (by intro h; simp at h; omega)
        (by intro h; simp at h; omega) hL.cNoPanic hL.cOk
    | done v =>
      rw [hq] at h hs
      obtain ⟨hc, hu, hd, hcl, _⟩ := hs
      have hre : (some v : Option PState) ≠ some .corrupted ∧ (some v : Option PState) ≠ some .ctxUnreadable :=
        ⟨by intro h; simp at h; exact hc h, by intro h; simp at h; exact hu h⟩
      simp only [] at h
      split at h
      · rename_i hcal
        simp only [Option.some.injEq, Prod.mk.injEq] at h
        obtain ⟨rfl, rfl, _⟩ := h
        refine ⟨rfl, ?_, rfl, rfl⟩
        refine L.ofCleaner hr hp (by intro h; simp at h) (by intro h; simp at h) hre ?_ (by intro h; simp at h)
          (by intro h; simp at h) (by intro h; simp at h) hL.cNoPanic hL.cOk
        intro _ _
        rcases calOf_dead hcal with rfl | rfl
        · obtain ⟨hq8, hp26⟩ := hd rfl
          exact ⟨hL.qFinal hno (Or.inl (by omega)), fun h => by have := hp26 h; omega⟩
        · exact hcl rfl
      · simp only [Option.some.injEq, Prod.mk.injEq] at h
        obtain ⟨rfl, rfl, _⟩ := h
        refine ⟨rfl, ?_, rfl, rfl⟩
        exact L.ofCleaner hr hp (by intro h; simp [pcDone] at h) (by intro h; simp [pcDone] at h) hre
          (by intro _ h; simp [pcDone] at h) (by intro h; simp [pcDone] at h) (by intro h; simp [pcDone] at h)
          (by intro _ h; simp [pcDone] at h) (by intro h; simp at h) (by intro h; simp at h)
  · -- the query of ProcessCleaner::new
    rename_i hpc
    have hpc' : 11 ≤ t.pc := by omega
    have hcd := hL.cDead hr hpc' (by omega)
    have hs := qstep_sound hG (pid := t.pid) (q := t.pc - 11) hp (by omega)
      (fun h2 => hL.qFinal hno (Or.inr (by omega))) (fun h7 => hL.qOl hno (Or.inr (by omega)))
    cases hq : qstep fs t.pid (t.pc - 11) with
    | next q' =>
      rw [hq] at h hs
      simp only [Option.some.injEq, Prod.mk.injEq] at h
      obtain ⟨rfl, rfl, _⟩ := h
      obtain ⟨h8, hf, h7, hst⟩ := hs
      refine ⟨rfl, ?_, rfl, rfl⟩
      refine L.ofCleaner hr hp (by intro h; simp at h; exact hf (by omega)) (by intro h; simp at h; exact h7 (by omega))
        hL.rawErr (fun _ _ => hcd) ?_ (by intro h; simp at h; omega) (by intro h; simp at h; omega) hL.cNoPanic hL.cOk
      intro h
      simp at h
      have hq8 : q' = 8 := by omega
      have hl := hG.stLinked (hst hq8)
      cases hod : fs.odead with
      | true => rfl
      | false => have := hcd.2 hod; omega
    | done v =>
      rw [hq] at h hs
      obtain ⟨hc, hu, hd, hcl, hal⟩ := hs
      have hre : (some v : Option PState) ≠ some .corrupted ∧ (some v : Option PState) ≠ some .ctxUnreadable :=
        ⟨by intro h; simp at h; exact hc h, by intro h; simp at h; exact hu h⟩
      simp only [] at h
      split at h
      · rename_i href
        have hv := cleanerRefusal_none href
        simp only [Option.some.injEq, Prod.mk.injEq] at h
        obtain ⟨rfl, rfl, _⟩ := h
        refine ⟨rfl, ?_, rfl, rfl⟩
        have hq8 := (hd hv).1
        have hod := hL.cOwnerDead hr (Or.inl (by omega))
        exact L.ofCleaner hr hp (by intro h; simp at h) (by intro h; simp at h) hre (fun _ _ => hcd) (fun _ => hod)
          (by intro h; simp at h) (by intro h; simp at h) hL.cNoPanic hL.cOk
      · rename_i r href
        simp only [Option.some.injEq, Prod.mk.injEq] at h
        obtain ⟨rfl, rfl, _⟩ := h
        refine ⟨rfl, ?_, rfl, rfl⟩
        refine L.ofCleaner hr hp (by intro h; simp [pcDone] at h) (by intro h; simp [pcDone] at h) hre
          (by intro _ h; simp [pcDone] at h) (by intro h; simp [pcDone] at h) (by intro h; simp [pcDone] at h)
          (by intro _ h; simp [pcDone] at h) ?_ ?_
        · intro h
          simp at h
          subst h
          have hv := cleanerRefusal_panic href
          obtain ⟨hq8, hlk⟩ := hal hv
          have h1 := (hG.stLockOwner hlk).1
          have h2 := hL.cOwnerDead hr (Or.inl (by omega))
          rw [h1] at h2; cases h2
        · intro h
          simp at h
          subst h
          exact absurd href (cleanerRefusal_ne_ok v)

end Iox2.Lifecycle
