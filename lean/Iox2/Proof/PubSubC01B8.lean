/-
Layer B: how the used bits of connections evolve under the publisher-side helpers (frame facts),
delivery of the history, attaching the sender side.
-/
import Iox2.Proof.PubSubC01B7
namespace Iox2.PubSub.C01P
open Iox2.PubSub

variable {cfg : Cfg} {np ns : Option Nat} {fl : Option (Nat × Nat × Bool)} {w : World}

theorem drainComp_bits (P : Pub) (used : List Bool) (comp : List Nat) (y : Nat)
    (h : (drainComp P used comp).2.getD y false = true) : used.getD y false = true := by
  induction comp generalizing P used with
  | nil => exact h
  | cons c r ih =>
    unfold drainComp at h
    split at h
    · have := ih _ _ h
      rw [getD_set_bool] at this
      split at this
      · cases this
      · exact this
    · exact ih _ _ h

theorem trySend_bits (c : Conn) (ov : Bool) (ch q y : Nat)
    (h : (c.trySend ov ch q).1.used.getD y false = true) : y = ch ∨ c.used.getD y false = true := by
  have hset : ∀ l : List Bool, (l.set ch true).getD y false = true → y = ch ∨ l.getD y false = true := by
    intro l hl
    rw [getD_set_bool] at hl
    split at hl
    · rename_i hh; exact Or.inl hh.1.symm
    · exact Or.inr hl
  unfold Conn.trySend at h
  split at h
  · exact Or.inr h
  · simp only at h
    split at h
    · split at h
      · exact hset _ h
      · split at h
        · simp only at h
          rw [getD_set_bool] at h
          split at h
          · cases h
          · exact hset _ h
        · exact hset _ h
    · exact hset _ h

/-- what `retrieve_returned_chunks` does to a connection: only `comp` and `used` change, bits only get cleared -/
theorem retrieveFrom_conn (w : World) (p : Nat) (sl : List (Option Nat)) (a b : Nat) (cn' : Conn)
    (h : getC (retrieveFrom w p sl) a b = some cn') :
    ∃ cn, getC w a b = some cn ∧ cn'.sAtt = cn.sAtt ∧ cn'.sub = cn.sub ∧
      ∀ y, cn'.used.getD y false = true → cn.used.getD y false = true := by
  induction sl generalizing w cn' with
  | nil => exact ⟨cn', h, rfl, rfl, fun _ hy => hy⟩
  | cons x r ih =>
    cases x with
    | none => exact ih w cn' h
    | some s =>
      unfold retrieveFrom at h
      cases hP : getP w p with
      | none => rw [hP] at h; exact ih w cn' h
      | some P =>
        cases hC : getC w p s with
        | none => rw [hP, hC] at h; exact ih w cn' h
        | some c =>
          rw [hP, hC] at h
          simp only at h
          obtain ⟨cn1, h1, e1, e2, e3⟩ := ih _ cn' h
          obtain ⟨_, hcp, hcs⟩ := getC_some hC
          rw [getC_setC, getC_setP] at h1
          by_cases hab : a = c.pid ∧ b = c.sid
          · rw [if_pos hab] at h1
            obtain ⟨rfl, rfl⟩ := hab
            rw [hcp, hcs, hC] at h1
            simp only [Option.map_some, Option.some.injEq] at h1
            subst h1
            refine ⟨c, by rw [hcp, hcs]; exact hC, e1, e2, fun y hy => ?_⟩
            exact drainComp_bits P c.used c.comp y (e3 y hy)
          · rw [if_neg hab] at h1
            exact ⟨cn1, h1, e1, e2, e3⟩

theorem retrieveReturned_conn (w : World) (p a b : Nat) (cn' : Conn)
    (h : getC (retrieveReturned w p) a b = some cn') :
    ∃ cn, getC w a b = some cn ∧ cn'.sAtt = cn.sAtt ∧ cn'.sub = cn.sub ∧
      ∀ y, cn'.used.getD y false = true → cn.used.getD y false = true := by
  unfold retrieveReturned at h
  cases hP : getP w p with
  | none => rw [hP] at h; exact ⟨cn', h, rfl, rfl, fun _ hy => hy⟩
  | some P => rw [hP] at h; exact retrieveFrom_conn w p P.conns a b cn' h

/-- what `deliver_offset` does to a connection -/
theorem deliverTo_connB (w : World) (p s ch q a b : Nat) (cn' : Conn)
    (h : getC (deliverTo w p s ch q).1 a b = some cn') :
    ∃ cn, getC w a b = some cn ∧ cn'.sAtt = cn.sAtt ∧
      (∀ y, cn'.used.getD y false = true → (a = p ∧ b = s ∧ y = ch) ∨ cn.used.getD y false = true) := by
  cases hP : getP w p with
  | none =>
    have : deliverTo w p s ch q = (w, false) := by unfold deliverTo; rw [hP]
    rw [this] at h
    exact ⟨cn', h, rfl, fun _ hy => Or.inr hy⟩
  | some P =>
    cases hC : getC w p s with
    | none =>
      have : deliverTo w p s ch q = (w, false) := by unfold deliverTo; rw [hP, hC]
      rw [this] at h
      exact ⟨cn', h, rfl, fun _ hy => Or.inr hy⟩
    | some c =>
      obtain ⟨_, hcp, hcs⟩ := getC_some hC
      have key : getC (setC w (c.trySend w.cfg.overflow ch q).1) a b = some cn' := by
        rw [deliverTo_some w p s ch q P c hP hC] at h
        split at h
        · exact h
        · exact h
      rw [getC_setC, trySend_pid, trySend_sid, hcp, hcs] at key
      by_cases hab : a = p ∧ b = s
      · rw [if_pos hab] at key
        obtain ⟨rfl, rfl⟩ := hab
        rw [hC] at key
        simp only [Option.map_some, Option.some.injEq] at key
        subst key
        refine ⟨c, hC, trySend_sAtt .., fun y hy => ?_⟩
        rcases trySend_bits c _ ch q y hy with h1 | h1
        · exact Or.inl ⟨rfl, rfl, h1⟩
        · exact Or.inr h1
      · rw [if_neg hab] at key
        exact ⟨cn', key, rfl, fun _ hy => Or.inr hy⟩

theorem invAB_deliverTo (h : InvAB cfg np ns fl w) {p s ch q i : Nat} {P : Pub}
    (hP : getP w p = some P) (hex : P.ex = true) (hi : P.conns[i]? = some (some s))
    (hch : ∀ c, getC w p s = some c → c.used.getD ch false = false) (hchn : ch < P.n)
    (hrc1 : 1 ≤ P.rc.getD ch 0) (hnp : ¬ Pinned fl p P ch)
    (hpay : P.payload.getD ch 0 = P.sent.getD q 0 ∧ q < P.seq) :
    InvAB cfg np ns fl (deliverTo w p s ch q).1 := by
  refine ⟨h.a.deliverTo p s ch q (h.a.attached hP hex hi), ?_⟩
  obtain ⟨c, hC, hsa⟩ := h.a.a2c p P hP hex i s hi
  obtain ⟨hcm, _, hcs⟩ := getC_some hC
  exact h.b.deliverTo hP hex hC hsa (hcs ▸ (h.a.ends c hcm).2) (hch c hC) hchn hrc1 hnp hpay

/-- a history chunk can be delivered -/
theorem InvB.hist_chunk (h : InvB fl w) {p : Nat} {P : Pub} (hP : getP w p = some P) (hex : P.ex = true)
    {ch : Nat} (hm : ch ∈ P.hist) :
    ch < P.n ∧ 1 ≤ P.rc.getD ch 0 ∧ ¬ Pinned fl p P ch ∧
    (P.payload.getD ch 0 = P.sent.getD (P.chunkSeq.getD ch 0) 0 ∧ P.chunkSeq.getD ch 0 < P.seq) := by
  obtain ⟨h1, h2, h3⟩ := (h.histOk p P hP hex).2 ch hm
  refine ⟨h1, ?_, fun hpin => (h.pinned_unused hP hex hpin).2 hm, h2, h3⟩
  have := h.rc p P hP hex ch h1
  have := filter_length_pos (q := fun e => decide (e = ch)) hm (by simp)
  omega

theorem invAB_deliverHistory (h : InvAB cfg np ns fl w) (p s : Nat) (l : List Nat) {i : Nat} {P : Pub}
    (hP : getP w p = some P) (hex : P.ex = true) (hi : P.conns[i]? = some (some s))
    (hl : ∀ ch ∈ l, ch ∈ P.hist) (hnd : l.Nodup)
    (hbits : ∀ c, getC w p s = some c → ∀ ch ∈ l, c.used.getD ch false = false) :
    InvAB cfg np ns fl (deliverHistory w p s l) := by
  induction l generalizing w P with
  | nil => exact h
  | cons ch r ih =>
    rw [deliverHistory_cons]
    obtain ⟨f1, c1⟩ := retrieveReturned_frame w p
    obtain ⟨P1, hP1, st1⟩ := f1.psome p P hP
    have hi1 : P1.conns[i]? = some (some s) := by rw [c1 P P1 hP hP1]; exact hi
    have hex1 : P1.ex = true := st1.ex ▸ hex
    have h1 := invAB_retrieveReturned h p (fun Q hQ => by rw [hP] at hQ; cases hQ; exact hex)
    have hbits1 : ∀ c, getC (retrieveReturned w p) p s = some c → ∀ x ∈ ch :: r, c.used.getD x false = false := by
      intro c hc x hx
      obtain ⟨c0, h0, _, _, e3⟩ := retrieveReturned_conn w p p s c hc
      cases hh : c.used.getD x false with
      | false => rfl
      | true =>
        have := e3 x hh
        rw [hbits c0 h0 x hx] at this; cases this
    have hch : ch ∈ P1.hist := by rw [st1.hist]; exact hl ch (by simp)
    obtain ⟨g1, g2, g3, g4⟩ := h1.b.hist_chunk hP1 hex1 hch
    have hq : histSeq (retrieveReturned w p) p ch = P1.chunkSeq.getD ch 0 := by
      unfold histSeq; rw [hP1]
    have h2 := invAB_deliverTo h1 (q := histSeq (retrieveReturned w p) p ch) hP1 hex1 hi1
      (fun c hc => hbits1 c hc ch (by simp)) g1 g2 g3 (by rw [hq]; exact g4)
    obtain ⟨f2, c2⟩ := deliverTo_frame (retrieveReturned w p) p s ch (histSeq (retrieveReturned w p) p ch)
    obtain ⟨P2, hP2, st2⟩ := f2.psome p P1 hP1
    obtain ⟨hnin, hnd'⟩ := List.nodup_cons.mp hnd
    refine ih h2 hP2 (by rw [st2.ex]; exact hex1) (by rw [c2 P1 P2 hP1 hP2]; exact hi1)
      (fun x hx => by rw [st2.hist, st1.hist]; exact hl x (List.mem_cons_of_mem _ hx)) hnd' ?_
    intro c hc x hx
    obtain ⟨c0, h0, _, e3⟩ := deliverTo_connB _ p s ch _ p s c hc
    cases hh : c.used.getD x false with
    | false => rfl
    | true =>
      rcases e3 x hh with ⟨_, _, hxc⟩ | h3
      · exact absurd (hxc ▸ hx) hnin
      · rw [hbits1 c0 h0 x (List.mem_cons_of_mem _ hx)] at h3; cases h3

end Iox2.PubSub.C01P
