/-
C08 helper: the API operations preserve the invariant (part B: `cpub`).
-/
import Iox2.Proof.PubSubC08OpA
set_option linter.unusedSimpArgs false
set_option linter.unusedVariables false
namespace Iox2.PubSub.C08
open Iox2.PubSub
open Iox2.C16.SlotMapP (abs)
attribute [-simp] List.getD_eq_getElem?_getD

/-- the world in which the creation of publisher `p` failed -/
def cpubFail (w1 : World) (p : Nat) : World :=
  { (match getP w1 p with
      | some P1 => pubDestroySlots w1 p P1.conns
      | none => w1) with
    pubs := (match getP w1 p with
      | some P1 => pubDestroySlots w1 p P1.conns
      | none => w1).pubs.filter fun e => e.1 ≠ p }

theorem step_cpub_eq (w : World) (p ml : Nat) :
    step w (.cpub p ml) =
      if (getP w p).isSome then (w, "dup") else
      match (pubForceUpdate { w with pubs := w.pubs ++ [(p, newPub w ml)] } p).pubReg.add p,
          getP (pubForceUpdate { w with pubs := w.pubs ++ [(p, newPub w ml)] } p) p with
      | some (reg, slot), some P1 =>
        finishPanic w ({ setP (pubForceUpdate { w with pubs := w.pubs ++ [(p, newPub w ml)] } p) p
          { P1 with slot := slot } with pubReg := reg }, "ok")
      | _, _ =>
        finishPanic w (cpubFail (pubForceUpdate { w with pubs := w.pubs ++ [(p, newPub w ml)] } p) p,
          "err:ExceedsMaxSupportedPublishers") := by
  simp only [step]
  rfl

theorem filter_ne_of_none {β : Type} (l : List (Nat × β)) (p : Nat) (h : l.find? (·.1 = p) = none) :
    l.filter (fun e => e.1 ≠ p) = l := by
  rw [List.filter_eq_self]
  intro e he
  have := List.find?_eq_none.mp h e he
  simpa using this

theorem World.ext' {a b : World} (h1 : a.cfg = b.cfg) (h2 : a.pubReg = b.pubReg) (h3 : a.subReg = b.subReg)
    (h4 : a.pubs = b.pubs) (h5 : a.subs = b.subs) (h6 : a.conns = b.conns) (h7 : a.panicked = b.panicked) : a = b := by
  cases a; cases b; simp_all

theorem step_cpub {cfg : Cfg} {w : World} (h : Inv cfg w) (p ml : Nat) :
    Inv cfg (step w (.cpub p ml)).1 ∧
    (w.panicked = false → (step w (.cpub p ml)).1.panicked = false) ∧
    (w.panicked = false → getP w p = none →
      ((step w (.cpub p ml)).2 = "ok" ↔ liveCnt w.pubReg.slots < cfg.maxPubs) ∧
      ((step w (.cpub p ml)).2 ≠ "ok" →
        (step w (.cpub p ml)).2 = "err:ExceedsMaxSupportedPublishers" ∧ (step w (.cpub p ml)).1 = w)) := by
  rw [step_cpub_eq]
  cases hp : getP w p with
  | some P => exact ⟨h, fun hp => hp, fun _ hn => by cases hn⟩
  | none =>
    simp only [Option.isSome_none, Bool.false_eq_true, if_false]
    -- the world with the new record, and after the connection update
    have h0 := add_pub_inv h hp ml
    have hp0 : getP { w with pubs := w.pubs ++ [(p, newPub w ml)] } p = some (newPub w ml) := by
      rw [getP_push _ hp]; simp
    obtain ⟨h1, P1, hp1, hu1⟩ := pubForceUpdate_inv h0 p hp0 rfl (fun hne => absurd rfl hne) rfl
    obtain ⟨c1, c2, c3, c4, c5, c6, c7, c8, c9⟩ := (pubForceUpdate_PP { w with pubs := w.pubs ++ [(p, newPub w ml)] } p).facts
    generalize hw1 : pubForceUpdate { w with pubs := w.pubs ++ [(p, newPub w ml)] } p = w1 at *
    have hal1 : P1.alive = true := hu1.fields.1
    have hnoconn : ∀ s, getC w p s = none := by
      intro s
      cases hc : getC w p s with
      | none => rfl
      | some c =>
        obtain ⟨P, hP⟩ := (h.c p s c hc).hasP
        rw [hp] at hP; cases hP
    have hnr : ∀ s c, getC w1 p s = some c → c.rAtt = false := by
      intro s c hc
      cases hr : c.rAtt with
      | false => rfl
      | true =>
        obtain ⟨c0, hc0, _⟩ := c8 s c hc hr
        have : getC w p s = some c0 := hc0
        rw [hnoconn] at this; cases this
    have hnotreg : ∀ i : Nat, w1.pubReg.slots[i]? ≠ some (some p) := by
      intro i hi
      rw [c2] at hi
      obtain ⟨P, hP, _⟩ := h.r.rp1 i p hi
      rw [hp] at hP; cases hP
    have hpan1 : w1.panicked = w.panicked := c5
    have hlen : w1.pubReg.slots.length = cfg.maxPubs := h1.r.pubLen
    rw [hp1]
    cases hadd : w1.pubReg.add p with
    | some rs =>
      obtain ⟨reg, slot⟩ := rs
      dsimp only
      -- the registry had a free slot
      have hff : ∃ j, w1.pubReg.slots[j]? = some none ∧ slot = j ∧
          reg = { slots := w1.pubReg.slots.set j (some p), counter := w1.pubReg.counter + 1 } := by
        unfold Reg.add at hadd
        cases hf : firstFree w1.pubReg.slots 0 with
        | none => rw [hf] at hadd; cases hadd
        | some k =>
          rw [hf] at hadd
          simp only [Option.some.injEq, Prod.mk.injEq] at hadd
          obtain ⟨j, e1, e2⟩ := firstFree_some _ _ _ hf
          simp at e1
          subst e1
          exact ⟨k, e2, hadd.2.symm, hadd.1.symm⟩
      obtain ⟨j, hj, rfl, rfl⟩ := hff
      have hinv := register_pub_inv h1 hp1 hnr hnotreg hj hal1
      have hrp : ({ setP w1 p { P1 with slot := slot } with
          pubReg := { slots := w1.pubReg.slots.set slot (some p), counter := w1.pubReg.counter + 1 } } : World).panicked =
          w.panicked := hpan1
      refine ⟨finishPanic_inv h (fun _ => hinv), fun hnp => ?_, fun hnp _ => ?_⟩
      · rw [finishPanic_panicked (by rw [hrp]; exact hnp)]
        show w1.panicked = false
        rw [hpan1]; exact hnp
      · rw [finishPanic_panicked (by rw [hrp]; exact hnp)]
        refine ⟨⟨fun _ => ?_, fun _ => rfl⟩, fun hne => absurd rfl hne⟩
        have := (add_isSome_iff w1.pubReg p).1 (by rw [hadd]; rfl)
        rw [c2, h.r.pubLen] at this
        exact this
    | none =>
      dsimp only
      -- nothing of the attempt remains
      have hfail : cpubFail w1 p = w := by
        unfold cpubFail
        rw [hp1]
        dsimp only
        obtain ⟨d1, d2, d3, d4, d5, d6, d7, d8, d9⟩ := (pubDestroySlots_PP w1 p P1.conns).facts
        obtain ⟨s1, s2⟩ := pubDestroySlots_shape w1 p P1.conns
        have hatt1 : ∀ s c, getC w1 p s = some c → c.sAtt = true ∨ c.rAtt = true :=
          c9 (fun s c hc => by
            have : getC w p s = some c := hc
            rw [hnoconn] at this; cases this)
        have hgone : ∀ s, getC (pubDestroySlots w1 p P1.conns) p s = none := by
          intro s
          rw [s1]
          cases hc : getC w1 p s with
          | none => simp
          | some c =>
            have hr := hnr s c hc
            have hsa : c.sAtt = true := by
              rcases hatt1 s c hc with h' | h'
              · exact h'
              · rw [hr] at h'; cases h'
            obtain ⟨Pq, hPq, _, i, hi⟩ := (h1.c p s c hc).inSlot hsa
            rw [hp1] at hPq; cases hPq
            have hm : some s ∈ P1.conns := List.mem_of_getElem? hi
            simp [hm, detS, hr]
        have hu2 : ConnsUniq (pubDestroySlots w1 p P1.conns) := s2 h1.u
        have hnop : ∀ c ∈ (pubDestroySlots w1 p P1.conns).conns, c.pid ≠ p := by
          intro c hc e
          have := getC_of_mem hu2 hc
          rw [e, hgone] at this; cases this
        have hnop0 : ∀ c ∈ w.conns, c.pid ≠ p := by
          intro c hc e
          have := getC_of_mem h.u hc
          rw [e, hnoconn] at this; cases this
        apply World.ext'
        · exact d1.trans c1
        · exact d2.trans c2
        · exact d3.trans c3
        · show (pubDestroySlots w1 p P1.conns).pubs.filter _ = w.pubs
          rw [d7, c7]
          show (w.pubs ++ [(p, newPub w ml)]).filter _ = _
          rw [List.filter_append]
          have : w.pubs.find? (·.1 = p) = none := by
            unfold getP at hp
            cases hf : w.pubs.find? (·.1 = p) with
            | none => rfl
            | some e => rw [hf] at hp; cases hp
          rw [filter_ne_of_none _ _ this]
          simp
        · exact d4.trans c4
        · show (pubDestroySlots w1 p P1.conns).conns = w.conns
          have e1 : (pubDestroySlots w1 p P1.conns).conns.filter (fun c => c.pid ≠ p) = (pubDestroySlots w1 p P1.conns).conns := by
            rw [List.filter_eq_self]; intro c hc; simpa using hnop c hc
          have e2 : w.conns.filter (fun c => c.pid ≠ p) = w.conns := by
            rw [List.filter_eq_self]; intro c hc; simpa using hnop0 c hc
          rw [← e1, d6, c6]
          exact e2
        · exact d5.trans c5
      rw [hfail]
      refine ⟨finishPanic_inv h (fun _ => h), fun hnp => ?_, fun hnp _ => ?_⟩
      · rw [finishPanic_panicked hnp]; exact hnp
      · rw [finishPanic_panicked hnp]
        refine ⟨⟨fun e => absurd e (by first | decide | (dsimp only; decide)), fun hlt => ?_⟩, fun _ => ⟨rfl, rfl⟩⟩
        exfalso
        have := (add_isSome_iff w1.pubReg p).2 (by rw [c2, h.r.pubLen]; exact hlt)
        rw [hadd] at this; cases this

end Iox2.PubSub.C08
