/-
C08 helper: the API operations preserve the invariant (part 3: updP, updS, has, recv, dsample).
-/
import Iox2.Proof.PubSubC08Op2
set_option linter.unusedSimpArgs false
set_option linter.unusedVariables false
namespace Iox2.PubSub.C08
open Iox2.PubSub
open Iox2.C16.SlotMapP (abs)
attribute [-simp] List.getD_eq_getElem?_getD

theorem finishPanic_inv {cfg : Cfg} {w0 : World} {r : World × String} (h0 : Inv cfg w0)
    (hr : r.1.panicked = false → Inv cfg r.1) : Inv cfg (finishPanic w0 r).1 := by
  unfold finishPanic
  split
  · exact h0.panic
  next hp => exact hr (by simpa using hp)

theorem finishPanic_panicked {w0 : World} {r : World × String} (hr : r.1.panicked = false) :
    finishPanic w0 r = r := by
  unfold finishPanic; rw [hr]; simp

/-- discipline of a single subscriber record is what `no_panic` needs -/
theorem step_updP {cfg : Cfg} {w : World} (h : Inv cfg w) (p : Nat) :
    Inv cfg (step w (.updP p)).1 ∧ (w.panicked = false → (step w (.updP p)).1.panicked = false) := by
  simp only [step]
  cases hp : getP w p with
  | none => exact ⟨h, fun hp => hp⟩
  | some P =>
    dsimp only
    split
    · exact ⟨h, fun hp => hp⟩
    next hal =>
      have hal' : P.alive = true := by simpa using hal
      have hpan : (pubUpdate w p).panicked = w.panicked := (pubUpdate_P w p).frame.2.2.2.2.1
      refine ⟨finishPanic_inv h (fun _ => ((pubUpdate_inv (h.toP p) p hp hal' (fun hne => absurd rfl hne)).1).toInv), ?_⟩
      intro hnp
      rw [finishPanic_panicked (by show (pubUpdate w p).panicked = false; rw [hpan]; exact hnp)]
      show (pubUpdate w p).panicked = false
      rw [hpan]; exact hnp

theorem step_updS {cfg : Cfg} {w : World} (h : Inv cfg w) (s : Nat) :
    Inv cfg (step w (.updS s)).1 ∧
    (w.panicked = false → (∀ S, getS w s = some S → S.held.length ≤ cfg.borrowMax) →
      (step w (.updS s)).1.panicked = false) := by
  simp only [step]
  cases hs : getS w s with
  | none => exact ⟨h, fun hp _ => hp⟩
  | some S =>
    dsimp only
    split
    · exact ⟨h, fun hp _ => hp⟩
    next hal =>
      have hal' : S.alive = true := by simpa using hal
      obtain ⟨a1, a2⟩ := subUpdate_inv (h.toS s) hs hal'
      refine ⟨finishPanic_inv h (fun hnp => (a1 hnp).1.toInv), ?_⟩
      intro hnp hdisc
      have := a2 hnp (hdisc S rfl)
      rw [finishPanic_panicked (by exact this)]
      exact this

theorem step_has {cfg : Cfg} {w : World} (h : Inv cfg w) (s : Nat) :
    Inv cfg (step w (.has s)).1 ∧
    (w.panicked = false → (∀ S, getS w s = some S → S.held.length ≤ cfg.borrowMax) →
      (step w (.has s)).1.panicked = false) := by
  simp only [step]
  cases hs : getS w s with
  | none => exact ⟨h, fun hp _ => hp⟩
  | some S =>
    dsimp only
    split
    · exact ⟨h, fun hp _ => hp⟩
    next hal =>
      have hal' : S.alive = true := by simpa using hal
      obtain ⟨a1, a2⟩ := subUpdate_inv (h.toS s) hs hal'
      split
      next hpan => exact ⟨h.panic, fun hnp hdisc => by rw [a2 hnp (hdisc S rfl)] at hpan; cases hpan⟩
      next hpan =>
        have hnp1 : (subUpdate w s).panicked = false := by simpa using hpan
        split
        · exact ⟨(a1 hnp1).1.toInv, fun _ _ => hnp1⟩
        · exact ⟨(a1 hnp1).1.toInv, fun _ _ => hnp1⟩

theorem step_recv {cfg : Cfg} {w : World} (h : Inv cfg w) (s : Nat) :
    Inv cfg (step w (.recv s)).1 ∧
    (w.panicked = false → (∀ S, getS w s = some S → S.held.length ≤ cfg.borrowMax) →
      (step w (.recv s)).1.panicked = false) := by
  simp only [step]
  cases hs : getS w s with
  | none => exact ⟨h, fun hp _ => hp⟩
  | some S0 =>
    dsimp only
    split
    · exact ⟨h, fun hp _ => hp⟩
    next hal =>
      have hal' : S0.alive = true := by simpa using hal
      obtain ⟨a1, a2⟩ := subUpdate_inv (h.toS s) hs hal'
      split
      next hpan => exact ⟨h.panic, fun hnp hdisc => by rw [a2 hnp (hdisc S0 rfl)] at hpan; cases hpan⟩
      next hpan =>
        have hnp1 : (subUpdate w s).panicked = false := by simpa using hpan
        have h1 := (a1 hnp1).1
        obtain ⟨r1, r2⟩ := subReceive_spec h1
        split
        next w2 heq =>
          rw [heq] at r1 r2
          exact ⟨InvS.toInv r1, fun _ _ => r2.trans hnp1⟩
        next w2 heq =>
          rw [heq] at r1 r2
          exact ⟨InvS.toInv r1, fun _ _ => r2.trans hnp1⟩
        next w2 key p ch seq heq =>
          rw [heq] at r1 r2
          have r1' : ∀ S' tag, getS w2 s = some S' → InvS cfg (setS w2 s { S' with
              held := S'.held ++ [{ key := key, pid := p, chunk := ch, seq := seq, tag := tag }],
              ghostRecv := S'.ghostRecv ++ [(p, seq)] }) none s none := r1
          have r2' : w2.panicked = (subUpdate w s).panicked := r2
          cases hS2 : getS w2 s with
          | none =>
            dsimp only
            -- cannot happen, but the world is the one after the receive without the sample handed out
            exfalso
            obtain ⟨S', hS', _⟩ := (a1 hnp1).2
            have hfr := (subReceive_S (subUpdate w s) s).frame
            rw [heq] at hfr
            have hkeys : w2.subs.map (·.1) = (subUpdate w s).subs.map (·.1) := hfr.2.2.2.2.2
            have h1' : (getS (subUpdate w s) s).isSome = true := by rw [hS']; rfl
            have h2' : (getS w2 s).isSome = false := by rw [hS2]; rfl
            unfold getS at h1' h2'
            rw [Option.isSome_map] at h1' h2'
            rw [List.find?_isSome] at h1'
            obtain ⟨e, he, hek⟩ := h1'
            have : e.1 ∈ (subUpdate w s).subs.map (·.1) := List.mem_map.mpr ⟨e, he, rfl⟩
            rw [← hkeys] at this
            obtain ⟨e', he', hek'⟩ := List.mem_map.mp this
            have h3 : (w2.subs.find? (·.1 = s)).isSome = true := by
              rw [List.find?_isSome]
              exact ⟨e', he', by simpa [hek'] using hek⟩
            rw [h3] at h2'; cases h2'
          | some S2 =>
            dsimp only
            exact ⟨InvS.toInv (r1' S2 _ hS2), fun _ _ => r2'.trans hnp1⟩

theorem step_dsample {cfg : Cfg} {w : World} (h : Inv cfg w) (s k : Nat) :
    Inv cfg (step w (.dsample s k)).1 ∧ (step w (.dsample s k)).1.panicked = w.panicked := by
  simp only [step]
  cases hs : getS w s with
  | none => exact ⟨h, rfl⟩
  | some S =>
    dsimp only
    cases hk : S.held[k]? with
    | none => exact ⟨h, rfl⟩
    | some hd =>
      dsimp only
      obtain ⟨d1, _⟩ := dsample_core (h.toS s) hs hk
      refine ⟨(subDestroy_inv d1).toInv, ?_⟩
      have f1 := (subDestroyIfUnreferenced_S (subRelease (setS w s { S with held := S.held.eraseIdx k }) s hd) s)
      have hp1 : (subDestroyIfUnreferenced (subRelease (setS w s { S with held := S.held.eraseIdx k }) s hd) s).panicked =
          (subRelease (setS w s { S with held := S.held.eraseIdx k }) s hd).panicked := by
        unfold subDestroyIfUnreferenced
        split
        · rfl
        · split
          · rfl
          · show (subDestroyKeys _ _ _).panicked = _
            exact (subDestroyKeys_shape _ _ _).2.2.2
      rw [hp1]
      unfold subRelease
      split
      · rfl
      · split
        · rfl
        · split
          · rfl
          · split
            · rfl
            · split <;> rfl

end Iox2.PubSub.C08
