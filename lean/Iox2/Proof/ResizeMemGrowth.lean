/-
When does an allocation of a growing (non-static) segment succeed?  `DynamicMemory::allocate`
creates ONE new segment from `resize_hint` and retries.  The payload of the new segment has exactly
`bucket size * number of buckets` bytes (`initial_setup_hint`), but the pool allocator aligns its
first bucket up from the payload start, so a bucket is lost whenever the payload start is not
aligned to the bucket alignment.  Without that padding the retry always succeeds.
-/
import Iox2.Proof.ResizeMemStep

namespace Iox2.ResizeMem
open Iox2.Alloc

/-- the payload start of the segment that `create_resized_segment` would create for this request is
aligned to its bucket alignment (no bucket is lost), and the alignment is supported by the memory -/
def NoPadding (s : St) (size align : Nat) : Prop :=
  ∀ g, getSeg s.segs s.cur = some g →
    s.cfg.base % (resizeHint g.stride g.balign g.nBuckets g.used size align s.cfg.strategy).bucketAlign = 0 ∧
    (resizeHint g.stride g.balign g.nBuckets g.used size align s.cfg.strategy).bucketAlign ≤ s.cfg.pageSize

/-! ### arithmetic of `resize_hint` -/
theorem le_nextPow2 (n : Nat) : n ≤ nextPow2 n := by
  unfold nextPow2
  split
  · omega
  · have := Nat.lt_log2_self (n := n - 1)
    omega

theorem le_nextMultipleOf (n a : Nat) : n ≤ nextMultipleOf n a := by
  unfold nextMultipleOf; split <;> omega

theorem nextMultipleOf_mod (n a : Nat) (ha : 0 < a) : nextMultipleOf n a % a = 0 := by
  unfold nextMultipleOf
  split
  · assumption
  · have h1 : n % a < a := Nat.mod_lt _ ha
    have h2 : n = a * (n / a) + n % a := (Nat.div_add_mod n a).symm
    have h3 : n + (a - n % a) = a * (n / a + 1) := by rw [Nat.mul_add]; omega
    rw [h3]; exact Nat.mul_mod_right _ _

theorem alignUp_of_mod {v a : Nat} (h : v % a = 0) : alignUp v a = v := by
  unfold alignUp; rw [if_pos h]

/-- the layout of the hint serves the request and is a multiple of its alignment -/
theorem resizeHint_layout {cs ca nb used size align : Nat} {st : Strategy} (hst : st ≠ .static)
    (hca : 0 < ca) (hmod : cs % ca = 0) :
    size ≤ (resizeHint cs ca nb used size align st).bucketSize ∧
    align ≤ (resizeHint cs ca nb used size align st).bucketAlign ∧
    cs ≤ (resizeHint cs ca nb used size align st).bucketSize ∧
    (resizeHint cs ca nb used size align st).bucketSize %
      (resizeHint cs ca nb used size align st).bucketAlign = 0 := by
  unfold resizeHint
  simp only
  split
  · cases st with
    | static => exact (hst rfl).elim
    | bestFit =>
      simp only
      have h1 := le_nextMultipleOf (max size cs) (max align ca)
      have h2 := nextMultipleOf_mod (max size cs) (max align ca) (by omega)
      refine ⟨by omega, by omega, by omega, h2⟩
    | powerOfTwo =>
      simp only
      have h0 := le_nextPow2 (max align ca)
      have h1 := le_nextMultipleOf (nextPow2 (max size cs)) (nextPow2 (max align ca))
      have h2 := nextMultipleOf_mod (nextPow2 (max size cs)) (nextPow2 (max align ca)) (by omega)
      have h3 := le_nextPow2 (max size cs)
      refine ⟨by omega, by omega, by omega, h2⟩
  · rename_i hno
    simp only
    refine ⟨by omega, by omega, Nat.le_refl _, hmod⟩

/-- the hint asks for at least one bucket -/
theorem resizeHint_n {cs ca nb used size align : Nat} {st : Strategy} (hst : st ≠ .static)
    (hn : used = nb ∨ 1 ≤ nb) : 1 ≤ (resizeHint cs ca nb used size align st).nBuckets := by
  unfold resizeHint
  simp only
  split
  · cases st with
    | static => exact (hst rfl).elim
    | bestFit => simp only; omega
    | powerOfTwo => simp only; have := le_nextPow2 (nb + 1); omega
  · omega

/-- geometry of a fresh segment whose payload start and bucket size are aligned: nothing is lost -/
theorem mkSeg_geometry {cfg : Cfg} {id : Nat} {h : Hint} {g : Seg} (hm : mkSeg cfg id h = .ok g)
    (hbase : cfg.base % h.bucketAlign = 0) (hsz : h.bucketSize % h.bucketAlign = 0) :
    g.stride = h.bucketSize ∧ g.balign = h.bucketAlign ∧ g.nBuckets = h.nBuckets := by
  obtain ⟨_, _, _, hpos, hal, hbs, hptr, hsize, _, _⟩ := mkSeg_ok hm
  have hstride : g.pool.p.stride = h.bucketSize := by
    unfold Pool.stride; rw [hal, hbs]; exact alignUp_of_mod hsz
  refine ⟨hstride, hal, ?_⟩
  unfold Seg.nBuckets Pool.nBuckets Pool.start
  rw [hal, hbs, hptr, hsize, alignUp_of_mod hbase, alignUp_of_mod hsz, Nat.add_sub_cancel_left]
  exact Nat.mul_div_cancel_left _ (by omega)

/-! ### one iteration of the loop -/
theorem allocLoop_ok {k : Nat} {s : St} {size align : Nat} {g g' : Seg} {off : Nat}
    (hg : getSeg s.segs s.cur = some g) (ha : g.allocate size align = (g', .ok off)) :
    (allocLoop (k + 1) s size align).2 = .ok (s.cur, off) := by
  unfold allocLoop
  rw [hg]
  simp only [ha]

theorem allocLoop_retry {k : Nat} {s s1 : St} {size align : Nat} {g g0 : Seg} {e : AllocErr}
    (hg : getSeg s.segs s.cur = some g) (ha : g.allocate size align = (g0, .error e))
    (hdyn : s.cfg.strategy ≠ .static) (hc : createResized s g size align = some s1) :
    allocLoop (k + 1) s size align = allocLoop k s1 size align := by
  rw [allocLoop]
  rw [hg]
  simp only [ha, hdyn, if_false, hc]

theorem step_alloc_ok {s : St} {l size align : Nat} (hfresh : liveChunk s l = none) {seg off : Nat}
    (h : (allocate s size align).2 = .ok (seg, off)) :
    (step s (.alloc l size align)).2 = .okAt seg off := by
  simp only [step]
  rw [hfresh]
  simp only
  cases ha : allocate s size align with
  | mk s' r =>
    rw [ha] at h
    simp only at h
    subst h
    rfl

/-- **an allocation of a dynamic segment succeeds** as long as a segment id is left, provided no
bucket is lost to alignment padding -/
theorem alloc_succeeds_of_noPadding {s : St} (hinv : Inv s) {l size align : Nat} (hp : Pow2 align)
    (hdyn : s.cfg.strategy ≠ .static) (hids : s.cur + 1 < s.cfg.maxSegs)
    (hfresh : liveChunk s l = none) (hpad : NoPadding s size align) :
    ∃ seg off, (step s (.alloc l size align)).2 = .okAt seg off := by
  obtain ⟨g, hg⟩ := hinv.mem.cur_in
  obtain ⟨hgm, hgid⟩ := getSeg_some hg
  have hgok := hinv.mem.segs_ok g hgm
  obtain ⟨k, hk⟩ : ∃ k, s.cfg.maxSegs = k + 1 := ⟨s.cfg.maxSegs - 1, by omega⟩
  cases ha : g.allocate size align with
  | mk g0 r =>
    cases r with
    | ok off =>
      refine ⟨s.cur, off, step_alloc_ok hfresh ?_⟩
      unfold allocate
      exact allocLoop_ok hg ha
    | error e =>
      -- the hint of the new segment
      obtain ⟨hbase, hpage⟩ := hpad g hg
      generalize hh : resizeHint g.stride g.balign g.nBuckets g.used size align s.cfg.strategy = h at hbase hpage
      have hca : 0 < g.balign := hgok.align_pow2.pos
      have hmod : g.stride % g.balign = 0 := Iox2.C15.alignUp_mod _ _ hca
      have hlay := resizeHint_layout (nb := g.nBuckets) (used := g.used) (size := size) (align := align) hdyn hca hmod
      rw [hh] at hlay
      obtain ⟨hsize, halign, hcs, hszmod⟩ := hlay
      have hn : 1 ≤ h.nBuckets := by
        rw [← hh]
        apply resizeHint_n hdyn
        have := hgok.used_free
        by_cases hu : g.used = g.nBuckets
        · exact Or.inl hu
        · exact Or.inr (by omega)
      have hspos : 0 < h.bucketSize := by have := hgok.stride_pos; omega
      -- the new segment exists
      have hpay : h.bucketSize * h.nBuckets ≠ 0 := Nat.ne_of_gt (Nat.mul_pos hspos hn)
      obtain ⟨g', hmk⟩ : ∃ g', mkSeg s.cfg (s.cur + 1) h = .ok g' := by
        unfold mkSeg
        simp only [hpay, if_false]
        rw [if_neg (by omega)]
        exact ⟨_, rfl⟩
      have hc : createResized s g size align =
          some { s with segs := (if g.count = 0 then dropSeg s.segs s.cur else s.segs) ++ [g'], cur := s.cur + 1 } := by
        unfold createResized
        simp only [hh, hids, if_true, hmk]
      obtain ⟨hinv1, _, _, _, _, _, _, _⟩ := minv_createResized hinv.mem hg hp hc
      obtain ⟨g1, hg1⟩ := hinv1.cur_in
      -- the current segment of the new state is the new one
      have hg1' : g1 = g' := by
        simp only at hg1
        rw [getSeg_append] at hg1
        cases hkept : getSeg (if g.count = 0 then dropSeg s.segs s.cur else s.segs) (s.cur + 1) with
        | some x =>
          obtain ⟨hxm, hxid⟩ := getSeg_some hkept
          have hxs : x ∈ s.segs := by
            split at hxm
            · exact (mem_dropSeg.mp hxm).1
            · exact hxm
          have := (hinv.mem.segs_ok x hxs).id_le
          omega
        | none =>
          rw [hkept] at hg1
          simp only at hg1
          split at hg1
          · exact (Option.some.inj hg1).symm
          · cases hg1
      subst hg1'
      obtain ⟨hstride, hbal, hnb⟩ := mkSeg_geometry hmk hbase hszmod
      obtain ⟨_, _, _, _, _, _, _, _, hfree, _⟩ := mkSeg_ok hmk
      obtain ⟨m, hm⟩ : ∃ m, g1.nBuckets = m + 1 := ⟨g1.nBuckets - 1, by omega⟩
      have hfree' : g1.pool.free = 0 :: (List.range' 1 m) := by
        rw [hfree, hm, List.range_eq_range', List.range'_succ]
      have ha1 := Seg.allocate_ok_of (g := g1) (size := size) (align := align) hfree'
        (by rw [hstride]; exact hsize) (by rw [hbal]; exact halign)
      have hfin : (allocate s size align).2 = .ok (s.cur + 1, 0 * g1.stride) := by
        unfold allocate
        rw [allocLoop_retry hg ha hdyn hc, hk]
        exact allocLoop_ok hg1 ha1
      exact ⟨_, _, step_alloc_ok hfresh hfin⟩

end Iox2.ResizeMem
