/-
Disconnect visibility (C11, clause d): what dropping a pending response / an active request does to
the channel state words, at the level of the API operations (no reachability needed).
-/
import Iox2.Proof.ReqResReach
namespace Iox2.ReqRes

theorem close_hasState (x : Chan) (v : Nat) : (x.close v).hasState v = false := by
  unfold Chan.close
  split
  · rfl
  · next h => simpa using h

theorem close_keeps_noState (x : Chan) (v v' : Nat) (h : x.hasState v = false) : (x.close v').hasState v = false := by
  unfold Chan.close
  split
  · rfl
  · exact h

/-- exact effect of `mapChanAt` on the channels -/
theorem mapChanAt_chan (w : World) (f t : Pid) (ch : Nat) (g : Chan → Chan) (f' t' : Pid) (c' : Conn) (j : Nat) (x' : Chan)
    (hc : getConn (mapChanAt w f t ch g) f' t' = some c') (hx : c'.chans[j]? = some x') :
    ∃ c x, getConn w f' t' = some c ∧ c.chans[j]? = some x ∧ x' = (if f' = f ∧ t' = t ∧ j = ch then g x else x) := by
  unfold mapChanAt at hc
  split at hc
  · next c hc0 =>
    unfold Conn.chan at hc
    split at hc
    · next x hx0 =>
      rw [getConn_setConn] at hc
      split at hc
      · next heq =>
        obtain ⟨rfl, rfl⟩ := heq
        cases hc
        simp only [Conn.setChan, List.getElem?_set] at hx
        by_cases hj : ch = j
        · subst hj
          simp only [if_true] at hx
          split at hx
          · cases hx; exact ⟨c, x, hc0, hx0, by simp⟩
          · cases hx
        · simp only [hj, if_false] at hx
          have hj' : ¬ j = ch := fun h => hj h.symm
          exact ⟨c, x', hc0, hx, by simp [hj']⟩
      · next hne =>
        refine ⟨c', x', hc, hx, ?_⟩
        have : ¬ (f' = f ∧ t' = t ∧ j = ch) := fun h => hne ⟨h.1, h.2.1⟩
        simp [this]
    · next hnone =>
      refine ⟨c', x', hc, hx, ?_⟩
      split
      · next h =>
        obtain ⟨rfl, rfl, rfl⟩ := h
        rw [hc0] at hc; cases hc
        rw [hnone] at hx; cases hx
      · rfl
  · next hnone =>
    refine ⟨c', x', hc, hx, ?_⟩
    split
    · next h => obtain ⟨rfl, rfl, _⟩ := h; rw [hnone] at hc; cases hc
    · rfl

/-- `Receiver::close_channel` over the storage: channel `ch` of every listed connection no longer
carries `v`; no channel that did not carry `v` carries it afterwards -/
theorem rcvMapChan_close (w : World) (me : Pid) (ch v : Nat) (l : List (Nat × Pid)) (f' t' : Pid) (c' : Conn) (j : Nat)
    (x' : Chan) (hc : getConn (rcvMapChan w me ch (fun x => x.close v) l) f' t' = some c') (hx : c'.chans[j]? = some x') :
    ∃ c x, getConn w f' t' = some c ∧ c.chans[j]? = some x ∧ (x.hasState v = false → x'.hasState v = false) ∧
      ((∃ k, (k, f') ∈ l) → t' = me → j = ch → x'.hasState v = false) := by
  induction l generalizing w with
  | nil => exact ⟨c', x', hc, hx, id, fun ⟨k, hk⟩ => by cases hk⟩
  | cons a r ih =>
    obtain ⟨k0, f0⟩ := a
    simp only [rcvMapChan] at hc
    obtain ⟨c1, x1, hc1, hx1, hkeep, hdone⟩ := ih _ hc
    obtain ⟨c0, x0, hc0, hx0, hx1e⟩ := mapChanAt_chan w f0 me ch _ f' t' c1 j x1 hc1 hx1
    refine ⟨c0, x0, hc0, hx0, ?_, ?_⟩
    · intro h0
      apply hkeep
      rw [hx1e]
      split
      · exact close_keeps_noState x0 v v h0
      · exact h0
    · rintro ⟨k, hk⟩ ht hj
      rcases List.mem_cons.mp hk with h | h
      · simp only [Prod.mk.injEq] at h
        obtain ⟨_, hf⟩ := h
        apply hkeep
        rw [hx1e, if_pos ⟨hf, ht, hj⟩]
        exact close_hasState x0 v
      · exact hdone ⟨k, h⟩ ht hj

theorem rcvMapAll_close (w : World) (me : Pid) (ch v : Nat) (R : Rcv) (hR : getRcv w me = some R) (f' t' : Pid) (c' : Conn)
    (j : Nat) (x' : Chan) (hc : getConn (rcvMapAll w me ch (fun x => x.close v)) f' t' = some c') (hx : c'.chans[j]? = some x') :
    ∃ c x, getConn w f' t' = some c ∧ c.chans[j]? = some x ∧ (x.hasState v = false → x'.hasState v = false) ∧
      ((∃ k, (k, f') ∈ SlotMap.items R.storage) → t' = me → j = ch → x'.hasState v = false) := by
  unfold rcvMapAll at hc
  rw [hR] at hc
  exact rcvMapChan_close w me ch v _ f' t' c' j x' hc hx

/-- housekeeping keeps "does not carry `v`" on the channels of response connections -/
theorem Hk.noState {me : Pid} {w w' : World} (h : Hk me w w') (f t : Pid) (hf : f.srv = true) (j v : Nat)
    (h0 : ∀ (c : Conn) (x : Chan), getConn w f t = some c → c.chans[j]? = some x → x.hasState v = false) :
    ∀ (c' : Conn) (x' : Chan), getConn w' f t = some c' → c'.chans[j]? = some x' → x'.hasState v = false := by
  intro c' x' hc hx
  rcases h.conns f t c' hc with ⟨c, hc0, l⟩ | fr
  · obtain ⟨x, hx0, l0⟩ := l.1 j x' hx
    have := h0 c x hc0 hx0
    unfold Chan.hasState at *
    rw [l0.1]; exact this
  · have := (fr j x' hx).2
    unfold Chan.hasState
    rw [this]; simp [initState, hf]

theorem clientDestroy_noState (w : World) (c : Nat) :
    ∀ (f t : Pid), f.srv = true → ∀ (j v : Nat), (∀ (c0 : Conn) (x : Chan), getConn w f t = some c0 → c0.chans[j]? = some x → x.hasState v = false) →
      ∀ (c' : Conn) (x' : Chan), getConn (clientDestroyIfUnreferenced w c) f t = some c' → c'.chans[j]? = some x' → x'.hasState v = false := by
  intro f t hf j v h0
  unfold clientDestroyIfUnreferenced
  split
  · exact h0
  · split
    · exact h0
    · exact (portDestroy_hk _ (cid c)).1.noState f t hf j v h0

/-- (d) dropping a pending response closes the response channel on every connection of the client's
storage: afterwards none of them carries the request id on that channel -/
theorem opDPending_closes (w : World) (c r : Nat) (C : Client) (P : Pending) (R : Rcv) (hC : getCl w c = some C)
    (hP : findPending C r = some P) (hR : getRcv w (cid c) = some R) (s k : Nat) (hk : (k, sid s) ∈ SlotMap.items R.storage)
    (c' : Conn) (x' : Chan) (hc : getConn (opDPending w c r).1 (sid s) (cid c) = some c')
    (hx : c'.chans[P.channel]? = some x') : x'.hasState P.rid = false := by
  unfold opDPending at hc
  rw [hC] at hc
  simp only [hP] at hc
  have h1 : ∀ (c0 : Conn) (x : Chan), getConn (rcvMapAll w (cid c) P.channel fun x => x.close P.rid) (sid s) (cid c) = some c0 →
      c0.chans[P.channel]? = some x → x.hasState P.rid = false := by
    intro c0 x hc0 hx0
    obtain ⟨_, _, _, _, _, hdone⟩ := rcvMapAll_close w (cid c) P.channel P.rid R hR _ _ c0 _ x hc0 hx0
    exact hdone ⟨k, hk⟩ rfl rfl
  have h2 : ∀ (c0 : Conn) (x : Chan), getConn (sndReturnLoan (setCl (rcvMapAll w (cid c) P.channel fun x => x.close P.rid) c (C.dropPending P)) (cid c) P.chunk)
      (sid s) (cid c) = some c0 → c0.chans[P.channel]? = some x → x.hasState P.rid = false := by
    intro c0 x hc0 hx0
    apply h1 c0 x _ hx0
    unfold sndReturnLoan at hc0
    split at hc0 <;> simpa using hc0
  exact clientDestroy_noState _ c (sid s) (cid c) rfl _ _ h2 c' x' hc hx

/-- ... hence an active request of any server in that storage whose response slot leads to this client
observes the disconnect: `ActiveRequest::is_connected` is false right after the drop -/
theorem opDPending_observed (w : World) (c r : Nat) (C : Client) (P : Pending) (R : Rcv) (hC : getCl w c = some C)
    (hP : findPending C r = some P) (hR : getRcv w (cid c) = some R) (s k : Nat) (hk : (k, sid s) ∈ SlotMap.items R.storage)
    (connId : Option Nat) (ht : respondTarget (opDPending w c r).1 s connId = some (cid c)) :
    activeConnected (opDPending w c r).1 s connId P.channel P.rid = false := by
  unfold activeConnected activeChan
  rw [ht]
  simp only []
  cases hc : getConn (opDPending w c r).1 (sid s) (cid c) with
  | none => rfl
  | some c' =>
    simp only [Conn.chan]
    cases hx : c'.chans[P.channel]? with
    | none => rfl
    | some x' => exact opDPending_closes w c r C P R hC hP hR s k hk c' x' hc hx

theorem serverDestroy_noState (w : World) (s : Nat) :
    ∀ (f t : Pid), f.srv = true → ∀ (j v : Nat), (∀ (c0 : Conn) (x : Chan), getConn w f t = some c0 → c0.chans[j]? = some x → x.hasState v = false) →
      ∀ (c' : Conn) (x' : Chan), getConn (serverDestroyIfUnreferenced w s) f t = some c' → c'.chans[j]? = some x' → x'.hasState v = false := by
  intro f t hf j v h0
  unfold serverDestroyIfUnreferenced
  split
  · exact h0
  · split
    · exact h0
    · exact (portDestroy_hk _ (sid s)).1.noState f t hf j v h0

theorem getSnd_updActive (w : World) (s a : Nat) (f : Active → Active) (p : Pid) : getSnd (updActive w s a f) p = getSnd w p := by
  unfold updActive; split <;> rfl
theorem getSnd_reapActive (w : World) (s a : Nat) (p : Pid) : getSnd (reapActive w s a) p = getSnd w p := by
  unfold reapActive; split <;> rfl

/-- (d) dropping an active request closes its response channel on the connection its slot leads to -/
theorem opDActive_closes (w : World) (s a : Nat) (V : Server) (A : Active) (hV : getSv w s = some V)
    (hA : findActive V a = some A) (t : Pid) (ht : respondTarget w s A.connId = some t)
    (c' : Conn) (x' : Chan) (hc : getConn (opDActive w s a).1 (sid s) t = some c')
    (hx : c'.chans[A.msg.channel]? = some x') : x'.hasState A.msg.rid = false := by
  unfold opDActive at hc
  rw [hV] at hc
  simp only [hA] at hc
  refine serverDestroy_noState _ s (sid s) t rfl _ _ ?_ c' x' hc hx
  intro c0 x hc0 hx0
  -- the response slot is the same after the record updates and the release of the request chunk
  have ht' : respondTarget (rcvRelease (reapActive (updActive w s a fun x => { x with live := false }) s a) (sid s) A.det) s A.connId
      = some t := by
    unfold respondTarget sndConns at ht ⊢
    rw [(rcvRelease_hk _ _ _).getSnd_eq, getSnd_reapActive, getSnd_updActive]
    exact ht
  unfold activeFinish at hc0
  rw [ht'] at hc0
  obtain ⟨c1, x1, _, _, hx1e⟩ := mapChanAt_chan _ _ _ _ _ _ _ c0 _ x hc0 hx0
  rw [hx1e, if_pos ⟨rfl, rfl, rfl⟩]
  exact close_hasState x1 _

/-- `PendingResponse::is_connected` is true only if some connection of the storage still carries the request id -/
theorem rcvAnyChan_true (w : World) (me : Pid) (ch : Nat) (g : Chan → Bool) (l : List (Nat × Pid))
    (h : rcvAnyChan w me ch g l = true) :
    ∃ k f c x, (k, f) ∈ l ∧ getConn w f me = some c ∧ c.chans[ch]? = some x ∧ g x = true := by
  induction l with
  | nil => simp [rcvAnyChan] at h
  | cons a r ih =>
    obtain ⟨k, f⟩ := a
    simp only [rcvAnyChan, Bool.or_eq_true] at h
    rcases h with h | h
    · cases hc : getConn w f me with
      | none => simp [hc] at h
      | some c =>
        simp only [hc, Conn.chan] at h
        cases hx : c.chans[ch]? with
        | none => simp [hx] at h
        | some x =>
          simp only [hx] at h
          exact ⟨k, f, c, x, List.mem_cons_self .., hc, hx, h⟩
    · obtain ⟨k', f', c, x, hm, rest⟩ := ih h
      exact ⟨k', f', c, x, List.mem_cons_of_mem _ hm, rest⟩

end Iox2.ReqRes

namespace Iox2.ReqRes

/-- every client of `w'` is a client of `w` with the same pending responses, counter and limit -/
def SamePend (w w' : World) : Prop :=
  ∀ c' C', getCl w' c' = some C' → ∃ C0, getCl w c' = some C0 ∧ C'.pendings = C0.pendings ∧ C'.activeCnt = C0.activeCnt ∧
    C'.maxActive = C0.maxActive

theorem SamePend.of_eq {w w' : World} (h : ∀ c', getCl w' c' = getCl w c') : SamePend w w' :=
  fun c' C' hC' => ⟨C', by rw [← h]; exact hC', rfl, rfl, rfl⟩

/-- `Client::loan_chunk` sends nothing: queues only shrink (returned chunks are collected), pending responses
and counters stay; a refusal is one of the documented ones -/
theorem clientLoan_frame (w : World) (c l : Nat) :
    ConnsLe w (clientLoan w c l).1 ∧ SamePend w (clientLoan w c l).1 ∧
    ((clientLoan w c l).2.1 = none → (clientLoan w c l).2.2 = "none" ∨ (clientLoan w c l).2.2 = "PANIC" ∨
      (clientLoan w c l).2.2 = "err:loan:ExceedsMaxLoans" ∨ (clientLoan w c l).2.2 = "err:loan:OutOfMemory") := by
  unfold clientLoan
  split
  · exact ⟨ConnsLe.refl _, SamePend.of_eq (fun _ => rfl), fun _ => Or.inl rfl⟩
  · next C hC =>
    split
    · exact ⟨ConnsLe.refl _, SamePend.of_eq (fun _ => rfl), fun _ => Or.inr (Or.inr (Or.inl rfl))⟩
    · simp only []
      have k1 := (retrieveReturned_hk w (cid c)).1
      generalize retrieveReturned w (cid c) = w1 at k1
      split
      · exact ⟨k1.conns, SamePend.of_eq k1.getCl_eq, fun _ => Or.inl rfl⟩
      · next S hS1 =>
        split
        · exact ⟨k1.conns, SamePend.of_eq k1.getCl_eq, fun _ => Or.inr (Or.inr (Or.inl rfl))⟩
        · exact ⟨k1.conns, SamePend.of_eq k1.getCl_eq, fun _ => Or.inr (Or.inr (Or.inr rfl))⟩
        · exact ⟨k1.conns.trans (ConnsLe.of_eq fun _ _ => rfl), SamePend.of_eq k1.getCl_eq, fun _ => Or.inr (Or.inl rfl)⟩
        · next S' chunk _ =>
          split
          · exact ⟨k1.conns.trans (ConnsLe.of_eq fun _ _ => rfl), SamePend.of_eq (fun c' => k1.getCl_eq c'),
              fun _ => Or.inr (Or.inl rfl)⟩
          · refine ⟨k1.conns.trans (ConnsLe.of_eq fun _ _ => rfl), ?_, fun h => by simp at h⟩
            intro c' C' hC'
            simp only [getCl_setSnd, getCl_setCl] at hC'
            split at hC'
            · next hcc => cases hC'; subst hcc; exact ⟨C, hC, rfl, rfl, rfl⟩
            · rw [k1.getCl_eq] at hC'; exact ⟨C', hC', rfl, rfl, rfl⟩

theorem clientReleaseLoan_frame (w : World) (c : Nat) (q : QLoan) :
    ConnsLe w (clientReleaseLoan w c q) ∧ SamePend w (clientReleaseLoan w c q) := by
  unfold clientReleaseLoan
  split
  · exact ⟨ConnsLe.refl _, SamePend.of_eq (fun _ => rfl)⟩
  · next C hC =>
    have hconn : ∀ w' : World, ∀ p ch, ConnsLe w' (sndReturnLoan w' p ch) ∧ ∀ c', getCl (sndReturnLoan w' p ch) c' = getCl w' c' := by
      intro w' p ch
      unfold sndReturnLoan
      split
      · exact ⟨ConnsLe.of_eq fun _ _ => rfl, fun _ => rfl⟩
      · exact ⟨ConnsLe.refl _, fun _ => rfl⟩
    refine ⟨(ConnsLe.of_eq fun _ _ => rfl).trans (hconn _ _ _).1, ?_⟩
    intro c' C' hC'
    rw [(hconn _ _ _).2, getCl_setCl] at hC'
    split at hC'
    · next hcc => cases hC'; subst hcc; exact ⟨C, hC, rfl, rfl, rfl⟩
    · exact ⟨C', hC', rfl, rfl, rfl⟩

/-- (e) a `send` beyond the active-request limit: whatever it answers, no request is sent and no
pending response comes into being - the queues of all connections only shrink (returned chunks are
collected), every client keeps its pending responses and its counter -/
theorem opSend_at_limit (w : World) (c r tag : Nat) (C : Client) (hC : getCl w c = some C)
    (hlim : C.maxActive ≤ C.activeCnt) :
    ConnsLe w (opSend w c r tag).1 ∧
    (∀ c' C', getCl (opSend w c r tag).1 c' = some C' → ∃ C0, getCl w c' = some C0 ∧ C'.pendings = C0.pendings ∧
      C'.activeCnt = C0.activeCnt) ∧
    ((opSend w c r tag).2 = "none" ∨ (opSend w c r tag).2 = "dup" ∨ (opSend w c r tag).2 = "PANIC" ∨
     (opSend w c r tag).2 = "err:loan:ExceedsMaxLoans" ∨ (opSend w c r tag).2 = "err:loan:OutOfMemory" ∨
     (opSend w c r tag).2 = "err:send:ExceedsMaxActiveRequests") := by
  have weaken : ∀ {w' : World}, SamePend w w' → ∀ c' C', getCl w' c' = some C' → ∃ C0, getCl w c' = some C0 ∧
      C'.pendings = C0.pendings ∧ C'.activeCnt = C0.activeCnt :=
    fun h c' C' hC' => let ⟨C0, h0, h1, h2, _⟩ := h c' C' hC'; ⟨C0, h0, h1, h2⟩
  unfold opSend
  rw [hC]
  simp only []
  split
  · exact ⟨ConnsLe.refl _, weaken (SamePend.of_eq fun _ => rfl), Or.inl rfl⟩
  · split
    · exact ⟨ConnsLe.refl _, weaken (SamePend.of_eq fun _ => rfl), Or.inr (Or.inl rfl)⟩
    · obtain ⟨f1, f2, f3⟩ := clientLoan_frame w c 0
      split
      · next w1 out heq =>
        rw [heq] at f1 f2 f3
        refine ⟨f1, weaken f2, ?_⟩
        rcases f3 rfl with h | h | h | h
        · exact Or.inl h
        · exact Or.inr (Or.inr (Or.inl h))
        · exact Or.inr (Or.inr (Or.inr (Or.inl h)))
        · exact Or.inr (Or.inr (Or.inr (Or.inr (Or.inl h))))
      · next w1 q _ heq =>
        rw [heq] at f1 f2
        have f1 : ConnsLe w w1 := f1
        have f2 : SamePend w w1 := f2
        unfold clientSendLoan
        split
        · exact ⟨f1, weaken f2, Or.inl rfl⟩
        · next C1 hC1 =>
          obtain ⟨C0, h0, _, h2, h3⟩ := f2 c C1 hC1
          rw [hC] at h0; cases h0
          rw [if_pos (by rw [h2, h3]; exact hlim)]
          obtain ⟨g1, g2⟩ := clientReleaseLoan_frame w1 c q
          refine ⟨f1.trans g1, ?_, Or.inr (Or.inr (Or.inr (Or.inr (Or.inr rfl))))⟩
          intro c' C' hC'
          obtain ⟨Ca, ha, ha1, ha2, _⟩ := g2 c' C' hC'
          obtain ⟨Cb, hb, hb1, hb2, _⟩ := f2 c' Ca ha
          exact ⟨Cb, hb, ha1.trans hb1, ha2.trans hb2⟩

end Iox2.ReqRes

namespace Iox2.ReqRes

/-- receiving a chunk and giving it back (what `Server::receive` does with a request it skips, and
`PendingResponse::receive` with a response of another request): the borrow counter is back where it
was and the chunk is on its way home in the completion queue -/
theorem recv_then_release (w : World) (me : Pid) (R : Rcv) (key ch : Nat) (f : Pid) (c : Conn) (x : Chan) (e : Entry)
    (rest : List Entry) (hR : getRcv w me = some R) (hk : smGet R.storage key = some f) (hc : getConn w f me = some c)
    (hx : c.chans[ch]? = some x) (hb : x.borrow < c.maxBorrow) (hs : x.sub = e :: rest)
    (hroom : x.comp.length < c.cap + c.maxBorrow + 1) :
    ∃ h m, (recvFromConn w me R key ch).2 = .some h m ∧ m = e.msg ∧
      ∃ c' x', getConn (rcvRelease (recvFromConn w me R key ch).1 me h) f me = some c' ∧ c'.chans[ch]? = some x' ∧
        x'.borrow = x.borrow ∧ x'.comp = x.comp ++ [e.chunk] ∧ x'.sub = rest := by
  have hnb : ¬ (x.borrow ≥ c.maxBorrow) := by omega
  have hrecv : recvFromConn w me R key ch =
      (setConn w f me (c.setChan ch { x with sub := rest, borrow := x.borrow + 1 }),
       .some { key := key, origin := f, chunk := e.chunk, channel := ch } e.msg) := by
    unfold recvFromConn
    rw [hk]
    simp only [hc, Conn.chan, hx]
    rw [if_neg hnb]
    simp only [hs]
  rw [hrecv]
  refine ⟨_, _, rfl, rfl, ?_⟩
  have hx1 : (c.setChan ch { x with sub := rest, borrow := x.borrow + 1 }).chans[ch]? =
      some { x with sub := rest, borrow := x.borrow + 1 } := getElem?_set_self' _ _ _ _ hx
  have hrel : rcvRelease (setConn w f me (c.setChan ch { x with sub := rest, borrow := x.borrow + 1 })) me
      { key := key, origin := f, chunk := e.chunk, channel := ch } =
      setConn (setConn w f me (c.setChan ch { x with sub := rest, borrow := x.borrow + 1 })) f me
        ((c.setChan ch { x with sub := rest, borrow := x.borrow + 1 }).setChan ch
          { x with sub := rest, borrow := x.borrow + 1 - 1, comp := x.comp ++ [e.chunk] }) := by
    unfold rcvRelease
    simp only [getRcv_setConn, hR, hk, getConn_setConn_same, Conn.chan, hx1]
    simp only [ne_eq, not_true_eq_false, if_false]
    have : (c.setChan ch { x with sub := rest, borrow := x.borrow + 1 }).cap = c.cap ∧
        (c.setChan ch { x with sub := rest, borrow := x.borrow + 1 }).maxBorrow = c.maxBorrow := ⟨rfl, rfl⟩
    rw [this.1, this.2, if_pos hroom]
  rw [hrel]
  refine ⟨_, _, getConn_setConn_same _ _ _ _, getElem?_set_self' _ _ _ _ hx1, ?_, rfl, rfl⟩
  simp

theorem sendResponse_out (w : World) (s : Nat) (A : Active) (chunk tag : Nat) :
    (sendResponse w s A chunk tag).2 = "ok" ∨ (sendResponse w s A chunk tag).2 = "PANIC" := by
  unfold sendResponse
  simp only []
  split
  · exact Or.inr rfl
  · exact Or.inl rfl

theorem map_loans_roundtrip (l : List Active) (a : Nat) :
    ((l.map fun x => if x.label = a then { x with loans := x.loans + 1 } else x).map
      fun x => if x.label = a then { x with loans := x.loans - 1 } else x) = l := by
  rw [List.map_map]
  conv => rhs; rw [← List.map_id l]
  apply List.map_congr_left
  intro x _
  simp only [Function.comp, id]
  by_cases h : x.label = a
  · subst h; cases x; simp
  · simp [h]

/-- (repaired code, 1fb407e) `ActiveRequest::loan_chunk` that fails - `ExceedsMaxLoans` or `OutOfMemory` - leaves
the active requests of the server, in particular every loan counter, exactly as they were -/
theorem activeLoan_failed (w : World) (s a lpr : Nat) (A : Active) (V : Server) (hV : getSv w s = some V)
    (hout : (activeLoan w s a lpr A).2.2 = "err:loan:OutOfMemory" ∨ (activeLoan w s a lpr A).2.2 = "err:loan:ExceedsMaxLoans") :
    ∃ V', getSv (activeLoan w s a lpr A).1 s = some V' ∧ V'.actives = V.actives := by
  unfold activeLoan at hout ⊢
  split at hout
  · next hlim => rw [if_pos hlim]; exact ⟨V, hV, rfl⟩
  · next hlim =>
    rw [if_neg hlim]
    simp only [] at hout ⊢
    obtain ⟨V1, hV1, hact1⟩ := getSv_updActive_actives w s a (fun x => { x with loans := x.loans + 1 }) V hV
    have k2 := (retrieveReturned_hk (updActive w s a fun x => { x with loans := x.loans + 1 }) (sid s)).1
    have hV2 : getSv (retrieveReturned (updActive w s a fun x => { x with loans := x.loans + 1 }) (sid s)) s = some V1 := by
      rw [k2.getSv_eq]; exact hV1
    generalize retrieveReturned (updActive w s a fun x => { x with loans := x.loans + 1 }) (sid s) = w2 at hout hV2 ⊢
    have hback : ∃ V', getSv (updActive w2 s a fun x => { x with loans := x.loans - 1 }) s = some V' ∧ V'.actives = V.actives := by
      obtain ⟨V3, hV3, hact3⟩ := getSv_updActive_actives w2 s a (fun x => { x with loans := x.loans - 1 }) V1 hV2
      exact ⟨V3, hV3, by rw [hact3, hact1]; exact map_loans_roundtrip _ _⟩
    split at hout
    · rcases hout with h | h <;> simp at h
    · split at hout
      · exact hback
      · exact hback
      · rcases hout with h | h <;> simp at h
      · rcases hout with h | h <;> simp at h

/-- (repaired code, 1fb407e) a loan of a response that fails - `ExceedsMaxLoans` or `OutOfMemory` - leaves
the active requests of the server, in particular every loan counter, exactly as they were -/
theorem opRespond_failed_loan (w : World) (s a tag : Nat) (V : Server) (hV : getSv w s = some V)
    (hout : (opRespond w s a tag).2 = "err:loan:OutOfMemory" ∨ (opRespond w s a tag).2 = "err:loan:ExceedsMaxLoans") :
    ∃ V', getSv (opRespond w s a tag).1 s = some V' ∧ V'.actives = V.actives := by
  unfold opRespond at hout ⊢
  rw [hV] at hout ⊢
  simp only [] at hout ⊢
  split at hout
  · rcases hout with h | h <;> simp at h
  · next A hfind =>
    have hf := activeLoan_failed w s a V.loanPerReq A V hV
    split at hout
    · next w1 out heq =>
      rw [heq] at hf
      simp only [heq]
      exact hf hout
    · next w1 chunk _ heq =>
      rcases sendResponse_out w1 s A chunk tag with h0 | h0 <;> (rw [h0] at hout; rcases hout with h | h <;> simp at h)

/-- the same for a response that is loaned to be sent later (`rloan`) -/
theorem opRLoan_failed_loan (w : World) (s a l : Nat) (V : Server) (hV : getSv w s = some V)
    (hout : (opRLoan w s a l).2 = "err:loan:OutOfMemory" ∨ (opRLoan w s a l).2 = "err:loan:ExceedsMaxLoans") :
    ∃ V', getSv (opRLoan w s a l).1 s = some V' ∧ V'.actives = V.actives := by
  unfold opRLoan at hout ⊢
  rw [hV] at hout ⊢
  simp only [] at hout ⊢
  split at hout
  · rcases hout with h | h <;> simp at h
  · next A hfind =>
    split at hout
    · rcases hout with h | h <;> simp at h
    · next hdup =>
      rw [if_neg hdup]
      have hf := activeLoan_failed w s a V.loanPerReq A V hV
      split at hout
      · next w1 out heq =>
        rw [heq] at hf
        simp only [heq]
        exact hf hout
      · next w1 chunk _ heq =>
        split at hout <;> (rcases hout with h | h <;> simp at h)

end Iox2.ReqRes
