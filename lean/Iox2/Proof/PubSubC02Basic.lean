/-
C02 — accessor lemmas (`getP`/`getS`/`getC` over `setP`/`setS`/`setC`, connection add/delete)
and small list lemmas.
-/
import Iox2.Proof.PubSubC02Defs

namespace Iox2.PubSub.C02P
open Iox2.PubSub

/-! ### world updates with names -/

def addC (w : World) (x : Conn) : World := { w with conns := w.conns ++ [x] }
def delC (w : World) (p s : Nat) : World :=
  { w with conns := w.conns.filter fun c => ¬ (c.pid = p ∧ c.sid = s) }

theorem detachSender_eq (w : World) (p s : Nat) :
    detachSender w p s = match getC w p s with
      | none => w
      | some c => if c.rAtt then setC w { c with sAtt := false } else delC w p s := rfl

theorem detachReceiver_eq (w : World) (p s : Nat) :
    detachReceiver w p s = match getC w p s with
      | none => w
      | some c => if c.sAtt then setC w { c with rAtt := false } else delC w p s := rfl

/-! ### fields -/

@[simp] theorem setP_cfg (w : World) (p x) : (setP w p x).cfg = w.cfg := rfl
@[simp] theorem setP_pubReg (w : World) (p x) : (setP w p x).pubReg = w.pubReg := rfl
@[simp] theorem setP_subReg (w : World) (p x) : (setP w p x).subReg = w.subReg := rfl
@[simp] theorem setP_subs (w : World) (p x) : (setP w p x).subs = w.subs := rfl
@[simp] theorem setP_conns (w : World) (p x) : (setP w p x).conns = w.conns := rfl
@[simp] theorem setP_panicked (w : World) (p x) : (setP w p x).panicked = w.panicked := rfl

@[simp] theorem setS_cfg (w : World) (p x) : (setS w p x).cfg = w.cfg := rfl
@[simp] theorem setS_pubReg (w : World) (p x) : (setS w p x).pubReg = w.pubReg := rfl
@[simp] theorem setS_subReg (w : World) (p x) : (setS w p x).subReg = w.subReg := rfl
@[simp] theorem setS_pubs (w : World) (p x) : (setS w p x).pubs = w.pubs := rfl
@[simp] theorem setS_conns (w : World) (p x) : (setS w p x).conns = w.conns := rfl
@[simp] theorem setS_panicked (w : World) (p x) : (setS w p x).panicked = w.panicked := rfl

@[simp] theorem setC_cfg (w : World) (x) : (setC w x).cfg = w.cfg := rfl
@[simp] theorem setC_pubReg (w : World) (x) : (setC w x).pubReg = w.pubReg := rfl
@[simp] theorem setC_subReg (w : World) (x) : (setC w x).subReg = w.subReg := rfl
@[simp] theorem setC_pubs (w : World) (x) : (setC w x).pubs = w.pubs := rfl
@[simp] theorem setC_subs (w : World) (x) : (setC w x).subs = w.subs := rfl
@[simp] theorem setC_panicked (w : World) (x) : (setC w x).panicked = w.panicked := rfl

@[simp] theorem addC_cfg (w : World) (x) : (addC w x).cfg = w.cfg := rfl
@[simp] theorem addC_pubReg (w : World) (x) : (addC w x).pubReg = w.pubReg := rfl
@[simp] theorem addC_subReg (w : World) (x) : (addC w x).subReg = w.subReg := rfl
@[simp] theorem addC_pubs (w : World) (x) : (addC w x).pubs = w.pubs := rfl
@[simp] theorem addC_subs (w : World) (x) : (addC w x).subs = w.subs := rfl
@[simp] theorem addC_panicked (w : World) (x) : (addC w x).panicked = w.panicked := rfl
@[simp] theorem addC_conns (w : World) (x) : (addC w x).conns = w.conns ++ [x] := rfl

@[simp] theorem delC_cfg (w : World) (p s) : (delC w p s).cfg = w.cfg := rfl
@[simp] theorem delC_pubReg (w : World) (p s) : (delC w p s).pubReg = w.pubReg := rfl
@[simp] theorem delC_subReg (w : World) (p s) : (delC w p s).subReg = w.subReg := rfl
@[simp] theorem delC_pubs (w : World) (p s) : (delC w p s).pubs = w.pubs := rfl
@[simp] theorem delC_subs (w : World) (p s) : (delC w p s).subs = w.subs := rfl
@[simp] theorem delC_panicked (w : World) (p s) : (delC w p s).panicked = w.panicked := rfl

/-! ### association lists -/

theorem assoc_find_upd {α : Type} (l : List (Nat × α)) (p q : Nat) (x : α) :
    ((l.map fun e => if e.1 = p then (p, x) else e).find? (·.1 = q)).map (·.2) =
      if q = p then ((l.find? (·.1 = p)).map (·.2)).map (fun _ => x)
      else (l.find? (·.1 = q)).map (·.2) := by
  induction l with
  | nil => simp
  | cons a l ih =>
    simp only [List.map_cons, List.find?_cons]
    by_cases hap : a.1 = p
    · by_cases hq : q = p
      · subst hq; simp only [hap, if_true, decide_true, Option.map_some]
      · have h1 : ¬ p = q := fun h => hq h.symm
        have h2 : ¬ a.1 = q := fun h => hq (h.symm.trans hap)
        simp only [hap, if_true, h1, decide_false, h2, hq, if_false] at ih ⊢
        exact ih
    · by_cases hq : q = p
      · subst hq
        simp only [hap, if_false, decide_false, if_true] at ih ⊢
        exact ih
      · by_cases haq : a.1 = q
        · simp only [hap, if_false, haq, decide_true, Option.map_some, hq]
        · simp only [hap, if_false, haq, decide_false, hq] at ih ⊢
          exact ih

@[simp] theorem getP_setP (w : World) (p q : Nat) (x : Pub) :
    getP (setP w p x) q = if q = p then (getP w p).map (fun _ => x) else getP w q := by
  unfold getP setP
  exact assoc_find_upd w.pubs p q x

@[simp] theorem getS_setS (w : World) (s q : Nat) (x : Sub) :
    getS (setS w s x) q = if q = s then (getS w s).map (fun _ => x) else getS w q := by
  unfold getS setS
  exact assoc_find_upd w.subs s q x

@[simp] theorem getP_setS (w : World) (s q : Nat) (x : Sub) : getP (setS w s x) q = getP w q := rfl
@[simp] theorem getP_setC (w : World) (q : Nat) (x : Conn) : getP (setC w x) q = getP w q := rfl
@[simp] theorem getP_addC (w : World) (q : Nat) (x : Conn) : getP (addC w x) q = getP w q := rfl
@[simp] theorem getP_delC (w : World) (q p s : Nat) : getP (delC w p s) q = getP w q := rfl
@[simp] theorem getS_setP (w : World) (p q : Nat) (x : Pub) : getS (setP w p x) q = getS w q := rfl
@[simp] theorem getS_setC (w : World) (q : Nat) (x : Conn) : getS (setC w x) q = getS w q := rfl
@[simp] theorem getS_addC (w : World) (q : Nat) (x : Conn) : getS (addC w x) q = getS w q := rfl
@[simp] theorem getS_delC (w : World) (q p s : Nat) : getS (delC w p s) q = getS w q := rfl
@[simp] theorem getC_setP (w : World) (p a b : Nat) (x : Pub) : getC (setP w p x) a b = getC w a b := rfl
@[simp] theorem getC_setS (w : World) (p a b : Nat) (x : Sub) : getC (setS w p x) a b = getC w a b := rfl

theorem getP_setP_self {w : World} {p : Nat} {P x : Pub} (h : getP w p = some P) :
    getP (setP w p x) p = some x := by simp [h]
theorem getS_setS_self {w : World} {s : Nat} {S x : Sub} (h : getS w s = some S) :
    getS (setS w s x) s = some x := by simp [h]

/-! ### connections -/

theorem getC_some {w : World} {p s : Nat} {cn : Conn} (h : getC w p s = some cn) :
    cn.pid = p ∧ cn.sid = s ∧ cn ∈ w.conns := by
  unfold getC at h
  have h1 := List.find?_some h
  have h2 := List.mem_of_find?_eq_some h
  simp at h1
  exact ⟨h1.1, h1.2, h2⟩

theorem getC_of_mem {w : World}
    (hn : w.conns.Pairwise fun a b => ¬ (a.pid = b.pid ∧ a.sid = b.sid))
    {cn : Conn} (h : cn ∈ w.conns) : getC w cn.pid cn.sid = some cn := by
  unfold getC
  generalize w.conns = l at hn h
  induction l with
  | nil => simp at h
  | cons a l ih =>
    rw [List.pairwise_cons] at hn
    simp only [List.find?_cons]
    rcases List.mem_cons.mp h with rfl | h'
    · simp
    · have := hn.1 cn h'
      have h3 : ¬ (a.pid = cn.pid ∧ a.sid = cn.sid) := this
      simp only [h3, decide_false]
      exact ih hn.2 h'

theorem getC_setC (w : World) (x : Conn) (p s : Nat) :
    getC (setC w x) p s =
      if p = x.pid ∧ s = x.sid then (getC w p s).map (fun _ => x) else getC w p s := by
  unfold getC setC
  simp only
  generalize w.conns = l
  induction l with
  | nil => simp
  | cons a l ih =>
    simp only [List.map_cons, List.find?_cons]
    by_cases ha : a.pid = x.pid ∧ a.sid = x.sid
    · by_cases hq : p = x.pid ∧ s = x.sid
      · simp [ha, hq]
      · have h2 : ¬ (a.pid = p ∧ a.sid = s) := by
          intro h; apply hq; exact ⟨h.1.symm.trans ha.1, h.2.symm.trans ha.2⟩
        have h3 : ¬ (x.pid = p ∧ x.sid = s) := by
          intro h; apply hq; exact ⟨h.1.symm, h.2.symm⟩
        simp only [ha, and_self, if_true, h3, decide_false, h2, hq, if_false] at ih ⊢
        exact ih
    · by_cases hq : p = x.pid ∧ s = x.sid
      · have h2 : ¬ (a.pid = p ∧ a.sid = s) := by
          intro h; apply ha; exact ⟨h.1.trans hq.1, h.2.trans hq.2⟩
        simp only [ha, if_false, h2, decide_false, hq, and_self, if_true] at ih ⊢
        exact ih
      · by_cases haq : a.pid = p ∧ a.sid = s
        · simp [ha, haq, hq]
        · simp only [ha, if_false, haq, decide_false, hq] at ih ⊢
          exact ih

theorem getC_addC (w : World) (x : Conn) (p s : Nat) :
    getC (addC w x) p s =
      (getC w p s).or (if x.pid = p ∧ x.sid = s then some x else none) := by
  unfold getC addC
  simp only [List.find?_append, List.find?_cons, List.find?_nil]
  congr 1
  by_cases h : x.pid = p ∧ x.sid = s <;> simp [h]

theorem getC_delC (w : World) (p s a b : Nat) :
    getC (delC w p s) a b = if a = p ∧ b = s then none else getC w a b := by
  unfold getC delC
  simp only [List.find?_filter]
  by_cases h : a = p ∧ b = s
  · simp only [h, and_self, if_true]
    rw [List.find?_eq_none]
    intro x _
    obtain ⟨rfl, rfl⟩ := h
    by_cases hx : x.pid = a ∧ x.sid = b <;> simp [hx]
  · simp only [h, if_false]
    congr 1
    funext c
    by_cases hc : c.pid = a ∧ c.sid = b
    · have : ¬ (c.pid = p ∧ c.sid = s) := by
        intro h'; apply h; exact ⟨hc.1.symm.trans h'.1, hc.2.symm.trans h'.2⟩
      simp [hc]
      by_cases hap : a = p
      · right; intro hbs; exact h ⟨hap, hbs⟩
      · left; exact hap
    · simp [hc]

theorem nodup_setC {w : World} (x : Conn)
    (hn : w.conns.Pairwise fun a b => ¬ (a.pid = b.pid ∧ a.sid = b.sid)) :
    (setC w x).conns.Pairwise fun a b => ¬ (a.pid = b.pid ∧ a.sid = b.sid) := by
  unfold setC
  simp only
  rw [List.pairwise_map]
  refine hn.imp ?_
  intro a b hab
  by_cases ha : a.pid = x.pid ∧ a.sid = x.sid <;> by_cases hb : b.pid = x.pid ∧ b.sid = x.sid
  · exact absurd ⟨ha.1.trans hb.1.symm, ha.2.trans hb.2.symm⟩ hab
  · simp only [ha, and_self, if_true, hb, if_false]
    intro h; exact hb ⟨h.1.symm, h.2.symm⟩
  · simp only [ha, if_false, hb, and_self, if_true]
    exact not_false
  · simp only [ha, hb, if_false]; exact hab

theorem nodup_delC {w : World} (p s : Nat)
    (hn : w.conns.Pairwise fun a b => ¬ (a.pid = b.pid ∧ a.sid = b.sid)) :
    (delC w p s).conns.Pairwise fun a b => ¬ (a.pid = b.pid ∧ a.sid = b.sid) :=
  hn.filter _

theorem nodup_addC {w : World} (x : Conn)
    (hn : w.conns.Pairwise fun a b => ¬ (a.pid = b.pid ∧ a.sid = b.sid))
    (hx : getC w x.pid x.sid = none) :
    (addC w x).conns.Pairwise fun a b => ¬ (a.pid = b.pid ∧ a.sid = b.sid) := by
  simp only [addC_conns, List.pairwise_append, List.pairwise_cons, List.not_mem_nil,
    false_imp_iff, implies_true, List.Pairwise.nil, and_self, true_and, List.mem_singleton]
  refine ⟨hn, ?_⟩
  intro a ha b hb
  subst hb
  unfold getC at hx
  rw [List.find?_eq_none] at hx
  simpa using hx a ha

end Iox2.PubSub.C02P
