/-
Frame lemmas for the housekeeping functions of the request-response model (`sender.rs` /
`receiver.rs` transcriptions): they leave registries, client and server records alone, touch only
the `Snd` / `Rcv` record of the acting port, and change the connections only by
* removing a connection, * adding a fresh (empty, initial state) connection,
* taking elements from the front of submission queues (everything else they change - used lists,
  completion queues, borrow counters, attach flags - is not visible to the C11 theorems).
-/
import Iox2.Proof.ReqResBasic
namespace Iox2.ReqRes

/-- initial channel state of a connection by the kind of its sender: response connections
(sender = server) start closed, request connections open -/
def initState (f : Pid) : ChState := if f.srv then .closed else .id 0 false

def ChanLe (x' x : Chan) : Prop := x'.state = x.state ∧ x'.sub <:+ x.sub

def ConnLe (c' c : Conn) : Prop :=
  (∀ (j : Nat) (x' : Chan), c'.chans[j]? = some x' → ∃ x, c.chans[j]? = some x ∧ ChanLe x' x) ∧
  c'.cap = c.cap ∧ c'.overflow = c.overflow

def Fresh (f : Pid) (c : Conn) : Prop :=
  ∀ (j : Nat) (x : Chan), c.chans[j]? = some x → x.sub = [] ∧ x.state = initState f

def ConnsLe (w w' : World) : Prop :=
  ∀ f t c', getConn w' f t = some c' → (∃ c, getConn w f t = some c ∧ ConnLe c' c) ∨ Fresh f c'

theorem ChanLe.refl (x : Chan) : ChanLe x x := ⟨rfl, List.suffix_refl _⟩
theorem ChanLe.trans {a b c : Chan} (h1 : ChanLe a b) (h2 : ChanLe b c) : ChanLe a c :=
  ⟨h1.1.trans h2.1, h1.2.trans h2.2⟩

theorem ConnLe.refl (c : Conn) : ConnLe c c := ⟨fun _ x' h => ⟨x', h, ChanLe.refl _⟩, rfl, rfl⟩
theorem ConnLe.trans {a b c : Conn} (h1 : ConnLe a b) (h2 : ConnLe b c) : ConnLe a c := by
  refine ⟨?_, h1.2.1.trans h2.2.1, h1.2.2.trans h2.2.2⟩
  intro j x' h
  obtain ⟨y, hy, l1⟩ := h1.1 j x' h
  obtain ⟨z, hz, l2⟩ := h2.1 j y hy
  exact ⟨z, hz, l1.trans l2⟩

theorem Fresh.le {f : Pid} {c' c : Conn} (h : ConnLe c' c) (hf : Fresh f c) : Fresh f c' := by
  intro j x' hx
  obtain ⟨x, hx2, l⟩ := h.1 j x' hx
  obtain ⟨e, s⟩ := hf j x hx2
  refine ⟨?_, l.1.trans s⟩
  have := l.2; rw [e] at this
  exact List.suffix_nil.mp this

theorem ConnsLe.refl (w : World) : ConnsLe w w := fun _ _ c' h => Or.inl ⟨c', h, ConnLe.refl _⟩
theorem ConnsLe.trans {a b c : World} (h1 : ConnsLe a b) (h2 : ConnsLe b c) : ConnsLe a c := by
  intro f t c' h
  rcases h2 f t c' h with ⟨y, hy, l2⟩ | fr
  · rcases h1 f t y hy with ⟨z, hz, l1⟩ | fr
    · exact Or.inl ⟨z, hz, l2.trans l1⟩
    · exact Or.inr (fr.le l2)
  · exact Or.inr fr

/-- same connections (as far as `getConn` sees) -/
theorem ConnsLe.of_eq {w w' : World} (h : ∀ f t, getConn w' f t = getConn w f t) : ConnsLe w w' := by
  intro f t c' hc; rw [h] at hc; exact Or.inl ⟨c', hc, ConnLe.refl _⟩

/-- housekeeping by port `me`: see the file header -/
structure Hk (me : Pid) (w w' : World) : Prop where
  cfg : w'.cfg = w.cfg
  clientReg : w'.clientReg = w.clientReg
  serverReg : w'.serverReg = w.serverReg
  clients : w'.clients = w.clients
  servers : w'.servers = w.servers
  snds : ∀ p, p ≠ me → getSnd w' p = getSnd w p
  rcvs : ∀ p, p ≠ me → getRcv w' p = getRcv w p
  sndInit : (getSnd w' me).map (·.init) = (getSnd w me).map (·.init)
  rcvInit : (getRcv w' me).map (·.init) = (getRcv w me).map (·.init)
  conns : ConnsLe w w'

theorem Hk.refl (me : Pid) (w : World) : Hk me w w :=
  ⟨rfl, rfl, rfl, rfl, rfl, fun _ _ => rfl, fun _ _ => rfl, rfl, rfl, ConnsLe.refl w⟩

theorem Hk.trans {me : Pid} {a b c : World} (h1 : Hk me a b) (h2 : Hk me b c) : Hk me a c :=
  ⟨h2.cfg.trans h1.cfg, h2.clientReg.trans h1.clientReg, h2.serverReg.trans h1.serverReg,
   h2.clients.trans h1.clients, h2.servers.trans h1.servers,
   fun p hp => (h2.snds p hp).trans (h1.snds p hp), fun p hp => (h2.rcvs p hp).trans (h1.rcvs p hp),
   h2.sndInit.trans h1.sndInit, h2.rcvInit.trans h1.rcvInit, h1.conns.trans h2.conns⟩

theorem Hk.getCl_eq {me : Pid} {w w' : World} (h : Hk me w w') (c : Nat) : getCl w' c = getCl w c := by
  unfold ReqRes.getCl; rw [h.clients]
theorem Hk.getSv_eq {me : Pid} {w w' : World} (h : Hk me w w') (s : Nat) : getSv w' s = getSv w s := by
  unfold ReqRes.getSv; rw [h.servers]

/-! ### building blocks -/

/-- replacing a connection by one that `ConnLe`s it -/
theorem ConnsLe.setConn_le {w : World} {f t : Pid} {c c' : Conn} (h : getConn w f t = some c)
    (hl : ConnLe c' c) : ConnsLe w (setConn w f t c') := by
  intro f' t' x hx
  rw [getConn_setConn] at hx
  split at hx
  · next heq =>
    obtain ⟨rfl, rfl⟩ := heq
    cases hx
    exact Or.inl ⟨c, h, hl⟩
  · exact Or.inl ⟨x, hx, ConnLe.refl _⟩

theorem ConnsLe.setConn_fresh {w : World} {f t : Pid} {c' : Conn} (hf : Fresh f c') :
    ConnsLe w (setConn w f t c') := by
  intro f' t' x hx
  rw [getConn_setConn] at hx
  split at hx
  · next heq =>
    obtain ⟨rfl, rfl⟩ := heq
    cases hx
    exact Or.inr hf
  · exact Or.inl ⟨x, hx, ConnLe.refl _⟩

theorem ConnsLe.delConn (w : World) (f t : Pid) : ConnsLe w (delConn w f t) := by
  intro f' t' x hx
  rw [getConn_delConn] at hx
  split at hx
  · cases hx
  · exact Or.inl ⟨x, hx, ConnLe.refl _⟩

/-- a connection whose channels keep `state` and `sub` -/
theorem ConnLe.of_chans {c' c : Conn}
    (h : ∀ (j : Nat) (x' : Chan), c'.chans[j]? = some x' → ∃ x, c.chans[j]? = some x ∧ x'.state = x.state ∧ x'.sub = x.sub)
    (h1 : c'.cap = c.cap := by rfl) (h2 : c'.overflow = c.overflow := by rfl) :
    ConnLe c' c := by
  refine ⟨?_, h1, h2⟩
  intro j x' hx
  obtain ⟨x, hx2, hs, hq⟩ := h j x' hx
  exact ⟨x, hx2, hs, hq ▸ List.suffix_refl _⟩

theorem ConnLe.with_flags (c : Conn) (s r : Bool) : ConnLe { c with sAtt := s, rAtt := r } c :=
  ConnLe.refl c

/-- core-only change helper: a world that differs from `w` only in `conns` -/
theorem Hk.of_conns {me : Pid} {w w' : World} (h1 : w'.cfg = w.cfg) (h2 : w'.clientReg = w.clientReg)
    (h3 : w'.serverReg = w.serverReg) (h4 : w'.clients = w.clients) (h5 : w'.servers = w.servers)
    (h6 : w'.snds = w.snds) (h7 : w'.rcvs = w.rcvs) (hc : ConnsLe w w') : Hk me w w' :=
  ⟨h1, h2, h3, h4, h5, fun p _ => by unfold getSnd; rw [h6], fun p _ => by unfold getRcv; rw [h7],
   by unfold getSnd; rw [h6], by unfold getRcv; rw [h7], hc⟩

theorem Hk.setConn_le {me : Pid} {w : World} {f t : Pid} {c c' : Conn} (h : getConn w f t = some c)
    (hl : ConnLe c' c) : Hk me w (setConn w f t c') :=
  Hk.of_conns rfl rfl rfl rfl rfl rfl rfl (ConnsLe.setConn_le h hl)

theorem Hk.setConn_fresh {me : Pid} {w : World} {f t : Pid} {c' : Conn} (hf : Fresh f c') :
    Hk me w (setConn w f t c') :=
  Hk.of_conns rfl rfl rfl rfl rfl rfl rfl (ConnsLe.setConn_fresh hf)

theorem Hk.delConn {me : Pid} (w : World) (f t : Pid) : Hk me w (delConn w f t) :=
  Hk.of_conns rfl rfl rfl rfl rfl rfl rfl (ConnsLe.delConn w f t)

/-- replacing the acting port's `Snd` record keeping `init` -/
theorem Hk.setSnd {me : Pid} {w : World} {S S' : Snd} (h : getSnd w me = some S) (hi : S'.init = S.init) :
    Hk me w (setSnd w me S') :=
  ⟨rfl, rfl, rfl, rfl, rfl, fun p hp => by simp [hp], fun _ _ => rfl, by simp [h, hi], rfl,
   ConnsLe.of_eq fun _ _ => rfl⟩

theorem Hk.setRcv {me : Pid} {w : World} {R R' : Rcv} (h : getRcv w me = some R) (hi : R'.init = R.init) :
    Hk me w (setRcv w me R') :=
  ⟨rfl, rfl, rfl, rfl, rfl, fun _ _ => rfl, fun p hp => by simp [hp], rfl, by simp [h, hi],
   ConnsLe.of_eq fun _ _ => rfl⟩

theorem Hk.setRcv_then {me : Pid} {w w2 : World} {R R' : Rcv} (h : getRcv w me = some R) (hi : R'.init = R.init)
    (h2 : Hk me (ReqRes.setRcv w me R') w2) : Hk me w w2 := (Hk.setRcv h hi).trans h2

theorem Hk.setSnd_then {me : Pid} {w w2 : World} {S S' : Snd} (h : getSnd w me = some S) (hi : S'.init = S.init)
    (h2 : Hk me (ReqRes.setSnd w me S') w2) : Hk me w w2 := (Hk.setSnd h hi).trans h2

theorem Hk.detachSender {me : Pid} (w : World) (f t : Pid) : Hk me w (detachSender w f t) := by
  unfold ReqRes.detachSender
  split
  · exact Hk.refl _ _
  · next c hc =>
    split
    · exact Hk.setConn_le hc (ConnLe.refl _)
    · exact Hk.delConn _ _ _

theorem Hk.detachReceiver {me : Pid} (w : World) (f t : Pid) : Hk me w (detachReceiver w f t) := by
  unfold ReqRes.detachReceiver
  split
  · exact Hk.refl _ _
  · next c hc =>
    split
    · exact Hk.setConn_le hc (ConnLe.refl _)
    · exact Hk.delConn _ _ _

/-! ### sender side -/

/-- the acting port's connection slots are unchanged -/
def SlotsSame (me : Pid) (w w' : World) : Prop := (getSnd w' me).map (·.conns) = (getSnd w me).map (·.conns)

theorem SlotsSame.refl (me : Pid) (w : World) : SlotsSame me w w := rfl
theorem SlotsSame.trans {me : Pid} {a b c : World} (h1 : SlotsSame me a b) (h2 : SlotsSame me b c) :
    SlotsSame me a c := Eq.trans h2 h1

@[simp] theorem releaseChunk_init (S : Snd) (c : Nat) : (S.releaseChunk c).init = S.init := by
  unfold Snd.releaseChunk; simp only; split <;> rfl
@[simp] theorem releaseChunk_conns (S : Snd) (c : Nat) : (S.releaseChunk c).conns = S.conns := by
  unfold Snd.releaseChunk; simp only; split <;> rfl
@[simp] theorem borrowChunk_init (S : Snd) (c : Nat) : (S.borrowChunk c).init = S.init := rfl
@[simp] theorem borrowChunk_conns (S : Snd) (c : Nat) : (S.borrowChunk c).conns = S.conns := rfl
@[simp] theorem returnLoan_init (S : Snd) (c : Nat) : (S.returnLoan c).init = S.init := by
  unfold Snd.returnLoan; simp
@[simp] theorem returnLoan_conns (S : Snd) (c : Nat) : (S.returnLoan c).conns = S.conns := by
  unfold Snd.returnLoan; simp

theorem drainComp_key (S : Snd) (used : List Bool) (comp : List Nat) :
    (drainComp S used comp).1.init = S.init ∧ (drainComp S used comp).1.conns = S.conns := by
  induction comp generalizing S used with
  | nil => exact ⟨rfl, rfl⟩
  | cons c r ih =>
    unfold drainComp
    split
    · have := ih (S.releaseChunk c) (used.set c false)
      simpa using this
    · exact ih S used

theorem drainChans_key (S : Snd) (l : List Chan) :
    (drainChans S l).1.init = S.init ∧ (drainChans S l).1.conns = S.conns := by
  induction l generalizing S with
  | nil => exact ⟨rfl, rfl⟩
  | cons c r ih =>
    simp only [drainChans]
    have h1 := drainComp_key S c.used c.comp
    have h2 := ih (drainComp S c.used c.comp).1
    exact ⟨h2.1.trans h1.1, h2.2.trans h1.2⟩

theorem drainChans_chans (S : Snd) (l : List Chan) (j : Nat) (x' : Chan)
    (h : (drainChans S l).2[j]? = some x') :
    ∃ x, l[j]? = some x ∧ x'.state = x.state ∧ x'.sub = x.sub := by
  induction l generalizing S j with
  | nil => simp [drainChans] at h
  | cons c r ih =>
    simp only [drainChans] at h
    cases j with
    | zero =>
      simp only [List.getElem?_cons_zero, Option.some.injEq] at h
      exact ⟨c, by simp, by rw [← h], by rw [← h]⟩
    | succ j =>
      simp only [List.getElem?_cons_succ] at h
      obtain ⟨x, hx, h1, h2⟩ := ih _ j h
      exact ⟨x, by simpa using hx, h1, h2⟩

theorem retrieveFrom_hk (w : World) (p : Pid) (l : List (Option Pid)) :
    Hk p w (retrieveFrom w p l) ∧ SlotsSame p w (retrieveFrom w p l) := by
  induction l generalizing w with
  | nil => exact ⟨Hk.refl _ _, rfl⟩
  | cons a r ih =>
    cases a with
    | none => simpa [retrieveFrom] using ih w
    | some t =>
      simp only [retrieveFrom]
      split
      · next S c hS hc =>
        have hk := drainChans_key S c.chans
        have h1 : Hk p w (setSnd w p (drainChans S c.chans).1) := Hk.setSnd hS hk.1
        have hc' : getConn (setSnd w p (drainChans S c.chans).1) p t = some c := by simpa using hc
        have h2 := Hk.setConn_le (me := p) (c' := { c with chans := (drainChans S c.chans).2 }) hc'
          (ConnLe.of_chans fun j x' hx => drainChans_chans S c.chans j x' hx)
        obtain ⟨h3, h4⟩ := ih (setConn (setSnd w p (drainChans S c.chans).1) p t { c with chans := (drainChans S c.chans).2 })
        refine ⟨(h1.trans h2).trans h3, ?_⟩
        have : SlotsSame p w (setConn (setSnd w p (drainChans S c.chans).1) p t { c with chans := (drainChans S c.chans).2 }) := by
          simp [SlotsSame, hS, hk.2]
        exact this.trans h4
      · exact ih w

theorem retrieveReturned_hk (w : World) (p : Pid) :
    Hk p w (retrieveReturned w p) ∧ SlotsSame p w (retrieveReturned w p) := by
  unfold retrieveReturned
  split
  · exact ⟨Hk.refl _ _, rfl⟩
  · exact retrieveFrom_hk _ _ _

/-- the acting port's connection slots after the step either hold what they held before or a value
allowed by `P` -/
def SlotsFrom (me : Pid) (P : Nat → Pid → Prop) (w w' : World) : Prop :=
  ∀ S', getSnd w' me = some S' → ∃ S, getSnd w me = some S ∧
    ∀ i t, S'.conns.getD i none = some t → S.conns.getD i none = some t ∨ P i t

theorem SlotsFrom.refl (me : Pid) (P : Nat → Pid → Prop) (w : World) : SlotsFrom me P w w :=
  fun S' h => ⟨S', h, fun _ _ h => Or.inl h⟩

theorem SlotsFrom.trans {me : Pid} {P : Nat → Pid → Prop} {a b c : World} (h1 : SlotsFrom me P a b)
    (h2 : SlotsFrom me P b c) : SlotsFrom me P a c := by
  intro S' hS'
  obtain ⟨S1, hS1, k1⟩ := h2 S' hS'
  obtain ⟨S0, hS0, k0⟩ := h1 S1 hS1
  refine ⟨S0, hS0, fun i t ht => ?_⟩
  rcases k1 i t ht with h | h
  · exact k0 i t h
  · exact Or.inr h

theorem SlotsFrom.mono {me : Pid} {P Q : Nat → Pid → Prop} {a b : World} (h : SlotsFrom me P a b)
    (hpq : ∀ i t, P i t → Q i t) : SlotsFrom me Q a b := by
  intro S' hS'
  obtain ⟨S, hS, k⟩ := h S' hS'
  exact ⟨S, hS, fun i t ht => (k i t ht).imp id (hpq i t)⟩

theorem SlotsSame.from {me : Pid} {w w' : World} (h : SlotsSame me w w') (P : Nat → Pid → Prop) :
    SlotsFrom me P w w' := by
  intro S' hS'
  unfold SlotsSame at h
  rw [hS'] at h
  cases hS : getSnd w me with
  | none => rw [hS] at h; cases h
  | some S =>
    rw [hS] at h
    simp only [Option.map_some, Option.some.injEq] at h
    exact ⟨S, rfl, fun i t ht => Or.inl (h ▸ ht)⟩

/-- a step by another port does not touch `me`'s slots -/
theorem Hk.slotsSame_of_ne {me p : Pid} {w w' : World} (h : Hk p w w') (hne : me ≠ p) : SlotsSame me w w' := by
  unfold SlotsSame; rw [h.snds me hne]

theorem releaseAllUsed_key (S : Snd) (used : List Bool) (k : Nat) :
    (releaseAllUsed S used k).init = S.init ∧ (releaseAllUsed S used k).conns = S.conns := by
  induction k with
  | zero => exact ⟨rfl, rfl⟩
  | succ k ih =>
    simp only [releaseAllUsed]
    split
    · simpa using ih
    · exact ih

theorem releaseChans_key (S : Snd) (l : List Chan) :
    (releaseChans S l).init = S.init ∧ (releaseChans S l).conns = S.conns := by
  induction l generalizing S with
  | nil => exact ⟨rfl, rfl⟩
  | cons c r ih =>
    simp only [releaseChans]
    have h1 := releaseAllUsed_key S c.used c.used.length
    have h2 := ih (releaseAllUsed S c.used c.used.length)
    exact ⟨h2.1.trans h1.1, h2.2.trans h1.2⟩

theorem getD_set_some {α : Type} (l : List (Option α)) (i j : Nat) (v : Option α) (t : α)
    (h : (l.set i v).getD j none = some t) : (l.getD j none = some t ∧ j ≠ i) ∨ (j = i ∧ v = some t) := by
  rw [List.getD_eq_getElem?_getD, List.getElem?_set] at h
  by_cases hij : i = j
  · subst hij
    simp only [if_true] at h
    split at h
    · right; exact ⟨rfl, by simpa using h⟩
    · simp at h
  · simp only [hij, if_false] at h
    left; exact ⟨by rw [List.getD_eq_getElem?_getD]; exact h, fun e => hij e.symm⟩

theorem sndRemoveConn_hk (w : World) (p : Pid) (slot : Nat) :
    Hk p w (sndRemoveConn w p slot) ∧ SlotsFrom p (fun _ _ => False) w (sndRemoveConn w p slot) := by
  unfold sndRemoveConn
  split
  · exact ⟨Hk.refl _ _, SlotsFrom.refl _ _ _⟩
  · next S hS =>
    split
    · exact ⟨Hk.refl _ _, SlotsFrom.refl _ _ _⟩
    · next t ht =>
      cases hc : getConn w p t with
      | none =>
        simp only []
        have h1 : Hk p w (setSnd w p { S with conns := S.conns.set slot none }) := Hk.setSnd hS rfl
        refine ⟨h1.trans (Hk.detachSender _ _ _), ?_⟩
        intro S' hS'
        have hd := (Hk.detachSender (me := sid 0) (setSnd w p { S with conns := S.conns.set slot none }) p t)
        have : getSnd (detachSender (setSnd w p { S with conns := S.conns.set slot none }) p t) p
            = some { S with conns := S.conns.set slot none } := by
          unfold getSnd; rw [show (detachSender (setSnd w p { S with conns := S.conns.set slot none }) p t).snds
            = (setSnd w p { S with conns := S.conns.set slot none }).snds from ?_]
          · simp [setSnd]
          · unfold detachSender; split
            · rfl
            · split <;> rfl
        rw [this] at hS'
        cases hS'
        refine ⟨S, hS, fun i t' ht' => ?_⟩
        rcases getD_set_some _ _ _ _ _ ht' with h | h
        · exact Or.inl h.1
        · cases h.2
      | some c =>
        simp only []
        have hk := releaseChans_key S c.chans
        have h0 : Hk p w (setConn w p t { c with chans := c.chans.map fun (x : Chan) => { x with used := x.used.map fun _ => false } }) :=
          Hk.setConn_le hc (ConnLe.of_chans fun j x' hx => by
            simp only [List.getElem?_map, Option.map_eq_some_iff] at hx
            obtain ⟨x, hx1, hx2⟩ := hx
            exact ⟨x, hx1, by rw [← hx2], by rw [← hx2]⟩)
        have h1 : Hk p _ (setSnd (setConn w p t { c with chans := c.chans.map fun (x : Chan) => { x with used := x.used.map fun _ => false } }) p
            { releaseChans S c.chans with conns := (releaseChans S c.chans).conns.set slot none }) :=
          Hk.setSnd (S := S) (by simpa using hS) hk.1
        refine ⟨(h0.trans h1).trans (Hk.detachSender _ _ _), ?_⟩
        intro S' hS'
        have : ∀ (w0 : World), (detachSender w0 p t).snds = w0.snds := by
          intro w0; unfold detachSender; split
          · rfl
          · split <;> rfl
        unfold getSnd at hS'
        rw [this] at hS'
        simp only [setSnd, AMap.get_set_same, Option.some.injEq] at hS'
        subst hS'
        refine ⟨S, hS, fun i t' ht' => ?_⟩
        simp only [hk.2] at ht'
        rcases getD_set_some _ _ _ _ _ ht' with h | h
        · exact Or.inl h.1
        · cases h.2

@[simp] theorem getSnd_detachSender (w : World) (f t p : Pid) : getSnd (detachSender w f t) p = getSnd w p := by
  unfold detachSender; split
  · rfl
  · split <;> rfl
@[simp] theorem getRcv_detachSender (w : World) (f t p : Pid) : getRcv (detachSender w f t) p = getRcv w p := by
  unfold detachSender; split
  · rfl
  · split <;> rfl
@[simp] theorem getSnd_detachReceiver (w : World) (f t p : Pid) : getSnd (detachReceiver w f t) p = getSnd w p := by
  unfold detachReceiver; split
  · rfl
  · split <;> rfl
@[simp] theorem getRcv_detachReceiver (w : World) (f t p : Pid) : getRcv (detachReceiver w f t) p = getRcv w p := by
  unfold detachReceiver; split
  · rfl
  · split <;> rfl

theorem newConn_fresh (f : Pid) (cap : Nat) (ov : Bool) (mb nChan n : Nat) (init : ChState) (h : init = initState f)
    (s r : Bool) : Fresh f { newConn cap ov mb nChan n init with sAtt := s, rAtt := r } := by
  intro j x hx
  simp only [newConn, List.getElem?_replicate] at hx
  split at hx
  · cases hx; exact ⟨rfl, h⟩
  · cases hx

/-- `Sender::create`: the static hypothesis says that the port's initial channel state is the one of
its kind -/
theorem sndCreateConn_hk (w : World) (p : Pid) (slot : Nat) (t : Pid) (cap : Nat)
    (hinit : ∀ S, getSnd w p = some S → S.init = initState p) :
    Hk p w (sndCreateConn w p slot t cap) ∧
    SlotsFrom p (fun i t' => i = slot ∧ t' = t) w (sndCreateConn w p slot t cap) := by
  unfold sndCreateConn
  split
  · exact ⟨Hk.refl _ _, SlotsFrom.refl _ _ _⟩
  · next S hS =>
    have hslots : ∀ w0 : World, getSnd w0 p = some S →
        SlotsFrom p (fun i t' => i = slot ∧ t' = t) w0 (setSnd w0 p { S with conns := S.conns.set slot (some t) }) := by
      intro w0 h0 S' hS'
      simp only [getSnd_setSnd, if_true, Option.some.injEq] at hS'
      subst hS'
      refine ⟨S, h0, fun i t' ht' => ?_⟩
      rcases getD_set_some _ _ _ _ _ ht' with h | h
      · exact Or.inl h.1
      · exact Or.inr ⟨h.1, by simpa using h.2.symm⟩
    cases hc : getConn w p t with
    | some c =>
      simp only []
      have h0 : Hk p w (setConn w p t { c with sAtt := true }) := Hk.setConn_le hc (ConnLe.refl _)
      have h1 : Hk p (setConn w p t { c with sAtt := true })
          (setSnd (setConn w p t { c with sAtt := true }) p { S with conns := S.conns.set slot (some t) }) :=
        Hk.setSnd (S := S) (by simpa using hS) rfl
      refine ⟨h0.trans h1, ?_⟩
      have := hslots (setConn w p t { c with sAtt := true }) (by simpa using hS)
      intro S' hS'
      obtain ⟨S0, hS0, k⟩ := this S' hS'
      exact ⟨S0, by simpa using hS0, k⟩
    | none =>
      simp only []
      have h0 : Hk p w (setConn w p t { newConn cap S.overflow S.rMaxBorrow S.nChan S.n S.init with sAtt := true }) :=
        Hk.setConn_fresh (newConn_fresh p _ _ _ _ _ _ (hinit S hS) _ _)
      have h1 : Hk p _ (setSnd (setConn w p t { newConn cap S.overflow S.rMaxBorrow S.nChan S.n S.init with sAtt := true }) p
          { S with conns := S.conns.set slot (some t) }) :=
        Hk.setSnd (S := S) (by simpa using hS) rfl
      refine ⟨h0.trans h1, ?_⟩
      have := hslots (setConn w p t { newConn cap S.overflow S.rMaxBorrow S.nChan S.n S.init with sAtt := true }) (by simpa using hS)
      intro S' hS'
      obtain ⟨S0, hS0, k⟩ := this S' hS'
      exact ⟨S0, by simpa using hS0, k⟩

/-- the static hypothesis is kept by housekeeping -/
theorem Hk.sndInit_keep {me : Pid} {w w' : World} (h : Hk me w w') (st : ChState)
    (hinit : ∀ S, getSnd w me = some S → S.init = st) : ∀ S, getSnd w' me = some S → S.init = st := by
  intro S' hS'
  have := h.sndInit
  rw [hS'] at this
  cases hS : getSnd w me with
  | none => rw [hS] at this; cases this
  | some S =>
    rw [hS] at this
    simp only [Option.map_some, Option.some.injEq] at this
    rw [this]; exact hinit S hS

theorem Hk.rcvInit_keep {me : Pid} {w w' : World} (h : Hk me w w') (st : ChState)
    (hinit : ∀ R, getRcv w me = some R → R.init = st) : ∀ R, getRcv w' me = some R → R.init = st := by
  intro S' hS'
  have := h.rcvInit
  rw [hS'] at this
  cases hS : getRcv w me with
  | none => rw [hS] at this; cases this
  | some S =>
    rw [hS] at this
    simp only [Option.map_some, Option.some.injEq] at this
    rw [this]; exact hinit S hS

theorem sndUpdateConn_hk (w : World) (p : Pid) (slot : Nat) (t : Pid) (cap : Nat)
    (hinit : ∀ S, getSnd w p = some S → S.init = initState p) :
    Hk p w (sndUpdateConn w p slot t cap) ∧
    SlotsFrom p (fun i t' => i = slot ∧ t' = t) w (sndUpdateConn w p slot t cap) := by
  unfold sndUpdateConn
  split
  · exact ⟨Hk.refl _ _, SlotsFrom.refl _ _ _⟩
  · split
    · exact sndCreateConn_hk w p slot t cap hinit
    · split
      · exact ⟨Hk.refl _ _, SlotsFrom.refl _ _ _⟩
      · obtain ⟨h1, s1⟩ := sndRemoveConn_hk w p slot
        obtain ⟨h2, s2⟩ := sndCreateConn_hk (sndRemoveConn w p slot) p slot t cap (h1.sndInit_keep _ hinit)
        exact ⟨h1.trans h2, (s1.mono (fun _ _ h => h.elim)).trans s2⟩

theorem sndFinish_hk (w : World) (p : Pid) (tagged : List Nat) (k : Nat) :
    Hk p w (sndFinish w p tagged k) ∧ SlotsFrom p (fun _ _ => False) w (sndFinish w p tagged k) := by
  induction k with
  | zero => exact ⟨Hk.refl _ _, SlotsFrom.refl _ _ _⟩
  | succ k ih =>
    simp only [sndFinish]
    split
    · exact ih
    · obtain ⟨h2, s2⟩ := sndRemoveConn_hk (sndFinish w p tagged k) p k
      exact ⟨ih.1.trans h2, ih.2.trans s2⟩

theorem sndDestroySlots_hk (w : World) (p : Pid) (l : List (Option Pid)) :
    Hk p w (sndDestroySlots w p l) ∧ SlotsSame p w (sndDestroySlots w p l) := by
  induction l generalizing w with
  | nil => exact ⟨Hk.refl _ _, rfl⟩
  | cons a r ih =>
    cases a with
    | none => simpa [sndDestroySlots] using ih w
    | some t =>
      simp only [sndDestroySlots]
      obtain ⟨h2, s2⟩ := ih (detachSender w p t)
      refine ⟨(Hk.detachSender w p t).trans h2, ?_⟩
      have : SlotsSame p w (detachSender w p t) := by simp [SlotsSame]
      exact this.trans s2

theorem Hk.panic {me : Pid} (w : World) : Hk me w { w with panicked := true } :=
  ⟨rfl, rfl, rfl, rfl, rfl, fun _ _ => rfl, fun _ _ => rfl, rfl, rfl, ConnsLe.of_eq fun _ _ => rfl⟩

/-! ### receiver side -/

/-- housekeeping by the receiver of port `me`: additionally no `Snd` record changes -/
structure HkR (me : Pid) (w w' : World) : Prop extends Hk me w w' where
  sndsAll : w'.snds = w.snds

theorem HkR.refl (me : Pid) (w : World) : HkR me w w := ⟨Hk.refl _ _, rfl⟩
theorem HkR.trans {me : Pid} {a b c : World} (h1 : HkR me a b) (h2 : HkR me b c) : HkR me a c :=
  ⟨h1.toHk.trans h2.toHk, h2.sndsAll.trans h1.sndsAll⟩
theorem HkR.getSnd_eq {me : Pid} {w w' : World} (h : HkR me w w') (p : Pid) : getSnd w' p = getSnd w p := by
  unfold getSnd; rw [h.sndsAll]
theorem HkR.slotsSame {me : Pid} {w w' : World} (h : HkR me w w') (p : Pid) : SlotsSame p w w' := by
  unfold SlotsSame; rw [h.getSnd_eq]
theorem HkR.panic {me : Pid} (w : World) : HkR me w { w with panicked := true } := ⟨Hk.panic w, rfl⟩
theorem HkR.setRcv {me : Pid} {w : World} {R R' : Rcv} (h : getRcv w me = some R) (hi : R'.init = R.init) :
    HkR me w (ReqRes.setRcv w me R') := ⟨Hk.setRcv h hi, rfl⟩
theorem HkR.setRcv_then {me : Pid} {w w2 : World} {R R' : Rcv} (h : getRcv w me = some R) (hi : R'.init = R.init)
    (h2 : HkR me (ReqRes.setRcv w me R') w2) : HkR me w w2 := (HkR.setRcv h hi).trans h2
theorem HkR.setConn_le {me : Pid} {w : World} {f t : Pid} {c c' : Conn} (h : getConn w f t = some c)
    (hl : ConnLe c' c) : HkR me w (setConn w f t c') := ⟨Hk.setConn_le h hl, rfl⟩
theorem HkR.setConn_fresh {me : Pid} {w : World} {f t : Pid} {c' : Conn} (hf : Fresh f c') :
    HkR me w (setConn w f t c') := ⟨Hk.setConn_fresh hf, rfl⟩
theorem HkR.detachReceiver {me : Pid} (w : World) (f t : Pid) : HkR me w (ReqRes.detachReceiver w f t) := by
  refine ⟨Hk.detachReceiver w f t, ?_⟩
  unfold ReqRes.detachReceiver; split
  · rfl
  · split <;> rfl
theorem HkR.rcvInit_keep {me : Pid} {w w' : World} (h : HkR me w w') (st : ChState)
    (hinit : ∀ R, getRcv w me = some R → R.init = st) : ∀ R, getRcv w' me = some R → R.init = st :=
  h.toHk.rcvInit_keep st hinit


theorem rcvDropConn_hk (w : World) (me : Pid) (key : Nat) : HkR me w (rcvDropConn w me key) := by
  unfold rcvDropConn
  split
  · exact HkR.refl _ _
  · next R hR =>
    split
    · exact HkR.refl _ _
    · exact HkR.setRcv_then hR (by rfl) (HkR.detachReceiver _ _ _)

theorem rcvMakeRoom_hk (w : World) (me : Pid) (R : Rcv) (hR : getRcv w me = some R) (hb : Bool) :
    HkR me w (rcvMakeRoom w me R hb) := by
  unfold rcvMakeRoom
  split
  · exact HkR.setRcv_then hR (by rfl) (rcvDropConn_hk _ _ _)
  · split
    · split
      · exact HkR.setRcv_then hR (by rfl) (rcvDropConn_hk _ _ _)
      · exact HkR.refl _ _
    · exact HkR.refl _ _

theorem rcvPushTbr_hk (w : World) (me : Pid) (key : Nat) (hb : Bool) : HkR me w (rcvPushTbr w me key hb) := by
  unfold rcvPushTbr
  split
  · exact HkR.refl _ _
  · next R hR =>
    split
    · exact HkR.setRcv hR (by rfl)
    · split
      · exact HkR.panic _
      · exact rcvDropConn_hk _ _ _

theorem rcvPrepareRemoval_hk (w : World) (me : Pid) (slot : Nat) : HkR me w (rcvPrepareRemoval w me slot) := by
  unfold rcvPrepareRemoval
  split
  · exact HkR.refl _ _
  · next R hR =>
    split
    · exact HkR.refl _ _
    · split
      · exact HkR.refl _ _
      · split
        · split
          · exact HkR.setRcv hR (by rfl)
          · exact (rcvMakeRoom_hk w me R hR _).trans (rcvPushTbr_hk _ _ _ _)
        · exact rcvDropConn_hk _ _ _

theorem rcvAttach_hk (w : World) (me f : Pid) (n : Nat) (R : Rcv) (hinit : R.init = initState f) :
    HkR me w (rcvAttach w me f n R) := by
  unfold rcvAttach
  split
  · next c hc => exact HkR.setConn_le hc (ConnLe.refl _)
  · exact HkR.setConn_fresh (newConn_fresh f _ _ _ _ _ _ hinit _ _)

@[simp] theorem getRcv_rcvAttach (w : World) (me f p : Pid) (n : Nat) (R : Rcv) :
    getRcv (rcvAttach w me f n R) p = getRcv w p := by
  unfold rcvAttach; split <;> rfl
@[simp] theorem getSnd_rcvAttach (w : World) (me f p : Pid) (n : Nat) (R : Rcv) :
    getSnd (rcvAttach w me f n R) p = getSnd w p := by
  unfold rcvAttach; split <;> rfl

/-- `Receiver::create`: the static hypothesis says the receiver's initial channel state is the one
of the sender's kind -/
theorem rcvCreateConn_hk (w : World) (me : Pid) (slot : Nat) (f : Pid) (n : Nat)
    (hinit : ∀ R, getRcv w me = some R → R.init = initState f) : HkR me w (rcvCreateConn w me slot f n) := by
  unfold rcvCreateConn
  split
  · exact HkR.refl _ _
  · next R hR =>
    have h0 := rcvAttach_hk w me f n R (hinit R hR)
    have hR' : getRcv (rcvAttach w me f n R) me = some R := by simpa using hR
    simp only []
    split
    · exact h0.trans (HkR.setRcv hR' (by rfl))
    · exact h0.trans (HkR.panic _)

theorem rcvUpdateConn_hk (w : World) (me : Pid) (slot : Nat) (f : Pid) (n : Nat)
    (hinit : ∀ R, getRcv w me = some R → R.init = initState f) : HkR me w (rcvUpdateConn w me slot f n).1 := by
  unfold rcvUpdateConn
  split
  · exact HkR.refl _ _
  · split
    · exact HkR.refl _ _
    · have h1 := rcvPrepareRemoval_hk w me slot
      exact h1.trans (rcvCreateConn_hk _ me slot f n (h1.rcvInit_keep _ hinit))

theorem rcvFinish_hk (w : World) (me : Pid) (tagged : List Nat) (fuel n : Nat) :
    HkR me w (rcvFinish w me tagged fuel n) := by
  induction fuel generalizing w n with
  | zero => exact HkR.refl _ _
  | succ fuel ih =>
    simp only [rcvFinish]
    split
    · exact HkR.refl _ _
    · next R hR =>
      split
      · exact HkR.refl _ _
      · refine HkR.trans ?_ (ih _ _)
        split
        · exact HkR.refl _ _
        · split
          · have h1 := rcvPrepareRemoval_hk w me n
            refine h1.trans ?_
            split
            · next R' hR' => exact HkR.setRcv hR' (by rfl)
            · exact HkR.refl _ _
          · exact HkR.refl _ _

/-- element `e` was taken from the front of channel `ch` of connection `(f, me)` (possibly after
other elements were taken from it) -/
def Popped (w w' : World) (f me : Pid) (ch : Nat) (e : Entry) : Prop :=
  ∃ c x c' x', getConn w f me = some c ∧ c.chans[ch]? = some x ∧ getConn w' f me = some c' ∧
    c'.chans[ch]? = some x' ∧ (e :: x'.sub) <:+ x.sub ∧ x'.state = x.state

theorem Popped.of_le {w0 w1 w2 : World} {f me : Pid} {ch : Nat} {e : Entry} (h1 : ConnsLe w0 w1)
    (h2 : Popped w1 w2 f me ch e) : Popped w0 w2 f me ch e := by
  obtain ⟨c, x, c', x', hc, hx, hc', hx', hs, hst⟩ := h2
  rcases h1 f me c hc with ⟨c0, hc0, l⟩ | fr
  · obtain ⟨x0, hx0, l0⟩ := l.1 ch x hx
    exact ⟨c0, x0, c', x', hc0, hx0, hc', hx', hs.trans l0.2, hst.trans l0.1⟩
  · have := (fr ch x hx).1
    rw [this] at hs
    have := List.suffix_nil.mp hs
    cases this

theorem getElem?_set_self' {α : Type} (l : List α) (i : Nat) (a x : α) (h : l[i]? = some x) :
    (l.set i a)[i]? = some a := by
  rw [List.getElem?_set]
  simp only [if_true]
  have : i < l.length := by
    rcases Nat.lt_or_ge i l.length with h' | h'
    · exact h'
    · rw [List.getElem?_eq_none h'] at h; cases h
  simp [this]

/-- a connection with one channel replaced by a `ChanLe` one -/
theorem ConnLe.setChan {c : Conn} {ch : Nat} {x x' : Chan} (hx : c.chans[ch]? = some x) (hl : ChanLe x' x) :
    ConnLe (c.setChan ch x') c := by
  refine ⟨?_, rfl, rfl⟩
  intro j y hy
  simp only [Conn.setChan, List.getElem?_set] at hy
  by_cases hj : ch = j
  · subst hj
    simp only [if_true] at hy
    split at hy
    · cases hy; exact ⟨x, hx, hl⟩
    · cases hy
  · simp only [hj, if_false] at hy
    exact ⟨y, hy, ChanLe.refl _⟩

theorem recvFromConn_spec (w : World) (me : Pid) (R : Rcv) (key ch : Nat) :
    HkR me w (recvFromConn w me R key ch).1 ∧
    ∀ h m, (recvFromConn w me R key ch).2 = .some h m →
      smGet R.storage key = some h.origin ∧ h.channel = ch ∧ h.key = key ∧
      Popped w (recvFromConn w me R key ch).1 h.origin me ch ⟨h.chunk, m⟩ := by
  unfold recvFromConn
  split
  · exact ⟨HkR.refl _ _, fun _ _ h => by cases h⟩
  · next f hf =>
    split
    · exact ⟨HkR.refl _ _, fun _ _ h => by cases h⟩
    · next c hc =>
      unfold Conn.chan
      split
      · exact ⟨HkR.refl _ _, fun _ _ h => by cases h⟩
      · next x hx =>
        split
        · exact ⟨HkR.refl _ _, fun _ _ h => by cases h⟩
        · split
          · exact ⟨HkR.refl _ _, fun _ _ h => by cases h⟩
          · next e rest hsub =>
            have hle : ChanLe { x with sub := rest, borrow := x.borrow + 1 } x :=
              ⟨rfl, by rw [hsub]; exact List.suffix_cons _ _⟩
            refine ⟨HkR.setConn_le hc (ConnLe.setChan hx hle), ?_⟩
            intro h m hm
            simp only [RecvRes.some.injEq] at hm
            obtain ⟨rfl, rfl⟩ := hm
            refine ⟨hf, rfl, rfl, c, x, _, { x with sub := rest, borrow := x.borrow + 1 }, hc, hx,
              getConn_setConn_same _ _ _ _, ?_, ?_, rfl⟩
            · exact getElem?_set_self' _ _ _ _ hx
            · simp only [hsub]; exact List.suffix_refl _

/-- result of a receive call: housekeeping, and a returned element was taken from the front of
channel `ch` of the connection it names -/
def RecvSpec (me : Pid) (ch : Nat) (w : World) (r : World × RecvRes) : Prop :=
  HkR me w r.1 ∧ ∀ h m, r.2 = .some h m → h.channel = ch ∧ Popped w r.1 h.origin me ch ⟨h.chunk, m⟩

theorem RecvSpec.of_hk {me : Pid} {ch : Nat} {w w1 : World} {r : World × RecvRes} (h1 : HkR me w w1)
    (h2 : RecvSpec me ch w1 r) : RecvSpec me ch w r :=
  ⟨h1.trans h2.1, fun h m e => ⟨(h2.2 h m e).1, Popped.of_le h1.toHk.conns (h2.2 h m e).2⟩⟩

theorem RecvSpec.none {me : Pid} {ch : Nat} {w w1 : World} (h1 : HkR me w w1) : RecvSpec me ch w (w1, .none) :=
  ⟨h1, fun _ _ e => by cases e⟩
theorem RecvSpec.maxBorrow {me : Pid} {ch : Nat} {w w1 : World} (h1 : HkR me w w1) : RecvSpec me ch w (w1, .maxBorrow) :=
  ⟨h1, fun _ _ e => by cases e⟩

theorem recvFromConn_recvSpec (w : World) (me : Pid) (R : Rcv) (key ch : Nat) :
    RecvSpec me ch w (recvFromConn w me R key ch) := by
  obtain ⟨h1, h2⟩ := recvFromConn_spec w me R key ch
  exact ⟨h1, fun h m e => ⟨(h2 h m e).2.1, (h2 h m e).2.2.2⟩⟩

theorem recvTbr_spec (w : World) (me : Pid) (ch fuel i : Nat) : RecvSpec me ch w (recvTbr w me ch fuel i) := by
  induction fuel generalizing w i with
  | zero => exact RecvSpec.none (HkR.refl _ _)
  | succ fuel ih =>
    simp only [recvTbr]
    split
    · exact RecvSpec.none (HkR.refl _ _)
    · next R hR =>
      split
      · exact RecvSpec.none (HkR.refl _ _)
      · next key _ =>
        split
        · exact RecvSpec.of_hk (HkR.setRcv hR (by rfl)) (ih _ _)
        · next f _ =>
          split
          · exact ih _ _
          · have hs := recvFromConn_recvSpec w me R key ch
            split
            · next w' h m heq => rw [heq] at hs; exact hs
            · next w' heq => rw [heq] at hs; exact RecvSpec.maxBorrow hs.1
            · next w' heq =>
              rw [heq] at hs
              split
              · exact RecvSpec.of_hk hs.1 (ih _ _)
              · have hR' : getRcv w' me = some R := by
                  have := hs.1.rcvInit
                  -- `recvFromConn` does not touch the receiver records
                  have h2 : getRcv (recvFromConn w me R key ch).1 me = getRcv w me := by
                    unfold recvFromConn
                    split
                    · rfl
                    · split
                      · rfl
                      · split
                        · rfl
                        · split
                          · rfl
                          · split <;> rfl
                  rw [heq] at h2
                  rw [h2, hR]
                exact RecvSpec.of_hk hs.1 (RecvSpec.of_hk (HkR.setRcv_then hR' (by rfl) (rcvDropConn_hk _ _ _)) (ih _ _))

theorem recvScan_spec (w : World) (me : Pid) (R : Rcv) (ch : Nat) (l : List (Nat × Pid)) (acc : ScanAcc) :
    RecvSpec me ch w ((recvScan w me R ch l acc).1, (recvScan w me R ch l acc).2.1) := by
  induction l generalizing w acc with
  | nil => exact RecvSpec.none (HkR.refl _ _)
  | cons a r ih =>
    obtain ⟨key, f⟩ := a
    simp only [recvScan]
    split
    · exact ih _ _
    · split
      · exact ih _ _
      · split
        · exact ih _ _
        · split
          · exact ih _ _
          · have hs := recvFromConn_recvSpec w me R key ch
            split
            · next w' h m heq => rw [heq] at hs; exact hs
            · next w' heq => rw [heq] at hs; exact RecvSpec.maxBorrow hs.1
            · next w' heq => rw [heq] at hs; exact RecvSpec.of_hk hs.1 (ih _ _)

theorem rcvReceive_spec (w : World) (me : Pid) (ch : Nat) : RecvSpec me ch w (rcvReceive w me ch) := by
  unfold rcvReceive
  split
  · exact RecvSpec.none (HkR.refl _ _)
  · next R hR =>
    have h1 := recvTbr_spec w me ch (R.tbr.length + 1) 0
    split
    · next w' h m heq => rw [heq] at h1; exact h1
    · next w' heq => rw [heq] at h1; exact RecvSpec.maxBorrow h1.1
    · next w' heq =>
      rw [heq] at h1
      split
      · exact RecvSpec.none h1.1
      · next R' hR' =>
        have h2 := recvScan_spec w' me R' ch (SlotMap.items R'.storage) {}
        split
        · next w'' h m acc heq2 =>
          rw [heq2] at h2; exact RecvSpec.of_hk h1.1 h2
        · next w'' acc heq2 =>
          rw [heq2] at h2; exact RecvSpec.maxBorrow (h1.1.trans h2.1)
        · next w'' acc heq2 =>
          rw [heq2] at h2
          split
          · exact RecvSpec.maxBorrow (h1.1.trans h2.1)
          · exact RecvSpec.none (h1.1.trans h2.1)

theorem rcvRelease_hk (w : World) (me : Pid) (h : Held) : HkR me w (rcvRelease w me h) := by
  unfold rcvRelease
  split
  · exact HkR.refl _ _
  · split
    · exact HkR.refl _ _
    · split
      · exact HkR.refl _ _
      · split
        · exact HkR.refl _ _
        · next c hc =>
          unfold Conn.chan
          split
          · exact HkR.refl _ _
          · next x hx =>
            split
            · exact HkR.setConn_le hc (ConnLe.setChan hx ⟨rfl, List.suffix_refl _⟩)
            · exact HkR.refl _ _

theorem rcvDestroyKeys_hk (w : World) (me : Pid) (l : List (Nat × Pid)) : HkR me w (rcvDestroyKeys w me l) := by
  induction l generalizing w with
  | nil => exact HkR.refl _ _
  | cons a r ih =>
    obtain ⟨k, f⟩ := a
    simp only [rcvDestroyKeys]
    exact (HkR.detachReceiver w f me).trans (ih _)

/-! ### the update cycle -/

theorem initState_mk (b : Bool) (n : Nat) : initState ⟨b, n⟩ = if b then .closed else .id 0 false := rfl

theorem portUpdateSlots_spec (w : World) (me : Pid) (peerSrv : Bool) (sndCap : Nat)
    (entries : List (Option (Nat × Nat))) (i : Nat) (st rt : List Nat)
    (hS : ∀ S, getSnd w me = some S → S.init = initState me)
    (hR : ∀ R, getRcv w me = some R → R.init = initState ⟨peerSrv, 0⟩) :
    Hk me w (portUpdateSlots w me peerSrv sndCap entries i st rt).1 ∧
    SlotsFrom me (fun j t => i ≤ j ∧ ∃ n, entries[j - i]? = some (some (t.n, n)) ∧ t.srv = peerSrv) w
      (portUpdateSlots w me peerSrv sndCap entries i st rt).1 := by
  induction entries generalizing w i st rt with
  | nil => exact ⟨Hk.refl _ _, SlotsFrom.refl _ _ _⟩
  | cons a r ih =>
    cases a with
    | none =>
      simp only [portUpdateSlots]
      obtain ⟨h1, s1⟩ := ih w (i + 1) st rt hS hR
      refine ⟨h1, s1.mono ?_⟩
      rintro j t ⟨hij, n, hn, ht⟩
      refine ⟨by omega, n, ?_, ht⟩
      have : j - i = (j - (i + 1)) + 1 := by omega
      rw [this, List.getElem?_cons_succ]; exact hn
    | some pn =>
      obtain ⟨peer, n⟩ := pn
      simp only [portUpdateSlots]
      have hR' : ∀ R, getRcv w me = some R → R.init = initState ⟨peerSrv, peer⟩ := hR
      have h1 := rcvUpdateConn_hk w me i ⟨peerSrv, peer⟩ n hR'
      have hS1 := h1.toHk.sndInit_keep _ hS
      obtain ⟨h2, s2⟩ := sndUpdateConn_hk (rcvUpdateConn w me i ⟨peerSrv, peer⟩ n).1 me i ⟨peerSrv, peer⟩ sndCap hS1
      have h12 := h1.toHk.trans h2
      obtain ⟨h3, s3⟩ := ih (sndUpdateConn (rcvUpdateConn w me i ⟨peerSrv, peer⟩ n).1 me i ⟨peerSrv, peer⟩ sndCap) (i + 1)
        (i :: st) (match (rcvUpdateConn w me i ⟨peerSrv, peer⟩ n).2 with | some k => k :: rt | none => rt)
        (h12.sndInit_keep _ hS) (h12.rcvInit_keep _ hR)
      refine ⟨h12.trans h3, ?_⟩
      have s1 : SlotsFrom me (fun j t => i ≤ j ∧ ∃ n', ((some (peer, n)) :: r)[j - i]? = some (some (t.n, n')) ∧ t.srv = peerSrv) w
          (rcvUpdateConn w me i ⟨peerSrv, peer⟩ n).1 := (h1.slotsSame me).from _
      refine (s1.trans (s2.mono ?_)).trans (s3.mono ?_)
      · rintro j t ⟨rfl, rfl⟩
        exact ⟨Nat.le_refl _, n, by simp, rfl⟩
      · rintro j t ⟨hij, n', hn, ht⟩
        refine ⟨by omega, n', ?_, ht⟩
        have : j - i = (j - (i + 1)) + 1 := by omega
        rw [this, List.getElem?_cons_succ]; exact hn

/-- what a force-update of port `me` against the registry snapshot `sp` does -/
def UpdSpec (me : Pid) (peerSrv : Bool) (slots : List (Option (Nat × Nat))) (w w' : World) : Prop :=
  Hk me w w' ∧ SlotsFrom me (fun j t => ∃ n, slots[j]? = some (some (t.n, n)) ∧ t.srv = peerSrv) w w'

theorem clientForceUpdate_spec (w : World) (c : Nat)
    (hS : ∀ S, getSnd w (cid c) = some S → S.init = initState (cid c))
    (hR : ∀ R, getRcv w (cid c) = some R → R.init = .closed) :
    ∀ sp, getSnap w (cid c) = some sp → UpdSpec (cid c) true sp.slots w (clientForceUpdate w c) := by
  intro sp hsp
  unfold clientForceUpdate
  rw [hsp]
  simp only []
  obtain ⟨h1, s1⟩ := portUpdateSlots_spec w (cid c) true w.cfg.maxActive sp.slots 0 [] [] hS hR
  generalize portUpdateSlots w (cid c) true w.cfg.maxActive sp.slots 0 [] [] = res at h1 s1
  obtain ⟨w1, st, rt⟩ := res
  simp only [] at h1 s1 ⊢
  have h2 := rcvFinish_hk w1 (cid c) rt (rcvSlots w1 (cid c)) 0
  obtain ⟨h3, s3⟩ := sndFinish_hk (rcvFinish w1 (cid c) rt (rcvSlots w1 (cid c)) 0) (cid c) st
    (sndSlots (rcvFinish w1 (cid c) rt (rcvSlots w1 (cid c)) 0) (cid c))
  refine ⟨(h1.trans h2.toHk).trans h3, ?_⟩
  refine ((s1.mono ?_).trans ((h2.slotsSame _).from _)).trans (s3.mono fun _ _ h => h.elim)
  rintro j t ⟨_, n, hn, ht⟩
  exact ⟨n, by simpa using hn, ht⟩

theorem serverForceUpdate_spec (w : World) (s : Nat)
    (hS : ∀ S, getSnd w (sid s) = some S → S.init = initState (sid s))
    (hR : ∀ R, getRcv w (sid s) = some R → R.init = .id 0 false) :
    ∀ sp, getSnap w (sid s) = some sp → UpdSpec (sid s) false sp.slots w (serverForceUpdate w s) := by
  intro sp hsp
  unfold serverForceUpdate
  rw [hsp]
  simp only []
  obtain ⟨h1, s1⟩ := portUpdateSlots_spec w (sid s) false w.cfg.respBuf sp.slots 0 [] [] hS hR
  generalize portUpdateSlots w (sid s) false w.cfg.respBuf sp.slots 0 [] [] = res at h1 s1
  obtain ⟨w1, st, rt⟩ := res
  simp only [] at h1 s1 ⊢
  obtain ⟨h2, s2⟩ := sndFinish_hk w1 (sid s) st (sndSlots w1 (sid s))
  have h3 := rcvFinish_hk (sndFinish w1 (sid s) st (sndSlots w1 (sid s))) (sid s) rt
    (rcvSlots (sndFinish w1 (sid s) st (sndSlots w1 (sid s))) (sid s)) 0
  refine ⟨(h1.trans h2).trans h3.toHk, ?_⟩
  refine ((s1.mono ?_).trans (s2.mono fun _ _ h => h.elim)).trans ((h3.slotsSame _).from _)
  rintro j t ⟨_, n, hn, ht⟩
  exact ⟨n, by simpa using hn, ht⟩

theorem Hk.setSnap {me : Pid} (w : World) (p : Pid) (x : Snap) : Hk me w (setSnap w p x) :=
  ⟨rfl, rfl, rfl, rfl, rfl, fun _ _ => rfl, fun _ _ => rfl, rfl, rfl, ConnsLe.of_eq fun _ _ => rfl⟩

/-- `update_connections` of a client: nothing, or a force-update against the current server registry -/
theorem clientUpdate_spec (w : World) (c : Nat)
    (hS : ∀ S, getSnd w (cid c) = some S → S.init = initState (cid c))
    (hR : ∀ R, getRcv w (cid c) = some R → R.init = .closed) :
    UpdSpec (cid c) true w.serverReg.slots w (clientUpdate w c) := by
  unfold clientUpdate
  split
  · exact ⟨Hk.refl _ _, SlotsFrom.refl _ _ _⟩
  · split
    · exact ⟨Hk.refl _ _, SlotsFrom.refl _ _ _⟩
    · have h0 : Hk (cid c) w (setSnap w (cid c) { ctr := w.serverReg.counter, slots := w.serverReg.slots }) := Hk.setSnap _ _ _
      obtain ⟨h1, s1⟩ := clientForceUpdate_spec (setSnap w (cid c) { ctr := w.serverReg.counter, slots := w.serverReg.slots }) c
        (by simpa using hS) (by simpa using hR) { ctr := w.serverReg.counter, slots := w.serverReg.slots } (by simp)
      refine ⟨h0.trans h1, ?_⟩
      intro S' hS'
      obtain ⟨S, hS0, k⟩ := s1 S' hS'
      exact ⟨S, by simpa using hS0, k⟩

theorem serverUpdate_spec (w : World) (s : Nat)
    (hS : ∀ S, getSnd w (sid s) = some S → S.init = initState (sid s))
    (hR : ∀ R, getRcv w (sid s) = some R → R.init = .id 0 false) :
    UpdSpec (sid s) false w.clientReg.slots w (serverUpdate w s) := by
  unfold serverUpdate
  split
  · exact ⟨Hk.refl _ _, SlotsFrom.refl _ _ _⟩
  · split
    · exact ⟨Hk.refl _ _, SlotsFrom.refl _ _ _⟩
    · have h0 : Hk (sid s) w (setSnap w (sid s) { ctr := w.clientReg.counter, slots := w.clientReg.slots }) := Hk.setSnap _ _ _
      obtain ⟨h1, s1⟩ := serverForceUpdate_spec (setSnap w (sid s) { ctr := w.clientReg.counter, slots := w.clientReg.slots }) s
        (by simpa using hS) (by simpa using hR) { ctr := w.clientReg.counter, slots := w.clientReg.slots } (by simp)
      refine ⟨h0.trans h1, ?_⟩
      intro S' hS'
      obtain ⟨S, hS0, k⟩ := s1 S' hS'
      exact ⟨S, by simpa using hS0, k⟩

theorem getSnd_sndDestroySlots (me : Pid) (l : List (Option Pid)) (w0 : World) (p : Pid) :
    getSnd (sndDestroySlots w0 me l) p = getSnd w0 p := by
  induction l generalizing w0 with
  | nil => rfl
  | cons a r ih =>
    cases a with
    | none => simpa [sndDestroySlots] using ih w0
    | some t => simp only [sndDestroySlots]; rw [ih]; simp

theorem getRcv_rcvDestroyKeys (me : Pid) (l : List (Nat × Pid)) (w0 : World) (p : Pid) :
    getRcv (rcvDestroyKeys w0 me l) p = getRcv w0 p := by
  induction l generalizing w0 with
  | nil => rfl
  | cons a r ih => obtain ⟨k, f⟩ := a; simp only [rcvDestroyKeys]; rw [ih]; simp

theorem sndDestroyAll_hk (w : World) (me : Pid) :
    Hk me w (sndDestroyAll w me) ∧ SlotsFrom me (fun _ _ => False) w (sndDestroyAll w me) := by
  unfold sndDestroyAll
  split
  · next S hS =>
    obtain ⟨h1, _⟩ := sndDestroySlots_hk w me S.conns
    have hS1 : getSnd (sndDestroySlots w me S.conns) me = some S := by rw [getSnd_sndDestroySlots]; exact hS
    refine ⟨h1.trans (Hk.setSnd hS1 (by rfl)), ?_⟩
    intro S' hS'
    simp only [getSnd_setSnd, if_true, Option.some.injEq] at hS'
    subst hS'
    refine ⟨S, hS, fun i t ht => ?_⟩
    exfalso
    simp only [List.getD_eq_getElem?_getD, List.getElem?_map] at ht
    cases h : S.conns[i]? <;> simp [h] at ht
  · exact ⟨Hk.refl _ _, SlotsFrom.refl _ _ _⟩

theorem rcvDestroyAll_hk (w : World) (me : Pid) : HkR me w (rcvDestroyAll w me) := by
  unfold rcvDestroyAll
  split
  · next R hR =>
    have h2 := rcvDestroyKeys_hk w me (SlotMap.items R.storage)
    have hR2 : getRcv (rcvDestroyKeys w me (SlotMap.items R.storage)) me = some R := by
      rw [getRcv_rcvDestroyKeys]; exact hR
    exact h2.trans (HkR.setRcv hR2 (by rfl))
  · exact HkR.refl _ _

/-- both ports of a dropped shared state go: every slot of the `Sender` is cleared -/
theorem portDestroy_hk (w : World) (me : Pid) :
    Hk me w (portDestroy w me) ∧ SlotsFrom me (fun _ _ => False) w (portDestroy w me) := by
  unfold portDestroy
  obtain ⟨h1, s1⟩ := sndDestroyAll_hk w me
  have h2 := rcvDestroyAll_hk (sndDestroyAll w me) me
  exact ⟨h1.trans h2.toHk, s1.trans ((h2.slotsSame _).from _)⟩

/-! ### channel state changes and pushes: what they do to the connections -/

theorem close_sub (x : Chan) (v : Nat) : (x.close v).sub = x.sub := by
  simp only [Chan.close]; split <;> rfl
theorem setHint_sub (x : Chan) (v : Nat) : (x.setHint v).sub = x.sub := by
  simp only [Chan.setHint]; split <;> rfl
theorem setState_sub (x : Chan) (v : Nat) : (x.setState v).sub = x.sub := by
  simp only [Chan.setState]; split <;> rfl

@[simp] theorem getCl_mapChanAt (w : World) (f t : Pid) (ch : Nat) (g : Chan → Chan) (c : Nat) :
    getCl (mapChanAt w f t ch g) c = getCl w c := by
  unfold mapChanAt; split
  · split <;> rfl
  · rfl
@[simp] theorem getSv_mapChanAt (w : World) (f t : Pid) (ch : Nat) (g : Chan → Chan) (c : Nat) :
    getSv (mapChanAt w f t ch g) c = getSv w c := by
  unfold mapChanAt; split
  · split <;> rfl
  · rfl
@[simp] theorem getSnd_mapChanAt (w : World) (f t : Pid) (ch : Nat) (g : Chan → Chan) (p : Pid) :
    getSnd (mapChanAt w f t ch g) p = getSnd w p := by
  unfold mapChanAt; split
  · split <;> rfl
  · rfl
@[simp] theorem getRcv_mapChanAt (w : World) (f t : Pid) (ch : Nat) (g : Chan → Chan) (p : Pid) :
    getRcv (mapChanAt w f t ch g) p = getRcv w p := by
  unfold mapChanAt; split
  · split <;> rfl
  · rfl
@[simp] theorem clientReg_mapChanAt (w : World) (f t : Pid) (ch : Nat) (g : Chan → Chan) :
    (mapChanAt w f t ch g).clientReg = w.clientReg := by
  unfold mapChanAt; split
  · split <;> rfl
  · rfl

theorem getCl_rcvMapChan (w : World) (me : Pid) (ch : Nat) (g : Chan → Chan) (l : List (Nat × Pid)) (c : Nat) :
    getCl (rcvMapChan w me ch g l) c = getCl w c := by
  induction l generalizing w with
  | nil => rfl
  | cons a r ih => obtain ⟨k, f⟩ := a; simp only [rcvMapChan]; rw [ih]; simp
theorem getCl_rcvMapAll (w : World) (me : Pid) (ch : Nat) (g : Chan → Chan) (c : Nat) :
    getCl (rcvMapAll w me ch g) c = getCl w c := by
  unfold rcvMapAll; split
  · exact getCl_rcvMapChan _ _ _ _ _ _
  · rfl
theorem getSv_rcvMapChan (w : World) (me : Pid) (ch : Nat) (g : Chan → Chan) (l : List (Nat × Pid)) (c : Nat) :
    getSv (rcvMapChan w me ch g l) c = getSv w c := by
  induction l generalizing w with
  | nil => rfl
  | cons a r ih => obtain ⟨k, f⟩ := a; simp only [rcvMapChan]; rw [ih]; simp
theorem getSv_rcvMapAll (w : World) (me : Pid) (ch : Nat) (g : Chan → Chan) (c : Nat) :
    getSv (rcvMapAll w me ch g) c = getSv w c := by
  unfold rcvMapAll; split
  · exact getSv_rcvMapChan _ _ _ _ _ _
  · rfl
theorem getSnd_rcvMapChan (w : World) (me : Pid) (ch : Nat) (g : Chan → Chan) (l : List (Nat × Pid)) (p : Pid) :
    getSnd (rcvMapChan w me ch g l) p = getSnd w p := by
  induction l generalizing w with
  | nil => rfl
  | cons a r ih => obtain ⟨k, f⟩ := a; simp only [rcvMapChan]; rw [ih]; simp
theorem getSnd_rcvMapAll (w : World) (me : Pid) (ch : Nat) (g : Chan → Chan) (p : Pid) :
    getSnd (rcvMapAll w me ch g) p = getSnd w p := by
  unfold rcvMapAll; split
  · exact getSnd_rcvMapChan _ _ _ _ _ _
  · rfl

/-- the connections after `mapChanAt`: channel `ch` of `(f, t)` went through `g`, nothing else changed -/
theorem mapChanAt_conn (w : World) (f t : Pid) (ch : Nat) (g : Chan → Chan) (f' t' : Pid) (c' : Conn)
    (h : getConn (mapChanAt w f t ch g) f' t' = some c') :
    ∃ c, getConn w f' t' = some c ∧ ∀ (j : Nat) (x' : Chan), c'.chans[j]? = some x' →
      ∃ x, c.chans[j]? = some x ∧ (x' = x ∨ (f' = f ∧ t' = t ∧ j = ch ∧ x' = g x)) := by
  unfold mapChanAt at h
  split at h
  · next c hc =>
    unfold Conn.chan at h
    split at h
    · next x hx =>
      rw [getConn_setConn] at h
      split at h
      · next heq =>
        obtain ⟨rfl, rfl⟩ := heq
        cases h
        refine ⟨c, hc, fun j x' hx' => ?_⟩
        simp only [Conn.setChan, List.getElem?_set] at hx'
        by_cases hj : ch = j
        · subst hj
          simp only [if_true] at hx'
          split at hx'
          · cases hx'; exact ⟨x, hx, Or.inr ⟨rfl, rfl, rfl, rfl⟩⟩
          · cases hx'
        · simp only [hj, if_false] at hx'
          exact ⟨x', hx', Or.inl rfl⟩
      · exact ⟨c', h, fun j x' hx' => ⟨x', hx', Or.inl rfl⟩⟩
    · exact ⟨c', h, fun j x' hx' => ⟨x', hx', Or.inl rfl⟩⟩
  · exact ⟨c', h, fun j x' hx' => ⟨x', hx', Or.inl rfl⟩⟩

theorem trySend_spec (x : Chan) (cap : Nat) (ov : Bool) (e : Entry) :
    (x.trySend cap ov e).1.state = x.state ∧
    ((x.trySend cap ov e).1.sub = x.sub ∨ ∃ l, l <:+ x.sub ∧ (x.trySend cap ov e).1.sub = l ++ [e]) := by
  unfold Chan.trySend
  split
  · exact ⟨rfl, Or.inl rfl⟩
  · simp only []
    split
    · split
      · exact ⟨rfl, Or.inr ⟨[], by simp_all, by simp⟩⟩
      · next old rest hsub =>
        have hl : rest <:+ x.sub := by
          have : x.sub = old :: rest := hsub
          rw [this]; exact List.suffix_cons _ _
        split
        · exact ⟨rfl, Or.inr ⟨rest, hl, rfl⟩⟩
        · exact ⟨rfl, Or.inr ⟨rest, hl, rfl⟩⟩
    · exact ⟨rfl, Or.inr ⟨x.sub, List.suffix_refl _, rfl⟩⟩

theorem deliverTo_conn_key (w : World) (p t : Pid) (ch : Nat) (e : Entry) (f' t' : Pid) (c' : Conn)
    (c : Conn) (x : Chan) (hc : getConn w p t = some c) (hx : c.chans[ch]? = some x)
    (h2 : getConn (setConn w p t (c.setChan ch (x.trySend c.cap c.overflow e).1)) f' t' = some c') :
    ∃ c, getConn w f' t' = some c ∧ ∀ (j : Nat) (x' : Chan), c'.chans[j]? = some x' →
      ∃ x, c.chans[j]? = some x ∧ x'.state = x.state ∧
        (x'.sub = x.sub ∨ (f' = p ∧ t' = t ∧ j = ch ∧ ∃ l, l <:+ x.sub ∧ x'.sub = l ++ [e])) := by
  rw [getConn_setConn] at h2
  split at h2
  · next heq =>
    obtain ⟨rfl, rfl⟩ := heq
    cases h2
    refine ⟨c, hc, fun j x' hx' => ?_⟩
    simp only [Conn.setChan, List.getElem?_set] at hx'
    by_cases hj : ch = j
    · subst hj
      simp only [if_true] at hx'
      split at hx'
      · cases hx'
        obtain ⟨h1, h2⟩ := trySend_spec x c.cap c.overflow e
        exact ⟨x, hx, h1, h2.imp id fun ⟨l, hl, hs⟩ => ⟨rfl, rfl, rfl, l, hl, hs⟩⟩
      · cases hx'
    · simp only [hj, if_false] at hx'
      exact ⟨x', hx', rfl, Or.inl rfl⟩
  · exact ⟨c', h2, fun j x' hx' => ⟨x', hx', rfl, Or.inl rfl⟩⟩

/-- what `deliverTo` does to the connections -/
theorem deliverTo_conn (w : World) (p t : Pid) (ch : Nat) (e : Entry) (f' t' : Pid) (c' : Conn)
    (h : getConn (deliverTo w p t ch e).1 f' t' = some c') :
    ∃ c, getConn w f' t' = some c ∧ ∀ (j : Nat) (x' : Chan), c'.chans[j]? = some x' →
      ∃ x, c.chans[j]? = some x ∧ x'.state = x.state ∧
        (x'.sub = x.sub ∨ (f' = p ∧ t' = t ∧ j = ch ∧ ∃ l, l <:+ x.sub ∧ x'.sub = l ++ [e])) := by
  unfold deliverTo at h
  split at h
  · next S c hS hc =>
    unfold Conn.chan at h
    split at h
    · exact ⟨c', h, fun j x' hx' => ⟨x', hx', rfl, Or.inl rfl⟩⟩
    · next x hx =>
      simp only [] at h
      split at h
      · exact deliverTo_conn_key w p t ch e f' t' c' c x hc hx (by simpa using h)
      · exact deliverTo_conn_key w p t ch e f' t' c' c x hc hx h
  · exact ⟨c', h, fun j x' hx' => ⟨x', hx', rfl, Or.inl rfl⟩⟩

/-- everything but the connections and the sender's chunk book-keeping is untouched by `deliverTo` -/
theorem deliverTo_core (w : World) (p t : Pid) (ch : Nat) (e : Entry) :
    (deliverTo w p t ch e).1.clientReg = w.clientReg ∧ (deliverTo w p t ch e).1.serverReg = w.serverReg ∧
    (deliverTo w p t ch e).1.clients = w.clients ∧ (deliverTo w p t ch e).1.servers = w.servers ∧
    (deliverTo w p t ch e).1.rcvs = w.rcvs ∧ (deliverTo w p t ch e).1.cfg = w.cfg ∧
    ∀ p' S', getSnd (deliverTo w p t ch e).1 p' = some S' →
      ∃ S, getSnd w p' = some S ∧ S'.init = S.init ∧ S'.conns = S.conns := by
  unfold deliverTo
  split
  · next S c hS hc =>
    unfold Conn.chan
    split
    · exact ⟨rfl, rfl, rfl, rfl, rfl, rfl, fun p' S' h => ⟨S', h, rfl, rfl⟩⟩
    · simp only []
      split
      · refine ⟨rfl, rfl, rfl, rfl, rfl, rfl, fun p' S' h => ?_⟩
        simp only [getSnd_setSnd, getSnd_setConn] at h
        split at h
        · next hp =>
          cases h; subst hp
          refine ⟨S, hS, ?_, ?_⟩
          · split <;> simp
          · split <;> simp
        · exact ⟨S', h, rfl, rfl⟩
      · exact ⟨rfl, rfl, rfl, rfl, rfl, rfl, fun p' S' h => ⟨S', h, rfl, rfl⟩⟩
  · exact ⟨rfl, rfl, rfl, rfl, rfl, rfl, fun p' S' h => ⟨S', h, rfl, rfl⟩⟩

theorem getCl_deliverTo (w : World) (p t : Pid) (ch : Nat) (e : Entry) (c : Nat) :
    getCl (ReqRes.deliverTo w p t ch e).1 c = getCl w c := by
  unfold getCl; rw [(deliverTo_core w p t ch e).2.2.1]


/-! ### queue lengths -/

theorem trySend_len (x : Chan) (cap : Nat) (ov : Bool) (e : Entry) (h : x.sub.length ≤ max cap 1) :
    (x.trySend cap ov e).1.sub.length ≤ max cap 1 := by
  unfold Chan.trySend
  split
  · exact h
  · simp only []
    split
    · split
      · simp; omega
      · next old rest hsub =>
        have : x.sub = old :: rest := hsub
        rw [this] at h
        split <;> (simp at h ⊢; omega)
    · next hlt => simp at hlt ⊢; omega

theorem mapChanAt_cap (w : World) (f t : Pid) (ch : Nat) (g : Chan → Chan) (f' t' : Pid) (c' : Conn)
    (h : getConn (mapChanAt w f t ch g) f' t' = some c') : ∃ c, getConn w f' t' = some c ∧ c'.cap = c.cap := by
  unfold mapChanAt at h
  split at h
  · next c hc =>
    unfold Conn.chan at h
    split at h
    · rw [getConn_setConn] at h
      split at h
      · next heq => obtain ⟨rfl, rfl⟩ := heq; cases h; exact ⟨c, hc, rfl⟩
      · exact ⟨c', h, rfl⟩
    · exact ⟨c', h, rfl⟩
  · exact ⟨c', h, rfl⟩

/-- `deliverTo` keeps the capacity of every connection and does not let a queue outgrow it -/
theorem deliverTo_len (w : World) (p t : Pid) (ch : Nat) (e : Entry) (f' t' : Pid) (c' : Conn)
    (h : getConn (deliverTo w p t ch e).1 f' t' = some c') :
    ∃ c, getConn w f' t' = some c ∧ c'.cap = c.cap ∧ ∀ (j : Nat) (x' : Chan), c'.chans[j]? = some x' →
      ∃ x, c.chans[j]? = some x ∧ (x'.sub = x.sub ∨ (x.sub.length ≤ max c.cap 1 → x'.sub.length ≤ max c.cap 1)) := by
  have key : ∀ (c : Conn) (x : Chan), getConn w p t = some c → c.chans[ch]? = some x →
      getConn (setConn w p t (c.setChan ch (x.trySend c.cap c.overflow e).1)) f' t' = some c' →
      ∃ c, getConn w f' t' = some c ∧ c'.cap = c.cap ∧ ∀ (j : Nat) (x' : Chan), c'.chans[j]? = some x' →
        ∃ x, c.chans[j]? = some x ∧ (x'.sub = x.sub ∨ (x.sub.length ≤ max c.cap 1 → x'.sub.length ≤ max c.cap 1)) := by
    intro c x hc hx h2
    rw [getConn_setConn] at h2
    split at h2
    · next heq =>
      obtain ⟨hf, ht⟩ := heq
      subst hf; subst ht
      cases h2
      refine ⟨c, hc, rfl, fun j x' hx' => ?_⟩
      simp only [Conn.setChan, List.getElem?_set] at hx'
      by_cases hj : ch = j
      · subst hj
        simp only [if_true] at hx'
        split at hx'
        · cases hx'; exact ⟨x, hx, Or.inr (trySend_len x c.cap c.overflow e)⟩
        · cases hx'
      · simp only [hj, if_false] at hx'
        exact ⟨x', hx', Or.inl rfl⟩
    · exact ⟨c', h2, rfl, fun j x' hx' => ⟨x', hx', Or.inl rfl⟩⟩
  unfold deliverTo at h
  split at h
  · next S c hS hc =>
    unfold Conn.chan at h
    split at h
    · exact ⟨c', h, rfl, fun j x' hx' => ⟨x', hx', Or.inl rfl⟩⟩
    · next x hx =>
      simp only [] at h
      split at h
      · exact key c x hc hx (by simpa using h)
      · exact key c x hc hx h
  · exact ⟨c', h, rfl, fun j x' hx' => ⟨x', hx', Or.inl rfl⟩⟩

end Iox2.ReqRes
