/-
Helper lemmas for Iox2/Props/C04Port.lean (the same as Iox2/Proof/ServiceCrash.lean for the port model): a crash-wrapped process whose
fuse is larger than the number of steps it is given behaves like the process without fuse.
-/
import Iox2.Model.PortCrash
namespace Iox2.PortCrash
open Iox2.Sched

theorem csys_step_fuse (sh : Shared) (t : Th) (f : Nat) :
    csys.step sh { inner := t, fuse := some (f + 1) } =
      (stepL sh t).map fun r => (r.1, { inner := r.2.1, fuse := some f }, [Ev.cell r.2.2]) := by
  simp only [csys, Sys.withCrash, sys]
  cases h : stepL sh t with
  | none => simp
  | some r => simp

theorem csys_step_nofuse (sh : Shared) (t : Th) :
    csys.step sh { inner := t } =
      (stepL sh t).map fun r => (r.1, { inner := r.2.1 }, [Ev.cell r.2.2]) := by
  simp only [csys, Sys.withCrash, sys]
  cases h : stepL sh t with
  | none => simp
  | some r => simp

theorem runC_big_fuse : ∀ (n : Nat) (sh : Shared) (t : Th) (f : Nat), n < f →
    (runC n sh { inner := t, fuse := some f }).1 = (runC n sh { inner := t }).1 ∧
    (runC n sh { inner := t, fuse := some f }).2.inner = (runC n sh { inner := t }).2.inner ∧
    (runC n sh { inner := t, fuse := some f }).2.dead = false ∧
    (runC n sh { inner := t }).2.dead = false := by
  intro n
  induction n with
  | zero => intro sh t f _; simp [runC]
  | succ n ih =>
    intro sh t f hf
    obtain ⟨g, rfl⟩ : ∃ g, f = g + 1 := ⟨f - 1, by omega⟩
    simp only [runC, csys_step_fuse, csys_step_nofuse]
    cases h : stepL sh t with
    | none => simp
    | some r =>
      simp only [Option.map_some]
      exact ih r.1 r.2.1 g (by omega)

theorem scenario_big_fuse (s : Scn) (k : Nat) (fc : Option Nat) (hk : fuel < k) :
    scenario s (some k) fc = scenario s none fc := by
  obtain ⟨h1, h2, h3, h4⟩ := runC_big_fuse fuel s.init s.victim k hk
  simp only [scenario, h1, h2, h3, h4]

theorem scenario_big_cleaner_fuse (s : Scn) (fv : Option Nat) (j : Nat) (hj : fuel < j) :
    scenario s fv (some j) = scenario s fv none := by
  obtain ⟨h1, h2, h3, h4⟩ := runC_big_fuse fuel (runC fuel s.init { inner := s.victim, fuse := fv }).1 (mkCleaner 7) j hj
  simp only [scenario, h1, h2, h3, h4]

end Iox2.PortCrash
