/-
Helper lemmas and the representation invariant of the wait-set model (Iox2/Model/WaitSet.lean).
Property theorems: Iox2/Props/C20.lean.
-/
import Iox2.Model.WaitSet

namespace Iox2.WaitSet

/-! ## association lists -/

theorem mapGet_eq_some {k v : Nat} {m : List (Nat × Nat)} (h : mapGet k m = some v) : (k, v) ∈ m := by
  unfold mapGet at h
  cases hf : m.find? (fun e => e.1 == k) with
  | none => simp [hf] at h
  | some e =>
    simp [hf] at h
    have := List.find?_some hf
    have hm := List.mem_of_find?_eq_some hf
    simp at this
    cases e; simp_all

theorem mapGet_insert (k k' v : Nat) (m : List (Nat × Nat)) :
    mapGet k (mapInsert k' v m) = if k = k' then some v else mapGet k m := by
  unfold mapGet mapInsert
  by_cases h : k = k'
  · subst h; simp
  · have h' : ¬ k' = k := fun e => h e.symm
    simp only [List.find?_cons, h, if_false]
    have : (k' == k) = false := by simp [h']
    simp only [this]
    congr 1
    induction m with
    | nil => rfl
    | cons e m ih =>
      simp only [List.filter_cons]
      by_cases he : e.1 = k'
      · have : (e.1 != k') = false := by simp [he]
        simp only [this, List.find?_cons]
        have : (e.1 == k) = false := by simp [he, h']
        simp [this, ih]
      · have : (e.1 != k') = true := by simp [he]
        simp only [this, List.find?_cons, if_true]
        cases hk : (e.1 == k) <;> simp [ih]

theorem mapGet_erase (k k' : Nat) (m : List (Nat × Nat)) :
    mapGet k (mapErase k' m) = if k = k' then none else mapGet k m := by
  unfold mapGet mapErase
  by_cases h : k = k'
  · subst h
    simp only [if_true]
    have : (m.filter (fun e => e.1 != k)).find? (fun e => e.1 == k) = none := by
      simp [List.find?_eq_none]
    simp [this]
  · have h' : ¬ k' = k := fun e => h e.symm
    simp only [h, if_false]
    congr 1
    induction m with
    | nil => rfl
    | cons e m ih =>
      simp only [List.filter_cons]
      by_cases he : e.1 = k'
      · have : (e.1 != k') = false := by simp [he]
        simp only [this, List.find?_cons]
        have : (e.1 == k) = false := by simp [he, h']
        simp [this, ih]
      · have : (e.1 != k') = true := by simp [he]
        simp only [this, List.find?_cons, if_true]
        cases hk : (e.1 == k) <;> simp [ih]

theorem mem_mapInsert {e : Nat × Nat} {k v : Nat} {m : List (Nat × Nat)} (h : e ∈ mapInsert k v m) :
    e = (k, v) ∨ e ∈ m := by
  unfold mapInsert at h
  simp at h
  rcases h with h | h
  · exact Or.inl h
  · exact Or.inr h.1

theorem mem_mapErase {e : Nat × Nat} {k : Nat} {m : List (Nat × Nat)} (h : e ∈ mapErase k m) : e ∈ m := by
  unfold mapErase at h
  simp at h
  exact h.1

/-! ## guards -/

def fdOf : Guard → Option Nat
  | .tick _ => none
  | .deadline fd _ => some fd
  | .notif fd => some fd

def idxOf : Guard → Option Nat
  | .tick i => some i
  | .deadline _ i => some i
  | .notif _ => none

def fds (gs : List (Nat × Guard)) : List Nat := gs.filterMap (fun e => fdOf e.2)
def idxs (gs : List (Nat × Guard)) : List Nat := gs.filterMap (fun e => idxOf e.2)

theorem guardOf_eq_some {g : Nat} {gd : Guard} {gs : List (Nat × Guard)} (h : guardOf g gs = some gd) :
    (g, gd) ∈ gs := by
  unfold guardOf at h
  cases hf : gs.find? (fun e => e.1 == g) with
  | none => simp [hf] at h
  | some e =>
    simp [hf] at h
    have := List.find?_some hf
    have hm := List.mem_of_find?_eq_some hf
    simp at this
    cases e; simp_all

theorem guardOf_eq_none {g : Nat} {gs : List (Nat × Guard)} (h : guardOf g gs = none) :
    ∀ gd, (g, gd) ∉ gs := by
  unfold guardOf at h
  simp [List.find?_eq_none] at h
  intro gd hm
  exact h _ _ hm rfl

theorem guardOf_of_mem {g : Nat} {gd : Guard} {gs : List (Nat × Guard)} (hn : (gs.map Prod.fst).Nodup)
    (hm : (g, gd) ∈ gs) : guardOf g gs = some gd := by
  induction gs with
  | nil => cases hm
  | cons e gs ih =>
    simp only [List.map_cons, List.nodup_cons] at hn
    unfold guardOf
    simp only [List.find?_cons]
    rcases List.mem_cons.mp hm with h | h
    · subst h; simp
    · have hne : e.1 ≠ g := by
        intro he
        apply hn.1
        rw [he]
        exact List.mem_map.mpr ⟨(g, gd), h, rfl⟩
      have : (e.1 == g) = false := by simp [hne]
      simp only [this]
      exact ih hn.2 h

theorem guardOf_isSome_iff {g : Nat} {gs : List (Nat × Guard)} :
    (guardOf g gs).isSome = false ↔ g ∉ gs.map Prod.fst := by
  constructor
  · intro h hm
    have hnone : guardOf g gs = none := by
      cases hg : guardOf g gs with
      | none => rfl
      | some x => simp [hg] at h
    obtain ⟨e, he, rfl⟩ := List.mem_map.mp hm
    exact guardOf_eq_none hnone e.2 he
  · intro h
    cases hg : guardOf g gs with
    | none => rfl
    | some gd =>
      exfalso
      exact h (List.mem_map.mpr ⟨(g, gd), guardOf_eq_some hg, rfl⟩)

/-- removing the guard with label `g` from the guard list removes exactly its key from a derived key list -/
theorem filterMap_remove (key : Guard → Option Nat) {gs : List (Nat × Guard)} {g : Nat} {gd : Guard}
    (hl : (gs.map Prod.fst).Nodup) (hk : (gs.filterMap (fun e => key e.2)).Nodup) (hm : (g, gd) ∈ gs) :
    (gs.filter (fun e => e.1 != g)).filterMap (fun e => key e.2) =
      match key gd with
      | some x => (gs.filterMap (fun e => key e.2)).filter (· != x)
      | none => gs.filterMap (fun e => key e.2) := by
  induction gs with
  | nil => cases hm
  | cons e gs ih =>
    simp only [List.map_cons, List.nodup_cons] at hl
    rcases List.mem_cons.mp hm with h | h
    · -- the head is the guard to remove; the tail has no label g and no key x
      subst h
      have htail : gs.filter (fun e => e.1 != g) = gs := by
        apply List.filter_eq_self.mpr
        intro a ha
        have : a.1 ≠ g := fun hag => hl.1 (hag ▸ List.mem_map.mpr ⟨a, ha, rfl⟩)
        simp [this]
      simp only [List.filter_cons, bne_self_eq_false, Bool.false_eq_true, if_false, htail]
      cases hkey : key gd with
      | none => simp [hkey]
      | some x =>
        simp only [List.filterMap_cons, hkey] at hk ⊢
        simp only [List.nodup_cons] at hk
        simp only [List.filter_cons, bne_self_eq_false, Bool.false_eq_true, if_false]
        symm
        apply List.filter_eq_self.mpr
        intro a ha
        have : a ≠ x := fun hax => hk.1 (hax ▸ ha)
        simp [this]
    · have hne : e.1 ≠ g := fun he => hl.1 (he ▸ List.mem_map.mpr ⟨(g, gd), h, rfl⟩)
      have hb : (e.1 != g) = true := by simp [hne]
      simp only [List.filter_cons, hb, if_true]
      cases hke : key e.2 with
      | none =>
        simp only [List.filterMap_cons, hke] at hk ⊢
        exact ih hl.2 hk h
      | some y =>
        simp only [List.filterMap_cons, hke] at hk ⊢
        simp only [List.nodup_cons] at hk
        rw [ih hl.2 hk.2 h]
        cases hkey : key gd with
        | none => rfl
        | some x =>
          have hyx : y ≠ x := by
            intro hyx
            apply hk.1
            rw [hyx]
            exact List.mem_filterMap.mpr ⟨(g, gd), h, hkey⟩
          simp [hyx]


/-! ## the invariant -/

structure Inv (s : State) : Prop where
  labels : (s.guards.map Prod.fst).Nodup
  count : s.count = s.guards.length
  cap : s.count ≤ s.cap
  reactor : s.reactor = fds s.guards
  fdsNodup : (fds s.guards).Nodup
  fdLt : ∀ fd ∈ fds s.guards, fd < s.nl
  dq : s.dq.map (·.idx) = idxs s.guards
  idxNodup : (idxs s.guards).Nodup
  idxLt : ∀ i ∈ idxs s.guards, i < s.idCount
  d2aLt : ∀ e ∈ s.d2a, e.1 < s.idCount
  a2dLt : ∀ e ∈ s.a2d, e.2 < s.idCount
  d2aTick : ∀ g i, (g, Guard.tick i) ∈ s.guards → mapGet i s.d2a = none
  d2aDl : ∀ g fd i, (g, Guard.deadline fd i) ∈ s.guards → mapGet i s.d2a = some fd
  a2dDl : ∀ g fd i, (g, Guard.deadline fd i) ∈ s.guards → mapGet fd s.a2d = some i
  a2dLive : ∀ fd i, mapGet fd s.a2d = some i → i ∈ idxs s.guards → ∃ g, (g, Guard.deadline fd i) ∈ s.guards
  startLe : ∀ a ∈ s.dq, a.start ≤ s.now

theorem inv_init (cap : Nat) (cf : Bool) (nl ns ev : Nat) : Inv (State.init cap cf nl ns ev) := by
  constructor <;> simp [State.init, fds, idxs, mapGet]

theorem mem_fds {gs : List (Nat × Guard)} {fd : Nat} :
    fd ∈ fds gs ↔ ∃ g gd, (g, gd) ∈ gs ∧ fdOf gd = some fd := by
  unfold fds
  simp [List.mem_filterMap]

theorem mem_idxs {gs : List (Nat × Guard)} {i : Nat} :
    i ∈ idxs gs ↔ ∃ g gd, (g, gd) ∈ gs ∧ idxOf gd = some i := by
  unfold idxs
  simp [List.mem_filterMap]

theorem fds_append (gs : List (Nat × Guard)) (g : Nat) (gd : Guard) :
    fds (gs ++ [(g, gd)]) = fds gs ++ (match fdOf gd with | some fd => [fd] | none => []) := by
  unfold fds
  cases h : fdOf gd <;> simp [List.filterMap_append, h]

theorem idxs_append (gs : List (Nat × Guard)) (g : Nat) (gd : Guard) :
    idxs (gs ++ [(g, gd)]) = idxs gs ++ (match idxOf gd with | some i => [i] | none => []) := by
  unfold idxs
  cases h : idxOf gd <;> simp [List.filterMap_append, h]

theorem reactorAttach_ok {s : State} {fd : Nat} {r : List Nat} (h : reactorAttach s fd = .ok r) :
    fd ∉ s.reactor ∧ r = s.reactor ++ [fd] := by
  unfold reactorAttach at h
  split at h
  · cases h
  · split at h
    · cases h
    · rename_i hn
      cases h
      exact ⟨hn, rfl⟩


theorem labels_append {gs : List (Nat × Guard)} {g : Nat} (gd : Guard) (hl : (gs.map Prod.fst).Nodup)
    (hf : (guardOf g gs).isSome = false) : ((gs ++ [(g, gd)]).map Prod.fst).Nodup := by
  have := guardOf_isSome_iff.mp hf
  simp only [List.map_append, List.map_cons, List.map_nil]
  apply List.nodup_append.mpr
  refine ⟨hl, by simp, ?_⟩
  intro a ha b hb
  simp at hb
  subst hb
  intro hab
  exact this (hab ▸ ha)

theorem mem_append_singleton {gs : List (Nat × Guard)} {g g' : Nat} {gd gd' : Guard}
    (h : (g', gd') ∈ gs ++ [(g, gd)]) (hne : gd' ≠ gd) : (g', gd') ∈ gs := by
  rcases List.mem_append.mp h with h | h
  · exact h
  · simp at h
    exact absurd h.2 hne

theorem attachN_inv {s : State} (h : Inv s) (g l : Nat) : Inv (attachN s g l).1 := by
  unfold attachN
  split
  · exact h
  · split
    · exact h
    · rename_i hl hg
      split
      · exact h
      · rename_i r hr
        obtain ⟨hnotin, rfl⟩ := reactorAttach_ok hr
        split
        · exact h
        · rename_i hc
          have hg' : (guardOf g s.guards).isSome = false := by simpa using hg
          have hfd : fds (s.guards ++ [(g, Guard.notif l)]) = fds s.guards ++ [l] := by
            rw [fds_append]; rfl
          have hix : idxs (s.guards ++ [(g, Guard.notif l)]) = idxs s.guards := by
            rw [idxs_append]; simp [idxOf]
          have hnot : l ∉ fds s.guards := h.reactor ▸ hnotin
          constructor
          · exact labels_append _ h.labels hg'
          · simp [h.count]
          · have := h.cap; have := h.count; simp only; omega
          · simp only [hfd, h.reactor]
          · simp only [hfd]
            apply List.nodup_append.mpr
            refine ⟨h.fdsNodup, by simp, ?_⟩
            intro a ha b hb
            simp at hb; subst hb
            intro hab; exact hnot (hab ▸ ha)
          · simp only [hfd]
            intro fd hfd'
            rcases List.mem_append.mp hfd' with h1 | h1
            · exact h.fdLt fd h1
            · simp at h1; subst h1; omega
          · simp only [hix]; exact h.dq
          · simp only [hix]; exact h.idxNodup
          · simp only [hix]; exact h.idxLt
          · exact h.d2aLt
          · exact h.a2dLt
          · intro g' i hm
            exact h.d2aTick g' i (mem_append_singleton hm (by simp))
          · intro g' fd i hm
            exact h.d2aDl g' fd i (mem_append_singleton hm (by simp))
          · intro g' fd i hm
            exact h.a2dDl g' fd i (mem_append_singleton hm (by simp))
          · intro fd i hmg hi
            simp only [hix] at hi
            obtain ⟨g', hg''⟩ := h.a2dLive fd i hmg hi
            exact ⟨g', List.mem_append_left _ hg''⟩
          · exact h.startLe


theorem attachI_inv {s : State} (h : Inv s) (g p : Nat) : Inv (attachI s g p).1 := by
  unfold attachI
  split
  · exact h
  · rename_i hg
    have hg' : (guardOf g s.guards).isSome = false := by simpa using hg
    split
    · -- refused: only id_count moves
      constructor
      · exact h.labels
      · exact h.count
      · exact h.cap
      · exact h.reactor
      · exact h.fdsNodup
      · exact h.fdLt
      · exact h.dq
      · exact h.idxNodup
      · intro i hi; have := h.idxLt i hi; simp only; omega
      · intro e he; have := h.d2aLt e he; simp only; omega
      · intro e he; have := h.a2dLt e he; simp only; omega
      · exact h.d2aTick
      · exact h.d2aDl
      · exact h.a2dDl
      · exact h.a2dLive
      · exact h.startLe
    · rename_i hc
      have hfd : fds (s.guards ++ [(g, Guard.tick s.idCount)]) = fds s.guards := by
        rw [fds_append]; simp [fdOf]
      have hix : idxs (s.guards ++ [(g, Guard.tick s.idCount)]) = idxs s.guards ++ [s.idCount] := by
        rw [idxs_append]; rfl
      have hnot : s.idCount ∉ idxs s.guards := fun hm => Nat.lt_irrefl _ (h.idxLt _ hm)
      constructor
      · exact labels_append _ h.labels hg'
      · simp [h.count]
      · have := h.cap; have := h.count; simp only; omega
      · simp only [hfd]; exact h.reactor
      · simp only [hfd]; exact h.fdsNodup
      · simp only [hfd]; exact h.fdLt
      · simp only [hix, List.map_append, h.dq, List.map_cons, List.map_nil]
      · simp only [hix]
        apply List.nodup_append.mpr
        refine ⟨h.idxNodup, by simp, ?_⟩
        intro a ha b hb
        simp at hb; subst hb
        intro hab; exact hnot (hab ▸ ha)
      · simp only [hix]
        intro i hi
        rcases List.mem_append.mp hi with h1 | h1
        · have := h.idxLt i h1; omega
        · simp at h1; omega
      · intro e he; have := h.d2aLt e he; simp only; omega
      · intro e he; have := h.a2dLt e he; simp only; omega
      · intro g' i hm
        rcases List.mem_append.mp hm with h1 | h1
        · exact h.d2aTick g' i h1
        · simp at h1
          obtain ⟨_, rfl⟩ := h1
          cases hget : mapGet s.idCount s.d2a with
          | none => rfl
          | some v => exact absurd (h.d2aLt _ (mapGet_eq_some hget)) (Nat.lt_irrefl _)
      · intro g' fd i hm
        exact h.d2aDl g' fd i (mem_append_singleton hm (by simp))
      · intro g' fd i hm
        exact h.a2dDl g' fd i (mem_append_singleton hm (by simp))
      · intro fd i hmg hi
        simp only [hix] at hi
        rcases List.mem_append.mp hi with h1 | h1
        · obtain ⟨g', hg''⟩ := h.a2dLive fd i hmg h1
          exact ⟨g', List.mem_append_left _ hg''⟩
        · simp at h1; subst h1
          exact absurd (h.a2dLt _ (mapGet_eq_some hmg)) (Nat.lt_irrefl _)
      · intro a ha
        rcases List.mem_append.mp ha with h1 | h1
        · exact h.startLe a h1
        · simp at h1; subst h1; simp

theorem attachD_inv {s : State} (h : Inv s) (g l p : Nat) : Inv (attachD s g l p).1 := by
  unfold attachD
  split
  · exact h
  · split
    · exact h
    · rename_i hl hg
      split
      · exact h
      · rename_i r hr
        obtain ⟨hnotin, rfl⟩ := reactorAttach_ok hr
        have hg' : (guardOf g s.guards).isSome = false := by simpa using hg
        have hnot : l ∉ fds s.guards := h.reactor ▸ hnotin
        have hnoti : s.idCount ∉ idxs s.guards := fun hm => Nat.lt_irrefl _ (h.idxLt _ hm)
        -- facts about the two maps after the inserts (both branches)
        have hd2aLt : ∀ e ∈ mapInsert s.idCount l s.d2a, e.1 < s.idCount + 1 := by
          intro e he
          rcases mem_mapInsert he with rfl | h1
          · simp
          · have := h.d2aLt e h1; omega
        have ha2dLt : ∀ e ∈ mapInsert l s.idCount s.a2d, e.2 < s.idCount + 1 := by
          intro e he
          rcases mem_mapInsert he with rfl | h1
          · simp
          · have := h.a2dLt e h1; omega
        have hTick : ∀ g' i, (g', Guard.tick i) ∈ s.guards → mapGet i (mapInsert s.idCount l s.d2a) = none := by
          intro g' i hm
          have hi : i ∈ idxs s.guards := mem_idxs.mpr ⟨g', _, hm, rfl⟩
          have : i ≠ s.idCount := fun e => hnoti (e ▸ hi)
          rw [mapGet_insert, if_neg this]
          exact h.d2aTick g' i hm
        have hDl : ∀ g' fd i, (g', Guard.deadline fd i) ∈ s.guards → mapGet i (mapInsert s.idCount l s.d2a) = some fd := by
          intro g' fd i hm
          have hi : i ∈ idxs s.guards := mem_idxs.mpr ⟨g', _, hm, rfl⟩
          have : i ≠ s.idCount := fun e => hnoti (e ▸ hi)
          rw [mapGet_insert, if_neg this]
          exact h.d2aDl g' fd i hm
        have hADl : ∀ g' fd i, (g', Guard.deadline fd i) ∈ s.guards → mapGet fd (mapInsert l s.idCount s.a2d) = some i := by
          intro g' fd i hm
          have hf : fd ∈ fds s.guards := mem_fds.mpr ⟨g', _, hm, rfl⟩
          have : fd ≠ l := fun e => hnot (e ▸ hf)
          rw [mapGet_insert, if_neg this]
          exact h.a2dDl g' fd i hm
        have hLive : ∀ fd i, mapGet fd (mapInsert l s.idCount s.a2d) = some i → i ∈ idxs s.guards →
            ∃ g', (g', Guard.deadline fd i) ∈ s.guards := by
          intro fd i hmg hi
          rw [mapGet_insert] at hmg
          split at hmg
          · cases hmg; exact absurd hi hnoti
          · exact h.a2dLive fd i hmg hi
        split
        · -- refused by WaitSet::attach(): the map entries stay, everything else as before
          constructor
          · exact h.labels
          · exact h.count
          · exact h.cap
          · exact h.reactor
          · exact h.fdsNodup
          · exact h.fdLt
          · exact h.dq
          · exact h.idxNodup
          · intro i hi; have := h.idxLt i hi; simp only; omega
          · exact hd2aLt
          · exact ha2dLt
          · exact hTick
          · exact hDl
          · exact hADl
          · exact hLive
          · exact h.startLe
        · rename_i hc
          have hfd : fds (s.guards ++ [(g, Guard.deadline l s.idCount)]) = fds s.guards ++ [l] := by
            rw [fds_append]; rfl
          have hix : idxs (s.guards ++ [(g, Guard.deadline l s.idCount)]) = idxs s.guards ++ [s.idCount] := by
            rw [idxs_append]; rfl
          constructor
          · exact labels_append _ h.labels hg'
          · simp [h.count]
          · have := h.cap; have := h.count; simp only; omega
          · simp only [hfd, h.reactor]
          · simp only [hfd]
            apply List.nodup_append.mpr
            refine ⟨h.fdsNodup, by simp, ?_⟩
            intro a ha b hb
            simp at hb; subst hb
            intro hab; exact hnot (hab ▸ ha)
          · simp only [hfd]
            intro fd hfd'
            rcases List.mem_append.mp hfd' with h1 | h1
            · exact h.fdLt fd h1
            · simp at h1; subst h1; omega
          · simp only [hix, List.map_append, h.dq, List.map_cons, List.map_nil]
          · simp only [hix]
            apply List.nodup_append.mpr
            refine ⟨h.idxNodup, by simp, ?_⟩
            intro a ha b hb
            simp at hb; subst hb
            intro hab; exact hnoti (hab ▸ ha)
          · simp only [hix]
            intro i hi
            rcases List.mem_append.mp hi with h1 | h1
            · have := h.idxLt i h1; omega
            · simp at h1; omega
          · exact hd2aLt
          · exact ha2dLt
          · intro g' i hm
            exact hTick g' i (mem_append_singleton hm (by simp))
          · intro g' fd i hm
            rcases List.mem_append.mp hm with h1 | h1
            · exact hDl g' fd i h1
            · simp at h1
              obtain ⟨_, rfl, rfl⟩ := h1
              simp [mapGet_insert]
          · intro g' fd i hm
            rcases List.mem_append.mp hm with h1 | h1
            · exact hADl g' fd i h1
            · simp at h1
              obtain ⟨_, rfl, rfl⟩ := h1
              simp [mapGet_insert]
          · intro fd i hmg hi
            simp only [hix] at hi
            rcases List.mem_append.mp hi with h1 | h1
            · obtain ⟨g', hg''⟩ := hLive fd i hmg h1
              exact ⟨g', List.mem_append_left _ hg''⟩
            · simp at h1; subst h1
              rw [mapGet_insert] at hmg
              split at hmg
              · rename_i hfl; subst hfl
                exact ⟨g, List.mem_append_right _ (by simp)⟩
              · exact absurd (h.a2dLt _ (mapGet_eq_some hmg)) (Nat.lt_irrefl _)
          · intro a ha
            rcases List.mem_append.mp ha with h1 | h1
            · exact h.startLe a h1
            · simp at h1; subst h1; simp


/-! ### dropping a guard -/

theorem filterMap_remove_some (key : Guard → Option Nat) {gs : List (Nat × Guard)} {g x : Nat} {gd : Guard}
    (hl : (gs.map Prod.fst).Nodup) (hk : (gs.filterMap (fun e => key e.2)).Nodup) (hm : (g, gd) ∈ gs)
    (hx : key gd = some x) :
    (gs.filter (fun e => e.1 != g)).filterMap (fun e => key e.2) = (gs.filterMap (fun e => key e.2)).filter (· != x) := by
  have := filterMap_remove key hl hk hm
  rw [hx] at this
  exact this

theorem filterMap_remove_none (key : Guard → Option Nat) {gs : List (Nat × Guard)} {g : Nat} {gd : Guard}
    (hl : (gs.map Prod.fst).Nodup) (hk : (gs.filterMap (fun e => key e.2)).Nodup) (hm : (g, gd) ∈ gs)
    (hx : key gd = none) :
    (gs.filter (fun e => e.1 != g)).filterMap (fun e => key e.2) = gs.filterMap (fun e => key e.2) := by
  have := filterMap_remove key hl hk hm
  rw [hx] at this
  exact this

theorem key_unique (key : Guard → Option Nat) {gs : List (Nat × Guard)} {e1 e2 : Nat × Guard} {x : Nat}
    (hk : (gs.filterMap (fun e => key e.2)).Nodup) (h1 : e1 ∈ gs) (h2 : e2 ∈ gs)
    (k1 : key e1.2 = some x) (k2 : key e2.2 = some x) : e1 = e2 := by
  induction gs with
  | nil => cases h1
  | cons e gs ih =>
    have hmem : ∀ e', e' ∈ gs → key e'.2 = some x → x ∈ gs.filterMap (fun e => key e.2) :=
      fun e' he' hk' => List.mem_filterMap.mpr ⟨e', he', hk'⟩
    rcases List.mem_cons.mp h1 with r1 | r1 <;> rcases List.mem_cons.mp h2 with r2 | r2
    · rw [r1, r2]
    · subst r1
      simp only [List.filterMap_cons, k1, List.nodup_cons] at hk
      exact absurd (hmem e2 r2 k2) hk.1
    · subst r2
      simp only [List.filterMap_cons, k2, List.nodup_cons] at hk
      exact absurd (hmem e1 r1 k1) hk.1
    · cases hke : key e.2 with
      | none => simp only [List.filterMap_cons, hke] at hk; exact ih hk r1 r2
      | some y => simp only [List.filterMap_cons, hke, List.nodup_cons] at hk; exact ih hk.2 r1 r2

theorem mem_filter_label {gs : List (Nat × Guard)} {g : Nat} {e : Nat × Guard} :
    e ∈ gs.filter (fun e => e.1 != g) ↔ e ∈ gs ∧ e.1 ≠ g := by
  simp [List.mem_filter]

theorem length_filter_label {gs : List (Nat × Guard)} {g : Nat} {gd : Guard} (hl : (gs.map Prod.fst).Nodup)
    (hm : (g, gd) ∈ gs) : (gs.filter (fun e => e.1 != g)).length + 1 = gs.length := by
  induction gs with
  | nil => cases hm
  | cons e gs ih =>
    simp only [List.map_cons, List.nodup_cons] at hl
    rcases List.mem_cons.mp hm with h | h
    · subst h
      have htail : gs.filter (fun e => e.1 != g) = gs := by
        apply List.filter_eq_self.mpr
        intro a ha
        have : a.1 ≠ g := fun hag => hl.1 (hag ▸ List.mem_map.mpr ⟨a, ha, rfl⟩)
        simp [this]
      simp [htail]
    · have hne : e.1 ≠ g := fun he => hl.1 (he ▸ List.mem_map.mpr ⟨(g, gd), h, rfl⟩)
      have hb : (e.1 != g) = true := by simp [hne]
      simp only [List.filter_cons, hb, if_true, List.length_cons]
      have := ih hl.2 h
      omega

theorem fds_filter_sub {gs : List (Nat × Guard)} {g fd : Nat} (h : fd ∈ fds (gs.filter (fun e => e.1 != g))) :
    fd ∈ fds gs := by
  obtain ⟨g', gd', hm, hk⟩ := mem_fds.mp h
  exact mem_fds.mpr ⟨g', gd', (mem_filter_label.mp hm).1, hk⟩

theorem idxs_filter_sub {gs : List (Nat × Guard)} {g i : Nat} (h : i ∈ idxs (gs.filter (fun e => e.1 != g))) :
    i ∈ idxs gs := by
  obtain ⟨g', gd', hm, hk⟩ := mem_idxs.mp h
  exact mem_idxs.mpr ⟨g', gd', (mem_filter_label.mp hm).1, hk⟩

theorem dqRemove_idx (idx : Nat) (dq : List DqAtt) :
    (dqRemove idx dq).map (·.idx) = (dq.map (·.idx)).filter (· != idx) := by
  unfold dqRemove
  induction dq with
  | nil => rfl
  | cons a dq ih =>
    simp only [List.filter_cons, List.map_cons]
    cases h : (a.idx != idx) <;> simp [ih]

theorem dropGuard_inv {s : State} (h : Inv s) (g : Nat) : Inv (dropGuard s g).1 := by
  unfold dropGuard
  split
  · exact h
  · rename_i gd hgd
    have hm : (g, gd) ∈ s.guards := guardOf_eq_some hgd
    have hlen := length_filter_label h.labels hm
    have hlab : ((s.guards.filter (fun e => e.1 != g)).map Prod.fst).Nodup :=
      List.Nodup.sublist (List.Sublist.map _ List.filter_sublist) h.labels
    have hfdsN : (fds (s.guards.filter (fun e => e.1 != g))).Nodup :=
      List.Nodup.sublist (List.Sublist.filterMap _ List.filter_sublist) h.fdsNodup
    have hidxN : (idxs (s.guards.filter (fun e => e.1 != g))).Nodup :=
      List.Nodup.sublist (List.Sublist.filterMap _ List.filter_sublist) h.idxNodup
    have hfdLt : ∀ fd ∈ fds (s.guards.filter (fun e => e.1 != g)), fd < s.nl :=
      fun fd hfd => h.fdLt fd (fds_filter_sub hfd)
    have hidxLt : ∀ i ∈ idxs (s.guards.filter (fun e => e.1 != g)), i < s.idCount :=
      fun i hi => h.idxLt i (idxs_filter_sub hi)
    have hcount : s.count - 1 = (s.guards.filter (fun e => e.1 != g)).length := by
      have := h.count; omega
    have hcap : s.count - 1 ≤ s.cap := by have := h.cap; omega
    -- a surviving guard differs from the dropped one in label, hence in descriptor and index
    have hother : ∀ g' gd', (g', gd') ∈ s.guards.filter (fun e => e.1 != g) → (g', gd') ∈ s.guards ∧ g' ≠ g :=
      fun g' gd' hm' => mem_filter_label.mp hm'
    have hfdne : ∀ g' gd' fd, (g', gd') ∈ s.guards.filter (fun e => e.1 != g) → fdOf gd' = some fd → fdOf gd ≠ some fd := by
      intro g' gd' fd hm' hk hk'
      have := key_unique fdOf h.fdsNodup (hother g' gd' hm').1 hm hk hk'
      exact (hother g' gd' hm').2 (congrArg Prod.fst this)
    have hidxne : ∀ g' gd' i, (g', gd') ∈ s.guards.filter (fun e => e.1 != g) → idxOf gd' = some i → idxOf gd ≠ some i := by
      intro g' gd' i hm' hk hk'
      have := key_unique idxOf h.idxNodup (hother g' gd' hm').1 hm hk hk'
      exact (hother g' gd' hm').2 (congrArg Prod.fst this)
    -- a live a2d entry never points to the dropped guard unless that guard is the deadline guard of the descriptor
    have hlive : ∀ fd i, mapGet fd s.a2d = some i → i ∈ idxs (s.guards.filter (fun e => e.1 != g)) →
        gd ≠ Guard.deadline fd i → ∃ g', (g', Guard.deadline fd i) ∈ s.guards.filter (fun e => e.1 != g) := by
      intro fd i hmg hi hne
      obtain ⟨g', hg'⟩ := h.a2dLive fd i hmg (idxs_filter_sub hi)
      refine ⟨g', mem_filter_label.mpr ⟨hg', ?_⟩⟩
      intro hgg
      simp only at hgg
      subst hgg
      have := guardOf_of_mem h.labels hg'
      rw [hgd] at this
      cases this
      exact hne rfl
    cases gd with
    | tick idx =>
      have hfds : fds (s.guards.filter (fun e => e.1 != g)) = fds s.guards :=
        filterMap_remove_none fdOf h.labels h.fdsNodup hm rfl
      have hidxs : idxs (s.guards.filter (fun e => e.1 != g)) = (idxs s.guards).filter (· != idx) :=
        filterMap_remove_some idxOf h.labels h.idxNodup hm rfl
      constructor
      · exact hlab
      · exact hcount
      · exact hcap
      · show s.reactor = _
        rw [hfds]; exact h.reactor
      · exact hfdsN
      · exact hfdLt
      · show (dqRemove idx s.dq).map (·.idx) = _
        rw [dqRemove_idx, h.dq, hidxs]
      · exact hidxN
      · exact hidxLt
      · exact h.d2aLt
      · exact h.a2dLt
      · intro g' i hm'; exact h.d2aTick g' i (hother _ _ hm').1
      · intro g' fd i hm'; exact h.d2aDl g' fd i (hother _ _ hm').1
      · intro g' fd i hm'; exact h.a2dDl g' fd i (hother _ _ hm').1
      · intro fd i hmg hi; exact hlive fd i hmg hi (by simp)
      · intro a ha
        exact h.startLe a (List.mem_filter.mp ha).1
    | notif fd0 =>
      have hfds : fds (s.guards.filter (fun e => e.1 != g)) = (fds s.guards).filter (· != fd0) :=
        filterMap_remove_some fdOf h.labels h.fdsNodup hm rfl
      have hidxs : idxs (s.guards.filter (fun e => e.1 != g)) = idxs s.guards :=
        filterMap_remove_none idxOf h.labels h.idxNodup hm rfl
      constructor
      · exact hlab
      · exact hcount
      · exact hcap
      · show reactorRemove fd0 s.reactor = _
        rw [hfds, h.reactor]; rfl
      · exact hfdsN
      · exact hfdLt
      · show s.dq.map (·.idx) = _
        rw [hidxs]; exact h.dq
      · exact hidxN
      · exact hidxLt
      · exact h.d2aLt
      · exact h.a2dLt
      · intro g' i hm'; exact h.d2aTick g' i (hother _ _ hm').1
      · intro g' fd i hm'; exact h.d2aDl g' fd i (hother _ _ hm').1
      · intro g' fd i hm'; exact h.a2dDl g' fd i (hother _ _ hm').1
      · intro fd i hmg hi; exact hlive fd i hmg hi (by simp)
      · exact h.startLe
    | deadline fd0 idx0 =>
      have hfds : fds (s.guards.filter (fun e => e.1 != g)) = (fds s.guards).filter (· != fd0) :=
        filterMap_remove_some fdOf h.labels h.fdsNodup hm rfl
      have hidxs : idxs (s.guards.filter (fun e => e.1 != g)) = (idxs s.guards).filter (· != idx0) :=
        filterMap_remove_some idxOf h.labels h.idxNodup hm rfl
      constructor
      · exact hlab
      · exact hcount
      · exact hcap
      · show reactorRemove fd0 s.reactor = _
        rw [hfds, h.reactor]; rfl
      · exact hfdsN
      · exact hfdLt
      · show (dqRemove idx0 s.dq).map (·.idx) = _
        rw [dqRemove_idx, h.dq, hidxs]
      · exact hidxN
      · exact hidxLt
      · intro e he; exact h.d2aLt e (mem_mapErase he)
      · intro e he; exact h.a2dLt e (mem_mapErase he)
      · intro g' i hm'
        show mapGet i (mapErase idx0 s.d2a) = none
        rw [mapGet_erase]
        split
        · rfl
        · exact h.d2aTick g' i (hother _ _ hm').1
      · intro g' fd i hm'
        show mapGet i (mapErase idx0 s.d2a) = some fd
        have : i ≠ idx0 := fun e => hidxne g' _ i hm' rfl (by simp [idxOf, e])
        rw [mapGet_erase, if_neg this]
        exact h.d2aDl g' fd i (hother _ _ hm').1
      · intro g' fd i hm'
        show mapGet fd (mapErase fd0 s.a2d) = some i
        have : fd ≠ fd0 := fun e => hfdne g' _ fd hm' rfl (by simp [fdOf, e])
        rw [mapGet_erase, if_neg this]
        exact h.a2dDl g' fd i (hother _ _ hm').1
      · intro fd i hmg hi
        have hmg' : mapGet fd (mapErase fd0 s.a2d) = some i := hmg
        rw [mapGet_erase] at hmg'
        split at hmg'
        · cases hmg'
        · rename_i hne
          exact hlive fd i hmg' hi (by intro e; cases e; exact hne rfl)
      · intro a ha
        exact h.startLe a (List.mem_filter.mp ha).1


/-! ### processing call -/

/-- one `reset_deadline` as a map over the queue -/
theorem resetFor_eq_map (a2d : List (Nat × Nat)) (now : Nat) (dq : List DqAtt) (fd : Nat) :
    resetFor a2d now dq fd =
      dq.map (fun a => if mapGet fd a2d = some a.idx then { a with start := now } else a) := by
  unfold resetFor
  cases h : mapGet fd a2d with
  | none => simp
  | some idx =>
    simp only [dqReset]
    apply List.map_congr_left
    intro a _
    by_cases hi : a.idx = idx
    · simp [hi]
    · have : ¬ idx = a.idx := fun e => hi e.symm
      simp [hi, this]

/-- all `reset_deadline` calls of one processing call as a map over the queue -/
theorem foldl_resetFor (a2d : List (Nat × Nat)) (now : Nat) (trig : List Nat) (dq : List DqAtt) :
    trig.foldl (resetFor a2d now) dq =
      dq.map (fun a => if trig.any (fun fd => mapGet fd a2d == some a.idx) then { a with start := now } else a) := by
  induction trig generalizing dq with
  | nil => simp
  | cons fd trig ih =>
    simp only [List.foldl_cons]
    rw [ih, resetFor_eq_map, List.map_map]
    apply List.map_congr_left
    intro a _
    simp only [Function.comp, List.any_cons]
    by_cases h1 : mapGet fd a2d = some a.idx
    · simp [h1]
    · simp [h1]

theorem dqAfterReset_idx (s : State) : (dqAfterReset s).map (·.idx) = s.dq.map (·.idx) := by
  unfold dqAfterReset
  rw [foldl_resetFor, List.map_map]
  apply List.map_congr_left
  intro a _
  simp only [Function.comp]
  split <;> rfl

theorem runOnce_inv {s : State} (h : Inv s) : Inv (runOnce s).1 := by
  unfold runOnce
  split
  · exact h
  · constructor
    · exact h.labels
    · exact h.count
    · exact h.cap
    · exact h.reactor
    · exact h.fdsNodup
    · exact h.fdLt
    · show (dqAfterReset s).map (·.idx) = _
      rw [dqAfterReset_idx]; exact h.dq
    · exact h.idxNodup
    · exact h.idxLt
    · exact h.d2aLt
    · exact h.a2dLt
    · exact h.d2aTick
    · exact h.d2aDl
    · exact h.a2dDl
    · exact h.a2dLive
    · intro a ha
      have ha' : a ∈ dqAfterReset s := ha
      unfold dqAfterReset at ha'
      rw [foldl_resetFor] at ha'
      obtain ⟨b, hb, rfl⟩ := List.mem_map.mp ha'
      split
      · simp
      · exact h.startLe b hb

theorem step_inv {s : State} (h : Inv s) (op : Op) : Inv (step s op).1 := by
  cases op with
  | attachN g l => exact attachN_inv h g l
  | attachD g l p => exact attachD_inv h g l p
  | attachI g p => exact attachI_inv h g p
  | dropGuard g => exact dropGuard_inv h g
  | runOnce => exact runOnce_inv h
  | notify l id =>
    simp only [step]
    split
    · exact h
    · split
      · exact h
      · exact { h with }
  | notifyAll sv id =>
    simp only [step]
    split
    · exact h
    · split
      · exact h
      · exact { h with }
  | drain l =>
    simp only [step]
    split
    · exact h
    · exact { h with }
  | advance k =>
    simp only [step]
    exact { h with startLe := fun a ha => Nat.le_trans (h.startLe a ha) (Nat.le_add_right _ _) }
  | len => exact h
  | capacity => exact h
  | isEmpty => exact h

theorem run_inv {s : State} (h : Inv s) (ops : List Op) : Inv (run s ops) := by
  induction ops generalizing s with
  | nil => exact h
  | cons op ops ih => exact ih (step_inv h op)

/-- states reachable from a freshly created wait set by any history -/
def Reachable (s : State) : Prop :=
  ∃ cap cf nl ns ev ops, s = run (State.init cap cf nl ns ev) ops

theorem reachable_inv {s : State} (h : Reachable s) : Inv s := by
  obtain ⟨cap, cf, nl, ns, ev, ops, rfl⟩ := h
  exact run_inv (inv_init cap cf nl ns ev) ops

theorem reachable_step {s : State} (h : Reachable s) (op : Op) : Reachable (step s op).1 := by
  obtain ⟨cap, cf, nl, ns, ev, ops, rfl⟩ := h
  refine ⟨cap, cf, nl, ns, ev, ops ++ [op], ?_⟩
  have : ∀ (s : State) (ops : List Op), run s (ops ++ [op]) = (step (run s ops) op).1 := by
    intro s ops
    induction ops generalizing s with
    | nil => rfl
    | cons o ops ih => exact ih _
  exact (this _ _).symm

end Iox2.WaitSet
