/-
C02 — the chunk returned by a successful `loan` was unreferenced before the call.
-/
import Iox2.Proof.PubSubC02PubAcc

namespace Iox2.PubSub.C02P
open Iox2.PubSub

theorem loan_ok_spec {w : World} {p l : Nat} (hok : (step w (.loan p l)).2 = "ok") :
    ∃ P0 P1 c rest, getP w p = some P0 ∧ P0.alive = true ∧
      getP (retrieveReturned w p) p = some P1 ∧ P1.free = c :: rest ∧
      (step w (.loan p l)).1 = setP (retrieveReturned w p) p
        { P1 with free := rest, rc := P1.rc.set c 1, loanCnt := P1.loanCnt + 1,
                  loans := P1.loans ++ [(l, c)] } := by
  simp only [step] at hok ⊢
  cases hP0 : getP w p with
  | none => rw [hP0] at hok; simp at hok
  | some P0 =>
    rw [hP0] at hok
    simp only [] at hok ⊢
    split at hok
    · simp at hok
    · rename_i hal
      split at hok
      · simp at hok
      · rename_i hfind
        cases hP : getP (retrieveReturned w p) p with
        | none => rw [hP] at hok; simp at hok
        | some P =>
          rw [hP] at hok
          simp only [] at hok
          split at hok
          · simp at hok
          · rename_i hcnt
            split at hok
            · simp at hok
            · rename_i c rest hf
              split at hok
              · simp at hok
              · rename_i hrc
                refine ⟨P0, P, c, rest, rfl, by simpa using hal, rfl, hf, ?_⟩
                simp only [hal, hfind, hcnt, hf, hrc, if_false]
                rfl

/-- nothing the API can still reach refers to the chunk handed out by `loan` -/
theorem loan_unreferenced {w : World} {p l : Nat} (hi : Inv {} {} w)
    (hok : (step w (.loan p l)).2 = "ok") :
    ∃ P' c, getP (step w (.loan p l)).1 p = some P' ∧ (l, c) ∈ P'.loans ∧
      ∀ P, getP w p = some P →
        (∀ l', (l', c) ∉ P.loans) ∧ c ∉ P.hist ∧
        (∀ s S cn, getS w s = some S → S.alive = true → getC w p s = some cn →
          c ∉ cn.sub.map (·.1)) ∧
        (∀ s S h, getS w s = some S → S.alive = true → h ∈ S.held → h.pid = p → h.chunk ≠ c) := by
  obtain ⟨P0, P1, c, rest, hP0, hal, hP1, hf, hw⟩ := loan_ok_spec hok
  obtain ⟨hi1, hd, _⟩ := retrieveReturned_inv (p := p) hi
  refine ⟨_, c, by rw [hw]; simp [hP1]; rfl, by simp, ?_⟩
  intro P hP
  rw [hP0] at hP; cases hP
  have he := hd.pubs p
  rw [hP1, hP0] at he
  simp only [Option.map_some, Option.some.injEq] at he
  have e1 : P1.loans = P0.loans := by have := congrArg Pub.loans he; simpa [eraseRF] using this
  have e2 : P1.hist = P0.hist := by have := congrArg Pub.hist he; simpa [eraseRF] using this
  have e3 : P1.ex = P0.ex := by have := congrArg Pub.ex he; simpa [eraseRF] using this
  have hex : P1.ex = true := by rw [e3]; exact (hi.top.pubs p P0 hP0).aliveEx hal
  obtain ⟨r1, r2, r3, r4⟩ := final_free_not_referenced hi1 hP1 hex (c := c) (by rw [hf]; simp)
  refine ⟨by rw [← e1]; exact r1, by rw [← e2]; exact r2, ?_, ?_⟩
  · intro s S cn hS ha hC
    obtain ⟨cn1, hC1, ec⟩ := map_eq_some_left (hd.conns p s).symm hC
    have : cn1.sub = cn.sub := by
      have := congrArg Conn.sub ec; simpa [eraseCU] using this.symm
    rw [← this]
    exact r3 s S cn1 (by rw [hd.subs]; exact hS) ha hC1
  · intro s S h hS ha hh hp
    exact r4 s S h (by rw [hd.subs]; exact hS) ha hh hp

end Iox2.PubSub.C02P
