/-
C02 — consequences of the invariant `Inv {} {} w` (the statements of the C02 theorems, phrased
with the vocabulary of `PubSubC02Defs`).
-/
import Iox2.Proof.PubSubC02Update

namespace Iox2.PubSub.C02P
open Iox2.PubSub
open Iox2.C16.SlotMapP (abs WInv)

theorem extra_none (p c : Nat) : extra {} p c = 0 := by simp [extra]

/-- bits set in a Bool list = length of a duplicate free list with the same members -/
theorem count_true_eq {l : List Bool} {L : List Nat} (hn : L.Nodup)
    (h : ∀ c, l.getD c false = true ↔ c ∈ L) : (l.filter id).length = L.length := by
  have h1 := Iox2.C16.SlotMapP.countP_eq_range l false id
  rw [List.countP_eq_length_filter] at h1
  rw [h1]
  apply List.Perm.length_eq
  rw [List.perm_ext_iff_of_nodup (List.nodup_range.filter _) hn]
  intro c
  rw [List.mem_filter, List.mem_range, ← h c]
  simp only [id]
  constructor
  · intro ⟨_, h2⟩; exact h2
  · intro h2; exact ⟨lt_of_getD_true h2, h2⟩

variable {w : World}

theorem final_refcount (hi : Inv {} {} w) {p : Nat} {P : Pub} (hP : getP w p = some P)
    (hex : P.ex = true) {c : Nat} (hc : c < P.n) : P.rc.getD c 0 = refCnt w p P c := by
  have := ((hi.acc.pubs p P hP).1 hex).rcEq c hc
  rw [extra_none] at this
  exact this

theorem final_free (hi : Inv {} {} w) {p : Nat} {P : Pub} (hP : getP w p = some P)
    (hex : P.ex = true) :
    P.free.Nodup ∧ P.rc.length = P.n ∧ ∀ c, c ∈ P.free ↔ (c < P.n ∧ P.rc.getD c 0 = 0) := by
  have := ((hi.acc.pubs p P hP).1 hex).free
  exact ⟨this.freeNodup, this.rcLen, this.freeIff⟩

theorem final_in_flight (hi : Inv {} {} w) {cn : Conn} (hcn : cn ∈ w.conns) (hs : cn.sAtt = true) :
    (cn.used.filter id).length = cn.sub.length + cn.borrow + cn.comp.length ∧
    (cn.sub.map (·.1) ++ cn.comp).Nodup ∧
    ∀ c ∈ cn.sub.map (·.1) ++ cn.comp, cn.used.getD c false = true := by
  have hC := getC_of_mem hi.top.reg.nodup hcn
  obtain ⟨P, S, hP, hS, _⟩ := hi.top.conns _ _ cn hC
  have ca := hi.acc.conns _ _ cn hC P S hP hS
  have hnd := ca.nodup hs
  have hu := ca.used hs
  refine ⟨?_, ?_, ?_⟩
  · rw [count_true_eq hnd hu, ca.borrow]
    simp only [flight, List.length_append, List.length_map]
    omega
  · unfold flight at hnd
    exact (List.nodup_append.mp hnd).1
  · intro c hc
    rw [hu c]
    unfold flight
    exact List.mem_append_left _ hc

/-- a chunk in flight on a connection between a live subscriber and an existing publisher is
counted by the publisher -/
theorem live_flight_counted (hi : Inv {} {} w) {p s : Nat} {P : Pub} {S : Sub} {cn : Conn}
    (hP : getP w p = some P) (hex : P.ex = true) (hS : getS w s = some S) (ha : S.alive = true)
    (hC : getC w p s = some cn) {c : Nat} (hc : c ∈ flight cn S) :
    1 ≤ connCnt w p P.conns c := by
  obtain ⟨hpid, hsid, _⟩ := getC_some hC
  obtain ⟨P0, S0, hP0, hS0, ct⟩ := hi.top.conns p s cn hC
  rw [hP] at hP0; cases hP0; rw [hS] at hS0; cases hS0
  have ca := hi.acc.conns p s cn hC P S hP hS
  cases hsa : cn.sAtt with
  | true =>
    have hu := (ca.used hsa c).mpr hc
    have hm : some s ∈ P.conns := by rw [← hsid]; exact ct.sAtt.mp hsa
    exact connCnt_pos hm (by rw [usedBit_of_getC hC]; exact hu)
  | false =>
    exfalso
    obtain ⟨h1, h2, h3⟩ := (ca.idle hsa hex).2 ha
    have hb := ca.borrow
    rw [h3] at hb
    have : heldOf S cn.pid = [] := List.eq_nil_of_length_eq_zero hb.symm
    simp [flight, h1, h2, this] at hc

theorem final_free_not_referenced (hi : Inv {} {} w) {p : Nat} {P : Pub} (hP : getP w p = some P)
    (hex : P.ex = true) {c : Nat} (hf : c ∈ P.free) :
    (∀ l, (l, c) ∉ P.loans) ∧ c ∉ P.hist ∧
    (∀ s S cn, getS w s = some S → S.alive = true → getC w p s = some cn →
      c ∉ cn.sub.map (·.1)) ∧
    (∀ s S h, getS w s = some S → S.alive = true → h ∈ S.held → h.pid = p → h.chunk ≠ c) := by
  have pa := (hi.acc.pubs p P hP).1 hex
  obtain ⟨hlt, h0⟩ := (pa.free.freeIff c).mp hf
  have hr := final_refcount hi hP hex hlt
  rw [h0] at hr
  unfold refCnt at hr
  refine ⟨?_, ?_, ?_, ?_⟩
  · intro l hl
    have : 1 ≤ (P.loans.filter (·.2 = c)).length := by
      apply List.length_pos_of_mem (a := (l, c)); simp [List.mem_filter, hl]
    omega
  · intro hh
    have : 1 ≤ (P.hist.filter (· = c)).length := by
      apply List.length_pos_of_mem (a := c); simp [List.mem_filter, hh]
    omega
  · intro s S cn hS ha hC hc
    have := live_flight_counted hi hP hex hS ha hC (c := c)
      (by unfold flight; exact List.mem_append_left _ (List.mem_append_left _ hc))
    omega
  · intro s S h hS ha hh hpid hch
    obtain ⟨_, h2, _⟩ := hi.acc.subs s S hS
    have hk := h2 h hh
    rw [hpid] at hk
    obtain ⟨⟨cn, hC, _⟩, _⟩ := (hi.top.subs s S hS).stor _ _ hk
    obtain ⟨hpid', _, _⟩ := getC_some hC
    have := live_flight_counted hi hP hex hS ha hC (c := c) (by
      unfold flight
      apply List.mem_append_right
      unfold heldOf
      exact List.mem_map.mpr ⟨h, List.mem_filter.mpr ⟨hh, by simp [hpid, hpid']⟩, hch⟩)
    omega

theorem final_held_stable (hi : Inv {} {} w) {s : Nat} {S : Sub} (hS : getS w s = some S)
    (ha : S.alive = true) {h : Held} (hh : h ∈ S.held) :
    ∃ P, getP w h.pid = some P ∧ P.payload.getD h.chunk 0 = h.tag :=
  (hi.acc.subs s S hS).2.2 ha h hh

end Iox2.PubSub.C02P
