/-
C08 helper: publisher-side actions preserve the invariant (part K: the connection update cycle).
-/
import Iox2.Proof.PubSubC08PubJ
set_option linter.unusedSimpArgs false
set_option linter.unusedVariables false
namespace Iox2.PubSub.C08
open Iox2.PubSub
open Iox2.C16.SlotMapP (abs)
attribute [-simp] List.getD_eq_getElem?_getD

/-- two publisher records that differ only in the pool and the connection slots -/
def UpdEq (P P' : Pub) : Prop :=
  ∃ f r cs, P' = { P with free := f, rc := r, conns := cs }

theorem UpdEq.refl (P : Pub) : UpdEq P P := ⟨P.free, P.rc, P.conns, rfl⟩
theorem UpdEq.trans {a b c : Pub} (h1 : UpdEq a b) (h2 : UpdEq b c) : UpdEq a c := by
  obtain ⟨f1, r1, c1, rfl⟩ := h1
  obtain ⟨f2, r2, c2, rfl⟩ := h2
  exact ⟨f2, r2, c2, rfl⟩
theorem PoolEq.upd {P P' : Pub} (h : PoolEq P P') : UpdEq P P' := by
  obtain ⟨f, r, rfl⟩ := h; exact ⟨f, r, P.conns, rfl⟩
theorem UpdEq.setConns {P P' : Pub} (h : UpdEq P P') (cs : List (Option Nat)) :
    UpdEq P { P' with conns := cs } := by
  obtain ⟨f, r, c, rfl⟩ := h; exact ⟨f, r, cs, rfl⟩
theorem UpdEq.ofSetConns {P P' : Pub} (cs : List (Option Nat)) (h : UpdEq { P with conns := cs } P') :
    UpdEq P P' := by
  obtain ⟨f, r, c, rfl⟩ := h; exact ⟨f, r, c, rfl⟩

theorem UpdEq.fields {P P' : Pub} (h : UpdEq P P') :
    P'.alive = P.alive ∧ P'.ex = P.ex ∧ P'.slot = P.slot ∧ P'.maxLoans = P.maxLoans ∧ P'.n = P.n ∧
    P'.loanCnt = P.loanCnt ∧ P'.hist = P.hist ∧ P'.snapCtr = P.snapCtr ∧
    P'.snap = P.snap ∧ P'.loans = P.loans ∧ P'.payload = P.payload ∧ P'.seq = P.seq ∧
    P'.chunkSeq = P.chunkSeq ∧ P'.sent = P.sent := by
  obtain ⟨f, r, c, rfl⟩ := h
  exact ⟨rfl, rfl, rfl, rfl, rfl, rfl, rfl, rfl, rfl, rfl, rfl, rfl, rfl, rfl⟩

theorem pubUpdateSlots_inv {cfg : Cfg} {xp : Option Nat} {p0 : Nat} {xs : List Nat} {st : Bool}
    (p : Nat) (hx : p ≠ p0 → xs = []) (l : List (Option SubEntry)) :
    ∀ {w : World} (h : InvP cfg w xp p0 xs st) (i : Nat) (tagged : List Nat) {P : Pub}
      (hp : getP w p = some P) (hal : P.alive = true)
      (hreg : ∀ j e, l[j]? = some (some e) → w.subReg.slots[i + j]? = some (some e)),
    InvP cfg (pubUpdateSlots w p l i tagged).1 xp p0 xs st ∧
    (∃ P', getP (pubUpdateSlots w p l i tagged).1 p = some P' ∧ UpdEq P P') ∧
    (∀ t ∈ tagged, t ∈ (pubUpdateSlots w p l i tagged).2) ∧
    (∀ j e, l[j]? = some (some e) → i + j ∈ (pubUpdateSlots w p l i tagged).2) := by
  induction l with
  | nil =>
    intro w h i tagged P hp hal hreg
    exact ⟨h, ⟨P, hp, .refl _⟩, fun t ht => ht, fun j e hj => by simp at hj⟩
  | cons a r ih =>
    intro w h i tagged P hp hal hreg
    have hshift : ∀ {w' : World}, w'.subReg = w.subReg →
        ∀ j e, r[j]? = some (some e) → w'.subReg.slots[i + 1 + j]? = some (some e) := by
      intro w' hw' j e hj
      rw [hw']
      have := hreg (j + 1) e (by simpa using hj)
      rw [show i + 1 + j = i + (j + 1) by omega]; exact this
    cases a with
    | none =>
      rw [pubUpdateSlots]
      obtain ⟨k1, k2, k3, k4⟩ := ih h (i + 1) tagged hp hal (hshift rfl)
      refine ⟨k1, k2, k3, ?_⟩
      intro j e hj
      cases j with
      | zero => simp at hj
      | succ j =>
        have := k4 j e (by simpa using hj)
        rw [show i + (j + 1) = i + 1 + j by omega]; exact this
    | some e =>
      rw [pubUpdateSlots, hp]
      dsimp only
      have hregi : w.subReg.slots[i]? = some (some e) := by
        have := hreg 0 e (by simp); simpa using this
      have hilt : i < cfg.maxSubs := by
        rw [← h.r.subLen]; exact (List.getElem?_eq_some_iff.mp hregi).1
      obtain ⟨hSl, hMem⟩ := h.p p P hp
      have hfin : ∀ {w' : World} (h' : InvP cfg w' xp p0 xs st) {P' : Pub}, getP w' p = some P' → UpdEq P P' →
          w'.subReg = w.subReg →
          InvP cfg (pubUpdateSlots w' p r (i + 1) (i :: tagged)).1 xp p0 xs st ∧
          (∃ P'', getP (pubUpdateSlots w' p r (i + 1) (i :: tagged)).1 p = some P'' ∧ UpdEq P P'') ∧
          (∀ t ∈ tagged, t ∈ (pubUpdateSlots w' p r (i + 1) (i :: tagged)).2) ∧
          (∀ j e', (some e :: r)[j]? = some (some e') →
            i + j ∈ (pubUpdateSlots w' p r (i + 1) (i :: tagged)).2) := by
        intro w' h' P' hp' hupd hsr
        obtain ⟨k1, ⟨P'', hp'', hu''⟩, k3, k4⟩ := ih h' (i + 1) (i :: tagged) hp'
          (hupd.fields.1.trans hal) (hshift hsr)
        refine ⟨k1, ⟨P'', hp'', hupd.trans hu''⟩, fun t ht => k3 t (by simp [ht]), ?_⟩
        intro j e' hj
        cases j with
        | zero => exact k3 i (by simp)
        | succ j =>
          have := k4 j e' (by simpa using hj)
          rw [show i + (j + 1) = i + 1 + j by omega]; exact this
      cases hs : P.conns.getD i none with
      | none =>
        dsimp only
        have hi0 : P.conns[i]? = some none := by
          have hl : i < P.conns.length := by rw [hSl.connsLen]; exact hilt
          rw [List.getD_eq_getElem?_getD, List.getElem?_eq_getElem hl] at hs
          rw [List.getElem?_eq_getElem hl]
          simpa using hs
        obtain ⟨c1, P', hp', hpool⟩ := pubCreateConn_inv h p i e hp hal hi0 hx hregi
        exact hfin c1 hp' (UpdEq.ofSetConns _ hpool.upd) (PFrame.of_PStep (pubCreateConn_P _ _ _ _)).subReg
      | some s =>
        dsimp only
        have hi : P.conns[i]? = some (some s) := getD_some_iff.mp hs
        by_cases hse : s = e.sid
        · rw [if_pos hse]
          exact hfin h hp (.refl _) rfl
        · rw [if_neg hse]
          have hdead : ∀ P1 s1 S, getP w p = some P1 → P1.conns[i]? = some (some s1) → getS w s1 = some S →
              S.alive = false := by
            intro P1 s1 S hp1 hi1 hS
            rw [hp] at hp1; cases hp1
            rw [hi] at hi1; cases hi1
            cases hal' : S.alive with
            | false => rfl
            | true =>
              obtain ⟨S', hS', hsl⟩ := hSl.slotSlot i s hi
              rw [hS] at hS'; cases hS'
              obtain ⟨e', he', hsid⟩ := h.r.rs2 s S hS hal' (by simp)
              rw [hsl, hregi] at he'
              cases he'
              exact absurd hsid.symm hse
          obtain ⟨r1, r2⟩ := pubRemoveConn_inv h p i hx hdead
          obtain ⟨P1, hpool1, hp1⟩ := r2 P hp
          have hfr1 := PFrame.of_PStep (pubRemoveConn_P w p i)
          have hi0 : ({ P1 with conns := P.conns.set i none } : Pub).conns[i]? = some none := by
            show (P.conns.set i none)[i]? = some none
            have hl : i < P.conns.length := by rw [hSl.connsLen]; exact hilt
            simp [hl]
          obtain ⟨c1, P', hp', hpool⟩ := pubCreateConn_inv r1 p i e hp1 (hpool1.sim.alive.trans hal) hi0 hx
            (by rw [hfr1.subReg]; exact hregi)
          refine hfin c1 hp' ?_ ((PFrame.of_PStep (pubCreateConn_P _ _ _ _)).subReg.trans hfr1.subReg)
          exact (hpool1.upd.setConns _).trans (UpdEq.ofSetConns _ hpool.upd)

theorem pubFinish_inv {cfg : Cfg} {w : World} {xp : Option Nat} {p0 : Nat} {xs : List Nat} {st : Bool}
    (h : InvP cfg w xp p0 xs st) (p : Nat) (tagged : List Nat) (k : Nat) {P : Pub} (hp : getP w p = some P)
    (hx : p ≠ p0 → xs = [])
    (hun : ∀ j, j < k → j ∉ tagged → ∀ e, w.subReg.slots[j]? ≠ some (some e)) :
    InvP cfg (pubFinish w p tagged k) xp p0 xs st ∧
    ∃ P', getP (pubFinish w p tagged k) p = some P' ∧ UpdEq P P' := by
  induction k with
  | zero => exact ⟨h, P, hp, .refl _⟩
  | succ k ih =>
    rw [pubFinish]
    obtain ⟨h1, P1, hp1, hu1⟩ := ih (fun j hj => hun j (by omega))
    have hfr1 := PFrame.of_PStep (pubFinish_P w p tagged k)
    by_cases ht : tagged.contains k = true
    · rw [if_pos ht]; exact ⟨h1, P1, hp1, hu1⟩
    · rw [if_neg ht]
      have hkt : k ∉ tagged := by simpa using ht
      have hdead : ∀ P2 s S, getP (pubFinish w p tagged k) p = some P2 → P2.conns[k]? = some (some s) →
          getS (pubFinish w p tagged k) s = some S → S.alive = false := by
        intro P2 s S hp2 hi hS
        cases hal' : S.alive with
        | false => rfl
        | true =>
          obtain ⟨S', hS', hsl⟩ := (h1.p p P2 hp2).1.slotSlot k s hi
          rw [hS] at hS'; cases hS'
          obtain ⟨e', he', _⟩ := h1.r.rs2 s S hS hal' (by simp)
          rw [hsl, hfr1.subReg] at he'
          exact absurd he' (hun k (by omega) hkt e')
      obtain ⟨r1, r2⟩ := pubRemoveConn_inv h1 p k hx hdead
      obtain ⟨P2, hpool, hp2⟩ := r2 P1 hp1
      exact ⟨r1, _, hp2, hu1.trans (hpool.upd.setConns _)⟩

theorem pubForceUpdate_inv {cfg : Cfg} {w : World} {xp : Option Nat} {p0 : Nat} {xs : List Nat} {st : Bool}
    (h : InvP cfg w xp p0 xs st) (p : Nat) {P : Pub} (hp : getP w p = some P) (hal : P.alive = true)
    (hx : p ≠ p0 → xs = []) (hsnap : P.snap = w.subReg.slots) :
    InvP cfg (pubForceUpdate w p) xp p0 xs st ∧
    ∃ P', getP (pubForceUpdate w p) p = some P' ∧ UpdEq P P' := by
  unfold pubForceUpdate
  rw [hp]
  dsimp only
  obtain ⟨k1, ⟨P1, hp1, hu1⟩, _, k4⟩ := pubUpdateSlots_inv (cfg := cfg) (xp := xp) (st := st) p hx P.snap h 0 [] hp hal
    (fun j e hj => by rw [← hsnap]; simpa using hj)
  have hfr1 := PFrame.of_PStep (pubUpdateSlots_P w p P.snap 0 [])
  obtain ⟨k5, P2, hp2, hu2⟩ := pubFinish_inv k1 p (pubUpdateSlots w p P.snap 0 []).2 P.conns.length hp1 hx
    (fun j _ hjt e he => by
      rw [hfr1.subReg, ← hsnap] at he
      have := k4 j e he
      simp at this
      exact hjt this)
  exact ⟨k5, P2, hp2, hu1.trans hu2⟩

theorem pubUpdate_inv {cfg : Cfg} {w : World} {xp : Option Nat} {p0 : Nat} {xs : List Nat} {st : Bool}
    (h : InvP cfg w xp p0 xs st) (p : Nat) {P : Pub} (hp : getP w p = some P) (hal : P.alive = true)
    (hx : p ≠ p0 → xs = []) :
    InvP cfg (pubUpdate w p) xp p0 xs st ∧
    ∃ P', getP (pubUpdate w p) p = some P' ∧
      UpdEq { P with snapCtr := P'.snapCtr, snap := P'.snap } P' := by
  unfold pubUpdate
  rw [hp]
  dsimp only
  split
  · exact ⟨h, P, hp, .refl _⟩
  · -- refreshing the snapshot does not touch anything the invariant looks at
    have hsim : PubSim P { P with snapCtr := w.subReg.counter, snap := w.subReg.slots } := ⟨rfl, rfl, rfl, rfl, rfl⟩
    have h0 : InvP cfg (setP w p { P with snapCtr := w.subReg.counter, snap := w.subReg.slots }) xp p0 xs st := by
      obtain ⟨hSl, hMem⟩ := h.p p P hp
      refine h.rebuild (xs' := xs) (st' := st) p ⟨rfl, rfl, rfl, fun _ => rfl⟩ (fun q hq => by simp [hq])
        (fun _ _ _ => rfl) (PubsSim.setP hp hsim).to0 (h.u.of_conns rfl) (fun hne => ⟨hx hne, hx hne⟩)
        (fun s c hc hr => ⟨c, hc, hr⟩) ?_ ?_
      · intro s c hc
        exact (h.c p s c hc).transferP (fun _ => rfl) (PubsSim.setP hp hsim)
      · intro P' hP'
        simp [hp] at hP'; subst hP'
        refine ⟨⟨hSl.connsLen, hSl.slotConn, hSl.slotSlot, hSl.aliveEx⟩, fun hal' => ?_⟩
        have M := hMem hal'
        exact ⟨⟨M.fr.rcLen, M.fr.freeNodup, M.fr.freeRc, M.fr.rcFree⟩, M.nEq, M.rcEq, M.loanCnt, M.histLen,
          M.labels, M.loanRc, M.xsRc, M.histNodup⟩
    obtain ⟨k1, P', hp', hu'⟩ := pubForceUpdate_inv h0 p (P := { P with snapCtr := w.subReg.counter, snap := w.subReg.slots })
      (by simp [hp]) hal hx rfl
    refine ⟨k1, P', hp', ?_⟩
    obtain ⟨f, r, cs, rfl⟩ := hu'
    exact ⟨f, r, cs, rfl⟩

end Iox2.PubSub.C08
