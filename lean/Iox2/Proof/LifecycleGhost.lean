/-
The ghost fields `opc`, `odead` of the file-system state are never read: erasing them before a step gives the same
process state, the same step name and the same file system (up to the ghost fields).
-/
import Iox2.Model.Lifecycle
namespace Iox2.Lifecycle

/-- the real part of the state -/
def erase (fs : FS) : FS := { fs with opc := 0, odead := false }

def eraseR (r : FS × Th × String) : FS × Th × String := (erase r.1, r.2.1, r.2.2)

theorem qstep_erase (fs : FS) (pid q : Nat) : qstep (erase fs) pid q = qstep fs pid q := by
  unfold qstep; rfl

theorem ownerStep_erase (fs : FS) (t : Th) : (ownerStep (erase fs) t).map eraseR = (ownerStep fs t).map eraseR := by
  unfold ownerStep
  simp only []
  split <;> first | rfl | ((simp only [erase]; repeat' split) <;> (try simp_all [eraseR, erase]) <;> (try (split <;> simp_all [eraseR, erase])))

theorem monitorStep_erase (fs : FS) (t : Th) : (monitorStep (erase fs) t).map eraseR = (monitorStep fs t).map eraseR := by
  unfold monitorStep
  simp only [qstep_erase]
  split <;> first | rfl | ((simp only [erase]; repeat' split) <;> (try simp_all [eraseR, erase]) <;> (try (split <;> simp_all [eraseR, erase])))

theorem cleanerStep_erase (fs : FS) (t : Th) : (cleanerStep (erase fs) t).map eraseR = (cleanerStep fs t).map eraseR := by
  unfold cleanerStep
  simp only [qstep_erase]
  split <;> first | rfl | ((simp only [erase]; repeat' split) <;> (try simp_all [eraseR, erase]) <;> (try (split <;> simp_all [eraseR, erase])))

/-- no step of any process depends on the ghost state -/
theorem ghost_irrelevant (fs : FS) (t : Th) : (stepL (erase fs) t).map eraseR = (stepL fs t).map eraseR := by
  unfold stepL
  split
  · have h := ownerStep_erase fs t
    cases h1 : ownerStep (erase fs) t <;> cases h2 : ownerStep fs t <;> rw [h1, h2] at h <;> simp [eraseR, erase] at h ⊢
    obtain ⟨h3, h4, h5⟩ := h
    simp [h3, h4, h5]
  · exact monitorStep_erase fs t
  · exact cleanerStep_erase fs t

/-- the death hook reads the ghost state only to update it -/
theorem onDeath_erase (fs : FS) (t : Th) : erase (onDeath (erase fs) t) = erase (onDeath fs t) := rfl

end Iox2.Lifecycle
