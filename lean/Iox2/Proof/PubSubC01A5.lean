/-
Layer A: the receiver side attaches (`create_receiver` + slot-map insert).
-/
import Iox2.Proof.PubSubC01A4
namespace Iox2.PubSub.C01P
open Iox2.PubSub
open Iox2.C16.SlotMapP (abs WInv)

variable {cfg : Cfg} {np ns : Option Nat} {w : World}

theorem InvA.attachS_core (h : InvA cfg np ns w) {W1 : World} {x : Conn} {p s i key : Nat} {S S' : Sub}
    {m : SlotMap.St Nat}
    (fp : W1.pubs = w.pubs) (fs : W1.subs = w.subs) (fc : W1.cfg = w.cfg) (fpr : W1.pubReg = w.pubReg)
    (fsr : W1.subReg = w.subReg) (hu : UniqC W1)
    (hmem : ∀ cn ∈ W1.conns, (cn ∈ w.conns ∧ ¬ (cn.pid = p ∧ cn.sid = s)) ∨ cn = x)
    (hget : ∀ a b, getC W1 a b = if a = p ∧ b = s then some x else getC w a b)
    (hxp : x.pid = p) (hxs : x.sid = s) (hxa : x.rAtt = true)
    (hold : ∀ c, getC w p s = some c → x.sAtt = c.sAtt ∧ (Virgin c → Virgin x))
    (hnew : getC w p s = none → x.sAtt = false ∧ Virgin x)
    (hxl : ConnLog cfg.overflow x)
    (hxg : (S.ghostRecv.filter (·.1 = p)).map (·.2) = x.gReceived)
    (hS : getS w s = some S) (hreg : w.pubReg.slots[i]? = some (some p))
    (hins : smInsert S.storage p = (m, some key))
    (ha : S'.alive = S.alive) (he : S'.ex = S.ex) (hsl : S'.slot = S.slot) (hb : S'.buffer = S.buffer)
    (hst : S'.storage = m) (hgr : S'.ghostRecv = S.ghostRecv) (hh : S'.held = S.held)
    (hex : S.ex = true) :
    InvA cfg np ns (setS W1 s S') := by
  have gP1 : ∀ a, getP W1 a = getP w a := fun a => by unfold getP; rw [fp]
  have gS1 : ∀ a, getS W1 a = getS w a := fun a => by unfold getS; rw [fs]
  have gP : ∀ a, getP (setS W1 s S') a = getP w a := fun a => by rw [getP_setS, gP1]
  have hgS : ∀ a Q, getS (setS W1 s S') a = some Q → (a = s ∧ Q = S') ∨ (a ≠ s ∧ getS w a = some Q) := by
    intro a Q hq
    rw [getS_setS] at hq
    by_cases hap : a = s
    · subst hap
      simp only [if_true, gS1, hS, Option.map_some, Option.some.injEq] at hq
      exact Or.inl ⟨rfl, hq.symm⟩
    · rw [if_neg hap, gS1] at hq
      exact Or.inr ⟨hap, hq⟩
  have hgS2 : ∀ a Q0, getS w a = some Q0 → ∃ Q, getS (setS W1 s S') a = some Q ∧
      Q.alive = Q0.alive ∧ Q.ex = Q0.ex ∧ Q.slot = Q0.slot ∧ Q.buffer = Q0.buffer ∧
      Q.ghostRecv = Q0.ghostRecv ∧ Q.held = Q0.held ∧ (a ≠ s → Q = Q0) := by
    intro a Q0 hq
    rw [getS_setS]
    by_cases hap : a = s
    · subst hap
      rw [hS] at hq; cases hq
      exact ⟨S', by simp [gS1, hS], ha, he, hsl, hb, hgr, hh, fun h => absurd rfl h⟩
    · rw [if_neg hap, gS1]
      exact ⟨Q0, hq, rfl, rfl, rfl, rfl, rfl, rfl, fun _ => rfl⟩
  obtain ⟨hpn, Pe, hPe, hPal, hPslot⟩ := h.preg i p hreg
  obtain ⟨hW, hvals⟩ := h.stor s S hS
  obtain ⟨hWm, hfresh, habs⟩ := smInsert_spec hW hins
  have hgetC : ∀ a b cn0, getC w a b = some cn0 → ∃ cn, getC (setS W1 s S') a b = some cn ∧
      cn.sAtt = cn0.sAtt := by
    intro a b cn0 h0
    rw [getC_setS, hget]
    by_cases hab : a = p ∧ b = s
    · rw [if_pos hab]
      obtain ⟨rfl, rfl⟩ := hab
      exact ⟨x, rfl, (hold cn0 h0).1⟩
    · rw [if_neg hab]; exact ⟨cn0, h0, rfl⟩
  constructor
  · simp only [setS_cfg, fc]; exact h.cfgEq
  · exact hu
  · simp only [setS_subReg, fsr]; exact h.sregLen
  · intro j a hj
    simp only [setS_pubReg, fpr] at hj
    rw [gP]; exact h.preg j a hj
  · intro j en hj
    simp only [setS_subReg, fsr] at hj
    obtain ⟨h1, Q0, h2, h3, h4, h5⟩ := h.sreg j en hj
    obtain ⟨Q, hq, e1, e2, e3, e4, _⟩ := hgS2 _ Q0 h2
    exact ⟨h1, Q, hq, e1 ▸ h3, e3 ▸ h4, e4 ▸ h5⟩
  · intro a Q hq hal
    rw [gP] at hq
    simp only [setS_pubReg, fpr]
    exact h.palive a Q hq hal
  · intro a Q hq hal
    simp only [setS_subReg, fsr]
    rcases hgS a Q hq with ⟨rfl, rfl⟩ | ⟨_, h0⟩
    · rw [he, hsl]; exact h.salive a S hS (ha ▸ hal)
    · exact h.salive a Q h0 hal
  · intro a Q hq
    rcases hgS a Q hq with ⟨rfl, rfl⟩ | ⟨_, h0⟩
    · rw [hb]; exact h.sbuf a S hS
    · exact h.sbuf a Q h0
  · intro a Q hq
    rw [gP] at hq
    obtain ⟨h1, h2⟩ := h.pconns a Q hq
    refine ⟨h1, fun j b hj => ?_⟩
    obtain ⟨h3, Q0, h0, h4⟩ := h2 j b hj
    obtain ⟨Q', hq', e1, e2, e3, _⟩ := hgS2 _ Q0 h0
    exact ⟨h3, Q', hq', e3 ▸ h4⟩
  · intro cn hcn
    simp only [setS_conns] at hcn
    rw [gP]
    have : (∃ Q0, getP w cn.pid = some Q0) ∧ ∃ S0, getS w cn.sid = some S0 := by
      rcases hmem cn hcn with ⟨hm, _⟩ | rfl
      · exact h.ends cn hm
      · rw [hxp, hxs]; exact ⟨⟨Pe, hPe⟩, ⟨S, hS⟩⟩
    obtain ⟨hP, ⟨Q0, h0⟩⟩ := this
    obtain ⟨Q, hq, _⟩ := hgS2 _ Q0 h0
    exact ⟨hP, ⟨Q, hq⟩⟩
  · intro cn hcn hra
    simp only [setS_conns] at hcn
    rcases hmem cn hcn with ⟨hm, hne⟩ | rfl
    · obtain ⟨Q0, h0, h1, k, hk⟩ := h.a1 cn hm hra
      by_cases hcs : cn.sid = s
      · rw [hcs] at h0 ⊢
        rw [hS] at h0; cases h0
        refine ⟨S', by simp [getS_setS, gS1, hS], he ▸ h1, k, ?_⟩
        rw [hst, habs]
        have : k ≠ key := by
          rintro rfl; rw [hfresh] at hk; cases hk
        rw [if_neg this]; exact hk
      · refine ⟨Q0, ?_, h1, k, hk⟩
        rw [getS_setS, if_neg hcs, gS1]; exact h0
    · rw [hxp, hxs]
      refine ⟨S', by simp [getS_setS, gS1, hS], he ▸ hex, key, ?_⟩
      rw [hst, habs]; simp
  · intro a Q hq
    rcases hgS a Q hq with ⟨rfl, rfl⟩ | ⟨_, h0⟩
    · rw [hst]
      refine ⟨hWm, fun k b hk => ?_⟩
      rw [gP]
      rw [habs] at hk
      by_cases hkk : k = key
      · rw [if_pos hkk] at hk; cases hk
        exact ⟨hpn, Pe, hPe⟩
      · rw [if_neg hkk] at hk
        exact hvals k b hk
    · have := h.stor a Q h0
      refine ⟨this.1, fun k b hk => ?_⟩
      rw [gP]; exact this.2 k b hk
  · intro cn hcn hsa
    simp only [setS_conns] at hcn
    rw [gP]
    rcases hmem cn hcn with ⟨hm, hne⟩ | rfl
    · exact h.a2 cn hm hsa
    · rw [hxp]
      cases hgc : getC w p s with
      | none => rw [(hnew hgc).1] at hsa; cases hsa
      | some c =>
        obtain ⟨hcm, hcp, hcs⟩ := getC_some hgc
        have := h.a2 c hcm ((hold c hgc).1 ▸ hsa)
        rw [hcp, hcs] at this; rw [hxs]; exact this
  · intro a Q hq hexq j b hj
    rw [gP] at hq
    obtain ⟨cn0, h3, h4⟩ := h.a2c a Q hq hexq j b hj
    obtain ⟨cn, h5, h6⟩ := hgetC a b cn0 h3
    exact ⟨cn, h5, h6 ▸ h4⟩
  · intro cn hcn
    simp only [setS_conns] at hcn
    rcases hmem cn hcn with ⟨hm, _⟩ | rfl
    · exact h.a3 cn hm
    · exact Or.inr hxa
  · intro cn hcn hsa Q Q' hq hq' hexq hal
    simp only [setS_conns] at hcn
    rw [gP] at hq
    rcases hmem cn hcn with ⟨hm, hne⟩ | rfl
    · rcases hgS _ Q' hq' with ⟨hap, rfl⟩ | ⟨_, h0⟩
      · exact h.virg cn hm hsa Q S hq (hap ▸ hS) hexq (ha ▸ hal)
      · exact h.virg cn hm hsa Q Q' hq h0 hexq hal
    · cases hgc : getC w p s with
      | none => exact (hnew hgc).2
      | some c =>
        obtain ⟨hcm, hcp, hcs⟩ := getC_some hgc
        obtain ⟨h1, h2⟩ := hold c hgc
        refine h2 (h.virg c hcm (h1 ▸ hsa) Q S (by rw [hcp, ← hxp]; exact hq) (by rw [hcs]; exact hS) hexq ?_)
        rcases hgS _ Q' hq' with ⟨_, rfl⟩ | ⟨hap, _⟩
        · exact ha ▸ hal
        · exact absurd hxs hap
  · intro b Q hq hal en hemem Q' hq' hqa
    rw [gP] at hq'
    have hQ : ∃ Q0, getS w b = some Q0 ∧ Q0.alive = true ∧ en ∈ Q0.ghostRecv := by
      rcases hgS _ Q hq with ⟨hap, rfl⟩ | ⟨hap, h0⟩
      · exact ⟨S, hap ▸ hS, ha ▸ hal, hgr ▸ hemem⟩
      · exact ⟨Q, h0, hal, hemem⟩
    obtain ⟨Q0, h0, h0a, h0m⟩ := hQ
    obtain ⟨cn0, h1⟩ := h.k2 b Q0 h0 h0a en h0m Q' hq' hqa
    obtain ⟨cn, h5, _⟩ := hgetC _ _ cn0 h1
    exact ⟨cn, h5⟩
  · intro cn hcn Q hq
    simp only [setS_conns] at hcn
    rcases hmem cn hcn with ⟨hm, hne⟩ | rfl
    · rcases hgS _ Q hq with ⟨hap, rfl⟩ | ⟨_, h0⟩
      · rw [hgr]; exact h.l3 cn hm S (hap ▸ hS)
      · exact h.l3 cn hm Q h0
    · rcases hgS _ Q hq with ⟨_, rfl⟩ | ⟨hap, _⟩
      · rw [hgr, hxp]; exact hxg
      · exact absurd hxs hap
  · intro b Q hq hd hhd
    rcases hgS _ Q hq with ⟨hap, rfl⟩ | ⟨_, h0⟩
    · rw [hgr]; exact h.l4 b S (hap ▸ hS) hd (hh ▸ hhd)
    · exact h.l4 b Q h0 hd hhd
  · intro cn hcn
    simp only [setS_conns] at hcn
    rcases hmem cn hcn with ⟨hm, _⟩ | rfl
    · exact h.clog cn hm
    · exact hxl
  · intro b Q hq en hen
    rw [gP]
    rcases hgS _ Q hq with ⟨hap, rfl⟩ | ⟨_, h0⟩
    · exact h.gr b S (hap ▸ hS) en (hgr ▸ hen)
    · exact h.gr b Q h0 en hen

/-- `create_receiver` onto an existing connection object -/
theorem InvA.attachS_old (h : InvA cfg np ns w) {c : Conn} {p s i key : Nat} {S S' : Sub} {m : SlotMap.St Nat}
    (hS : getS w s = some S) (hex : S.ex = true) (hreg : w.pubReg.slots[i]? = some (some p))
    (hg : getC w p s = some c) (hins : smInsert S.storage p = (m, some key))
    (ha : S'.alive = S.alive) (he : S'.ex = S.ex) (hsl : S'.slot = S.slot) (hb : S'.buffer = S.buffer)
    (hst : S'.storage = m) (hgr : S'.ghostRecv = S.ghostRecv) (hh : S'.held = S.held) :
    InvA cfg np ns (setS (setC w { c with rAtt := true }) s S') := by
  obtain ⟨hcm, hcp, hcs⟩ := getC_some hg
  refine h.attachS_core (x := { c with rAtt := true }) rfl rfl rfl rfl rfl h.uniqC.setC
    ?_ ?_ hcp hcs rfl ?_ ?_ ?_ ?_ hS hreg hins ha he hsl hb hst hgr hh hex
  · intro cn hcn
    rcases mem_setC hcn with ⟨rfl, _⟩ | ⟨hm, hne⟩
    · exact Or.inr rfl
    · simp only [hcp, hcs] at hne; exact Or.inl ⟨hm, hne⟩
  · intro a b
    rw [getC_setC]
    simp only [hcp, hcs]
    by_cases hab : a = p ∧ b = s
    · obtain ⟨rfl, rfl⟩ := hab; simp [hg]
    · simp [hab]
  · intro c' hc'
    rw [hg] at hc'; cases hc'
    exact ⟨rfl, fun hv => ⟨hv.del, hv.sub, hv.skip, hv.recv, hv.evi, hv.comp⟩⟩
  · intro hn; rw [hg] at hn; cases hn
  · exact (h.clog c hcm).congr rfl rfl rfl rfl rfl rfl
  · have := h.l3 c hcm S (hcs ▸ hS)
    rw [hcp] at this; exact this

/-- `create_receiver` creating the connection object -/
theorem InvA.attachS_new (h : InvA cfg np ns w) {p s i key : Nat} {S S' : Sub} {m : SlotMap.St Nat} {u : List Bool}
    (hS : getS w s = some S) (hSa : S.alive = true) (hreg : w.pubReg.slots[i]? = some (some p))
    (hg : getC w p s = none) (hins : smInsert S.storage p = (m, some key))
    (ha : S'.alive = S.alive) (he : S'.ex = S.ex) (hsl : S'.slot = S.slot) (hb : S'.buffer = S.buffer)
    (hst : S'.storage = m) (hgr : S'.ghostRecv = S.ghostRecv) (hh : S'.held = S.held) :
    InvA cfg np ns (setS (addC w { pid := p, sid := s, cap := S.buffer, used := u, rAtt := true }) s S') := by
  obtain ⟨hpn, Pe, hPe, hPal, hPslot⟩ := h.preg i p hreg
  refine h.attachS_core (x := { pid := p, sid := s, cap := S.buffer, used := u, rAtt := true }) rfl rfl rfl rfl rfl
    (h.uniqC.addC hg) ?_ ?_ rfl rfl rfl ?_ ?_ ?_ ?_ hS hreg hins ha he hsl hb hst hgr hh (h.salive s S hS hSa).1
  · intro cn hcn
    rw [mem_addC] at hcn
    rcases hcn with hm | rfl
    · exact Or.inl ⟨hm, getC_none hg cn hm⟩
    · exact Or.inr rfl
  · intro a b
    rw [getC_addC]
    by_cases hab : a = p ∧ b = s
    · obtain ⟨rfl, rfl⟩ := hab; simp [hg]
    · rw [if_neg hab]
      have : ¬ (p = a ∧ s = b) := fun hh => hab ⟨hh.1.symm, hh.2.symm⟩
      simp [this]
  · intro c' hc'; rw [hg] at hc'; cases hc'
  · intro _; exact ⟨rfl, ⟨rfl, rfl, rfl, rfl, rfl, rfl⟩⟩
  · exact ConnLog.fresh rfl rfl rfl rfl rfl (h.sbuf s S hS)
  · exact h.noRecv_of_noConn hPe hPal hS hSa hg

end Iox2.PubSub.C01P
