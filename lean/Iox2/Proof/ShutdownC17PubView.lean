/-
C17 — publisher side: every publisher-side helper function leaves the life-cycle view unchanged,
and the API operations on publishers preserve the "no zombie port core" invariant `XInv`.
-/
import Iox2.Proof.ShutdownC17View
import Iox2.Proof.PubSubC02StepPub

namespace Iox2.PubSub.C17P
open Iox2.PubSub Iox2.PubSub.C02P

/-! ### PART 1 — the helper functions do not change the view -/

theorem pv_releaseChunk (P : Pub) (c : Nat) : pv (P.releaseChunk c) = pv P := by
  simp only [Pub.releaseChunk]
  split <;> rfl

theorem pv_borrowChunk (P : Pub) (c : Nat) : pv (P.borrowChunk c) = pv P := rfl

theorem pv_drainComp (P : Pub) (u : List Bool) (l : List Nat) : pv (drainComp P u l).1 = pv P := by
  induction l generalizing P u with
  | nil => rfl
  | cons c r ih =>
    simp only [drainComp]
    split
    · rw [ih, pv_releaseChunk]
    · exact ih _ _

theorem pv_releaseAllUsed (P : Pub) (u : List Bool) (k : Nat) : pv (releaseAllUsed P u k) = pv P := by
  induction k with
  | zero => rfl
  | succ k ih =>
    simp only [releaseAllUsed]
    split
    · rw [pv_releaseChunk, ih]
    · exact ih

theorem veq_retrieveFrom {w : World} (hn : NodupK w) (p : Nat) (l : List (Option Nat)) :
    VEq w (retrieveFrom w p l) := by
  induction l generalizing w with
  | nil => exact VEq.refl w
  | cons a r ih =>
    cases a with
    | none => simp only [retrieveFrom]; exact ih hn
    | some s =>
      simp only [retrieveFrom]
      split
      · rename_i P c hP hC
        have h1 : VEq w (setC (setP w p (drainComp P c.used c.comp).1)
            { c with comp := [], used := (drainComp P c.used c.comp).2 }) :=
          (veq_setP hn hP (pv_drainComp _ _ _)).trans (veq_setC _ _)
        exact h1.trans (ih (hn.of_veq h1))
      · exact ih hn

theorem veq_retrieveReturned {w : World} (hn : NodupK w) (p : Nat) : VEq w (retrieveReturned w p) := by
  unfold retrieveReturned
  split
  · exact VEq.refl w
  · exact veq_retrieveFrom hn p _

theorem veq_deliverTo {w : World} (hn : NodupK w) (p s chunk seq : Nat) :
    VEq w (deliverTo w p s chunk seq).1 := by
  simp only [deliverTo]
  split
  · rename_i P c hP hC
    generalize c.trySend w.cfg.overflow chunk seq = x
    obtain ⟨c', r⟩ := x
    have h1 : VEq w (setC w c') := veq_setC _ _
    cases r with
    | full => exact h1
    | corrupted => exact h1
    | ok ev =>
      simp only []
      refine h1.trans (veq_setP (hn.of_veq h1) (P := P) (by simpa using hP) ?_)
      cases ev with
      | none => exact pv_borrowChunk _ _
      | some old => exact (pv_releaseChunk _ _).trans (pv_borrowChunk _ _)
  · exact VEq.refl w

theorem veq_deliverHistory {w : World} (hn : NodupK w) (p s : Nat) (l : List Nat) :
    VEq w (deliverHistory w p s l) := by
  induction l generalizing w with
  | nil => exact VEq.refl w
  | cons ch r ih =>
    simp only [deliverHistory]
    have h1 := veq_retrieveReturned hn p
    have h2 := h1.trans (veq_deliverTo (hn.of_veq h1) p s ch
      (match getP (retrieveReturned w p) p with | some P => P.chunkSeq.getD ch 0 | none => 0))
    exact h2.trans (ih (hn.of_veq h2))

theorem veq_pubRemoveConn {w : World} (hn : NodupK w) (p slot : Nat) : VEq w (pubRemoveConn w p slot) := by
  simp only [pubRemoveConn]
  cases hP : getP w p with
  | none => exact VEq.refl w
  | some P =>
    simp only []
    cases hs : P.conns.getD slot none with
    | none => exact VEq.refl w
    | some s =>
      simp only []
      cases hC : getC w p s with
      | none =>
        simp only []
        exact (veq_setP hn hP (X := { P with conns := P.conns.set slot none }) rfl).trans
          (veq_detachSender _ _ _)
      | some c =>
        simp only []
        have h1 : VEq w (setC w { c with used := c.used.map fun _ => false }) := veq_setC _ _
        refine (h1.trans (veq_setP (hn.of_veq h1) (P := P) (by simpa using hP) ?_)).trans
          (veq_detachSender _ _ _)
        exact pv_releaseAllUsed P c.used c.used.length

theorem veq_deliverHistory' {w W : World} (hn : NodupK w) (h : VEq w W) (p s : Nat) (l : List Nat) :
    VEq w (deliverHistory W p s l) :=
  h.trans (veq_deliverHistory (hn.of_veq h) p s l)

theorem veq_pubCreateConn {w : World} (hn : NodupK w) (p slot : Nat) (e : SubEntry) :
    VEq w (pubCreateConn w p slot e) := by
  simp only [pubCreateConn]
  cases hP : getP w p with
  | none => exact VEq.refl w
  | some P =>
    simp only []
    have h0 : VEq w (setP w p { P with conns := P.conns.set slot (some e.sid) }) :=
      veq_setP hn hP rfl
    cases hC : getC w p e.sid with
    | none =>
      simp only []
      apply veq_deliverHistory' hn
      exact h0.trans (VEq.of_eq rfl rfl)
    | some c =>
      simp only []
      apply veq_deliverHistory' hn
      exact h0.trans (VEq.of_eq rfl rfl)

theorem veq_pubUpdateSlots {w : World} (hn : NodupK w) (p : Nat) (l : List (Option SubEntry))
    (i : Nat) (t : List Nat) : VEq w (pubUpdateSlots w p l i t).1 := by
  induction l generalizing w i t with
  | nil => exact VEq.refl w
  | cons a r ih =>
    cases a with
    | none => simp only [pubUpdateSlots]; exact ih hn _ _
    | some e =>
      simp only [pubUpdateSlots]
      cases hP : getP w p with
      | none => exact VEq.refl w
      | some P =>
        simp only []
        cases hs : P.conns.getD i none with
        | none =>
          simp only []
          have h1 := veq_pubCreateConn hn p i e
          exact h1.trans (ih (hn.of_veq h1) _ _)
        | some s =>
          simp only []
          split
          · exact ih hn _ _
          · have h1 := veq_pubRemoveConn hn p i
            have h2 := h1.trans (veq_pubCreateConn (hn.of_veq h1) p i e)
            exact h2.trans (ih (hn.of_veq h2) _ _)

theorem veq_pubFinish {w : World} (hn : NodupK w) (p : Nat) (t : List Nat) (k : Nat) :
    VEq w (pubFinish w p t k) := by
  induction k with
  | zero => exact VEq.refl w
  | succ k ih =>
    simp only [pubFinish]
    split
    · exact ih
    · exact ih.trans (veq_pubRemoveConn (hn.of_veq ih) p k)

theorem veq_pubForceUpdate {w : World} (hn : NodupK w) (p : Nat) : VEq w (pubForceUpdate w p) := by
  simp only [pubForceUpdate]
  cases hP : getP w p with
  | none => exact VEq.refl w
  | some P =>
    simp only []
    have h1 := veq_pubUpdateSlots hn p P.snap 0 []
    exact h1.trans (veq_pubFinish (hn.of_veq h1) p _ _)

theorem veq_pubUpdate {w : World} (hn : NodupK w) (p : Nat) : VEq w (pubUpdate w p) := by
  simp only [pubUpdate]
  cases hP : getP w p with
  | none => exact VEq.refl w
  | some P =>
    simp only []
    split
    · exact VEq.refl w
    · have h1 : VEq w (setP w p { P with snapCtr := w.subReg.counter, snap := w.subReg.slots }) :=
        veq_setP hn hP rfl
      exact h1.trans (veq_pubForceUpdate (hn.of_veq h1) p)

theorem veq_pubDestroySlots (w : World) (p : Nat) (l : List (Option Nat)) :
    VEq w (pubDestroySlots w p l) := by
  induction l generalizing w with
  | nil => exact VEq.refl w
  | cons a r ih =>
    cases a with
    | none => simp only [pubDestroySlots]; exact ih w
    | some s =>
      simp only [pubDestroySlots]
      exact (veq_detachSender w p s).trans (ih _)

/-- the delivery loop of `send` (same lambda as in the model) -/
theorem veq_deliverAll {w : World} (hn : NodupK w) (p c seq : Nat) (slots : List (Option Nat)) (n : Nat) :
    VEq w (slots.foldl (fun (acc : World × Nat) sl =>
        match sl with
        | none => acc
        | some s => let (w', ok) := deliverTo acc.1 p s c seq
                    (w', if ok then acc.2 + 1 else acc.2)) (w, n)).1 := by
  induction slots generalizing w n with
  | nil => exact VEq.refl w
  | cons a r ih =>
    simp only [List.foldl_cons]
    cases a with
    | none => exact ih hn n
    | some s =>
      simp only []
      have h1 := veq_deliverTo hn p s c seq
      exact h1.trans (ih (hn.of_veq h1) _)

/-! ### PART 2 — the API operations on publishers preserve `XInv` -/

/-- the exemption of `p` can be dropped when the entries of `p` are good -/
theorem xinvE_unexemptP {es : Option Nat} {w : World} {p : Nat} (h : XInvE (some p) es w)
    (hg : ∀ e ∈ w.pubs, e.1 = p → GoodP e.2) : XInvE none es w := by
  refine ⟨h.nodup, ?_, h.subs⟩
  intro e he _
  by_cases hp : e.1 = p
  · exact hg e he hp
  · exact h.pubs e he (fun hh => hp (Option.some.inj hh))

/-- writing a good publisher repairs the exempted publisher -/
theorem xinvE_setP_repair {es : Option Nat} {w : World} {p : Nat} (h : XInvE (some p) es w)
    (X : Pub) (hg : GoodP X) : XInvE none es (setP w p X) := by
  apply xinvE_unexemptP (h.setP p X (fun hh => absurd rfl hh))
  intro e he hp
  rcases mem_setP he with rfl | ⟨_, h2⟩
  · exact hg
  · exact absurd hp h2

theorem not_mem_of_getP_none {w : World} {p : Nat} (h : getP w p = none) :
    ∀ e ∈ w.pubs, e.1 ≠ p := by
  intro e he hp
  unfold getP at h
  simp only [Option.map_eq_none_iff, List.find?_eq_none] at h
  have := h e he
  simp at this
  exact this hp

/-- `pubDestroyIfUnreferenced` repairs the exempted publisher -/
theorem xinv_pubDestroy {es : Option Nat} {w : World} {p : Nat} (h : XInvE (some p) es w) :
    XInvE none es (pubDestroyIfUnreferenced w p) := by
  simp only [pubDestroyIfUnreferenced]
  cases hP : getP w p with
  | none =>
    simp only []
    apply xinvE_unexemptP h
    intro e he hp
    exact absurd hp (not_mem_of_getP_none hP e he)
  | some P =>
    simp only []
    split
    · rename_i hc
      apply xinvE_unexemptP h
      intro e he hp
      have he' : e = (p, e.2) := by rw [← hp]
      rw [he'] at he
      rw [assoc_unique h.nodup.pubs he (mem_of_getP hP)]
      intro hex
      by_cases ha : P.alive = true
      · exact Or.inl ha
      · right
        intro hl
        simp [hl, hex, ha] at hc
    · have h1 := h.of_veq (veq_pubDestroySlots w p P.conns)
      exact xinvE_setP_repair h1 _ (fun hex => Bool.noConfusion hex)

theorem xstep_loan {w : World} (h : XInv w) (p l : Nat) : XInv (step w (.loan p l)).1 := by
  simp only [step]
  cases hP0 : getP w p with
  | none => exact h
  | some P0 =>
    simp only []
    split
    · exact h
    · split
      · exact h
      · have h1 := h.of_veq (veq_retrieveReturned h.nodup p)
        cases hP : getP (retrieveReturned w p) p with
        | none => exact h1
        | some P =>
          simp only []
          split
          · exact h1
          · split
            · exact h1
            · rename_i c rest hf
              split
              · exact h1.of_veq (veq_panic _)
              · exact ((h1.toE none none).setP p _ (fun _ _ => Or.inr (by simp))).toX

theorem xstep_dloan {w : World} (h : XInv w) (p l : Nat) : XInv (step w (.dloan p l)).1 := by
  simp only [step]
  cases hP : getP w p with
  | none => exact h
  | some P =>
    simp only []
    cases hl : P.loans.find? (fun x => decide (x.1 = l)) with
    | none => exact h
    | some x =>
      obtain ⟨l', c⟩ := x
      exact (xinv_pubDestroy
        (((h.toE none none).exemptP p).setP p _ (fun hh => absurd rfl hh))).toX

theorem xstep_dpub {w : World} (h : XInv w) (p : Nat) : XInv (step w (.dpub p)).1 := by
  simp only [step]
  cases hP : getP w p with
  | none => exact h
  | some P =>
    simp only []
    split
    · exact h
    · apply XInvE.toX
      apply xinv_pubDestroy
      exact (((h.toE none none).exemptP p).setP p { P with alive := false }
        (fun hh => absurd rfl hh)).of_eq rfl rfl

theorem pv_sendHist (h : Nat) (P : Pub) (c tag : Nat) : pv (sendHist h P c tag) = pv P := by
  obtain ⟨e1, _, _, e4⟩ := sendHist_fields h P c tag
  obtain ⟨a1, a2, _⟩ := ptop_eq e1
  simp only [pv, a1, a2, e4]

theorem veq_sendMid {w0 : World} (hn : NodupK w0) (p c tag : Nat) (a : Bool) :
    VEq w0 (sendMid w0 p c tag a).1 := by
  simp only [sendMid]
  split
  · exact VEq.refl _
  · have h1 := veq_pubUpdate hn p
    cases hP : getP (pubUpdate w0 p) p with
    | none => exact h1
    | some P =>
      simp only []
      have h2 := h1.trans (veq_setP (hn.of_veq h1) hP
        (X := sendHist (pubUpdate w0 p).cfg.hist P c tag) (pv_sendHist _ _ _ _))
      have h3 := h2.trans (veq_retrieveReturned (hn.of_veq h2) p)
      exact h3.trans (veq_deliverAll (hn.of_veq h3) p c P.seq _ 0)

theorem xstep_send {w : World} (h : XInv w) (p l tag : Nat) : XInv (step w (.send p l tag)).1 := by
  cases hP0 : getP w p with
  | none => simp only [step, hP0]; exact h
  | some P0 =>
    cases hl : P0.loans.find? (fun x => decide (x.1 = l)) with
    | none => simp only [step, hP0, hl]; exact h
    | some x =>
      obtain ⟨l', c⟩ := x
      rw [step_send_eq hP0 hl]
      apply XInvE.toX
      apply xinv_pubDestroy
      have h0 := ((h.toE none none).exemptP p).setP p
        { P0 with payload := P0.payload.set c tag,
                  loans := P0.loans.filter (fun x => decide (x.1 ≠ l)) } (fun hh => absurd rfl hh)
      have h1 := h0.of_veq (veq_sendMid h0.nodup p c tag P0.alive)
      split
      · exact h1.setP p _ (fun hh => absurd rfl hh)
      · exact h1

theorem pv_probeLoans (P : Pub) (fuel : Nat) (acc : List Nat) :
    pv (probeLoans P fuel acc).1 = pv P := by
  induction fuel generalizing P acc with
  | zero => rfl
  | succ k ih =>
    simp only [probeLoans]
    split
    · rfl
    · split
      · rfl
      · rw [ih]; rfl

theorem pv_probeRelease (l : List Nat) (P : Pub) :
    pv (l.foldl (fun (P : Pub) c => { P.releaseChunk c with loanCnt := P.loanCnt - 1 }) P) = pv P := by
  induction l generalizing P with
  | nil => rfl
  | cons c r ih =>
    simp only [List.foldl_cons]
    rw [ih]
    exact pv_releaseChunk P c

theorem xstep_probe {w : World} (h : XInv w) (p : Nat) : XInv (step w (.probe p)).1 := by
  simp only [step]
  cases hP0 : getP w p with
  | none => exact h
  | some P0 =>
    simp only []
    split
    · exact h
    · have h1 := h.of_veq (veq_retrieveReturned h.nodup p)
      cases hP : getP (retrieveReturned w p) p with
      | none => exact h1
      | some P =>
        simp only []
        have e1 := pv_probeLoans P (P.n + 1) []
        generalize probeLoans P (P.n + 1) [] = x at e1
        obtain ⟨P', taken, why⟩ := x
        simp only []
        exact h1.of_veq (veq_setP h1.nodup hP ((pv_probeRelease taken P').trans e1))

theorem xinv_finishPanic {w0 : World} {r : World × String} (h0 : XInv w0) (hr : XInv r.1) :
    XInv (finishPanic w0 r).1 := by
  unfold finishPanic
  split
  · exact h0.of_veq (veq_panic _)
  · exact hr

theorem xstep_updP {w : World} (h : XInv w) (p : Nat) : XInv (step w (.updP p)).1 := by
  simp only [step]
  cases hP : getP w p with
  | none => exact h
  | some P =>
    simp only []
    split
    · exact h
    · exact xinv_finishPanic h (h.of_veq (veq_pubUpdate h.nodup p))

theorem xinv_filterP {w : World} (h : XInv w) (f : Nat × Pub → Bool) :
    XInv { w with pubs := w.pubs.filter f } := by
  refine ⟨⟨?_, h.nodup.subs⟩, fun e he => h.pubs e (List.mem_filter.mp he).1, h.subs⟩
  exact List.Pairwise.sublist (List.Sublist.map _ List.filter_sublist) h.nodup.pubs

theorem xinv_appendP {w : World} (h : XInv w) {p : Nat} (hnone : getP w p = none) (X : Pub)
    (hg : GoodP X) : XInv { w with pubs := w.pubs ++ [(p, X)] } := by
  refine ⟨⟨?_, h.nodup.subs⟩, ?_, h.subs⟩
  · simp only [List.map_append, List.map_cons, List.map_nil]
    rw [List.nodup_append]
    refine ⟨h.nodup.pubs, by simp, ?_⟩
    intro a ha b hb
    simp only [List.mem_singleton] at hb
    subst hb
    obtain ⟨e, he, rfl⟩ := List.mem_map.mp ha
    exact not_mem_of_getP_none hnone e he
  · intro e he
    rcases List.mem_append.mp he with he | he
    · exact h.pubs e he
    · simp only [List.mem_singleton] at he
      subst he; exact hg

theorem xstep_cpub {w : World} (h : XInv w) (p ml : Nat) : XInv (step w (.cpub p ml)).1 := by
  simp only [step]
  split
  · exact h
  · rename_i hnone
    have hnone' : getP w p = none := by
      cases hq : getP w p with
      | none => rfl
      | some x => rw [hq] at hnone; simp at hnone
    have h0 := xinv_appendP h hnone' ({
        maxLoans := ml, n := w.cfg.nChunks ml,
        free := List.range (w.cfg.nChunks ml), rc := List.replicate (w.cfg.nChunks ml) 0,
        conns := List.replicate w.cfg.maxSubs none, snapCtr := w.subReg.counter,
        snap := w.subReg.slots, payload := List.replicate (w.cfg.nChunks ml) 0,
        chunkSeq := List.replicate (w.cfg.nChunks ml) 0 } : Pub) (fun _ => Or.inl rfl)
    have h1 := h0.of_veq (veq_pubForceUpdate h0.nodup p)
    generalize pubForceUpdate _ p = w1 at h1 ⊢
    cases hP1 : getP w1 p with
    | none =>
      split
      · rename_i hh; cases hh
      · apply xinv_finishPanic h
        exact xinv_filterP h1 _
    | some P1 =>
      split
      · rename_i reg slot P1' hadd hP1'
        cases hP1'
        apply xinv_finishPanic h
        exact (h1.of_veq (veq_setP h1.nodup hP1 (X := { P1 with slot := slot }) rfl)).of_veq
          (VEq.of_eq rfl rfl)
      · apply xinv_finishPanic h
        exact xinv_filterP (h1.of_veq (veq_pubDestroySlots w1 p P1.conns)) _

end Iox2.PubSub.C17P
