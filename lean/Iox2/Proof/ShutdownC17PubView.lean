/-
C17 — publisher side: every publisher-side helper function leaves the life-cycle view unchanged,
and the API operations on publishers preserve the "no zombie port core" invariant `XInv`.
-/
import Iox2.Proof.ShutdownC17View
import Iox2.Proof.PubSubC02StepPub

namespace Iox2.PubSub.C17P
open Iox2.PubSub Iox2.PubSub.C02P

/-! ### PART 1 — the helper functions do not change the view -/

theorem pv_releaseChunk (P : Pub) (c : Nat) : pv (P.releaseChunk c) = pv P := by
  simp only [Pub.releaseChunk]
  split <;> rfl

theorem pv_borrowChunk (P : Pub) (c : Nat) : pv (P.borrowChunk c) = pv P := rfl

theorem pv_drainComp (P : Pub) (u : List Bool) (l : List Nat) : pv (drainComp P u l).1 = pv P := by
  induction l generalizing P u with
  | nil => rfl
  | cons c r ih =>
    simp only [drainComp]
    split
    · rw [ih, pv_releaseChunk]
    · exact ih _ _

theorem pv_releaseAllUsed (P : Pub) (u : List Bool) (k : Nat) : pv (releaseAllUsed P u k) = pv P := by
  induction k with
  | zero => rfl
  | succ k ih =>
    simp only [releaseAllUsed]
    split
    · rw [pv_releaseChunk, ih]
    · exact ih

theorem veq_retrieveFrom {w : World} (hn : NodupK w) (p : Nat) (l : List (Option Nat)) :
    VEq w (retrieveFrom w p l) := by
  induction l generalizing w with
  | nil => exact VEq.refl w
  | cons a r ih =>
    cases a with
    | none => simp only [retrieveFrom]; exact ih hn
    | some s =>
      simp only [retrieveFrom]
      split
      · rename_i P c hP hC
        have h1 : VEq w (setC (setP w p (drainComp P c.used c.comp).1)
            { c with comp := [], used := (drainComp P c.used c.comp).2 }) :=
          (veq_setP hn hP (pv_drainComp _ _ _)).trans (veq_setC _ _)
        exact h1.trans (ih (hn.of_veq h1))
      · exact ih hn

theorem veq_retrieveReturned {w : World} (hn : NodupK w) (p : Nat) : VEq w (retrieveReturned w p) := by
  unfold retrieveReturned
  split
  · exact VEq.refl w
  · exact veq_retrieveFrom hn p _

theorem veq_deliverTo {w : World} (hn : NodupK w) (p s chunk seq : Nat) :
    VEq w (deliverTo w p s chunk seq).1 := by
  simp only [deliverTo]
  split
  · rename_i P c hP hC
    generalize c.trySend w.cfg.overflow chunk seq = x
    obtain ⟨c', r⟩ := x
    have h1 : VEq w (setC w c') := veq_setC _ _
    cases r with
    | full => exact h1
    | corrupted => exact h1
    | ok ev =>
      simp only []
      refine h1.trans (veq_setP (hn.of_veq h1) (P := P) (by simpa using hP) ?_)
      cases ev with
      | none => exact pv_borrowChunk _ _
      | some old => exact (pv_releaseChunk _ _).trans (pv_borrowChunk _ _)
  · exact VEq.refl w

theorem veq_deliverHistory {w : World} (hn : NodupK w) (p s : Nat) (l : List Nat) :
    VEq w (deliverHistory w p s l) := by
  induction l generalizing w with
  | nil => exact VEq.refl w
  | cons ch r ih =>
    simp only [deliverHistory]
    have h1 := veq_retrieveReturned hn p
    have h2 := h1.trans (veq_deliverTo (hn.of_veq h1) p s ch
      (match getP (retrieveReturned w p) p with | some P => P.chunkSeq.getD ch 0 | none => 0))
    exact h2.trans (ih (hn.of_veq h2))

theorem veq_pubRemoveConn {w : World} (hn : NodupK w) (p slot : Nat) : VEq w (pubRemoveConn w p slot) := by
  simp only [pubRemoveConn]
  cases hP : getP w p with
  | none => exact VEq.refl w
  | some P =>
    simp only []
    cases hs : P.conns.getD slot none with
    | none => exact VEq.refl w
    | some s =>
      simp only []
      cases hC : getC w p s with
      | none =>
        simp only []
        exact (veq_setP hn hP (X := { P with conns := P.conns.set slot none }) rfl).trans
          (veq_detachSender _ _ _)
      | some c =>
        simp only []
        have h1 : VEq w (setC w { c with used := c.used.map fun _ => false }) := veq_setC _ _
        refine (h1.trans (veq_setP (hn.of_veq h1) (P := P) (by simpa using hP) ?_)).trans
          (veq_detachSender _ _ _)
        exact pv_releaseAllUsed P c.used c.used.length

theorem veq_deliverHistory' {w W : World} (hn : NodupK w) (h : VEq w W) (p s : Nat) (l : List Nat) :
    VEq w (deliverHistory W p s l) :=
  h.trans (veq_deliverHistory (hn.of_veq h) p s l)

theorem veq_pubCreateConn {w : World} (hn : NodupK w) (p slot : Nat) (e : SubEntry) :
    VEq w (pubCreateConn w p slot e) := by
  simp only [pubCreateConn]
  cases hP : getP w p with
  | none => exact VEq.refl w
  | some P =>
    simp only []
    have h0 : VEq w (setP w p { P with conns := P.conns.set slot (some e.sid) }) :=
      veq_setP hn hP rfl
    cases hC : getC w p e.sid with
    | none =>
      simp only []
      apply veq_deliverHistory' hn
      exact h0.trans (VEq.of_eq rfl rfl)
    | some c =>
      simp only []
      apply veq_deliverHistory' hn
      exact h0.trans (VEq.of_eq rfl rfl)

theorem veq_pubUpdateSlots {w : World} (hn : NodupK w) (p : Nat) (l : List (Option SubEntry))
    (i : Nat) (t : List Nat) : VEq w (pubUpdateSlots w p l i t).1 := by
  induction l generalizing w i t with
  | nil => exact VEq.refl w
  | cons a r ih =>
    cases a with
    | none => simp only [pubUpdateSlots]; exact ih hn _ _
    | some e =>
      simp only [pubUpdateSlots]
      cases hP : getP w p with
      | none => exact VEq.refl w
      | some P =>
        simp only []
        cases hs : P.conns.getD i none with
        | none =>
          simp only []
          have h1 := veq_pubCreateConn hn p i e
          exact h1.trans (ih (hn.of_veq h1) _ _)
        | some s =>
          simp only []
          split
          · exact ih hn _ _
          · have h1 := veq_pubRemoveConn hn p i
            have h2 := h1.trans (veq_pubCreateConn (hn.of_veq h1) p i e)
            exact h2.trans (ih (hn.of_veq h2) _ _)

theorem veq_pubFinish {w : World} (hn : NodupK w) (p : Nat) (t : List Nat) (k : Nat) :
    VEq w (pubFinish w p t k) := by
  induction k with
  | zero => exact VEq.refl w
  | succ k ih =>
    simp only [pubFinish]
    split
    · exact ih
    · exact ih.trans (veq_pubRemoveConn (hn.of_veq ih) p k)

theorem veq_pubForceUpdate {w : World} (hn : NodupK w) (p : Nat) : VEq w (pubForceUpdate w p) := by
  simp only [pubForceUpdate]
  cases hP : getP w p with
  | none => exact VEq.refl w
  | some P =>
    simp only []
    have h1 := veq_pubUpdateSlots hn p P.snap 0 []
    exact h1.trans (veq_pubFinish (hn.of_veq h1) p _ _)

theorem veq_pubUpdate {w : World} (hn : NodupK w) (p : Nat) : VEq w (pubUpdate w p) := by
  simp only [pubUpdate]
  cases hP : getP w p with
  | none => exact VEq.refl w
  | some P =>
    simp only []
    split
    · exact VEq.refl w
    · have h1 : VEq w (setP w p { P with snapCtr := w.subReg.counter, snap := w.subReg.slots }) :=
        veq_setP hn hP rfl
      exact h1.trans (veq_pubForceUpdate (hn.of_veq h1) p)

theorem veq_pubDestroySlots (w : World) (p : Nat) (l : List (Option Nat)) :
    VEq w (pubDestroySlots w p l) := by
  induction l generalizing w with
  | nil => exact VEq.refl w
  | cons a r ih =>
    cases a with
    | none => simp only [pubDestroySlots]; exact ih w
    | some s =>
      simp only [pubDestroySlots]
      exact (veq_detachSender w p s).trans (ih _)

/-- the delivery loop of `send` (same lambda as in the model) -/
theorem veq_deliverAll {w : World} (hn : NodupK w) (p c seq : Nat) (slots : List (Option Nat)) (n : Nat) :
    VEq w (slots.foldl (fun (acc : World × Nat) sl =>
        match sl with
        | none => acc
        | some s => let (w', ok) := deliverTo acc.1 p s c seq
                    (w', if ok then acc.2 + 1 else acc.2)) (w, n)).1 := by
  induction slots generalizing w n with
  | nil => exact VEq.refl w
  | cons a r ih =>
    simp only [List.foldl_cons]
    cases a with
    | none => exact ih hn n
    | some s =>
      simp only []
      have h1 := veq_deliverTo hn p s c seq
      exact h1.trans (ih (hn.of_veq h1) _)

end Iox2.PubSub.C17P
