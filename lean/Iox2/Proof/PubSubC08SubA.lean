/-
C08 helper: subscriber-side actions preserve the invariant (part A: rebuild lemma).
-/
import Iox2.Proof.PubSubC08PubL
set_option linter.unusedSimpArgs false
set_option linter.unusedVariables false
namespace Iox2.PubSub.C08
open Iox2.PubSub
open Iox2.C16.SlotMapP (abs)
attribute [-simp] List.getD_eq_getElem?_getD

/-- subscriber records that agree on what the other parts of the invariant look at -/
structure SubSim (S S' : Sub) : Prop where
  alive : S'.alive = S.alive
  slot : S'.slot = S.slot
  buffer : S'.buffer = S.buffer

structure SubsSim (w w' : World) : Prop where
  fwd : ∀ q S, getS w q = some S → ∃ S', getS w' q = some S' ∧ SubSim S S'
  bwd : ∀ q S', getS w' q = some S' → ∃ S, getS w q = some S ∧ SubSim S S'

/-- frame facts shared by all subscriber-side actions -/
structure SFrame (w w' : World) : Prop where
  cfg : w'.cfg = w.cfg
  pubReg : w'.pubReg = w.pubReg
  subReg : w'.subReg = w.subReg
  pubs : ∀ p, getP w' p = getP w p

theorem SFrame.of_SStep {w w' : World} (h : SStep w w') : SFrame w w' := by
  obtain ⟨a, b, c, d, -, -⟩ := h.frame
  exact ⟨a, b, c, fun s => by unfold getP; rw [d]⟩

theorem SFrame.trans {a b c : World} (h1 : SFrame a b) (h2 : SFrame b c) : SFrame a c :=
  ⟨h2.cfg.trans h1.cfg, h2.pubReg.trans h1.pubReg, h2.subReg.trans h1.subReg, fun p => (h2.pubs p).trans (h1.pubs p)⟩

theorem RInv.transferS {cfg : Cfg} {w w' : World} {xp xs : Option Nat} (h : RInv cfg w xp xs)
    (hfr : SFrame w w') (hS : SubsSim w w') : RInv cfg w' xp xs := by
  refine ⟨hfr.cfg.trans h.cfgEq, by rw [hfr.pubReg]; exact h.pubLen, by rw [hfr.subReg]; exact h.subLen, ?_, ?_, ?_, ?_⟩
  · intro i p hi
    rw [hfr.pubReg] at hi; rw [hfr.pubs]; exact h.rp1 i p hi
  · intro p P hp ha hne
    rw [hfr.pubs] at hp; rw [hfr.pubReg]; exact h.rp2 p P hp ha hne
  · intro i e hi
    rw [hfr.subReg] at hi
    obtain ⟨S, hs, ha, hsl, hb⟩ := h.rs1 i e hi
    obtain ⟨S', hs', sim⟩ := hS.fwd e.sid S hs
    exact ⟨S', hs', sim.alive.trans ha, sim.slot.trans hsl, hb.trans sim.buffer.symm⟩
  · intro s S' hs' ha hne
    obtain ⟨S, hs, sim⟩ := hS.bwd s S' hs'
    rw [hfr.subReg, sim.slot]
    exact h.rs2 s S hs (sim.alive.symm.trans ha) hne

theorem MemOK.transfer' {cfg : Cfg} {w w' : World} {p : Nat} {P : Pub} {xs : List Nat} {st : Bool}
    (h : MemOK cfg w p P xs st) (hU : ∀ s, some s ∈ P.conns → ∀ c, usedAt w' p s c = usedAt w p s c) :
    MemOK cfg w' p P xs st := by
  refine ⟨h.fr, h.nEq, ?_, h.loanCnt, h.histLen, h.labels, h.loanRc, h.xsRc, h.histNodup⟩
  intro c
  rw [h.rcEq c, slotSum_congr P.conns (fun s hs => hU s hs c)]

theorem ConnInv.transferS {cfg : Cfg} {w w' : World} {p s : Nat} {c : Conn} (h : ConnInv cfg w p s c)
    (hP : ∀ p, getP w' p = getP w p) (hS : getS w' s = getS w s) : ConnInv cfg w' p s c := by
  refine ⟨h.ok, by rw [hP]; exact h.hasP, by rw [hS]; exact h.hasS, ?_, ?_, ?_, ?_, ?_⟩
  · intro S hs; rw [hS] at hs; exact h.held S hs
  · intro ha S hs; rw [hS] at hs; exact h.exact ha S hs
  · intro ha P S hp hs; rw [hP] at hp; rw [hS] at hs; exact h.fresh ha P S hp hs
  · intro ha; rw [hP]; exact h.inSlot ha
  · intro P hp; rw [hP] at hp; exact h.usedLen P hp

theorem SubOK.transferS {cfg : Cfg} {w w' : World} {s : Nat} {S : Sub} {hole : Option Nat}
    (h : SubOK cfg w s S hole) (hP : ∀ p, getP w' p = getP w p)
    (hC : ∀ p, getC w' p s = getC w p s) : SubOK cfg w' s S hole := by
  refine ⟨h.stI, h.connsLen, h.capEq, h.buf1, h.bufM, h.tbrNodup, h.tbrLen, h.tbrIn, h.connKey, h.connInj,
    h.cover, ?_, h.pidInj, h.heldKey, ?_, ?_, h.aliveEx⟩
  · intro k p hk; rw [hC]; exact h.hasConn k p hk
  · intro k hk p P ha hp; rw [hP] at hp; exact h.tbrDead k hk p P ha hp
  · intro i k p hi hk ha; rw [hP]; exact h.connSlot i k p hi hk ha

/-- rebuild the invariant after an action that touched only subscriber `s` and connections of `s` -/
theorem InvS.rebuild {cfg : Cfg} {w w' : World} {xs : Option Nat} {s0 : Nat} {hole hole' : Option Nat}
    (h : InvS cfg w xs s0 hole) (s : Nat)
    (hfr : SFrame w w')
    (hSo : ∀ q, q ≠ s → getS w' q = getS w q)
    (hCo : ∀ p q, q ≠ s → getC w' p q = getC w p q)
    (hsim : SubsSim w w')
    (hu : ConnsUniq w')
    (hx : s ≠ s0 → hole = none ∧ hole' = none)
    (hA : ∀ p c, getC w p s = some c → c.sAtt = true →
      ∃ c', getC w' p s = some c' ∧ c'.sAtt = true ∧ c'.used = c.used)
    (hC : ∀ p c', getC w' p s = some c' → ConnInv cfg w' p s c')
    (hS : ∀ S', getS w' s = some S' → SubOK cfg w' s S' (if s = s0 then hole' else none)) :
    InvS cfg w' xs s0 hole' := by
  refine ⟨h.r.transferS hfr hsim, ?_, ?_, ?_, hu⟩
  · intro p q c hc
    by_cases hq : q = s
    · subst hq; exact hC p c hc
    · rw [hCo p q hq] at hc
      exact (h.c p q c hc).transferS hfr.pubs (hSo q hq)
  · intro p P hp
    rw [hfr.pubs] at hp
    obtain ⟨a, b⟩ := h.p p P hp
    constructor
    · refine ⟨a.connsLen, ?_, ?_, a.aliveEx⟩
      · intro i q hi
        obtain ⟨c, hc, ha⟩ := a.slotConn i q hi
        by_cases hq : q = s
        · subst hq
          obtain ⟨c', hc', ha', _⟩ := hA p c hc ha
          exact ⟨c', hc', ha'⟩
        · exact ⟨c, by rw [hCo p q hq]; exact hc, ha⟩
      · intro i q hi
        obtain ⟨S, hS', hsl⟩ := a.slotSlot i q hi
        obtain ⟨S', hS'', sim⟩ := hsim.fwd q S hS'
        exact ⟨S', hS'', sim.slot.trans hsl⟩
    · intro hal
      refine (b hal).transfer' ?_
      intro q hq x
      by_cases hqs : q = s
      · subst hqs
        obtain ⟨i, hi⟩ := List.getElem?_of_mem hq
        obtain ⟨c, hc, ha⟩ := a.slotConn i q hi
        obtain ⟨c', hc', _, hused⟩ := hA p c hc ha
        rw [usedAt_of_getC hc', usedAt_of_getC hc, hused]
      · exact usedAt_congr (hCo p q hqs) x
  · intro q Q hq
    by_cases hqs : q = s
    · subst hqs; exact hS Q hq
    · rw [hSo q hqs] at hq
      have := (h.s q Q hq).transferS hfr.pubs (fun p => hCo p q hqs)
      by_cases hq0 : q = s0
      · subst hq0
        obtain ⟨e1, e2⟩ := hx (fun e => hqs e.symm)
        subst e1; subst e2
        exact this
      · simpa [hq0] using this

end Iox2.PubSub.C08
