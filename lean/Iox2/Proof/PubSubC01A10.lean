/-
Layer A: life cycle of a publisher record (created, registered, creation failed, unregistered).
-/
import Iox2.Proof.PubSubC01A9
namespace Iox2.PubSub.C01P
open Iox2.PubSub
open Iox2.C16.SlotMapP (abs WInv)

variable {cfg : Cfg} {w : World}

theorem replicate_none_ne {α : Type} {n i : Nat} {v : α} : (List.replicate n (none : Option α))[i]? ≠ some (some v) := by
  intro h
  rw [List.getElem?_replicate] at h
  split at h <;> cases h

theorem InvA.addPub (h : InvA cfg none none w) {p : Nat} (hfresh : getP w p = none) {P : Pub}
    (hal : P.alive = true) (hex : P.ex = true) (hconns : P.conns = List.replicate cfg.maxSubs none) :
    InvA cfg (some p) none (addP w p P) := by
  have gP : ∀ a Q, getP (addP w p P) a = some Q → getP w a = some Q ∨ (a = p ∧ Q = P) := by
    intro a Q hq
    rw [getP_addP] at hq
    cases h0 : getP w a with
    | some Q0 => rw [h0] at hq; simp at hq; exact Or.inl (by rw [hq])
    | none =>
      rw [h0] at hq
      by_cases hap : a = p
      · simp [hap] at hq; exact Or.inr ⟨hap, hq.symm⟩
      · simp [hap] at hq
  have gP2 : ∀ a Q, getP w a = some Q → getP (addP w p P) a = some Q ∧ a ≠ p := by
    intro a Q hq
    rw [getP_addP, hq]
    exact ⟨rfl, fun hap => by rw [hap, hfresh] at hq; cases hq⟩
  constructor
  · exact h.cfgEq
  · exact h.uniqC
  · exact h.sregLen
  · intro i a hi
    obtain ⟨_, Q0, h2, h3, h4⟩ := h.preg i a hi
    obtain ⟨h5, h6⟩ := gP2 a Q0 h2
    exact ⟨fun hh => h6 (Option.some.inj hh), Q0, h5, h3, h4⟩
  · exact h.sreg
  · intro a Q hq hQa
    rcases gP a Q hq with h0 | ⟨rfl, rfl⟩
    · have := h.palive a Q h0 hQa
      exact ⟨this.1, fun _ => this.2 (by simp)⟩
    · exact ⟨hex, fun hh => absurd rfl hh⟩
  · exact h.salive
  · exact h.sbuf
  · intro a Q hq
    rcases gP a Q hq with h0 | ⟨rfl, rfl⟩
    · exact h.pconns a Q h0
    · refine ⟨by rw [hconns, List.length_replicate], fun i b hi => ?_⟩
      rw [hconns] at hi
      exact absurd hi replicate_none_ne
  · intro cn hcn
    obtain ⟨⟨Q0, h0⟩, hS⟩ := h.ends cn hcn
    exact ⟨⟨Q0, (gP2 _ Q0 h0).1⟩, hS⟩
  · exact h.a1
  · intro s S hS
    obtain ⟨h1, h2⟩ := h.stor s S hS
    refine ⟨h1, fun k a hk => ?_⟩
    obtain ⟨_, Q0, h0⟩ := h2 k a hk
    obtain ⟨h5, h6⟩ := gP2 a Q0 h0
    exact ⟨fun hh => h6 (Option.some.inj hh), Q0, h5⟩
  · intro cn hcn hsa
    obtain ⟨Q0, h0, hi⟩ := h.a2 cn hcn hsa
    exact ⟨Q0, (gP2 _ Q0 h0).1, hi⟩
  · intro a Q hq hQe i s hi
    rcases gP a Q hq with h0 | ⟨rfl, rfl⟩
    · exact h.a2c a Q h0 hQe i s hi
    · rw [hconns] at hi
      exact absurd hi replicate_none_ne
  · exact h.a3
  · intro cn hcn hsa Q S hq hS hQe hSa
    obtain ⟨⟨Q0, h0⟩, _⟩ := h.ends cn hcn
    rcases gP _ Q hq with h1 | ⟨h1, _⟩
    · exact h.virg cn hcn hsa Q S h1 hS hQe hSa
    · rw [h1, hfresh] at h0; cases h0
  · intro s S hS hSa e he Q hq hQa
    obtain ⟨_, Q0, h0⟩ := h.gr s S hS e he
    rcases gP _ Q hq with h1 | ⟨h1, _⟩
    · exact h.k2 s S hS hSa e he Q h1 hQa
    · rw [h1, hfresh] at h0; cases h0
  · exact h.l3
  · exact h.l4
  · exact h.clog
  · intro s S hS e he
    obtain ⟨_, Q0, h0⟩ := h.gr s S hS e he
    obtain ⟨h5, h6⟩ := gP2 _ Q0 h0
    exact ⟨fun hh => h6 (Option.some.inj hh), Q0, h5⟩

theorem InvA.registerPub {p : Nat} (h : InvA cfg (some p) none w) {P1 : Pub} (hP : getP w p = some P1)
    (hal : P1.alive = true) {reg : Reg Nat} {slot : Nat} (hadd : w.pubReg.add p = some (reg, slot)) :
    InvA cfg none none { setP w p { P1 with slot := slot } with pubReg := reg } := by
  obtain ⟨hfree, hreg⟩ := Reg_add_spec _ _ _ _ hadd
  have hslt : slot < w.pubReg.slots.length := (List.getElem?_eq_some_iff.mp hfree).1
  have gP : ∀ a Q, getP (setP w p { P1 with slot := slot }) a = some Q →
      (a = p ∧ Q = { P1 with slot := slot }) ∨ (a ≠ p ∧ getP w a = some Q) := by
    intro a Q hq
    rw [getP_setP] at hq
    by_cases hap : a = p
    · subst hap
      simp only [if_true, hP, Option.map_some, Option.some.injEq] at hq
      exact Or.inl ⟨rfl, hq.symm⟩
    · rw [if_neg hap] at hq
      exact Or.inr ⟨hap, hq⟩
  have gP2 : ∀ a Q0, getP w a = some Q0 → ∃ Q, getP (setP w p { P1 with slot := slot }) a = some Q ∧
      Q.alive = Q0.alive ∧ Q.ex = Q0.ex ∧ Q.conns = Q0.conns ∧ (a ≠ p → Q = Q0) := by
    intro a Q0 hq
    rw [getP_setP]
    by_cases hap : a = p
    · subst hap
      rw [hP] at hq; cases hq
      exact ⟨{ P1 with slot := slot }, by simp [hP], rfl, rfl, rfl, fun hh => absurd rfl hh⟩
    · rw [if_neg hap]
      exact ⟨Q0, hq, rfl, rfl, rfl, fun _ => rfl⟩
  constructor
  · exact h.cfgEq
  · exact h.uniqC
  · exact h.sregLen
  · intro i a hi
    show _ ∧ ∃ P, getP (setP w p { P1 with slot := slot }) a = some P ∧ _
    simp only [hreg, List.getElem?_set] at hi
    by_cases his : slot = i
    · subst his
      simp [hslt] at hi
      subst hi
      exact ⟨by simp, _, getP_setP_self _ hP, hal, rfl⟩
    · rw [if_neg his] at hi
      obtain ⟨hne, Q0, h2, h3, h4⟩ := h.preg i a hi
      have hap : a ≠ p := fun hh => hne (by rw [hh])
      exact ⟨by simp, Q0, by rw [getP_setP_ne _ _ hap]; exact h2, h3, h4⟩
  · exact h.sreg
  · intro a Q hq hQa
    show _ ∧ (_ → reg.slots[Q.slot]? = _)
    rcases gP a Q hq with ⟨rfl, rfl⟩ | ⟨hap, h0⟩
    · refine ⟨(h.palive a P1 hP hal).1, fun _ => ?_⟩
      simp only [hreg, List.getElem?_set]
      simp [hslt]
    · have := h.palive a Q h0 hQa
      refine ⟨this.1, fun _ => ?_⟩
      have h1 := this.2 (fun hh => hap (Option.some.inj hh))
      simp only [hreg, List.getElem?_set]
      have : slot ≠ Q.slot := by
        intro hh; rw [← hh, hfree] at h1; cases h1
      rw [if_neg this]; exact h1
  · exact h.salive
  · exact h.sbuf
  · intro a Q hq
    rcases gP a Q hq with ⟨rfl, rfl⟩ | ⟨_, h0⟩
    · exact h.pconns a P1 hP
    · exact h.pconns a Q h0
  · intro cn hcn
    obtain ⟨⟨Q0, h0⟩, hS⟩ := h.ends cn hcn
    obtain ⟨Q, hq, _⟩ := gP2 _ Q0 h0
    exact ⟨⟨Q, hq⟩, hS⟩
  · exact h.a1
  · intro s S hS
    obtain ⟨h1, h2⟩ := h.stor s S hS
    refine ⟨h1, fun k a hk => ?_⟩
    obtain ⟨_, Q0, h0⟩ := h2 k a hk
    obtain ⟨Q, hq, _⟩ := gP2 _ Q0 h0
    exact ⟨by simp, Q, hq⟩
  · intro cn hcn hsa
    obtain ⟨Q0, h0, i, hi⟩ := h.a2 cn hcn hsa
    obtain ⟨Q, hq, _, _, e3, _⟩ := gP2 _ Q0 h0
    exact ⟨Q, hq, i, e3 ▸ hi⟩
  · intro a Q hq hQe i s hi
    rcases gP a Q hq with ⟨rfl, rfl⟩ | ⟨_, h0⟩
    · exact h.a2c a P1 hP hQe i s hi
    · exact h.a2c a Q h0 hQe i s hi
  · exact h.a3
  · intro cn hcn hsa Q S hq hS hQe hSa
    rcases gP _ Q hq with ⟨hap, rfl⟩ | ⟨_, h0⟩
    · exact h.virg cn hcn hsa P1 S (hap ▸ hP) hS hQe hSa
    · exact h.virg cn hcn hsa Q S h0 hS hQe hSa
  · intro s S hS hSa e he Q hq hQa
    rcases gP _ Q hq with ⟨hap, rfl⟩ | ⟨_, h0⟩
    · exact h.k2 s S hS hSa e he P1 (hap ▸ hP) hQa
    · exact h.k2 s S hS hSa e he Q h0 hQa
  · exact h.l3
  · exact h.l4
  · exact h.clog
  · intro s S hS e he
    obtain ⟨_, Q0, h0⟩ := h.gr s S hS e he
    obtain ⟨Q, hq, _⟩ := gP2 _ Q0 h0
    exact ⟨by simp, Q, hq⟩

theorem InvA.unregisterPub (h : InvA cfg none none w) {p : Nat} {P : Pub} (hP : getP w p = some P)
    (hal : P.alive = true) :
    InvA cfg none none { setP w p { P with alive := false } with pubReg := w.pubReg.remove P.slot } := by
  have hregp := (h.palive p P hP hal).2 (by simp)
  have gP : ∀ a Q, getP (setP w p { P with alive := false }) a = some Q →
      (a = p ∧ Q = { P with alive := false }) ∨ (a ≠ p ∧ getP w a = some Q) := by
    intro a Q hq
    rw [getP_setP] at hq
    by_cases hap : a = p
    · subst hap
      simp only [if_true, hP, Option.map_some, Option.some.injEq] at hq
      exact Or.inl ⟨rfl, hq.symm⟩
    · rw [if_neg hap] at hq
      exact Or.inr ⟨hap, hq⟩
  have gP2 : ∀ a Q0, getP w a = some Q0 → ∃ Q, getP (setP w p { P with alive := false }) a = some Q ∧
      Q.ex = Q0.ex ∧ Q.conns = Q0.conns ∧ (a ≠ p → Q = Q0) := by
    intro a Q0 hq
    rw [getP_setP]
    by_cases hap : a = p
    · subst hap
      rw [hP] at hq; cases hq
      exact ⟨{ P with alive := false }, by simp [hP], rfl, rfl, fun hh => absurd rfl hh⟩
    · rw [if_neg hap]
      exact ⟨Q0, hq, rfl, rfl, fun _ => rfl⟩
  constructor
  · exact h.cfgEq
  · exact h.uniqC
  · exact h.sregLen
  · intro i a hi
    show _ ∧ ∃ Q, getP (setP w p { P with alive := false }) a = some Q ∧ _
    simp only [Reg.remove, List.getElem?_set] at hi
    by_cases his : P.slot = i
    · rw [if_pos his] at hi; split at hi <;> cases hi
    · rw [if_neg his] at hi
      obtain ⟨hne, Q0, h2, h3, h4⟩ := h.preg i a hi
      have hap : a ≠ p := by
        rintro rfl; rw [hP] at h2; cases h2; exact his h4
      exact ⟨hne, Q0, by rw [getP_setP_ne _ _ hap]; exact h2, h3, h4⟩
  · exact h.sreg
  · intro a Q hq hQa
    show _ ∧ (_ → (w.pubReg.remove P.slot).slots[Q.slot]? = _)
    rcases gP a Q hq with ⟨rfl, rfl⟩ | ⟨hap, h0⟩
    · cases hQa
    · have := h.palive a Q h0 hQa
      refine ⟨this.1, fun hh => ?_⟩
      have h1 := this.2 hh
      simp only [Reg.remove, List.getElem?_set]
      have : P.slot ≠ Q.slot := by
        intro hh2; rw [← hh2, hregp] at h1; cases h1; exact hap rfl
      rw [if_neg this]; exact h1
  · exact h.salive
  · exact h.sbuf
  · intro a Q hq
    rcases gP a Q hq with ⟨rfl, rfl⟩ | ⟨_, h0⟩
    · exact h.pconns a P hP
    · exact h.pconns a Q h0
  · intro cn hcn
    obtain ⟨⟨Q0, h0⟩, hS⟩ := h.ends cn hcn
    obtain ⟨Q, hq, _⟩ := gP2 _ Q0 h0
    exact ⟨⟨Q, hq⟩, hS⟩
  · exact h.a1
  · intro s S hS
    obtain ⟨h1, h2⟩ := h.stor s S hS
    refine ⟨h1, fun k a hk => ?_⟩
    obtain ⟨hne, Q0, h0⟩ := h2 k a hk
    obtain ⟨Q, hq, _⟩ := gP2 _ Q0 h0
    exact ⟨hne, Q, hq⟩
  · intro cn hcn hsa
    obtain ⟨Q0, h0, i, hi⟩ := h.a2 cn hcn hsa
    obtain ⟨Q, hq, _, e3, _⟩ := gP2 _ Q0 h0
    exact ⟨Q, hq, i, e3 ▸ hi⟩
  · intro a Q hq hQe i s hi
    rcases gP a Q hq with ⟨rfl, rfl⟩ | ⟨_, h0⟩
    · exact h.a2c a P hP hQe i s hi
    · exact h.a2c a Q h0 hQe i s hi
  · exact h.a3
  · intro cn hcn hsa Q S hq hS hQe hSa
    rcases gP _ Q hq with ⟨hap, rfl⟩ | ⟨_, h0⟩
    · exact h.virg cn hcn hsa P S (hap ▸ hP) hS hQe hSa
    · exact h.virg cn hcn hsa Q S h0 hS hQe hSa
  · intro s S hS hSa e he Q hq hQa
    rcases gP _ Q hq with ⟨hap, rfl⟩ | ⟨_, h0⟩
    · cases hQa
    · exact h.k2 s S hS hSa e he Q h0 hQa
  · exact h.l3
  · exact h.l4
  · exact h.clog
  · intro s S hS e he
    obtain ⟨hne, Q0, h0⟩ := h.gr s S hS e he
    obtain ⟨Q, hq, _⟩ := gP2 _ Q0 h0
    exact ⟨hne, Q, hq⟩

end Iox2.PubSub.C01P

namespace Iox2.PubSub.C01P
open Iox2.PubSub
open Iox2.C16.SlotMapP (abs WInv)

variable {cfg : Cfg} {w : World}

/-! ### creation of a publisher failed: everything it made is removed again -/

theorem pubDestroySlots_conns (p : Nat) (l : List (Option Nat)) {w : World}
    (hr : ∀ cn ∈ w.conns, cn.pid = p → cn.rAtt = false) :
    (pubDestroySlots w p l).conns = w.conns.filter (fun c => ¬ (c.pid = p ∧ some c.sid ∈ l)) := by
  induction l generalizing w with
  | nil =>
    show w.conns = _
    rw [List.filter_eq_self.mpr]
    intro c _; simp
  | cons x r ih =>
    cases x with
    | none =>
      show (pubDestroySlots w p r).conns = _
      rw [ih hr]
      apply List.filter_congr
      intro c _; simp
    | some s =>
      show (pubDestroySlots (detachSender w p s) p r).conns = _
      cases hg : getC w p s with
      | none =>
        rw [detachSender_none hg, ih hr]
        apply List.filter_congr
        intro c hc
        have := getC_none hg c hc
        by_cases hp : c.pid = p
        · have hs : c.sid ≠ s := fun hh => this ⟨hp, hh⟩
          simp [hp, hs]
        · simp [hp]
      | some c0 =>
        obtain ⟨hm, hp0, hs0⟩ := getC_some hg
        rw [detachSender_drop hg (hr c0 hm hp0)]
        rw [ih (w := dropC w p s) (fun cn hcn hp => hr cn (mem_dropC.mp hcn).1 hp)]
        show (w.conns.filter _).filter _ = _
        rw [List.filter_filter]
        apply List.filter_congr
        intro c _
        by_cases hp : c.pid = p
        · by_cases hs : c.sid = s
          · simp [hp, hs]
          · simp [hp, hs]
        · simp [hp]

/-- all connections of publisher `p` removed -/
def dropPid (w : World) (p : Nat) : World := { w with conns := w.conns.filter fun c => c.pid ≠ p }

theorem getC_dropPid (w : World) (p a b : Nat) : getC (dropPid w p) a b = if a = p then none else getC w a b := by
  unfold getC dropPid
  by_cases hap : a = p
  · subst hap
    rw [if_pos rfl, List.find?_eq_none]
    intro c hc
    simp only [List.mem_filter, decide_eq_true_eq] at hc
    simp only [decide_eq_true_eq]
    exact fun hh => hc.2 hh.1
  · rw [if_neg hap, List.find?_filter]
    congr 1
    funext c
    by_cases hc : c.pid = a ∧ c.sid = b
    · have : c.pid ≠ p := fun hh => hap (hc.1 ▸ hh)
      simp [hc, this, hap]
    · simp [hc]

theorem InvA.failPub_core {p : Nat} (h : InvA cfg (some p) none w) :
    InvA cfg none none (delP (dropPid w p) p) := by
  have gP : ∀ a Q, getP (delP (dropPid w p) p) a = some Q → a ≠ p ∧ getP w a = some Q := by
    intro a Q hq
    rw [getP_delP] at hq
    by_cases hap : a = p
    · rw [if_pos hap] at hq; cases hq
    · rw [if_neg hap] at hq; exact ⟨hap, hq⟩
  have gP2 : ∀ a Q, getP w a = some Q → a ≠ p → getP (delP (dropPid w p) p) a = some Q := by
    intro a Q hq hap
    rw [getP_delP, if_neg hap]; exact hq
  have hmem : ∀ cn, cn ∈ (delP (dropPid w p) p).conns ↔ cn ∈ w.conns ∧ cn.pid ≠ p := by
    intro cn
    show cn ∈ w.conns.filter _ ↔ _
    simp only [List.mem_filter, decide_eq_true_eq]
  have gC : ∀ a b, a ≠ p → getC (delP (dropPid w p) p) a b = getC w a b := by
    intro a b hap
    show getC (dropPid w p) a b = _
    rw [getC_dropPid, if_neg hap]
  constructor
  · exact h.cfgEq
  · intro cn hcn
    obtain ⟨hm, hp⟩ := (hmem cn).mp hcn
    rw [gC _ _ hp]; exact h.uniqC cn hm
  · exact h.sregLen
  · intro i a hi
    obtain ⟨hne, Q0, h2, h3, h4⟩ := h.preg i a hi
    have hap : a ≠ p := fun hh => hne (by rw [hh])
    exact ⟨by simp, Q0, gP2 a Q0 h2 hap, h3, h4⟩
  · exact h.sreg
  · intro a Q hq hQa
    obtain ⟨hap, h0⟩ := gP a Q hq
    have := h.palive a Q h0 hQa
    exact ⟨this.1, fun _ => this.2 (fun hh => hap (Option.some.inj hh))⟩
  · exact h.salive
  · exact h.sbuf
  · intro a Q hq
    exact h.pconns a Q (gP a Q hq).2
  · intro cn hcn
    obtain ⟨hm, hp⟩ := (hmem cn).mp hcn
    obtain ⟨⟨Q0, h0⟩, hS⟩ := h.ends cn hm
    exact ⟨⟨Q0, gP2 _ Q0 h0 hp⟩, hS⟩
  · intro cn hcn hra
    exact h.a1 cn ((hmem cn).mp hcn).1 hra
  · intro s S hS
    obtain ⟨h1, h2⟩ := h.stor s S hS
    refine ⟨h1, fun k a hk => ?_⟩
    obtain ⟨hne, Q0, h0⟩ := h2 k a hk
    exact ⟨by simp, Q0, gP2 a Q0 h0 (fun hh => hne (by rw [hh]))⟩
  · intro cn hcn hsa
    obtain ⟨hm, hp⟩ := (hmem cn).mp hcn
    obtain ⟨Q0, h0, hi⟩ := h.a2 cn hm hsa
    exact ⟨Q0, gP2 _ Q0 h0 hp, hi⟩
  · intro a Q hq hQe i s hi
    obtain ⟨hap, h0⟩ := gP a Q hq
    rw [gC _ _ hap]
    exact h.a2c a Q h0 hQe i s hi
  · intro cn hcn
    exact h.a3 cn ((hmem cn).mp hcn).1
  · intro cn hcn hsa Q S hq hS hQe hSa
    exact h.virg cn ((hmem cn).mp hcn).1 hsa Q S (gP _ Q hq).2 hS hQe hSa
  · intro s S hS hSa e he Q hq hQa
    obtain ⟨hap, h0⟩ := gP _ Q hq
    rw [gC _ _ hap]
    exact h.k2 s S hS hSa e he Q h0 hQa
  · intro cn hcn S hS
    exact h.l3 cn ((hmem cn).mp hcn).1 S hS
  · exact h.l4
  · intro cn hcn
    exact h.clog cn ((hmem cn).mp hcn).1
  · intro s S hS e he
    obtain ⟨hne, Q0, h0⟩ := h.gr s S hS e he
    exact ⟨by simp, Q0, gP2 _ Q0 h0 (fun hh => hne (by rw [hh]))⟩

theorem InvA.failPub_eq {p : Nat} (h : InvA cfg (some p) none w) {P1 : Pub} (hP : getP w p = some P1) :
    delP (pubDestroySlots w p P1.conns) p = delP (dropPid w p) p := by
  have hr : ∀ cn ∈ w.conns, cn.pid = p → cn.rAtt = false := by
    intro cn hcn hp
    cases hra : cn.rAtt with
    | false => rfl
    | true =>
      obtain ⟨S, hS, _, k, hk⟩ := h.a1 cn hcn hra
      have := ((h.stor _ S hS).2 k _ hk).1
      rw [hp] at this; exact absurd rfl this
  obtain ⟨f1, f2⟩ := pubDestroySlots_frame w p P1.conns
  have hc := pubDestroySlots_conns p P1.conns hr
  have hc2 : (pubDestroySlots w p P1.conns).conns = w.conns.filter fun c => c.pid ≠ p := by
    rw [hc]
    apply List.filter_congr
    intro c hcm
    by_cases hp : c.pid = p
    · have hsa : c.sAtt = true := by
        rcases h.a3 c hcm with h1 | h1
        · exact h1
        · rw [hr c hcm hp] at h1; cases h1
      obtain ⟨Q, hQ, i, hi⟩ := h.a2 c hcm hsa
      rw [hp, hP] at hQ; cases hQ
      have : some c.sid ∈ P1.conns := List.mem_of_getElem? hi
      simp [hp, this]
    · simp [hp]
  unfold delP dropPid
  rw [f2, hc2, f1.subs, f1.pubReg, f1.subReg, f1.cfg, f1.panicked]

theorem InvA.failPub {p : Nat} (h : InvA cfg (some p) none w) {P1 : Pub} (hP : getP w p = some P1) :
    InvA cfg none none (delP (pubDestroySlots w p P1.conns) p) := by
  rw [h.failPub_eq hP]; exact h.failPub_core

end Iox2.PubSub.C01P
