/-
Layer B: the API operations other than `loan`, `dloan`, `send`, `probe` preserve `InvB none`.
-/
import Iox2.Proof.PubSubC01BL2
namespace Iox2.PubSub.C01P
open Iox2.PubSub

variable {cfg : Cfg} {w : World}

theorem invB_step_cpub (hA : InvA cfg none none w) (hB : InvB none w) (p ml : Nat) :
    InvB none (step w (.cpub p ml)).1 := by
  rw [C01P.step_cpub]
  split
  · exact hB
  · rename_i hf
    have hfresh : getP w p = none := by
      cases hg : getP w p with
      | none => rfl
      | some _ => rw [hg] at hf; simp at hf
    have h0 : InvA cfg (some p) none (addP w p (newPub w ml)) :=
      hA.addPub hfresh rfl rfl (by simp only [newPub, hA.cfgEq])
    have hB0 : InvB none (addP w p (newPub w ml)) := invB_addP_new hA hB hfresh ml
    have hg0 : getP (addP w p (newPub w ml)) p = some (newPub w ml) := by
      rw [getP_addP, hfresh]; simp
    have h1 := invAB_pubForceUpdate ⟨h0, hB0⟩ p hg0 rfl rfl
    have f1 := pubForceUpdate_frame (addP w p (newPub w ml)) p
    obtain ⟨P1, hP1, st1⟩ := f1.psome p _ hg0
    simp only
    generalize pubForceUpdate (addP w p (newPub w ml)) p = w1 at h1 hP1
    rw [hP1]
    cases hadd : w1.pubReg.add p with
    | none =>
      simp only
      refine invB_finishPanic hB _ ?_
      show InvB none (delP (pubDestroySlots w1 p P1.conns) p)
      rw [h1.a.failPub_eq hP1]
      exact invB_failPub h1.b p (fun c fr hh => by cases hh)
    | some rs =>
      obtain ⟨reg, slot⟩ := rs
      simp only
      refine invB_finishPanic hB _ ?_
      exact invB_pubReg (h1.b.setP_irrel (P' := { P1 with slot := slot }) hP1
        ⟨rfl, rfl, rfl, rfl, rfl, rfl, rfl, rfl, rfl, rfl⟩) reg

theorem invB_step_dpub (hA : InvA cfg none none w) (hB : InvB none w) (p : Nat) :
    InvB none (step w (.dpub p)).1 := by
  rw [C01P.step_dpub]
  cases hP : getP w p with
  | none => exact hB
  | some P =>
    simp only
    split
    · exact hB
    · rename_i hal
      simp only [Bool.not_eq_true', Bool.not_eq_false] at hal
      have hA1 := hA.unregisterPub hP hal
      have hB1 : InvB none { setP w p { P with alive := false } with pubReg := w.pubReg.remove P.slot } :=
        invB_pubReg (hB.setP_irrel (P' := { P with alive := false }) hP
          ⟨rfl, rfl, rfl, rfl, rfl, rfl, rfl, rfl, rfl, rfl⟩) _
      exact (invAB_pubDestroyIfUnreferenced ⟨hA1, hB1⟩ p (fun c fr hh => by cases hh)).b

theorem invB_step_csub (hA : InvA cfg none none w) (hB : InvB none w) (s : Nat) (b hh : Option Nat) :
    InvB none (step w (.csub s b hh)).1 := by
  rw [C01P.step_csub]
  split
  · exact hB
  · rename_i hf
    have hfresh : getS w s = none := by
      cases hg : getS w s with
      | none => rfl
      | some _ => rw [hg] at hf; simp at hf
    cases hb : csubBuffer w b with
    | none => exact hB
    | some buffer =>
      simp only
      cases hh' : csubHist w hh buffer with
      | error e => exact hB
      | ok histReq =>
        simp only
        unfold csubCore
        have hB0 : InvB none (addS w s (newSub w buffer histReq)) := invB_addS_new hA hB hfresh _
        have hg0 : getS (addS w s (newSub w buffer histReq)) s = some (newSub w buffer histReq) := by
          rw [getS_addS, hfresh]; simp
        have h1 : InvB none (subForceUpdate (addS w s (newSub w buffer histReq)) s) :=
          InvB.subStep (subForceUpdate_step _ s) hB0
        have f1 := subForceUpdate_frame (addS w s (newSub w buffer histReq)) s
        obtain ⟨S1, hS1, st1⟩ := f1.ssome s _ hg0
        simp only
        generalize subForceUpdate (addS w s (newSub w buffer histReq)) s = w1 at h1 hS1
        rw [hS1]
        cases hadd : w1.subReg.add { sid := s, buffer := buffer, histReq := histReq } with
        | none =>
          simp only
          refine invB_finishPanic hB _ ?_
          exact invB_delS (InvB.subStep (subDestroyKeys_step w1 s _) h1) s
        | some rs =>
          obtain ⟨reg, slot⟩ := rs
          simp only
          refine invB_finishPanic hB _ ?_
          exact invB_subReg (h1.setS_irrel (S' := { S1 with slot := slot }) hS1 rfl id) reg

theorem invB_step_dsub (hB : InvB none w) (s : Nat) : InvB none (step w (.dsub s)).1 := by
  rw [C01P.step_dsub]
  cases hS : getS w s with
  | none => exact hB
  | some S =>
    simp only
    split
    · exact hB
    · have hB1 : InvB none { setS w s { S with alive := false } with subReg := w.subReg.remove S.slot } :=
        invB_subReg (hB.setS_irrel (S' := { S with alive := false }) hS rfl (fun hx => by cases hx)) _
      exact InvB.subStep (subDestroyIfUnreferenced_step _ s) hB1

theorem invB_step_updP (hA : InvA cfg none none w) (hB : InvB none w) (p : Nat) :
    InvB none (step w (.updP p)).1 := by
  rw [C01P.step_updP]
  cases hP : getP w p with
  | none => exact hB
  | some P =>
    simp only
    split
    · exact hB
    · rename_i hal
      simp only [Bool.not_eq_true', Bool.not_eq_false] at hal
      refine invB_finishPanic hB _ ?_
      exact (invAB_pubUpdate ⟨hA, hB⟩ p (fun P' hP' => by rw [hP] at hP'; cases hP'; exact hal)).b

theorem invB_step_updS (hB : InvB none w) (s : Nat) : InvB none (step w (.updS s)).1 := by
  rw [C01P.step_updS]
  cases hS : getS w s with
  | none => exact hB
  | some S =>
    simp only
    split
    · exact hB
    · exact invB_finishPanic hB _ (InvB.subStep (subUpdate_step w s) hB)

theorem invB_step_has (hB : InvB none w) (s : Nat) : InvB none (step w (.has s)).1 := by
  rw [C01P.step_has]
  cases hS : getS w s with
  | none => exact hB
  | some S =>
    simp only
    split
    · exact hB
    · have h1 : InvB none (subUpdate w s) := InvB.subStep (subUpdate_step w s) hB
      split
      · exact hB.panic
      · split <;> exact h1

theorem invB_step_recv (hB : InvB none w) (s : Nat) : InvB none (step w (.recv s)).1 := by
  rw [C01P.step_recv]
  cases hS : getS w s with
  | none => exact hB
  | some S0 =>
    simp only
    split
    · exact hB
    · have h1 : InvB none (subUpdate w s) := InvB.subStep (subUpdate_step w s) hB
      split
      · exact hB.panic
      · have post := subReceive_post (I := InvB none)
          (fun w s S t hI hS => hI.setS_irrel (S' := { S with tbr := t }) hS rfl id)
          (fun w s key hI => InvB.subStep (subDropConn_step w s key) hI) s h1
        generalize subReceive (subUpdate w s) s = r at post
        obtain ⟨w2, res⟩ := r
        obtain ⟨_, post⟩ := post
        cases res with
        | none => exact post
        | maxBorrow => exact post
        | some key p ch q =>
          simp only at post ⊢
          obtain ⟨w', c, rest, hI, _, hC, hsub, ⟨S', hS', _⟩, hw2⟩ := post
          subst hw2
          rw [getS_setC, hS']
          simp only
          exact invB_recvStep hI hS' hC hsub rfl rfl rfl rfl

theorem invB_step_dsample (hB : InvB none w) (s k : Nat) : InvB none (step w (.dsample s k)).1 := by
  rw [C01P.step_dsample]
  cases hS : getS w s with
  | none => exact hB
  | some S =>
    simp only
    cases hk : S.held[k]? with
    | none => exact hB
    | some hd =>
      simp only
      exact InvB.subStep (subDestroyIfUnreferenced_step _ s) (invB_releaseStep hB hS hk)

end Iox2.PubSub.C01P
