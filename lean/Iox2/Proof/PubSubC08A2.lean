/-
C08 helper: every receiver-attached connection of subscriber `s` is in its connection storage
(needed only for the refused creation of a subscriber: nothing of the attempt remains).
-/
import Iox2.Proof.PubSubC08OpB
set_option linter.unusedSimpArgs false
set_option linter.unusedVariables false
namespace Iox2.PubSub.C08
open Iox2.PubSub
open Iox2.C16.SlotMapP (abs)
attribute [-simp] List.getD_eq_getElem?_getD

/-- receiver-attached connections of `s` are stored (or the world has panicked / `s` is unknown) -/
def RIn (s : Nat) (w : World) : Prop :=
  w.panicked = true ∨ getS w s = none ∨
    ∃ S, getS w s = some S ∧ SmInv S.storage ∧
      ∀ a c, getC w a s = some c → c.rAtt = true → ∃ k, abs S.storage k = some a

theorem RIn.setS_storage {s : Nat} {w : World} (h : RIn s w) {S : Sub} (hS : getS w s = some S) (S' : Sub)
    (hst : S'.storage = S.storage) : RIn s (setS w s S') := by
  rcases h with hp | hn | ⟨S0, hS0, hI, hall⟩
  · exact .inl hp
  · rw [hS] at hn; cases hn
  · rw [hS] at hS0; cases hS0
    exact .inr (.inr ⟨S', by simp [hS], by rw [hst]; exact hI, fun a c hc hr => by rw [hst]; exact hall a c hc hr⟩)

theorem subDropConn_RIn {s : Nat} {w : World} (h : RIn s w) (key : Nat) : RIn s (subDropConn w s key) := by
  rcases h with hp | hn | ⟨S, hS, hI, hall⟩
  · exact .inl (by rw [subDropConn_panicked]; exact hp)
  · unfold subDropConn; rw [hn]; exact .inr (.inl hn)
  · cases hk : smGet S.storage key with
    | none => rw [subDropConn_noop hS hk]; exact .inr (.inr ⟨S, hS, hI, hall⟩)
    | some p =>
      rw [subDropConn_eq hS hk]
      obtain ⟨r1, r2, r3⟩ := smRemove_spec hI key
      have hkp : abs S.storage key = some p := by rw [← smGet_eq hI]; exact hk
      refine .inr (.inr ⟨{ S with storage := smRemove S.storage key }, ?_, r1, ?_⟩)
      · rw [getS_of_subs (detachReceiver_subs _ _ _)]; simp [hS]
      · intro a c hc hr
        rw [detachReceiver_getC, getC_setS] at hc
        by_cases hap : a = p
        · subst hap
          simp only [and_self, if_true] at hc
          cases hc0 : getC w a s with
          | none => rw [hc0] at hc; cases hc
          | some c0 =>
            rw [hc0] at hc
            simp only [Option.bind_some, detR] at hc
            split at hc
            · cases hc; cases hr
            · cases hc
        · simp [hap] at hc
          obtain ⟨k, hk'⟩ := hall a c hc hr
          refine ⟨k, ?_⟩
          show abs (smRemove S.storage key) k = some a
          rw [r3]
          have : k ≠ key := by intro e; rw [e, hkp] at hk'; cases hk'; exact hap rfl
          simp [this, hk']

theorem prepEvict_RIn {s : Nat} {w : World} (h : RIn s w) {S : Sub} (hS : getS w s = some S) (hb : Bool) :
    RIn s (prepEvict w s S hb) := by
  unfold prepEvict
  split
  · refine subDropConn_RIn ?_ _
    exact h.setS_storage hS _ rfl
  · split
    · split
      · refine subDropConn_RIn ?_ _
        exact h.setS_storage hS _ rfl
      · exact h
    · exact h

theorem prepRetry_RIn {s : Nat} {w : World} (h : RIn s w) (key : Nat) (hb : Bool) : RIn s (prepRetry w s key hb) := by
  unfold prepRetry
  split
  · exact h
  next S hS =>
    split
    · exact h.setS_storage hS _ rfl
    · split
      · exact .inl rfl
      · exact subDropConn_RIn h _

theorem subPrepareRemoval_RIn {s : Nat} {w : World} (h : RIn s w) (slot : Nat) :
    RIn s (subPrepareRemoval w s slot) := by
  rw [subPrepareRemoval_eq]
  split
  · exact h
  next S hS =>
    split
    · exact h
    · split
      · exact h
      · split
        · split
          · exact h.setS_storage hS _ rfl
          · exact prepRetry_RIn (prepEvict_RIn h hS _) _ _
        · exact subDropConn_RIn h _

theorem subAttach_getC (w : World) (s p : Nat) (S : Sub) (a b : Nat) :
    ∃ c', getC (subAttach w s p S) p s = some c' ∧
      getC (subAttach w s p S) a b = if a = p ∧ b = s then some c' else getC w a b := by
  unfold subAttach
  cases hc : getC w p s with
  | some c =>
    have hkey := getC_key hc
    have hk1 : ({ c with rAtt := true } : Conn).pid = p ∧ ({ c with rAtt := true } : Conn).sid = s := hkey
    exact ⟨{ c with rAtt := true }, by rw [getC_setC_self hc _ hk1]; simp, getC_setC_self hc _ hk1 a b⟩
  | none =>
    exact ⟨newConnS w s p S, by rw [getC_pushC w _ _ _ hc]; simp [newConnS],
      by rw [getC_pushC w _ _ _ hc]; rfl⟩

theorem subAttach_subs (w : World) (s p : Nat) (S : Sub) : (subAttach w s p S).subs = w.subs := by
  unfold subAttach; split <;> rfl

theorem subAttach_panicked (w : World) (s p : Nat) (S : Sub) : (subAttach w s p S).panicked = w.panicked := by
  unfold subAttach; split <;> rfl

theorem subCreateConn_RIn {s : Nat} {w : World} (h : RIn s w) (slot p : Nat) :
    RIn s (subCreateConn w s slot p) := by
  rw [subCreateConn_eq]
  rcases h with hp | hn | ⟨S, hS, hI, hall⟩
  · left
    split
    · exact hp
    · split
      · show (subAttach w s p _).panicked = true
        rw [subAttach_panicked]; exact hp
      · rfl
  · rw [hn]; exact .inr (.inl hn)
  · rw [hS]
    dsimp only
    rcases smInsert_spec hI p with ⟨key, m, hins, hkn, hklt, hmI, hmcap, hmabs⟩ | ⟨hfail, _⟩
    · rw [hins]
      dsimp only
      refine .inr (.inr ⟨{ S with storage := m, conns := S.conns.set slot (some key) }, ?_, hmI, ?_⟩)
      · rw [getS_setS, getS_of_subs (subAttach_subs _ _ _ _), hS]; simp
      · intro a c hc hr
        rw [getC_setS] at hc
        obtain ⟨c', _, hg⟩ := subAttach_getC w s p S a s
        rw [hg] at hc
        show ∃ k, abs m k = some a
        by_cases hap : a = p
        · subst hap
          exact ⟨key, by rw [hmabs]; simp⟩
        · simp [hap] at hc
          obtain ⟨k, hk⟩ := hall a c hc hr
          refine ⟨k, ?_⟩
          rw [hmabs]
          have : k ≠ key := by intro e; rw [e, hkn] at hk; cases hk
          simp [this, hk]
    · left
      cases hi : smInsert S.storage p with
      | mk m o =>
        rw [hi] at hfail
        simp only at hfail
        subst hfail
        rfl

theorem subUpdateSlots_RIn {s : Nat} (l : List (Option Nat)) :
    ∀ {w : World} (h : RIn s w) (i : Nat) (t : List Nat), RIn s (subUpdateSlots w s l i t).1 := by
  induction l with
  | nil => intro w h i t; exact h
  | cons a r ih =>
    intro w h i t
    cases a with
    | none => rw [subUpdateSlots]; exact ih h _ _
    | some p =>
      rw [subUpdateSlots_cons_some]
      split
      · exact h
      · split
        · exact ih h _ _
        · exact ih (subCreateConn_RIn (subPrepareRemoval_RIn h _) _ _) _ _

theorem subFinishOne_RIn {s : Nat} {w : World} (h : RIn s w) (S : Sub) (t : List Nat) (n : Nat) :
    RIn s (subFinishOne w s S t n) := by
  unfold subFinishOne
  split
  · exact h
  · split
    · split
      next S' hS' => exact (subPrepareRemoval_RIn h n).setS_storage hS' _ rfl
      · exact subPrepareRemoval_RIn h n
    · exact h

theorem subFinish_RIn {s : Nat} (t : List Nat) (fuel : Nat) :
    ∀ {w : World} (h : RIn s w) (n : Nat), RIn s (subFinish w s t fuel n) := by
  induction fuel with
  | zero => intro w h n; exact h
  | succ fuel ih =>
    intro w h n
    rw [subFinish_succ]
    split
    · exact h
    · split
      · exact h
      · exact ih (subFinishOne_RIn h _ _ _) _

theorem subForceUpdate_RIn {s : Nat} {w : World} (h : RIn s w) : RIn s (subForceUpdate w s) := by
  unfold subForceUpdate
  split
  · exact h
  · exact subFinish_RIn _ _ (subUpdateSlots_RIn _ h _ _) _

end Iox2.PubSub.C08
